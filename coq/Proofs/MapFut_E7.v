(* Layer E7 (C03): the _delegate field follows the delegate-resolution token. *)
From Coq Require Import ZArith List Bool Arith Lia.
From RecordUpdate Require Import RecordSet.
From ME Require Import Base.Machine Base.Fut Base.GenPrelude Model.MapFut Model.MapLaw Proofs.MapFut_InvD Proofs.MapFut_E1 Proofs.MapFut_E2 Proofs.MapFut_E3 Proofs.MapFut_E4.
Import ListNotations RecordSetNotations.

Definition isAdd (d j : nat) (i : instr) : bool :=
  match i with IAddCbE d' j' => Nat.eqb d d' && Nat.eqb j j' | _ => false end.
Definition isAcqSd (j d : nat) (i : instr) : bool :=
  match i with IAcqMSet j' (Some d') _ => Nat.eqb j j' && Nat.eqb d d' | _ => false end.
Definition isAcqN (j : nat) (i : instr) : bool :=
  match i with IAcqMSet j' None _ => Nat.eqb j j' | _ => false end.

(* adjacency: every _set_delegate acquisition is followed by the release and its token *)
Definition nxt3 (i : instr) (r : list instr) : bool :=
  match i with
  | IAcqMSet j x _ =>
      match r with
      | IRelM j1 :: i2 :: _ => Nat.eqb j j1 && match x with Some d => isAdd d j i2 | None => wQ j i2 end
      | _ => false
      end
  | _ => true
  end.
Fixpoint shape3 (p : list instr) : bool := match p with [] => true | i :: r => nxt3 i r && shape3 r end.
Definition shape3_all (s : st) : Prop := forall t, shape3 (thr s t) = true.

Lemma shape3_cons i r : shape3 (i :: r) = true -> shape3 r = true.
Proof. simpl; intros H; apply andb_prop in H; tauto. Qed.
Lemma shape3_tl r : shape3 r = true -> shape3 (tl r) = true.
Proof. destruct r; simpl; auto. intros H; apply andb_prop in H; tauto. Qed.
Lemma shape3_upd s t p : shape3_all s -> shape3 p = true -> forall t', shape3 (upd (thr s) t p t') = true.
Proof.
  intros I Hp t'. destruct (Nat.eq_dec t' t) as [->|N]; [rewrite upd_same; exact Hp|rewrite upd_other by exact N; apply I].
Qed.
Lemma shape3_fires s d r : shape3 r = true -> shape3 (fires s d r) = true.
Proof. intros H; unfold fires. induction (ecbs s d); simpl; rewrite ?Nat.eqb_refl; auto. Qed.
Lemma shape3_on_mapped s j x r : shape3 r = true -> shape3 (on_mapped s j x ++ r) = true.
Proof.
  intros H; unfold on_mapped. destruct (mkind s j), (mflat s j), x; simpl; rewrite ?Nat.eqb_refl; auto.
Qed.
Lemma shape3_cbs j l r : shape3 r = true -> shape3 (map (fun c => IUserCb j c false) l ++ r) = true.
Proof. intros H; induction l; simpl; auto. Qed.

Lemma lstep_shape3 s e s0 : lstep s e = Some s0 -> shape3_all s -> shape3_all s0.
Proof.
  intros H I. step_cases H; try exact I.
  all: intros t'; simpl; apply shape3_upd; [exact I|].
  all: match goal with E : thr _ ?t = _ |- _ => pose proof (I t) as It; rewrite E in It; try apply shape3_cons in It end.
  all: try assumption; try reflexivity.
  all: try (simpl; rewrite ?Nat.eqb_refl; simpl; first [assumption | apply shape3_on_mapped; assumption | apply shape3_fires; simpl; assumption]).
  all: try (apply shape3_cbs; assumption).
  all: try (simpl; apply shape3_tl; assumption).
Qed.
Lemma sil_shape3 t s s' : sil t s s' -> shape3_all s -> shape3_all s'.
Proof.
  intros H I t'. destruct (sil_thr _ _ _ H) as (i & r & Et & Ho & Hr).
  destruct (Nat.eq_dec t' t) as [->|N]; [|rewrite Ho by exact N; apply I].
  pose proof (I t) as It. rewrite Et in It. apply shape3_cons in It.
  destruct Hr as [->|(j & -> & ->)]; [exact It|apply shape3_cbs; exact It].
Qed.

(* a pending _set_delegate of j owns j's token *)
Lemma acq_tok s t0 j x fl r : shape3_all s -> Dloc s -> thr s t0 = IAcqMSet j x fl :: r ->
  (forall t, t <> t0 -> cnt (wD j) (thr s t) = 0) /\ (forall d, cnt (Nat.eqb j) (ecbs s d) = 0) /\
  exists tok r', r = IRelM j :: tok :: r' /\ cnt (wD j) r' = 0 /\
    match x with Some d => tok = IAddCbE d j | None => wQ j tok = true end.
Proof.
  intros S3 [loc L] E. destruct (L j) as [L1 L2]. pose proof (S3 t0) as Sh. rewrite E in Sh. simpl in Sh.
  destruct r as [|[] [|tok r']]; try discriminate Sh.
  apply andb_prop in Sh. destruct Sh as [Sh _]. apply andb_prop in Sh. destruct Sh as [Sj St]. apply Nat.eqb_eq in Sj. subst j0.
  assert (WT : wD j tok = true).
  { destruct x.
    - destruct tok; try discriminate St. simpl in St. apply andb_prop in St. destruct St as [_ St].
      unfold wD. simpl. rewrite St. rewrite ?orb_true_r. reflexivity.
    - unfold wD. rewrite St. rewrite ?orb_true_r. reflexivity. }
  assert (W : cnt (wD j) (thr s t0) = 1 + cnt (wD j) r').
  { rewrite E, !cnt_cons, WT. unfold wD; simpl. reflexivity. }
  assert (LL : loc j = DT t0) by (apply isDT_ge1; specialize (L1 t0); lia).
  rewrite LL in *. split; [|split].
  - intros t N. specialize (L1 t). rewrite isDT_other in L1 by exact N. lia.
  - intros d. specialize (L2 d). simpl in L2. lia.
  - exists tok, r'. split; [reflexivity|]. split; [specialize (L1 t0); rewrite isDT_same in L1; lia|].
    destruct x; [|exact St]. destruct tok; try discriminate St. simpl in St. apply andb_prop in St. destruct St as [S1 S2].
    apply Nat.eqb_eq in S1, S2. subst. reflexivity.
Qed.

(* ---- who writes _delegate -------------------------------------------------------------------- *)
Lemma lstep_mdel_cases s e s0 : lstep s e = Some s0 -> forall j,
  (mdel s0 j = mdel s j /\ forall i r, thr s (tid e) = i :: r -> forall d, isAcqSd j d i = false) \/
  (j = nfut s /\ mdel s0 j = None /\ exists d0, thr s0 (tid e) = [IAcqMSet j (Some d0) false; IRelM j; IAddCbE d0 j; IRet]) \/
  (exists x fl r, thr s (tid e) = IAcqMSet j x fl :: r /\ mdel s0 j = x /\ thr s0 (tid e) = r).
Proof.
  intros H. step_cases H; intros j'; simpl.
  all: try (left; split; [reflexivity|]; intros i r E; rewrite Heql in E; first [discriminate E | inversion E; subst; reflexivity]).
  - usplit (nfut s); [right; left; rewrite ?upd_same; eauto|].
    left; split; [reflexivity|]. intros i r E; rewrite Heql in E; discriminate E.
  - usplit j0.
    + right; right. rewrite ?upd_same. eexists _, _, _. split; [exact Heql|split; reflexivity].
    + left; split; [reflexivity|]. intros i r E d; rewrite Heql in E; inversion E; subst. simpl.
      apply Nat.eqb_neq in n. rewrite n. destruct x; reflexivity.
Qed.
Lemma sil_mdel_cases t s s' : sil t s s' -> forall j,
  (mdel s' j = mdel s j /\ forall i r, thr s t = i :: r -> forall d, isAcqSd j d i = false) \/
  (exists x fl r, thr s t = IAcqMSet j x fl :: r /\ mdel s' j = x /\ thr s' t = r).
Proof.
  intros H j'; inversion H; subst; simpl; pose proof (upd_eq_same _ _ _ _ H0) as Et.
  all: try (left; split; [reflexivity|]; intros i0 r0 E; rewrite Et in E; inversion E; subst; reflexivity).
  usplit j.
  - right. rewrite Et, ?upd_same. eexists _, _, _. split; [reflexivity|split; reflexivity].
  - left; split; [reflexivity|]. intros i0 r0 E d; rewrite Et in E; inversion E; subst. simpl.
    apply Nat.eqb_neq in n. rewrite n. destruct x; reflexivity.
Qed.

Definition gM (C : Prop) (j d : nat) (p : list instr) : Prop := grd C (isAcqSd j d) (isAdd d j) p.

Lemma isAdd_wD d j i : isAdd d j i = true -> wD j i = true.
Proof.
  destruct i; simpl; try discriminate. intros H. apply andb_prop in H. destruct H as [_ H].
  unfold wD. simpl. rewrite H. rewrite ?orb_true_r. reflexivity.
Qed.
Lemma gM_quiet C j d p : cnt (wD j) p = 0 -> gM C j d p.
Proof.
  intros H. apply grd_noT. intros i Hi. destruct (isAdd d j i) eqn:E; auto.
  pose proof (in_cnt_pos _ _ _ Hi (isAdd_wD _ _ _ E)). lia.
Qed.
Lemma gM_fires C j d s d0 r : gM C j d r -> gM C j d (fires s d0 r).
Proof.
  intros H; unfold fires. apply grd_app; [|exact H].
  intros i Hi. apply in_flat_map in Hi. destruct Hi as (j0 & _ & Hi). simpl in Hi.
  repeat (destruct Hi as [<-|Hi]; [reflexivity|]). destruct Hi.
Qed.
Lemma gM_cbs C j d j0 l r : gM C j d r -> gM C j d (map (fun c => IUserCb j0 c false) l ++ r).
Proof.
  intros H. apply grd_app; [|exact H]. intros i Hi. apply in_map_iff in Hi. destruct Hi as (c & <- & _). reflexivity.
Qed.
Lemma gM_pat C j d j0 d0 fl r : gM C j d r -> gM C j d (IAcqMSet j0 (Some d0) fl :: IRelM j0 :: IAddCbE d0 j0 :: r).
Proof.
  intros H. unfold gM. simpl. split; [discriminate|].
  destruct (Nat.eqb j j0) eqn:Ej, (Nat.eqb d d0) eqn:Ed; simpl; auto.
  all: right; split; [discriminate|right]; (split; [discriminate|right; exact H]).
Qed.
Lemma gM_on_mapped C j d s j0 x r : gM C j d r -> gM C j d (on_mapped s j0 x ++ r).
Proof.
  intros H. unfold on_mapped. destruct (mkind s j0), (mflat s j0), x; simpl;
    try (apply gM_pat; exact H); unfold gM; simpl; repeat (split; [discriminate|right]); exact H.
Qed.

(* program transformation of the stepping thread keeps the guard, unless the head is the guard itself *)
Lemma lstep_gM_prog s e s0 : lstep s e = Some s0 -> shape_all s -> forall (C : Prop) j d,
  gM C j d (thr s (tid e)) -> (forall i r, thr s (tid e) = i :: r -> isAcqSd j d i = false) ->
  gM C j d (thr s0 (tid e)).
Proof.
  intros H SH C j' d' G NG. pose proof (SH (tid e)) as Sh.
  step_cases H; simpl in *; rewrite ?upd_same; try exact G.
  all: try (apply (gM_pat C j' d' _ _ false); unfold gM; simpl; split; [discriminate|right; exact I]).
  all: try (unfold gM; simpl; repeat (split; [discriminate|right]); exact I).
  all: try (apply gM_fires; exact I).
  all: match goal with E : thr _ _ = _ :: _ |- _ => rewrite E in G, Sh; specialize (NG _ _ E) end.
  all: apply grd_tl in G; [|exact NG].
  all: try (apply gM_on_mapped); try (apply gM_fires); try (apply gM_cbs); try exact G.
  all: try (unfold gM; simpl; repeat (split; [discriminate|right]); first [exact G | apply gM_on_mapped; exact G]).
  all: simpl in Sh; destruct l as [|[] l']; try discriminate Sh; apply grd_tl in G; [|reflexivity].
  all: unfold gM; simpl; split; [discriminate|right; exact G].
Qed.

Record Md (s : st) : Prop := {
  m_grd : forall t j d, gM (mdel s j = Some d) j d (thr s t);
  m_ecbs : forall d j, In j (ecbs s d) -> mdel s j = Some d
}.

Lemma gM_unborn C s t j d : Bnd s -> nfut s <= j -> gM C j d (thr s t).
Proof. intros B L. apply gM_quiet. apply cntD_unborn; assumption. Qed.

Lemma lstep_m_grd s e s0 : lstep s e = Some s0 -> shape_all s -> shape3_all s -> Bnd s -> Dloc s -> Md s ->
  forall t j d, gM (mdel s0 j = Some d) j d (thr s0 t).
Proof.
  intros H SH S3 B D M t j d. pose proof (m_grd _ M) as G.
  destruct (lstep_mdel_cases _ _ _ H j) as [[E NG]|[(E1 & E2 & d0 & E3)|(x & fl & r & E1 & E2 & E3)]].
  - rewrite E. destruct (Nat.eq_dec t (tid e)) as [->|N]; [|rewrite (lstep_thr_other _ _ _ H _ N); apply G].
    eapply lstep_gM_prog; eauto.
  - subst j. destruct (Nat.eq_dec t (tid e)) as [->|N].
    + rewrite E3. apply (gM_pat _ _ _ _ _ false). unfold gM; simpl. split; [discriminate|right; exact I].
    + rewrite (lstep_thr_other _ _ _ H _ N). apply gM_unborn; auto.
  - destruct (acq_tok _ _ _ _ _ _ S3 D E1) as (U1 & U2 & tok & r' & -> & U3 & U4).
    destruct (Nat.eq_dec t (tid e)) as [->|N].
    + rewrite E3. unfold gM. simpl. split; [discriminate|right]. split.
      * intros T. rewrite E2. destruct x; [subst tok; simpl in T; apply andb_prop in T; destruct T as [T _]; apply Nat.eqb_eq in T; subst; reflexivity|].
        destruct tok; simpl in T, U4; discriminate.
      * right. apply gM_quiet. exact U3.
    + rewrite (lstep_thr_other _ _ _ H _ N). apply gM_quiet. apply U1. exact N.
Qed.

Lemma lstep_ecbs_cases s e s0 : lstep s e = Some s0 -> forall d j, In j (ecbs s0 d) ->
  In j (ecbs s d) \/ (exists r, thr s (tid e) = IAddCbE d j :: r).
Proof.
  intros H. step_cases H; intros d' j' X; simpl in *; auto.
  all: try (usplit d0); try (usplit d); auto; try (destruct X; fail).
  apply in_app_or in X. destruct X as [X|[<-|[]]]; eauto.
Qed.

Lemma lstep_m_ecbs s e s0 : lstep s e = Some s0 -> shape3_all s -> Bnd s -> Dloc s -> Md s ->
  forall d j, In j (ecbs s0 d) -> mdel s0 j = Some d.
Proof.
  intros H S3 B D M d j X.
  assert (Y : mdel s j = Some d /\ ((In j (ecbs s d) /\ j < nfut s) \/ exists r, thr s (tid e) = IAddCbE d j :: r)).
  { destruct (lstep_ecbs_cases _ _ _ H d j X) as [Y|(r & Y)].
    - split; [apply (m_ecbs _ M); exact Y|left; split; [exact Y|]].
      pose proof (b_ecbs _ B d) as F. rewrite Forall_forall in F. apply F; exact Y.
    - split; [|right; eauto]. pose proof (m_grd _ M (tid e) j d) as G. rewrite Y in G. destruct G as [G _].
      apply G. simpl. rewrite !Nat.eqb_refl. reflexivity. }
  destruct Y as [Y1 Y2].
  destruct (lstep_mdel_cases _ _ _ H j) as [[E NG]|[(E1 & E2 & d0 & E3)|(x & fl & r & E1 & E2 & E3)]].
  - rewrite E; exact Y1.
  - exfalso. destruct Y2 as [[_ Y2]|(r & Y2)]; [lia|].
    pose proof (b_thr _ B (tid e)) as F. rewrite Y2 in F. inversion F; subst. unfold okI in H2; simpl in H2. lia.
  - exfalso. destruct (acq_tok _ _ _ _ _ _ S3 D E1) as (_ & U2 & _).
    destruct Y2 as [[Y2 _]|(r' & Y2)]; [|rewrite Y2 in E1; discriminate E1].
    specialize (U2 d). pose proof (in_cnt_pos (Nat.eqb j) _ _ Y2 (Nat.eqb_refl j)). lia.
Qed.

Lemma sil_md t s s' : sil t s s' -> shape3_all s -> Dloc s -> Md s -> Md s'.
Proof.
  intros H S3 D [G W]. destruct (sil_thr _ _ _ H) as (i & r & Et & Ho & Hr).
  constructor.
  - intros t' j d. destruct (sil_mdel_cases _ _ _ H j) as [[E NG]|(x & fl & r0 & E1 & E2 & E3)].
    + rewrite E. destruct (Nat.eq_dec t' t) as [->|N]; [|rewrite Ho by exact N; apply G].
      pose proof (G t j d) as Gt. rewrite Et in Gt. apply grd_tl in Gt; [|eapply NG; eauto].
      destruct Hr as [->|(j0 & -> & ->)]; [exact Gt|apply gM_cbs; exact Gt].
    + destruct (acq_tok _ _ _ _ _ _ S3 D E1) as (U1 & U2 & tok & r' & -> & U3 & U4).
      destruct (Nat.eq_dec t' t) as [->|N].
      * rewrite E3. unfold gM. simpl. split; [discriminate|right]. split.
        -- intros T. rewrite E2. destruct x; [subst tok; simpl in T; apply andb_prop in T; destruct T as [T _]; apply Nat.eqb_eq in T; subst; reflexivity|].
           destruct tok; simpl in T, U4; discriminate.
        -- right. apply gM_quiet. exact U3.
      * rewrite Ho by exact N. apply gM_quiet. apply U1. exact N.
  - intros d j. rewrite (sil_ecbs _ _ _ H). intros X. pose proof (W d j X) as Y.
    destruct (sil_mdel_cases _ _ _ H j) as [[E NG]|(x & fl & r0 & E1 & E2 & E3)]; [rewrite E; exact Y|].
    exfalso. destruct (acq_tok _ _ _ _ _ _ S3 D E1) as (_ & U2 & _).
    specialize (U2 d). pose proof (in_cnt_pos (Nat.eqb j) _ _ X (Nat.eqb_refl j)). lia.
Qed.

Lemma md_init : Md init.
Proof. constructor; simpl; intros; [exact I|contradiction]. Qed.

Definition Inv10 (s : st) : Prop := Inv8 s /\ (shape3_all s /\ Md s).
Lemma linv10 : linv Inv10.
Proof.
  apply linv_and; [apply linv8| | |].
  - split; [intros t; reflexivity|apply md_init].
  - intros s e s0 [[I6 _] _] _ [S3 M] H.
    pose proof (inv6_shape _ I6) as SH. pose proof (inv6_bnd _ I6) as B. pose proof (inv6_dloc _ I6) as D.
    split; [eapply lstep_shape3; eauto|]. constructor.
    + eapply lstep_m_grd; eauto.
    + eapply lstep_m_ecbs; eauto.
  - intros t s s' [[I6 _] _] _ [S3 M] H.
    split; [eapply sil_shape3; eauto|eapply sil_md; eauto; apply (inv6_dloc _ I6)].
Qed.
Lemma inv10_reach s : reachable s -> Inv10 s.
Proof. apply linv_reach; [apply linv10|]. intros s0 H; apply H. Qed.

(* C03 (d), with the _delegate field in the waiting case *)
Lemma mapfut_no_lost_field : forall s, reachable s -> (forall t, thr s t = []) -> forall j, j < nfut s ->
  fdone (ms s j) = false ->
  exists d, tokP s j d /\
    ((mdel s j = Some d /\ In j (ecbs s d) /\ fdone (es s d) = false) \/
     ((forall d', ~ In j (ecbs s d')) /\ fcancelled (es s d) = true)).
Proof.
  intros s R Q j L D0. destruct (inv10_reach s R) as [[[I6 (E & N & CN)] _] [_ M]].
  destruct (mapfut_no_lost s R Q j L D0) as (d & T & [[X1 X2]|X]).
  - exists d. split; [exact T|left]. split; [apply (m_ecbs _ M); exact X1|split; assumption].
  - exists d. split; [exact T|right]. split; [|exact X].
    intros d' Y. pose proof (o_ecbs _ (inv6_ol _ I6) _ _ Y) as T'.
    pose proof (tokP_unique _ _ _ _ (inv6_fn _ I6) CN T T') as <-.
    assert (Z : fdone (es s d) = true) by (destruct (es s d); simpl in *; congruence).
    rewrite (E d Z) in Y. destruct Y.
Qed.
