(* Frame lemmas, norm lemmas and the step-inversion tactic for the combinator machine. *)
From Coq Require Import List Arith Bool Lia PeanoNat ZArith.
From RecordUpdate Require Import RecordSet.
From ME Require Import Base.Machine Base.Fut Base.GenPrelude Gen.BoolGen Gen.ZipGen Model.Comb Proofs.Comb_Spec.
Import ListNotations RecordSetNotations.

Definition reachable := reachable_from step init.
Definition quiescent (s : st) := forall t, thr s t = [].
Definition seen_in (l : list hev) (x : nat) := exists v, In (HSeen x v) l.

(* ---- norm -------------------------------------------------------------------------------- *)
Lemma Forall_norm (P : instr -> Prop) b p : P IDead -> Forall P p -> Forall P (norm b p).
Proof.
  intros Hd. revert b. induction p as [|i r IH]; intros b H; simpl.
  - destruct b; auto.
  - inversion H; subst. destruct i; try (destruct b; [apply IH; assumption| assumption]); apply IH; assumption.
Qed.

Definition nothrow (i : instr) : Prop := i <> IThrow /\ i <> IDead /\ i <> IRetRaise.

(* without IThrow, normalisation only drops leading ICatch *)
Lemma norm_nothrow p : Forall nothrow p -> exists k, p = repeat ICatch k ++ norm false p.
Proof.
  induction p as [|i r IH]; intros H; simpl.
  - exists 0; reflexivity.
  - inversion H; subst. destruct i; try (exists 0; reflexivity).
    + destruct (IH H3) as [k Hk]. exists (S k). simpl. f_equal. exact Hk.
    + destruct H2 as [H2 _]. congruence.
Qed.

Lemma norm_in p x : Forall nothrow p -> x <> ICatch -> In x p -> In x (norm false p).
Proof.
  intros H Hx Hin. destruct (norm_nothrow p H) as [k Hk]. rewrite Hk in Hin.
  apply in_app_or in Hin. destruct Hin as [Hin|Hin]; [|exact Hin].
  apply repeat_spec in Hin. congruence.
Qed.

Lemma norm_in_inv p x : Forall nothrow p -> In x (norm false p) -> In x p.
Proof.
  intros H Hin. destruct (norm_nothrow p H) as [k Hk]. rewrite Hk. apply in_or_app. right. exact Hin.
Qed.

(* ---- frame ------------------------------------------------------------------------------- *)
Lemma thr_set_same s t p : thr (set_prog s t p) t = norm false p.
Proof. unfold set_prog. simpl. apply upd_same. Qed.
Lemma thr_set_other s t p u : u <> t -> thr (set_prog s t p) u = thr s u.
Proof. unfold set_prog. simpl. intros. apply upd_other. assumption. Qed.
Lemma thr_log s h : thr (log s h) = thr s.
Proof. reflexivity. Qed.
Lemma hist_log s h : hist (log s h) = h :: hist s.
Proof. reflexivity. Qed.
Lemma hist_set s t p : hist (set_prog s t p) = hist s.
Proof. reflexivity. Qed.

(* ---- step inversion ---------------------------------------------------------------------- *)
Ltac head_scrut x :=
  lazymatch x with
  | match ?y with _ => _ end => head_scrut y
  | _ => x
  end.
Ltac step_inv H :=
  unfold step in H; unfold bool_remove_tolerant in H;
  repeat first
  [ rewrite zip_update_spec in H | rewrite or_update_spec in H | rewrite and_update_spec in H
  | match type of H with
    | match ?x with _ => _ end = Some _ =>
        let y := head_scrut x in destruct y eqn:?; try discriminate H
    end ];
  inversion H; subst; clear H.

(* acting thread of an event *)
Definition actor (e : ev) : nat :=
  match e with
  | ECallNew t _ _ | ECallCancelOut t | ERet t _ | EAcqL t | ERelL t | EFO t _ _ | EFI t _ _ _
  | EEnvFinish t _ _ _ | EEnvCancel t _ _ | EDied t => t
  end.

Lemma step_other_thr s e s' u : step s e = Some s' -> u <> actor e -> thr s' u = thr s u.
Proof.
  intros H Hu. destruct e; simpl in Hu; step_inv H; simpl;
    try reflexivity; try (unfold upd; apply Nat.eqb_neq in Hu; rewrite Hu; reflexivity).
Qed.

(* tidy the guards produced by step_inv *)
Ltac clean :=
  repeat match goal with
  | H : negb _ = false |- _ => apply negb_false_iff in H
  | H : negb _ = true |- _ => apply negb_true_iff in H
  | H : fstate_eqb _ _ = true |- _ => apply fstate_eqb_eq in H; subst
  | H : Nat.eqb _ _ = true |- _ => apply Nat.eqb_eq in H; subst
  | H : Nat.eqb _ _ = false |- _ => apply Nat.eqb_neq in H
  | H : _ || _ = false |- _ => apply orb_false_iff in H; destruct H
  | H : _ && _ = true |- _ => apply andb_true_iff in H; destruct H
  end.

Lemma nothrow_norm p : Forall nothrow p -> Forall nothrow (norm false p).
Proof.
  intros H. destruct (norm_nothrow p H) as [k Hk]. rewrite Hk in H. apply Forall_app in H. apply H.
Qed.

Lemma Forall_flat_map {A B} (P : B -> Prop) (f : A -> list B) l :
  (forall a, Forall P (f a)) -> Forall P (flat_map f l).
Proof. intros H. induction l; simpl; [constructor|]. apply Forall_app. split; auto. Qed.

Ltac nt := unfold nothrow; repeat split; discriminate.

Lemma nothrow_out_fires s r : Forall nothrow r -> Forall nothrow (out_fires s r).
Proof.
  intros H. unfold out_fires. apply Forall_app. split; [|exact H].
  apply Forall_flat_map. intros a. destruct (Nat.eqb a notify_id); repeat constructor; nt.
Qed.
Lemma nothrow_in_fires s d r : Forall nothrow r -> Forall nothrow (in_fires s d r).
Proof.
  intros H. unfold in_fires. apply Forall_app. split; [|exact H].
  apply Forall_flat_map. intros a. repeat constructor; nt.
Qed.
Lemma nothrow_cancels l : Forall nothrow (map cancel_instr l).
Proof.
  induction l; simpl; constructor; auto. unfold cancel_instr. destruct (Nat.eqb a out_id); nt.
Qed.

(* solve Forall nothrow goals on freshly built programs *)
Ltac nothrow_tac :=
  repeat first
  [ assumption
  | apply nothrow_out_fires | apply nothrow_in_fires | apply nothrow_cancels
  | apply Forall_nil
  | apply Forall_cons; [nt|]
  | apply Forall_app; split
  | apply Forall_flat_map; intros
  | match goal with |- Forall _ (if ?c then _ else _) => destruct c eqn:? end
  | match goal with |- Forall _ (match ?c with _ => _ end) => destruct c end ].

Definition retb_fix (b : bool) (l : list instr) : list instr :=
  match l with IRetB _ :: r => IRetB b :: r | _ => l end.
Lemma Forall_retb (P : instr -> Prop) b l : (forall b', P (IRetB b')) -> Forall P l -> Forall P (retb_fix b l).
Proof.
  intros Hb H. destruct l as [|i r]; simpl; auto. destruct i; auto. inversion H; subst. constructor; auto.
Qed.
Lemma In_retb x b l : (forall b', x <> IRetB b') -> (In x (retb_fix b l) <-> In x l).
Proof.
  intros Hx. destruct l as [|i r]; simpl; [tauto|]. destruct i; simpl; try tauto.
  split; intros [H|H]; auto; exfalso; eapply Hx; eauto.
Qed.
Ltac fold_retb :=
  try match goal with
  | H : thr _ _ = ICancelOut :: ?l, H2 : f_cancel _ = (_, ?b) |- _ =>
      let u := eval unfold retb_fix in (retb_fix b l) in
      change u with (retb_fix b l) in *
  end.

(* ---- generic Forall lemmas on freshly built programs ---------------------------------------- *)
Lemma Forall_out_fires (P : instr -> Prop) s r :
  P INotifyQ -> P ICatch -> (forall i, P (IOutCancelledQ i)) -> Forall P r -> Forall P (out_fires s r).
Proof.
  intros H1 H2 H3 H. unfold out_fires. apply Forall_app. split; [|exact H].
  apply Forall_flat_map. intros a. destruct (Nat.eqb a notify_id); repeat constructor; auto.
Qed.
Lemma Forall_in_fires (P : instr -> Prop) s d r :
  P ICatch -> (forall i, P (IAcqL i d)) -> Forall P r -> Forall P (in_fires s d r).
Proof.
  intros H1 H2 H. unfold in_fires. apply Forall_app. split; [|exact H].
  apply Forall_flat_map. intros a. repeat constructor; auto.
Qed.
Lemma Forall_cancels (P : instr -> Prop) l : P ICancelOut -> (forall x, P (ICancelIn x)) -> Forall P (map cancel_instr l).
Proof.
  intros H1 H2. induction l; simpl; constructor; auto. unfold cancel_instr. destruct (Nat.eqb a out_id); auto.
Qed.
Lemma Forall_tl {A} (P : A -> Prop) x l : Forall P (x :: l) -> Forall P l.
Proof. intros H; inversion H; assumption. Qed.

(* split Forall hypotheses on cons *)
Ltac fa_hyps :=
  repeat match goal with Hq : Forall _ (_ :: _) |- _ =>
    let a := fresh "Hhd" in let b := fresh "Htl" in
    pose proof (Forall_inv Hq) as a; pose proof (Forall_tl _ _ _ Hq) as b; clear Hq end.

(* solve Forall P goals on freshly built programs; [tac] solves the atomic P-goals *)
Ltac fa_tac tac :=
  repeat first
  [ assumption
  | apply Forall_nil
  | apply Forall_cons; [solve [tac]|]
  | apply Forall_app; split
  | apply Forall_out_fires; [solve [tac]|solve [tac]|intros; solve [tac]|]
  | apply Forall_in_fires; [solve [tac]|intros; solve [tac]|]
  | apply Forall_cancels; [solve [tac]|intros; solve [tac]]
  | apply Forall_retb; [intros; solve [tac]|]
  | apply Forall_flat_map; intros
  | match goal with |- Forall _ (if ?c then _ else _) => destruct c eqn:? end
  | match goal with |- Forall _ (match ?c with _ => _ end) => destruct c end ].

Lemma step_hist_ext s e s' : step s e = Some s' -> exists l, hist s' = l ++ hist s.
Proof.
  intros H. destruct e; step_inv H; simpl;
  repeat match goal with |- context [if ?c then _ else _] => destruct c end; simpl;
  solve [exists []; reflexivity | eexists [_]; reflexivity | eexists [_; _]; reflexivity | eexists [_; _; _]; reflexivity].
Qed.
Lemma step_hist_in s e s' h : step s e = Some s' -> In h (hist s) -> In h (hist s').
Proof. intros H Hin. destruct (step_hist_ext _ _ _ H) as [l ->]. apply in_or_app. auto. Qed.
Lemma step_seen s e s' x : step s e = Some s' -> seen_in (hist s) x -> seen_in (hist s') x.
Proof. intros H [v Hv]. exists v. eapply step_hist_in; eauto. Qed.
