(* source facts of more_executors/_impl/map.py: what the translator finds now is what the models were written against *)
From Coq Require Import List String.
From ME Require Import Gen.Src_map Model.SrcExpected.
Lemma src_map_ok : Src_map.facts = expected_map.
Proof. reflexivity. Qed.
