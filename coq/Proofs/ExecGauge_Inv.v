(* The executor-side invariant of Model/ExecGauge.v, by induction over the accepted traces. *)
From Coq Require Import ZArith List Bool Arith Lia.
From ME Require Import Base.Machine Model.ExecGauge Proofs.ExecGauge_Defs.
Import ListNotations.
Local Open Scope Z_scope.

Definition XI1 (s : xst) (e : nat) : Prop :=
  gauge s e = b2z (gauged s e && negb (flag s e)) + b2z (is_some (pend s e))
  /\ total s e = b2z (counted s e)
  /\ (flag s e = true -> created s e = true)
  /\ (forall t, pend s e = Some t -> flag s e = true /\ In (mkF t e FWon) (open s))
  /\ wins s e = b2n (flag s e)
  /\ (decs s e + b2n (is_some (pend s e)) = wins s e)%nat.

Definition XFrames (s : xst) : Prop := forall f, In f (open s) -> created s (fe f) = true.

Definition XInv (s : xst) : Prop := (forall e, XI1 s e) /\ XFrames s.

Lemma xinv_init : XInv xinit.
Proof.
  split.
  - intros e. unfold XI1; simpl. repeat split; try reflexivity; try discriminate.
  - intros f [].
Qed.

Lemma created_true s e : created s e = true -> counted s e = true /\ gauged s e = true.
Proof. unfold created. intros H. apply andb_true_iff in H. exact H. Qed.

Ltac split6 := split; [|split; [|split; [|split; [|split]]]].

Lemma xinv_step s ev s' : XInv s -> xstep s ev = Some s' -> XInv s'.
Proof.
  intros [I Fr] H. rewrite xstep_is_clean in H.
  destruct ev as [e|e|t e|t e|t e|t e|t e|e b]; simpl in H.
  - (* XIncTotal *)
    destruct (counted s e) eqn:Ec; [discriminate|]. inversion H; subst; clear H. split.
    + intros e0. destruct (I e0) as [G [T [F [P [W D]]]]]. unfold XI1, created in *; simpl.
      upd_case e0 e; split6; auto.
      * rewrite T, Ec. reflexivity.
      * intros Hf. specialize (F Hf). rewrite Ec in F. discriminate.
    + intros f Hf. specialize (Fr f Hf). apply created_true in Fr. destruct Fr as [C G].
      unfold created; simpl. unfold upd. rewrite G. destruct (Nat.eqb (fe f) e); [reflexivity|rewrite C; reflexivity].
  - (* XIncProg *)
    destruct (gauged s e) eqn:Eg; [discriminate|]. inversion H; subst; clear H. split.
    + intros e0. destruct (I e0) as [G [T [F [P [W D]]]]]. unfold XI1, created in *; simpl.
      upd_case e0 e; [|split6; auto].
      assert (flag s e = false) as Ef.
      { destruct (flag s e) eqn:Ef; [|reflexivity]. specialize (F eq_refl). rewrite Eg, andb_false_r in F. discriminate. }
      assert (pend s e = None) as Ep.
      { destruct (pend s e) as [w|] eqn:Ep; [|reflexivity]. destruct (P w eq_refl) as [X _]. congruence. }
      rewrite Ef, Ep in *. rewrite Eg in G. simpl in *. split6; auto; try lia; try discriminate.
    + intros f Hf. specialize (Fr f Hf). apply created_true in Fr. destruct Fr as [C G].
      unfold created; simpl. unfold upd. rewrite C. destruct (Nat.eqb (fe f) e); [reflexivity|rewrite G; reflexivity].
  - (* XCall *)
    destruct (created s e) eqn:Ec; [|discriminate]. inversion H; subst; clear H. split.
    + intros e0. destruct (I e0) as [G [T [F [P [W D]]]]]. unfold XI1, with_open, created in *; simpl.
      split6; auto.
      intros t0 Hp. destruct (P t0 Hp) as [X Y]. split; [exact X|right; exact Y].
    + intros f [Hf|Hf]; [subst f; exact Ec|apply Fr; exact Hf].
  - (* XWin *)
    destruct (top_is t e FCalled (open s)) eqn:Et; [|discriminate].
    destruct (flag s e) eqn:Ef; [discriminate|]. inversion H; subst; clear H.
    pose proof (top_is_spec _ _ _ _ Et) as Top. pose proof (top_is_in _ _ _ _ Et) as Tin.
    pose proof (Fr _ Tin) as Cr. simpl in Cr. split.
    + intros e0. destruct (I e0) as [G [T [F [P [W D]]]]]. unfold XI1, created in *; simpl.
      upd_case e0 e.
      * assert (pend s e = None) as Ep.
        { destruct (pend s e) as [w|] eqn:Ep; [|reflexivity]. destruct (P w eq_refl) as [X _]. congruence. }
        apply andb_true_iff in Cr. destruct Cr as [Cc Cg].
        rewrite Ef, Ep, Cg in *. simpl in *. split6; auto; try lia.
        -- intros _. rewrite Cc. reflexivity.
        -- intros t0 Hp. inversion Hp; subst. split; [reflexivity|].
           apply (in_set_top_new t0 FWon (open s) _ Top).
      * split6; auto.
        intros t0 Hp. destruct (P t0 Hp) as [X Hin]. split; [exact X|].
        eapply in_set_top_other; [exact Top|exact Hin|]. intros Y; discriminate.
    + intros f Hf. destruct (set_top_fe _ _ _ _ Hf) as [h [Hh Eh]]. unfold created; simpl.
      rewrite <- Eh. apply Fr. exact Hh.
  - (* XLose *)
    destruct (top_is t e FCalled (open s)) eqn:Et; [|discriminate].
    destruct (flag s e) eqn:Ef; [|discriminate]. inversion H; subst; clear H.
    pose proof (top_is_spec _ _ _ _ Et) as Top. split.
    + intros e0. destruct (I e0) as [G [T [F [P [W D]]]]]. unfold XI1, with_open, created in *; simpl.
      split6; auto.
      intros t0 Hp. destruct (P t0 Hp) as [X Hin]. split; [exact X|].
      eapply in_set_top_other; [exact Top|exact Hin|]. intros Y; discriminate.
    + intros f Hf. destruct (set_top_fe _ _ _ _ Hf) as [h [Hh Eh]]. unfold created, with_open; simpl.
      rewrite <- Eh. apply Fr. exact Hh.
  - (* XDec *)
    destruct (top_is t e FWon (open s)) eqn:Et; [|discriminate].
    destruct (pend_is s e t) eqn:Ep; [|discriminate]. inversion H; subst; clear H.
    apply pend_is_spec in Ep.
    pose proof (top_is_spec _ _ _ _ Et) as Top. split.
    + intros e0. destruct (I e0) as [G [T [F [P [W D]]]]]. unfold XI1, created in *; simpl.
      upd_case e0 e.
      * destruct (P t Ep) as [Ef _]. rewrite Ep, Ef in *. simpl in *.
        rewrite andb_false_r in *. simpl in *. split6; auto; try lia; try discriminate.
      * split6; auto.
        intros t0 Hp. destruct (P t0 Hp) as [X Hin]. split; [exact X|].
        eapply in_set_top_other; [exact Top|exact Hin|].
        intros Y; inversion Y; subst. apply Nat.eqb_neq in E. congruence.
    + intros f Hf. destruct (set_top_fe _ _ _ _ Hf) as [h [Hh Eh]]. unfold created; simpl.
      rewrite <- Eh. apply Fr. exact Hh.
  - (* XRet *)
    assert (exists p, p <> FWon /\ top t (open s) = Some (mkF t e p) /\ s' = with_open s (pop t (open s))) as [p [Np [Top E']]].
    { destruct (top_is t e FWonDec (open s)) eqn:E1.
      - exists FWonDec. split; [discriminate|]. split; [apply top_is_spec; exact E1|]. inversion H; reflexivity.
      - destruct (top_is t e FLost (open s)) eqn:E2; [|discriminate].
        exists FLost. split; [discriminate|]. split; [apply top_is_spec; exact E2|]. inversion H; reflexivity. }
    subst s'. clear H. split.
    + intros e0. destruct (I e0) as [G [T [F [P [W D]]]]]. unfold XI1, with_open, created in *; simpl.
      split6; auto.
      intros t0 Hp. destruct (P t0 Hp) as [X Hin]. split; [exact X|].
      eapply in_pop_other; [exact Top|exact Hin|].
      intros Y; inversion Y; subst. congruence.
    + intros f Hf. unfold created, with_open; simpl. apply Fr. eapply pop_incl; exact Hf.
  - (* XObs *)
    destruct (created s e && Bool.eqb (flag s e) b); [|discriminate]. inversion H; subst. split; assumption.
Qed.
