(* C02 / Timeout, part P1: how one thread's program may change while InvP is kept (one lemma per kind of head
   instruction), and the tactics that apply them to a handler of the step function. *)
From Coq Require Import ZArith List Bool Arith Lia.
From RecordUpdate Require Import RecordSet.
From ME Require Import Base.Machine Base.Fut Base.GenPrelude Gen.TimeoutGen Proofs.Timeout_Spec Model.Timeout
  Proofs.Timeout_Inv Proofs.Proto_Timeout_P.
Import ListNotations RecordSetNotations.

(* head outside every cancel program: consumed, a prefix of non-cancel instructions takes its place *)
Lemma invP_nc s s1 t i rest pre :
  InvP s -> thr s1 = thr s -> pview s1 = pview s -> thr s t = i :: rest -> cbody i = false -> conly i = false ->
  (pok (nfut s) i = true -> forallb (pok (nfut s)) pre = true) -> forallb nonc pre = true ->
  InvP (set_prog s1 t (pre ++ rest)).
Proof.
  intros IP Et Ev Ep Hb Hc Hk Hn. pose proof (head_nc_none _ _ _ _ IP Ep Hb Hc) as En.
  pose proof (p_wf _ IP t) as Hw. rewrite Ep, En in Hw. destruct (wfp_split _ _ _ _ Hw) as [A1 [A2 A3]].
  simpl in A1. apply andb_prop in A1. destruct A1 as [A1 A1'].
  apply (invP_set s); auto.
  - rewrite En. apply wfp_join.
    + rewrite forallb_app, (Hk A1), A1'. reflexivity.
    + rewrite fpairs_app by (apply fpairs_nonc; exact Hn). eapply fpairs_tl. exact A2.
    + rewrite okn_app, (okn_nonc _ _ Hn), (okn_tl _ _ _ A3). reflexivity.
  - intros j Hj. rewrite En in Hj. discriminate.
  - intros j Hj. rewrite Ep in Hj. simpl in Hj. rewrite srnc_app.
    assert (Hi : is_srnc j i = false) by (destruct i; simpl in Hc |- *; try discriminate; reflexivity).
    rewrite Hi in Hj. simpl in Hj. rewrite Hj. apply orb_true_r.
Qed.

(* a non-empty prefix of neutral instructions is consumed, neutral instructions take its place *)
Lemma invP_both s s1 t drop rest pre :
  InvP s -> thr s1 = thr s -> pview s1 = pview s -> thr s t = drop ++ rest -> forallb neut drop = true ->
  (forallb (pok (nfut s)) drop = true -> forallb (pok (nfut s)) pre = true) -> forallb neut pre = true ->
  InvP (set_prog s1 t (pre ++ rest)).
Proof.
  intros IP Et Ev Ep Hd Hk Hn.
  pose proof (forallb_imp _ _ _ neut_nonc Hd) as Hdn. pose proof (forallb_imp _ _ _ neut_cbody Hd) as Hdc.
  pose proof (forallb_imp _ _ _ neut_nonc Hn) as Hnn. pose proof (forallb_imp _ _ _ neut_cbody Hn) as Hnc.
  pose proof (p_wf _ IP t) as Hw. rewrite Ep in Hw. destruct (wfp_split _ _ _ _ Hw) as [A1 [A2 A3]].
  rewrite forallb_app in A1. apply andb_prop in A1. destruct A1 as [A1 A1'].
  apply (invP_set s); auto.
  - apply wfp_join.
    + rewrite forallb_app, (Hk A1), A1'. reflexivity.
    + rewrite fpairs_app by (apply fpairs_nonc; exact Hnn). eapply fpairs_drop. exact A2.
    + destruct (cancelling s t) as [j|].
      * apply andb_prop in A3. destruct A3 as [A3 A3']. rewrite A3. simpl.
        rewrite cprog_app in A3' by exact Hdc. rewrite cprog_app by exact Hnc. exact A3'.
      * rewrite okn_app in A3. apply andb_prop in A3. destruct A3 as [_ A3]. rewrite okn_app, (okn_nonc _ _ Hnn), A3. reflexivity.
  - intros j Hj. destruct (p_guard _ IP _ _ Hj) as [A|A]; [left|right; exact A].
    rewrite Ep, guard_app in A by exact Hdn. rewrite guard_app by exact Hnn. exact A.
  - intros j Hj. rewrite Ep, srnc_app, (nonc_no_srnc _ _ Hdn) in Hj. simpl in Hj. rewrite srnc_app, Hj. apply orb_true_r.
Qed.

(* a thread with an empty program starts a non-cancel program *)
Lemma invP_idle s s1 t p :
  InvP s -> thr s1 = thr s -> pview s1 = pview s -> thr s t = [] ->
  forallb (pok (nfut s)) p = true -> forallb nonc p = true -> InvP (set_prog s1 t p).
Proof.
  intros IP Et Ev Ep Hk Hn. pose proof (nil_none _ _ IP Ep) as En.
  apply (invP_set s); auto.
  - rewrite En. apply wfp_join; auto.
    + rewrite <- (app_nil_r p). rewrite fpairs_app by (apply fpairs_nonc; exact Hn). reflexivity.
    + apply okn_nonc. exact Hn.
  - intros j Hj. rewrite En in Hj. discriminate.
  - intros j Hj. rewrite Ep in Hj. discriminate.
Qed.

(* the job thread consumes its head and puts instructions without a bool return in its place *)
Lemma invP_jt s s1 i rest pre :
  InvP s -> thr s1 = thr s -> pview s1 = pview s -> thr s jt = i :: rest -> (forall k, is_srnc k i = false) ->
  (pok (nfut s) i = true -> forallb (pok (nfut s)) pre = true) -> forallb noretb pre = true ->
  fpairs (pre ++ [IRet]) = true ->
  InvP (set_prog s1 jt (pre ++ rest)).
Proof.
  intros IP Et Ev Ep Hi Hk Hn Hp. pose proof (jt_none _ IP) as En.
  pose proof (p_wf _ IP jt) as Hw. rewrite Ep, En in Hw. destruct (wfp_split _ _ _ _ Hw) as [A1 [A2 A3]].
  simpl in A1. apply andb_prop in A1. destruct A1 as [A1 A1'].
  apply (invP_set s); auto.
  - rewrite En. apply wfp_join.
    + rewrite forallb_app, (Hk A1), A1'. reflexivity.
    + rewrite fpairs_app by exact Hp. eapply fpairs_tl. exact A2.
    + rewrite okn_app, (okn_tl _ _ _ A3), okn_jt, Hn. reflexivity.
  - intros j Hj. rewrite En in Hj. discriminate.
  - intros j Hj. rewrite Ep in Hj. simpl in Hj. rewrite (Hi j) in Hj. simpl in Hj. rewrite srnc_app, Hj. apply orb_true_r.
Qed.

Lemma wfp_tl n t c i rest : wfp n t c (i :: rest) = true -> cbody i = true -> wfp n t c rest = true.
Proof.
  intros Hw Hb. destruct (wfp_split _ _ _ _ Hw) as [A1 [A2 A3]]. simpl in A1. apply andb_prop in A1. destruct A1 as [_ A1].
  apply wfp_join; [exact A1|eapply fpairs_tl; exact A2|]. destruct c as [j|].
  - rewrite cprog_cons in A3 by exact Hb. exact A3.
  - eapply okn_tl. exact A3.
Qed.

(* thread t consumes the cancel-body instruction i, which is a stdlib method on future j: its state becomes n *)
Lemma invP_rs s s1 t i rest j n :
  InvP s -> thr s1 = thr s -> nfut s1 = nfut s -> cancelling s1 = cancelling s -> rs s1 = upd (rs s) j n ->
  (forall k, k <> j -> rout s1 k = rout s k) ->
  thr s t = i :: rest -> cbody i = true -> j < nfut s ->
  (fcancelled (rs s j) = true -> fcancelled n = true) ->
  (n = Cancelled -> has_srnc j rest = true) ->
  (forall jc, guard jc (i :: rest) = true -> guard jc rest = true \/ (jc = j /\ fcancelled n = true)) ->
  (forall k, k <> j -> has_srnc k (i :: rest) = true -> has_srnc k rest = true) ->
  InvP (set_prog s1 t rest).
Proof.
  intros IP Et En Ec Em Eo Ep Hb Hj Hmono Hnot Hg Hs.
  pose proof (p_wf _ IP t) as Hw. rewrite Ep in Hw.
  apply (invP_step s _ t (stamp s1 rest) IP); unfold set_prog; simpl; rewrite ?En, ?Ec, ?Em, ?Et; auto.
  - intros k Hk Hc. unfold upd. destruct (Nat.eqb k j) eqn:E; [apply Nat.eqb_eq in E; subst; auto|exact Hc].
  - intros k Hk. assert (Hne : k <> j) by lia. rewrite upd_other by exact Hne. rewrite (Eo k Hne). exact (p_fresh _ IP k Hk).
  - rewrite wfp_stamp. eapply wfp_tl; eauto.
  - intros jc Hjc. split; [exact (p_cn _ IP _ _ Hjc)|]. rewrite guard_stamp.
    destruct (p_guard _ IP _ _ Hjc) as [A|A].
    + rewrite Ep in A. destruct (Hg jc A) as [B|[-> B]]; [left; exact B|right; rewrite upd_same; exact B].
    + right. unfold upd. destruct (Nat.eqb jc j) eqn:E; [apply Nat.eqb_eq in E; subst; auto|exact A].
  - intros k Hk. rewrite srnc_stamp. unfold upd in Hk. destruct (Nat.eqb k j) eqn:E.
    + apply Nat.eqb_eq in E. subst. left. auto.
    + apply Nat.eqb_neq in E. right. split; [exact Hk|]. rewrite Ep. auto.
Qed.

(* a thread whose head is a step of cancel() that is not a cancel-body instruction: a client inside cancel() at its
   closing instruction, or the job thread *)
Lemma head_closer s t i rest : InvP s -> thr s t = i :: rest -> conly i = true -> cbody i = false ->
  (exists jc, cancelling s t = Some jc /\ jc < nfut s /\ rest = [] /\ closer jc i = true /\ Nat.eqb t jt = false) \/
  (cancelling s t = None /\ t = jt).
Proof.
  intros IP Et Hc Hb. pose proof (p_wf _ IP t) as Hw. rewrite Et in Hw. destruct (wfp_split _ _ _ _ Hw) as [_ [_ A3]].
  destruct (cancelling s t) as [jc|] eqn:Ec.
  - left. exists jc. apply andb_prop in A3. destruct A3 as [A3 A3']. apply negb_true_iff in A3.
    destruct (cprog_head _ _ _ A3') as [[D E]|[D _]]; [|congruence].
    split; [reflexivity|]. split; [exact (p_cn _ IP _ _ Ec)|]. auto.
  - right. split; [reflexivity|]. eapply okn_conly; eauto.
Qed.

Lemma closer_same j j' i : closer j i = true -> closer j' i = true -> noretb i = true -> j' = j.
Proof. destruct i; simpl; try discriminate; intros A B _; apply Nat.eqb_eq in A; apply Nat.eqb_eq in B; congruence. Qed.

(* the closing instruction i of cancel(j) expands: cancel-body instructions, then the answer *)
Lemma invP_cl s s1 t i rest j pre b :
  InvP s -> thr s1 = thr s -> pview s1 = pview s -> thr s t = i :: rest ->
  closer j i = true -> noretb i = true ->
  (pok (nfut s) i = true -> forallb (pok (nfut s)) pre = true) -> forallb cbody pre = true ->
  fpairs (pre ++ [IRet]) = true ->
  (guard j (pre ++ [IRetB b]) = true \/ fcancelled (rs s j) = true) ->
  InvP (set_prog s1 t (pre ++ ret_of t b ++ rest)).
Proof.
  intros IP Et Ev Ep Hcl Hnr Hk Hb Hp Hg.
  assert (Hc : conly i = true) by (eapply closer_conly; eauto).
  assert (Hnb : cbody i = false) by (destruct i; simpl in Hcl, Hnr |- *; try discriminate; reflexivity).
  assert (Hi : forall k, is_srnc k i = false) by (intros k; destruct i; simpl in Hcl |- *; try discriminate; reflexivity).
  pose proof (head_pok _ _ _ _ IP Ep) as Hpk.
  destruct (head_closer _ _ _ _ IP Ep Hc Hnb) as [[jc [Ec [Hjc [Er [Hcl' Hne]]]]]|[Ec ->]].
  - subst rest. pose proof (closer_same _ _ _ Hcl' Hcl Hnr) as E. subst j.
    rewrite (ret_of_ne _ _ Hne), app_nil_r.
    apply (invP_set s); auto.
    + rewrite Ec. apply wfp_join.
      * rewrite forallb_app, (Hk Hpk). reflexivity.
      * rewrite fpairs_app by exact Hp. reflexivity.
      * rewrite Hne. simpl. rewrite cprog_app by exact Hb. reflexivity.
    + intros j0 Hj0. rewrite Ec in Hj0. inversion Hj0; subst. exact Hg.
    + intros k Hk0. rewrite Ep in Hk0. simpl in Hk0. rewrite (Hi k) in Hk0. discriminate.
  - rewrite ret_of_jt. simpl app. apply (invP_jt s s1 i rest pre); auto.
    eapply forallb_imp; [apply cbody_noretb|exact Hb].
Qed.

(* the closing instruction of cancel(j) becomes the next closing instruction *)
Lemma invP_cl2 s s1 t i rest j i' :
  InvP s -> thr s1 = thr s -> pview s1 = pview s -> thr s t = i :: rest ->
  closer j i = true -> noretb i = true -> closer j i' = true -> noretb i' = true ->
  (pok (nfut s) i = true -> pok (nfut s) i' = true) ->
  InvP (set_prog s1 t (i' :: rest)).
Proof.
  intros IP Et Ev Ep Hcl Hnr Hcl2 Hnr2 Hk.
  assert (Hc : conly i = true) by (eapply closer_conly; eauto).
  assert (Hnb : cbody i = false) by (destruct i; simpl in Hcl, Hnr |- *; try discriminate; reflexivity).
  assert (Hi : forall k, is_srnc k i = false) by (intros k; destruct i; simpl in Hcl |- *; try discriminate; reflexivity).
  assert (Hi2 : forall k, is_srnc k i' = false) by (intros k; destruct i'; simpl in Hcl2 |- *; try discriminate; reflexivity).
  assert (Hfp : fpairs [i'; IRet] = true) by (destruct i'; simpl in Hcl2 |- *; try discriminate; reflexivity).
  pose proof (head_pok _ _ _ _ IP Ep) as Hpk.
  destruct (head_closer _ _ _ _ IP Ep Hc Hnb) as [[jc [Ec [Hjc [Er [Hcl' Hne]]]]]|[Ec ->]].
  - subst rest. pose proof (closer_same _ _ _ Hcl' Hcl Hnr) as E. subst j.
    apply (invP_set s); auto.
    + rewrite Ec. apply wfp_join.
      * simpl. rewrite (Hk Hpk). reflexivity.
      * apply (fpairs_app [i'] []). exact Hfp.
      * rewrite Hne. simpl. exact Hcl2.
    + intros j0 Hj0. left. destruct i'; simpl in Hnr2, Hcl2 |- *; try discriminate; reflexivity.
    + intros k Hk0. rewrite Ep in Hk0. simpl in Hk0. rewrite (Hi k) in Hk0. discriminate.
  - change (i' :: rest) with ([i'] ++ rest). apply (invP_jt s s1 i rest [i']); auto.
    + intros Hx. simpl. rewrite (Hk Hx). reflexivity.
    + simpl. rewrite Hnr2. reflexivity.
Qed.

(* ---- tactics --------------------------------------------------------------------------------------------- *)
Ltac eqs :=
  repeat match goal with
         | E : Nat.eqb _ _ = true |- _ => apply Nat.eqb_eq in E; subst
         | E : negb (Nat.eqb _ _) = false |- _ => apply negb_false_iff in E; apply Nat.eqb_eq in E; subst
         | E : negb (Nat.eqb _ _) || _ = false |- _ => apply orb_false_elim in E; destruct E
         | E : _ || negb (Nat.eqb _ _) = false |- _ => apply orb_false_elim in E; destruct E
         | E : Nat.eqb _ _ && Nat.eqb _ _ = true |- _ => apply andb_prop in E; destruct E
         end.
Ltac pok_side :=
  let Hk := fresh "Hk" in
  intros Hk; simpl in Hk; simpl;
  repeat match type of Hk with _ && _ = true => let A := fresh "A" in apply andb_prop in Hk; destruct Hk as [A Hk] end;
  repeat match goal with A : (_ <? _) = true |- _ => rewrite A end; reflexivity.
Ltac prefix_of p rest :=
  match p with
  | rest => constr:(@nil instr)
  | ?a ++ rest => constr:(a)
  | ?a :: ?q => let r := prefix_of q rest in constr:(a :: r)
  end.
(* head outside every cancel program *)
Ltac nc_step IP s :=
  match goal with
  | Et : thr s ?t = ?i :: ?rest |- InvP (set_prog ?s1 ?t ?p) =>
      let pre := prefix_of p rest in
      change (InvP (set_prog s1 t (pre ++ rest)));
      apply (invP_nc s s1 t i rest pre IP); [reflexivity|reflexivity|exact Et|reflexivity|reflexivity|pok_side|reflexivity]
  end.
(* neutral head *)
Ltac both_step IP s :=
  match goal with
  | Et : thr s ?t = ?i :: ?rest |- InvP (set_prog ?s1 ?t ?p) =>
      let pre := prefix_of p rest in
      change (InvP (set_prog s1 t (pre ++ rest)));
      apply (invP_both s s1 t [i] rest pre IP); [reflexivity|reflexivity|exact Et|reflexivity|pok_side|reflexivity]
  end.
Ltac logs := repeat match goal with |- InvP (log _ _) => apply invP_log end.
