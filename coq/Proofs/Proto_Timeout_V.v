(* C02 / Timeout, part V: every step of the machine is a protocol step (Proto_Gen.vstep) of its view
   (allocated returned futures, their state [rs], their outcome [rout], the protocol events of the history). *)
From Coq Require Import ZArith List Bool Arith Lia.
From RecordUpdate Require Import RecordSet.
From ME Require Import Base.Machine Base.Fut Base.GenPrelude Gen.TimeoutGen Proofs.Timeout_Spec Model.Timeout
  Proofs.Timeout_Inv Proofs.Proto_Gen Proofs.Proto_Timeout_P Proofs.Proto_Timeout_P1 Proofs.Proto_Timeout_P2 Proofs.Proto_Timeout_P3.
Import ListNotations RecordSetNotations.

Definition pe (h : hev) : option (pev outcome) :=
  match h with
  | HSet j o _ => Some (PSet j o)
  | HCancelled j _ => Some (PCancelled j)
  | HCancelRet j b _ => Some (PCancelRet j b)
  | _ => None
  end.
Definition view_of (s : st) : view outcome := mkView (nfut s) (rs s) (rout s) (pmap pe (hist s)).

Definition vv (s : st) := (nfut s, rs s, rout s, pmap pe (hist s)).
Lemma vneutral s s' : vv s' = vv s -> vstep outcome (view_of s) (view_of s').
Proof.
  unfold vv. intros E. inversion E as [[E1 E2 E3 E4]]. apply VNeutral; unfold view_of, same_at; simpl; auto.
  intros k. rewrite E2, E3. auto.
Qed.

Ltac vneu := apply vneutral; reflexivity.
Ltac vhandler Hx := brk Hx; inv_some Hx; vneu.

Ltac vcancel IP s :=
  match goal with Et : thr s ?t = IFCancel ?j :: ?rest, Ef : f_cancel _ = (?n, true) |- _ =>
    let Hk := fresh "Hk" in let Hn := fresh "Hn" in let Hb := fresh "Hb" in
    pose proof (head_pok _ _ _ _ IP Et) as Hk;
    assert (Hn : n = fst (f_cancel (rs s j))) by (rewrite Ef; reflexivity);
    assert (Hb : snd (f_cancel (rs s j)) = true) by (rewrite Ef; reflexivity);
    apply (VCancel _ _ _ j); unfold view_of, same_at; simpl; rewrite ?upd_same; auto;
    first [ solve [simpl in Hk; apply Nat.ltb_lt; exact Hk]
          | solve [let k := fresh "k" in let Hne := fresh "Hne" in intros k Hne; rewrite upd_other by exact Hne; auto] ]
  end.
Ltac vsrnc IP s :=
  match goal with Et : thr s ?t = IFSrnc ?j :: ?rest, Ef : f_srnc _ = Some (?n, ?b) |- _ =>
    let Hk := fresh "Hk" in
    pose proof (head_pok _ _ _ _ IP Et) as Hk;
    apply (VSrnc _ _ _ j n b); unfold view_of, same_at; simpl; rewrite ?upd_same; auto;
    first [ solve [simpl in Hk; apply Nat.ltb_lt; exact Hk]
          | solve [let k := fresh "k" in let Hne := fresh "Hne" in intros k Hne; rewrite upd_other by exact Hne; auto] ]
  end.
Ltac vset IP s o :=
  match goal with Et : thr s ?t = _ :: ?rest, Ef : f_set (rs s ?j) = Some ?n |- _ =>
    let Hk := fresh "Hk" in
    pose proof (head_pok _ _ _ _ IP Et) as Hk;
    apply (VSet _ _ _ j o n); unfold view_of, same_at; simpl; rewrite ?upd_same; auto;
    first [ solve [simpl in Hk; apply Nat.ltb_lt; exact Hk]
          | solve [let k := fresh "k" in let Hne := fresh "Hne" in intros k Hne; rewrite !upd_other by exact Hne; auto] ]
  end.

Lemma fr_vstep s t op j p s' : InvP s -> step_fr s t op j p = Some s' -> vstep outcome (view_of s) (view_of s').
Proof.
  intros IP Hx. unfold step_fr in Hx.
  destruct (negb (fstate_eqb p (rs s j))) eqn:Epre; [discriminate|]. apply pre_eq in Epre. subst p.
  brk Hx; inv_some Hx; eqs;
    first [ solve [vneu] | solve [vcancel IP s] | solve [vsrnc IP s]
          | solve [match goal with Et : thr s _ = IFSetRes _ ?v :: _ |- _ => vset IP s (Ok v) end]
          | solve [match goal with Et : thr s _ = IFSetExc _ ?e :: _ |- _ => vset IP s (Err e) end] ].
Qed.

Lemma ret_vstep s t c s' : InvP s -> step_call s (ERet t c) = Some s' -> vstep outcome (view_of s) (view_of s').
Proof.
  intros IP Hx. cbn [step_call] in Hx. brk Hx; inv_some Hx; eqs; try solve [vneu].
  match goal with Et : thr s t = IRetB ?b :: ?rest, Ec : cancelling s t = Some ?j |- _ =>
    apply (VRet _ _ _ j b); unfold view_of, same_at; simpl; auto;
    intros ->; destruct (p_guard _ IP _ _ Ec) as [A|A]; [rewrite Et in A; discriminate|exact A] end.
Qed.

Lemma dsubmit_vstep s t d i s' : InvP s -> step_call s (EDSubmit t d i) = Some s' -> vstep outcome (view_of s) (view_of s').
Proof.
  intros IP Hx. cbn [step_call] in Hx. destruct (p_fresh _ IP (nfut s) (le_n _)) as [F1 F2].
  brk Hx; inv_some Hx; eqs; apply VNew; unfold view_of, same_at; simpl; auto.
Qed.

Lemma step0_vstep s e s' : InvP s -> step0 s e = Some s' -> vstep outcome (view_of s) (view_of s').
Proof.
  intros IP Hx. destruct e; cbn [step0] in Hx;
    try solve [ eapply fr_vstep; eauto | eapply ret_vstep; eauto | eapply dsubmit_vstep; eauto ];
    try (unfold step_fd in Hx); cbn [step_sync step_call] in Hx; try discriminate; vhandler Hx.
Qed.

Lemma view_tick s ts : view_of (s <| clock := ts |>) = view_of s. Proof. reflexivity. Qed.

Lemma step_vstep s e s' : reachable_from step init s -> step s e = Some s' -> vstep outcome (view_of s) (view_of s').
Proof.
  intros Hr Hx. apply step_split in Hx. destruct Hx as [_ Hx].
  rewrite <- (view_tick s (fst e)). apply (step0_vstep _ (snd e)); [apply invP_tick; apply invP_reachable; exact Hr|exact Hx].
Qed.

Lemma view_init : vinit outcome (view_of init).
Proof. unfold vinit. simpl. auto. Qed.

Definition reachable (s : st) : Prop := reachable_from step init s.

Theorem timeout_vinv s : reachable s -> VInv outcome (view_of s).
Proof. apply (sys_vinv outcome step init view_of view_init step_vstep). Qed.
