(* C17 / Proxy2: attribute access on the proxy -- normal lookup first, the generated __getattr__ as the fall-back. *)
From Coq Require Import String List Bool Arith ZArith.
From ME Require Import Base.GenPrelude Base.ProxyPrelude Gen.ProxyGen Gen.Proxy2Gen Model.Proxy Model.Proxy2 Proofs.Proxy2_Dispatch.
Import ListNotations.
Local Open Scope string_scope.
Local Open Scope list_scope.

Section Attr.
  Variable val : Type.
  Variable fs : pstate val.
  Variable tmo : tval.
  Variable is_attr_err : nat -> bool.
  Variable vgetattr : val -> string -> cres val.
  Variable vnone : val.
  Variable own : string -> val.
  Notation GA := (pgetattr val fs tmo is_attr_err vgetattr vnone own).
  Notation AR := (after_resolve val fs tmo).
  Hypothesis HS : sane_attr_err is_attr_err.

  Lemma mangled_is_own : is_own mangled_result = true.
  Proof. vm_compute. reflexivity. Qed.
  Lemma not_own_not_mangled name : is_own name = false -> String.eqb name "_ProxyFuture__result" = false.
  Proof.
    intros H. destruct (String.eqb name "_ProxyFuture__result") eqn:E; [|reflexivity].
    apply String.eqb_eq in E. subst. rewrite (mangled_is_own : is_own "_ProxyFuture__result" = true) in H. discriminate.
  Qed.

  (* what the ProxyFuture / MapFuture / _Future / Future classes (or the instance) define is found by normal lookup:
     __getattr__ is not consulted, nothing is resolved, the value's attribute of the same name is NOT what one gets *)
  Theorem own_attribute_not_forwarded name : is_own name = true -> GA name = (RVal (own name), []).
  Proof. intros H. unfold pgetattr. rewrite H. reflexivity. Qed.

  (* any other name that does not start with two underscores: one resolution, then getattr(value, name) *)
  Theorem plain_attribute_forwarded name : is_own name = false -> String.prefix "__" name = false ->
    GA name = AR (fun v => vgetattr v name).
  Proof.
    intros HO HP. unfold pgetattr. rewrite HO. unfold run_getattr.
    change proxy_getattr_body with
      [GIfEqRaiseOwnException "_ProxyFuture__result"; GIfPrefixRaiseAttributeError "__"; GReturnGetattrResult].
    cbn [exec_getattr]. rewrite (not_own_not_mangled _ HO), HP.
    rewrite (get_result_eq _ _ _ _ _ _ HS). unfold after_resolve. simpl. destruct (resolve val fs tmo); reflexivity.
  Qed.

  (* a double-underscore name the classes do not define: AttributeError, and the future is not touched *)
  Theorem unknown_dunder_attribute_error name : is_own name = false -> String.prefix "__" name = true ->
    GA name = (RExc attribute_error, []).
  Proof.
    intros HO HP. unfold pgetattr. rewrite HO. unfold run_getattr.
    change proxy_getattr_body with
      [GIfEqRaiseOwnException "_ProxyFuture__result"; GIfPrefixRaiseAttributeError "__"; GReturnGetattrResult].
    cbn [exec_getattr]. rewrite (not_own_not_mangled _ HO), HP. reflexivity.
  Qed.

  (* resolution counts for attribute access *)
  Corollary attribute_resolution_count name :
    (is_own name = true \/ String.prefix "__" name = true -> snd (GA name) = []) /\
    (is_own name = false -> String.prefix "__" name = false ->
       snd (GA name) = match resolve val fs tmo with RVal v => tmo :: snd (vgetattr v name) | _ => [tmo] end).
  Proof.
    split.
    - intros [H|H].
      + rewrite own_attribute_not_forwarded by exact H. reflexivity.
      + destruct (is_own name) eqn:E; [rewrite own_attribute_not_forwarded by exact E; reflexivity|].
        rewrite unknown_dunder_attribute_error; auto.
    - intros H1 H2. rewrite plain_attribute_forwarded by assumption. unfold after_resolve. destruct (resolve val fs tmo); reflexivity.
  Qed.

  (* the wrong lookup order -- forwarding before the class's own attributes -- would resolve the future and hand out the
     VALUE's attribute for a name such as "result" whenever the value happens to have one *)
  Theorem forward_first_differs name v x lg : is_own name = true -> String.prefix "__" name = false ->
    String.eqb name "_ProxyFuture__result" = false ->
    fs = PResolved v -> vgetattr v name = (RVal x, lg) ->
    pgetattr_forward_first val fs tmo is_attr_err vgetattr vnone own name = (RVal x, tmo :: lg) /\
    GA name = (RVal (own name), []).
  Proof.
    intros HO HP HM HF HV. split; [|apply own_attribute_not_forwarded; exact HO].
    unfold pgetattr_forward_first, run_getattr.
    change proxy_getattr_body with
      [GIfEqRaiseOwnException "_ProxyFuture__result"; GIfPrefixRaiseAttributeError "__"; GReturnGetattrResult].
    cbn [exec_getattr]. rewrite HM, HP. rewrite (get_result_eq _ _ _ _ _ _ HS). subst fs. simpl. rewrite HV. simpl. reflexivity.
  Qed.
End Attr.

(* facts about the generated name lists *)
Lemma future_api_is_own :
  forallb is_own ["result"; "exception"; "cancel"; "cancelled"; "done"; "running"; "add_done_callback"; "set_result"; "set_exception";
                  "_ProxyFuture__result"; "_ProxyFuture__timeout"; "_delegate"; "_me_lock"; "__repr__"; "__eq__"; "__hash__"; "__str__"] = true.
Proof. vm_compute. reflexivity. Qed.
Lemma sample_names_not_own :
  forallb (fun n => negb (is_own n)) ["real"; "imag"; "upper"; "append"; "_private"; "x"; "__deepcopy__"; "__enter__"; "__index__"; "__fspath__"] = true.
Proof. vm_compute. reflexivity. Qed.
