(* A canceller that has passed its decision point has stopped the retrying of its future. *)
From Coq Require Import List ZArith Bool Arith Lia.
From RecordUpdate Require Import RecordSet.
From ME Require Import Base.Machine Base.Fut Base.GenPrelude Gen.RetryGen Model.Retry Proofs.Retry_Spec Proofs.Retry_C0 Proofs.Retry_C1 Proofs.Retry_C2 Proofs.Retry_C3 Proofs.Retry_C4 Proofs.Retry_C5 Proofs.Retry_C6 Proofs.Retry_C7 Proofs.Retry_C8 Proofs.Retry_C9 Proofs.Retry_C10 Proofs.Retry_C11 Proofs.Retry_C12 Proofs.Retry_C13 Proofs.Retry_C14.
Import ListNotations RecordSetNotations.

Definition dec1 (i : instr) : bool :=
  match i with ICancelled _ | IDoneC _ | IXCancelScan _ | IFCancel _ => false | _ => true end.
Definition dec (p : list instr) : bool := forallb dec1 p.

Lemma cok_dec c can : forall p seen,
  (cok c can seen 0 p = true -> dec (norm false p) = dec p) /\
  (cok c can seen 1 p = true -> dec (norm true p) = dec p) /\
  (cok c can seen 2 p = true -> dec (norm false p) = dec p).
Proof.
  induction p as [|i r IH]; intros seen; repeat split; intros H; try reflexivity; try discriminate H.
  - destruct (IH seen) as (I0 & I1 & I2).
    destruct i; simpl in H |- *; try reflexivity; try discriminate H; auto.
  - destruct (IH seen) as (I0 & I1 & I2).
    destruct i; simpl in H; try discriminate H. simpl. auto.
  - destruct i; simpl in H; try discriminate H. reflexivity.
Qed.

Lemma dec_cbs j l : dec (cbs_prog j l) = true.
Proof. induction l as [|c l IH]; simpl; [reflexivity|]. destruct c; simpl; exact IH. Qed.

Lemma dec_norm_cbs c can seen j cb l : cok c can seen 0 l = true ->
  dec (norm false (cbs_prog j cb ++ l)) = dec l.
Proof.
  intros H. destruct cb as [|x cb]; simpl.
  - destruct (cok_dec c can l seen) as (I0 & _). auto.
  - destruct x; simpl; unfold dec; rewrite forallb_app; fold (dec (cbs_prog j cb)); rewrite dec_cbs; reflexivity.
Qed.

Definition KI (s : st) : Prop := forall t j, cancelling s t = Some j -> dec (thr s t) = true -> Qs s j.

Lemma K_keep s s' t jq i l : KI s -> cancelling s t = Some jq -> thr s t = i :: l ->
  dec1 i = true -> dec l = true -> (Qs s jq -> Qs s' jq) -> Qs s' jq.
Proof.
  intros HK C E Hi Hl K. apply K. apply (HK t jq C). rewrite E. simpl. rewrite Hi, Hl. reflexivity.
Qed.
Lemma K_keep0 s s' t jq : KI s -> cancelling s t = Some jq -> thr s t = [] ->
  (Qs s jq -> Qs s' jq) -> Qs s' jq.
Proof. intros HK C E K. apply K. apply (HK t jq C). rewrite E. reflexivity. Qed.
Lemma canc_nw s t j : CI s -> cancelling s t = Some j -> t <> worker.
Proof. intros HC C ->. rewrite (ci_w s HC) in C. discriminate. Qed.

Lemma scan_mutex s t j l : MI s -> JPOP s -> HI s -> PI s -> thr s t = IXCancelScan j :: l ->
  (forall r, In r (jobs s) -> jf (recs s r) = j -> jdel (recs s r) <> None) ->
  (forall u r, In (IXAcqPop r) (thr s u) -> jf (recs s r) <> j) /\
  (forall u i' l' r, thr s u = i' :: l' -> (i' = IDoneW r \/ i' = IDSubmit r) -> jf (recs s r) <> j).
Proof.
  intros HM HJP HH HP E Hq.
  assert (Hd : fdone (rs s j) = false) by (pose proof (HH _ _ _ E) as X; exact X).
  assert (Mt : mown s j = Some t).
  { eapply MI_head; [exact HM|exact E|]. right. simpl. rewrite Nat.eqb_refl. reflexivity. }
  split.
  - intros u r Hin Ej. destruct (pop_ipr s u r HP Hin) as (_ & Dn & _).
    destruct (HJP u r Hin) as [A|[A|[c A]]].
    + apply (Hq r A Ej). exact Dn.
    + congruence.
    + rewrite Ej in A. assert (B : mown s j = Some c).
      { apply opt_eqb_some. eapply fcpre_held; [apply (mi_seq s HM c)|exact A]. }
      assert (c = t) by congruence. subst c. rewrite E in A. simpl in A. discriminate A.
  - intros u i' l' r Eu Hi Ej.
    assert (B : mown s j = Some u).
    { eapply MI_head; [exact HM|exact Eu|]. right. destruct Hi as [-> | ->]; simpl; unfold jfs; rewrite Ej, Nat.eqb_refl; reflexivity. }
    assert (u = t) by congruence. subst u. rewrite E in Eu. inversion Eu; subst.
    destruct Hi as [X|X]; discriminate X.
Qed.

Lemma find_fut_none s j : find_fut s j = None -> forall r, In r (jobs s) -> jf (recs s r) <> j.
Proof.
  unfold find_fut. intros H r Hr E. pose proof (find_none _ _ H r Hr) as X. simpl in X.
  rewrite E, Nat.eqb_refl in X. discriminate.
Qed.

Lemma KI_step0 s e s' : KI s -> CI s -> JCH s -> PI s -> RI s -> (forall t, posok (thr s t) = true) ->
  uniq s -> JPOP s -> HI s -> MI s -> step0 s e = Some s' -> KI s'.
Proof.
  intros HK HC HJ HP HR HPos HU HJP HH HMI H. pose proof H as H0.
  assert (Keep : forall j, Qs s j -> Qs s' j) by (intros j Q; eapply Qs_step0; eassumption).
  s0inv H; try exact HK.
  all: try (match goal with inl : option outcome |- _ => destruct inl end).
  all: bsplit; subst.
  all: intros u jq C D.
  all: try (match goal with Hq : thr _ ?t = _ |- _ =>
      destruct (Nat.eq_dec u t) as [->|Nu];
      [|apply Keep; apply (HK u jq);
        [unfold log, set_prog in C; simpl in C; try (rewrite upd_other in C by exact Nu); exact C
        |unfold log, set_prog in D; simpl in D; rewrite upd_other in D by exact Nu; exact D]] end).
  all: unfold log, set_prog in C, D; simpl in C, D; rewrite ?upd_same in C; rewrite ?upd_same in D.
  all: try discriminate C; try discriminate D.
  all: try (match goal with Hq : thr _ ?t = [] |- _ => apply (K_keep0 s _ t jq HK C Hq); apply Keep end).
  all: try (match goal with Hq : thr _ ?t = _ :: _ |- _ =>
      pose proof (ci_thr s HC t (canc_nw s t jq HC C)) as Ck; rewrite Hq in Ck; simpl in Ck end).
  all: try (match goal with Hq : thr _ ?t = _ :: ?l |- _ =>
      apply (K_keep s _ t jq _ l HK C Hq); [reflexivity| |apply Keep];
      destruct (cok_dec (cancelling s t) (fun j => fcancelled (rs s j)) l false) as (I0 & I1 & I2);
      first [ rewrite <- D; symmetry; apply I0; exact Ck
            | rewrite <- D; symmetry; apply I2; exact Ck
            | simpl in D; exact D ] end).
  - bsplit. subst l. assert (jq = j) by congruence. subst jq.
    assert (Hd : fdone (rs s j) = false) by (pose proof (HH _ _ _ Heql) as X; exact X).
    pose proof (find_fut_some s j n Heqo) as [Nin Nj].
    destruct (scan_mutex s t j [] HMI HJP HH HP Heql) as [Pp Ps].
    { intros r Hr Ej. destruct (HU r n Hr Nin) as [X|X]; [congruence|subst r; congruence|congruence]. }
    split; [eapply (ci_lt s HC); exact C|]. right. constructor; unfold set_prog; simpl.
    + intros r Hr. rewrite jf_stop_upd. intros Ej.
      destruct (HU r n Hr Nin) as [X|X]; [congruence|subst r; rewrite upd_same; reflexivity|congruence].
    + intros u r Hin. rewrite jf_stop_upd. unfold upd in Hin. destruct (Nat.eqb u t) eqn:Eu.
      * simpl in Hin. destruct Hin as [X|[]]. discriminate X.
      * eapply Pp; exact Hin.
    + intros u i' l' r Eu Hi. rewrite jf_stop_upd. unfold upd in Eu. destruct (Nat.eqb u t) eqn:Eut.
      * inversion Eu; subst. destruct Hi as [X|X]; discriminate X.
      * eapply Ps; eassumption.
  - bsplit. subst l. assert (jq = j) by congruence. subst jq.
    pose proof (find_fut_none s j Heqo) as Nn.
    destruct (scan_mutex s t j [] HMI HJP HH HP Heql) as [Pp Ps].
    { intros r Hr Ej. exfalso. eapply Nn; eassumption. }
    split; [eapply (ci_lt s HC); exact C|]. right. constructor; unfold set_prog; simpl.
    + intros r Hr Ej. exfalso. eapply Nn; eassumption.
    + intros u r Hin. unfold upd in Hin. destruct (Nat.eqb u t) eqn:Eu.
      * simpl in Hin. destruct Hin as [X|[X|[]]]; discriminate X.
      * eapply Pp; exact Hin.
    + intros u i' l' r Eu Hi. unfold upd in Eu. destruct (Nat.eqb u t) eqn:Eut.
      * inversion Eu; subst. destruct Hi as [X|X]; discriminate X.
      * eapply Ps; eassumption.
  - rewrite (dec_norm_cbs _ _ _ _ _ _ Ck) in D.
    apply (K_keep s _ n jq _ l HK C Heql); [reflexivity|exact D|apply Keep].
  - bsplit. assert (jq = j0) by congruence. subst jq.
    split; [eapply (ci_lt s HC); exact C|]. left. unfold set_prog. simpl.
    destruct (rs s j0); simpl in *; try discriminate; reflexivity.
  - bsplit. assert (jq = j0) by congruence. subst jq.
    split; [eapply (ci_lt s HC); exact C|]. left. unfold set_prog. simpl. assumption.
  - bsplit. assert (jq = j0) by congruence. subst jq.
    split; [unfold log, set_prog; simpl; eapply (ci_lt s HC); exact C|]. left. unfold log, set_prog. simpl.
    rewrite upd_same. eapply f_cancel_done'; eassumption.
  - destruct l as [|i0 l0]; [discriminate Ck|]. destruct i0; simpl in Ck; try discriminate Ck.
    apply (K_keep s _ t jq _ _ HK C Heql); [reflexivity|simpl in D |- *; exact D|apply Keep].
  - destruct (cok_dec (cancelling s t) (fun j => fcancelled (rs s j)) l false) as (I0 & I1 & I2).
    simpl in D. rewrite (I1 Ck) in D.
    apply (K_keep s _ t jq _ l HK C Heql); [reflexivity|exact D|apply Keep].
  - apply Keep. apply (HK u jq C D).
  - apply Keep. apply (HK u jq C D).
Qed.

Lemma JPOP_tick s ts : JPOP s -> JPOP (s <| clock := ts |>).
Proof.
  intros IH t r Hin. destruct (IH t r Hin) as [A|[A|[c A]]]; [left; exact A|right; left; exact A|].
  right. right. exists c. simpl. rewrite fcpre_tick. exact A.
Qed.

Lemma KI_reach s : reachable_from step init s -> KI s.
Proof.
  apply (invariant_rule_r step KI).
  - intros t j C. discriminate C.
  - intros s0 e s' R IH H. apply step_split in H. destruct H as (s1 & Ht & H).
    apply tick_eq in Ht. subst s1. destruct (JU_reach s0 R) as [U X].
    eapply KI_step0; [ | | | | | | | | | |exact H].
    + intros t j C D. apply Qs_tick. apply (IH t j C D).
    + apply CI_tick, CI_reach, R.
    + exact (JCH_reach s0 R).
    + apply PI_tick, PI_reach, R.
    + apply RI_tick, RI_reach, R.
    + apply (POS_reach s0 R).
    + exact U.
    + apply JPOP_tick, JPOP_reach, R.
    + apply HI_tick, HI_reach, R.
    + apply MI_tick, MI_reach, R.
Qed.
