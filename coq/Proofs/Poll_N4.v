(* C03 for the Poll machine, part 4: facts about cancelled delegates.
   (Before the model had EEnvCancel this file proved Inv10: "delegate of j cancelled and j not done -> the rest of
   that PollFuture.cancel() is still in some thread's program", hence "cancelled delegate -> poll future done at
   quiescence".  With an environment that can cancel delegate futures that invariant is FALSE -- defect G1, see
   Poll_N7.foreign_cancel_example -- and has been removed.)  What remains true: a listed descriptor belongs to a
   future whose delegate finished successfully, and a cancel() that finds its delegate cancelled cannot be vetoed. *)
From Coq Require Import ZArith List Bool Arith Lia.
From RecordUpdate Require Import RecordSet.
From ME Require Import Base.Machine Base.Fut Base.GenPrelude Model.Poll Proofs.Poll_Inv Proofs.Poll_Prov
     Proofs.Poll_Raise Proofs.Poll_NoDup Proofs.Poll_N1 Proofs.Poll_N2 Proofs.Poll_N3.
Import ListNotations RecordSetNotations.

(* a listed descriptor belongs to a future whose delegate finished successfully *)
Lemma descs_finished s j v : Inv5 s -> Inv8 s -> In (j, v) (descs s) -> ds s j = Finished /\ dout s j = Some (Ok v).
Proof.
  intros I5 I8 H. destruct (i5_descs _ I5 _ _ H) as [ts Hr]. destruct (i5_reg _ I5 _ _ _ Hr) as [ts' Hd].
  destruct (i8_hd _ I8 _ _ _ Hd) as [Ho _]. split; [eapply i8_fin; eauto|exact Ho].
Qed.

Lemma cancel_path_clear s : InvD s -> Inv5 s -> Inv8 s ->
  forall j, j < nfut s -> fcancelled (ds s j) = true -> fdone (ps s j) = false ->
  pexec s j = true /\ lookup j (descs s) = None.
Proof.
  intros ID I5 I8 j Hl Hc Hn. split.
  - destruct (pexec s j) eqn:E; [reflexivity|]. rewrite (id_exec _ ID j Hl E) in Hn. discriminate.
  - destruct (lookup j (descs s)) eqn:E; [|reflexivity]. apply lookup_in in E.
    destruct (descs_finished _ _ _ I5 I8 E) as [Hf _]. rewrite Hf in Hc. discriminate.
Qed.

Lemma fsrnc_cancelled_back s n b : f_srnc s = Some (n, b) -> fcancelled n = true -> fcancelled s = true.
Proof. destruct s; simpl; intros H; inversion H; subst; simpl; congruence. Qed.
Lemma fcancel_false_same s n : f_cancel s = (n, false) -> n = s.
Proof. destruct s; simpl; congruence. Qed.
