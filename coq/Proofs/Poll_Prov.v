(* Provenance invariant of the PollExecutor model: every pending operation of every thread is justified
   by the history (used by first_yield_wins, poll_raise_fails_shown, cancel_fn_scope, descriptor_exact). *)
From Coq Require Import ZArith List Bool Arith Lia.
From RecordUpdate Require Import RecordSet.
From ME Require Import Base.Machine Base.Fut Base.GenPrelude Model.Poll Proofs.Poll_Inv.
Import ListNotations RecordSetNotations.

(* ================================================================================================
   5. provenance: every pending operation of every thread is justified by the history
   ================================================================================================ *)
Definition yielded (h : list hev) (j : nat) (o : outcome) : Prop := exists ts, In (HYield j o ts) h.
Definition raised_on (h : list hev) (j : nat) (o : outcome) : Prop :=
  exists e l ts, o = Err e /\ In (HPollRaise e l ts) h /\ In j (map fst l).
Definition dfailed (h : list hev) (j : nat) (o : outcome) : Prop :=
  exists e ts, o = Err e /\ In (HDDone j (Err e) ts) h.
(* where an outcome of poll future j can come from *)
Definition src (h : list hev) (j : nat) (o : outcome) : Prop := yielded h j o \/ raised_on h j o \/ dfailed h j o.
Definition regd (h : list hev) (j v : nat) : Prop := exists ts, In (HReg j v ts) h.
Definition dok (h : list hev) (j v : nat) : Prop := exists ts, In (HDDone j (Ok v) ts) h.

Definition just (h : list hev) (i : instr) : Prop :=
  match i with
  | IDoneS j v | IFSetRes j v => src h j (Ok v)
  | IDoneX j e | IFSetExc j e => src h j (Err e)
  | IUserCancelFn j v => regd h j v
  | IXAcqReg j v => dok h j v
  | _ => True
  end.

Lemma src_mono h h' j o : incl h h' -> src h j o -> src h' j o.
Proof.
  intros Hi [[ts H]|[[e [l [ts [-> [H1 H2]]]]]|[e [ts [-> H]]]]].
  - left. exists ts. auto.
  - right. left. exists e, l, ts. auto.
  - right. right. exists e, ts. auto.
Qed.
Lemma regd_mono h h' j v : incl h h' -> regd h j v -> regd h' j v.
Proof. intros Hi [ts H]. exists ts. auto. Qed.
Lemma dok_mono h h' j v : incl h h' -> dok h j v -> dok h' j v.
Proof. intros Hi [ts H]. exists ts. auto. Qed.
Lemma just_mono h h' i : incl h h' -> just h i -> just h' i.
Proof.
  intros Hi. destruct i; simpl; auto; intros H;
    first [eapply src_mono; eassumption | eapply regd_mono; eassumption | eapply dok_mono; eassumption].
Qed.
Lemma justs_mono h h' p : incl h h' -> Forall (just h) p -> Forall (just h') p.
Proof. intros Hi H. eapply Forall_impl; [|exact H]. intros i. apply just_mono, Hi. Qed.

Lemma lookup_in j l v : lookup j l = Some v -> In (j, v) l.
Proof.
  unfold lookup. destruct (find _ l) eqn:E; [|discriminate]. intros H. inversion H. subst.
  apply find_some in E. destruct E as [Hin Hj]. apply Nat.eqb_eq in Hj. destruct p; simpl in *; subst. exact Hin.
Qed.

Lemma justs_norm s h p :
  (forall j v, In (j, v) (descs s) -> regd h j v) -> Forall (just h) p -> Forall (just h) (norm s p).
Proof.
  intros Hd Hp. destruct p as [|i r]; [exact Hp|]. destruct i; try exact Hp. simpl.
  inversion Hp; subst. apply Forall_app. split; [|assumption].
  unfold cancel_cont, cancel_no, cancel_ok.
  destruct (negb (pexec s j)); [repeat constructor|].
  destruct (negb (hascfn s)); [repeat constructor|].
  destruct (lookup j (descs s)) eqn:E; repeat constructor.
  simpl. apply Hd, lookup_in, E.
Qed.

Lemma justs_cancel_cont s h j :
  (forall j v, In (j, v) (descs s) -> regd h j v) -> Forall (just h) (cancel_cont s j).
Proof.
  intros Hd. unfold cancel_cont, cancel_no, cancel_ok.
  destruct (negb (pexec s j)); [repeat constructor|].
  destruct (negb (hascfn s)); [repeat constructor|].
  destruct (lookup j (descs s)) eqn:E; repeat constructor.
  simpl. apply Hd, lookup_in, E.
Qed.

Lemma justs_tl h p : Forall (just h) p -> Forall (just h) (tl p).
Proof. destruct p; simpl; [auto|]. intros H; inversion H; assumption. Qed.

Lemma justs_raise h e (sn : list (nat * nat)) :
  (forall j, In j (map fst sn) -> src h j (Err e)) ->
  Forall (just h) (flat_map (fun p => exc_prog (fst p) e) sn).
Proof.
  induction sn as [|p r IH]; simpl; intros H; [constructor|].
  constructor; [exact I|]. constructor; [simpl; apply H; left; reflexivity|].
  apply IH. intros j Hj. apply H. right. exact Hj.
Qed.

Record Inv5 (s : st) : Prop := {
  i5_prog : forall t, Forall (just (hist s)) (thr s t);
  i5_descs : forall j v, In (j, v) (descs s) -> regd (hist s) j v;
  i5_dout : forall j o, dout s j = Some o -> exists ts, In (HDDone j o ts) (hist s);
  i5_set : forall j o ts, In (HSet j o ts) (hist s) -> src (hist s) j o;
  i5_cfn : forall t j v a ts, In (HCancelFn t j v a ts) (hist s) -> regd (hist s) j v;
  i5_reg : forall j v ts, In (HReg j v ts) (hist s) -> dok (hist s) j v
}.

Lemma inv5_init : Inv5 init.
Proof. constructor; simpl; intros; try tauto; try discriminate. constructor. Qed.

Ltac inc := repeat apply incl_tl; apply incl_refl.

Ltac head_facts Ip :=
  try match goal with
  | E : thr ?s ?t = _ :: _ |- _ =>
      let Hp := fresh "Hp" in pose proof (Ip t) as Hp; rewrite E in Hp;
      let Hh := fresh "Hhd" in let Hl := fresh "Hl" in
      inversion Hp as [|? ? Hh Hl]; subst; simpl in Hh; clear Hp
  end.

(* a fact about the old history still holds for the extended one *)
Ltac old_fact :=
  first [ eapply src_mono; [|eassumption]; inc
        | eapply regd_mono; [|eassumption]; inc
        | eapply dok_mono; [|eassumption]; inc
        | eapply regd_mono; [|eauto; fail]; inc
        | eapply dok_mono; [|eauto; fail]; inc
        | eapply src_mono; [|eauto; fail]; inc ].

Ltac new_fact :=
  first [ left; eexists; left; reflexivity                       (* yielded just now *)
        | eexists; left; reflexivity                             (* registered / delegate done just now *)
        | eexists; right; left; reflexivity ].

Ltac dout_fact Idout :=
  match goal with
  | E : dout ?s ?d = Some (Err ?e) |- src _ ?d (Err ?e) =>
      destruct (Idout _ _ E) as [tsx Hx]; right; right; exists e, tsx; split; [reflexivity|]; simpl; auto
  | E : dout ?s ?d = Some (Ok ?v) |- dok _ ?d ?v =>
      destruct (Idout _ _ E) as [tsx Hx]; exists tsx; simpl; auto
  end.

Ltac just1 Idout :=
  simpl; first [ exact I | old_fact | new_fact | dout_fact Idout ].

Ltac justs Idout :=
  repeat first [ apply Forall_nil
               | apply Forall_cons; [just1 Idout|]
               | apply Forall_app; split
               | apply justs_tl
               | eapply justs_mono; [|eassumption]; inc ].

Lemma in_remove_fut j p l : In p (remove_fut j l) -> In p l.
Proof. unfold remove_fut. rewrite filter_In. tauto. Qed.

Ltac descs_goal Id :=
  let j := fresh "j" in let v := fresh "v" in let Hin := fresh "Hin" in
  intros j v Hin; simpl in *;
  first [ eapply regd_mono; [|apply Id; exact Hin]; inc
        | apply in_remove_fut in Hin; eapply regd_mono; [|apply Id; exact Hin]; inc
        | apply in_app_or in Hin; destruct Hin as [Hin|[Hin|[]]];
          [eapply regd_mono; [|apply Id; exact Hin]; inc | inversion Hin; subst; eexists; left; reflexivity] ].

Ltac in_cases :=
  repeat match goal with H : _ \/ _ |- _ => destruct H end;
  try match goal with H : False |- _ => destruct H end.

Ltac raise_goal :=
  apply justs_raise; intros; right; left; do 3 eexists;
  split; [reflexivity|split; [left; reflexivity|assumption]].
Ltac g_prog Ip Id Idout :=
  let t0 := fresh "t0" in intros t0; usplit_all;
  try match goal with |- context [yield_prog _ ?o] => destruct o; simpl end;
  try (apply justs_norm; [descs_goal Id|]);
  repeat first [ apply Forall_nil
               | apply Forall_cons; [just1 Idout|]
               | apply Forall_app; split
               | apply justs_tl
               | apply justs_cancel_cont; descs_goal Id
               | raise_goal
               | eapply justs_mono; [|eassumption]; inc ];
  try (eapply justs_mono; [|apply Ip]; inc).
Ltac g_dout Idout :=
  intros;
  try match goal with
      | Hx : upd _ ?k _ ?x = _ |- _ =>
          destruct (Nat.eq_dec x k) as [->|?]; [rewrite upd_same in Hx | rewrite upd_other in Hx by assumption]
      end;
  try discriminate;
  try match goal with Hx : Some _ = Some _ |- _ => inversion Hx; subst end;
  first [ eexists; left; reflexivity | eexists; right; left; reflexivity
        | match goal with Hx : dout _ _ = Some _ |- _ => destruct (Idout _ _ Hx) as [tsx Hy]; exists tsx; simpl; auto end ].
Ltac g_set :=
  intros; in_cases; try discriminate;
  try match goal with Hx : HSet _ _ _ = HSet _ _ _ |- _ => inversion Hx; subst end;
  first [ old_fact | eapply src_mono; [|eauto; fail]; inc ].
Ltac g_cfn :=
  intros; in_cases; try discriminate;
  try match goal with Hx : HCancelFn _ _ _ _ _ = HCancelFn _ _ _ _ _ |- _ => inversion Hx; subst end;
  first [ old_fact | eapply regd_mono; [|eauto; fail]; inc ].
Ltac g_reg :=
  intros; in_cases; try discriminate;
  try match goal with Hx : HReg _ _ _ = HReg _ _ _ |- _ => inversion Hx; subst end;
  first [ old_fact | eapply dok_mono; [|eauto; fail]; inc ].

Ltac inv5_fin Ip Id Idout :=
  head_facts Ip; constructor; simpl in *;
  [ try solve [g_prog Ip Id Idout] | try solve [descs_goal Id] | try solve [g_dout Idout]
  | try solve [g_set] | try solve [g_cfn] | try solve [g_reg] ].

Lemma inv5_step s e s' : Inv5 s -> step s e = Some s' -> Inv5 s'.
Proof.
  destruct e as [ts e]. intros I H. apply step_inv in H. destruct H as [s1 [Ht H]].
  assert (I1 : Inv5 s1).
  { apply tick_inv in Ht. destruct Ht as [[-> _]|[-> _]]; [exact I|]. destruct I; constructor; simpl; auto. }
  clear I Ht s. destruct I1 as [Ip Id Idout Iset Icfn Ireg].
  apply step0_inv in H. destruct H as [[c [d [-> [_ ->]]]]|[_ [H|[H|H]]]].
  - constructor; simpl; auto.
  - open1 H; norm_eqs; try discriminate; inv5_fin Ip Id Idout.
  - open2 H; norm_eqs; try discriminate; inv5_fin Ip Id Idout.
  - open3 H; norm_eqs; try discriminate; inv5_fin Ip Id Idout.
Qed.
