(* C03 for the Poll machine, part 6: the quiescence theorems (no future is lost; progress does not hinge on the
   poll interval).  Vocabulary for Props/C03_poll.v. *)
From Coq Require Import ZArith List Bool Arith Lia.
From RecordUpdate Require Import RecordSet.
From ME Require Import Base.Machine Base.Fut Base.GenPrelude Model.Poll Proofs.Poll_Inv Proofs.Poll_Prov
     Proofs.Poll_Raise Proofs.Poll_NoDup Proofs.Poll_Snap Proofs.Poll_Thms
     Proofs.Poll_N1 Proofs.Poll_N2 Proofs.Poll_N3 Proofs.Poll_N4 Proofs.Poll_N5.
Import ListNotations RecordSetNotations.

Record InvC03 (s : st) : Prop := {
  c_8 : Inv8 s; c_p : InvP s; c_d : InvD s; c_9 : Inv9 s; c_11 : Inv11 s
}.

Lemma reach_c03 s : reachable s -> InvC03 s.
Proof.
  apply (invariant_rule_r step InvC03 init).
  - constructor; [exact inv8_init|exact invp_init|exact invd_init|exact inv9_init|exact inv11_init].
  - intros x e x' R [I8 IP ID I9 I11] H.
    assert (R' : reachable x') by (eapply reachable_step; eauto).
    assert (I8' : Inv8 x') by (eapply inv8_step; eauto).
    assert (ID' : InvD x') by (eapply invd_step; eauto).
    constructor.
    + exact I8'.
    + eapply invp_step; [exact IP|exact H].
    + exact ID'.
    + eapply inv9_step; [exact ID|exact I9|exact H].
    + eapply inv11_step; [exact I11|exact H].
Qed.

(* ---- quiescence ----------------------------------------------------------------------------------- *)
(* every client / environment thread is outside the library, the poll thread is parked inside
   poll_event.wait() and no set() has arrived since it went to sleep *)
Definition quiescent (s : st) : Prop :=
  (forall t, t <> poller -> thr s t = []) /\ pmode s = PBlocked /\ wnotif s = false.

Lemma quiescent_all s : reachable s -> quiescent s -> forall t, thr s t = [].
Proof.
  intros R [Ht [Hm _]] t. destruct (Nat.eq_dec t poller) as [->|Hn]; [|auto].
  apply (ip_thr _ (c_p _ (reach_c03 s R))). rewrite Hm. reflexivity.
Qed.

(* the ways a pending poll future can be legitimately waiting *)
Definition waits_for_delegate (s : st) (j : nat) : Prop := fdone (ds s j) = false /\ dcb s j = true.
Definition in_polling_stage (s : st) (j : nat) : Prop :=
  (exists v, In (j, v) (descs s) /\ dout s j = Some (Ok v)) /\ exists tau since, wblock s = Some (tau, since).
Definition delegate_cancelled (s : st) (j : nat) : Prop := fcancelled (ds s j) = true.
Definition delegate_failed (s : st) (j : nat) : Prop := exists e, dout s j = Some (Err e).

Lemma in_map_fst (j : nat) (l : list (nat * nat)) : In j (map fst l) -> exists v, In (j, v) l.
Proof. rewrite in_map_iff. intros [[a b] [H1 H2]]. simpl in H1. subst. eauto. Qed.

Lemma exc_pending_nil j e : ~ exc_pending [] j e.
Proof. intros [H|H]; exact H. Qed.

(* the case analysis behind poll_no_lost *)
Lemma waiting_cases s j :
  reachable s -> quiescent s -> j < nfut s -> fdone (ps s j) = false ->
  waits_for_delegate s j \/ in_polling_stage s j \/ delegate_cancelled s j.
Proof.
  intros R Q Hl Hn. pose proof (quiescent_all s R Q) as Hq. destruct (reach_c03 s R) as [I8 IP ID I9 I11].
  destruct (I9 j Hl Hn) as [H|[H|[H|[H|[t [e H]]]]]].
  - right. right. exact H.
  - left. split; [apply (i8_dcb _ I8), H|exact H].
  - exfalso. destruct (tok s j) as [t|] eqn:Et; [|congruence].
    pose proof (i7_cnt _ (reach_inv7 s R) j t) as Hc. rewrite Hq, Et in Hc. simpl in Hc.
    rewrite Nat.eqb_refl in Hc. discriminate.
  - right. left. destruct (in_map_fst _ _ H) as [v Hv]. split.
    + exists v. split; [exact Hv|]. apply (descs_finished s j v); auto. apply reach_inv5, R.
    + destruct Q as [_ [Hm _]]. destruct (reach_inv2 s R) as [_ Ib _ _ _].
      destruct (wblock s) as [[tau since]|] eqn:Ew; [eauto|]. exfalso. apply Ib in Hm. congruence.
  - rewrite Hq in H. exfalso. eapply exc_pending_nil; eauto.
Qed.

Lemma polling_not_waiting s j : reachable s -> in_polling_stage s j -> ~ waits_for_delegate s j.
Proof.
  intros R [[v [Hv Ho]] _] [Hd _]. rewrite (i8_fin _ (c_8 _ (reach_c03 s R)) _ _ Ho) in Hd. discriminate.
Qed.
Lemma polling_not_cancelled s j : reachable s -> in_polling_stage s j -> ~ delegate_cancelled s j.
Proof.
  intros R [[v [Hv Ho]] _] Hc. unfold delegate_cancelled in Hc.
  rewrite (i8_fin _ (c_8 _ (reach_c03 s R)) _ _ Ho) in Hc. discriminate.
Qed.
Lemma waiting_not_cancelled s j : waits_for_delegate s j -> ~ delegate_cancelled s j.
Proof. intros [Hd _] Hc. unfold delegate_cancelled in Hc. destruct (ds s j); discriminate. Qed.

(* the four-way statement: exactly one of (i) (ii) (iii), and (iv) is impossible *)
Lemma no_lost_lemma s j :
  reachable s -> quiescent s -> j < nfut s -> fdone (ps s j) = false ->
  (waits_for_delegate s j /\ ~ in_polling_stage s j /\ ~ delegate_cancelled s j \/
   in_polling_stage s j /\ ~ waits_for_delegate s j /\ ~ delegate_cancelled s j \/
   delegate_cancelled s j /\ ~ waits_for_delegate s j /\ ~ in_polling_stage s j) /\
  ~ delegate_failed s j.
Proof.
  intros R Q Hl Hn. pose proof (c_8 _ (reach_c03 s R)) as I8. split.
  - destruct (waiting_cases s j R Q Hl Hn) as [H|[H|H]].
    + left. split; [exact H|]. split; [|apply waiting_not_cancelled, H].
      intros H'. exact (polling_not_waiting s j R H' H).
    + right. left. split; [exact H|]. split; [apply polling_not_waiting|apply polling_not_cancelled]; auto.
    + right. right. split; [exact H|]. split.
      * intros H'. exact (waiting_not_cancelled s j H' H).
      * intros H'. exact (polling_not_cancelled s j R H' H).
  - intros [e He]. pose proof (i8_fin _ I8 _ _ He) as Hf.
    destruct (waiting_cases s j R Q Hl Hn) as [[Hd _]|[[[v [_ Hv]] _]|Hc]].
    + rewrite Hf in Hd. discriminate.
    + congruence.
    + unfold delegate_cancelled in Hc. rewrite Hf in Hc. discriminate.
Qed.

Lemma nreg_pos_in j h : 1 <= nreg j h -> exists v ts, In (HReg j v ts) h.
Proof.
  induction h as [|x r IH]; simpl; [lia|].
  destruct x; try (intros H; destruct (IH H) as [v0 [ts0 H0]]; exists v0, ts0; right; exact H0).
  match goal with |- context [Nat.eqb ?a j] => destruct (Nat.eqb a j) eqn:Ej end.
  - apply Nat.eqb_eq in Ej. subst. intros _. eexists. eexists. left. reflexivity.
  - simpl. intros H. destruct (IH H) as [v0 [ts0 H0]]. exists v0, ts0. right. exact H0.
Qed.

(* case (iii) is defect G1: nothing in the library is going to resolve such a future -- no callback is parked on
   the delegate, no thread holds its _delegate_resolved / _register_poll, it was never registered for polling *)
Lemma cancelled_delegate_lost_lemma s j :
  reachable s -> quiescent s -> j < nfut s -> fdone (ps s j) = false -> delegate_cancelled s j ->
  dcb s j = false /\ tok s j = None /\ nreg j (hist s) = 0 /\ ~ In j (map fst (descs s)).
Proof.
  intros R Q Hl Hn Hc. pose proof (quiescent_all s R Q) as Hq. destruct (reach_c03 s R) as [I8 IP ID I9 I11].
  unfold delegate_cancelled in Hc.
  assert (Hr : nreg j (hist s) = 0).
  { destruct (nreg j (hist s)) eqn:E; [reflexivity|]. exfalso.
    assert (Hin : exists v ts, In (HReg j v ts) (hist s)) by (apply nreg_pos_in; lia).
    destruct Hin as [v [ts Hin]]. destruct (i5_reg _ (reach_inv5 s R) _ _ _ Hin) as [ts' Hd].
    destruct (i8_hd _ I8 _ _ _ Hd) as [Ho _]. rewrite (i8_fin _ I8 _ _ Ho) in Hc. discriminate. }
  repeat split.
  - destruct (dcb s j) eqn:E; [|reflexivity]. apply (i8_dcb _ I8) in E. destruct (ds s j); discriminate.
  - destruct (tok s j) as [t|] eqn:Et; [|reflexivity]. exfalso.
    pose proof (i7_cnt _ (reach_inv7 s R) j t) as Hx. rewrite Hq, Et in Hx. simpl in Hx.
    rewrite Nat.eqb_refl in Hx. discriminate.
  - exact Hr.
  - intros Hin. rewrite (i3_descs _ (reach_inv3 s R)) in Hin. apply in_descs_nreg in Hin. lia.
Qed.

(* a failed delegate fails its poll future before the failing thread leaves the library *)
Lemma failed_delegate_resolved_lemma s j e :
  reachable s -> quiescent s -> j < nfut s -> dout s j = Some (Err e) -> fdone (ps s j) = true.
Proof.
  intros R Q Hl He. destruct (fdone (ps s j)) eqn:Hn; [reflexivity|]. exfalso.
  destruct (no_lost_lemma s j R Q Hl Hn) as [_ H]. apply H. exists e. exact He.
Qed.

(* ---- the wait of the parked poll thread is timed: the timeout wake-up is enabled once the interval is over -- *)
Lemma timed_wait_lemma s :
  reachable s -> quiescent s ->
  exists tau since, wblock s = Some (tau, since) /\
    forall ts, (clock s <= ts)%Z -> (since + tau <= ts)%Z ->
    exists s', step s (ts, EWWoke 1) = Some s' /\ pmode s' = PClear /\ clock s' = ts.
Proof.
  intros R [Ht [Hm Hw]]. destruct (reach_inv2 s R) as [_ Ib _ _ _].
  destruct (wblock s) as [[tau since]|] eqn:Ew; [|exfalso; apply Ib in Hm; congruence].
  exists tau, since. split; [reflexivity|]. intros ts Hc Hs.
  assert (Hcfg : cfgd s = true).
  { apply (ip_cfg _ (c_p _ (reach_c03 s R))). right. left. congruence. }
  unfold step. cbn [fst snd]. unfold tick.
  destruct (Z.eqb ts (clock s)) eqn:Ec.
  - apply Z.eqb_eq in Ec. subst ts.
    unfold step0. rewrite Hcfg. cbn [negb step1 step2 step3]. rewrite Hm, Ew, Hw. cbn [negb andb].
    destruct (Z.leb (since + tau) (clock s)) eqn:El; [|apply Z.leb_gt in El; lia].
    eexists. split; [reflexivity|]. split; reflexivity.
  - apply Z.eqb_neq in Ec. assert (Hlt : (clock s <? ts)%Z = true) by (apply Z.ltb_lt; lia).
    rewrite Hlt, Ew, Hw. cbn [issome isnone negb andb].
    unfold step0. cbn [cfgd set]. 
    change (cfgd (s <| clock := ts |>)) with (cfgd s). rewrite Hcfg. cbn [negb step1 step2 step3].
    change (pmode (s <| clock := ts |>)) with (pmode s). change (wblock (s <| clock := ts |>)) with (wblock s).
    change (wnotif (s <| clock := ts |>)) with (wnotif s). change (clock (s <| clock := ts |>)) with ts.
    rewrite Hm, Ew, Hw. cbn [negb andb].
    destruct (Z.leb (since + tau) ts) eqn:El; [|apply Z.leb_gt in El; lia].
    eexists. split; [reflexivity|]. split; reflexivity.
Qed.

(* ---- promptness at quiescence ------------------------------------------------------------------------ *)
Lemma descs_in_last_snap h p :
  snaps_ok h -> reg_after_snap h = false -> In p (descs_of h) -> exists l, last_snap h = Some l /\ In p l.
Proof.
  induction h as [|x r IH]; simpl; [tauto|].
  destruct x; simpl; intros Hs Hr Hin; try (apply IH; assumption).
  - discriminate.
  - apply in_remove_fut in Hin. apply IH; assumption.
  - destruct Hs as [-> _]. eauto.
  - destruct Hs as [_ Hs]. apply IH; assumption.
Qed.

Lemma quiescent_prompt_lemma s :
  reachable s -> quiescent s ->
  owed_of (hist s) = None /\ reg_after_snap (hist s) = false /\
  (forall j v, In (j, v) (descs s) -> exists l, last_snap (hist s) = Some l /\ In (j, v) l).
Proof.
  intros R Q. pose proof (quiescent_all s R Q) as Hq. destruct Q as [_ [Hm Hw]].
  assert (Ho : owed_of (hist s) = None).
  { destruct (owed_of (hist s)) as [T|] eqn:E; [|reflexivity].
    destruct (prompt_poll_lemma s T R E) as [_ Hx]. exfalso. apply Hx. split; assumption. }
  assert (Hr : reg_after_snap (hist s) = false).
  { destruct (reg_after_snap (hist s)) eqn:E; [|reflexivity]. exfalso.
    destruct (i11_sig _ (c_11 _ (reach_c03 s R)) E) as [Hx|[t Hx]].
    - rewrite (i2_owed _ (reach_inv2 s R)) in Hx. congruence.
    - rewrite Hq in Hx. destruct Hx. }
  split; [exact Ho|]. split; [exact Hr|]. intros j v Hin.
  destruct (reach_inv3 s R) as [Hd Hs _ _ _]. rewrite Hd in Hin. apply descs_in_last_snap; assumption.
Qed.
