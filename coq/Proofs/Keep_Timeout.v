(* C12 / Timeout: the theorems.  A job whose future is done is dropped from _jobs by the job thread's next partition
   and no such partition is missed: at quiescence _jobs holds only jobs of futures that are not done. *)
From Coq Require Import List ZArith Bool Arith Lia.
From RecordUpdate Require Import RecordSet.
From ME Require Import Base.Machine Base.Fut Base.GenPrelude Gen.TimeoutGen Proofs.Timeout_Spec Model.Timeout Proofs.Timeout_Inv
  Proofs.Keep_Timeout_A Proofs.Keep_Timeout_B Proofs.Keep_Timeout_C Proofs.Keep_Timeout_D Proofs.Keep_Timeout_E Proofs.Keep_Timeout_F
  Props.C09.
Import ListNotations RecordSetNotations.
Local Open Scope Z_scope.

(* every client thread is idle and the job thread is blocked in event.wait() *)
Definition timeout_parked (s : st) : Prop := (forall t, t <> jt -> thr s t = []) /\ exists r, thr s jt = IWWoke :: r.

Section Facts.
  Variable s : st.
  Hypothesis R : reachable_from step init s.

  Lemma parked_shape : timeout_parked s -> (forall t, t <> jt -> thr s t = []) /\ thr s jt = [IWWoke].
  Proof.
    intros [Hidle [r Ej]]. split; [exact Hidle|]. rewrite Ej. f_equal.
    eapply (ctl_nil s jt); [intros t; exact (invjs_reach s R t)|exact Ej|reflexivity].
  Qed.
  Lemma parked_no_evp : timeout_parked s -> ~ evp s.
  Proof.
    intros Hp. destruct (parked_shape Hp) as [Hidle Ej]. intros [[t Hx]|[j [_ [t [r' Hw]]]]].
    - destruct (Nat.eq_dec t jt) as [->|Hne]; [rewrite Ej in Hx|rewrite (Hidle t Hne) in Hx; destruct Hx].
      destruct Hx as [Hx|[]]. discriminate Hx.
    - destruct (Nat.eq_dec t jt) as [->|Hne]; [rewrite Ej in Hw|rewrite (Hidle t Hne) in Hw]; destruct Hw; discriminate.
  Qed.

  (* 1. at quiescence: every client idle, the job thread blocked in wait() and not notified *)
  Theorem timeout_jobs_quiescent_lemma : timeout_parked s -> wnotif s = false ->
    forall job, In job (jobs s) -> fdone (rs s (tj_id job)) = false.
  Proof.
    intros Hp Hn job Hin. destruct (parked_shape Hp) as [_ Ej].
    assert (Hc : lcls (thr s jt) = CWoke) by (rewrite Ej; reflexivity).
    destruct (w_woke _ (invw_reach s R) Hc) as [_ [_ W3]].
    destruct (W3 job Hin) as [H|[H|H]]; [exact H|congruence|exfalso; exact (parked_no_evp Hp H)].
  Qed.

  (* 2. in EVERY reachable state: a job of a done future is in _jobs only while the job thread is before / inside the
     partition that will drop it, or a wake-up is on its way *)
  Theorem timeout_done_job_window_lemma : forall job, In job (jobs s) -> fdone (rs s (tj_id job)) = true ->
    lcls (thr s jt) = CTop
    \/ (lcls (thr s jt) = CPart /\ (In (tj_id job) (pdh (thr s jt)) \/ pans s (tj_id job) = true))
    \/ evf s = true
    \/ (lcls (thr s jt) = CWoke /\ wnotif s = true /\ evf s = true)
    \/ evp s.
  Proof.
    intros job Hin Hd. pose proof (invw_reach s R) as [WA WW WP].
    assert (Hnd : ~ nd s job) by (unfold nd; congruence).
    destruct (lcls (thr s jt)) eqn:Ec.
    - left. reflexivity.
    - destruct (WP eq_refl job Hin) as [H|[H|[H|[H|H]]]]; try contradiction; auto 8.
    - destruct (WW eq_refl) as [_ [W2 W3]]. destruct (W3 job Hin) as [H|[H|H]]; try contradiction; auto 8.
    - destruct (WA eq_refl job Hin) as [H|[H|H]]; try contradiction; auto 8.
  Qed.

  (* 3. the done-callbacks of a done future: cleared except in the window of the completing thread; at quiescence cleared *)
  Theorem timeout_done_callbacks_quiescent_lemma : timeout_parked s -> forall j, fdone (rs s j) = true -> rcbs s j = [].
  Proof.
    intros Hp j Hd. destruct (timeout_done_callbacks_window_lemma s R j Hd) as [H|[t [r Hw]]]; [exact H|exfalso].
    destruct (parked_shape Hp) as [Hidle Ej].
    destruct (Nat.eq_dec t jt) as [->|Hne]; [rewrite Ej in Hw|rewrite (Hidle t Hne) in Hw]; destruct Hw; discriminate.
  Qed.

  (* 4. every job in _jobs of a future that is not done has the wake-up callback registered *)
  Theorem timeout_job_wake_registered_lemma : forall job, In job (jobs s) -> fdone (rs s (tj_id job)) = false ->
    In CbWake (rcbs s (tj_id job)).
  Proof. exact (g_jobs _ (invrg_reach s R)). Qed.
End Facts.

(* 5. the partition itself: the jobs it keeps were all answered "not done" *)
Theorem timeout_partition_keeps_not_done_lemma s ts t s' : step s (ts, EXRel t) = Some s' ->
  forall job, In job (jobs s') -> In job (jobs s) /\ pans s (tj_id job) = false.
Proof.
  intros H. apply step_split in H. destruct H as [_ H]. simpl in H. step0_cases H. simpl. intros job Hj.
  match goal with E : partition _ = (_, _) |- _ => unfold partition in E; apply (f_equal fst) in E; simpl in E; subst end.
  apply partition_pending in Hj. simpl in Hj. tauto.
Qed.
(* ... and an answer is the state of the future at the moment of the call *)
Theorem timeout_partition_answer_lemma s ts t j pre s' : step s (ts, EFR t 1 j pre) = Some s' ->
  forall r, thr s t = IPDone j :: r -> pans s' j = fdone (rs s j).
Proof.
  intros H r E. apply step_split in H. destruct H as [_ H]. simpl in H. unfold step_fr in H. simpl in H. rewrite E in H.
  destruct (negb (fstate_eqb pre (rs s j))) eqn:Ep; [discriminate|]. apply pre_eq in Ep. subst pre.
  rewrite Nat.eqb_refl in H. simpl in H. destruct (negb (Nat.eqb t jt)); [discriminate|]. inversion H. simpl. apply upd_same.
Qed.

(* ---- witnesses: prefixes of the implementation history c09_trace (Props/C09.v) --------------------------------- *)
Definition c09_events : list (Z * ev) := match decode_all c09_trace with Some es => es | None => [] end.

(* after 73 events: future 1 finished (its job was dropped by a partition), future 0 is pending and its job is in
   _jobs, every client is idle, the job thread is parked un-notified *)
Lemma timeout_quiescent_example :
  exists s, reachable_from step init s /\ timeout_parked s /\ wnotif s = false /\
            map tj_id (jobs s) = [0%nat] /\ rs s 0 = Pending /\ rs s 1 = Finished /\ rcbs s 1 = [] /\ rcbs s 0 = [CbWake; CbUser 0].
Proof.
  eexists. split; [exists (firstn 73 c09_events); vm_compute; reflexivity|].
  split; [split; [intros t Ht; destruct t as [|[|[|t]]]; [contradiction Ht; reflexivity|reflexivity|reflexivity|reflexivity]|eexists; reflexivity]|].
  repeat split; reflexivity.
Qed.

(* after 64 events: future 1 is Finished and its job is STILL in _jobs, every client is idle, the job thread is
   blocked in wait() -- but it has been notified (wnotif), and its next partition (events 65..72) drops the job *)
Lemma timeout_window_example :
  exists s, reachable_from step init s /\ timeout_parked s /\ wnotif s = true /\ evf s = true /\
            map tj_id (jobs s) = [0%nat; 1%nat] /\ rs s 1 = Finished.
Proof.
  eexists. split; [exists (firstn 64 c09_events); vm_compute; reflexivity|].
  split; [split; [intros t Ht; destruct t as [|[|[|t]]]; [contradiction Ht; reflexivity|reflexivity|reflexivity|reflexivity]|eexists; reflexivity]|].
  repeat split; reflexivity.
Qed.

(* the 71st event is the end of the partition that drops the job of the finished future 1 *)
Lemma timeout_partition_example :
  exists s s', reachable_from step init s /\ step s (1, EXRel 0) = Some s' /\
               map tj_id (jobs s) = [0%nat; 1%nat] /\ rs s 1 = Finished /\ pans s 1 = true /\ pans s 0 = false /\
               map tj_id (jobs s') = [0%nat].
Proof.
  eexists. eexists. split; [exists (firstn 70 c09_events); vm_compute; reflexivity|].
  split; [vm_compute; reflexivity|]. repeat split; reflexivity.
Qed.
