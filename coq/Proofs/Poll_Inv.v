(* Invariants of the PollExecutor model (Model/Poll.v) and the lemmas behind Props/C08_Poll.v. *)
From Coq Require Import ZArith List Bool Arith Lia.
From RecordUpdate Require Import RecordSet.
From ME Require Import Base.Machine Base.Fut Base.GenPrelude Model.Poll.
Import ListNotations RecordSetNotations.

Definition reachable (s : st) : Prop := reachable_from step init s.

(* ---- decomposition of a step ---------------------------------------------------------------- *)
(* tick changes nothing but the clock, and only while the poll thread sleeps un-notified *)
Definition same_but_clock (s s1 : st) : Prop := s1 = s \/ exists c, s1 = s <| clock := c |>.

Lemma tick_inv s ts s1 :
  tick s ts = Some s1 ->
  (s1 = s /\ ts = clock s) \/
  (s1 = s <| clock := ts |> /\ (clock s < ts)%Z /\ wblock s <> None /\ wnotif s = false).
Proof.
  unfold tick. destruct (Z.eqb ts (clock s)) eqn:E.
  - intros H. inversion H. subst s1. left. split; [reflexivity|apply Z.eqb_eq; exact E].
  - destruct (Z.ltb (clock s) ts) eqn:E1; simpl; [|discriminate].
    destruct (wblock s) eqn:E2; simpl; [|discriminate].
    destruct (wnotif s) eqn:E3; simpl; [discriminate|].
    intros H. inversion H. right. repeat split; try congruence. apply Z.ltb_lt; exact E1.
Qed.

Lemma step_inv s ts e s' :
  step s (ts, e) = Some s' -> exists s1, tick s ts = Some s1 /\ step0 s1 e = Some s'.
Proof. unfold step. simpl. destruct (tick s ts); [eauto|discriminate]. Qed.

Lemma step0_inv s e s' :
  step0 s e = Some s' ->
  (exists c d, e = EConfig c d /\ cfgd s = false /\ s' = s <| cfgd := true |> <| hascfn := c |> <| dflt := d |>) \/
  (cfgd s = true /\ (step1 s e = Some s' \/ step2 s e = Some s' \/ step3 s e = Some s')).
Proof.
  intros H. unfold step0 in H. destruct (cfgd s) eqn:Ec.
  - right. split; [reflexivity|].
    destruct e; try discriminate H; cbv beta iota delta [negb] in H;
      (match type of H with context [step1 ?a ?b] => destruct (step1 a b) end; [left; exact H|];
       match type of H with context [step2 ?a ?b] => destruct (step2 a b) end; [right; left; exact H|];
       right; right; exact H).
  - left. destruct e; try discriminate H. inversion H. eauto.
Qed.

(* ---- case analysis of the step functions ------------------------------------------------------ *)
Ltac dmatch H :=
  repeat (match type of H with
          | context [match ?x with _ => _ end] => let E := fresh "E" in destruct x eqn:E
          end; try discriminate H).

Ltac open1 H := unfold step1, client in H; dmatch H; inversion H; subst; clear H.
Ltac open2 H := unfold step2 in H; dmatch H; inversion H; subst; clear H.
Ltac open3 H := unfold step3, client in H; dmatch H; inversion H; subst; clear H.

(* a property of states that does not look at the clock is preserved by tick *)
Lemma tick_fields s ts s1 :
  tick s ts = Some s1 ->
  hist s1 = hist s /\ pmode s1 = pmode s /\ thr s1 = thr s /\ evf s1 = evf s /\ wblock s1 = wblock s /\
  wnotif s1 = wnotif s /\ owed s1 = owed s /\ descs s1 = descs s /\ ps s1 = ps s /\ pout s1 = pout s /\
  veto s1 = veto s /\ cancelling s1 = cancelling s /\ (clock s <= clock s1)%Z.
Proof.
  intros H. apply tick_inv in H. destruct H as [[-> _]|[-> [Hlt _]]]; simpl; repeat split; lia.
Qed.

(* ================================================================================================
   1. single_poller
   ================================================================================================ *)
(* is a call of the poll function open at the end of history h (newest first)? *)
Fixpoint poll_open (h : list hev) : bool :=
  match h with
  | [] => false
  | HPoll _ _ _ :: _ => true
  | HPollRet _ :: _ | HPollRaise _ _ _ :: _ => false
  | _ :: r => poll_open r
  end.
(* calls of the poll function never overlap: a call starts only when none is open, ends only when one is *)
Fixpoint alternating (h : list hev) : Prop :=
  match h with
  | [] => True
  | HPoll _ _ _ :: r => poll_open r = false /\ alternating r
  | HPollRet _ :: r | HPollRaise _ _ _ :: r => poll_open r = true /\ alternating r
  | _ :: r => alternating r
  end.

Definition Inv1 (s : st) : Prop :=
  alternating (hist s) /\
  (poll_open (hist s) = true <-> exists l, pmode s = PBody l) /\
  (forall t l ts, In (HPoll t l ts) (hist s) -> t = poller).

Lemma inv1_init : Inv1 init.
Proof.
  repeat split; simpl; try tauto; try discriminate. intros [l H]; discriminate.
Qed.

Ltac io_fact Io :=
  match type of Io with
  | poll_open ?h = true <-> (exists l, PBody ?x = PBody l) =>
      assert (poll_open h = true) by (apply Io; eauto)
  | poll_open ?h = true <-> (exists l, pmode _ = PBody l) => idtac
  | poll_open ?h = true <-> (exists l, _ = PBody l) =>
      assert (poll_open h = false)
        by (destruct (poll_open h) eqn:Eo;
            [exfalso; destruct (proj1 Io eq_refl) as [? Hx]; discriminate Hx | reflexivity])
  end.

Ltac poller_eq :=
  try match goal with
      | E : (?t =? poller) && _ = true |- _ =>
          apply andb_prop in E; destruct E as [E _]; apply Nat.eqb_eq in E; try subst t
      | E : (?t =? poller) = true |- _ => apply Nat.eqb_eq in E; try subst t
      end.

Ltac inv1_fin Io :=
  simpl in *; poller_eq; try io_fact Io; repeat split; try tauto; try congruence;
  try (intros; repeat match goal with H : _ \/ _ |- _ => destruct H end; try congruence; eauto; fail);
  try (intros [? Hx]; congruence);
  try (intros; eauto; congruence).

Lemma inv1_step s e s' : Inv1 s -> step s e = Some s' -> Inv1 s'.
Proof.
  destruct e as [ts e]. intros I H. apply step_inv in H. destruct H as [s1 [Ht H]].
  apply tick_fields in Ht. destruct Ht as [Eh [Ep _]].
  assert (I1 : Inv1 s1) by (unfold Inv1; rewrite Eh, Ep; exact I). clear I Eh Ep s.
  destruct I1 as [Ia [Io Ip]].
  apply step0_inv in H. destruct H as [[c [d [-> [_ ->]]]]|[_ [H|[H|H]]]].
  - unfold Inv1; simpl; auto.
  - open1 H; unfold Inv1; inv1_fin Io.
  - open2 H; unfold Inv1; inv1_fin Io.
  - open3 H; unfold Inv1; inv1_fin Io.
Qed.

(* ================================================================================================
   2. prompt_poll: no lost wake-up, no virtual time between a set() and the next snapshot
   ================================================================================================ *)
(* time of the oldest set() of the poll event that no descriptor snapshot has followed yet *)
Fixpoint owed_of (h : list hev) : option Z :=
  match h with
  | [] => None
  | HSnap _ _ :: _ => None
  | HEvSet _ ts :: r => match owed_of r with Some x => Some x | None => Some ts end
  | _ :: r => owed_of r
  end.

Definition at_top (s : st) : Prop := pmode s = PClear \/ pmode s = PTop.

Record Inv2 (s : st) : Prop := {
  i2_owed : owed s = owed_of (hist s);
  i2_blk : wblock s <> None <-> pmode s = PBlocked;
  i2_flag : evf s = true -> pmode s = PBlocked -> wnotif s = true;
  i2_wake : owed s <> None -> evf s = true \/ (pmode s = PBlocked /\ wnotif s = true) \/ at_top s;
  i2_time : forall T, owed s = Some T -> clock s = T
}.

Lemma inv2_init : Inv2 init.
Proof. constructor; simpl; try congruence. split; congruence. Qed.

Lemma inv2_tick s ts s1 : Inv2 s -> tick s ts = Some s1 -> Inv2 s1.
Proof.
  intros I H. apply tick_inv in H. destruct H as [[-> _]|[-> [Hlt [Hb Hn]]]]; [exact I|].
  destruct I as [Io Ib If Iw It]. constructor; simpl; auto.
  intros T HT. exfalso.
  assert (Hp : pmode s = PBlocked) by (apply Ib; exact Hb).
  destruct Iw as [Hw|[[_ Hw]|[Hw|Hw]]]; try congruence.
  rewrite (If Hw Hp) in Hn. discriminate.
Qed.

Ltac inv2_fin :=
  constructor; simpl in *; unfold at_top in *; simpl in *;
  try solve [ assumption | congruence | tauto | split; congruence
            | intros; congruence
            | intros; tauto
            | intuition congruence
            | match goal with Hx : _ = owed_of _ |- _ => rewrite <- Hx end; auto
            | intros; match goal with Hp : pmode _ = PBlocked, Hb : wblock _ <> None <-> _ |- _ => apply Hb in Hp end;
              destruct (wblock _); simpl; congruence ].

Lemma inv2_step s e s' : Inv2 s -> step s e = Some s' -> Inv2 s'.
Proof.
  destruct e as [ts e]. intros I H. apply step_inv in H. destruct H as [s1 [Ht H]].
  pose proof (inv2_tick _ _ _ I Ht) as I1. clear I Ht s.
  destruct I1 as [Io Ib If Iw It].
  apply step0_inv in H. destruct H as [[c [d [-> [_ ->]]]]|[_ [H|[H|H]]]].
  - constructor; simpl; auto.
  - open1 H; inv2_fin.
  - open2 H; inv2_fin.
  - open3 H; inv2_fin.
Qed.

(* ================================================================================================
   3. descriptor_exact and first_yield_wins: state determined by the history
   ================================================================================================ *)
(* the descriptor list as a function of the registrations / deregistrations of the history *)
Fixpoint descs_of (h : list hev) : list (nat * nat) :=
  match h with
  | [] => []
  | HReg j v _ :: r => descs_of r ++ [(j, v)]
  | HDereg j _ :: r => remove_fut j (descs_of r)
  | _ :: r => descs_of r
  end.
Fixpoint last_snap (h : list hev) : option (list (nat * nat)) :=
  match h with [] => None | HSnap l _ :: _ => Some l | _ :: r => last_snap r end.
(* every snapshot is the descriptor list of that moment; every poll call receives the latest snapshot *)
Fixpoint snaps_ok (h : list hev) : Prop :=
  match h with
  | [] => True
  | HSnap l _ :: r => l = descs_of r /\ snaps_ok r
  | HPoll _ l _ :: r => last_snap r = Some l /\ snaps_ok r
  | _ :: r => snaps_ok r
  end.
(* the outcomes poll future j was given, newest first *)
Fixpoint outs_of (j : nat) (h : list hev) : list outcome :=
  match h with
  | [] => []
  | HSet j' o _ :: r => if Nat.eqb j' j then o :: outs_of j r else outs_of j r
  | _ :: r => outs_of j r
  end.

Record Inv3 (s : st) : Prop := {
  i3_descs : descs s = descs_of (hist s);
  i3_snaps : snaps_ok (hist s);
  i3_call : forall l, pmode s = PCall l -> last_snap (hist s) = Some l;
  i3_outs : forall j, outs_of j (hist s) = match pout s j with Some o => [o] | None => [] end;
  i3_fin : forall j, pout s j <> None -> ps s j = Finished
}.

Lemma inv3_init : Inv3 init.
Proof. constructor; simpl; auto; congruence. Qed.

Lemma client_nil s t : negb (Nat.eqb t poller) && isnil (thr s t) = true -> t <> poller /\ thr s t = [].
Proof.
  intros H. apply andb_prop in H. destruct H as [H1 H2]. apply negb_true_iff, Nat.eqb_neq in H1.
  split; [exact H1|]. destruct (thr s t); [reflexivity|discriminate].
Qed.

Ltac norm_eqs :=
  repeat match goal with
  | E : negb (Nat.eqb ?t poller) && isnil (thr ?s ?t) = true |- _ => apply client_nil in E; destruct E
  | E : _ && _ && _ = true |- _ =>
      apply andb_prop in E; let E1 := fresh E in destruct E as [E E1]
  | E : negb (Nat.eqb ?a ?b) = false |- _ =>
      apply negb_false_iff in E; apply Nat.eqb_eq in E; try subst a
  | E : negb (fstate_eqb ?a ?b) = false |- _ =>
      apply negb_false_iff in E; apply fstate_eqb_eq in E; try subst a
  | E : Nat.eqb ?a ?b && Nat.eqb ?c ?d = true |- _ =>
      apply andb_prop in E; let E1 := fresh E in destruct E as [E E1];
      apply Nat.eqb_eq in E; apply Nat.eqb_eq in E1; try subst a; try subst c
  end.

Ltac usplit_all :=
  repeat match goal with
  | |- context [upd _ ?k _ ?x] =>
      destruct (Nat.eq_dec x k) as [->|?];
      [rewrite ?upd_same in * | rewrite ?(upd_other _ k _ x) in * by assumption]
  | |- context [Nat.eqb ?k ?x] =>
      destruct (Nat.eqb k x) eqn:?
  end.

Lemma fset_not_fin s n : f_set s = Some n -> s <> Finished.
Proof. destruct s; simpl; congruence. Qed.
Lemma fcancel_true_not_fin s n : f_cancel s = (n, true) -> s <> Finished /\ n <> Finished.
Proof. destruct s; simpl; intros H; inversion H; split; congruence. Qed.
Lemma fsrnc_not_fin s n b : f_srnc s = Some (n, b) -> s <> Finished /\ n <> Finished.
Proof. destruct s; simpl; intros H; inversion H; split; congruence. Qed.
Lemma fset_fin s n : f_set s = Some n -> n = Finished.
Proof. destruct s; simpl; congruence. Qed.

(* what a successful stdlib transition on poll future j says about its previous state *)
Ltac ps_facts :=
  repeat match goal with
  | E : f_cancel (ps ?s ?j) = (?f, true) |- _ => apply fcancel_true_not_fin in E; destruct E
  | E : f_srnc (ps ?s ?j) = Some (?f, ?b) |- _ => apply fsrnc_not_fin in E; destruct E
  | E : f_set (ps ?s ?j) = Some ?f |- _ =>
      pose proof (fset_not_fin _ _ E); apply fset_fin in E; try subst f
  end;
  repeat match goal with
  | Hn : ps ?s ?j <> Finished, If : forall j, pout ?s j <> None -> ps ?s j = Finished |- _ =>
      assert (pout s j = None)
        by (destruct (pout s j) eqn:Epj; [exfalso; apply Hn, If; congruence | reflexivity]);
      clear Hn
  end.

Ltac inv3_fin :=
  constructor; simpl in *; intros; norm_eqs;
  try solve [ assumption | congruence | tauto | auto
            | match goal with Hx : descs _ = descs_of _ |- _ => rewrite <- Hx end; auto
            | ps_facts; usplit_all; norm_eqs;
              try match goal with Ho : forall j, outs_of j _ = _ |- _ => rewrite ?Ho end;
              try match goal with E : Nat.eqb _ _ = true |- _ => apply Nat.eqb_eq in E; subst end;
              try match goal with E : Nat.eqb _ _ = false |- _ => apply Nat.eqb_neq in E end;
              try match goal with Hn : pout ?s ?j = None |- _ => rewrite ?Hn in * end;
              solve [ auto | congruence | exfalso; auto ] ].

Lemma inv3_step s e s' : Inv3 s -> step s e = Some s' -> Inv3 s'.
Proof.
  destruct e as [ts e]. intros I H. apply step_inv in H. destruct H as [s1 [Ht H]].
  apply tick_fields in Ht. destruct Ht as [Eh [Ep [_ [_ [_ [_ [_ [Ed [Eps [Epo _]]]]]]]]]].
  assert (I1 : Inv3 s1) by (destruct I; constructor; rewrite ?Eh, ?Ep, ?Ed, ?Eps, ?Epo; auto).
  clear I Eh Ep Ed Eps Epo s.
  destruct I1 as [Id Is Ic Io If].
  apply step0_inv in H. destruct H as [[c [d [-> [_ ->]]]]|[_ [H|[H|H]]]].
  - constructor; simpl; auto.
  - open1 H; inv3_fin.
  - open2 H; inv3_fin.
  - open3 H; inv3_fin.
Qed.

(* ================================================================================================
   4. cancel_fn_scope, part: a falsy answer or an exception of the cancel function vetoes the cancel
   ================================================================================================ *)
(* did the cancel function veto the cancel() call thread t is currently inside? *)
Fixpoint veto_of (t : nat) (h : list hev) : bool :=
  match h with
  | [] => false
  | HCancelFn t' _ _ a _ :: r => if Nat.eqb t' t then negb (Nat.eqb a 1) else veto_of t r
  | HCancelCall t' _ _ :: r => if Nat.eqb t' t then false else veto_of t r
  | HCancelRet t' _ _ _ :: r => if Nat.eqb t' t then false else veto_of t r
  | _ :: r => veto_of t r
  end.
(* no cancel() returns True after a veto *)
Fixpoint veto_ok (h : list hev) : Prop :=
  match h with
  | [] => True
  | HCancelRet t _ b _ :: r => (b = true -> veto_of t r = false) /\ veto_ok r
  | _ :: r => veto_ok r
  end.

Definition veto_shape (p : list instr) : Prop :=
  (exists j rest, p = IRelM j :: IRetB false :: rest) \/ (exists rest, p = IRetB false :: rest).

Record Inv4 (s : st) : Prop := {
  i4_veto : forall t, veto s t = veto_of t (hist s);
  i4_ok : veto_ok (hist s);
  i4_shape : forall t, veto s t = true -> veto_shape (thr s t)
}.

Lemma inv4_init : Inv4 init.
Proof. constructor; simpl; auto; congruence. Qed.

Ltac shape_contra :=
  match goal with
  | Hs : forall t, veto ?s t = true -> veto_shape (thr ?s t), Hv : veto ?s ?t = true, E : thr ?s ?t = _ |- _ =>
      let j := fresh "j" in let r := fresh "r" in let Hx := fresh "Hx" in
      destruct (Hs t Hv) as [[j [r Hx]]|[r Hx]]; rewrite E in Hx; try discriminate Hx; inversion Hx; subst
  end.

Ltac eqb_facts :=
  repeat match goal with
  | E : Nat.eqb _ _ = true |- _ => apply Nat.eqb_eq in E; subst
  | E : Nat.eqb _ _ = false |- _ => apply Nat.eqb_neq in E
  end.

Ltac inv4_fin :=
  constructor; simpl in *; intros; norm_eqs;
  try solve [ auto | congruence
            | usplit_all; norm_eqs; eqb_facts; simpl;
              try solve [ auto | congruence | exfalso; auto
                        | unfold veto_shape; simpl; eauto
                        | shape_contra; unfold veto_shape; simpl; eauto
                        | match goal with |- veto ?s ?t = false => destruct (veto s t) eqn:Ev; [exfalso; shape_contra|reflexivity] end
                        | split; auto; intros; subst;
                          match goal with Hv : forall t, veto _ t = veto_of t _ |- _ => rewrite <- Hv end;
                          match goal with |- ?x = false => destruct x eqn:Ev; [exfalso; shape_contra|reflexivity] end ] ].

Lemma inv4_step s e s' : Inv4 s -> step s e = Some s' -> Inv4 s'.
Proof.
  destruct e as [ts e]. intros I H. apply step_inv in H. destruct H as [s1 [Ht H]].
  apply tick_fields in Ht. destruct Ht as [Eh [_ [Et [_ [_ [_ [_ [_ [_ [_ [Ev _]]]]]]]]]]].
  assert (I1 : Inv4 s1) by (destruct I; constructor; rewrite ?Eh, ?Et, ?Ev; auto).
  clear I Eh Et Ev s.
  destruct I1 as [Iv Io Is].
  apply step0_inv in H. destruct H as [[c [d [-> [_ ->]]]]|[_ [H|[H|H]]]].
  - constructor; simpl; auto.
  - open1 H; inv4_fin.
  - open2 H; inv4_fin.
  - open3 H; inv4_fin.
Qed.
