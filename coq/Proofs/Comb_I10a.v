(* I10a: monotonicity facts and "the output is only set after the decision". *)
From Coq Require Import List Arith Bool Lia PeanoNat ZArith.
From ME Require Import Base.Machine Base.Fut Base.GenPrelude Gen.BoolGen Gen.ZipGen Model.Comb Proofs.Comb_Spec.
From ME Require Import Proofs.Comb_I0 Proofs.Comb_I1 Proofs.Comb_I2 Proofs.Comb_I4 Proofs.Comb_I8.
Import ListNotations.

Lemma step_os_cancelled s e s' : step s e = Some s' -> fcancelled (os s) = true -> fcancelled (os s') = true.
Proof.
  intros H Hd. destruct e; step_inv H; simpl; auto; clean;
  destruct (os s); simpl in *; try discriminate;
  repeat match goal with Hq : Some _ = Some _ |- _ => inversion Hq; clear Hq; subst
                       | Hq : (_, _) = (_, _) |- _ => inversion Hq; clear Hq; subst end; auto.
Qed.

Lemma step_cdone s e s' : I2 s -> step s e = Some s' -> cdone s = true -> cdone s' = true.
Proof.
  intros K H Hd. destruct e; pose proof (i2_thr _ K t) as (_ & _ & Kc); step_inv H; simpl; auto;
  try congruence; simpl in Kc; specialize (Kc eq_refl); congruence.
Qed.

Definition Pdec (cd : bool) (x : instr) : Prop := match x with ISetOut _ => cd = true | _ => True end.

Record LO (s : st) : Prop := {
  lo_thr : forall t, Forall (Pdec (cdone s)) (thr s t);
  lo_fin : os s = Finished -> cdone s = true;
  lo_unb : built s = false -> cdone s = false;
  lo_unbo : built s = false -> os s = Pending
}.

Lemma LO_init : LO init.
Proof. constructor; simpl; intros; [constructor|discriminate|reflexivity|reflexivity]. Qed.

Lemma Pdec_dead cd : Pdec cd IDead. Proof. exact I. Qed.

Lemma LO_step s e s' : I2 s -> I4 s -> LO s -> step s e = Some s' -> LO s'.
Proof.
  intros K J L H.
  assert (M : forall a, Pdec (cdone s) a -> Pdec (cdone s') a).
  { intros a. destruct a; simpl; auto. eapply step_cdone; eauto. }
  constructor.
  - intros u. destruct (Nat.eq_dec u (actor e)) as [->|Hu].
    2:{ rewrite (step_other_thr _ _ _ _ H Hu). eapply Forall_impl; [|apply (lo_thr _ L u)]. exact M. }
    destruct e; simpl actor in *; pose proof (lo_thr _ L t) as It; step_inv H;
    try match goal with Hq : thr _ _ = _ |- _ => rewrite Hq in It end;
    apply (Forall_impl _ M) in It; clear M; simpl in It; fa_hyps;
    simpl; rewrite ?upd_same; fold_retb; try (apply Forall_norm; [apply Pdec_dead|]);
    try solve [fa_tac ltac:(simpl; auto)]; try assumption; try apply (lo_thr _ L).
  - intros Hf'. destruct (fstate_eqb (os s) Finished) eqn:E.
    { apply fstate_eqb_eq in E. eapply step_cdone; eauto. apply (lo_fin _ L E). }
    assert (Hne : os s <> Finished) by (intros X; rewrite X in E; discriminate). clear M.
    destruct e; pose proof (lo_thr _ L t) as It; step_inv H; simpl in *; try congruence;
    try match goal with Hq : thr _ _ = _ |- _ => rewrite Hq in It end; fa_hyps; auto;
    clean; destruct (os s); simpl in *; try discriminate; try congruence;
    repeat match goal with Hq : Some _ = Some _ |- _ => inversion Hq; clear Hq; subst
                         | Hq : (_, _) = (_, _) |- _ => inversion Hq; clear Hq; subst end; auto; try discriminate.
  - intros Hb'. destruct (built s) eqn:Hb.
    { destruct (step_built _ _ _ H Hb) as [Hx _]. congruence. }
    pose proof (lo_unb _ L Hb) as C. destruct (i4_unb _ J Hb) as (Ht & _).
    destruct e; pose proof (Ht t) as Htt; step_inv H; simpl in *; auto; congruence.
  - intros Hb'. destruct (built s) eqn:Hb.
    { destruct (step_built _ _ _ H Hb) as [Hx _]. congruence. }
    pose proof (lo_unbo _ L Hb) as C. destruct (i4_unb _ J Hb) as (Ht & _).
    destruct e; pose proof (Ht t) as Htt; step_inv H; simpl in *; auto; congruence.
Qed.

Lemma LO_reach s : reachable s -> LO s.
Proof.
  apply invariant_rule_r; [exact LO_init|]. intros s0 e s' R L H.
  eapply LO_step; eauto using I2_reach, I4_reach.
Qed.
