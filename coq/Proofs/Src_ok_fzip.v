(* source facts of more_executors/_impl/futures/zip.py: what the translator finds now is what the models were written against *)
From Coq Require Import List String.
From ME Require Import Gen.Src_fzip Model.SrcExpected.
Lemma src_fzip_ok : Src_fzip.facts = expected_fzip.
Proof. reflexivity. Qed.
