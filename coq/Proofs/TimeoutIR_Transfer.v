(* The C09 machine theorems (Props/C09.v) for every reachable state of the machine run on the methods of
   TimeoutExecutor regenerated from the source. *)
From Coq Require Import List ZArith Bool Arith Lia.
From ME Require Import Base.Machine Base.Fut Base.GenPrelude Gen.TimeoutGen Model.Timeout Model.TimeoutIR Gen.TimeoutSkel
  Proofs.Timeout_Spec Proofs.Timeout_Inv Proofs.TimeoutIR_Paths Proofs.TimeoutIR_Sim.
Import ListNotations.
Local Open Scope Z_scope.

Ltac via H := intros s Hs; apply src_reachable_iff in Hs; revert s Hs; exact H.

Lemma never_early_src : forall s, src_reachable s ->
  forall j dl ts, In (HAttempt j dl ts) (hist s) -> dl < ts.
Proof. via never_early_l. Qed.

Lemma never_early_creation_src : forall s, src_reachable s ->
  forall j dl ts, In (HAttempt j dl ts) (hist s) ->
  exists d tmo ts0, In (HNew j d tmo ts0) (hist s) /\ ts0 + tmo <= dl /\ dl < ts.
Proof. via never_early_creation_l. Qed.

Lemma at_most_once_src : forall s, src_reachable s -> NoDup (atts (hist s)).
Proof. via at_most_once_l. Qed.

Lemma attempt_from_partition_src : forall s, src_reachable s ->
  forall j dl ts, In (HAttempt j dl ts) (hist s) ->
  exists now pend ovd, In (HPart now pend ovd) (hist s) /\ In (mkjob j dl) ovd /\ dl < now /\ now <= ts.
Proof. via attempt_from_partition_l. Qed.

Lemma overdue_attempted_src : forall s, src_reachable s ->
  forall now pend ovd job, In (HPart now pend ovd) (hist s) -> In job ovd ->
  (exists ts, In (HAttempt (tj_id job) (tj_deadline job) ts) (hist s)) \/
  (In job (tcs (thr s jt)) /\ match thr s jt with i :: _ => loopctl i = false | [] => False end).
Proof. via overdue_attempted_l. Qed.

Lemma sleep_le_earliest_src : forall s, src_reachable s ->
  forall tau r, thr s jt = IWWait tau :: r ->
  forall job, In job (jobs s) -> cov s tau job \/ evf s = true \/ pendset s.
Proof. via sleep_le_earliest_l. Qed.

Lemma no_lost_wakeup_src : forall s, src_reachable s ->
  forall r tau since, thr s jt = IWWoke :: r -> wblock s = Some (tau, since) -> wnotif s = false ->
  forall job, In job (jobs s) -> cov s tau job \/ pendset s.
Proof. via no_lost_wakeup_l. Qed.

Lemma outcome_kept_src : forall s, src_reachable s ->
  forall j o ts, In (HSet j o ts) (hist s) -> rs s j = Finished /\ rout s j = Some o.
Proof. via inv2_reach. Qed.

Lemma set_before_deadline_no_attempt_src : forall s, src_reachable s ->
  forall j dl ts' o ts, In (HAttempt j dl ts') (hist s) -> In (HSet j o ts) (hist s) -> dl < ts.
Proof. via set_before_deadline_no_attempt_l. Qed.
