(* Layer D1: the policy is consulted once per attempt, in order (retry_policy_once). *)
From Coq Require Import List ZArith Bool Arith Lia PeanoNat.
From RecordUpdate Require Import RecordSet.
From ME Require Import Base.Machine Base.Fut Base.GenPrelude Gen.RetryGen Model.Retry Proofs.Retry_InvB0
  Proofs.Retry_InvB2 Proofs.Retry_InvB3 Proofs.Retry_InvB4.
Import ListNotations RecordSetNotations.

Definition NoPol (s : st) (d : nat) : Prop :=
  forall ans ts, ~ In (HPolSR (dfor s d) (datt s d) ans ts) (hist s).
Definition Granted (s : st) (r : nat) : Prop :=
  exists ts, In (HPolSR (jf (recs s r)) (jatt (recs s r)) 1 ts) (hist s).
Definition Good (s : st) (i : instr) : Prop :=
  match i with
  | IDCbDone d | IDCbCancelled d _ => NoPol s d
  | IPolSR r => forall d, jdel (recs s r) = Some d -> NoPol s d
  | IPolST r | IXRetry r _ => Granted s r
  | _ => True
  end.
Definition PolOK (l : list hev) : Prop :=
  forall l1 j a ans ts l2, l = l1 ++ HPolSR j a ans ts :: l2 ->
  1 <= a /\ (forall ans' ts', ~ In (HPolSR j a ans' ts') l2) /\
  (2 <= a -> exists t', In (HPolSR j (a - 1) 1 t') l2).
Definition is_pol (h : hev) : Prop := match h with HPolSR _ _ _ _ => True | _ => False end.

Lemma PolOK_other h l : ~ is_pol h -> PolOK l -> PolOK (h :: l).
Proof.
  intros Hn H l1 j a ans ts l2 E. destruct l1 as [|x l1]; simpl in E; inversion E; subst.
  - simpl in Hn. tauto.
  - eapply H; reflexivity.
Qed.
Lemma PolOK_pol j a ans ts l : PolOK l -> 1 <= a -> (forall ans' ts', ~ In (HPolSR j a ans' ts') l) ->
  (2 <= a -> exists t', In (HPolSR j (a - 1) 1 t') l) -> PolOK (HPolSR j a ans ts :: l).
Proof.
  intros H H1 H2 H3 l1 j' a' ans' ts' l2 E. destruct l1 as [|x l1]; simpl in E; inversion E; subst.
  - auto.
  - eapply H; reflexivity.
Qed.

Record InvD1 (s : st) : Prop := {
  d_good : forall t i, In i (thr s t) -> Good s i;
  d_ns : forall d, d < ndel s -> started s d = false -> NoPol s d;
  d_ex : forall j a ans ts, In (HPolSR j a ans ts) (hist s) -> exists d, d < ndel s /\ dfor s d = j /\ datt s d = a;
  d_q : forall r, r < nrec s -> jdel (recs s r) = None -> 1 <= jatt (recs s r) -> Granted s r;
  d_f : forall r, r < nrec s -> jdel (recs s r) <> None -> 2 <= jatt (recs s r) ->
        exists ts, In (HPolSR (jf (recs s r)) (jatt (recs s r) - 1) 1 ts) (hist s);
  d_pol : PolOK (hist s)
}.

Lemma good_frame s s' i :
  (forall e, In e (hist s) -> In e (hist s')) ->
  (forall j a ans ts, In (HPolSR j a ans ts) (hist s') -> In (HPolSR j a ans ts) (hist s)) ->
  dfor s' = dfor s -> datt s' = datt s -> (forall r, same_rec (recs s' r) (recs s r)) ->
  Good s i -> Good s' i.
Proof.
  intros H1 H2 Ef Ea Hr. unfold Good, NoPol, Granted.
  destruct i; auto; rewrite ?Ef, ?Ea; try (destruct (Hr r) as (E1 & E2 & E3 & _); rewrite ?E1, ?E2, ?E3).
  - intros G ans ts H. apply (G ans ts); auto.
  - intros G ans ts H. apply (G ans ts); auto.
  - intros G d0 E ans ts H. apply (G d0 E ans ts); auto.
  - intros (ts & G). exists ts; auto.
  - intros (ts & G). exists ts; auto.
Qed.

Lemma invD1_frame s s' t p :
  InvD1 s ->
  (forall e, In e (hist s) -> In e (hist s')) ->
  (forall j a ans ts, In (HPolSR j a ans ts) (hist s') -> In (HPolSR j a ans ts) (hist s)) ->
  PolOK (hist s') ->
  nrec s' = nrec s -> ndel s' = ndel s -> dfor s' = dfor s -> datt s' = datt s ->
  (forall r, same_rec (recs s' r) (recs s r)) ->
  (forall d, started s d = true -> started s' d = true) ->
  thr s' = upd (thr s) t (norm false p) -> Forall (Good s) p -> InvD1 s'.
Proof.
  intros [D1 D2 D3 D4 D5 D6] H1 H2 HP En Ed Ef Ea Hr Hs Ht Hp.
  assert (GF : forall i, Good s i -> Good s' i) by (intros i; apply good_frame; auto).
  constructor; auto; rewrite ?En, ?Ed.
  - intros t' i. rewrite Ht. unfold upd. destruct (Nat.eqb t' t).
    + intros H. apply norm_in in H. destruct H as [H| ->]; [|exact I]. rewrite Forall_forall in Hp. apply GF; auto.
    + intros H. apply GF. eauto.
  - intros d Hd Hn. unfold NoPol. rewrite Ef, Ea. intros ans ts H. apply H2 in H. revert H. apply D2; auto.
    destruct (started s d) eqn:E; auto. rewrite Hs in Hn; auto.
  - intros j a ans ts H. apply H2 in H. rewrite Ef, Ea. eauto.
  - intros r H. destruct (Hr r) as (E1 & E2 & E3 & _). unfold Granted. rewrite E1, E2, E3. intros A B.
    destruct (D4 r H A B) as (ts & G). exists ts; auto.
  - intros r H. destruct (Hr r) as (E1 & E2 & E3 & _). rewrite E1, E2, E3. intros A B.
    destruct (D5 r H A B) as (ts & G). exists ts; auto.
Qed.

Lemma good_cbs s j l : Forall (Good s) (cbs_prog j l).
Proof.
  unfold cbs_prog. induction l as [|c l IH]; simpl; auto. destruct c; simpl; repeat constructor; auto.
Qed.
Ltac sv_good P := repeat (first [apply Forall_cons; [exact I|] | apply Forall_app; split; [apply good_cbs|]]);
  try (inversion P; subst; assumption); try apply Forall_nil.
Ltac sv_h1 := simpl; intros; auto.
Ltac sv_h2 := simpl; intros; intuition discriminate.
Ltac sv_polok D := simpl; repeat (apply PolOK_other; [simpl; tauto|]); exact D.

Lemma invD1_same s s' :
  InvD1 s ->
  (forall e, In e (hist s) -> In e (hist s')) ->
  (forall j a ans ts, In (HPolSR j a ans ts) (hist s') -> In (HPolSR j a ans ts) (hist s)) ->
  PolOK (hist s') ->
  nrec s' = nrec s -> ndel s' = ndel s -> dfor s' = dfor s -> datt s' = datt s ->
  recs s' = recs s ->
  (forall d, started s d = true -> started s' d = true) ->
  thr s' = thr s -> InvD1 s'.
Proof.
  intros [D1 D2 D3 D4 D5 D6] H1 H2 HP En Ed Ef Ea Er Hs Ht.
  assert (GF : forall i, Good s i -> Good s' i).
  { intros i; apply good_frame; auto. intros r. rewrite Er. apply same_rec_refl. }
  unfold Granted, NoPol in *.
  constructor; auto; unfold Granted, NoPol; rewrite ?En, ?Ed, ?Ht, ?Er, ?Ef, ?Ea.
  - intros t i H. apply GF. eauto.
  - intros d Hd Hn ans ts H. apply H2 in H. revert H. apply D2; auto.
    destruct (started s d) eqn:E; auto. rewrite Hs in Hn; auto.
  - intros j a ans ts H. apply H2 in H. eauto.
  - intros r H A B. destruct (D4 r H A B) as (ts & G). exists ts; auto.
  - intros r H A B. destruct (D5 r H A B) as (ts & G). exists ts; auto.
Qed.

Lemma good_alloc s s' i : InvA s -> wfi s i ->
  (forall e, In e (hist s) -> In e (hist s')) ->
  (forall j a ans ts, In (HPolSR j a ans ts) (hist s') -> In (HPolSR j a ans ts) (hist s)) ->
  (forall r, r < nrec s -> recs s' r = recs s r) ->
  (forall d, d < ndel s -> dfor s' d = dfor s d /\ datt s' d = datt s d) ->
  Good s i -> Good s' i.
Proof.
  intros IA W H1 H2 Hr Hd. unfold Good, NoPol, Granted. destruct i; auto; simpl in W.
  - destruct (Hd d W) as [-> ->]. intros G ans ts H. apply (G ans ts); auto.
  - destruct W as [W1 W2]. destruct (a_rec _ IA r d W1 W2) as (W3 & _).
    destruct (Hd d W3) as [-> ->]. intros G ans ts H. apply (G ans ts); auto.
  - destruct W as [W1 W2]. rewrite (Hr r W1). intros G d E. destruct (a_rec _ IA r d W1 E) as (W3 & _).
    destruct (Hd d W3) as [-> ->]. intros ans ts H. apply (G d E ans ts); auto.
  - destruct W as [W1 W2]. rewrite (Hr r W1). intros (ts & G). exists ts; auto.
  - destruct W as [W1 W2]. rewrite (Hr r W1). intros (ts & G). exists ts; auto.
Qed.

Lemma invD1_alloc s s' t p rc :
  InvA s -> InvD1 s ->
  (forall e, In e (hist s) -> In e (hist s')) ->
  (forall j a ans ts, In (HPolSR j a ans ts) (hist s') -> In (HPolSR j a ans ts) (hist s)) ->
  PolOK (hist s') ->
  nrec s' = S (nrec s) -> ndel s <= ndel s' -> recs s' = upd (recs s) (nrec s) rc ->
  (forall d, d < ndel s -> dfor s' d = dfor s d /\ datt s' d = datt s d) ->
  (forall d, d < ndel s -> started s d = true -> started s' d = true) ->
  (forall d, ndel s <= d -> d < ndel s' -> NoPol s' d) ->
  (jdel rc = None -> 1 <= jatt rc -> exists ts, In (HPolSR (jf rc) (jatt rc) 1 ts) (hist s')) ->
  (jdel rc <> None -> 2 <= jatt rc -> exists ts, In (HPolSR (jf rc) (jatt rc - 1) 1 ts) (hist s')) ->
  thr s' = upd (thr s) t (norm false p) ->
  (forall i, In i p -> (wfi s i /\ Good s i) \/ (forall s0, Good s0 i)) -> InvD1 s'.
Proof.
  intros IA [D1 D2 D3 D4 D5 D6] H1 H2 HP En Ed Er Hd Hs Hnew Hq Hf Ht Hp.
  assert (Ro : forall x, x < nrec s -> recs s' x = recs s x) by (intros; rewrite Er; apply upd_fresh_other; auto).
  assert (Rn : recs s' (nrec s) = rc) by (rewrite Er; apply upd_same).
  assert (GF : forall i, wfi s i -> Good s i -> Good s' i) by (intros i W; apply good_alloc; auto).
  constructor; auto.
  - intros t' i. rewrite Ht. unfold upd. destruct (Nat.eqb t' t).
    + intros H. apply norm_in in H. destruct H as [H| ->]; [|exact I]. destruct (Hp i H) as [[G1 G2]|G]; [apply GF; auto|apply G].
    + intros H. apply GF; [eapply (a_wf _ IA)|]; eauto.
  - intros d Hlt Hn. destruct (Nat.lt_ge_cases d (ndel s)) as [G|G]; [|auto].
    unfold NoPol. destruct (Hd d G) as [-> ->]. intros ans ts H. apply H2 in H. revert H. apply D2; auto.
    destruct (started s d) eqn:E; auto. rewrite Hs in Hn; auto.
  - intros j a ans ts H. apply H2 in H. destruct (D3 j a ans ts H) as (d & G1 & G2 & G3).
    exists d. destruct (Hd d G1) as [-> ->]. split; [lia|auto].
  - intros r H. rewrite En in H. split_lt H.
    + unfold Granted. rewrite (Ro r H). intros A B. destruct (D4 r H A B) as (ts & G). exists ts; auto.
    + unfold Granted. rewrite Rn. auto.
  - intros r H. rewrite En in H. split_lt H.
    + rewrite (Ro r H). intros A B. destruct (D5 r H A B) as (ts & G). exists ts; auto.
    + rewrite Rn. auto.
Qed.

Lemma cbc0_in rc d p i : cbc rc d p = 0 -> In i p -> cbk_of rc i <> Some d.
Proof.
  unfold cbc, cnt. induction p as [|a p IH]; simpl; [tauto|].
  destruct (opt_eqb (cbk_of rc a) d) eqn:E; simpl; [discriminate|].
  intros H [<-|Hi]; auto. intros C. rewrite C in E. simpl in E. rewrite Nat.eqb_refl in E. discriminate.
Qed.

Lemma good_pol s s' d ans ts i :
  InvA s -> InvC s -> d < ndel s ->
  hist s' = HPolSR (dfor s d) (datt s d) ans ts :: hist s ->
  dfor s' = dfor s -> datt s' = datt s -> recs s' = recs s ->
  wfi s i -> cbk_of (recs s) i <> Some d -> Good s i -> Good s' i.
Proof.
  intros IA IC Hd Eh Ef Ea Er W N.
  assert (K : forall d', d' < ndel s -> d' <> d -> NoPol s d' -> NoPol s' d').
  { intros d' Hd' Hn G ans' ts' H. unfold NoPol in *. rewrite Eh, Ef, Ea in H. destruct H as [H|H].
    - inversion H. apply Hn. apply (c_u1 _ IC); auto; congruence.
    - revert H. apply G. }
  unfold Good, Granted. rewrite Eh, Er. destruct i; auto; simpl in W, N.
  - apply K; auto; congruence.
  - destruct W as [W1 W2]. destruct (a_rec _ IA r d0 W1 W2) as (W3 & _). apply K; auto; congruence.
  - destruct W as [W1 W2]. intros G d' E. destruct (a_rec _ IA r d' W1 E) as (W3 & _). apply K; auto; congruence.
  - intros (ts' & G). exists ts'. right; auto.
  - intros (ts' & G). exists ts'. right; auto.
Qed.

Lemma invD1_pol s s' t r l p ans ts :
  InvA s -> InvB s -> InvC s -> InvD1 s ->
  thr s t = IPolSR r :: l ->
  hist s' = HPolSR (jf (recs s r)) (jatt (recs s r)) ans ts :: hist s ->
  nrec s' = nrec s -> ndel s' = ndel s -> dfor s' = dfor s -> datt s' = datt s -> recs s' = recs s ->
  (forall d, started s' d = started s d) ->
  thr s' = upd (thr s) t (norm false p) ->
  (forall i, In i p -> In i l \/ (i = IPolST r /\ ans = 1) \/ (forall s0, Good s0 i)) ->
  InvD1 s'.
Proof.
  intros IA IB IC ID Et Eh En Ed Ef Ea Er Es Ht Hp.
  assert (W := a_wf _ IA t). rewrite Et in W. assert (W0 := W _ (or_introl eq_refl)). simpl in W0.
  destruct W0 as [W1 W2]. destruct (jdel (recs s r)) as [d|] eqn:Ej; [clear W2|tauto].
  destruct (a_rec _ IA r d W1 Ej) as (A1 & A2 & A3 & A4).
  assert (Hh : opt_eqb (cbk_of (recs s) (IPolSR r)) d = true) by (simpl; rewrite Ej; apply Nat.eqb_refl).
  destruct (cbc_head_one s t _ l d IB Et Hh) as [Q1 Q2].
  rewrite <- A2, <- A3 in Eh.
  assert (GP : forall i, wfi s i -> cbk_of (recs s) i <> Some d -> Good s i -> Good s' i).
  { intros i. eapply good_pol; eauto. }
  assert (G0 := d_good _ ID t). rewrite Et in G0. assert (G1 := G0 _ (or_introl eq_refl) d Ej).
  destruct ID as [D1 D2 D3 D4 D5 D6].
  constructor; rewrite ?En, ?Ed.
  - intros t' i. rewrite Ht. unfold upd. destruct (Nat.eqb t' t) eqn:E.
    + intros H. apply norm_in in H. destruct H as [H| ->]; [|exact I].
      destruct (Hp i H) as [G|[[-> ->]|G]]; [| |apply G].
      * apply GP; [apply W; right; auto|eapply cbc0_in; eauto|apply G0; right; auto].
      * simpl. unfold Granted. rewrite Eh, Er, A2, A3. exists ts. left; auto.
    + apply Nat.eqb_neq in E. intros H. apply GP; [eapply (a_wf _ IA); eauto| |eauto].
      eapply cbc0_in; [|exact H]. destruct (cbc (recs s) d (thr s t')) eqn:Z; auto.
      exfalso. apply E. apply (b_uniq _ IB t' t d); lia.
  - intros d' Hd' Hn. rewrite Es in Hn. unfold NoPol. rewrite Eh, Ef, Ea. intros ans' ts' [H|H].
    + inversion H. assert (d' = d) by (apply (c_u1 _ IC); auto; congruence). subst d'.
      rewrite (b_started _ IB t d Q1) in Hn. discriminate.
    + revert H. apply D2; auto.
  - intros j a ans' ts' H. rewrite Eh in H. rewrite Ef, Ea. destruct H as [H|H]; [inversion H; subst; eauto|eauto].
  - intros r0 H A B. unfold Granted. rewrite Eh, Er. destruct (D4 r0 H); auto; [rewrite <- Er; auto..|].
    eexists; right; eauto.
  - intros r0 H A B. rewrite Eh, Er. rewrite Er in A, B. destruct (D5 r0 H A B) as (ts' & G). exists ts'; right; auto.
  - rewrite Eh. apply PolOK_pol; [exact D6|lia|exact G1|].
    intros Ha. rewrite A2, A3. apply D5; auto; [congruence|lia].
Qed.

Lemma tail_good s i0 l :
  Forall (wfi s) (i0 :: l) -> Forall (Good s) (i0 :: l) ->
  forall i, In i l -> (wfi s i /\ Good s i) \/ (forall s0, Good s0 i).
Proof.
  intros Hw Hg i Hi. left. rewrite Forall_forall in Hw, Hg. split; [apply Hw|apply Hg]; right; auto.
Qed.

Lemma invD1_step0 s e s' : InvA s -> InvB s -> InvC s -> InvD1 s -> step0 s e = Some s' -> InvD1 s'.
Proof.
  intros IA IB IC ID H.
  assert (BF := bfacts_step0 s e s' IA IB H).
  assert (SM : forall d, started s d = true -> started s' d = true).
  { destruct BF as [(_ & _ & _ & _ & E)|(_ & E & _)]; exact E. }
  clear BF. assert (DP := d_pol _ ID).
  unfold step0 in H. destruct e.
  all: step_cases H.
  all: clean.
  all: try exact ID.
  all: try (eapply invD1_same; [exact ID|sv_h1|sv_h2|sv_polok DP|reflexivity..|exact SM|reflexivity]).
  all: try match goal with E : thr _ ?t = _ |- _ =>
         assert (P := d_good _ ID t); rewrite E in P; apply Forall_forall in P end.
  all: try (eapply invD1_frame; [exact ID|sv_h1|sv_h2|sv_polok DP|reflexivity..|sv_recs2|exact SM|reflexivity|sv_good P]).
  all: try match goal with E : thr _ ?t = _ |- _ =>
         assert (PW := a_wf _ IA t); rewrite E in PW; apply Forall_forall in PW end.
  - (* IXAppend0 *)
    eapply (invD1_alloc s _ t l _ IA ID); [sv_h1|sv_h2|sv_polok DP|reflexivity|simpl; lia|reflexivity| | | | | |reflexivity|eapply tail_good; eauto]; simpl; auto; try lia.
  - (* IXRetry *)
    inversion P as [|? ? Ph Pt]; subst. simpl in Ph.
    eapply (invD1_alloc s _ t l _ IA ID); [sv_h1|sv_h2|sv_polok DP|reflexivity|simpl; lia|reflexivity| | | | | |reflexivity|eapply tail_good; eauto]; simpl; auto; try lia.
    + intros _ _. destruct Ph as (ts & G). exists ts. right; auto.
    + tauto.
  - apply Forall_forall. intros i Hi. rewrite Forall_forall in P. apply P. right. apply in_tl_in; auto.
  - (* IDCancel fires *)
    inversion PW as [|? ? Wh Wt]; subst. simpl in Wh.
    apply Forall_cons; [|sv_good P]. simpl. apply (d_ns _ ID); auto.
    match goal with F : f_cancel_fires _ = true |- _ => unfold started; rewrite (fires_pending _ F) end. simpl. apply andb_false_r.
  - inversion P as [|? ? Ph Pt]; subst. apply Forall_cons; auto.
  - inversion P as [|? ? Ph Pt]; subst. inversion PW as [|? ? Wh Wt]; subst. simpl in Wh, Ph.
    apply Forall_cons; auto. simpl. intros d E. destruct Wh as [_ Wh]. assert (d = d0) by congruence. subst d. exact Ph.
  - inversion PW as [|? ? Wh Wt]; subst. simpl in Wh.
    apply Forall_cons; [|sv_good P]. simpl. apply (d_ns _ ID); auto.
    unfold started. rewrite (addcb_any s t d0 IA); auto. rewrite Heql. left; auto.
  - eapply (invD1_pol s _ t r l _ _ _ IA IB IC ID Heql); try reflexivity.
    simpl. intros i Hi. repeat (destruct Hi as [<-|Hi]; [right; right; intros; exact I|]). left; exact Hi.
  - eapply (invD1_pol s _ t r l _ _ _ IA IB IC ID Heql); try reflexivity.
    simpl. intros i [<-|Hi]; [right; left; auto|left; exact Hi].
  - eapply (invD1_pol s _ t r l _ _ _ IA IB IC ID Heql); try reflexivity.
    simpl. intros i Hi. repeat (destruct Hi as [<-|Hi]; [right; right; intros; exact I|]). left; exact Hi.
  - inversion P as [|? ? Ph Pt]; subst. apply Forall_cons; [exact Ph|]. apply Forall_cons; [exact I|auto].
  - assert (W := a_wf _ IA t (IDSubmit r)). rewrite Heql in W. specialize (W (or_introl eq_refl)).
    simpl in W. destruct W as [W1 W2].
    assert (t = worker) by (eapply wk_worker; [exact IA|exact Heql|reflexivity]). subst t.
    assert (Lr : liveq s r).
    { split; [auto|]. split; [auto|]. right. exists (IDSubmit r). split; [right; right; auto|rewrite Heql; left; auto]. }
    eapply (invD1_alloc s _ worker _ _ IA ID); [sv_h1|sv_h2|sv_polok DP|reflexivity|simpl; lia|reflexivity| | | | | |reflexivity|].
    + simpl. intros d Hd. rewrite !upd_fresh_other by auto. auto.
    + intros d _. apply SM.
    + simpl. intros d G1 G2. assert (d = ndel s) by lia. subst d. unfold NoPol. simpl. rewrite !upd_same.
      intros ans ts Hin. assert (Hin' : In (HPolSR (jf (recs s r)) (S (jatt (recs s r))) ans ts) (hist s)).
      { simpl in Hin. intuition discriminate. }
      destruct (d_ex _ ID _ _ _ _ Hin') as (d' & E1 & E2 & E3).
      pose proof (c_l1d _ IC r d' Lr E1 E2). lia.
    + simpl. discriminate.
    + simpl. intros _ Ha. rewrite Nat.sub_0_r. destruct (d_q _ ID r W1 W2) as (ts & G); [lia|].
      exists ts. simpl. auto.
    + simpl. intros i Hi. repeat (destruct Hi as [<-|Hi]; [right; intros; exact I|]).
      eapply tail_good; eauto.
  - assert (W := a_wf _ IA t (IDSubmit r)). rewrite Heql in W. specialize (W (or_introl eq_refl)).
    simpl in W. destruct W as [W1 W2].
    assert (t = worker) by (eapply wk_worker; [exact IA|exact Heql|reflexivity]). subst t.
    assert (Lr : liveq s r).
    { split; [auto|]. split; [auto|]. right. exists (IDSubmit r). split; [right; right; auto|rewrite Heql; left; auto]. }
    eapply (invD1_alloc s _ worker _ _ IA ID); [sv_h1|sv_h2|sv_polok DP|reflexivity|simpl; lia|reflexivity| | | | | |reflexivity|].
    + simpl. intros d Hd. rewrite !upd_fresh_other by auto. auto.
    + intros d _. apply SM.
    + simpl. intros d G1 G2. assert (d = ndel s) by lia. subst d. unfold NoPol. simpl. rewrite !upd_same.
      intros ans ts Hin. assert (Hin' : In (HPolSR (jf (recs s r)) (S (jatt (recs s r))) ans ts) (hist s)).
      { simpl in Hin. intuition discriminate. }
      destruct (d_ex _ ID _ _ _ _ Hin') as (d' & E1 & E2 & E3).
      pose proof (c_l1d _ IC r d' Lr E1 E2). lia.
    + simpl. discriminate.
    + simpl. intros _ Ha. rewrite Nat.sub_0_r. destruct (d_q _ ID r W1 W2) as (ts & G); [lia|].
      exists ts. simpl. auto.
    + simpl. intros i Hi. repeat (destruct Hi as [<-|Hi]; [right; intros; exact I|]).
      eapply tail_good; eauto.
  - assert (W := a_wf _ IA t (IDSubmit r)). rewrite Heql in W. specialize (W (or_introl eq_refl)).
    simpl in W. destruct W as [W1 W2].
    assert (t = worker) by (eapply wk_worker; [exact IA|exact Heql|reflexivity]). subst t.
    assert (Lr : liveq s r).
    { split; [auto|]. split; [auto|]. right. exists (IDSubmit r). split; [right; right; auto|rewrite Heql; left; auto]. }
    eapply (invD1_alloc s _ worker _ _ IA ID); [sv_h1|sv_h2|sv_polok DP|reflexivity|simpl; lia|reflexivity| | | | | |reflexivity|].
    + simpl. intros d Hd. rewrite !upd_fresh_other by auto. auto.
    + intros d _. apply SM.
    + simpl. intros d G1 G2. assert (d = ndel s) by lia. subst d. unfold NoPol. simpl. rewrite !upd_same.
      intros ans ts Hin. assert (Hin' : In (HPolSR (jf (recs s r)) (S (jatt (recs s r))) ans ts) (hist s)).
      { simpl in Hin. intuition discriminate. }
      destruct (d_ex _ ID _ _ _ _ Hin') as (d' & E1 & E2 & E3).
      pose proof (c_l1d _ IC r d' Lr E1 E2). lia.
    + simpl. discriminate.
    + simpl. intros _ Ha. rewrite Nat.sub_0_r. destruct (d_q _ ID r W1 W2) as (ts & G); [lia|].
      exists ts. simpl. auto.
    + simpl. intros i Hi. repeat (destruct Hi as [<-|Hi]; [right; intros; exact I|]).
      eapply tail_good; eauto.
  - assert (W := a_wf _ IA t (IDSubmit r)). rewrite Heql in W. specialize (W (or_introl eq_refl)).
    simpl in W. destruct W as [W1 W2].
    assert (t = worker) by (eapply wk_worker; [exact IA|exact Heql|reflexivity]). subst t.
    assert (Lr : liveq s r).
    { split; [auto|]. split; [auto|]. right. exists (IDSubmit r). split; [right; right; auto|rewrite Heql; left; auto]. }
    eapply (invD1_alloc s _ worker _ _ IA ID); [sv_h1|sv_h2|sv_polok DP|reflexivity|simpl; lia|reflexivity| | | | | |reflexivity|].
    + simpl. intros d Hd. rewrite !upd_fresh_other by auto. auto.
    + intros d _. apply SM.
    + simpl. intros d G1 G2. assert (d = ndel s) by lia. subst d. unfold NoPol. simpl. rewrite !upd_same.
      intros ans ts Hin. assert (Hin' : In (HPolSR (jf (recs s r)) (S (jatt (recs s r))) ans ts) (hist s)).
      { simpl in Hin. intuition discriminate. }
      destruct (d_ex _ ID _ _ _ _ Hin') as (d' & E1 & E2 & E3).
      pose proof (c_l1d _ IC r d' Lr E1 E2). lia.
    + simpl. discriminate.
    + simpl. intros _ Ha. rewrite Nat.sub_0_r. destruct (d_q _ ID r W1 W2) as (ts & G); [lia|].
      exists ts. simpl. auto.
    + simpl. intros i Hi. repeat (destruct Hi as [<-|Hi]; [right; intros; exact I|]).
      eapply tail_good; eauto.
  - apply Forall_cons; [|sv_good P]. simpl. apply (d_ns _ ID); auto.
    unfold started. destruct (f_set_done _ _ Heqo0) as [_ ->]. apply andb_false_r.
  - apply Forall_cons; [|sv_good P]. simpl. apply (d_ns _ ID); auto.
    unfold started. rewrite (fires_pending _ Heqb0). apply andb_false_r.
Qed.

Lemma invD1_init : InvD1 init.
Proof.
  constructor; simpl; try tauto; try (intros; lia).
  intros l1 j a ans ts l2 E. destruct l1; discriminate.
Qed.
Lemma invD1_tick s ts : InvD1 s -> InvD1 (s <| clock := ts |>).
Proof. intros ID. eapply invD1_same; [exact ID|simpl; auto..]. apply (d_pol _ ID). Qed.
