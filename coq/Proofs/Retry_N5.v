(* C03 for the Retry machine, part 5: a cancelled delegate future has a canceller that is about to cancel the
   retry future (or the retry future is done); the quiescent-state theorem without the timing part. *)
From Coq Require Import List ZArith Bool Arith Lia.
From RecordUpdate Require Import RecordSet.
From ME Require Import Base.Machine Base.Fut Base.GenPrelude Gen.RetryGen Model.Retry Proofs.Retry_Spec.
From ME Require Proofs.Retry_InvB2 Proofs.Retry_InvB.
From ME Require Import Proofs.Retry_C0 Proofs.Retry_C1 Proofs.Retry_C2 Proofs.Retry_C3 Proofs.Retry_C4 Proofs.Retry_C5 Proofs.Retry_C6
  Proofs.Retry_C7 Proofs.Retry_C8 Proofs.Retry_C9 Proofs.Retry_C10 Proofs.Retry_C11 Proofs.Retry_C12 Proofs.Retry_N0 Proofs.Retry_N1
  Proofs.Retry_N2 Proofs.Retry_N3 Proofs.Retry_N4.
Import ListNotations RecordSetNotations.
#[local] Arguments norm : simpl nomatch.

Lemma dfor_lt s : reachable_from step init s -> forall d, d < ndel s -> dfor s d < nfut s.
Proof. intros R. destruct (Retry_InvB.invAll_reach s R) as (IA & _). exact (Retry_InvB2.a_dfor _ IA). Qed.

Lemma f_srnc_can_inv x n b : f_srnc x = Some (n, b) -> fcancelled n = true -> fcancelled x = true.
Proof. destruct x; simpl; intros H; inversion H; subst; auto. Qed.

(* a delegate future becomes cancelled through RetryFuture.cancel(), whose thread then goes on to cancel the retry
   future itself, or because somebody else cancelled it (EEnvCancel; ghost HEnvCancel) *)
Lemma dcancel_new s e s' : PI s -> step0 s e = Some s' -> forall d, d < ndel s' -> fcancelled (ds s' d) = true ->
  (d < ndel s /\ fcancelled (ds s d) = true) \/ (exists c, fcpre s' (dfor s' d) 0 (thr s' c) = true) \/ envc s' d.
Proof.
  intros HP H. s0inv H; auto.
  all: try (match goal with inl : option outcome |- _ => destruct inl end).
  all: bsplit; subst.
  all: try (match goal with Hq : thr _ ?t = ?i :: _ |- _ => pose proof (head_ipr _ t i _ HP Hq) as Hi; simpl in Hi end).
  all: unfold log, set_prog; simpl; auto.
  all: intros dd Hd Hc.
  - destruct Hi as (Hr & Ed & Ej & Hd0). destruct (Nat.eq_dec dd d0) as [->|Nd].
    + right. left. exists t. rewrite upd_same. simpl. rewrite upd_same, (f_cancel_can _ _ Heqp).
      destruct (pi_del s HP r d0 Hr Ed) as [_ ->]. rewrite Ej, Nat.eqb_refl. reflexivity.
    + left. rewrite (upd_other _ _ _ _ Nd) in Hc. auto.
  - destruct Hi as (Hr & Ed & Ej & Hd0). destruct (Nat.eq_dec dd d0) as [->|Nd].
    + right. left. exists t. rewrite upd_same. simpl.
      destruct (pi_del s HP r d0 Hr Ed) as [_ ->]. rewrite Ej, Nat.eqb_refl. reflexivity.
    + left. rewrite (upd_other _ _ _ _ Nd) in Hc. auto.
  - left. destruct (Nat.eq_dec dd (ndel s)) as [->|Nd]; [rewrite upd_same in Hc; discriminate Hc|].
    rewrite (upd_other _ _ _ _ Nd) in Hc. split; [lia|exact Hc].
  - left. destruct (Nat.eq_dec dd (ndel s)) as [->|Nd]; [rewrite upd_same in Hc; discriminate Hc|].
    rewrite (upd_other _ _ _ _ Nd) in Hc. split; [lia|exact Hc].
  - left. split; [exact Hd|]. destruct (Nat.eq_dec dd d) as [->|Nd].
    + rewrite upd_same in Hc. eapply f_srnc_can_inv; eassumption.
    + rewrite (upd_other _ _ _ _ Nd) in Hc. exact Hc.
  - left. split; [exact Hd|]. destruct (Nat.eq_dec dd d) as [->|Nd].
    + rewrite upd_same in Hc. apply f_set_fin in Heqo0. subst f. discriminate Hc.
    + rewrite (upd_other _ _ _ _ Nd) in Hc. exact Hc.
  - destruct (Nat.eq_dec dd d) as [->|Nd].
    + right. right. exists (clock s). left. reflexivity.
    + left. rewrite (upd_other _ _ _ _ Nd) in Hc. auto.
Qed.

Definition DC (s : st) : Prop := forall d, d < ndel s -> fcancelled (ds s d) = true ->
  fdone (rs s (dfor s d)) = true \/ (exists c, fcpre s (dfor s d) 0 (thr s c) = true) \/ envc s d.

Lemma DC_step0 s e s' : DC s -> PI s -> (forall d, d < ndel s -> dfor s d < nfut s) -> step0 s e = Some s' -> DC s'.
Proof.
  intros HD HP HF H d Hd Hc. pose proof (MONO_step0 _ _ _ H) as HM.
  destruct (dcancel_new s e s' HP H d Hd Hc) as [[Hd0 Hc0]|N]; [|right; exact N].
  rewrite (mo_dfor _ _ HM d Hd0). destruct (HD d Hd0 Hc0) as [A|[[c A]|A]].
  - left. apply (mo_rdone _ _ HM); [apply HF; exact Hd0|exact A].
  - destruct (fcpre_step s e s' _ c H HP A) as [F|F]; [right; left; exists c; exact F|left; exact F].
  - right. right. eapply envc_step0; eassumption.
Qed.

Lemma DC_reach s : reachable_from step init s -> DC s.
Proof.
  apply (invariant_rule_r step DC).
  - intros d Hd. simpl in Hd. lia.
  - intros s0 e s' R IH H. apply step_split in H. destruct H as (s1 & Ht & H).
    apply tick_eq in Ht. subst s1. eapply DC_step0; [| | |exact H].
    + intros d Hd Hc. destruct (IH d Hd Hc) as [A|[[c A]|A]];
        [left; exact A|right; left; exists c; simpl; rewrite fcpre_tick; exact A|right; right; exact A].
    + apply PI_tick, PI_reach, R.
    + simpl. apply (dfor_lt s0 R).
Qed.

(* ---- quiescent states ------------------------------------------------------------------------------ *)
Lemma quiescent_prog s tau since : reachable_from step init s -> quiescent s tau since ->
  forall t, thr s t = [] \/ thr s t = [IWWoke].
Proof.
  intros R (Q1 & Q2 & _) t. destruct (Nat.eq_dec t worker) as [->|N]; [right|left; apply Q1; exact N].
  apply (WB_reach s R _ _ Q2).
Qed.

Lemma retry_no_lost_core s tau since : reachable_from step init s -> quiescent s tau since ->
  forall j, j < nfut s -> fdone (rs s j) = false ->
  exists r, In r (jobs s) /\ jf (recs s r) = j /\
    ((exists d, jdel (recs s r) = Some d /\ d < ndel s /\ fdone (ds s d) = false /\ dcb s d = true) \/
     jdel (recs s r) = None \/
     (exists d, jdel (recs s r) = Some d /\ d < ndel s /\ fcancelled (ds s d) = true /\ envc s d)).
Proof.
  intros R Q j Hj Hnd. pose proof (quiescent_prog s tau since R Q) as QP.
  assert (NA : forall d r t, chainhd d r (thr s t) = false)
    by (intros d r t; destruct (QP t) as [-> | ->]; reflexivity).
  destruct (LI_reach s R j Hj Hnd) as [W|[W|[W|[W|[W|[W|W]]]]]].
  - destruct W as (r & A & B & C). exists r. auto.
  - destruct W as (r & d & A & B & C & D). exists r. split; [exact A|]. split; [exact B|]. left. exists d.
    assert (Hd : d < ndel s) by (apply (pi_del s (PI_reach s R) r d); [apply (ri_jobs s (RI_reach s R)); exact A|exact C]).
    repeat split; auto. destruct (dcb s d) eqn:Ec; [reflexivity|].
    destruct (AP_reach s R d Hd Ec) as [t Ht]. apply (addhd_chainhd d r) in Ht. rewrite NA in Ht. discriminate.
  - destruct W as (r & d & t & _ & _ & _ & _ & C). rewrite NA in C. discriminate.
  - destruct W as (t & C). destruct (QP t) as [E|E]; rewrite E in C; discriminate.
  - destruct W as (t & r & C & _). destruct (QP t) as [E|E]; rewrite E in C; discriminate.
  - destruct W as (t & C). destruct (QP t) as [E|E]; rewrite E in C; discriminate.
  - destruct W as (r & d & A & B & C & D & E). exists r. split; [exact A|]. split; [exact B|]. right. right. exists d.
    assert (Hd : d < ndel s) by (apply (pi_del s (PI_reach s R) r d); [apply (ri_jobs s (RI_reach s R)); exact A|exact C]).
    auto.
Qed.

(* at quiescence a cancelled delegate future belongs to a retry future that is done, or it was cancelled by somebody
   else (EEnvCancel).  (Before the machine had EEnvCancel the second alternative did not exist.) *)
Lemma retry_cancelled_delegate_resolved s tau since : reachable_from step init s -> quiescent s tau since ->
  forall d, d < ndel s -> fcancelled (ds s d) = true -> fdone (rs s (dfor s d)) = true \/ envc s d.
Proof.
  intros R Q d Hd Hc. destruct (DC_reach s R d Hd Hc) as [A|[[c A]|A]]; [left; exact A| |right; exact A].
  destruct (quiescent_prog s tau since R Q c) as [E|E]; rewrite E in A; discriminate.
Qed.
