(* C12 for the Poll machine, part C: "once a future is done the library keeps no reference to it".
   The container that could retain a finished PollFuture is PollExecutor._poll_descriptors (descs); the poll
   thread additionally holds the snapshot of that list while the poll function runs (PCall / PBody).
   - dereg_window: a done future is still listed only while its deregistration is pending in some thread's program;
   - at rest (every program empty) no done future is listed;
   - PollFuture._delegate (pdel) is cleared by, and only by, the registration. *)
From Coq Require Import ZArith List Bool Arith Lia.
From RecordUpdate Require Import RecordSet.
From ME Require Import Base.Machine Base.Fut Base.GenPrelude Model.Poll Proofs.Poll_Inv Proofs.Poll_Prov
     Proofs.Poll_Raise Proofs.Poll_NoDup Proofs.Poll_Snap Proofs.Poll_Thms
     Proofs.Poll_N1 Proofs.Poll_N2 Proofs.Poll_N3 Proofs.Poll_N4 Proofs.Poll_N5 Proofs.Poll_N6 Proofs.Poll_N8 Proofs.Poll_N9
     Proofs.Poll_N10 Proofs.Keep_PollA Proofs.Keep_PollB.
Import ListNotations RecordSetNotations.

(* ---- 1. the window ------------------------------------------------------------------------------------ *)
(* the deregistration of j is still to come: either the callbacks of j are about to run (IRelMCbs j: leave M_j, then
   _me_invoke_callbacks) with _clear_executor registered, or the X-section of _deregister_poll itself (IXDereg j) *)
Definition dereg_window (s : st) (j : nat) : Prop :=
  (exists t, In (IRelMCbs j) (thr s t) /\ pcb s j = true) \/ (exists t, In (IXDereg j) (thr s t)).

Lemma in_descs_fst (j v : nat) (l : list (nat * nat)) : In (j, v) l -> In j (map fst l).
Proof. intros H. apply in_map_iff. exists (j, v). auto. Qed.

Lemma in_descs_registered s j v : reachable s -> In (j, v) (descs s) -> 1 <= nreg j (hist s).
Proof.
  intros R H. apply in_descs_fst in H. rewrite (i3_descs _ (reach_inv3 s R)) in H. apply in_descs_nreg, H.
Qed.

Lemma window_lemma s j v :
  reachable s -> In (j, v) (descs s) -> fdone (ps s j) = true -> dereg_window s j.
Proof.
  intros R Hin Hd.
  destruct (c_12 _ (reach_c12 s R) j Hd (in_descs_fst _ _ _ Hin)) as [[t H]|[[Hb [t H]]|[t H]]].
  - right. exists t. exact H.
  - left. exists t. split; assumption.
  - exfalso. apply (registered_no_doneA s j t (reach_inv7 s R) (reach_invs s R)); [|exact H].
    eapply in_descs_registered; eauto.
Qed.

(* ---- 2. at rest ---------------------------------------------------------------------------------------- *)
(* what the poll thread holds besides the executor's list: the snapshot passed to the poll function *)
Definition snapshot_held (m : pm) : list (nat * nat) := match m with PCall l | PBody l => l | _ => [] end.

(* every client / environment thread is outside the library, the poll thread has no yield / failure in progress
   and is not between taking the snapshot and the return of the poll function: it is about to take the snapshot
   (PTop), about to wait (PRest), blocked in the wait (PBlocked) or about to clear the event (PClear) *)
Definition poll_at_rest (s : st) : Prop :=
  (forall t, t <> poller -> thr s t = []) /\ thr s poller = [] /\
  match pmode s with PCall _ | PBody _ => False | _ => True end.

Lemma at_rest_idle s : poll_at_rest s -> forall t, thr s t = [].
Proof. intros [Hc [Hp _]] t. destruct (Nat.eq_dec t poller) as [->|Hn]; auto. Qed.
Lemma at_rest_no_snapshot s : poll_at_rest s -> snapshot_held (pmode s) = [].
Proof. intros [_ [_ Hm]]. destruct (pmode s); simpl in *; tauto. Qed.
Lemma quiescent_at_rest s : reachable s -> quiescent s -> poll_at_rest s.
Proof.
  intros R Q. pose proof (quiescent_all s R Q) as Hq. destruct Q as [_ [Hm _]].
  split; [intros; apply Hq|]. split; [apply Hq|]. rewrite Hm. exact I.
Qed.

Lemma descs_scope s j v : reachable s -> In (j, v) (descs s) -> j < nfut s.
Proof. intros R H. eapply fresh_nreg; [apply reach_inv7, R|eapply in_descs_registered; eauto]. Qed.

(* all programs empty is enough for the executor's list *)
Lemma idle_no_done_lemma s j v :
  reachable s -> (forall t, thr s t = []) -> In (j, v) (descs s) -> fdone (ps s j) = false /\ j < nfut s.
Proof.
  intros R Hq Hin. split; [|eapply descs_scope; eauto].
  destruct (fdone (ps s j)) eqn:Hd; [|reflexivity]. exfalso.
  destruct (window_lemma s j v R Hin Hd) as [[t [H _]]|[t H]]; rewrite Hq in H; exact H.
Qed.

Lemma at_rest_lemma s j v :
  reachable s -> poll_at_rest s -> In (j, v) (descs s ++ snapshot_held (pmode s)) ->
  fdone (ps s j) = false /\ j < nfut s.
Proof.
  intros R A Hin. rewrite (at_rest_no_snapshot s A), app_nil_r in Hin.
  apply (idle_no_done_lemma s j v R (at_rest_idle s A) Hin).
Qed.

(* ---- 4. the delegate link ------------------------------------------------------------------------------- *)
Lemma link_registered_lemma s j v :
  reachable s -> In (j, v) (descs s) -> pdel s j = false \/ clearing s j.
Proof. intros R H. apply (l_reg _ (reach_invl s R)). eapply in_descs_registered; eauto. Qed.

Lemma hreg_nreg j v ts h : In (HReg j v ts) h -> 1 <= nreg j h.
Proof.
  induction h as [|x r IH]; [intros []|]. intros [H|H].
  - subst x. simpl. rewrite Nat.eqb_refl. lia.
  - specialize (IH H). pose proof (nreg_tail x j r). lia.
Qed.

Lemma link_hreg_lemma s j v ts :
  reachable s -> In (HReg j v ts) (hist s) -> pdel s j = false \/ clearing s j.
Proof. intros R H. apply (l_reg _ (reach_invl s R)). eapply hreg_nreg; eauto. Qed.

(* only the registration clears it *)
Lemma link_cleared_registered_lemma s j :
  reachable s -> j < nfut s -> pdel s j = false -> 1 <= nreg j (hist s).
Proof. intros R Hl Hp. exact (k_pdel _ (c_k _ (reach_c12 s R)) j Hl Hp). Qed.

(* while X is free nobody is inside _register_poll: listed means cleared *)
Lemma link_xfree_lemma s j v :
  reachable s -> xown s = None -> In (j, v) (descs s) -> pdel s j = false.
Proof.
  intros R Hx Hin. destruct (link_registered_lemma s j v R Hin) as [H|[t [r [_ H]]]]; [exact H|congruence].
Qed.

Lemma link_snapshot_lemma s j v :
  reachable s -> In (j, v) (snapshot_held (pmode s)) -> pdel s j = false.
Proof.
  intros R Hin. destruct (pmode s) as [|l|l| | |] eqn:Em; simpl in Hin; try contradiction;
    refine (proj1 (l_snap _ (reach_invl s R) l _ j (in_descs_fst _ _ _ Hin))); rewrite Em; auto.
Qed.

Lemma link_yield_lemma s j o ts : reachable s -> In (HYield j o ts) (hist s) -> pdel s j = false.
Proof. intros R H. exact (proj1 (l_yield _ (reach_invl s R) _ _ _ H)). Qed.

(* every outcome a poll future was given came with a cleared link -- unless it is the delegate's own exception *)
Lemma link_set_lemma s j o ts :
  reachable s -> In (HSet j o ts) (hist s) ->
  pdel s j = false \/ exists e, o = Err e /\ dout s j = Some (Err e).
Proof.
  intros R H. pose proof (reach_invl s R) as IL.
  destruct (i5_set _ (reach_inv5 s R) _ _ _ H) as [[ts' Hy]|[[e [l [ts' [_ [Hr Hj]]]]]|[e [ts' [-> Hf]]]]].
  - left. exact (proj1 (l_yield _ IL _ _ _ Hy)).
  - left. exact (proj1 (l_raise _ IL _ _ _ Hr _ Hj)).
  - right. exists e. split; [reflexivity|].
    exact (proj1 (i8_hd _ (c_8 _ (reach_c03 s R)) _ _ _ Hf)).
Qed.

Lemma outs_in j o h : In o (outs_of j h) -> exists ts, In (HSet j o ts) h.
Proof.
  induction h as [|x r IH]; simpl; [tauto|].
  destruct x; try (intros H; destruct (IH H) as [ts' H']; exists ts'; right; exact H').
  match goal with |- context [Nat.eqb ?a j] => destruct (Nat.eqb a j) eqn:Ej end.
  - apply Nat.eqb_eq in Ej. subst. intros [H|H].
    + subst. eexists. left. reflexivity.
    + destruct (IH H) as [ts' H']. exists ts'. right. exact H'.
  - intros H. destruct (IH H) as [ts' H']. exists ts'. right. exact H'.
Qed.

Lemma link_pout_lemma s j o :
  reachable s -> pout s j = Some o ->
  pdel s j = false \/ exists e, o = Err e /\ dout s j = Some (Err e).
Proof.
  intros R Ho. pose proof (i3_outs _ (reach_inv3 s R) j) as Hs. rewrite Ho in Hs.
  assert (Hin : In o (outs_of j (hist s))) by (rewrite Hs; left; reflexivity).
  destruct (outs_in _ _ _ Hin) as [ts Hset]. eapply link_set_lemma; eauto.
Qed.

(* a done poll future that still has its delegate link was cancelled, or failed by its delegate's exception *)
Lemma link_done_lemma s j :
  reachable s -> fdone (ps s j) = true -> pdel s j = true ->
  fcancelled (ps s j) = true \/ exists e, pout s j = Some (Err e) /\ dout s j = Some (Err e).
Proof.
  intros R Hd Hp. destruct (ps s j) eqn:Es; simpl in Hd; try discriminate; auto.
  right. pose proof (l_fin _ (reach_invl s R) j Es) as Hn.
  destruct (pout s j) as [o|] eqn:Eo; [|congruence].
  destruct (link_pout_lemma s j o R Eo) as [H|[e [-> H]]]; [congruence|]. exists e. auto.
Qed.

(* the other direction of the link: a done delegate future keeps no callback referring to the poll future *)
Lemma delegate_done_no_cb_lemma s d : reachable s -> fdone (ds s d) = true -> dcb s d = false.
Proof.
  intros R Hd. destruct (dcb s d) eqn:E; [|reflexivity].
  rewrite (i8_dcb _ (c_8 _ (reach_c03 s R)) d E) in Hd. discriminate.
Qed.

(* the window is entered only by done futures: the X-section of _deregister_poll is reached only for a done future
   (so the list never loses a pending one) *)
Lemma dereg_only_done_lemma s t j r : reachable s -> thr s t = IXDereg j :: r -> fdone (ps s j) = true.
Proof.
  intros R E. pose proof (id_prog _ (c_d _ (reach_c03 s R)) t) as H. rewrite E in H. simpl in H. exact (proj1 H).
Qed.
Lemma cbs_only_done_lemma s t j r : reachable s -> thr s t = IRelMCbs j :: r -> fdone (ps s j) = true.
Proof.
  intros R E. pose proof (id_prog _ (c_d _ (reach_c03 s R)) t) as H. rewrite E in H. simpl in H. exact (proj1 H).
Qed.

Lemma window_only_done_lemma s t j r :
  reachable s -> (thr s t = IRelMCbs j :: r \/ thr s t = IXDereg j :: r) -> fdone (ps s j) = true.
Proof. intros R [H|H]; [exact (cbs_only_done_lemma s t j r R H)|exact (dereg_only_done_lemma s t j r R H)]. Qed.

(* the bound method _delegate_resolved parked in the delegate's callback list refers to the poll future: it is gone
   once the poll future is done (in every reachable state) *)
Lemma done_no_parked_cb_lemma s j : reachable s -> fdone (ps s j) = true -> dcb s j = false.
Proof.
  intros R Hd. destruct (dcb s j) eqn:E; [|reflexivity]. exfalso.
  pose proof (c_8 _ (reach_c03 s R)) as I8. pose proof (i8_dcb _ I8 j E) as Hnd.
  destruct (k_done _ (c_k _ (reach_c12 s R)) j Hd) as [Hr|[Hc|[e [ts Hf]]]].
  - pose proof (i7_dcb _ (reach_inv7 s R) j E) as Hz. unfold Rh in Hr. lia.
  - unfold Cd in Hc. destruct (ds s j); simpl in *; discriminate.
  - destruct (i8_hd _ I8 _ _ _ Hf) as [Ho _]. rewrite (i8_fin _ I8 _ _ Ho) in Hnd. discriminate.
Qed.

(* at rest nothing of the library refers to a done poll future: not the executor's list, not the poll thread's
   snapshot, not a callback parked on its delegate, and no thread is inside the library *)
Lemma at_rest_unreferenced_lemma s j :
  reachable s -> poll_at_rest s -> fdone (ps s j) = true ->
  ~ In j (map fst (descs s)) /\ snapshot_held (pmode s) = [] /\ dcb s j = false /\ forall t, thr s t = [].
Proof.
  intros R A Hd. split.
  - intros Hin. apply in_map_iff in Hin. destruct Hin as [[j' v] [Hj Hin]]. simpl in Hj. subst j'.
    destruct (idle_no_done_lemma s j v R (at_rest_idle s A) Hin) as [H _]. congruence.
  - split; [exact (at_rest_no_snapshot s A)|]. split; [exact (done_no_parked_cb_lemma s j R Hd)|exact (at_rest_idle s A)].
Qed.
