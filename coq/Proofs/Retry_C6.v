(* Per-instruction facts (stable properties of the records / delegate futures an instruction mentions). *)
From Coq Require Import List ZArith Bool Arith Lia.
From RecordUpdate Require Import RecordSet.
From ME Require Import Base.Machine Base.Fut Base.GenPrelude Gen.RetryGen Model.Retry Proofs.Retry_Spec Proofs.Retry_C0 Proofs.Retry_C1 Proofs.Retry_C2 Proofs.Retry_C3 Proofs.Retry_C4 Proofs.Retry_C5.
Import ListNotations RecordSetNotations.

Definition ipr (s : st) (i : instr) : Prop :=
  match i with
  | IXAcqPop r | IDoneW r | IDSubmit r =>
      r < nrec s /\ jdel (recs s r) = None /\ jstop (recs s r) = false
  | IDCbDone d => d < ndel s /\ fdone (ds s d) = true /\ dcb s d = true
  | IDCbCancelled d r =>
      r < nrec s /\ jdel (recs s r) = Some d /\ d < ndel s /\ fdone (ds s d) = true /\ dcb s d = true
  | IPolSR r | IPolST r | IXRetry r _ =>
      r < nrec s /\ exists d, jdel (recs s r) = Some d /\ d < ndel s /\ ds s d = Finished /\ dcb s d = true
  | IDCancel j d r => r < nrec s /\ jdel (recs s r) = Some d /\ jf (recs s r) = j /\ d < ndel s
  | IXPop r => r < nrec s /\ forall d, jdel (recs s r) = Some d -> d < ndel s /\ fdone (ds s d) = true
  | IAddCbD d => d < ndel s
  | ICancelled j | IDoneC j | IXCancelScan j => j < nfut s
  | _ => True
  end.

Lemma ipr_mono s s' i : MONO s s' -> ipr s i -> ipr s' i.
Proof.
  intros M. destruct i; simpl; auto.
  - intros A. pose proof (mo_nfut _ _ M). lia.
  - intros A. pose proof (mo_nfut _ _ M). lia.
  - intros A. pose proof (mo_nfut _ _ M). lia.
  - (* IDCancel *) intros (A & B & C & D). repeat split.
    + pose proof (mo_nrec _ _ M). lia.
    + rewrite (mo_jdel _ _ M) by exact A. exact B.
    + rewrite (mo_jf _ _ M) by exact A. exact C.
    + pose proof (mo_ndel _ _ M). lia.
  - (* IDCbDone *) intros (A & B & C). repeat split.
    + pose proof (mo_ndel _ _ M). lia.
    + apply (mo_ddone _ _ M); assumption.
    + apply (mo_dcb _ _ M); assumption.
  - (* IDCbCancelled *) intros (A & B & C & D & E). repeat split.
    + pose proof (mo_nrec _ _ M). lia.
    + rewrite (mo_jdel _ _ M) by exact A. exact B.
    + pose proof (mo_ndel _ _ M). lia.
    + apply (mo_ddone _ _ M); assumption.
    + apply (mo_dcb _ _ M); assumption.
  - intros (A & d & B & C & D & E). split; [pose proof (mo_nrec _ _ M); lia|]. exists d. repeat split.
    + rewrite (mo_jdel _ _ M) by exact A. exact B.
    + pose proof (mo_ndel _ _ M). lia.
    + apply (mo_dfin _ _ M); assumption.
    + apply (mo_dcb _ _ M); assumption.
  - intros (A & d & B & C & D & E). split; [pose proof (mo_nrec _ _ M); lia|]. exists d. repeat split.
    + rewrite (mo_jdel _ _ M) by exact A. exact B.
    + pose proof (mo_ndel _ _ M). lia.
    + apply (mo_dfin _ _ M); assumption.
    + apply (mo_dcb _ _ M); assumption.
  - intros (A & d & B & C & D & E). split; [pose proof (mo_nrec _ _ M); lia|]. exists d. repeat split.
    + rewrite (mo_jdel _ _ M) by exact A. exact B.
    + pose proof (mo_ndel _ _ M). lia.
    + apply (mo_dfin _ _ M); assumption.
    + apply (mo_dcb _ _ M); assumption.
  - (* IXPop *) intros (A & B). split; [pose proof (mo_nrec _ _ M); lia|]. intros d Hd.
    rewrite (mo_jdel _ _ M) in Hd by exact A. destruct (B d Hd) as [B1 B2].
    split; [pose proof (mo_ndel _ _ M); lia|apply (mo_ddone _ _ M); assumption].
  - intros (A & B & C). repeat split.
    + pose proof (mo_nrec _ _ M). lia.
    + rewrite (mo_jdel _ _ M) by exact A. exact B.
    + rewrite (mo_jstop_q _ _ M) by assumption. exact C.
  - intros (A & B & C). repeat split.
    + pose proof (mo_nrec _ _ M). lia.
    + rewrite (mo_jdel _ _ M) by exact A. exact B.
    + rewrite (mo_jstop_q _ _ M) by assumption. exact C.
  - intros (A & B & C). repeat split.
    + pose proof (mo_nrec _ _ M). lia.
    + rewrite (mo_jdel _ _ M) by exact A. exact B.
    + rewrite (mo_jstop_q _ _ M) by assumption. exact C.
  - intros A. pose proof (mo_ndel _ _ M). lia.
Qed.

Lemma Forall_norm (P : instr -> Prop) : P IDead -> forall p b, Forall P p -> Forall P (norm b p).
Proof.
  intros Hd. induction p as [|i r IH]; intros b H.
  - destruct b; simpl; auto.
  - inversion H; subst. destruct i; simpl; try (apply IH; assumption);
      (destruct b; [apply IH; assumption|exact H]).
Qed.

Lemma Forall_cbs (P : instr -> Prop) j l : (forall j, P (IAcqM j)) -> (forall j, P (IRelM j)) ->
  (forall j c, P (IUserCb j c)) -> Forall P (cbs_prog j l).
Proof.
  intros A B C. induction l as [|c l IH]; simpl; [constructor|]. destruct c; simpl; auto.
Qed.

Record PI (s : st) : Prop := {
  pi_thr : forall t, Forall (ipr s) (thr s t);
  pi_jf : forall r, r < nrec s -> jf (recs s r) < nfut s;
  pi_del : forall r d, r < nrec s -> jdel (recs s r) = Some d -> d < ndel s /\ dfor s d = jf (recs s r)
}.

Lemma PI_init : PI init.
Proof. constructor; simpl; intros; try lia. constructor. Qed.

Lemma PI_upd s s' t p : MONO s s' -> (forall u, Forall (ipr s) (thr s u)) -> Forall (ipr s') p ->
  forall u, Forall (ipr s') (upd (thr s) t p u).
Proof.
  intros M H Hp u. unfold upd. destruct (Nat.eqb u t); [exact Hp|].
  eapply Forall_impl; [|apply H]. intros i. apply ipr_mono. exact M.
Qed.

Lemma PI_upd' s s' : MONO s s' -> (forall u, Forall (ipr s) (thr s u)) ->
  forall t p, (forall u, thr s' u = upd (thr s) t p u) -> Forall (ipr s') p ->
  forall u, Forall (ipr s') (thr s' u).
Proof. intros M H t p E Hp u. rewrite E. apply PI_upd; assumption. Qed.

Lemma Forall_tl {A} (P : A -> Prop) l : Forall P l -> Forall P (tl l).
Proof. destruct l; simpl; auto. intros H. inversion H; auto. Qed.

Lemma find_fut_some s j r : find_fut s j = Some r -> In r (jobs s) /\ jf (recs s r) = j.
Proof.
  unfold find_fut. intros H. apply find_some in H. destruct H as [A B]. split; [exact A|].
  apply eqb_t in B. exact B.
Qed.

Lemma f_cancel_done' pre f : f_cancel pre = (f, true) -> fdone f = true.
Proof. destruct pre; simpl; intros [= <-]; reflexivity. Qed.

Lemma PI_step0 s e s' : PI s -> RI s -> step0 s e = Some s' -> PI s'.
Proof.
  intros HI HR H. pose proof (MONO_step0 _ _ _ H) as HM. s0inv H; try exact HI.
  all: try (match goal with inl : option outcome |- _ => destruct inl end).
  all: bsplit; subst.
  all: pose proof HI as HI'; destruct HI' as [T JF DL].
  all: match goal with Hq : thr _ ?t = _ |- _ => pose proof (T t) as Tt; rewrite Hq in Tt; pose proof Tt as Tt0 end.
  all: eapply Forall_impl in Tt; [|intros i; apply ipr_mono; exact HM].
  all: constructor; [first [eapply (PI_upd' s _ HM T); [intros u; reflexivity|] | intros u; eapply Forall_impl; [|apply T]; intros i; apply ipr_mono; exact HM]| |].
  all: try (apply Forall_norm; [exact I|]).
  all: repeat (match goal with H : Forall _ (_ :: _) |- _ => inversion H; subst; clear H end).
  all: try assumption.
  all: repeat (match goal with |- Forall _ (_ :: _) => apply Forall_cons end); try assumption; try exact I; try apply Forall_nil.
  all: clear HM; unfold log, set_prog in *; simpl in *.
  all: try assumption.
  all: try (intuition; fail).
  all: repeat match goal with H : _ /\ _ |- _ => destruct H | H : exists _, _ |- _ => destruct H end.
  - apply Nat.ltb_lt. assumption.
  - apply next_job_in in Heqo. destruct Heqo as [A B]. split; [apply (ri_jobs s HR); exact A|]. intros d E. congruence.
  - apply next_job_in in Heqo. destruct Heqo as [A B]. split; [apply (ri_jobs s HR); exact A|]. intros d E. congruence.
  - apply next_job_in in Heqo. destruct Heqo as [A B]. split; [apply (ri_jobs s HR); exact A|]. split; assumption.
  - intros r0 Hr. unfold upd. destruct (Nat.eqb r0 (nrec s)) eqn:E; simpl; [lia|].
    apply Nat.eqb_neq in E. assert (Hlt : r0 < nrec s) by lia. apply JF in Hlt. lia.
  - intros r0 d Hr. unfold upd. destruct (Nat.eqb r0 (nrec s)) eqn:E; simpl; [discriminate|].
    apply Nat.eqb_neq in E. apply DL. lia.
  - apply find_fut_some in Heqo. destruct Heqo as [A B]. apply (ri_jobs s HR) in A.
    rewrite jdel_stop_upd, jf_stop_upd. destruct (DL _ _ A Heqo0). auto.
  - intros r0 Hr. rewrite jf_stop_upd. apply JF. exact Hr.
  - intros r0 d Hr. rewrite jdel_stop_upd, jf_stop_upd. apply DL. exact Hr.
  - match goal with A : r < nrec s |- _ => apply JF in A end.
    intros r0 Hr. unfold upd. destruct (Nat.eqb r0 (nrec s)) eqn:E; simpl; [lia|].
    apply Nat.eqb_neq in E. assert (Hlt : r0 < nrec s) by lia. apply JF in Hlt. lia.
  - intros r0 d Hr. unfold upd. destruct (Nat.eqb r0 (nrec s)) eqn:E; simpl; [discriminate|].
    apply Nat.eqb_neq in E. apply DL. lia.
  - split; [assumption|]. intros dd E. match goal with Hf : ds s ?x = Finished |- _ => assert (dd = x) by congruence; subst dd; rewrite Hf end. auto.
  - apply Forall_app. split; [apply Forall_cbs; intros; exact I|assumption].
  - apply Forall_tl. assumption.
  - rewrite upd_same. repeat split; try assumption. eapply f_cancel_done'; eassumption.
  - split; [assumption|]. intros d E. assert (d = d0) by congruence. subst d.
    rewrite upd_same. split; [assumption|eapply f_cancel_done'; eassumption].
  - split; [assumption|]. intros d E. assert (d = d0) by congruence. subst d.
    rewrite upd_same. split; [assumption|eapply f_cancel_done'; eassumption].
  - apply find_del_some in Heqo. destruct Heqo as [A B]. apply (ri_jobs s HR) in A. auto.
  - split; [assumption|]. intros dd E. assert (dd = d0) by congruence. subst dd. auto.
  - split; [assumption|]. exists d0. repeat split; try assumption.
    destruct (ds s d0); simpl in *; congruence.
  - rewrite upd_same. auto.
  - split; [assumption|]. intros dd E. match goal with Hf : ds s ?x = Finished |- _ => assert (dd = x) by congruence; subst dd; rewrite Hf end. auto.
  - split; [assumption|]. intros dd E. match goal with Hf : ds s ?x = Finished |- _ => assert (dd = x) by congruence; subst dd; rewrite Hf end. auto.
  - split; [assumption|]. intros dd E. match goal with Hf : ds s ?x = Finished |- _ => assert (dd = x) by congruence; subst dd; rewrite Hf end. auto.
  - match goal with A : r < nrec s |- _ => apply JF in A end.
    intros r0 Hr. unfold upd at 1. destruct (Nat.eqb r0 (nrec s)) eqn:E; simpl; [lia|].
    apply Nat.eqb_neq in E. assert (Hlt : r0 < nrec s) by lia. apply JF in Hlt. lia.
  - intros r0 d Hr. unfold upd at 1 3. destruct (Nat.eqb r0 (nrec s)) eqn:E; simpl.
    + intros [= <-]. rewrite upd_same. split; [lia|reflexivity].
    + apply Nat.eqb_neq in E. intros Hd. apply DL in Hd; [|lia]. destruct Hd as [D1 D2].
      rewrite upd_lt by exact D1. split; [lia|exact D2].
  - match goal with A : r < nrec s |- _ => apply JF in A end.
    intros r0 Hr. unfold upd at 1. destruct (Nat.eqb r0 (nrec s)) eqn:E; simpl; [lia|].
    apply Nat.eqb_neq in E. assert (Hlt : r0 < nrec s) by lia. apply JF in Hlt. lia.
  - intros r0 d Hr. unfold upd at 1 3. destruct (Nat.eqb r0 (nrec s)) eqn:E; simpl.
    + intros [= <-]. rewrite upd_same. split; [lia|reflexivity].
    + apply Nat.eqb_neq in E. intros Hd. apply DL in Hd; [|lia]. destruct Hd as [D1 D2].
      rewrite upd_lt by exact D1. split; [lia|exact D2].
  - destruct (dcb s d) eqn:Ed; [|constructor]. repeat constructor; simpl.
    + apply Nat.ltb_lt. exact H1.
    + rewrite upd_same. destruct (ds s d); simpl in Heqo0; inversion Heqo0; reflexivity.
    + exact Ed.
  - destruct (dcb s d) eqn:Ed; [|constructor]. repeat constructor; simpl.
    + apply Nat.ltb_lt. exact H1.
    + rewrite upd_same. destruct (ds s d); simpl in *; congruence.
    + exact Ed.
Qed.

Lemma PI_tick s ts : PI s -> PI (s <| clock := ts |>).
Proof. intros [T J D]. constructor; simpl; assumption. Qed.

Lemma PI_reach s : reachable_from step init s -> PI s.
Proof.
  apply (invariant_rule_r step PI); [exact PI_init|].
  intros s0 e s' R IH H. apply step_split in H. destruct H as (s1 & Ht & H).
  apply tick_eq in Ht. subst s1. eapply PI_step0; [apply PI_tick; exact IH| |exact H].
  apply RI_tick, RI_reach, R.
Qed.
