(* Shared definitions and small lemmas for Model/ExecGauge.v: the frame list, the faithful step in
   clean form, sums over lists of instance ids. *)
From Coq Require Import ZArith List Bool Arith Lia.
From ME Require Import Base.Machine Model.ExecGauge.
Import ListNotations.
Local Open Scope Z_scope.

Definition b2z (b : bool) : Z := if b then 1 else 0.
Definition b2n (b : bool) : nat := if b then 1%nat else 0%nat.

(* ---- frames ---------------------------------------------------------------------------------------- *)
Lemma fph_eqb_eq a b : fph_eqb a b = true -> a = b.
Proof. destruct a, b; simpl; intros H; try reflexivity; discriminate. Qed.

Lemma top_in t l f : top t l = Some f -> In f l /\ ft f = t.
Proof.
  induction l as [|g r IH]; simpl; [discriminate|].
  destruct (Nat.eqb (ft g) t) eqn:E.
  - intros H; inversion H; subst. apply Nat.eqb_eq in E. split; [left; reflexivity|exact E].
  - intros H. destruct (IH H) as [I T]. split; [right; exact I|exact T].
Qed.

Lemma top_is_spec t e p l : top_is t e p l = true -> top t l = Some (mkF t e p).
Proof.
  unfold top_is. destruct (top t l) as [f|] eqn:E; [|discriminate].
  intros H. apply andb_true_iff in H. destruct H as [He Hp].
  apply Nat.eqb_eq in He. apply fph_eqb_eq in Hp. destruct (top_in _ _ _ E) as [_ T].
  destruct f as [t0 e0 p0]; simpl in *. subst. reflexivity.
Qed.

Lemma top_is_in t e p l : top_is t e p l = true -> In (mkF t e p) l.
Proof. intros H. apply top_is_spec in H. apply top_in in H. tauto. Qed.

(* a frame other than the innermost one of t survives set_top / pop *)
Lemma in_set_top_other t p l f g : top t l = Some f -> In g l -> g <> f -> In g (set_top t p l).
Proof.
  induction l as [|h r IH]; simpl; [tauto|].
  destruct (Nat.eqb (ft h) t) eqn:E.
  - intros H [I|I] N; inversion H; subst.
    + congruence.
    + right; exact I.
  - intros H [I|I] N.
    + left; exact I.
    + right. apply IH; assumption.
Qed.

Lemma in_pop_other t l f g : top t l = Some f -> In g l -> g <> f -> In g (pop t l).
Proof.
  induction l as [|h r IH]; simpl; [tauto|].
  destruct (Nat.eqb (ft h) t) eqn:E.
  - intros H [I|I] N; inversion H; subst.
    + congruence.
    + exact I.
  - intros H [I|I] N.
    + left; exact I.
    + right. apply IH; assumption.
Qed.

Lemma in_set_top_new t p l f : top t l = Some f -> In (mkF (ft f) (fe f) p) (set_top t p l).
Proof.
  induction l as [|h r IH]; simpl; [discriminate|].
  destruct (Nat.eqb (ft h) t) eqn:E.
  - intros H; inversion H; subst. left; reflexivity.
  - intros H. right. apply IH; exact H.
Qed.

(* every frame of the new list has the instance of a frame of the old one *)
Lemma set_top_fe t p l g : In g (set_top t p l) -> exists h, In h l /\ fe h = fe g.
Proof.
  induction l as [|h r IH]; simpl; [tauto|].
  destruct (Nat.eqb (ft h) t).
  - intros [I|I].
    + exists h. split; [left; reflexivity|]. subst g. reflexivity.
    + exists g. split; [right; exact I|reflexivity].
  - intros [I|I].
    + exists g. split; [left; exact I|reflexivity].
    + destruct (IH I) as [h' [I' E']]. exists h'. split; [right; exact I'|exact E'].
Qed.

Lemma pop_incl t l g : In g (pop t l) -> In g l.
Proof.
  induction l as [|h r IH]; simpl; [tauto|].
  destruct (Nat.eqb (ft h) t).
  - intros I; right; exact I.
  - intros [I|I]; [left; exact I|right; apply IH; exact I].
Qed.

Lemma busy_in s f : In f (open s) -> busy s (fe f) = true.
Proof.
  intros I. unfold busy. apply existsb_exists. exists f. split; [exact I|apply Nat.eqb_refl].
Qed.

(* ---- the faithful step, without the ablation switches ------------------------------------------------- *)
Definition xstep_clean (s : xst) (ev : xev) : option xst :=
  match ev with
  | XIncTotal e =>
      if counted s e then None
      else Some (mkX (upd (counted s) e true) (gauged s) (flag s) (pend s) (gauge s)
                     (upd (total s) e (total s e + 1)) (wins s) (decs s) (open s))
  | XIncProg e =>
      if gauged s e then None
      else Some (mkX (counted s) (upd (gauged s) e true) (flag s) (pend s)
                     (upd (gauge s) e (gauge s e + 1)) (total s) (wins s) (decs s) (open s))
  | XCall t e =>
      if created s e then Some (with_open s (mkF t e FCalled :: open s)) else None
  | XWin t e =>
      if top_is t e FCalled (open s) then
        if flag s e then None
        else Some (mkX (counted s) (gauged s) (upd (flag s) e true) (upd (pend s) e (Some t)) (gauge s) (total s)
                       (upd (wins s) e (S (wins s e))) (decs s) (set_top t FWon (open s)))
      else None
  | XLose t e =>
      if top_is t e FCalled (open s) then
        if flag s e then Some (with_open s (set_top t FLost (open s))) else None
      else None
  | XDec t e =>
      if top_is t e FWon (open s) then
        if pend_is s e t then
          Some (mkX (counted s) (gauged s) (flag s) (upd (pend s) e None) (upd (gauge s) e (gauge s e - 1)) (total s)
                    (wins s) (upd (decs s) e (S (decs s e))) (set_top t FWonDec (open s)))
        else None
      else None
  | XRet t e =>
      if top_is t e FWonDec (open s) then Some (with_open s (pop t (open s)))
      else if top_is t e FLost (open s) then Some (with_open s (pop t (open s)))
      else None
  | XObs e b => if created s e && Bool.eqb (flag s e) b then Some s else None
  end.

Lemma xstep_is_clean s ev : xstep s ev = xstep_clean s ev.
Proof.
  destruct ev as [e|e|t e|t e|t e|t e|t e|e b]; unfold xstep, xstep_gen, xstep_clean; simpl; try reflexivity.
  - rewrite orb_false_r. destruct (top_is t e FCalled (open s)); simpl; [|reflexivity].
    destruct (flag s e); reflexivity.
  - rewrite orb_false_r. destruct (top_is t e FCalled (open s)); simpl; [|reflexivity].
    destruct (flag s e); reflexivity.
  - destruct (top_is t e FWon (open s)); simpl; [|reflexivity]. destruct (pend_is s e t); reflexivity.
  - rewrite orb_false_r. destruct (top_is t e FWonDec (open s)); simpl; [reflexivity|].
    destruct (top_is t e FLost (open s)); reflexivity.
Qed.

Lemma pend_is_spec s e t : pend_is s e t = true -> pend s e = Some t.
Proof.
  unfold pend_is. destruct (pend s e) as [w|]; [|discriminate].
  intros H. apply Nat.eqb_eq in H. subst. reflexivity.
Qed.

(* ---- sums over a list of instance ids / label ids ------------------------------------------------- *)
Fixpoint sumZ (f : nat -> Z) (l : list nat) : Z :=
  match l with [] => 0 | x :: r => f x + sumZ f r end.

Definition countb (p : nat -> bool) (l : list nat) : nat := length (filter p l).

Lemma countb_cons p x r : countb p (x :: r) = (b2n (p x) + countb p r)%nat.
Proof. unfold countb. simpl. destruct (p x); reflexivity. Qed.

Lemma sumZ_pointwise (f : nat -> Z) (p : nat -> bool) l :
  (forall x, In x l -> f x = b2z (p x)) -> sumZ f l = Z.of_nat (countb p l).
Proof.
  induction l as [|x r IH]; intros H; [reflexivity|].
  rewrite countb_cons. simpl sumZ. rewrite IH by (intros y Hy; apply H; right; exact Hy).
  rewrite (H x) by (left; reflexivity). destruct (p x); simpl b2z; simpl b2n; lia.
Qed.

Ltac upd_case i0 i :=
  unfold upd; destruct (Nat.eqb i0 i) eqn:?E;
  [apply Nat.eqb_eq in E; subst i0 | ].
