(* source facts of more_executors/_impl/futures/bool.py: what the translator finds now is what the models were written against *)
From Coq Require Import List String.
From ME Require Import Gen.Src_fbool Model.SrcExpected.
Lemma src_fbool_ok : Src_fbool.facts = expected_fbool.
Proof. reflexivity. Qed.
