(* source facts of more_executors/_impl/bind.py: what the translator finds now is what the models were written against *)
From Coq Require Import List String.
From ME Require Import Gen.Src_bind Model.SrcExpected.
Lemma src_bind_ok : Src_bind.facts = expected_bind.
Proof. reflexivity. Qed.
