(* descriptor_exact, "none duplicated": every poll future is registered at most once.
   The pending _delegate_resolved / _register_poll of future j is a token that is either parked in the
   delegate's callback list (dcb j), held in the program of exactly one thread (tok j), or consumed. *)
From Coq Require Import ZArith List Bool Arith Lia.
From RecordUpdate Require Import RecordSet.
From ME Require Import Base.Machine Base.Fut Base.GenPrelude Model.Poll Proofs.Poll_Inv.
Import ListNotations RecordSetNotations.

Definition tokb (j : nat) (i : instr) : bool :=
  match i with IAddCbD j' | IDCancelledQ j' | IXAcqReg j' _ => Nat.eqb j' j | _ => false end.
Fixpoint cnt (j : nat) (p : list instr) : nat :=
  match p with [] => 0 | i :: r => (if tokb j i then 1 else 0) + cnt j r end.
(* number of registrations of future j in the history *)
Fixpoint nreg (j : nat) (h : list hev) : nat :=
  match h with
  | [] => 0
  | HReg j' _ _ :: r => (if Nat.eqb j' j then 1 else 0) + nreg j r
  | _ :: r => nreg j r
  end.
Definition holds (o : option nat) (t : nat) : bool := match o with Some x => Nat.eqb x t | None => false end.

Record Inv7 (s : st) : Prop := {
  i7_cnt : forall j t, cnt j (thr s t) = if holds (tok s j) t then 1 else 0;
  i7_tok : forall j, tok s j <> None -> dcb s j = false /\ nreg j (hist s) = 0;
  i7_dcb : forall j, dcb s j = true -> nreg j (hist s) = 0;
  i7_one : forall j, nreg j (hist s) <= 1;
  i7_fresh : forall j, nfut s <= j -> tok s j = None /\ dcb s j = false /\ nreg j (hist s) = 0
}.

Lemma inv7_init : Inv7 init.
Proof. constructor; simpl; intros; auto; congruence. Qed.

Lemma cnt_app j p q : cnt j (p ++ q) = cnt j p + cnt j q.
Proof. induction p; simpl; [reflexivity|]. rewrite IHp. lia. Qed.
Lemma cnt_cancel_cont s j k : cnt j (cancel_cont s k) = 0.
Proof.
  unfold cancel_cont, cancel_no, cancel_ok. destruct (negb (pexec s k)); [reflexivity|].
  destruct (negb (hascfn s)); [reflexivity|]. destruct (lookup k (descs s)); reflexivity.
Qed.
Lemma cnt_norm s j p : cnt j (norm s p) = cnt j p.
Proof. destruct p as [|i r]; [reflexivity|]. destruct i; try reflexivity. simpl. rewrite cnt_app, cnt_cancel_cont. reflexivity. Qed.
Lemma cnt_raise j e (sn : list (nat * nat)) : cnt j (flat_map (fun p => exc_prog (fst p) e) sn) = 0.
Proof. induction sn; simpl; auto. Qed.
Lemma cnt_yield j k o : cnt j (yield_prog k o) = 0.
Proof. destruct o; reflexivity. Qed.

(* brute force on the boolean conditions left in goal and hypotheses *)
Ltac bools :=
  repeat match goal with
  | H : context [match ?c with _ => _ end] |- _ => destruct c eqn:?
  | |- context [match ?c with _ => _ end] => destruct c eqn:?
  end.

Ltac cleanup :=
  repeat match goal with
  | E : Nat.eqb _ _ = true |- _ => apply Nat.eqb_eq in E; subst
  | E : Nat.eqb _ _ = false |- _ => apply Nat.eqb_neq in E
  | E : Nat.leb _ _ = true |- _ => apply Nat.leb_le in E
  | E : Nat.leb _ _ = false |- _ => apply Nat.leb_gt in E
  | E : Some _ = Some _ |- _ => inversion E; subst; clear E
  end.

Ltac fin7 := cleanup; try solve [ lia | congruence | auto | split; [congruence|split; [congruence|lia]] | split; [congruence|lia]
                                 | exfalso; auto | exfalso; lia ].

(* the invariant instantiated at the moving thread's program *)
Ltac mover Ic :=
  try match goal with
  | E : thr ?s ?t = _ |- _ =>
      let Hc := fresh "Hc" in
      assert (Hc := fun j => Ic j t); rewrite E in Hc; simpl in Hc
  end.

Ltac g7_cnt Ic If It :=
  let j0 := fresh "j0" in let t0 := fresh "t0" in
  intros j0 t0;
  pose proof (Ic j0 t0) as Hc0;
  try match goal with Hc : forall j, _ = _ |- _ => pose proof (Hc j0) as Hcj end;
  try match goal with |- context [upd (thr _) ?t _ t0] =>
    destruct (Nat.eq_dec t0 t) as [Heq|Hne];
    [ subst t0; rewrite (upd_same _ t) | rewrite (upd_other _ t _ t0) by assumption ]
  end;
  rewrite ?cnt_norm, ?cnt_app, ?cnt_raise, ?cnt_yield, ?cnt_cancel_cont; simpl;
  rewrite ?cnt_app, ?cnt_cancel_cont;
  pose proof (If j0) as Hfj; pose proof (It j0) as Htj;
  unfold upd, holds in *; bools; cleanup;
  try solve [ fin7
            | destruct Hfj as [? [? ?]]; [lia|]; fin7
            | destruct Htj as [? ?]; [congruence|]; fin7 ].

Ltac g7_rest Ic It Id Io If :=
  let j0 := fresh "j0" in intros j0; intros;
  pose proof (It j0) as Htj; pose proof (Id j0) as Hdj; pose proof (Io j0) as Hoj; pose proof (If j0) as Hfj;
  try match goal with Hc : forall j, _ = _ |- _ => pose proof (Hc j0) as Hcj end;
  unfold upd, holds in *; bools; cleanup;
  try solve [ fin7
            | destruct (tok _ j0) eqn:Etk; [destruct Htj as [? ?]; [congruence|]; fin7 | fin7]
            | destruct Hfj as [? [? ?]]; [lia|]; fin7
            | destruct Htj as [? ?]; [assumption|]; fin7 ].

Ltac split_ands :=
  repeat match goal with E : _ && _ = true |- _ => apply andb_prop in E; destruct E end.

Ltac inv7_fin Ic It Id Io If :=
  split_ands; mover Ic; constructor; simpl in *;
  [ try solve [g7_cnt Ic If It] | try solve [g7_rest Ic It Id Io If] | try solve [g7_rest Ic It Id Io If]
  | try solve [g7_rest Ic It Id Io If] | try solve [g7_rest Ic It Id Io If] ].

Lemma inv7_step s e s' : Inv7 s -> step s e = Some s' -> Inv7 s'.
Proof.
  destruct e as [ts e]. intros I H. apply step_inv in H. destruct H as [s1 [Ht H]].
  assert (I1 : Inv7 s1).
  { apply tick_inv in Ht. destruct Ht as [[-> _]|[-> _]]; [exact I|]. destruct I; constructor; simpl; auto. }
  clear I Ht s. destruct I1 as [Ic It Id Io If].
  apply step0_inv in H. destruct H as [[c [d [-> [_ ->]]]]|[_ [H|[H|H]]]].
  - constructor; simpl; auto.
  - open1 H; norm_eqs; inv7_fin Ic It Id Io If.
  - open2 H; norm_eqs; inv7_fin Ic It Id Io If.
  - open3 H; norm_eqs; inv7_fin Ic It Id Io If.
Qed.

(* ---- from "registered at most once" to "no duplicate descriptor" ---------------------------------- *)
Lemma nodup_snoc {A} (l : list A) x : NoDup l -> ~ In x l -> NoDup (l ++ [x]).
Proof.
  induction l as [|a r IH]; simpl; intros Hn Hx; [repeat constructor; auto|].
  inversion Hn; subst. constructor.
  - rewrite in_app_iff. simpl. intros [H|[H|[]]]; [auto|subst; apply Hx; left; reflexivity].
  - apply IH; auto.
Qed.

Lemma in_fst_remove j k l : In k (map fst (remove_fut j l)) -> In k (map fst l).
Proof.
  unfold remove_fut. induction l as [|p r IH]; simpl; [auto|].
  destruct (negb (fst p =? j)); simpl; intuition.
Qed.
Lemma nodup_remove j l : NoDup (map fst l) -> NoDup (map fst (remove_fut j l)).
Proof.
  induction l as [|p r IH]; simpl; intros H; [constructor|]. inversion H; subst.
  unfold remove_fut in *. simpl. destruct (negb (fst p =? j)); simpl; [|auto].
  constructor; [|auto]. intros Hin. apply H2. apply (in_fst_remove j). exact Hin.
Qed.

Lemma in_descs_nreg j h : In j (map fst (descs_of h)) -> 1 <= nreg j h.
Proof.
  induction h as [|x r IH]; simpl; [tauto|].
  destruct x; simpl; auto.
  - rewrite map_app, in_app_iff. simpl. intros [H|[H|[]]]; [apply IH in H; lia|].
    subst. rewrite Nat.eqb_refl. lia.
  - intros H. apply in_fst_remove in H. auto.
Qed.

Lemma nreg_tail x j r : nreg j r <= nreg j (x :: r).
Proof. destruct x; simpl; lia. Qed.

Lemma nodup_descs_of h : (forall j, nreg j h <= 1) -> NoDup (map fst (descs_of h)).
Proof.
  induction h as [|x r IH]; intros Hn; [constructor|].
  assert (Hr : forall j, nreg j r <= 1) by (intros j; pose proof (Hn j); pose proof (nreg_tail x j r); lia).
  specialize (IH Hr). destruct x; simpl; auto.
  - rewrite map_app. simpl. apply nodup_snoc; [exact IH|].
    intros Hin. apply in_descs_nreg in Hin. specialize (Hn j). simpl in Hn. rewrite Nat.eqb_refl in Hn. lia.
  - apply nodup_remove, IH.
Qed.

Lemma last_snap_in r l : last_snap r = Some l -> exists ts, In (HSnap l ts) r.
Proof.
  induction r as [|x r IH]; simpl; [discriminate|].
  destruct x; try (intros H; destruct (IH H) as [ts' Hts]; exists ts'; right; exact Hts).
  intros H. inversion H; subst. eexists. left. reflexivity.
Qed.

Lemma snaps_nodup h :
  snaps_ok h -> (forall j, nreg j h <= 1) ->
  (forall l ts, In (HSnap l ts) h -> NoDup (map fst l)) /\
  (forall t l ts, In (HPoll t l ts) h -> NoDup (map fst l)).
Proof.
  induction h as [|x r IH]; intros Hs Hn; [split; intros; contradiction|].
  assert (Hr : forall j, nreg j r <= 1) by (intros j; pose proof (Hn j); pose proof (nreg_tail x j r); lia).
  destruct x; simpl in Hs;
    try (destruct (IH Hs Hr) as [I1 I2]; split; intros; simpl in *;
         match goal with H : _ \/ _ |- _ => destruct H as [H|H]; [discriminate H|eauto] end).
  - destruct Hs as [Hl Hs]. destruct (IH Hs Hr) as [I1 I2]. split; intros; simpl in *.
    + destruct H as [H|H]; [inversion H; subst; apply nodup_descs_of, Hr|eauto].
    + destruct H as [H|H]; [discriminate H|eauto].
  - destruct Hs as [Hl Hs]. destruct (IH Hs Hr) as [I1 I2]. split; intros; simpl in *.
    + destruct H as [H|H]; [discriminate H|eauto].
    + destruct H as [H|H]; [|eauto]. inversion H; subst. destruct (last_snap_in _ _ Hl) as [ts' Hin]. eauto.
Qed.
