(* Inductive invariant of the CancelOnShutdownExecutor model and the lemmas behind Props/C10.v. *)
From Coq Require Import List Arith Bool Lia PeanoNat.
From ME Require Import Base.Machine Base.Fut Model.Cos.
Import ListNotations.

(* ---- classification of program counters -------------------------------------------------- *)
Definition holds_gate (p : pc) : bool :=
  match p with S1 | SRaise | S2 | S3 _ | S4 _ | S5 _ | H1 | HNoop => true | _ => false end.
Definition holds_lk (p : pc) : bool :=
  match p with S2 | S3 _ | S4 _ | H3 _ => true | _ => false end.
Definition sweeper (p : pc) : bool :=
  match p with H1 | H2 | H3 _ | H4 _ | H5 => true | _ => false end.
Definition pre5 (p : pc) : bool :=
  match p with H1 | H2 | H3 _ | H4 _ => true | _ => false end.
Definition presweep (p : pc) : bool :=
  match p with H1 | H2 => true | _ => false end.
Definition todo_of (p : pc) : option (list fid) :=
  match p with H3 l | H4 l => Some l | H5 => Some [] | _ => None end.
Definition fut_of (p : pc) : option fid :=
  match p with S3 f | S4 f | S5 f | S6 f => Some f | _ => None end.
Definition past_check' (p : pc) : bool :=
  match p with S1 | S2 | S3 _ | S4 _ | S5 _ => true | _ => false end.
Definition thread_event' (e : ev) : bool :=
  match e with CallSubmit _ | CallShutdown _ | EnvRun _ _ | EnvFinish _ _ => false | _ => true end.

(* coverage of all created futures, relative to what the sweeper still has to cancel *)
Definition Cover (c : fid -> nat) (cr : nat) (fm : fid -> fstate) (todo : list fid) : Prop :=
  (forall f, In f todo -> c f = 0) /\
  (forall f, f < cr -> fdone (fm f) = true \/ c f = 1 \/ In f todo).

Record Inv (s : st) : Prop := {
  i_gate : forall t, gate s = Some t <-> holds_gate (thr s t) = true;
  i_lk : forall t, lk s = Some t <-> holds_lk (thr s t) = true;
  i_uniq : forall t1 t2, sweeper (thr s t1) = true -> sweeper (thr s t2) = true -> t1 = t2;
  i_ff_sw : flag s = false -> forall t, sweeper (thr s t) = false;
  i_ff_ret : flag s = false -> shut_ret s = false;
  i_ff_d : flag s = false -> dshut s = 0;
  i_ff_c : flag s = false -> forall f, cancels s f = 0;
  i_ft : flag s = true -> forall t, past_check' (thr s t) = false;
  i_d0 : forall t, pre5 (thr s t) = true -> dshut s = 0;
  i_d1 : forall t, thr s t = H5 -> dshut s = 1;
  i_dle : dshut s <= 1;
  i_ret_d : shut_ret s = true -> dshut s = 1;
  i_ret_sw : shut_ret s = true -> forall t, sweeper (thr s t) = false;
  i_ret_cov : shut_ret s = true -> Cover (cancels s) (created s) (fs s) [];
  i_cle : forall f, cancels s f <= 1;
  i_cpre : forall t, presweep (thr s t) = true -> forall f, cancels s f = 0;
  i_cov : forall t todo, todo_of (thr s t) = Some todo ->
          Cover (cancels s) (created s) (fs s) todo;
  i_trk : forall f, f < created s -> In f (tracked s) \/ fdone (fs s f) = true;
  i_fut : forall t f, fut_of (thr s t) = Some f -> f < created s
}.

Lemma in_remove f g l : In g (remove_f f l) <-> In g l /\ g <> f.
Proof. unfold remove_f. rewrite filter_In, negb_true_iff, Nat.eqb_neq. tauto. Qed.

Lemma memb_in f l : memb f l = true <-> In f l.
Proof.
  unfold memb. rewrite existsb_exists. split.
  - intros [x [Hin Hx]]. apply Nat.eqb_eq in Hx. subst x. exact Hin.
  - intros Hin. exists f. split; [exact Hin|apply Nat.eqb_refl].
Qed.

Lemma inv_init : Inv init.
Proof.
  constructor; simpl; try (intros; discriminate); try (intros; lia).
  - intros t. split; intros; discriminate.
  - intros t. split; intros; discriminate.
Qed.

Lemma pre5_sweeper p : pre5 p = true -> sweeper p = true.
Proof. destruct p; simpl; congruence. Qed.
Lemma presweep_sweeper p : presweep p = true -> sweeper p = true.
Proof. destruct p; simpl; congruence. Qed.
Lemma todo_sweeper p l : todo_of p = Some l -> sweeper p = true.
Proof. destruct p; simpl; congruence. Qed.
Lemma past_check_holds_gate p : past_check' p = true -> holds_gate p = true.
Proof. destruct p; simpl; congruence. Qed.

(* ---- tactics ------------------------------------------------------------------------------ *)
(* case-split every application of a point update at key k *)
Ltac usplit k :=
  repeat match goal with
  | H : context [upd _ k _ ?x] |- _ =>
      destruct (Nat.eq_dec x k) as [->|?];
      [rewrite ?(upd_same _ k) in * | rewrite ?(upd_other _ k _ x) in * by assumption]
  | |- context [upd _ k _ ?x] =>
      destruct (Nat.eq_dec x k) as [->|?];
      [rewrite ?(upd_same _ k) in * | rewrite ?(upd_other _ k _ x) in * by assumption]
  end.

(* the old invariant, instantiated at the moving thread t whose pc is known by Et *)
Ltac spec_t I t Et :=
  pose proof (i_gate _ I t) as Igt; pose proof (i_lk _ I t) as Ilt;
  pose proof (fun u => i_uniq _ I t u) as Iut1; pose proof (fun u => i_uniq _ I u t) as Iut2;
  pose proof (fun h => i_ff_sw _ I h t) as Iffswt; pose proof (fun h => i_ft _ I h t) as Iftt;
  pose proof (i_d0 _ I t) as Id0t; pose proof (i_d1 _ I t) as Id1t;
  pose proof (fun h => i_ret_sw _ I h t) as Iretswt;
  pose proof (i_cpre _ I t) as Icpret; pose proof (i_cov _ I t) as Icovt;
  pose proof (i_fut _ I t) as Ifutt;
  rewrite Et in Igt, Ilt, Iut1, Iut2, Iffswt, Iftt, Id0t, Id1t, Iretswt, Icpret, Icovt, Ifutt;
  simpl in Igt, Ilt, Iut1, Iut2, Iffswt, Iftt, Id0t, Id1t, Iretswt, Icpret, Icovt, Ifutt.

(* turn "A <-> true = true" into A and "A <-> false = true" into ~A *)
Ltac iff_bool H :=
  match type of H with
  | ?A <-> true = true =>
      let Hn := fresh "Hheld" in assert (Hn : A) by (apply H; reflexivity)
  | ?A <-> false = true =>
      let Hn := fresh "Hnheld" in
      assert (Hn : ~ A) by (let X := fresh in intros X; apply H in X; discriminate X)
  | _ => idtac
  end.

Ltac lockfin :=
  match goal with
  | Hx : (forall u, gate _ = Some u <-> holds_gate _ = true) |- _ = Some ?u <-> holds_gate _ = true =>
      pose proof (Hx u); intuition congruence
  | Hx : (forall u, lk _ = Some u <-> holds_lk _ = true) |- _ = Some ?u <-> holds_lk _ = true =>
      pose proof (Hx u); intuition congruence
  end.

Ltac dI I :=
  destruct I as [Ig Il Iu Iffsw Iffret Iffd Iffc Ift Id0 Id1 Idle Iretd Iretsw Iretcov Icle Icpre
                 Icov Itrk Ifut].

Ltac fin :=
  try solve [ assumption | discriminate | congruence | lia | tauto | eauto
            | intuition (try congruence; eauto) ].

Ltac thread_only I t Et :=
  spec_t I t Et;
  match goal with Hx : gate _ = Some t <-> _ |- _ => iff_bool Hx end;
  match goal with Hx : lk _ = Some t <-> _ |- _ => iff_bool Hx end;
  dI I; constructor; simpl; intros; usplit t; simpl in *; fin; try lockfin.

Lemma cover_settle c cr fm todo f x :
  Cover c cr fm todo -> (fdone (fm f) = true -> fdone x = true) -> Cover c cr (upd fm f x) todo.
Proof.
  intros [Hc Hcov] Hmono. split; [exact Hc|].
  intros g Hg. destruct (Hcov g Hg) as [Hd|[Hone|Hin]]; auto.
  left. destruct (Nat.eq_dec g f) as [->|Hne].
  - rewrite upd_same. auto.
  - rewrite upd_other by assumption. exact Hd.
Qed.

(* a delegate future changes state (monotonically w.r.t. done-ness); done-callbacks discard it *)
Lemma inv_settle s f x : Inv s -> (fdone (fs s f) = true -> fdone x = true) -> Inv (settle s f x).
Proof.
  intros I Hmono. dI I. constructor; simpl; auto.
  - intros Hr. apply cover_settle; auto.
  - intros t todo Ht. apply cover_settle; eauto.
  - intros g Hg. destruct (Nat.eq_dec g f) as [->|Hne].
    + rewrite upd_same. destruct (fdone x) eqn:Ex; [right; reflexivity|]. simpl.
      destruct (Itrk f Hg) as [Hin|Hd]; [left; exact Hin|]. apply Hmono in Hd. discriminate.
    + rewrite upd_other by assumption.
      destruct (Itrk g Hg) as [Hin|Hd]; [|right; exact Hd]. left.
      destruct (fdone x && negb (fdone (fs s f))); [|exact Hin]. apply in_remove. auto.
Qed.

(* the sweeper delivers one cancel() to a future of its snapshot *)
Lemma inv_cancel s t f todo : Inv s -> thr s t = H4 todo -> In f todo ->
  Inv (mkSt (gate s) (lk s) (flag s) (tracked s) (created s) (fs s)
            (upd (cancels s) f (S (cancels s f))) (upd (thr s) t (H4 (remove_f f todo)))
            (dshut s) (shut_ret s)).
Proof.
  intros I Et Hin. spec_t I t Et.
  destruct (Icovt todo eq_refl) as [Hz Hcov]. pose proof (Hz f Hin) as Hc0.
  assert (Hother : forall u, u <> t -> sweeper (thr s u) = true -> False).
  { intros u Hne Hsw. apply Hne. symmetry. apply Iut1; [reflexivity|exact Hsw]. }
  dI I; constructor; simpl; intros; usplit t; usplit f; simpl in *; fin.
  - exfalso. match goal with Hx : presweep (thr s ?u) = true |- _ =>
      apply presweep_sweeper in Hx; eapply Hother; eauto end.
  - match goal with Hx : Some _ = Some _ |- _ => injection Hx as <- end.
    split.
    + intros g Hg. apply in_remove in Hg as [Hg Hne]. rewrite upd_other by assumption. auto.
    + intros g Hg. destruct (Nat.eq_dec g f) as [->|Hne].
      * rewrite upd_same. right; left. lia.
      * rewrite upd_other by assumption.
        destruct (Hcov g Hg) as [Hd|[Hone|Hing]]; auto.
        right; right. apply in_remove. auto.
  - exfalso. match goal with Hx : todo_of (thr s ?u) = Some _ |- _ =>
      apply todo_sweeper in Hx; eapply Hother; eauto end.
Qed.

Lemma inv_step s e s' : Inv s -> step s e = Some s' -> Inv s'.
Proof.
  intros I H.
  destruct e as [t|t|t l|t l|t f d|t f pre|t f pre|t|t raised|f pre|f pre]; simpl in H.
  - (* CallSubmit *)
    destruct (thr s t) eqn:Et; try discriminate. injection H as <-.
    thread_only I t Et.
  - (* CallShutdown *)
    destruct (thr s t) eqn:Et; try discriminate. injection H as <-.
    thread_only I t Et.
  - (* Acq *)
    destruct l.
    + destruct (gate s) as [g|] eqn:Eg; simpl in H; [discriminate|].
      destruct (thr s t) eqn:Et; try discriminate; injection H as <-.
      * (* S0 *) destruct (flag s) eqn:Ef; thread_only I t Et.
      * (* H0 *) destruct (flag s) eqn:Ef; thread_only I t Et.
        (* flag was false: nobody is past the check, because the gate was free *)
        match goal with |- past_check' (thr s ?u) = false =>
          destruct (past_check' (thr s u)) eqn:Epc; [|reflexivity];
          apply past_check_holds_gate in Epc; apply Ig in Epc; congruence end.
    + destruct (lk s) as [g|] eqn:El; simpl in H; [discriminate|].
      destruct (thr s t) eqn:Et; try discriminate; injection H as <-; thread_only I t Et.
      (* H2 -> H3 (tracked s): the snapshot covers every future that is not done *)
      match goal with Hx : Some (tracked s) = Some _ |- _ => injection Hx as <- end.
      split.
      * intros f _. apply Icpret. reflexivity.
      * intros f Hf. destruct (Itrk f Hf) as [Hin|Hdone]; auto.
  - (* Rel *)
    destruct l; destruct (thr s t) eqn:Et; try discriminate; injection H as <-; thread_only I t Et.
  - (* DSubmit *)
    destruct (thr s t) eqn:Et; try discriminate.
    destruct (Nat.eqb f (created s)) eqn:Ef; [|discriminate]. apply Nat.eqb_eq in Ef. subst f.
    injection H as <-.
    spec_t I t Et.
    assert (Hff : flag s = false) by (destruct (flag s); [apply Iftt; reflexivity|reflexivity]).
    pose proof (i_ff_sw _ I Hff) as Hnsw. pose proof (i_ff_ret _ I Hff) as Hnret.
    pose proof (i_ff_c _ I Hff) as Hc0.
    dI I; constructor; simpl; intros; usplit t; usplit (created s); simpl in *; fin.
    + (* no sweeper exists yet *)
      match goal with Hx : todo_of (thr s _) = Some _ |- _ =>
        apply todo_sweeper in Hx; rewrite Hnsw in Hx; discriminate Hx end.
    + match goal with Hx : ?g < S (created s) |- _ =>
        assert (Hlt : g < created s) by lia; destruct (Itrk g Hlt); auto end.
    + match goal with Hx : Some _ = Some _ |- _ => injection Hx as <-; lia end.
    + match goal with Hx : fut_of (thr s _) = Some _ |- _ => apply Ifut in Hx; lia end.
  - (* AddCb *)
    destruct (thr s t) as [| | | | |g| | | | | | | | | | | | ] eqn:Et; try discriminate.
    destruct (Nat.eqb f g) eqn:Ef; simpl in H; [|discriminate]. apply Nat.eqb_eq in Ef. subst g.
    destruct (fstate_eqb pre (fs s f)) eqn:Ep; [|discriminate]. apply fstate_eqb_eq in Ep. subst pre.
    injection H as <-.
    thread_only I t Et.
    match goal with Hx : ?g < created s |- In ?g _ \/ _ =>
      destruct (Itrk g Hx) as [Hin|Hd]; [|right; exact Hd];
      destruct (fdone (fs s f)) eqn:Edf; [|left; exact Hin];
      destruct (Nat.eq_dec g f) as [->|Hne]; [right; exact Edf | left; apply in_remove; auto] end.
  - (* Cancel *)
    destruct (thr s t) as [| | | | | | | | | | | | | | | |todo| ] eqn:Et; try discriminate.
    destruct (memb f todo) eqn:Em; simpl in H; [|discriminate]. apply memb_in in Em.
    destruct (fstate_eqb pre (fs s f)) eqn:Ep; [|discriminate]. apply fstate_eqb_eq in Ep. subst pre.
    injection H as <-.
    assert (I1 : Inv (settle s f (fst (f_cancel (fs s f))))).
    { apply inv_settle; [exact I|]. apply f_cancel_done. }
    exact (inv_cancel (settle s f (fst (f_cancel (fs s f)))) t f todo I1 Et Em).
  - (* DShutdown *)
    destruct (thr s t) as [| | | | | | | | | | | | | | | |todo| ] eqn:Et; try discriminate.
    destruct todo; try discriminate. injection H as <-. thread_only I t Et.
    exfalso.
    match goal with Hx : pre5 (thr s ?u) = true, Hne : ?u <> t |- _ =>
      apply pre5_sweeper in Hx; apply Hne; symmetry; apply Iut1; [reflexivity|exact Hx] end.
  - (* Ret *)
    destruct (thr s t) eqn:Et; try discriminate; destruct raised; try discriminate; injection H as <-;
    thread_only I t Et.
    (* H5 returns: no other sweeper *)
    match goal with Hne : ?u <> t |- sweeper (thr s ?u) = false =>
      destruct (sweeper (thr s u)) eqn:Esw; [|reflexivity];
      exfalso; apply Hne; symmetry; apply Iut1; [reflexivity|exact Esw] end.
  - (* EnvRun *)
    destruct (f <? created s); simpl in H; [|discriminate].
    destruct (fstate_eqb pre (fs s f)) eqn:Ep; [|discriminate]. apply fstate_eqb_eq in Ep. subst pre.
    destruct (fs s f) eqn:Ef; simpl in H; injection H as <-; try exact I;
      apply inv_settle; auto; rewrite Ef; simpl; congruence.
  - (* EnvFinish *)
    destruct (f <? created s); simpl in H; [|discriminate].
    destruct (fstate_eqb pre (fs s f)) eqn:Ep; [|discriminate]. apply fstate_eqb_eq in Ep. subst pre.
    destruct (fs s f) eqn:Ef; simpl in H; injection H as <-; try exact I;
      apply inv_settle; auto; rewrite Ef; simpl; congruence.
Qed.

Lemma reachable_inv s : reachable_from step init s -> Inv s.
Proof.
  apply invariant_rule; [exact inv_init|]. intros s0 e s1 HI Hs. exact (inv_step _ _ _ HI Hs).
Qed.

(* ---- the lemmas used by Props/C10.v ------------------------------------------------------ *)

Lemma cos_cover_once : forall s, reachable_from step init s -> shut_ret s = true ->
  dshut s = 1 /\
  forall f, f < created s -> cancels s f <= 1 /\ (fdone (fs s f) = true \/ cancels s f = 1).
Proof.
  intros s R Hret. pose proof (reachable_inv _ R) as I.
  destruct (i_ret_cov _ I Hret) as [_ Hcov]. split; [exact (i_ret_d _ I Hret)|].
  intros f Hf. split; [apply (i_cle _ I)|].
  destruct (Hcov f Hf) as [Hdone|[Hc|[]]]; [left|right]; assumption.
Qed.

Lemma cos_at_most_once : forall s, reachable_from step init s -> forall f, cancels s f <= 1.
Proof. intros s R. exact (i_cle _ (reachable_inv _ R)). Qed.

Lemma cos_dshut_le1 : forall s, reachable_from step init s -> dshut s <= 1.
Proof. intros s R. exact (i_dle _ (reachable_inv _ R)). Qed.

Lemma cos_no_inflight_after_flag : forall s, reachable_from step init s -> flag s = true ->
  forall t, past_check' (thr s t) = false.
Proof. intros s R. exact (i_ft _ (reachable_inv _ R)). Qed.

Lemma cos_submit_after_flag_raises : forall s t s', reachable_from step init s -> flag s = true ->
  thr s t = S0 -> step s (Acq t LG) = Some s' -> thr s' t = SRaise.
Proof.
  intros s t s' _ Hflag Hpc Hstep. simpl in Hstep.
  destruct (isnone (gate s)); [|discriminate].
  rewrite Hpc, Hflag in Hstep. injection Hstep as <-. simpl. apply upd_same.
Qed.

Lemma cos_returned_covered : forall s, reachable_from step init s -> shut_ret s = true ->
  forall t f, thr s t = S6 f -> fdone (fs s f) = true \/ cancels s f = 1.
Proof.
  intros s R Hret t f Hpc. pose proof (reachable_inv _ R) as I.
  assert (Hf : f < created s) by (apply (i_fut _ I t); rewrite Hpc; reflexivity).
  destruct (i_ret_cov _ I Hret) as [_ Hcov].
  destruct (Hcov f Hf) as [Hdone|[Hc|[]]]; [left|right]; assumption.
Qed.

Lemma fstate_eqb_refl a : fstate_eqb a a = true.
Proof. apply fstate_eqb_eq. reflexivity. Qed.

Lemma cos_no_deadlock : forall s, reachable_from step init s -> (exists t, thr s t <> Idle) ->
  exists e s', thread_event' e = true /\ step s e = Some s'.
Proof.
  intros s R [t Ht]. pose proof (reachable_inv _ R) as I.
  destruct (lk s) as [u|] eqn:El.
  { (* somebody holds the executor lock: that thread can move *)
    pose proof (proj1 (i_lk _ I u) El) as Hu.
    destruct (thr s u) as [| | | | |g|g|g|g| | | | | | |todo|todo| ] eqn:Eu; simpl in Hu; try discriminate.
    - exists (DSubmit u (created s) false). eexists. split; [reflexivity|].
      simpl. rewrite Eu, Nat.eqb_refl. reflexivity.
    - exists (AddCb u g (fs s g)). eexists. split; [reflexivity|].
      simpl. rewrite Eu, Nat.eqb_refl, fstate_eqb_refl. simpl. reflexivity.
    - exists (Rel u LX). eexists. split; [reflexivity|]. simpl. rewrite Eu. reflexivity.
    - exists (Rel u LX). eexists. split; [reflexivity|]. simpl. rewrite Eu. reflexivity. }
  assert (Hnl : forall u, holds_lk (thr s u) = false).
  { intros u. destruct (holds_lk (thr s u)) eqn:E; [|reflexivity].
    apply (i_lk _ I) in E. congruence. }
  destruct (gate s) as [u|] eqn:Eg.
  { pose proof (proj1 (i_gate _ I u) Eg) as Hu. pose proof (Hnl u) as Hl.
    destruct (thr s u) as [| | | | |g|g|g|g| | | | | | |todo|todo| ] eqn:Eu; simpl in Hu, Hl; try discriminate.
    - exists (Acq u LX). eexists. split; [reflexivity|]. simpl. rewrite El, Eu. simpl. reflexivity.
    - exists (Rel u LG). eexists. split; [reflexivity|]. simpl. rewrite Eu. reflexivity.
    - exists (Rel u LG). eexists. split; [reflexivity|]. simpl. rewrite Eu. reflexivity.
    - exists (Rel u LG). eexists. split; [reflexivity|]. simpl. rewrite Eu. reflexivity.
    - exists (Rel u LG). eexists. split; [reflexivity|]. simpl. rewrite Eu. reflexivity. }
  assert (Hng : holds_gate (thr s t) = false).
  { destruct (holds_gate (thr s t)) eqn:E; [|reflexivity].
    apply (i_gate _ I) in E. congruence. }
  pose proof (Hnl t) as Hl.
  destruct (thr s t) as [| | | | |g|g|g|g| | | | | | |todo|todo| ] eqn:Et; simpl in Hng, Hl;
    try discriminate; try congruence.
  - exists (Acq t LG). eexists. split; [reflexivity|]. simpl. rewrite Eg, Et. simpl. reflexivity.
  - exists (Ret t false). eexists. split; [reflexivity|]. simpl. rewrite Et. reflexivity.
  - exists (Ret t true). eexists. split; [reflexivity|]. simpl. rewrite Et. reflexivity.
  - exists (Acq t LG). eexists. split; [reflexivity|]. simpl. rewrite Eg, Et. simpl. reflexivity.
  - exists (Ret t false). eexists. split; [reflexivity|]. simpl. rewrite Et. reflexivity.
  - exists (Acq t LX). eexists. split; [reflexivity|]. simpl. rewrite El, Et. simpl. reflexivity.
  - destruct todo as [|f r].
    + exists (DShutdown t). eexists. split; [reflexivity|]. simpl. rewrite Et. reflexivity.
    + exists (Cancel t f (fs s f)). eexists. split; [reflexivity|].
      simpl. rewrite Et. simpl. rewrite Nat.eqb_refl, fstate_eqb_refl. simpl. reflexivity.
  - exists (Ret t false). eexists. split; [reflexivity|]. simpl. rewrite Et. reflexivity.
Qed.

Definition witness_trace : list ev :=
  [ CallSubmit 0; Acq 0 LG; Acq 0 LX; DSubmit 0 0 false; AddCb 0 0 Pending; Rel 0 LX; Rel 0 LG;
    Ret 0 false;
    CallSubmit 0; Acq 0 LG; Acq 0 LX; DSubmit 0 1 false; AddCb 0 1 Pending; Rel 0 LX; Rel 0 LG;
    Ret 0 false;
    EnvFinish 0 Pending;
    CallShutdown 0; Acq 0 LG; Rel 0 LG; Acq 0 LX; Rel 0 LX; Cancel 0 1 Pending; DShutdown 0;
    Ret 0 false ].

Lemma cos_nonvacuous : exists s, reachable_from step init s /\ shut_ret s = true /\ created s = 2 /\
  cancels s 1 = 1 /\ fs s 0 = Finished /\ fs s 1 = Cancelled.
Proof.
  destruct (run step init witness_trace) as [s|] eqn:E; [|vm_compute in E; discriminate].
  exists s. split; [exists witness_trace; exact E|].
  vm_compute in E. injection E as <-. vm_compute. repeat split; reflexivity.
Qed.
