(* C02 / Timeout, clause (d), part D4: the callback clauses in final form and their witnesses. *)
From Coq Require Import ZArith List Bool Arith Lia.
From RecordUpdate Require Import RecordSet.
From ME Require Import Base.Machine Base.Fut Base.GenPrelude Gen.TimeoutGen Proofs.Timeout_Spec Model.Timeout
  Proofs.Timeout_Inv Proofs.Keep_Timeout Proofs.Proto_Gen
  Proofs.Proto_Timeout_P Proofs.Proto_Timeout_P1 Proofs.Proto_Timeout_V Proofs.Proto_Timeout_T
  Proofs.Proto_Timeout_D Proofs.Proto_Timeout_D1 Proofs.Proto_Timeout_D2 Proofs.Proto_Timeout_D3.
Import ListNotations RecordSetNotations.

(* (d1) a user callback is invoked only on a done future *)
Lemma timeout_cb_only_on_done s : reachable s ->
  (forall t j c, In (IUserCb j c) (thr s t) -> fdone (rs s j) = true) /\
  (forall j c ts, In (HCb j c ts) (hist s) -> fdone (rs s j) = true).
Proof. intros Hr. destruct (invU_reachable s Hr) as [A B]. split; assumption. Qed.

(* ... and it sees the final outcome: at the moment callback c of future j runs, j is done, and no later step changes its
   outcome (its state changes at most by CANCELLED -> CANCELLED_AND_NOTIFIED) *)
Lemma timeout_cb_sees_final s ts t j c r s' : reachable s -> step s (ts, EUserCb t j c r) = Some s' ->
  fdone (rs s j) = true /\ hist s' = HCb j c ts :: hist s /\ rs s' j = rs s j /\ rout s' j = rout s j /\
  forall es s'', run step s' es = Some s'' -> frefines (rs s j) (rs s'' j) /\ rout s'' j = rout s j.
Proof.
  intros Hr Hx. pose proof (invU_reachable s Hr) as [U1 _].
  assert (Hr' : reachable s') by (eapply reachable_step; eauto).
  apply step_split in Hx. destruct Hx as [_ Hx]. simpl in Hx.
  destruct (thr s t) as [|i rest] eqn:Et; [discriminate|]. destruct i; try discriminate.
  destruct (Nat.eqb j j0 && Nat.eqb c c0) eqn:E; [|discriminate]. apply andb_prop in E. destruct E as [E1 E2].
  apply Nat.eqb_eq in E1. apply Nat.eqb_eq in E2. subst j0 c0. inv_some Hx.
  assert (Hd : fdone (rs s j) = true) by (apply (U1 t j c); rewrite Et; left; reflexivity).
  split; [exact Hd|]. split; [reflexivity|]. split; [reflexivity|]. split; [reflexivity|].
  intros es s'' Hrun. exact (timeout_stable _ Hr' es s'' Hrun j Hd).
Qed.

(* ---- witnesses ---------------------------------------------------------------------------------------------- *)
Local Open Scope Z_scope.

(* at rest: callback 5 of the finished future 0 and callback 6 of the cancelled future 1 were registered once and ran once *)
Lemma proto_cb_rest_example :
  exists es s, run step init es = Some s /\ timeout_parked s /\ fdone (rs s 0) = true /\ fdone (rs s 1) = true /\
               regs 0 5 es = 1%nat /\ hc 0 5 (hist s) = 1%nat /\ regs 1 6 es = 1%nat /\ hc 1 6 (hist s) = 1%nat /\
               rcbs s 0 = [] /\ rcbs s 1 = [].
Proof.
  exists (pevs proto_trace). eexists. split; [vm_compute; reflexivity|].
  split; [apply parked_upto4; try reflexivity; intros t Ht; do 4 (destruct t as [|t]; [lia|]); reflexivity|].
  repeat split; reflexivity.
Qed.

(* registered and not yet run: in the list of the pending future / a pending invocation inside cancel() *)
Definition proto_in_cbs : list (list Z) := proto_prefix ++ [[0; 10; 2; 3; 1; 2]; [0; 9; 2; 1]].
Lemma proto_cb_pending_example :
  exists s, reachable s /\ thr s 2 = [IEvSet; IUserCb 1 6; IRetB true] /\ rs s 1 = CancelledNotified /\ rcbs s 1 = [] /\
            rcbs s 0 = [CbWake; CbUser 5] /\ rs s 0 = Pending /\ hc 1 6 (hist s) = 0%nat /\ hc 0 5 (hist s) = 0%nat /\
            regs 1 6 (pevs proto_in_cbs) = 1%nat /\ regs 0 5 (pevs proto_in_cbs) = 1%nat.
Proof.
  eexists. split; [exists (pevs proto_in_cbs); vm_compute; reflexivity|]. repeat split; reflexivity.
Qed.

(* the literal "callback c of future j runs at most once" is FALSE of the model when the same callback is registered
   twice (ids are not forced fresh; add_done_callback(f) twice makes f run twice, as with the stdlib): *)
Definition proto_twice : list (list Z) :=
  w_park ++ w_sub 0 ++ w_addcb 1 0 5 ++ w_addcb 1 0 5 ++
  [[0; 21; 3; 0; 0; 0; 7]; [0; 8; 3; 0]; [0; 9; 3; 0]; [0; 11; 3; 0; 0; 4]; [0; 8; 3; 0]; [0; 10; 3; 4; 0; 0]; [0; 9; 3; 0];
   [0; 6; 3]; [0; 12; 3; 0; 5; 0]; [0; 12; 3; 0; 5; 0]].
Lemma proto_cb_at_most_once_refuted :
  exists es s, run step init es = Some s /\ timeout_parked s /\ rs s 0 = Finished /\ regs 0 5 es = 2%nat /\
               hist s = HCb 0 5 0 :: HCb 0 5 0 :: skipn 2 (hist s).
Proof.
  exists (pevs proto_twice). eexists. split; [vm_compute; reflexivity|].
  split; [apply parked_upto4; try reflexivity; intros t Ht; do 4 (destruct t as [|t]; [lia|]); reflexivity|].
  repeat split; reflexivity.
Qed.

(* a callback added AFTER completion (future 0 is finished) is invoked at once by the adding thread, exactly once *)
Definition proto_after_done : list (list Z) :=
  proto_trace ++ [[0; 2; 1; 0; 9]; [0; 8; 1; 0]; [0; 10; 1; 1; 0; 4]; [0; 9; 1; 0]; [0; 12; 1; 0; 9; 0]; [0; 7; 1; 0]].
Lemma proto_cb_after_done_example :
  exists es s, run step init es = Some s /\ timeout_parked s /\ rs s 0 = Finished /\ regs 0 9 es = 1%nat /\ hc 0 9 (hist s) = 1%nat /\
               hist s = HCb 0 9 0 :: HCb 0 5 0 :: HSet 0 (Ok 7) 0 :: skipn 3 (hist s).
Proof.
  exists (pevs proto_after_done). eexists. split; [vm_compute; reflexivity|].
  split; [apply parked_upto4; try reflexivity; intros t Ht; do 4 (destruct t as [|t]; [lia|]); reflexivity|].
  repeat split; reflexivity.
Qed.
