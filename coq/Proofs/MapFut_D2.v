(* Layer 2: terminal outcome / cancel facts. *)
From Coq Require Import ZArith List Bool Arith Lia.
From RecordUpdate Require Import RecordSet.
From ME Require Import Base.Machine Base.Fut Base.GenPrelude Model.MapFut Proofs.MapFut_D0 Proofs.MapFut_D1.
Import ListNotations RecordSetNotations.

Ltac norm2 :=
  repeat match goal with H : _ || _ = false |- _ => apply orb_false_iff in H; destruct H end; norm_hyps;
  repeat match goal with H : (_ <? _) = true |- _ => apply Nat.ltb_lt in H end.

(* case-split every application of a point update at key k *)
Ltac usplit k :=
  repeat match goal with
  | H : context [upd _ k _ ?x] |- _ =>
      destruct (Nat.eq_dec x k) as [->|?];
      [rewrite ?(upd_same _ k) in * | rewrite ?(upd_other _ k _ x) in * by assumption]
  | |- context [upd _ k _ ?x] =>
      destruct (Nat.eq_dec x k) as [->|?];
      [rewrite ?(upd_same _ k) in * | rewrite ?(upd_other _ k _ x) in * by assumption]
  end.

(* guarded occurrences: every T-instruction either sees C or is preceded by a G-instruction *)
Fixpoint grd (C : Prop) (G T : instr -> bool) (p : list instr) : Prop :=
  match p with [] => True | i :: r => (T i = true -> C) /\ (G i = true \/ grd C G T r) end.
Lemma grd_C (C : Prop) G T p : C -> grd C G T p.
Proof. intros c; induction p; simpl; auto. Qed.
Lemma grd_mono (C C' : Prop) G T p : (C -> C') -> grd C G T p -> grd C' G T p.
Proof. intros cc; induction p; simpl; auto. intros [x [y|y]]; auto. Qed.
Lemma grd_app C G T a r : (forall i, In i a -> T i = false) -> grd C G T r -> grd C G T (a ++ r).
Proof.
  intros Ha Hr; induction a; simpl; auto. split.
  - intros X. rewrite Ha in X by (left; reflexivity). discriminate.
  - right. apply IHa. intros i Hi; apply Ha; right; exact Hi.
Qed.
Lemma grd_tl C G T i r : grd C G T (i :: r) -> G i = false -> grd C G T r.
Proof. simpl. intros [_ [X|X]] Y; [congruence|exact X]. Qed.

Definition is_set (j : nat) (h : hev) : bool := match h with HSet j' _ => Nat.eqb j j' | _ => false end.
Definition cinstr (i : instr) : option nat :=
  match i with ICancelled j | IDoneC j | IDCancel j _ | IFCancel j => Some j | _ => None end.
Definition isFCancel (i : instr) : bool := match i with IFCancel _ => true | _ => false end.
Definition isRetT (i : instr) : bool := match i with IRetB true => true | _ => false end.
Definition cown (s : st) (t : nat) (i : instr) : Prop :=
  forall j, cinstr i = Some j -> forall j', cancelling s t = Some j' -> j' = j.
Definition ccanc (s : st) (t : nat) : Prop := forall j', cancelling s t = Some j' -> fcancelled (ms s j') = true.

Record Hd (s : st) : Prop := {
  h_set : forall j o, In (HSet j o) (hist s) -> ms s j = Finished /\ mout s j = Some o;
  h_canc : forall j, In (HCancelled j) (hist s) -> fcancelled (ms s j) = true;
  h_cnt : forall j, length (filter (is_set j) (hist s)) <= 1;
  h_done : forall j, fdone (ms s j) = true -> (exists o, In (HSet j o) (hist s)) \/ In (HCancelled j) (hist s);
  c_own : forall t, Forall (cown s t) (thr s t);
  c_grd : forall t, grd (ccanc s t) isFCancel isRetT (thr s t);
  h_cret : forall j, In (HCancelRet j true) (hist s) -> fcancelled (ms s j) = true;
  h_cfalse : forall l1 j b l2, hist s = l1 ++ HCancelRet j b :: l2 -> (exists o, In (HSet j o) l2) -> b = false
}.

Lemma f_set_fin pre n : f_set pre = Some n -> n = Finished /\ fdone pre = false.
Proof. destruct pre; simpl; intros H; inversion H; auto. Qed.
Lemma f_set_none pre : f_set pre = None -> fdone pre = true.
Proof. destruct pre; simpl; intros H; inversion H; auto. Qed.

Ltac in_hist X := simpl in X; destruct X as [X|X]; [try discriminate X; try (inversion X; subst; clear X)|].

Lemma bnd_hist s h j : Bnd s -> In h (hist s) -> hfut h = Some j -> j < nfut s.
Proof.
  intros B Hin E. pose proof (b_hist _ B) as X. rewrite Forall_forall in X. specialize (X _ Hin).
  unfold okH in X. rewrite E in X. exact X.
Qed.
Ltac fresh_neq B X := let L := fresh "L" in pose proof (bnd_hist _ _ _ B X eq_refl) as L; simpl in L.
Ltac fset_facts := repeat match goal with H : f_set _ = Some _ |- _ => apply f_set_fin in H; destruct H; subst
                                    | H : f_set _ = None |- _ => apply f_set_none in H end.

Lemma lstep_h_set s e s0 : lstep s e = Some s0 -> Bnd s -> Hd s ->
  forall j o, In (HSet j o) (hist s0) -> ms s0 j = Finished /\ mout s0 j = Some o.
Proof.
  intros H B I. pose proof (h_set _ I) as I1. step_cases H; try exact I1.
  all: intros j' o' X; simpl in *.
  all: try (in_hist X).
  all: try (apply I1; exact X).
  all: try (fresh_neq B X; rewrite !upd_other by lia; apply I1; exact X).
  all: fset_facts; rewrite ?upd_same; auto.
  all: usplit j0; try (apply I1; exact X).
  all: destruct (I1 _ _ X) as [A1 A2]; rewrite A1 in *; simpl in *; discriminate.
Qed.

Lemma lstep_h_canc s e s0 : lstep s e = Some s0 -> Bnd s -> Hd s ->
  forall j, In (HCancelled j) (hist s0) -> fcancelled (ms s0 j) = true.
Proof.
  intros H B I. pose proof (h_canc _ I) as I1. step_cases H; try exact I1.
  all: intros j' X; simpl in *.
  all: try (in_hist X).
  all: try (apply I1; exact X).
  all: try (fresh_neq B X; rewrite !upd_other by lia; apply I1; exact X).
  all: fset_facts; rewrite ?upd_same; auto.
  all: usplit j0; try (apply I1; exact X).
  all: try (specialize (I1 _ X)).
  all: try (destruct (ms s j0); simpl in *; congruence).
  all: try (destruct (ms s j'); simpl in *; congruence).
  all: match goal with H : _ (ms ?s ?j) = _ |- _ => destruct (ms s j); simpl in *; inversion H; subst; simpl; congruence end.
Qed.

Lemma filter_set_nil j l : (forall o, ~ In (HSet j o) l) -> filter (is_set j) l = [].
Proof.
  induction l as [|h l IH]; simpl; auto. intros H.
  destruct (is_set j h) eqn:E.
  - destruct h; simpl in E; try discriminate. apply Nat.eqb_eq in E; subst. exfalso; eapply H; left; reflexivity.
  - apply IH. intros o X; eapply H; right; exact X.
Qed.

Lemma lstep_h_cnt s e s0 : lstep s e = Some s0 -> Bnd s -> Hd s ->
  forall j, length (filter (is_set j) (hist s0)) <= 1.
Proof.
  intros H B I. pose proof (h_cnt _ I) as I1. pose proof (h_set _ I) as I2. step_cases H; try exact I1.
  all: intros j'; simpl in *; try apply I1.
  all: destruct (Nat.eqb j' j0) eqn:E; try apply I1; apply Nat.eqb_eq in E; subst j'.
  all: rewrite filter_set_nil; [simpl; lia|].
  all: intros o X; destruct (I2 _ _ X) as [A1 A2]; rewrite A1 in *; simpl in *; discriminate.
Qed.

Lemma lstep_h_done s e s0 : lstep s e = Some s0 -> Bnd s -> Hd s ->
  forall j, fdone (ms s0 j) = true -> (exists o, In (HSet j o) (hist s0)) \/ In (HCancelled j) (hist s0).
Proof.
  intros H B I. pose proof (h_done _ I) as I1. step_cases H; try exact I1.
  all: intros j' X; simpl in *.
  all: try (destruct (I1 _ X) as [[oo Y]|Y]; [left; exists oo; auto|right; auto]; fail).
  all: try (usplit (nfut s); [discriminate X|]).
  all: usplit j0; try (destruct (I1 _ X) as [[oo Y]|Y]; [left; exists oo; auto|right; auto]; fail); eauto.
  apply I1. destruct (ms s j0); simpl in *; try discriminate; auto; inversion Heqo; subst; discriminate X.
Qed.

Lemma Forall_upd_dep {A} (P : nat -> A -> Prop) (f : nat -> list A) t p :
  (forall t', t' <> t -> Forall (P t') (f t')) -> Forall (P t) p -> forall t', Forall (P t') (upd f t p t').
Proof.
  intros I Hp t'. destruct (Nat.eq_dec t' t) as [->|N]; [rewrite upd_same; exact Hp|rewrite upd_other by exact N; apply I; exact N].
Qed.
Lemma cown_fires s0 t s d r : Forall (cown s0 t) r -> Forall (cown s0 t) (fires s d r).
Proof.
  intros H; unfold fires. induction (ecbs s d); simpl; auto.
  repeat (constructor; [intros ? X; discriminate X|]). exact IHl.
Qed.
Lemma cown_on_mapped s0 t s j x r : Forall (cown s0 t) r -> Forall (cown s0 t) (on_mapped s j x ++ r).
Proof.
  intros H; unfold on_mapped. destruct (mkind s j), (mflat s j), x; simpl;
    repeat (constructor; [intros ? X; discriminate X|]); exact H.
Qed.
Lemma cown_map_cb s0 t j l r : Forall (cown s0 t) r -> Forall (cown s0 t) (map (fun c => IUserCb j c false) l ++ r).
Proof. intros H; induction l; simpl; auto. constructor; [intros ? X; discriminate X|exact IHl]. Qed.

Lemma lstep_c_own s e s0 : lstep s e = Some s0 -> Hd s -> forall t, Forall (cown s0 t) (thr s0 t).
Proof.
  intros H I. pose proof (c_own _ I) as I1. step_cases H; try exact I1.
  all: match goal with E : thr _ ?t = _ |- _ => pose proof (I1 t) as It; rewrite E in It; try (inversion It; subst) end.
  all: simpl; apply Forall_upd_dep;
    [intros t' N; eapply Forall_impl; [|apply I1]; intros i Hi; unfold cown in *; simpl; rewrite ?upd_other by exact N; exact Hi|].
  all: try (apply cown_on_mapped); try (apply cown_fires); try (apply cown_map_cb).
  all: repeat (constructor; [first [intros ? X; discriminate X | assumption]|]); try assumption; try (constructor; fail).
  all: try (apply cown_on_mapped); try (apply Forall_tl); try assumption.
  - constructor; [|constructor]. intros j1 X j2 Y; simpl in *; rewrite upd_same in Y; congruence.
  - match goal with H : Forall _ l |- _ => eapply Forall_impl; [|exact H] end.
    intros i Hi j1 X j2 Y; simpl in Y; rewrite upd_same in Y; discriminate.
Qed.

Ltac inv_eqs := repeat match goal with
  | H : (_, _) = (_, _) |- _ => inversion H; subst; clear H
  | H : Some _ = Some _ |- _ => inversion H; subst; clear H
  | H : Some _ = None |- _ => discriminate H
  | H : None = Some _ |- _ => discriminate H end.
Ltac fcrush s j := destruct (ms s j) eqn:?; simpl in *; inv_eqs; simpl in *; try discriminate; try congruence; auto.

Lemma lstep_canc_stable s e s0 : lstep s e = Some s0 ->
  forall j, j < nfut s -> fcancelled (ms s j) = true -> fcancelled (ms s0 j) = true.
Proof.
  intros H. step_cases H; intros j' L X; simpl; auto.
  all: try (rewrite upd_other by lia; exact X).
  all: usplit j0; auto.
  all: fcrush s j0.
Qed.
Lemma lstep_done_stable s e s0 : lstep s e = Some s0 ->
  forall j, j < nfut s -> fdone (ms s j) = true -> fdone (ms s0 j) = true.
Proof.
  intros H. step_cases H; intros j' L X; simpl; auto.
  all: try (rewrite upd_other by lia; exact X).
  all: usplit j0; auto.
  all: fcrush s j0.
Qed.
Lemma lstep_nfut s e s0 : lstep s e = Some s0 -> nfut s <= nfut s0.
Proof. intros H. step_cases H; simpl; auto. Qed.
Lemma lstep_ccanc s e s0 t' : lstep s e = Some s0 -> Bnd s -> ccanc s t' ->
  cancelling s0 t' = cancelling s t' -> ccanc s0 t'.
Proof.
  intros H B C E j' X. rewrite E in X. eapply lstep_canc_stable; eauto. eapply b_canc; eauto.
Qed.

Lemma grd_fires C s d r : grd C isFCancel isRetT r -> grd C isFCancel isRetT (fires s d r).
Proof.
  intros H; unfold fires. apply grd_app; [|exact H].
  intros i Hi. apply in_flat_map in Hi. destruct Hi as (j & _ & Hi). simpl in Hi.
  repeat (destruct Hi as [<-|Hi]; [reflexivity|]). destruct Hi.
Qed.
Lemma grd_on_mapped C s j x r : grd C isFCancel isRetT r -> grd C isFCancel isRetT (on_mapped s j x ++ r).
Proof.
  intros H. apply grd_app; [|exact H]. intros i Hi. unfold on_mapped in Hi.
  destruct (mkind s j), (mflat s j), x; simpl in Hi;
  repeat (destruct Hi as [<-|Hi]; [reflexivity|]); destruct Hi.
Qed.
Lemma grd_map_cb C j l r : grd C isFCancel isRetT r -> grd C isFCancel isRetT (map (fun c => IUserCb j c false) l ++ r).
Proof.
  intros H. apply grd_app; [|exact H]. intros i Hi. apply in_map_iff in Hi. destruct Hi as (c & <- & _). reflexivity.
Qed.
Lemma grd_tl' C G T r : grd C G T r -> grd C G T (tl r).
Proof. destruct r; simpl; auto. intros [_ [X|X]]; auto. Abort.

Lemma lstep_c_grd s e s0 : lstep s e = Some s0 -> shape_all s -> Bnd s -> Hd s ->
  forall t, grd (ccanc s0 t) isFCancel isRetT (thr s0 t).
Proof.
  intros H SH B I. pose proof (c_grd _ I) as I1. pose proof (c_own _ I) as I2.
  assert (ST : forall t', cancelling s0 t' = cancelling s t' -> ccanc s t' -> ccanc s0 t').
  { intros t' E C. eapply lstep_ccanc; eauto. }
  step_cases H; try exact I1.
  all: match goal with E : thr _ ?t = _ |- _ => pose proof (I1 t) as It; pose proof (I2 t) as Io; rewrite E in It, Io;
         try (inversion Io; subst; apply grd_tl in It; [|reflexivity]) end.
  all: match goal with E : thr _ ?t = _ |- _ => intros t'; simpl; destruct (Nat.eq_dec t' t) as [->|N];
    [rewrite upd_same|rewrite upd_other by exact N; eapply grd_mono; [apply ST; simpl; rewrite ?upd_other by exact N; reflexivity|apply I1]] end.
  all: try (match goal with E : thr _ _ = IFCancel _ :: _ |- _ => idtac end;
            apply grd_C; intros j' X; simpl in *; inversion Io; subst;
            match goal with Hc : cown _ _ (IFCancel ?j) |- _ => rewrite (Hc j eq_refl j' X) end;
            rewrite upd_same; fcrush s j0; fail).
  all: try (apply grd_C; intros j' X; simpl in X; rewrite upd_same in X; discriminate X).
  all: try (eapply grd_mono; [apply ST; reflexivity|]).
  all: try (apply grd_on_mapped); try (apply grd_fires); try (apply grd_map_cb); try assumption.
  all: try (simpl; repeat (split; [intros X; discriminate X|]; right); first [assumption | exact I]; fail).
  all: try (simpl; split; [intros X; discriminate X | left; reflexivity]).
  - apply grd_C. intros j' X. match goal with Hc : cown _ _ (ICancelled ?j) |- _ => rewrite (Hc j eq_refl j' X) end. assumption.
  - pose proof (SH t) as Sh. rewrite Heql in Sh. simpl in Sh. destruct l as [|[] l']; try discriminate Sh.
    simpl. split; [intros X; discriminate X|right]. simpl in It. destruct It as [_ [X|X]]; [discriminate X|exact X].
  - pose proof (SH t) as Sh. rewrite Heql in Sh. simpl in Sh. destruct l as [|[] l']; try discriminate Sh.
    simpl. split; [intros X; discriminate X|right]. simpl in It. destruct It as [_ [X|X]]; [discriminate X|exact X].
Qed.

Lemma app_cons_split {A} (h : A) l l1 x l2 : h :: l = l1 ++ x :: l2 ->
  (l1 = [] /\ h = x /\ l = l2) \/ exists l1', l1 = h :: l1' /\ l = l1' ++ x :: l2.
Proof. destruct l1; simpl; intros H; inversion H; subst; eauto. Qed.

Lemma lstep_h_cret s e s0 : lstep s e = Some s0 -> Bnd s -> Hd s ->
  forall j, In (HCancelRet j true) (hist s0) -> fcancelled (ms s0 j) = true.
Proof.
  intros H B I.
  assert (A : forall j, In (HCancelRet j true) (hist s) -> fcancelled (ms s0 j) = true).
  { intros j X. eapply lstep_canc_stable; eauto. eapply (bnd_hist _ _ _ B X); reflexivity. eapply h_cret; eauto. }
  pose proof (c_grd _ I) as G.
  step_cases H; try exact A.
  all: intros j' X; simpl in *; try (in_hist X); try (apply A; exact X).
  specialize (G t). rewrite Heql in G. simpl in G. destruct G as [G _]. apply (G eq_refl). assumption.
Qed.

Lemma lstep_h_cfalse s e s0 : lstep s e = Some s0 -> Bnd s -> Hd s ->
  forall l1 j b l2, hist s0 = l1 ++ HCancelRet j b :: l2 -> (exists o, In (HSet j o) l2) -> b = false.
Proof.
  intros H B I. pose proof (h_cfalse _ I) as A. pose proof (c_grd _ I) as G. pose proof (h_set _ I) as S.
  step_cases H; try exact A.
  all: intros l1 j' b' l2 E [oo X]; simpl in E; try (eapply A; eauto; fail).
  all: apply app_cons_split in E; destruct E as [(-> & E1 & <-)|(l1' & -> & E)]; [|eapply A; eauto]; try discriminate E1.
  inversion E1; subst. destruct b'; auto.
  specialize (G t). rewrite Heql in G. simpl in G. destruct G as [G _].
  specialize (G eq_refl _ Heqo). destruct (S _ _ X) as [S1 _]. rewrite S1 in G. discriminate G.
Qed.

Lemma sil_head_notFC t s s' : sil t s s' -> forall i r, thr s t = i :: r -> isFCancel i = false.
Proof. intros H i r E; inversion H; subst; rewrite (upd_eq_same _ _ _ _ H0) in E; inversion E; reflexivity. Qed.

Lemma sil_hd t s s' : sil t s s' -> Hd s -> Hd s'.
Proof.
  intros H [I1 I2 I3 I4 I5 I6 I7 I8].
  destruct (sil_thr _ _ _ H) as (i & r & Et & Ho & Hr).
  constructor; unfold cown, ccanc in *; sil_frame H; try assumption.
  - intros t'. pose proof (I5 t) as It. rewrite Et in It. inversion It; subst.
    destruct (Nat.eq_dec t' t) as [->|N]; [|rewrite Ho by exact N; apply I5].
    destruct Hr as [->|(j & -> & ->)]; [assumption|apply cown_map_cb; assumption].
  - intros t'. pose proof (I6 t) as It. rewrite Et in It.
    apply grd_tl in It; [|eapply sil_head_notFC; eauto].
    destruct (Nat.eq_dec t' t) as [->|N]; [|rewrite Ho by exact N; apply I6].
    destruct Hr as [->|(j & -> & ->)]; [assumption|apply grd_map_cb; assumption].
Qed.

Definition Inv2 (s : st) : Prop := (Inv1 s /\ Bnd s) /\ Hd s.
Lemma bnd_init : Bnd init.
Proof. constructor; simpl; intros; try constructor; discriminate. Qed.
Lemma hd_init : Hd init.
Proof.
  constructor; simpl; intros; try contradiction; try constructor; try discriminate; auto.
  destruct l1; discriminate.
Qed.
Lemma linv2 : linv Inv2.
Proof.
  apply linv_and; [apply linv_and; [apply linv1|apply bnd_init| |]|apply hd_init| |].
  - intros; eapply lstep_bnd; eauto.
  - intros; eapply sil_bnd; eauto.
  - intros s e s0 [[SH _] B] _ I H. constructor.
    + eapply lstep_h_set; eauto.
    + eapply lstep_h_canc; eauto.
    + eapply lstep_h_cnt; eauto.
    + eapply lstep_h_done; eauto.
    + eapply lstep_c_own; eauto.
    + eapply lstep_c_grd; eauto.
    + eapply lstep_h_cret; eauto.
    + eapply lstep_h_cfalse; eauto.
  - intros; eapply sil_hd; eauto.
Qed.
Lemma inv2_reach s : reachable s -> Inv2 s.
Proof. apply linv_reach; [apply linv2|]. intros s0 H; apply H. Qed.

Lemma filter_set_len0 j l : length (filter (is_set j) l) = 0 -> forall o, ~ In (HSet j o) l.
Proof.
  intros H o X. assert (In (HSet j o) (filter (is_set j) l)) as Y.
  { apply filter_In. split; [exact X|simpl; apply Nat.eqb_refl]. }
  destruct (filter (is_set j) l); [destruct Y|discriminate H].
Qed.

Lemma mapfut_terminal_once : forall s, reachable s -> forall l1 j o l2,
  hist s = l1 ++ HSet j o :: l2 ->
  (forall o', ~ In (HSet j o') l2) /\ ~ In (HCancelled j) l2 /\ ~ In (HCancelled j) l1 /\ (forall o', ~ In (HSet j o') l1) /\
  ms s j = Finished /\ mout s j = Some o.
Proof.
  intros s R l1 j o l2 E. destruct (inv2_reach s R) as [_ I].
  pose proof (h_cnt _ I j) as C. rewrite E, filter_app, app_length in C. simpl in C. rewrite Nat.eqb_refl in C. simpl in C.
  destruct (h_set _ I j o) as [A1 A2]; [rewrite E; apply in_or_app; right; left; reflexivity|].
  assert (NC : ~ In (HCancelled j) (hist s)).
  { intros X. apply (h_canc _ I) in X. rewrite A1 in X. discriminate X. }
  repeat split; auto.
  - apply filter_set_len0; lia.
  - intros X; apply NC; rewrite E; apply in_or_app; right; right; exact X.
  - intros X; apply NC; rewrite E; apply in_or_app; left; exact X.
  - apply filter_set_len0; lia.
Qed.

Lemma mapfut_cancel_true_stays : forall s, reachable s -> forall j,
  In (HCancelRet j true) (hist s) -> fcancelled (ms s j) = true.
Proof. intros s R. destruct (inv2_reach s R) as [_ I]. apply (h_cret _ I). Qed.

Lemma mapfut_cancel_false_on_finished : forall s, reachable s -> forall l1 j b l2,
  hist s = l1 ++ HCancelRet j b :: l2 -> (exists o, In (HSet j o) l2) -> b = false.
Proof. intros s R. destruct (inv2_reach s R) as [_ I]. apply (h_cfalse _ I). Qed.
