(* C02 / Poll, part T: the Future-protocol clauses of the PollFuture in the machine's own vocabulary. *)
From Coq Require Import ZArith List Bool Arith Lia.
From RecordUpdate Require Import RecordSet.
From ME Require Import Base.Machine Base.Fut Base.GenPrelude Model.Poll Proofs.Poll_Inv Proofs.Poll_Prov Proofs.Poll_Refute
  Proofs.Poll_N7 Proofs.Keep_PollC Proofs.Proto_Gen
  Proofs.Proto_Poll_P Proofs.Proto_Poll_P1 Proofs.Proto_Poll_P2 Proofs.Proto_Poll_V.
Import ListNotations RecordSetNotations.

(* ---- (a) terminal once ------------------------------------------------------------------------------------ *)
Lemma poll_stable s : reachable s -> forall es s', run step s es = Some s' -> forall j, fdone (ps s j) = true ->
  frefines (ps s j) (ps s' j) /\ pout s' j = pout s j.
Proof.
  intros Hr es s' Hrun j Hd.
  destruct (sys_stable outcome step init view_of view_init step_vstep es s s' Hr Hrun j Hd) as [A [B _]]. auto.
Qed.
Lemma poll_outcome_iff s : reachable s -> forall j,
  (ps s j = Finished <-> exists o, pout s j = Some o) /\ (fcancelled (ps s j) = true -> pout s j = None) /\
  (nfut s <= j -> ps s j = Pending /\ pout s j = None).
Proof.
  intros Hr j. pose proof (poll_vinv s Hr) as I. split; [split|split].
  - intros Hf. destruct (vi_fin _ _ I j Hf) as [o [A _]]. exists o. exact A.
  - intros [o Ho]. exact (vi_out _ _ I j o Ho).
  - intros Hc. destruct (pout s j) as [o|] eqn:E; [|reflexivity]. pose proof (vi_out _ _ I j o E) as Hf. simpl in Hf.
    rewrite Hf in Hc. discriminate.
  - exact (vi_fresh _ _ I j).
Qed.

Lemma hist_split_pmap l1 h l2 : pmap pe (l1 ++ h :: l2) = pmap pe l1 ++ pmap pe (h :: l2).
Proof. apply pmap_app. Qed.

Lemma poll_final_once s : reachable s -> forall l1 j o ts l2, hist s = l1 ++ HSet j o ts :: l2 ->
  (forall o' ts', ~ In (HSet j o' ts') l1) /\ (forall o' ts', ~ In (HSet j o' ts') l2) /\
  (forall ts', ~ In (HCancelled j ts') l1) /\ (forall ts', ~ In (HCancelled j ts') l2) /\
  (forall t' ts', ~ In (HCancelRet t' j true ts') l1) /\ (forall t' ts', ~ In (HCancelRet t' j true ts') l2) /\
  ps s j = Finished /\ pout s j = Some o.
Proof.
  intros Hr l1 j o ts l2 E. pose proof (poll_vinv s Hr) as I.
  assert (E' : vh (view_of s) = pmap pe l1 ++ PSet j o :: pmap pe l2) by (simpl; rewrite E, pmap_app; reflexivity).
  destruct (vinv_set_once _ _ I _ _ _ _ E') as [A1 [A2 [A3 [A4 [A5 [A6 [A7 A8]]]]]]].
  repeat split; auto; intros; intro Hin.
  - eapply A1. eapply in_pmap; [exact Hin|reflexivity].
  - eapply A2. eapply in_pmap; [exact Hin|reflexivity].
  - eapply A3. eapply in_pmap; [exact Hin|reflexivity].
  - eapply A4. eapply in_pmap; [exact Hin|reflexivity].
  - eapply A5. eapply in_pmap; [exact Hin|reflexivity].
  - eapply A6. eapply in_pmap; [exact Hin|reflexivity].
Qed.

(* the state of a done future is justified by the history *)
Lemma poll_done_justified s : reachable s -> forall j,
  (ps s j = Finished -> exists o ts, pout s j = Some o /\ In (HSet j o ts) (hist s)) /\
  (fcancelled (ps s j) = true -> exists ts, In (HCancelled j ts) (hist s)).
Proof.
  intros Hr j. pose proof (poll_vinv s Hr) as I. split.
  - intros Hf. destruct (vi_fin _ _ I j Hf) as [o [A B]]. simpl in B. destruct (in_pmap_inv _ _ _ B) as [h [Hin Hp]].
    destruct h; simpl in Hp; inversion Hp; subst. eauto.
  - intros Hc. pose proof (vi_canc _ _ I j Hc) as B. simpl in B. destruct (in_pmap_inv _ _ _ B) as [h [Hin Hp]].
    destruct h; simpl in Hp; inversion Hp; subst. eauto.
Qed.

(* ---- (b) cancel() ---------------------------------------------------------------------------------------- *)
Lemma poll_cancel_true_stays s : reachable s -> forall t0 j ts, In (HCancelRet t0 j true ts) (hist s) ->
  fcancelled (ps s j) = true /\ pout s j = None /\
  forall es s', run step s es = Some s' -> fcancelled (ps s' j) = true /\ pout s' j = None.
Proof.
  intros Hr t0 j ts Hin. pose proof (poll_vinv s Hr) as I.
  assert (Hc : fcancelled (ps s j) = true).
  { apply (vi_hret _ _ I j). simpl. eapply in_pmap; [exact Hin|reflexivity]. }
  destruct (poll_outcome_iff s Hr j) as [_ [Ho _]]. split; [exact Hc|]. split; [auto|].
  intros es s' Hrun. assert (Hd : fdone (ps s j) = true) by (destruct (ps s j); simpl in *; congruence).
  destruct (poll_stable s Hr es s' Hrun j Hd) as [A B]. rewrite <- (frefines_cancelled _ _ A), B. auto.
Qed.
Lemma poll_cancel_false_on_finished s : reachable s -> forall l1 t0 j b ts l2, hist s = l1 ++ HCancelRet t0 j b ts :: l2 ->
  (exists o ts', In (HSet j o ts') l2) -> b = false.
Proof.
  intros Hr l1 t0 j b ts l2 E [o [ts' Hin]]. pose proof (poll_vinv s Hr) as I.
  assert (E' : vh (view_of s) = pmap pe l1 ++ PCancelRet j b :: pmap pe l2) by (simpl; rewrite E, pmap_app; reflexivity).
  apply (vinv_ret_after_set _ _ I _ _ _ _ E'). exists o. eapply in_pmap; [exact Hin|reflexivity].
Qed.
Lemma poll_no_outcome_after_true s : reachable s -> forall l1 t0 j ts l2, hist s = l1 ++ HCancelRet t0 j true ts :: l2 ->
  forall o ts', ~ In (HSet j o ts') l1.
Proof.
  intros Hr l1 t0 j ts l2 E o ts' Hin. pose proof (poll_vinv s Hr) as I.
  assert (E' : vh (view_of s) = pmap pe l1 ++ PCancelRet j true :: pmap pe l2) by (simpl; rewrite E, pmap_app; reflexivity).
  apply (vinv_no_set_after_true _ _ I _ _ _ E' o). eapply in_pmap; [exact Hin|reflexivity].
Qed.

(* the program of a thread inside cancel(): cancel-body instructions, closed by the instruction that returns the bool
   (the machine has no raising return at all: the only API returns are IRet / IRetSubmit / IRetEnv / IRetB) *)
Lemma cprog_spec j p : cprog j p = true -> exists body c, p = body ++ [c] /\ forallb cbody body = true /\ closer j c = true.
Proof.
  induction p as [|i r IH]; [discriminate|]. intros Hc. destruct (cprog_head _ _ _ Hc) as [[-> Hx]|[Hb Hr]].
  - exists [], i. auto.
  - destruct (IH Hr) as [body [c [-> [A B]]]]. exists (i :: body), c. simpl. rewrite Hb, A. auto.
Qed.
(* the poll thread is never inside cancel() *)
Lemma poller_never_cancels : forall s, reachable s -> cancelling s poller = None.
Proof.
  apply invariant_rule; [reflexivity|]. intros s0 [ts e] s' I0 Hx. apply step_inv in Hx. destruct Hx as [s1 [Ht Hx]].
  assert (E1 : cancelling s1 = cancelling s0) by (apply tick_inv in Ht; destruct Ht as [[-> _]|[-> _]]; reflexivity).
  destruct (step0_inv _ _ _ Hx) as [[c [d [-> [_ ->]]]]|[_ [H1|[H2|H3]]]].
  - simpl. congruence.
  - destruct e; try discriminate H1; unfold step1, client in H1; brk H1; inv_some H1; simpl; try congruence.
    + eqs. unfold upd. destruct (Nat.eqb poller t) eqn:E; [apply Nat.eqb_eq in E; subst; discriminate|congruence].
    + unfold upd. destruct (Nat.eqb poller t); [reflexivity|congruence].
  - destruct e; try discriminate H2; unfold step2 in H2; brk H2; inv_some H2; simpl; congruence.
  - destruct e; try discriminate H3; unfold step3, client in H3; brk H3; inv_some H3; simpl; congruence.
Qed.
Lemma poll_cancel_never_raises s : reachable s -> forall t j, cancelling s t = Some j ->
  j < nfut s /\ t <> poller /\
  (exists body c, thr s t = body ++ [c] /\ forallb cbody body = true /\ closer j c = true).
Proof.
  intros Hr t j Hc. pose proof (invP_reachable s Hr) as IP. split; [exact (p_cn _ IP _ _ Hc)|].
  pose proof (p_wf _ IP t) as Hw. rewrite Hc in Hw. destruct (wfp_split _ _ _ Hw) as [_ [_ A3]].
  split; [|apply cprog_spec; exact A3].
  intros ->. rewrite (poller_never_cancels s Hr) in Hc. discriminate.
Qed.
(* the API return of a thread inside cancel() is a bool, and it is the recorded one *)
Lemma poll_cancel_returns_bool s ts t c s' : reachable s -> step s (ts, ERet t c) = Some s' ->
  forall j, cancelling s t = Some j ->
  (c = 1 \/ c = 2) /\ hist s' = HCancelRet t j (Nat.eqb c 2) ts :: hist s /\ cancelling s' t = None.
Proof.
  intros Hr Hx j Hc. pose proof (invP_reachable s Hr) as IP.
  pose proof (p_wf _ IP t) as Hw. rewrite Hc in Hw. destruct (wfp_split _ _ _ Hw) as [_ [_ A3]].
  apply step_inv in Hx. destruct Hx as [s1 [Ht Hx]].
  assert (E1 : thr s1 = thr s /\ cancelling s1 = cancelling s /\ hist s1 = hist s /\ clock s1 = ts).
  { unfold tick in Ht. destruct (Z.eqb ts (clock s)) eqn:E; [apply Z.eqb_eq in E; inv_some Ht; auto|].
    destruct (_ && _); inv_some Ht. simpl. auto. }
  destruct E1 as [Et [Ec [Eh Ek]]].
  destruct (step0_inv _ _ _ Hx) as [[c0 [d [E _]]]|[_ [H1|[H2|H3]]]]; try discriminate.
  unfold step1 in H1. rewrite Et, Ec, Hc in H1.
  destruct (thr s t) as [|i rest] eqn:Ep; [discriminate|].
  destruct (cprog_head _ _ _ A3) as [[-> Hcl]|[Hb _]].
  - destruct i; try discriminate. destruct b.
    + destruct (Nat.eqb c 2) eqn:E; [|discriminate]. apply Nat.eqb_eq in E. subst c. inv_some H1. simpl.
      rewrite upd_same, Eh. auto.
    + destruct (Nat.eqb c 1) eqn:E; [|discriminate]. apply Nat.eqb_eq in E. subst c. inv_some H1. simpl.
      rewrite upd_same, Eh. auto.
  - destruct i; simpl in Hb; discriminate.
Qed.

(* ---- (c) a cancelled future is notified ------------------------------------------------------------------- *)
Lemma poll_cancelled_notified s : reachable s -> forall j, ps s j = Cancelled -> exists t, In (IFSrnc j) (thr s t).
Proof.
  intros Hr j Hj. destruct (p_notif _ (invP_reachable s Hr) j Hj) as [t Ht]. exists t. apply has_srnc_in. exact Ht.
Qed.
Lemma poll_at_rest_notified s : reachable s -> poll_at_rest s -> forall j, ps s j <> Cancelled.
Proof.
  intros Hr Hrest j Hj. destruct (poll_cancelled_notified s Hr j Hj) as [t Hin].
  rewrite (at_rest_idle s Hrest t) in Hin. contradiction.
Qed.

(* ---- witnesses (wire format of Model/Poll.v; Proofs/Poll_N7.v) ---------------------------------------------- *)
Local Open Scope Z_scope.
(* w_three: future 0 resolved by the poll function with 7, future 1 waits for its delegate, future 2 is being polled,
   the poll thread sleeps.  Then client thread 3 cancels future 1: delegate.cancel() succeeds and runs
   _delegate_resolved inline, no cancel function, super().cancel() ... *)
Definition w_proto_prefix : list (list Z) :=
  w_three ++ [[1; 2; 3; 1]; [1; 12; 3; 1]; [1; 14; 3; 0; 1; 0]; [1; 14; 3; 1; 1; 0]; [1; 15; 3; 2; 1; 0]; [1; 15; 3; 0; 1; 2];
              [1; 14; 3; 2; 1; 0]].
(* ... set_running_or_notify_cancel(), the callbacks (deregistration), return True *)
Definition w_proto : list (list Z) := w_proto_prefix ++ [[1; 14; 3; 3; 1; 2]; [1; 13; 3; 1]; [1; 7; 3]; [1; 11; 3; 2]].
Local Close Scope Z_scope.

Lemma proto_rest_example :
  let s := state_of w_proto in
  accepted w_proto = true /\ poll_at_rest s /\ nfut s = 3 /\
  ps s 0 = Finished /\ pout s 0 = Some (Ok 7) /\ ps s 1 = CancelledNotified /\ pout s 1 = None /\ ps s 2 = Pending /\
  In (HCancelRet 3 1 true 1%Z) (hist s) /\ In (HCancelled 1 1%Z) (hist s) /\ In (HSet 0 (Ok 7) 1%Z) (hist s).
Proof.
  cbv zeta. split; [vm_compute; reflexivity|]. split.
  { split; [quiet_threads|]. split; vm_compute; [reflexivity|exact I]. }
  do 6 (split; [vm_compute; reflexivity|]).
  split; [vm_compute; auto 40|]. split; vm_compute; auto 40.
Qed.
Lemma proto_state_frozen_refuted :
  exists s e s' j, reachable s /\ step s e = Some s' /\ fdone (ps s j) = true /\ ps s j = Cancelled /\ ps s' j = CancelledNotified.
Proof.
  exists (state_of w_proto_prefix), (1%Z, EFP 3 3 1 Cancelled).
  destruct (step (state_of w_proto_prefix) (1%Z, EFP 3 3 1 Cancelled)) as [s'|] eqn:E; [|vm_compute in E; discriminate].
  exists s', 1. split; [apply accepted_reachable; vm_compute; reflexivity|]. split; [reflexivity|].
  split; [vm_compute; reflexivity|]. split; [vm_compute; reflexivity|].
  vm_compute in E. injection E as E. rewrite <- E. reflexivity.
Qed.
Lemma proto_cancel_example :
  let s := state_of w_proto_prefix in
  accepted w_proto_prefix = true /\ cancelling s 3 = Some 1 /\ thr s 3 = [IFSrnc 1; IRelMCbs 1; IRetB true] /\ ps s 1 = Cancelled.
Proof. cbv zeta. split; [vm_compute; reflexivity|]. split; [vm_compute; reflexivity|]. split; vm_compute; reflexivity. Qed.
