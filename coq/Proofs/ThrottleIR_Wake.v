(* PATH CONFORMANCE with INTERFERENCE: the one path of the generated submit() that a single thread cannot take - a
   blocking submit that waits in _block_until_ready, is overtaken by the hand-over thread taking a job off the
   queue, re-checks and goes on to enqueue.  The co-execution is cut after some macro steps ([coexec_k] returns the
   residual continuation), the hand-over thread's events are run on Throttle.step, and the co-execution resumes
   from the residual continuation on the new state.  Both phases are runs of Throttle.step ([coexec_k_sound]). *)
From Coq Require Import ZArith List Bool Arith String.
From RecordUpdate Require Import RecordSet.
From ME Require Import Base.Machine Base.Fut Base.GenPrelude Gen.ThrottleGen Model.Throttle Model.ThrottleIR Gen.ThrottleSkel
  Proofs.ThrottleIR_Conf.
Import ListNotations RecordSetNotations.

(* coexec with the residual (locals, continuation) at the point where the fuel ran out *)
Fixpoint coexec_k (fuel : nat) (E : envp) (en : entry) (s : st) (t : nat) (loc : locals) (k : list item)
  : option (list (bool * instr) * list (Z * ev) * st * bool * locals * list item) :=
  match fuel with
  | 0 => (* the silent code after the last operation belongs to that operation's event: it is resolved on the state at the cut *)
         match settle FUEL false s loc k [] with
         | Some (_, loc1, k1) => Some ([], [], s, false, loc1, k1)
         | None => None
         end
  | S n =>
      match macro E en s t loc k with
      | MStuck => None
      | MDone => Some ([], [], s, true, loc, k)
      | MIns ir p loc' k' =>
          match run_ins E s t p with
          | None => None
          | Some (evs, s') =>
              match coexec_k n E en s' t loc' k' with
              | Some (a, b, sf, c, lf, kf) => Some (map (pair ir) p ++ a, evs ++ b, sf, c, lf, kf)
              | None => None
              end
          end
      end
  end.

Lemma coexec_k_S n E en s t loc k :
  coexec_k (S n) E en s t loc k =
  match macro E en s t loc k with
  | MStuck => None
  | MDone => Some ([], [], s, true, loc, k)
  | MIns ir p loc' k' =>
      match run_ins E s t p with
      | None => None
      | Some (evs, s') =>
          match coexec_k n E en s' t loc' k' with
          | Some (a, b, sf, c, lf, kf) => Some (map (pair ir) p ++ a, evs ++ b, sf, c, lf, kf)
          | None => None
          end
      end
  end.
Proof. reflexivity. Qed.

Lemma coexec_k_0 E en s t loc k :
  coexec_k 0 E en s t loc k =
  match settle FUEL false s loc k [] with
  | Some (_, loc1, k1) => Some ([], [], s, false, loc1, k1)
  | None => None
  end.
Proof. reflexivity. Qed.

Theorem coexec_k_sound : forall fuel E en s t loc k tis evs sf c lf kf,
  coexec_k fuel E en s t loc k = Some (tis, evs, sf, c, lf, kf) ->
  run step s evs = Some sf /\ heads s t evs = Some (map snd tis).
Proof.
  induction fuel as [|n IH]; intros E en s t loc k tis evs sf c lf kf Hc.
  - rewrite coexec_k_0 in Hc. destruct (settle FUEL false s loc k []) as [[[m l1] k1]|]; [|discriminate].
    inversion Hc; subst. split; reflexivity.
  - rewrite coexec_k_S in Hc. destruct (macro E en s t loc k) as [ir p loc' k'| |] eqn:Em; try discriminate.
    + destruct (run_ins E s t p) as [[evs1 s1]|] eqn:Er; [|discriminate].
      destruct (coexec_k n E en s1 t loc' k') as [[[[[[a b] sf'] c'] lf'] kf']|] eqn:Ec; [|discriminate].
      inversion Hc; subst. destruct (run_ins_sound _ _ _ _ _ _ Er) as [R1 H1].
      destruct (IH _ _ _ _ _ _ _ _ _ _ _ _ Ec) as [R2 H2].
      split.
      * rewrite run_app, R1. exact R2.
      * rewrite map_app, map_snd_pair. eapply heads_app; eauto.
    + inversion Hc; subst. split; reflexivity.
Qed.

(* the state: blocking mode, limit 1, future 0 queued; the hand-over thread holds X in the middle of its admission
   loop (about to take future 0 off the queue), unlimited for this iteration *)
Definition state_w (dy ef : bool) : st :=
  state_of (mkC true dy (Some 1%Z) false [0] 0%Z ef (Answer (Some 1%Z)) None false 2 false true Pending (Ok 5))
    <| xown := Some H |> <| hlim := None |> <| hadm := [] |>
    <| thr := upd (fun _ => []) H [IPop; IAcqA AIncr; IRelA; ILoop] |>.
Definition E_w : envp := mkE (Answer (Some 1%Z)) None.
(* the hand-over thread: popleft, incr, leaves X *)
Definition interference : list ev := [EPop H; EAcqA H; ERelA H; ERelX H].
Fixpoint at_clock (s : st) (es : list ev) : option (list (Z * ev) * st) :=
  match es with
  | [] => Some ([], s)
  | e :: r => match step s (clock s, e) with
              | Some s' => match at_clock s' r with Some (l, sf) => Some ((clock s, e) :: l, sf) | None => None end
              | None => None
              end
  end.

Definition wake_run (dy ef : bool) (n1 : nat) :=
  match step (state_w dy ef) (0%Z, ECallSubmit T) with
  | None => None
  | Some s1 =>
      match coexec_k n1 E_w EnSubmit s1 T loc0 (map IS submit_m ++ [KEnd]) with
      | Some (tis1, evs1, sm, false, lm, km) =>
          match at_clock sm interference with
          | Some (ievs, sm') =>
              match coexec_k NF E_w EnSubmit sm' T lm km with
              | Some (tis2, evs2, s2, d2, _, _) => Some (s1, tis1, evs1, sm, ievs, sm', tis2, evs2, s2, d2)
              | None => None
              end
          | None => None
          end
      | _ => None
      end
  end.

Definition wake_ok (dy ef : bool) (n1 : nat) : bool :=
  match wake_run dy ef n1 with
  | Some (_, tis1, _, _, _, _, tis2, _, s2, d2) =>
      d2 && isnil (thr s2 T) && Nat.eqb (List.length (qu s2)) 1
      && existsb (fun ti => match snd ti with IWait _ (WSub _) => true | _ => false end) tis1
      && existsb (fun ti => match snd ti with IXEnq => true | _ => false end) tis2
  | None => false
  end.

Definition wake_cases : list (bool * bool * nat) :=
  [(false, true, 2); (false, true, 4); (false, false, 2); (false, false, 3); (true, true, 3); (true, false, 3); (true, false, 4)].

Lemma wake_conf : forallb (fun x => wake_ok (fst (fst x)) (snd (fst x)) (snd x)) wake_cases = true.
Proof. vm_compute. reflexivity. Qed.

Lemma at_clock_run : forall es s l sf, at_clock s es = Some (l, sf) -> run step s l = Some sf.
Proof.
  induction es as [|e r IH]; intros s l sf Ha; cbn [at_clock] in Ha.
  - inversion Ha; subst. reflexivity.
  - destruct (step s (clock s, e)) as [s'|] eqn:Es; [|discriminate].
    destruct (at_clock s' r) as [[l' sf']|] eqn:Er; [|discriminate].
    inversion Ha; subst. cbn [run]. rewrite Es. eapply IH; eauto.
Qed.

Local Strategy opaque [coexec_k macro settle step state_w at_clock].

(* the statement: the submit() is accepted, co-executes to a point where it has waited at least once, the hand-over
   thread's four events are accepted, and the resumed co-execution completes with the enqueue: ONE run of Throttle.step *)
Theorem blocked_submit_resumes : forall dy ef n1, In (dy, ef, n1) wake_cases ->
  exists (s1 : st) (tis1 : list (bool * instr)) (evs1 : list (Z * ev)) (sm : st) (ievs : list (Z * ev)) (sm' : st)
         (tis2 : list (bool * instr)) (evs2 : list (Z * ev)) (s2 : st),
    step (state_w dy ef) (0%Z, ECallSubmit T) = Some s1 /\
    run step s1 (evs1 ++ ievs ++ evs2) = Some s2 /\
    heads s1 T evs1 = Some (map snd tis1) /\ run step s1 evs1 = Some sm /\
    run step sm ievs = Some sm' /\ map snd ievs = interference /\
    heads sm' T evs2 = Some (map snd tis2) /\
    existsb (fun ti => match snd ti with IWait _ (WSub _) => true | _ => false end) tis1 = true /\
    existsb (fun ti => match snd ti with IXEnq => true | _ => false end) tis2 = true /\
    thr s2 T = [] /\ List.length (qu s2) = 1.
Proof.
  intros dy ef n1 Hin.
  assert (Hk : wake_ok dy ef n1 = true).
  { pose proof wake_conf as Hf. rewrite forallb_forall in Hf. exact (Hf (dy, ef, n1) Hin). }
  unfold wake_ok in Hk. destruct (wake_run dy ef n1) as [[[[[[[[[[s1 tis1] evs1] sm] ievs] sm'] tis2] evs2] s2] d2]|] eqn:Ew; [|discriminate].
  unfold wake_run in Ew.
  destruct (step (state_w dy ef) (0%Z, ECallSubmit T)) as [s1'|] eqn:Es; [|discriminate].
  destruct (coexec_k n1 E_w EnSubmit s1' T loc0 (map IS submit_m ++ [KEnd])) as [[[[[[a1 b1] c1] d1] l1] k1]|] eqn:E1; [|discriminate].
  destruct d1; [discriminate|].
  destruct (at_clock c1 interference) as [[iv c1']|] eqn:Ei; [|discriminate].
  destruct (coexec_k NF E_w EnSubmit c1' T l1 k1) as [[[[[[a2 b2] c2] d2'] l2] k2]|] eqn:E2; [|discriminate].
  inversion Ew; subst.
  destruct (coexec_k_sound _ _ _ _ _ _ _ _ _ _ _ _ _ E1) as [R1 H1].
  destruct (coexec_k_sound _ _ _ _ _ _ _ _ _ _ _ _ _ E2) as [R2 H2].
  pose proof (at_clock_run _ _ _ _ Ei) as Ri.
  apply andb_prop in Hk. destruct Hk as [Hk K5]. apply andb_prop in Hk. destruct Hk as [Hk K4].
  apply andb_prop in Hk. destruct Hk as [Hk K3]. apply andb_prop in Hk. destruct Hk as [K1 K2].
  exists s1, tis1, evs1, sm, ievs, sm', tis2, evs2, s2.
  repeat split; auto.
  - rewrite run_app, R1, run_app, Ri. exact R2.
  - clear - Ei. revert Ei. generalize interference as es. intros es; revert sm ievs sm'.
    induction es as [|e r IH]; intros s l sf Ha; cbn [at_clock] in Ha.
    + inversion Ha; subst. reflexivity.
    + destruct (step s (clock s, e)) as [s'|]; [|discriminate].
      destruct (at_clock s' r) as [[l' sf']|] eqn:Er; [|discriminate].
      inversion Ha; subst. simpl. f_equal. eapply IH; eauto.
  - destruct (thr s2 T); [reflexivity|discriminate].
  - apply Nat.eqb_eq. exact K3.
Qed.
