(* The lemmas behind Props/Comb_F.v. *)
From Coq Require Import List Arith Bool Lia PeanoNat ZArith.
From ME Require Import Base.Machine Base.Fut Base.GenPrelude Gen.BoolGen Gen.ZipGen Model.Comb Proofs.Comb_Spec.
From ME Require Import Proofs.Comb_I0 Proofs.Comb_I1 Proofs.Comb_I2 Proofs.Comb_I3 Proofs.Comb_I4 Proofs.Comb_I5 Proofs.Comb_I6 Proofs.Comb_I7 Proofs.Comb_I8 Proofs.Comb_I9c Proofs.Comb_I10a Proofs.Comb_I10c.
Import ListNotations.

Lemma comb_no_thread_dies : forall s, reachable s -> forall t, ~ In IDead (thr s t) /\ ~ In IRetRaise (thr s t).
Proof.
  intros s R t. pose proof (I1_reach s R t) as H. rewrite Forall_forall in H.
  split; intros Hin; apply H in Hin; destruct Hin as (? & ? & ?); congruence.
Qed.

Lemma count_zero_notin (f : hev -> bool) l x : length (filter f l) = 0 -> f x = true -> ~ In x l.
Proof.
  intros H Hx Hin. assert (Hf : In x (filter f l)) by (apply filter_In; auto).
  destruct (filter f l); [contradiction|discriminate].
Qed.
Lemma count_split (f : hev -> bool) l1 x l2 : f x = true ->
  length (filter f (l1 ++ x :: l2)) = S (length (filter f l1) + length (filter f l2)).
Proof. intros Hx. rewrite filter_app, app_length. simpl. rewrite Hx. simpl. lia. Qed.

Lemma comb_decide_once : forall s, reachable s -> forall l1 d o l2,
  hist s = l1 ++ HDecide d o :: l2 -> forall d' o', ~ In (HDecide d' o') l2 /\ ~ In (HDecide d' o') l1.
Proof.
  intros s R l1 d o l2 Hh d' o'. pose proof (i2_le _ (I2_reach s R)) as Hle.
  unfold ndec in Hle. rewrite Hh, (count_split isdec) in Hle by reflexivity.
  split; apply (count_zero_notin isdec); try reflexivity; lia.
Qed.

Lemma comb_output_once : forall s, reachable s -> forall l1 o l2,
  hist s = l1 ++ HSetOut o :: l2 -> (forall o', ~ In (HSetOut o') l2) /\ ~ In HOutCancelled l2 /\ ~ In HOutCancelled l1.
Proof.
  intros s R l1 o l2 Hh. pose proof (i3_le _ (I3_reach s R)) as Hle.
  unfold nout in Hle. rewrite Hh, (count_split isout) in Hle by reflexivity.
  split; [intros o'|split]; apply (count_zero_notin isout); try reflexivity; lia.
Qed.

Lemma comb_or_fold : forall s, reachable s -> ck s = KOr -> forall l1 d o l2,
  hist s = l1 ++ HDecide d o :: l2 ->
  exists v l2', l2 = HSeen d v :: l2' /\
    (truthy_view v = true \/ forall x, In x (inputs s) -> seen_in l2 x) /\
    (forall d' v', In (HSeen d' v') l2' -> truthy_view v' = false) /\
    o = (if v_cancelled v then None else Some (oc_of s d)).
Proof.
  intros s R Hk l1 d o l2 Hh. pose proof (I6_reach s R) as I. unfold I6 in I. rewrite Hh in I.
  apply hist_ok_split in I. simpl in I. destruct I as (_ & v & pre & l2' & A & B & C & D & _ & F).
  rewrite Hk in *. destruct B as [->|(B & _)]; [|discriminate]. exists v, l2'. simpl in A. auto.
Qed.

Lemma comb_and_fold : forall s, reachable s -> ck s = KAnd -> forall l1 d o l2,
  hist s = l1 ++ HDecide d o :: l2 ->
  exists v l2', l2 = HSeen d v :: l2' /\
    (falsy_view v = true \/ forall x, In x (inputs s) -> seen_in l2 x) /\
    (forall d' v', In (HSeen d' v') l2' -> falsy_view v' = false) /\
    o = (if v_cancelled v then None else Some (oc_of s d)).
Proof.
  intros s R Hk l1 d o l2 Hh. pose proof (I6_reach s R) as I. unfold I6 in I. rewrite Hh in I.
  apply hist_ok_split in I. simpl in I. destruct I as (_ & v & pre & l2' & A & B & C & _ & D & F).
  rewrite Hk in *. destruct B as [->|(B & _)]; [|discriminate]. exists v, l2'. simpl in A. auto.
Qed.

(* The statement comb_zip_first_failure is false for the model: when the last input succeeds the
   deciding evaluation also logs HStore between HSeen and HDecide.  Strongest variant: *)
Lemma comb_zip_first_failure_alt : forall s, reachable s -> ck s = KZip -> forall l1 d o l2,
  hist s = l1 ++ HDecide d o :: l2 ->
  exists v l2', (l2 = HSeen d v :: l2' \/
                 (v_cancelled v = false /\ v_failed v = false /\ exists i w, l2 = HStore i w :: HSeen d v :: l2')) /\
    (forall d' v', In (HSeen d' v') l2' -> v_cancelled v' = false /\ v_failed v' = false) /\
    o = (if v_cancelled v then None else Some (oc_of s d)).
Proof.
  intros s R Hk l1 d o l2 Hh. pose proof (I6_reach s R) as I. unfold I6 in I. rewrite Hh in I.
  apply hist_ok_split in I. simpl in I. destruct I as (_ & v & pre & l2' & A & B & C & _ & _ & F).
  rewrite Hk in *. exists v, l2'. repeat split; auto; try (eapply F; eauto).
  destruct B as [->|(_ & B1 & B2 & i & w & ->)]; simpl in A; eauto 10.
Qed.


Lemma comb_output_is_decider : forall s, reachable s -> ck s <> KZip -> forall o,
  In (HSetOut o) (hist s) -> exists d, In (HDecide d (Some o)) (hist s).
Proof. intros s R Hk o Hin. exact (i7_hist _ (I7_reach s R) o Hin Hk). Qed.

Lemma comb_cancel_notified : forall s, reachable s -> quiescent s -> os s <> Cancelled.
Proof.
  intros s R Q Hc. destruct (I8_reach s R) as [_ N].
  destruct (N Hc) as [[t Ht]|[[t Ht]|[t Ht]]]; rewrite Q in Ht; contradiction.
Qed.

Lemma comb_zip_positions : forall s, reachable s -> ck s = KZip -> forall o, In (HSetOut o) (hist s) ->
  (exists e, o = Err e) \/
  forall i, i < length (inputs s) -> exists v t, slots s i = Some v /\ eout s (input_at s i) = Some (Ok v t).
Proof.
  intros s R Hk o Hin. destruct o as [v b|e]; [right|left; eauto].
  pose proof (ZV_reach s R) as V. pose proof (zv_hist _ V v b Hin Hk) as F.
  intros i Hi. destruct (slots s i) as [w|] eqn:E; [|exfalso; apply (F i Hi E)].
  destruct (zv_val _ V i w E) as [t Et]. exists w, t. auto.
Qed.

(* The statement comb_losers_cancelled is false for the model: (a) f_zip does not cancel the other
   inputs when one input fails; (b) an input whose id equals out_id (or a position index equal to
   notify_id) is mistaken for the output (its notify callback) by the model's cancel lists. *)
Lemma comb_losers_cancelled_alt : forall s, reachable s -> quiescent s -> built s = true ->
  fdone (os s) = true -> ~ In out_id (inputs s) -> length (inputs s) <= notify_id ->
  (ck s <> KZip \/ fcancelled (os s) = true) ->
  forall x, In x (inputs s) -> fdone (es s x) = true.
Proof.
  intros s R Q Hb Hd Hno Hlen Hk x Hx.
  destruct (I10_reach s R) as (F & _ & C).
  destruct (fcancelled (os s)) eqn:Hc.
  - destruct (In_nth _ _ 0 Hx) as (i & Hi & Hn).
    assert (Hni : i <> notify_id) by lia.
    destruct (C Hc Hb i Hi Hni) as [A|[[t A]|[[t A]|[t A]]]]; try (rewrite Q in A; contradiction).
    unfold input_at in A. rewrite Hn in A. exact A.
  - destruct Hk as [Hk|Hk]; [|discriminate].
    assert (Hf : os s = Finished) by (destruct (os s); simpl in *; congruence).
    pose proof (lo_fin _ (LO_reach s R) Hf) as Hcd.
    destruct (F Hcd Hk Hno x Hx) as [A|[t A]]; auto. rewrite Q in A. contradiction.
Qed.
