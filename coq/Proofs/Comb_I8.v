(* I8: a cancelled output is always going to be notified. *)
From Coq Require Import List Arith Bool Lia PeanoNat ZArith.
From ME Require Import Base.Machine Base.Fut Base.GenPrelude Gen.BoolGen Gen.ZipGen Model.Comb Proofs.Comb_Spec.
From ME Require Import Proofs.Comb_I0 Proofs.Comb_I1 Proofs.Comb_I4.
Import ListNotations.

Definition pend (thrs : nat -> list instr) (x : instr) : Prop := exists t, In x (thrs t).

Lemma step_os_done s e s' : step s e = Some s' -> fdone (os s) = true -> fdone (os s') = true.
Proof.
  intros H Hd. destruct e; step_inv H; simpl; auto; clean;
  destruct (os s); simpl in *; try discriminate;
  repeat match goal with Hq : Some _ = Some _ |- _ => inversion Hq; clear Hq; subst
                       | Hq : (_, _) = (_, _) |- _ => inversion Hq; clear Hq; subst end; auto.
Qed.

Lemma f_cancel_fires_done' p f b : f_cancel p = (f, b) -> f_cancel_fires p = true -> fdone f = true.
Proof. destruct p; simpl; intros H; inversion H; subst; auto; discriminate. Qed.
Lemma f_set_done' p f : f_set p = Some f -> fdone f = true.
Proof. destruct p; simpl; intros H; inversion H; subst; auto. Qed.

Definition N1 (s : st) : Prop :=
  fdone (os s) = false -> built s = true -> In notify_id (ocbs s) \/ pend (thr s) IAddCbNotify.
Definition N2 (s : st) : Prop :=
  os s = Cancelled -> pend (thr s) INotifyQ \/ pend (thr s) ISrncOut \/ pend (thr s) IAddCbNotify.

Lemma keep_addnotify : keepable IAddCbNotify. Proof. split; intros; discriminate. Qed.
Lemma keep_notifyq : keepable INotifyQ. Proof. split; intros; discriminate. Qed.
Lemma keep_srnc : keepable ISrncOut. Proof. split; intros; discriminate. Qed.

Lemma N1_step s e s' : I1 s -> N1 s -> step s e = Some s' -> N1 s'.
Proof.
  intros I N H Hd' Hb'.
  assert (Hd : fdone (os s) = false).
  { destruct (fdone (os s)) eqn:E; auto. rewrite (step_os_done _ _ _ H E) in Hd'. discriminate. }
  destruct (built s) eqn:Hb.
  2:{ destruct e; step_inv H; simpl in *; try congruence. right. exists t. rewrite upd_same. left. reflexivity. }
  destruct (N Hd Hb) as [Hin|[u Hu]].
  - destruct e; step_inv H; simpl in *; auto using in_or_app; try discriminate.
    all: try (rewrite (f_cancel_fires_done' _ _ _ Heqp Heqb0) in Hd'; discriminate).
    all: rewrite (f_set_done' _ _ Heqo0) in Hd'; discriminate.
  - destruct (step_pending _ _ _ u _ I H keep_addnotify Hu) as [Hk|[-> [r Hr]]]; [right; exists u; auto|].
    left. destruct e; simpl in Hr; step_inv H; try congruence; simpl. apply in_or_app. right. left. reflexivity.
Qed.

Lemma notify_in_fires s r : In notify_id (ocbs s) -> In INotifyQ (out_fires s r).
Proof.
  intros H. unfold out_fires. apply in_or_app. left. apply in_flat_map. exists notify_id. split; auto.
  rewrite Nat.eqb_refl. left. reflexivity.
Qed.

Lemma N2_step s e s' : I1 s -> N1 s -> N2 s -> (forall t, thr s t <> [] -> built s = true) ->
  step s e = Some s' -> N2 s'.
Proof.
  intros I M N B H Hc'. destruct (fstate_eqb (os s) Cancelled) eqn:Ec.
  - apply fstate_eqb_eq in Ec. destruct (N Ec) as [[u Hu]|[[u Hu]|[u Hu]]].
    + destruct (step_pending _ _ _ u _ I H keep_notifyq Hu) as [Hk|[-> [r Hr]]]; [left; exists u; auto|].
      right. left. exists (actor e). destruct e; simpl in Hr |- *; step_inv H; try congruence; clean; simpl;
        rewrite upd_same; try (left; reflexivity). rewrite Ec in *. discriminate.
    + destruct (step_pending _ _ _ u _ I H keep_srnc Hu) as [Hk|[-> [r Hr]]]; [right; left; exists u; auto|].
      exfalso. destruct e; simpl in Hr; step_inv H; try congruence; clean; simpl in *; rewrite Ec in *;
        simpl in *; congruence.
    + destruct (step_pending _ _ _ u _ I H keep_addnotify Hu) as [Hk|[-> [r Hr]]]; [right; right; exists u; auto|].
      exfalso. destruct e; simpl in Hr; step_inv H; try congruence; clean; simpl in *; rewrite Ec in *;
        simpl in *; congruence.
  - assert (Hne : os s <> Cancelled) by (intros E; rewrite E in Ec; discriminate).
    assert (X : exists t l b, thr s t = ICancelOut :: l /\ e = EFO t 2 Pending /\ os s = Pending /\
                thr s' t = norm false (out_fires s (retb_fix b l))).
    { destruct e; step_inv H; simpl in *; try congruence; clean; destruct (os s); simpl in *; try discriminate;
      repeat match goal with Hq : Some _ = Some _ |- _ => inversion Hq; clear Hq; subst
                       | Hq : (_, _) = (_, _) |- _ => inversion Hq; clear Hq; subst end; try congruence.
      eexists t, l, _. rewrite upd_same. repeat split; eauto. }
    destruct X as (t & l & b & Ht & -> & Ho & Ht').
    assert (Hb : built s = true) by (apply (B t); congruence).
    destruct (M ltac:(rewrite Ho; reflexivity) Hb) as [Hin|[u Hu]].
    + left. exists t. rewrite Ht'. apply norm_in; [|discriminate|apply notify_in_fires; auto].
      pose proof (I t) as It. rewrite Ht in It. fa_hyps. apply nothrow_out_fires. apply Forall_retb; [intros; nt|auto].
    + right. right. destruct (step_pending _ _ _ u _ I H keep_addnotify Hu) as [Hk|[-> [r Hr]]]; [exists u; auto|].
      simpl in Hr. congruence.
Qed.

Lemma I8_reach s : reachable s -> N1 s /\ N2 s.
Proof.
  apply (invariant_rule_r step (fun s => N1 s /\ N2 s)).
  - split; intros H; simpl in *; discriminate.
  - intros s0 e s' R [A B] H. pose proof (I1_reach _ R) as I. split.
    + eapply N1_step; eauto.
    + eapply N2_step; eauto. intros t. apply nonempty_built. apply I4_reach; auto.
Qed.
