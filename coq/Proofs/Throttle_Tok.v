(* C07 / Throttle, token invariant (part 1: definitions, sums, generic preservation lemmas).

   Every delegate future d carries exactly one "decrement token" from its creation (delegate.submit) until
   its done-callback _delegate_future_done has decremented the running count.  The token is in one of
   three places: the instruction IAddCb1 d (add_done_callback not yet executed) in some program, the entry
   CbDone in dcbs d (callback registered, future not done), the instruction IAcqA (ADecr d) (callback
   running, decrement not yet performed) in some program.  The running count is at least the number of
   tokens plus the jobs the hand-over thread has committed to (incremented for) but not yet given to the
   delegate; a future that is not done still has its token.

   Threads are a total map nat -> list instr; the sums over threads are taken below a bound N above which
   all programs are empty (InvN N), and the invariant proper is  exists N, InvN N s. *)
From Coq Require Import ZArith List Bool Arith Lia.
From RecordUpdate Require Import RecordSet.
From ME Require Import Base.Machine Base.Fut Base.GenPrelude Gen.ThrottleGen Model.Throttle
  Proofs.Throttle_Spec Proofs.Throttle_Inv.
Import ListNotations RecordSetNotations.
Local Open Scope Z_scope.

(* ---- finite sums over an initial segment of nat --------------------------------------------------- *)
Fixpoint sumT (n : nat) (f : nat -> Z) : Z :=
  match n with O => 0 | S k => sumT k f + f k end.

Lemma sumT_ext n f g : (forall k, (k < n)%nat -> f k = g k) -> sumT n f = sumT n g.
Proof.
  induction n as [|n IH]; intros He; [reflexivity|]. simpl.
  rewrite IH by (intros k Hk; apply He; lia). rewrite (He n) by lia. reflexivity.
Qed.
Lemma sumT_nonneg n f : (forall k, (k < n)%nat -> 0 <= f k) -> 0 <= sumT n f.
Proof.
  induction n as [|n IH]; intros Hp; simpl; [lia|].
  assert (0 <= sumT n f) by (apply IH; intros k Hk; apply Hp; lia).
  assert (0 <= f n) by (apply Hp; lia). lia.
Qed.
(* g differs from f at t only *)
Lemma sumT_change n f g t : (t < n)%nat -> (forall k, k <> t -> g k = f k) ->
  sumT n g = sumT n f - f t + g t.
Proof.
  induction n as [|n IH]; intros Ht He; [lia|]. simpl.
  destruct (Nat.eq_dec t n) as [->|Hne].
  - rewrite (sumT_ext n g f) by (intros k Hk; apply He; lia). lia.
  - rewrite IH by (auto; lia). rewrite (He n) by (intro; apply Hne; auto). lia.
Qed.
Lemma sumT_extend n m f : (n <= m)%nat -> (forall k, (n <= k)%nat -> f k = 0) -> sumT m f = sumT n f.
Proof.
  intros Hle Hz. induction m as [|m IH].
  - assert (n = 0%nat) by lia. subst. reflexivity.
  - destruct (Nat.eq_dec n (S m)) as [->|Hne]; [reflexivity|].
    simpl. rewrite IH by lia. rewrite (Hz m) by lia. lia.
Qed.
(* one more index, f changed at the new index only / counted separately *)
Lemma sumT_S n f : sumT (S n) f = sumT n f + f n.
Proof. reflexivity. Qed.

(* a sum of non-negative terms dominates the number of indices at which the term is positive *)
Lemma filter_count_le n (g : nat -> bool) f :
  (forall d, (d < n)%nat -> 0 <= f d) -> (forall d, (d < n)%nat -> g d = true -> 1 <= f d) ->
  Z.of_nat (length (filter g (seq 0 n))) <= sumT n f.
Proof.
  induction n as [|n IH]; intros Hp Hg; [simpl; lia|].
  rewrite seq_S, filter_app, app_length, Nat2Z.inj_add. simpl.
  assert (I1 : Z.of_nat (length (filter g (seq 0 n))) <= sumT n f).
  { apply IH; intros d Hd; [apply Hp|apply Hg]; lia. }
  assert (I2 : 0 <= f n) by (apply Hp; lia).
  destruct (g n) eqn:E; simpl; [|lia].
  assert (1 <= f n) by (apply Hg; [lia|exact E]). lia.
Qed.

(* ---- additive measures on programs ---------------------------------------------------------------- *)
Fixpoint msum (w : instr -> Z) (p : list instr) : Z :=
  match p with [] => 0 | i :: r => w i + msum w r end.

Definition wA (d : nat) (i : instr) : Z := match i with IAddCb1 d' => if Nat.eqb d' d then 1 else 0 | _ => 0 end.
Definition wP (d : nat) (i : instr) : Z := match i with IAcqA (ADecr d') => if Nat.eqb d' d then 1 else 0 | _ => 0 end.
Definition wT (d : nat) (i : instr) : Z := wA d i + wP d i.
Definition wS (i : instr) : Z := match i with IDSubmit _ => 1 | _ => 0 end.
Definition wQ (i : instr) : Z := match i with IPop => 1 | IAcqA AIncr => -1 | _ => 0 end.

Definition cT (d : nat) (p : list instr) : Z := msum (wT d) p.   (* tokens of d in p *)
Definition cP (d : nat) (p : list instr) : Z := msum (wP d) p.   (* ... of the kind "decrement pending" *)
Definition q1 (p : list instr) : Z := msum wS p.                 (* pending delegate.submit calls *)
Definition q2 (p : list instr) : Z := msum wQ p.                 (* pending popleft minus pending incr *)

(* instructions that carry no weight in any of the measures *)
Definition neutral (i : instr) : bool :=
  match i with IAddCb1 _ | IAcqA _ | IDSubmit _ | IPop => false | _ => true end.
Definition good (w : instr -> Z) : Prop := forall i, neutral i = true -> w i = 0.

Lemma good_wT d : good (wT d). Proof. intros i; destruct i; try discriminate; reflexivity. Qed.
Lemma good_wP d : good (wP d). Proof. intros i; destruct i; try discriminate; reflexivity. Qed.
Lemma good_wS : good wS. Proof. intros i; destruct i; try discriminate; reflexivity. Qed.
Lemma good_wQ : good wQ. Proof. intros i; destruct i; try discriminate; reflexivity. Qed.

Lemma msum_app w p q : msum w (p ++ q) = msum w p + msum w q.
Proof. induction p as [|i r IH]; simpl; [reflexivity|]. rewrite IH. lia. Qed.
Lemma msum_norm w s p :
  w ILoop = 0 -> w IRelXH = 0 -> w (IRcRead RLoop) = 0 -> w IPop + w (IAcqA AIncr) + w IRelA = 0 ->
  msum w (norm s p) = msum w p.
Proof.
  intros H1 H2 H3 H4. destruct p as [|i r]; [reflexivity|]. destruct i; try reflexivity.
  unfold norm. destruct (qu s); [simpl; lia|]. destruct (hlim s); simpl; lia.
Qed.
Lemma cT_norm d s p : cT d (norm s p) = cT d p. Proof. apply msum_norm; reflexivity. Qed.
Lemma cP_norm d s p : cP d (norm s p) = cP d p. Proof. apply msum_norm; reflexivity. Qed.
Lemma q1_norm s p : q1 (norm s p) = q1 p. Proof. apply msum_norm; reflexivity. Qed.
Lemma q2_norm s p : q2 (norm s p) = q2 p. Proof. apply msum_norm; reflexivity. Qed.

Lemma wT_nonneg d i : 0 <= wT d i.
Proof. unfold wT. destruct i; simpl; try lia; try (destruct (Nat.eqb _ _); lia). destruct k; [lia|]. destruct (Nat.eqb _ _); lia. Qed.
Lemma wP_nonneg d i : 0 <= wP d i.
Proof. destruct i; simpl; try lia. destruct k; [lia|]. destruct (Nat.eqb _ _); lia. Qed.
Lemma wS_nonneg i : 0 <= wS i.
Proof. destruct i; simpl; lia. Qed.
Lemma msum_nonneg w p : (forall i, 0 <= w i) -> 0 <= msum w p.
Proof. intros Hw. induction p as [|i r IH]; simpl; [lia|]. specialize (Hw i). lia. Qed.
Lemma cT_nonneg d p : 0 <= cT d p. Proof. apply msum_nonneg, wT_nonneg. Qed.
Lemma cP_nonneg d p : 0 <= cP d p. Proof. apply msum_nonneg, wP_nonneg. Qed.
Lemma q1_nonneg p : 0 <= q1 p. Proof. apply msum_nonneg, wS_nonneg. Qed.
Lemma cP_le_cT d p : cP d p <= cT d p.
Proof.
  unfold cP, cT. induction p as [|i r IH]; simpl; [lia|]. unfold wT at 1.
  assert (0 <= wA d i) by (destruct i; simpl; try lia; destruct (Nat.eqb _ _); lia). lia.
Qed.

(* registered done-callbacks of the kind _delegate_future_done *)
Definition cbw (c : cbk) : Z := match c with CbDone => 1 | CbRes _ => 0 end.
Fixpoint cb (l : list cbk) : Z := match l with [] => 0 | c :: r => cbw c + cb r end.
Lemma cb_app l m : cb (l ++ m) = cb l + cb m.
Proof. induction l as [|c r IH]; simpl; [reflexivity|]. rewrite IH. lia. Qed.
Lemma cb_nonneg l : 0 <= cb l.
Proof. induction l as [|c r IH]; cbn [cb]; [lia|]. destruct c; cbn [cbw]; lia. Qed.

Lemma msum_cb_prog w d l : good w -> msum w (flat_map (cb_prog d) l) = w (IAcqA (ADecr d)) * cb l.
Proof.
  intros Hg. induction l as [|c l IH]; [cbn [flat_map msum cb]; ring|]. cbn [flat_map]. rewrite msum_app, IH.
  destruct c; cbn [cb_prog cb_prog_held resolved_prog msum cb cbw].
  - rewrite (Hg IRelA eq_refl), (Hg IEvSet eq_refl). ring.
  - rewrite (Hg (IAcqMSet j None) eq_refl), (Hg (IRelM j) eq_refl), (Hg (IDCancelledQ j d) eq_refl). ring.
Qed.
Lemma msum_cb_prog_held w d l : good w -> msum w (flat_map (cb_prog_held d) l) = w (IAcqA (ADecr d)) * cb l.
Proof.
  intros Hg. induction l as [|c l IH]; [cbn [flat_map msum cb]; ring|]. cbn [flat_map]. rewrite msum_app, IH.
  destruct c; cbn [cb_prog cb_prog_held resolved_prog msum cb cbw].
  - rewrite (Hg IRelA eq_refl), (Hg IEvSet eq_refl). ring.
  - rewrite (Hg (IDCancelledQ j d) eq_refl). ring.
Qed.
Lemma msum_setres w j o : good w -> msum w (setres_prog j o) = 0.
Proof.
  intros Hg. destruct o; simpl;
    rewrite ?(Hg (IAcqM j) eq_refl), ?(Hg (IRelM j) eq_refl), ?(Hg (IRelMCbs j) eq_refl), ?(Hg (IDoneQ j) eq_refl),
            ?(Hg (IFSet j _) eq_refl); lia.
Qed.
Lemma msum_map_dsubmit_T d l : cT d (map IDSubmit l) = 0.
Proof. induction l as [|j l IH]; [reflexivity|]. unfold cT in *. simpl. rewrite IH. reflexivity. Qed.
Lemma msum_map_dsubmit_P d l : cP d (map IDSubmit l) = 0.
Proof. induction l as [|j l IH]; [reflexivity|]. unfold cP in *. simpl. rewrite IH. reflexivity. Qed.
Lemma q1_map_dsubmit l : q1 (map IDSubmit l) = Z.of_nat (length l).
Proof. induction l as [|j l IH]; [reflexivity|]. unfold q1 in *. cbn [map msum wS length]. rewrite IH, Nat2Z.inj_succ. lia. Qed.
Lemma q2_map_dsubmit l : q2 (map IDSubmit l) = 0.
Proof. induction l as [|j l IH]; [reflexivity|]. unfold q2 in *. simpl. rewrite IH. reflexivity. Qed.

(* a clean program (no pending popleft / incr, Throttle_Inv) has q2 = 0 *)
Lemma clean_q2 p : clean p = true -> q2 p = 0.
Proof.
  induction p as [|i r IH]; [reflexivity|]. simpl. intros Hc. apply andb_prop in Hc. destruct Hc as [Hi Hr].
  unfold q2 in *. simpl. rewrite (IH Hr). destruct i; simpl in *; try discriminate; try lia. destruct k; [discriminate|lia].
Qed.

(* the two programs agree on every measure: they differ by neutral instructions only *)
Definition same_meas (p q : list instr) : Prop := forall w, good w -> msum w p = msum w q.

(* ---- the invariant ---------------------------------------------------------------------------------- *)
(* tokens of delegate future d, programs of the threads below N and the callback list *)
Definition tokN (N : nat) (s : st) (d : nat) : Z := sumT N (fun t => cT d (thr s t)) + cb (dcbs s d).
(* jobs the hand-over thread has incremented for and not yet handed to delegate.submit *)
Definition Q (s : st) : Z :=
  q1 (thr s H) + (if owned (xown s) H then Z.max 0 (Z.of_nat (length (hadm s)) + q2 (thr s H)) else 0).

Record InvN (N : nat) (s : st) : Prop := {
  n_sup : forall t, (N <= t)%nat -> thr s t = [];
  n_run : Q s + sumT (ndel s) (tokN N s) <= running s;
  n_live : forall d, (d < ndel s)%nat -> fdone (ds s d) = false -> 1 <= tokN N s d;
  n_done : forall t d, 0 < cP d (thr s t) -> fdone (ds s d) = true;
  n_fresh : forall d, (ndel s <= d)%nat -> cb (dcbs s d) = 0 /\ forall t, cT d (thr s t) = 0
}.
Definition InvK (s : st) : Prop := exists N, InvN N s.

Lemma Q_nonneg s : 0 <= Q s.
Proof. unfold Q. pose proof (q1_nonneg (thr s H)) as P1. destruct (owned (xown s) H); lia. Qed.
Lemma tokN_nonneg N s d : 0 <= tokN N s d.
Proof.
  unfold tokN. pose proof (cb_nonneg (dcbs s d)) as P1.
  assert (P2 : 0 <= sumT N (fun t => cT d (thr s t))) by (apply sumT_nonneg; intros; apply cT_nonneg). lia.
Qed.

Lemma tokN_mono N N' s d : (forall t, (N <= t)%nat -> thr s t = []) -> (N <= N')%nat -> tokN N' s d = tokN N s d.
Proof.
  intros Hs Hle. unfold tokN. f_equal. apply sumT_extend; [exact Hle|]. intros k Hk. rewrite (Hs k Hk). reflexivity.
Qed.
Lemma invN_mono N N' s : InvN N s -> (N <= N')%nat -> InvN N' s.
Proof.
  intros [S1 R1 L1 D1 F1] Hle. constructor; auto.
  - intros t Ht. apply S1. lia.
  - rewrite (sumT_ext _ (tokN N' s) (tokN N s)) by (intros; apply tokN_mono; auto). exact R1.
  - intros d Hd Hn. rewrite (tokN_mono N N') by auto. auto.
Qed.

Lemma Q_eq s s' : xown s' = xown s -> hadm s' = hadm s -> q1 (thr s' H) = q1 (thr s H) -> q2 (thr s' H) = q2 (thr s H) ->
  Q s' = Q s.
Proof. intros E1 E2 E3 E4. unfold Q. rewrite E1, E2, E3, E4. reflexivity. Qed.

(* thread t < N replaces its program by p'; tokens are conserved for every d, the committed jobs change
   by no more than the running count, done futures stay done *)
Lemma invN_step N s s' t p' :
  InvN N s -> (t < N)%nat ->
  (forall u, thr s' u = upd (thr s) t p' u) ->
  ndel s' = ndel s ->
  Q s' - Q s <= running s' - running s ->
  (forall d, fdone (ds s d) = true -> fdone (ds s' d) = true) ->
  (forall d, cT d p' + cb (dcbs s' d) = cT d (thr s t) + cb (dcbs s d)) ->
  (forall d, 0 < cP d p' -> 0 < cP d (thr s t) \/ fdone (ds s' d) = true) ->
  InvN N s'.
Proof.
  intros [S1 R1 L1 D1 F1] Ht Hthr Hn HQ Hds Htok HP.
  assert (Etok : forall d, tokN N s' d = tokN N s d).
  { intro d. unfold tokN.
    rewrite (sumT_change N (fun u => cT d (thr s u)) (fun u => cT d (thr s' u)) t Ht).
    - cbn beta. rewrite Hthr, upd_same. specialize (Htok d). lia.
    - intros k Hk. cbn beta. rewrite Hthr, upd_other by exact Hk. reflexivity. }
  constructor.
  - intros u Hu. rewrite Hthr, upd_other by lia. apply S1; exact Hu.
  - rewrite Hn. rewrite (sumT_ext _ (tokN N s') (tokN N s)) by (intros; apply Etok). lia.
  - intros d Hd Hnd. rewrite Etok. rewrite Hn in Hd. apply L1; [exact Hd|].
    destruct (fdone (ds s d)) eqn:E; [rewrite (Hds d E) in Hnd; discriminate|reflexivity].
  - intros u d Hp. rewrite Hthr in Hp. destruct (Nat.eq_dec u t) as [->|Hne].
    + rewrite upd_same in Hp. destruct (HP d Hp) as [Hx|Hx]; [apply Hds; eapply D1; exact Hx|exact Hx].
    + rewrite upd_other in Hp by exact Hne. apply Hds. eapply D1; exact Hp.
  - intros d Hd. rewrite Hn in Hd. destruct (F1 d Hd) as [Fa Fb].
    pose proof (Htok d) as Hk. rewrite Fa, (Fb t) in Hk.
    pose proof (cT_nonneg d p') as P1. pose proof (cb_nonneg (dcbs s' d)) as P2. split; [lia|].
    intros u. rewrite Hthr. destruct (Nat.eq_dec u t) as [->|Hne]; [rewrite upd_same; lia|].
    rewrite upd_other by exact Hne. apply Fb.
Qed.

Lemma invN_log N s h : InvN N s -> InvN N (log s h).
Proof. intros [S1 R1 L1 D1 F1]. constructor; auto. Qed.

(* replacing thread t's program in a state s1 that differs from s outside thr, ndel, running, xown, hadm;
   callbacks and done futures may grow *)
Lemma invN_set_m N s s1 t p :
  InvN N s -> (t < N)%nat ->
  thr s1 = thr s -> ndel s1 = ndel s -> running s1 = running s -> xown s1 = xown s -> hadm s1 = hadm s ->
  (forall d, fdone (ds s d) = true -> fdone (ds s1 d) = true) ->
  (forall d, cb (dcbs s1 d) = cb (dcbs s d)) ->
  (forall d, cT d p = cT d (thr s t)) -> (forall d, cP d p = cP d (thr s t)) ->
  q1 p = q1 (thr s t) -> q2 p = q2 (thr s t) ->
  InvN N (set_prog s1 t p).
Proof.
  intros I Ht E1 E2 E3 E4 E5 Hds Hcb HT HP H1 H2.
  apply (invN_step N s _ t (norm s1 p)); auto.
  - intros u. unfold set_prog. simpl. rewrite E1. reflexivity.
  - assert (EQ : Q (set_prog s1 t p) = Q s).
    { apply Q_eq; auto; unfold set_prog; simpl; rewrite E1;
        (destruct (Nat.eq_dec t H) as [->|Hne]; [rewrite upd_same|rewrite upd_other by (intro; apply Hne; auto); reflexivity]).
      - rewrite q1_norm. exact H1.
      - rewrite q2_norm. exact H2. }
    rewrite EQ. unfold set_prog. simpl. lia.
  - intros d. rewrite cT_norm. unfold set_prog. simpl. rewrite HT, Hcb. reflexivity.
  - intros d Hp. rewrite cP_norm, HP in Hp. left. exact Hp.
Qed.

Lemma invN_set N s s1 t p :
  InvN N s -> (t < N)%nat ->
  thr s1 = thr s -> ndel s1 = ndel s -> running s1 = running s -> xown s1 = xown s -> hadm s1 = hadm s ->
  (forall d, fdone (ds s d) = true -> fdone (ds s1 d) = true) ->
  (forall d, cb (dcbs s1 d) = cb (dcbs s d)) ->
  same_meas p (thr s t) ->
  InvN N (set_prog s1 t p).
Proof.
  intros I Ht E1 E2 E3 E4 E5 Hds Hcb Hm.
  apply (invN_set_m N s); auto; intros; unfold cT, cP, q1, q2; apply Hm;
    [apply good_wT|apply good_wP|apply good_wS|apply good_wQ].
Qed.

Lemma same_meas_app pre p q : same_meas pre [] -> same_meas p q -> same_meas (pre ++ p) q.
Proof. intros H1 H2 w Hg. rewrite msum_app, (H1 w Hg), (H2 w Hg). reflexivity. Qed.

Lemma invN_sub_check N s s1 t v rest :
  InvN N s -> (t < N)%nat ->
  thr s1 = thr s -> ndel s1 = ndel s -> running s1 = running s -> xown s1 = xown s -> hadm s1 = hadm s ->
  (forall d, fdone (ds s d) = true -> fdone (ds s1 d) = true) ->
  (forall d, cb (dcbs s1 d) = cb (dcbs s d)) ->
  same_meas rest (thr s t) ->
  InvN N (sub_check s1 t v rest).
Proof.
  intros I Ht E1 E2 E3 E4 E5 Hds Hcb Hm. unfold sub_check.
  assert (Hn : forall pre, forallb neutral pre = true -> same_meas (pre ++ rest) (thr s t)).
  { intros pre Hp. apply same_meas_app; [|exact Hm]. intros w Hg. clear -Hp Hg.
    induction pre as [|i r IH]; [reflexivity|]. simpl in Hp. apply andb_prop in Hp. destruct Hp as [A B].
    simpl. rewrite (Hg i A), (IH B). reflexivity. }
  destruct (blk s1 && negb (shut s1)).
  - destruct (block_ready (qlen s1) v) as [[|]|]; apply invN_log; apply (invN_set N s); auto;
      first [ apply (Hn enq_prog); reflexivity | apply (Hn [IWait 30 (WSub v)]); reflexivity
            | apply (Hn [IRelG; IRetRaise]); reflexivity ].
  - apply (invN_set N s); auto; apply (Hn enq_prog); reflexivity.
Qed.

Lemma invN_after_wait N s s1 t k rest :
  InvN N s -> (t < N)%nat ->
  thr s1 = thr s -> ndel s1 = ndel s -> running s1 = running s -> xown s1 = xown s -> hadm s1 = hadm s ->
  (forall d, fdone (ds s d) = true -> fdone (ds s1 d) = true) ->
  (forall d, cb (dcbs s1 d) = cb (dcbs s d)) ->
  same_meas rest (thr s t) ->
  InvN N (after_wait s1 t k rest).
Proof.
  intros I Ht E1 E2 E3 E4 E5 Hds Hcb Hm. destruct k; simpl.
  - apply (invN_set N s); auto. intros w Hg. simpl. rewrite (Hg IClear eq_refl), (Hm w Hg). reflexivity.
  - apply (invN_sub_check N s); auto.
Qed.

Lemma invN_start_iter N s s1 t :
  InvN N s -> (t < N)%nat ->
  thr s1 = thr s -> ndel s1 = ndel s -> running s1 = running s -> xown s1 = xown s -> hadm s1 = hadm s ->
  (forall d, fdone (ds s d) = true -> fdone (ds s1 d) = true) ->
  (forall d, cb (dcbs s1 d) = cb (dcbs s d)) ->
  same_meas [] (thr s t) ->
  InvN N (start_iter s1 t).
Proof.
  intros I Ht E1 E2 E3 E4 E5 Hds Hcb Hm. unfold start_iter.
  destruct (shut s1); [|destruct (dyn s1)]; apply (invN_set N s); auto;
    intros w Hg; rewrite <- (Hm w Hg); simpl;
    rewrite ?(Hg IExit eq_refl), ?(Hg (ICount CH) eq_refl), ?(Hg IXAcqH eq_refl); reflexivity.
Qed.

(* ---- tactics ---------------------------------------------------------------------------------------- *)
(* same_meas (pre ++ rest) (thr s t) where thr s t = i :: rest is among the hypotheses, pre and i neutral *)
Ltac kill_w w Hg :=
  repeat match goal with
         | |- context [w ?i] => rewrite (Hg i eq_refl)
         end.
Ltac sm_goal :=
  let w := fresh "w" in let Hg := fresh "Hg" in
  intros w Hg;
  match goal with Et : thr _ _ = _ |- _ => rewrite Et end;
  rewrite ?msum_app, ?(msum_setres w _ _ Hg);
  cbn [msum app];
  rewrite ?msum_app, ?(msum_setres w _ _ Hg);
  cbn [msum app];
  kill_w w Hg; lia.

Ltac kside I :=
  first [ exact I
        | assumption
        | reflexivity
        | solve [intros; assumption]
        | solve [intros; reflexivity]
        | sm_goal ].

Ltac kfin I N s :=
  repeat apply invN_log;
  first [ apply (invN_set N s) | apply (invN_sub_check N s) | apply (invN_after_wait N s) ]; kside I.

Ltac khandler I Hx N s := brk Hx; inv_some Hx; kfin I N s.
