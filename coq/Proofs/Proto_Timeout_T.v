(* C02 / Timeout, part T: the Future-protocol clauses (a) terminal once, (b) cancel(), (c) notified, of the futures
   returned by the TimeoutExecutor, in the machine's own vocabulary. *)
From Coq Require Import ZArith List Bool Arith Lia.
From RecordUpdate Require Import RecordSet.
From ME Require Import Base.Machine Base.Fut Base.GenPrelude Gen.TimeoutGen Proofs.Timeout_Spec Model.Timeout
  Proofs.Timeout_Inv Proofs.Keep_Timeout Proofs.Proto_Gen
  Proofs.Proto_Timeout_P Proofs.Proto_Timeout_P1 Proofs.Proto_Timeout_P2 Proofs.Proto_Timeout_P3 Proofs.Proto_Timeout_V.
Import ListNotations RecordSetNotations.


(* ---- (a) terminal once ------------------------------------------------------------------------------------ *)
Lemma timeout_stable s : reachable s -> forall es s', run step s es = Some s' -> forall j, fdone (rs s j) = true ->
  frefines (rs s j) (rs s' j) /\ rout s' j = rout s j.
Proof.
  intros Hr es s' Hrun j Hd.
  destruct (sys_stable outcome step init view_of view_init step_vstep es s s' Hr Hrun j Hd) as [A [B _]]. auto.
Qed.
Lemma timeout_outcome_iff s : reachable s -> forall j,
  (rs s j = Finished <-> exists o, rout s j = Some o) /\ (fcancelled (rs s j) = true -> rout s j = None) /\
  (nfut s <= j -> rs s j = Pending /\ rout s j = None).
Proof.
  intros Hr j. pose proof (timeout_vinv s Hr) as I. split; [split|split].
  - intros Hf. destruct (vi_fin _ _ I j Hf) as [o [A _]]. exists o. exact A.
  - intros [o Ho]. exact (vi_out _ _ I j o Ho).
  - intros Hc. destruct (rout s j) as [o|] eqn:E; [|reflexivity]. pose proof (vi_out _ _ I j o E) as Hf. simpl in Hf.
    rewrite Hf in Hc. discriminate.
  - exact (vi_fresh _ _ I j).
Qed.

Lemma timeout_final_once s : reachable s -> forall l1 j o ts l2, hist s = l1 ++ HSet j o ts :: l2 ->
  (forall o' ts', ~ In (HSet j o' ts') l1) /\ (forall o' ts', ~ In (HSet j o' ts') l2) /\
  (forall ts', ~ In (HCancelled j ts') l1) /\ (forall ts', ~ In (HCancelled j ts') l2) /\
  (forall ts', ~ In (HCancelRet j true ts') l1) /\ (forall ts', ~ In (HCancelRet j true ts') l2) /\
  rs s j = Finished /\ rout s j = Some o.
Proof.
  intros Hr l1 j o ts l2 E. pose proof (timeout_vinv s Hr) as I.
  assert (E' : vh (view_of s) = pmap pe l1 ++ PSet j o :: pmap pe l2) by (simpl; rewrite E, pmap_app; reflexivity).
  destruct (vinv_set_once _ _ I _ _ _ _ E') as [A1 [A2 [A3 [A4 [A5 [A6 [A7 A8]]]]]]].
  repeat split; auto; intros; intro Hin.
  - eapply A1. eapply in_pmap; [exact Hin|reflexivity].
  - eapply A2. eapply in_pmap; [exact Hin|reflexivity].
  - eapply A3. eapply in_pmap; [exact Hin|reflexivity].
  - eapply A4. eapply in_pmap; [exact Hin|reflexivity].
  - eapply A5. eapply in_pmap; [exact Hin|reflexivity].
  - eapply A6. eapply in_pmap; [exact Hin|reflexivity].
Qed.

(* the state of a done future is justified by the history *)
Lemma timeout_done_justified s : reachable s -> forall j,
  (rs s j = Finished -> exists o ts, rout s j = Some o /\ In (HSet j o ts) (hist s)) /\
  (fcancelled (rs s j) = true -> exists ts, In (HCancelled j ts) (hist s)).
Proof.
  intros Hr j. pose proof (timeout_vinv s Hr) as I. split.
  - intros Hf. destruct (vi_fin _ _ I j Hf) as [o [A B]]. simpl in B. destruct (in_pmap_inv _ _ _ B) as [h [Hin Hp]].
    destruct h; simpl in Hp; inversion Hp; subst. eauto.
  - intros Hc. pose proof (vi_canc _ _ I j Hc) as B. simpl in B. destruct (in_pmap_inv _ _ _ B) as [h [Hin Hp]].
    destruct h; simpl in Hp; inversion Hp; subst. eauto.
Qed.

(* ---- (b) cancel() ---------------------------------------------------------------------------------------- *)
Lemma timeout_cancel_true_stays s : reachable s -> forall j ts, In (HCancelRet j true ts) (hist s) ->
  fcancelled (rs s j) = true /\ rout s j = None /\
  forall es s', run step s es = Some s' -> fcancelled (rs s' j) = true /\ rout s' j = None.
Proof.
  intros Hr j ts Hin. pose proof (timeout_vinv s Hr) as I.
  assert (Hc : fcancelled (rs s j) = true).
  { apply (vi_hret _ _ I j). simpl. eapply in_pmap; [exact Hin|reflexivity]. }
  destruct (timeout_outcome_iff s Hr j) as [_ [Ho _]]. split; [exact Hc|]. split; [auto|].
  intros es s' Hrun. assert (Hd : fdone (rs s j) = true) by (destruct (rs s j); simpl in *; congruence).
  destruct (timeout_stable s Hr es s' Hrun j Hd) as [A B]. rewrite <- (frefines_cancelled _ _ A), B. auto.
Qed.
Lemma timeout_cancel_false_on_finished s : reachable s -> forall l1 j b ts l2, hist s = l1 ++ HCancelRet j b ts :: l2 ->
  (exists o ts', In (HSet j o ts') l2) -> b = false.
Proof.
  intros Hr l1 j b ts l2 E [o [ts' Hin]]. pose proof (timeout_vinv s Hr) as I.
  assert (E' : vh (view_of s) = pmap pe l1 ++ PCancelRet j b :: pmap pe l2) by (simpl; rewrite E, pmap_app; reflexivity).
  apply (vinv_ret_after_set _ _ I _ _ _ _ E'). exists o. eapply in_pmap; [exact Hin|reflexivity].
Qed.
Lemma timeout_no_outcome_after_true s : reachable s -> forall l1 j ts l2, hist s = l1 ++ HCancelRet j true ts :: l2 ->
  forall o ts', ~ In (HSet j o ts') l1.
Proof.
  intros Hr l1 j ts l2 E o ts' Hin. pose proof (timeout_vinv s Hr) as I.
  assert (E' : vh (view_of s) = pmap pe l1 ++ PCancelRet j true :: pmap pe l2) by (simpl; rewrite E, pmap_app; reflexivity).
  apply (vinv_no_set_after_true _ _ I _ _ _ E' o). eapply in_pmap; [exact Hin|reflexivity].
Qed.

(* the program of a thread inside cancel(): cancel-body instructions, closed by the instruction that returns the bool *)
Lemma cprog_spec j p : cprog j p = true -> exists body c, p = body ++ [c] /\ forallb cbody body = true /\ closer j c = true.
Proof.
  induction p as [|i r IH]; [discriminate|]. intros Hc. destruct (cprog_head _ _ _ Hc) as [[-> Hx]|[Hb Hr]].
  - exists [], i. auto.
  - destruct (IH Hr) as [body [c [-> [A B]]]]. exists (i :: body), c. simpl. rewrite Hb, A. auto.
Qed.
(* Model/Timeout.v has no raising instruction at all; a cancel program moreover contains no plain return, no gate /
   jobs-lock operation, no wait: only lock operations on the futures' locks, stdlib calls on the two futures,
   event.set() and user callbacks (cbody), and the one closing instruction *)
Lemma timeout_cancel_never_raises s : reachable s -> forall t j, cancelling s t = Some j ->
  j < nfut s /\ t <> jt /\
  (exists body c, thr s t = body ++ [c] /\ forallb cbody body = true /\ closer j c = true) /\
  (forall i, In i (thr s t) -> cbody i = true \/ closer j i = true).
Proof.
  intros Hr t j Hc. pose proof (invP_reachable s Hr) as IP. split; [exact (p_cn _ IP _ _ Hc)|].
  pose proof (p_wf _ IP t) as Hw. rewrite Hc in Hw. destruct (wfp_split _ _ _ _ Hw) as [_ [_ A3]].
  apply andb_prop in A3. destruct A3 as [A3 A4]. apply negb_true_iff, Nat.eqb_neq in A3. split; [exact A3|].
  destruct (cprog_spec _ _ A4) as [body [c [E [A B]]]]. split; [exists body, c; auto|].
  rewrite E. intros i Hin. apply in_app_or in Hin. destruct Hin as [Hin|[Hx|[]]].
  - left. rewrite forallb_forall in A. exact (A _ Hin).
  - subst c. right. exact B.
Qed.
(* the API return of a thread inside cancel() is a bool, and it is the recorded one *)
Lemma timeout_cancel_returns_bool s ts t c s' : reachable s -> step s (ts, ERet t c) = Some s' ->
  forall j, cancelling s t = Some j ->
  (c = 1 \/ c = 2) /\ hist s' = HCancelRet j (Nat.eqb c 2) ts :: hist s /\ cancelling s' t = None.
Proof.
  intros Hr Hx j Hc. pose proof (invP_reachable s Hr) as IP.
  pose proof (p_wf _ IP t) as Hw. rewrite Hc in Hw. destruct (wfp_split _ _ _ _ Hw) as [_ [_ A3]].
  apply andb_prop in A3. destruct A3 as [_ A3].
  apply step_split in Hx. destruct Hx as [_ Hx]. simpl in Hx. rewrite Hc in Hx.
  destruct (thr s t) as [|i rest] eqn:Et; [discriminate|].
  destruct (cprog_head _ _ _ A3) as [[-> Hcl]|[Hb _]].
  - destruct i; try discriminate. destruct b.
    + destruct (Nat.eqb c 2) eqn:E; [|discriminate]. apply Nat.eqb_eq in E. subst. inv_some Hx. simpl.
      rewrite upd_same. auto.
    + destruct (Nat.eqb c 1) eqn:E; [|discriminate]. apply Nat.eqb_eq in E. subst. inv_some Hx. simpl.
      rewrite upd_same. auto.
  - destruct i; simpl in Hb; discriminate.
Qed.

(* ---- (c) a cancelled future is notified ------------------------------------------------------------------- *)
Lemma timeout_cancelled_notified s : reachable s -> forall j, rs s j = Cancelled -> exists t, In (IFSrnc j) (thr s t).
Proof.
  intros Hr j Hj. destruct (p_notif _ (invP_reachable s Hr) j Hj) as [t Ht]. exists t. apply has_srnc_in. exact Ht.
Qed.
(* at rest (Proofs/Keep_Timeout.v: every client thread idle, the job thread blocked in event.wait()) *)
Lemma timeout_at_rest_notified s : reachable s -> timeout_parked s -> forall j, rs s j <> Cancelled.
Proof.
  intros Hr Hp j Hj. destruct (parked_shape s Hr Hp) as [Hi Hh]. destruct (timeout_cancelled_notified s Hr j Hj) as [t Hin].
  destruct (Nat.eq_dec t jt) as [->|Hne]; [rewrite Hh in Hin|rewrite (Hi t Hne) in Hin]; simpl in Hin; intuition discriminate.
Qed.

(* ---- witnesses --------------------------------------------------------------------------------------------- *)
Definition pevs (w : list (list Z)) : list (Z * ev) := match decode_all w with Some es => es | None => [] end.
Local Open Scope Z_scope.

(* thread 1: submit_timeout, delegate future d = returned future d, timeout 100 *)
Definition w_sub (d : Z) : list (list Z) :=
  [[0; 0; 1; 100]; [0; 13; 1]; [0; 15; 1; d; 0; 0; 0]; [0; 8; 1; d]; [0; 9; 1; d]; [0; 11; 1; 5; d; 0]; [0; 8; 1; d];
   [0; 10; 1; 1; d; 0]; [0; 9; 1; d]; [0; 24; 1; 0]; [0; 3; 1]; [0; 6; 1]; [0; 14; 1]; [0; 7; 1; 0]].
(* thread t: add_done_callback(c) on the pending future j *)
Definition w_addcb (t j c : Z) : list (list Z) :=
  [[0; 2; t; j; c]; [0; 8; t; j]; [0; 10; t; 1; j; 0]; [0; 9; t; j]; [0; 7; t; 0]].
(* the job thread finds no job and blocks in event.wait() *)
Definition w_park : list (list Z) := [[0; 4; 0]; [0; 24; 0; 0]; [0; 5; 0]; [0; 16; 1; 0; 0]].
(* three submissions, callback 5 on future 0, callback 6 on future 1; thread 2 calls cancel() on future 1: the delegate
   accepts the cancel, _delegate_resolved runs inline, super().cancel() has just been done *)
Definition proto_prefix : list (list Z) :=
  w_park ++ w_sub 0 ++ w_sub 1 ++ w_sub 2 ++ w_addcb 1 0 5 ++ w_addcb 1 1 6 ++
  [[0; 1; 2; 1]; [0; 8; 2; 1]; [0; 10; 2; 0; 1; 0]; [0; 10; 2; 1; 1; 0]; [0; 11; 2; 2; 1; 0]; [0; 11; 2; 0; 1; 2];
   [0; 10; 2; 2; 1; 0]].
(* notification, the callbacks of future 1 (wake-up, user callback 6), return True *)
Definition proto_cancel_rest : list (list Z) := [[0; 10; 2; 3; 1; 2]; [0; 9; 2; 1]; [0; 6; 2]; [0; 12; 2; 1; 6; 0]; [0; 7; 2; 2]].
(* thread 3 completes delegate future 0 with value 7: _delegate_resolved copies it, the callbacks of future 0 run *)
Definition proto_finish : list (list Z) :=
  [[0; 21; 3; 0; 0; 0; 7]; [0; 8; 3; 0]; [0; 9; 3; 0]; [0; 11; 3; 0; 0; 4]; [0; 8; 3; 0]; [0; 10; 3; 4; 0; 0]; [0; 9; 3; 0];
   [0; 6; 3]; [0; 12; 3; 0; 5; 0]].
Definition proto_trace : list (list Z) := proto_prefix ++ proto_cancel_rest ++ proto_finish.

Lemma parked_upto4 s : thr s 1%nat = [] -> thr s 2%nat = [] -> thr s 3%nat = [] -> (forall t, (4 <= t)%nat -> thr s t = []) ->
  thr s jt = [IWWoke] -> timeout_parked s.
Proof.
  intros H1 H2 H3 H4 Hj. split; [|exists []; exact Hj]. intros t Ht.
  destruct t as [|[|[|[|t]]]]; [contradiction Ht; reflexivity|assumption|assumption|assumption|apply H4; lia].
Qed.

(* one finished, one cancelled (and notified), one pending future, at rest; cancel() of the cancelled one returned True;
   the user callbacks 5 (future 0) and 6 (future 1) ran *)
Lemma proto_rest_example :
  exists s, reachable s /\ timeout_parked s /\
            rs s 0 = Finished /\ rout s 0 = Some (Ok 7) /\ rs s 1 = CancelledNotified /\ rout s 1 = None /\
            rs s 2 = Pending /\ nfut s = 3%nat /\ rcbs s 0 = [] /\ rcbs s 1 = [] /\ rcbs s 2 = [CbWake] /\
            hist s = HCb 0 5 0 :: HSet 0 (Ok 7) 0 :: HEnvDone 0 (Ok 7) 0 :: HCancelRet 1 true 0 :: HCb 1 6 0 :: HCancelled 1 0 ::
                     HDCancel 1 1 true 0 :: HCancelCall 1 0 :: skipn 8 (hist s).
Proof.
  eexists. split; [exists (pevs proto_trace); vm_compute; reflexivity|].
  split; [apply parked_upto4; try reflexivity; intros t Ht; do 4 (destruct t as [|t]; [lia|]); reflexivity|].
  repeat split; reflexivity.
Qed.

(* the literal "the state of a done future never changes" is false: CANCELLED becomes CANCELLED_AND_NOTIFIED *)
Lemma proto_state_frozen_refuted :
  exists s e s' j, reachable s /\ step s e = Some s' /\ fdone (rs s j) = true /\ rs s j = Cancelled /\ rs s' j = CancelledNotified.
Proof.
  destruct (run step init (pevs proto_prefix)) as [s|] eqn:E; [|vm_compute in E; discriminate].
  exists s, (0, EFR 2 3 1 Cancelled). assert (Hs : run step init (pevs proto_prefix) = Some s) by exact E.
  vm_compute in E. inversion E; subst. eexists. exists 1%nat.
  split; [exists (pevs proto_prefix); vm_compute; reflexivity|].
  split; [vm_compute; reflexivity|]. repeat split; reflexivity.
Qed.

(* a thread inside cancel(): thread 2 between `super().cancel()` and `set_running_or_notify_cancel()` *)
Lemma proto_cancel_example :
  exists s, reachable s /\ cancelling s 2 = Some 1%nat /\ thr s 2 = [IFSrnc 1; IRelMCbs 1; IRetB true] /\ rs s 1 = Cancelled /\
            rcbs s 1 = [CbWake; CbUser 6].
Proof.
  eexists. split; [exists (pevs proto_prefix); vm_compute; reflexivity|]. repeat split; reflexivity.
Qed.
