(* C03 for the Retry machine, part 8: concrete accepted traces (non-vacuity, the refutation of the literal
   timing clause, the only way a delegate future gets cancelled in this machine). *)
From Coq Require Import List ZArith Bool Arith Lia.
From ME Require Import Base.Machine Base.Fut Base.GenPrelude Gen.RetryGen Model.Retry Proofs.Retry_N0 Proofs.Retry_N1 Proofs.Retry_N6 Proofs.Retry_N7.
Import ListNotations.
Local Open Scope Z_scope.

(* client / environment thread 1: submit() *)
Definition ex_submit (ts : Z) : list (Z * ev) :=
  [(ts, ECallSubmit 1); (ts, EXSec 1 ts); (ts, EEvSet 1); (ts, ERet 1 0)].
(* the worker takes the due record of future j and submits delegate future d *)
Definition ex_wsubmit (ts : Z) (j d : nat) : list (Z * ev) :=
  [(ts, EXSec 0 ts); (ts, EAcqM 0 j); (ts, EXAcq 0); (ts, EFR 0 1 j Pending); (ts, EDSubmit 0 d None);
   (ts, EXRel 0); (ts, ERelM 0 j); (ts, EFD 0 5 d Pending); (ts, EEvSet 0)].
(* the worker scans, finds nothing to do, wait() returns at once (flag set), clear() *)
Definition ex_wclear (ts : Z) : list (Z * ev) := [(ts, EXSec 0 ts); (ts, EWWait 0); (ts, EWClear)].

(* three futures: 0 finishes (Ok 7) on the first attempt; 1 stays in flight; 2 fails, the policy grants a retry
   after 10 (at time 4: due 14); the worker scans at 5 (timeout 14 - 5 = 9) and parks at 6 *)
Definition ex3_trace : list (Z * ev) :=
  ex_submit 0 ++ ex_wsubmit 0 0 0 ++ ex_wclear 0 ++
  [(1, EEnvRun 1 0 Pending); (1, EEnvStart 1 0); (1, EEnvFinish 1 0 Running (Ok 7));
   (1, EFD 1 1 0 Finished); (1, EFD 1 0 0 Finished); (1, EPolSR 1 0);
   (1, EAcqM 1 0); (1, EFR 1 4 0 Pending); (1, ERelM 1 0); (1, EAcqM 1 0); (1, ERelM 1 0); (1, EXSec 1 1)] ++
  ex_submit 2 ++ ex_wsubmit 2 1 1 ++ ex_wclear 2 ++
  ex_submit 3 ++ ex_wsubmit 3 2 2 ++ ex_wclear 3 ++
  [(4, EEnvRun 1 2 Pending); (4, EEnvStart 1 2); (4, EEnvFinish 1 2 Running (Err 5));
   (4, EFD 1 1 2 Finished); (4, EFD 1 0 2 Finished); (4, EPolSR 1 1); (4, EPolST 1 (Some 10));
   (4, EXSec 1 4); (4, EEvSet 1)] ++
  ex_wclear 4 ++
  [(5, EXSec 0 5); (6, EWWait 1)].
Definition ex3_state : st := match run step init ex3_trace with Some s => s | None => init end.

Lemma ex3_accepted : run step init ex3_trace <> None.
Proof. vm_compute. discriminate. Qed.
Lemma ex3_reachable : reachable_from step init ex3_state.
Proof. exists ex3_trace. vm_compute. reflexivity. Qed.
Lemma ex3_reachableG : reachable_from stepG initG (ex3_state, 5).
Proof. exists ex3_trace. vm_compute. reflexivity. Qed.
Lemma ex3_quiescent : quiescent ex3_state (Some 9) 6.
Proof.
  split; [|split; vm_compute; reflexivity].
  intros t Ht. destruct t as [|[|t]]; [exfalso; apply Ht; reflexivity|vm_compute; reflexivity|vm_compute; reflexivity].
Qed.
(* future 0 finished and has no record; future 1: attempt in flight (record 3, delegate 1, callback
   registered); future 2: sleeping between retries (record 6, due at 14); scan at 5, timeout 9: 5 + 9 <= 14 *)
Lemma ex3_facts :
  nfut ex3_state = 3%nat /\ jobs ex3_state = [3; 6]%nat /\
  rs ex3_state 0 = Finished /\ rs ex3_state 1 = Pending /\ rs ex3_state 2 = Pending /\
  jf (recs ex3_state 3) = 1%nat /\ jdel (recs ex3_state 3) = Some 1%nat /\ ds ex3_state 1 = Pending /\ dcb ex3_state 1 = true /\
  jf (recs ex3_state 6) = 2%nat /\ jdel (recs ex3_state 6) = None /\ jwhen (recs ex3_state 6) = 14 /\
  evf ex3_state = false /\ wblock ex3_state = Some (Some 9, 6) /\ wnotif ex3_state = false.
Proof. vm_compute. repeat split. Qed.

(* the literal clause "since + tau <= when" fails in that state: the wait entered at 6 with the timeout 9
   computed at the scan (time 5) ends at 15 > 14 *)
Lemma ex3_literal_timing_fails :
  exists r tau since x, In r (jobs ex3_state) /\ jdel (recs ex3_state r) = None /\
    wblock ex3_state = Some (tau, since) /\ tau = Some x /\ ~ (since + x <= jwhen (recs ex3_state r)).
Proof. exists 6%nat, (Some 9), 6, 9. vm_compute. repeat split; auto; try (intros H; apply H; reflexivity). Qed.

Lemma ex3_literal_refuted :
  exists s r tau since x, reachable_from step init s /\ quiescent s tau since /\ In r (jobs s) /\ jdel (recs s r) = None /\
    tau = Some x /\ ~ (since + x <= jwhen (recs s r)).
Proof.
  destruct ex3_literal_timing_fails as (r & tau & since & x & A & B & C & D & E).
  exists ex3_state, r, tau, since, x. split; [exact ex3_reachable|].
  assert (Q : quiescent ex3_state tau since).
  { pose proof ex3_quiescent as (Q1 & Q2 & Q3). rewrite Q2 in C. inversion C; subst. exact ex3_quiescent. }
  split; [exact Q|]. split; [exact A|]. split; [exact B|]. split; [exact D|exact E].
Qed.

(* cancel() of a retry future whose attempt is pending in the delegate executor: the delegate future is
   cancelled, _delegate_callback returns silently, the canceller removes the record and cancels the retry
   future; the worker stays parked *)
Definition exc_trace : list (Z * ev) :=
  ex_submit 0 ++ ex_wsubmit 0 0 0 ++ ex_wclear 0 ++ [(0, EXSec 0 0); (0, EWWait 1)] ++
  [(1, ECallCancel 1 0); (1, EAcqM 1 0); (1, EFR 1 0 0 Pending); (1, EFR 1 1 0 Pending); (1, EXSec 1 1);
   (1, EFD 1 2 0 Pending); (1, EFD 1 1 0 Cancelled); (1, EFD 1 0 0 Cancelled); (1, EXSec 1 1);
   (1, EFR 1 2 0 Pending); (1, EFR 1 3 0 Cancelled); (1, ERelM 1 0); (1, EAcqM 1 0); (1, ERelM 1 0); (1, ERet 1 2)].
Definition exc_state : st := match run step init exc_trace with Some s => s | None => init end.
Lemma exc_accepted : run step init exc_trace <> None.
Proof. vm_compute. discriminate. Qed.
Lemma exc_reachable : reachable_from step init exc_state.
Proof. exists exc_trace. vm_compute. reflexivity. Qed.
Lemma exc_quiescent : quiescent exc_state None 0.
Proof.
  split; [|split; vm_compute; reflexivity].
  intros t Ht. destruct t as [|[|t]]; [exfalso; apply Ht; reflexivity|vm_compute; reflexivity|vm_compute; reflexivity].
Qed.
Lemma exc_facts :
  ds exc_state 0 = Cancelled /\ dfor exc_state 0 = 0%nat /\ rs exc_state 0 = CancelledNotified /\ jobs exc_state = [].
Proof. vm_compute. repeat split. Qed.

(* ---- G1: somebody else cancels the delegate future ---------------------------------------------------------------
   submit; the worker submits attempt 1 (delegate future 0, record 1) and parks; an environment thread (2) calls
   cancel() on delegate future 0 (EEnvCancel, wire code 23): Pending -> Cancelled, _delegate_callback runs inline,
   finds the job (done(): op 1), sees cancelled() (op 0) and returns.  Quiescent; retry future 0 is Pending, its
   record 1 is still in _jobs, in flight on the cancelled delegate future; the worker waits without timeout. *)
Definition exl_prefix : list (Z * ev) :=
  ex_submit 0 ++ ex_wsubmit 0 0 0 ++ ex_wclear 0 ++ [(0, EXSec 0 0); (0, EWWait 1)].
Definition exl_trace : list (Z * ev) :=
  exl_prefix ++ [(1, EEnvCancel 2 0 Pending); (1, EFD 2 1 0 Cancelled); (1, EFD 2 0 0 Cancelled)].
Definition exl_state : st := match run step init exl_trace with Some s => s | None => init end.
Lemma exl_accepted : run step init exl_trace <> None.
Proof. vm_compute. discriminate. Qed.
Lemma exl_reachable : reachable_from step init exl_state.
Proof. exists exl_trace. vm_compute. reflexivity. Qed.
Lemma exl_quiescent : quiescent exl_state None 0.
Proof.
  split; [|split; vm_compute; reflexivity].
  intros t Ht. destruct t as [|[|[|t]]]; [exfalso; apply Ht; reflexivity|vm_compute; reflexivity..].
Qed.
Lemma exl_facts :
  nfut exl_state = 1%nat /\ rs exl_state 0 = Pending /\ rout exl_state 0 = None /\ jobs exl_state = [1%nat] /\
  jf (recs exl_state 1) = 0%nat /\ jdel (recs exl_state 1) = Some 0%nat /\ ds exl_state 0 = Cancelled /\
  dcb exl_state 0 = true /\ In (HEnvCancel 0 1) (hist exl_state) /\
  evf exl_state = false /\ wblock exl_state = Some (None, 0) /\ wnotif exl_state = false.
Proof. vm_compute. repeat split. left. reflexivity. Qed.

(* later: the delegate executor's worker picks the cancelled future up (set_running_or_notify_cancel answers False),
   time passes, another submit() is served normally (future 1 finishes): future 0 is still Pending *)
Definition exl_later_trace : list (Z * ev) :=
  exl_trace ++ [(2, EEnvRun 2 0 Cancelled)] ++
  ex_submit 3 ++ [(3, EWWoke 0); (3, EWClear)] ++ ex_wsubmit 3 1 1 ++ ex_wclear 3 ++
  [(4, EEnvRun 2 1 Pending); (4, EEnvStart 2 1); (4, EEnvFinish 2 1 Running (Ok 7));
   (4, EFD 2 1 1 Finished); (4, EFD 2 0 1 Finished); (4, EPolSR 2 0);
   (4, EAcqM 2 1); (4, EFR 2 4 1 Pending); (4, ERelM 2 1); (4, EAcqM 2 1); (4, ERelM 2 1); (4, EXSec 2 4)] ++
  [(5, EXSec 0 5); (5, EWWait 1)].
Definition exl_later_state : st := match run step init exl_later_trace with Some s => s | None => init end.
Lemma exl_later_accepted : run step init exl_later_trace <> None.
Proof. vm_compute. discriminate. Qed.
Lemma exl_later_facts :
  clock exl_later_state = 5 /\ rs exl_later_state 0 = Pending /\ rs exl_later_state 1 = Finished /\
  jobs exl_later_state = [1%nat] /\ ds exl_later_state 0 = CancelledNotified /\ wblock exl_later_state = Some (None, 5).
Proof. vm_compute. repeat split. Qed.

(* cancel() on the lost retry future itself does resolve it: delegate_future.cancel() answers True for the already
   cancelled future, the job is popped, the retry future is cancelled *)
Definition exl_cancel_trace : list (Z * ev) :=
  exl_trace ++
  [(2, ECallCancel 1 0); (2, EAcqM 1 0); (2, EFR 1 0 0 Pending); (2, EFR 1 1 0 Pending); (2, EXSec 1 2);
   (2, EFD 1 2 0 Cancelled); (2, EXSec 1 2);
   (2, EFR 1 2 0 Pending); (2, EFR 1 3 0 Cancelled); (2, ERelM 1 0); (2, EAcqM 1 0); (2, ERelM 1 0); (2, ERet 1 2)].
Definition exl_cancel_state : st := match run step init exl_cancel_trace with Some s => s | None => init end.
Lemma exl_cancel_accepted : run step init exl_cancel_trace <> None.
Proof. vm_compute. discriminate. Qed.
Lemma exl_cancel_facts :
  rs exl_cancel_state 0 = CancelledNotified /\ jobs exl_cancel_state = [] /\ ds exl_cancel_state 0 = Cancelled /\
  In (HCancelRet 0 true 2) (hist exl_cancel_state).
Proof. vm_compute. repeat split. left. reflexivity. Qed.

(* consequences: the statements that held before the machine had EEnvCancel are refuted by exl_state *)
Lemma exl_foreign : foreign_cancelled exl_state 1.
Proof. exists 0%nat. vm_compute. repeat split; auto. exists 1. left. reflexivity. Qed.

(* the two-way reading of "no future is lost" (in flight and not done / sleeping with a timed wait) is false *)
Lemma exl_two_way_refuted :
  exists s tau since j, reachable_from step init s /\ quiescent s tau since /\ (j < nfut s)%nat /\ fdone (rs s j) = false /\
    forall r, In r (jobs s) -> jf (recs s r) = j -> forall g, ~ (inflight_ok s r \/ sleeping_ok s g tau since r).
Proof.
  exists exl_state, None, 0, 0%nat. split; [exact exl_reachable|]. split; [exact exl_quiescent|].
  split; [vm_compute; lia|]. split; [vm_compute; reflexivity|].
  intros r Hin _ g. assert (r = 1%nat) by (vm_compute in Hin; destruct Hin as [<-|[]]; reflexivity). subst r.
  intros [(d & A & _ & B & _)|(A & _)]; vm_compute in A.
  - inversion A; subst d. vm_compute in B. discriminate.
  - discriminate.
Qed.

(* "at quiescence the retry future of a cancelled delegate future is done" is false *)
Lemma exl_cancelled_delegate_unresolved :
  exists s tau since d, reachable_from step init s /\ quiescent s tau since /\ (d < ndel s)%nat /\
    fcancelled (ds s d) = true /\ fdone (rs s (dfor s d)) = false.
Proof.
  exists exl_state, None, 0, 0%nat. split; [exact exl_reachable|]. split; [exact exl_quiescent|].
  vm_compute. repeat split; lia.
Qed.

(* "at quiescence the delegate future of every in-flight record is not done" is false *)
Lemma exl_inflight_done :
  exists s tau since r d, reachable_from step init s /\ quiescent s tau since /\ In r (jobs s) /\
    jdel (recs s r) = Some d /\ fdone (ds s d) = true.
Proof.
  exists exl_state, None, 0, 1%nat, 0%nat. split; [exact exl_reachable|]. split; [exact exl_quiescent|].
  vm_compute. repeat split; auto.
Qed.
