(* C03 for the Retry machine, part 8: concrete accepted traces (non-vacuity, the refutation of the literal
   timing clause, the only way a delegate future gets cancelled in this machine). *)
From Coq Require Import List ZArith Bool Arith Lia.
From ME Require Import Base.Machine Base.Fut Base.GenPrelude Gen.RetryGen Model.Retry Proofs.Retry_N0 Proofs.Retry_N6 Proofs.Retry_N7.
Import ListNotations.
Local Open Scope Z_scope.

(* client / environment thread 1: submit() *)
Definition ex_submit (ts : Z) : list (Z * ev) :=
  [(ts, ECallSubmit 1); (ts, EXSec 1 ts); (ts, EEvSet 1); (ts, ERet 1 0)].
(* the worker takes the due record of future j and submits delegate future d *)
Definition ex_wsubmit (ts : Z) (j d : nat) : list (Z * ev) :=
  [(ts, EXSec 0 ts); (ts, EAcqM 0 j); (ts, EXAcq 0); (ts, EFR 0 1 j Pending); (ts, EDSubmit 0 d None);
   (ts, EXRel 0); (ts, ERelM 0 j); (ts, EFD 0 5 d Pending); (ts, EEvSet 0)].
(* the worker scans, finds nothing to do, wait() returns at once (flag set), clear() *)
Definition ex_wclear (ts : Z) : list (Z * ev) := [(ts, EXSec 0 ts); (ts, EWWait 0); (ts, EWClear)].

(* three futures: 0 finishes (Ok 7) on the first attempt; 1 stays in flight; 2 fails, the policy grants a retry
   after 10 (at time 4: due 14); the worker scans at 5 (timeout 14 - 5 = 9) and parks at 6 *)
Definition ex3_trace : list (Z * ev) :=
  ex_submit 0 ++ ex_wsubmit 0 0 0 ++ ex_wclear 0 ++
  [(1, EEnvRun 1 0 Pending); (1, EEnvStart 1 0); (1, EEnvFinish 1 0 Running (Ok 7));
   (1, EFD 1 1 0 Finished); (1, EFD 1 0 0 Finished); (1, EPolSR 1 0);
   (1, EAcqM 1 0); (1, EFR 1 4 0 Pending); (1, ERelM 1 0); (1, EAcqM 1 0); (1, ERelM 1 0); (1, EXSec 1 1)] ++
  ex_submit 2 ++ ex_wsubmit 2 1 1 ++ ex_wclear 2 ++
  ex_submit 3 ++ ex_wsubmit 3 2 2 ++ ex_wclear 3 ++
  [(4, EEnvRun 1 2 Pending); (4, EEnvStart 1 2); (4, EEnvFinish 1 2 Running (Err 5));
   (4, EFD 1 1 2 Finished); (4, EFD 1 0 2 Finished); (4, EPolSR 1 1); (4, EPolST 1 (Some 10));
   (4, EXSec 1 4); (4, EEvSet 1)] ++
  ex_wclear 4 ++
  [(5, EXSec 0 5); (6, EWWait 1)].
Definition ex3_state : st := match run step init ex3_trace with Some s => s | None => init end.

Lemma ex3_accepted : run step init ex3_trace <> None.
Proof. vm_compute. discriminate. Qed.
Lemma ex3_reachable : reachable_from step init ex3_state.
Proof. exists ex3_trace. vm_compute. reflexivity. Qed.
Lemma ex3_reachableG : reachable_from stepG initG (ex3_state, 5).
Proof. exists ex3_trace. vm_compute. reflexivity. Qed.
Lemma ex3_quiescent : quiescent ex3_state (Some 9) 6.
Proof.
  split; [|split; vm_compute; reflexivity].
  intros t Ht. destruct t as [|[|t]]; [exfalso; apply Ht; reflexivity|vm_compute; reflexivity|vm_compute; reflexivity].
Qed.
(* future 0 finished and has no record; future 1: attempt in flight (record 3, delegate 1, callback
   registered); future 2: sleeping between retries (record 6, due at 14); scan at 5, timeout 9: 5 + 9 <= 14 *)
Lemma ex3_facts :
  nfut ex3_state = 3%nat /\ jobs ex3_state = [3; 6]%nat /\
  rs ex3_state 0 = Finished /\ rs ex3_state 1 = Pending /\ rs ex3_state 2 = Pending /\
  jf (recs ex3_state 3) = 1%nat /\ jdel (recs ex3_state 3) = Some 1%nat /\ ds ex3_state 1 = Pending /\ dcb ex3_state 1 = true /\
  jf (recs ex3_state 6) = 2%nat /\ jdel (recs ex3_state 6) = None /\ jwhen (recs ex3_state 6) = 14 /\
  evf ex3_state = false /\ wblock ex3_state = Some (Some 9, 6) /\ wnotif ex3_state = false.
Proof. vm_compute. repeat split. Qed.

(* the literal clause "since + tau <= when" fails in that state: the wait entered at 6 with the timeout 9
   computed at the scan (time 5) ends at 15 > 14 *)
Lemma ex3_literal_timing_fails :
  exists r tau since x, In r (jobs ex3_state) /\ jdel (recs ex3_state r) = None /\
    wblock ex3_state = Some (tau, since) /\ tau = Some x /\ ~ (since + x <= jwhen (recs ex3_state r)).
Proof. exists 6%nat, (Some 9), 6, 9. vm_compute. repeat split; auto; try (intros H; apply H; reflexivity). Qed.

Lemma ex3_literal_refuted :
  exists s r tau since x, reachable_from step init s /\ quiescent s tau since /\ In r (jobs s) /\ jdel (recs s r) = None /\
    tau = Some x /\ ~ (since + x <= jwhen (recs s r)).
Proof.
  destruct ex3_literal_timing_fails as (r & tau & since & x & A & B & C & D & E).
  exists ex3_state, r, tau, since, x. split; [exact ex3_reachable|].
  assert (Q : quiescent ex3_state tau since).
  { pose proof ex3_quiescent as (Q1 & Q2 & Q3). rewrite Q2 in C. inversion C; subst. exact ex3_quiescent. }
  split; [exact Q|]. split; [exact A|]. split; [exact B|]. split; [exact D|exact E].
Qed.

(* cancel() of a retry future whose attempt is pending in the delegate executor: the delegate future is
   cancelled, _delegate_callback returns silently, the canceller removes the record and cancels the retry
   future; the worker stays parked *)
Definition exc_trace : list (Z * ev) :=
  ex_submit 0 ++ ex_wsubmit 0 0 0 ++ ex_wclear 0 ++ [(0, EXSec 0 0); (0, EWWait 1)] ++
  [(1, ECallCancel 1 0); (1, EAcqM 1 0); (1, EFR 1 0 0 Pending); (1, EFR 1 1 0 Pending); (1, EXSec 1 1);
   (1, EFD 1 2 0 Pending); (1, EFD 1 1 0 Cancelled); (1, EFD 1 0 0 Cancelled); (1, EXSec 1 1);
   (1, EFR 1 2 0 Pending); (1, EFR 1 3 0 Cancelled); (1, ERelM 1 0); (1, EAcqM 1 0); (1, ERelM 1 0); (1, ERet 1 2)].
Definition exc_state : st := match run step init exc_trace with Some s => s | None => init end.
Lemma exc_accepted : run step init exc_trace <> None.
Proof. vm_compute. discriminate. Qed.
Lemma exc_reachable : reachable_from step init exc_state.
Proof. exists exc_trace. vm_compute. reflexivity. Qed.
Lemma exc_quiescent : quiescent exc_state None 0.
Proof.
  split; [|split; vm_compute; reflexivity].
  intros t Ht. destruct t as [|[|t]]; [exfalso; apply Ht; reflexivity|vm_compute; reflexivity|vm_compute; reflexivity].
Qed.
Lemma exc_facts :
  ds exc_state 0 = Cancelled /\ dfor exc_state 0 = 0%nat /\ rs exc_state 0 = CancelledNotified /\ jobs exc_state = [].
Proof. vm_compute. repeat split. Qed.
