From Coq Require Import List Bool Arith Lia.
From ME Require Import Model.MapFut Model.MapLaw.
Import ListNotations.

(* case laws of the statement *)
Lemma law_success_fn k ea inner v a : map_law k true true (Ok v) a ea inner = apply_ans k a (Ok v) inner.
Proof. reflexivity. Qed.
Lemma law_failure_efn k fa inner e a : map_law k true true (Err e) fa a inner = apply_ans k a (Err e) inner.
Proof. reflexivity. Qed.
Lemma law_failure_no_efn k hasfn fa ea inner e : map_law k hasfn false (Err e) fa ea inner = Some (Err e).
Proof. reflexivity. Qed.
Lemma law_identity_default fa ea inner o : map_law KMap false false o fa ea inner = Some o.
Proof. destruct o; reflexivity. Qed.
Lemma law_fn_raises k hasefn ea inner v e : map_law k true hasefn (Ok v) (ARaise e) ea inner = Some (Err e).
Proof. reflexivity. Qed.
Lemma law_efn_raises k hasfn fa inner e e' : map_law k hasfn true (Err e) fa (ARaise e') inner = Some (Err e').
Proof. reflexivity. Qed.
Lemma law_reraise_same_keeps k hasfn fa inner e : map_law k hasfn true (Err e) fa ARaiseSame inner = Some (Err e).
Proof. reflexivity. Qed.
Lemma law_flat_non_future hasefn ea inner v x : map_law KFlat true hasefn (Ok v) (ARet x) ea inner = Some (Err type_error).
Proof. reflexivity. Qed.
Lemma law_flat_non_future_efn hasfn fa inner e x : map_law KFlat hasfn true (Err e) fa (ARet x) inner = Some (Err type_error).
Proof. reflexivity. Qed.
Lemma law_flat_flattens hasefn ea inner v d : map_law KFlat true hasefn (Ok v) (ARetFut d) ea inner = inner d.
Proof. reflexivity. Qed.
Lemma calls_own_case hasfn hasefn o :
  fst (map_calls hasfn hasefn o) <= 1 /\ snd (map_calls hasfn hasefn o) <= 1 /\
  (fst (map_calls hasfn hasefn o) = 1 -> exists v, o = Ok v) /\
  (snd (map_calls hasfn hasefn o) = 1 -> exists e, o = Err e) /\
  fst (map_calls hasfn hasefn o) + snd (map_calls hasfn hasefn o) <= 1.
Proof.
  destruct o, hasfn, hasefn; simpl; repeat split; try lia; intros H; try discriminate; eauto.
Qed.

(* chains compose: mapping with g then h is mapping with h after g -- for chains of any length *)
Lemma vapply_compose g h o : vapply h (vapply g o) = vapply (vcompose g h) o.
Proof. destruct o as [v|e]; [|reflexivity]. destruct g, h; reflexivity. Qed.

Lemma vchain_err gs e : vchain gs (Err e) = Err e.
Proof. induction gs as [|g r IH]; simpl; auto. Qed.

Theorem vchain_compose gs o : vchain gs o = vapply (vcompose_all gs) o.
Proof.
  revert o. induction gs as [|g r IH]; intros o; simpl.
  - destruct o; reflexivity.
  - rewrite IH. apply vapply_compose.
Qed.

(* every function of a chain is called at most once, and none after the first failure *)
Theorem vcalls_le gs o : vcalls gs o <= length gs.
Proof. revert o; induction gs as [|g r IH]; intros o; simpl; [lia|]. destruct o; [specialize (IH (vapply g (Ok v)))|]; lia. Qed.
