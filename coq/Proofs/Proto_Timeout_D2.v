(* C02 / Timeout, clause (d), part D2:
   (d1) a user callback is invoked only on a done future (every pending invocation IUserCb j c and every recorded
        run HCb j c belongs to a future that is done);
   and the per-step accounting behind the conservation law of part D3. *)
From Coq Require Import ZArith List Bool Arith Lia.
From RecordUpdate Require Import RecordSet.
From ME Require Import Base.Machine Base.Fut Base.GenPrelude Gen.TimeoutGen Proofs.Timeout_Spec Model.Timeout
  Proofs.Timeout_Inv Proofs.Keep_Timeout_A Proofs.Keep_Timeout_B
  Proofs.Proto_Timeout_P Proofs.Proto_Timeout_P1 Proofs.Proto_Timeout_P2 Proofs.Proto_Timeout_D Proofs.Proto_Timeout_D1.
Import ListNotations RecordSetNotations.

(* ---- (d1) -------------------------------------------------------------------------------------------------- *)
Record InvU (s : st) : Prop := {
  u_prog : forall t j c, In (IUserCb j c) (thr s t) -> fdone (rs s j) = true;
  u_hist : forall j c ts, In (HCb j c ts) (hist s) -> fdone (rs s j) = true
}.

Lemma in_stamp_ucb s p j c : In (IUserCb j c) (stamp s p) -> In (IUserCb j c) p.
Proof.
  destruct (stamp_cases s p) as [->|[r [b [-> ->]]]]; [auto|]. intros [Hx|Hin]; [discriminate|right; exact Hin].
Qed.
Lemma in_cb_prog j c j' k : In (IUserCb j c) (cb_prog j' k) -> j' = j.
Proof. destruct k; simpl; intros [Hx|[]]; inversion Hx; reflexivity. Qed.
Lemma in_cbs_prog j c j' l : In (IUserCb j c) (cbs_prog j' l) -> j' = j.
Proof. unfold cbs_prog. intros Hin. apply in_flat_map in Hin. destruct Hin as [k [_ Hk]]. eapply in_cb_prog; eauto. Qed.

Lemma uprog_upd s s' t P :
  (forall u j c, In (IUserCb j c) (thr s u) -> fdone (rs s j) = true) ->
  (forall j, fdone (rs s j) = true -> fdone (rs s' j) = true) ->
  thr s' = upd (thr s) t P -> (forall j c, In (IUserCb j c) P -> fdone (rs s' j) = true) ->
  forall u j c, In (IUserCb j c) (thr s' u) -> fdone (rs s' j) = true.
Proof.
  intros U DM Et HP u j c Hin. rewrite Et in Hin. destruct (Nat.eq_dec u t) as [->|Hne].
  - rewrite upd_same in Hin. eauto.
  - rewrite upd_other in Hin by exact Hne. eauto.
Qed.
Lemma uhist_same s s' :
  (forall j c ts, In (HCb j c ts) (hist s) -> fdone (rs s j) = true) ->
  (forall j, fdone (rs s j) = true -> fdone (rs s' j) = true) -> same_h s s' ->
  forall j c ts, In (HCb j c ts) (hist s') -> fdone (rs s' j) = true.
Proof.
  intros U DM Hh j c ts Hin. assert (Hp : 0 < hc j c (hist s')) by (apply hc_pos; exists ts; exact Hin).
  rewrite (Hh j c) in Hp. apply hc_pos in Hp. destruct Hp as [ts' Hin']. eauto.
Qed.

Lemma invU_step0 s e s' :
  (forall t j r, thr s t = IRelMCbs j :: r -> fdone (rs s j) = true) ->
  InvU s -> step0 s e = Some s' -> InvU s'.
Proof.
  intros Hrel [U1 U2] Hx. pose proof (done_mono _ _ _ Hx) as DM.
  destruct (step0_dshape _ _ _ Hx) as
    [Et Er Hh _ | t drop pre rest s1 Ep Et Hd Hp Er Hh _ | t j c s1 _ Ep Et Er Hh | t j k rest s1 Ep Hdn Et Er Hh _
    | t j k rest s1 Ep Et Er Hh _ | t j rest s1 Ep Et Er Hh _ | t j c rest s1 ts Ep Et Er Hh _].
  - constructor; [|eapply uhist_same; eauto]. intros u j c Hin. rewrite Et in Hin. eauto.
  - constructor; [|eapply uhist_same; eauto]. apply (uprog_upd s s' t _ U1 DM Et).
    intros j c Hin. apply in_stamp_ucb in Hin. apply in_app_or in Hin. destruct Hin as [Hin|Hin].
    + exfalso. eapply nocb_not_in; eauto.
    + apply DM. apply (U1 t j c). rewrite Ep. apply in_or_app. right. exact Hin.
  - constructor; [|eapply uhist_same; eauto]. apply (uprog_upd s s' t _ U1 DM Et).
    intros j0 c0 Hin. apply in_stamp_ucb in Hin. simpl in Hin. intuition discriminate.
  - constructor; [|eapply uhist_same; eauto]. apply (uprog_upd s s' t _ U1 DM Et).
    intros j0 c0 Hin. apply in_stamp_ucb in Hin. destruct Hin as [Hx0|Hin]; [discriminate|].
    apply in_app_or in Hin. destruct Hin as [Hin|Hin].
    + apply in_cb_prog in Hin. subst. apply DM. exact Hdn.
    + apply DM. apply (U1 t j0 c0). rewrite Ep. right. exact Hin.
  - constructor; [|eapply uhist_same; eauto]. apply (uprog_upd s s' t _ U1 DM Et).
    intros j0 c0 Hin. apply in_stamp_ucb in Hin. destruct Hin as [Hx0|Hin]; [discriminate|].
    apply DM. apply (U1 t j0 c0). rewrite Ep. right. exact Hin.
  - constructor; [|eapply uhist_same; eauto]. apply (uprog_upd s s' t _ U1 DM Et).
    intros j0 c0 Hin. apply in_stamp_ucb in Hin. apply in_app_or in Hin. destruct Hin as [Hin|Hin].
    + apply in_cbs_prog in Hin. subst. apply DM. eapply Hrel. exact Ep.
    + apply DM. apply (U1 t j0 c0). rewrite Ep. right. exact Hin.
  - constructor.
    + apply (uprog_upd s s' t _ U1 DM Et). intros j0 c0 Hin. apply in_stamp_ucb in Hin.
      apply DM. apply (U1 t j0 c0). rewrite Ep. right. exact Hin.
    + intros j0 c0 ts0 Hin. rewrite Hh in Hin. destruct Hin as [Hx0|Hin]; [|eauto].
      inversion Hx0; subst. apply DM. apply (U1 t j0 c0). rewrite Ep. left. reflexivity.
Qed.

Theorem invU_reachable s : reachable_from step init s -> InvU s.
Proof.
  apply invariant_rule_r; [constructor; simpl; intros; contradiction|].
  intros s0 [ts e] s' Hr [U1 U2] Hx. apply step_split in Hx. destruct Hx as [_ Hx]. simpl in Hx.
  eapply (invU_step0 (s0 <| clock := ts |>)); [|constructor; assumption|exact Hx].
  intros t j r Et. apply (relmcbs_head_done s0 Hr t j r). left. exact Et.
Qed.

(* ---- the accounting of one step ---------------------------------------------------------------------------- *)
Lemma wt_sym j c j0 k : wt j c j0 k = if Nat.eqb j j0 then cntC c k else 0.
Proof. unfold wt. rewrite (Nat.eqb_sym j0 j). reflexivity. Qed.

Lemma dshape_delta s e s' j c : dshape s e s' ->
  exists t, (forall u, u <> t -> thr s' u = thr s u) /\
    hc j c (hist s') + rc c (rcbs s' j) + pc j c (thr s' t) = hc j c (hist s) + rc c (rcbs s j) + pc j c (thr s t) + cntE j c e.
Proof.
  intros [Et Er Hh Hn | t drop pre rest s1 Ep Et Hd Hp Er Hh Hn | t j0 c0 s1 He Ep Et Er Hh | t j0 k rest s1 Ep Hdn Et Er Hh Hn
         | t j0 k rest s1 Ep Et Er Hh Hn | t j0 rest s1 Ep Et Er Hh Hn | t j0 c0 rest s1 ts Ep Et Er Hh Hn].
  - exists 0. split; [intros; rewrite Et; reflexivity|]. rewrite Et, Er, (Hh j c), (Hn j c). lia.
  - exists t. split; [intros u Hu; rewrite Et, upd_other by exact Hu; reflexivity|].
    rewrite Et, upd_same, Er, (Hh j c), (Hn j c), Ep, pc_stamp, !pc_app, (nocb_pc _ _ _ Hd), (nocb_pc _ _ _ Hp). lia.
  - exists t. split; [intros u Hu; rewrite Et, upd_other by exact Hu; reflexivity|].
    rewrite Et, upd_same, Er, (Hh j c), Ep, pc_stamp, He. simpl. lia.
  - exists t. split; [intros u Hu; rewrite Et, upd_other by exact Hu; reflexivity|].
    rewrite Et, upd_same, Er, (Hh j c), (Hn j c), Ep, pc_stamp. simpl. rewrite pc_app, pc_cb_prog. lia.
  - exists t. split; [intros u Hu; rewrite Et, upd_other by exact Hu; reflexivity|].
    rewrite Et, upd_same, Er, (Hh j c), (Hn j c), Ep, pc_stamp. simpl. rewrite wt_sym. unfold upd.
    destruct (Nat.eqb j j0) eqn:E; [apply Nat.eqb_eq in E; subst; rewrite rc_app; simpl|]; lia.
  - exists t. split; [intros u Hu; rewrite Et, upd_other by exact Hu; reflexivity|].
    rewrite Et, upd_same, Er, (Hh j c), (Hn j c), Ep, pc_stamp, pc_app, pc_cbs_prog. simpl. rewrite (Nat.eqb_sym j0 j). unfold upd.
    destruct (Nat.eqb j j0) eqn:E; [apply Nat.eqb_eq in E; subst; simpl|]; lia.
  - exists t. split; [intros u Hu; rewrite Et, upd_other by exact Hu; reflexivity|].
    rewrite Et, upd_same, Er, Hh, (Hn j c), Ep, pc_stamp. simpl. lia.
Qed.
