(* Inductive invariants of the TimeoutExecutor model (Model/Timeout.v) and the lemmas behind
   Props/C09_Timeout.v. *)
From Coq Require Import List ZArith Bool Arith Lia.
From RecordUpdate Require Import RecordSet.
From ME Require Import Base.Machine Base.Fut Base.GenPrelude Gen.TimeoutGen Proofs.Timeout_Spec Model.Timeout.
Import ListNotations RecordSetNotations.
Local Open Scope Z_scope.

(* ---- programs: the jobs a program is still going to cancel --------------------------------- *)
Definition tc1 (i : instr) : list tjob := match i with ITCancel job => [job] | _ => [] end.
Definition tcs (p : list instr) : list tjob := flat_map tc1 p.

Lemma tcs_app p q : tcs (p ++ q) = tcs p ++ tcs q.
Proof. unfold tcs. apply flat_map_app. Qed.
Lemma tcs_cons i p : tcs (i :: p) = tc1 i ++ tcs p.
Proof. reflexivity. Qed.
Lemma tcs_map_tc l : tcs (map ITCancel l) = l.
Proof. induction l as [|a r IH]; [reflexivity|]. simpl map. rewrite tcs_cons, IH. reflexivity. Qed.
Lemma tcs_map_pd (l : list tjob) : tcs (map (fun job => IPDone (tj_id job)) l) = [].
Proof. induction l as [|a r IH]; [reflexivity|]. simpl map. rewrite tcs_cons, IH. reflexivity. Qed.
Lemma tcs_ret_of t b : tcs (ret_of t b) = [].
Proof. unfold ret_of. destruct (Nat.eqb t jt); reflexivity. Qed.
Lemma tcs_cb_prog j c : tcs (cb_prog j c) = [].
Proof. destruct c; reflexivity. Qed.
Lemma tcs_cbs_prog j l : tcs (cbs_prog j l) = [].
Proof.
  induction l as [|c r IH]; simpl; [reflexivity|]. unfold cbs_prog in *. simpl.
  rewrite tcs_app, tcs_cb_prog, IH. reflexivity.
Qed.
Lemma tcs_stamp s p : tcs (stamp s p) = tcs p.
Proof. unfold stamp. destruct p as [|[] r]; try reflexivity. destruct e; reflexivity. Qed.
Lemma tcs_tl_nil p : tcs p = [] -> tcs (tl p) = [].
Proof. destruct p as [|i r]; [auto|]. simpl tl. rewrite tcs_cons. intros H. apply app_eq_nil in H. tauto. Qed.
Lemma tcs_tl_incl p x : In x (tcs (tl p)) -> In x (tcs p).
Proof. destruct p as [|i r]; [auto|]. simpl tl. rewrite tcs_cons. intros H. apply in_or_app. auto. Qed.

Opaque jt.
#[export] Hint Rewrite tcs_cons tcs_app tcs_map_tc tcs_map_pd tcs_ret_of tcs_cb_prog tcs_cbs_prog tcs_stamp : tcs.

(* ---- taking a step apart ---------------------------------------------------------------------- *)
Lemma step_split s te s' : step s te = Some s' ->
  clock s <= fst te /\ step0 (s <| clock := fst te |>) (snd te) = Some s'.
Proof.
  unfold step, tick. destruct (Z.leb (clock s) (fst te)) eqn:E; [|discriminate].
  apply Z.leb_le in E. auto.
Qed.

Lemma thr_set_prog s t p t' : thr (set_prog s t p) t' = if Nat.eqb t' t then stamp s p else thr s t'.
Proof. reflexivity. Qed.

(* destruct every test the step function performs *)
Ltac crush H :=
  repeat match type of H with
         | context [match ?x with _ => _ end] => let E := fresh "E" in destruct x eqn:E; try discriminate H
         | context [if ?x then _ else _] => let E := fresh "E" in destruct x eqn:E; try discriminate H
         | (let '(_, _) := ?x in _) = _ => let E := fresh "E" in destruct x eqn:E
         end.

Lemma skip_cbs_inv p r : skip_cbs p = Some r -> exists j, p = IRelMCbs j :: r.
Proof. destruct p as [|[] q]; simpl; intros H; inversion H; subst. eexists; reflexivity. Qed.

Ltac step0_cases H :=
  unfold step0, step_sync, step_call, step_fr, step_fd in H; crush H;
  try discriminate H; inversion H; subst; clear H;
  try match goal with E : skip_cbs _ = Some _ |- _ =>
        apply skip_cbs_inv in E; let x := fresh "jx" in destruct E as [x E]; subst end.

(* ---- I1: never early --------------------------------------------------------------------------- *)
Definition hist_late (h : list hev) : Prop := forall j dl ts, In (HAttempt j dl ts) h -> dl < ts.

Record Inv1 (s : st) : Prop := {
  i1_hist : hist_late (hist s);
  i1_tc : forall job, In job (tcs (thr s jt)) -> tj_deadline job < pnow s;
  i1_now : pnow s <= clock s
}.

Lemma hist_late_cons h e : hist_late h -> (forall j dl ts, e = HAttempt j dl ts -> dl < ts) -> hist_late (e :: h).
Proof. intros H He j dl ts [E|Hin]; [eapply He; eauto|eapply H; eauto]. Qed.

Lemma inv1_init : Inv1 init.
Proof. split; simpl; try lia; intros; try tauto. intros j dl ts []. Qed.

Lemma inv1_tick s ts : Inv1 s -> clock s <= ts -> Inv1 (s <| clock := ts |>).
Proof. intros [A B C] H. split; simpl; auto. lia. Qed.

Lemma wait_view_inv p tau l : wait_view p = IWWait tau :: l ->
  p = IWWait tau :: l \/ (p = IWaitCalc (Some true) :: l /\ tau = None).
Proof.
  unfold wait_view. destruct p as [|i r]; [discriminate|].
  destruct i; try (intros H; left; exact H). destruct e as [[|]|]; intros H; try (left; exact H).
  inversion H; subst. right; auto.
Qed.
Lemma wait_view_tcs p tau l : wait_view p = IWWait tau :: l -> tcs p = tcs l.
Proof. intros H. apply wait_view_inv in H. destruct H as [->|[-> _]]; reflexivity. Qed.

Ltac tcs_in Hin :=
  autorewrite with tcs in Hin; simpl in Hin; repeat rewrite in_app_iff in Hin; simpl in Hin;
  try (repeat (match type of Hin with context [tcs (tl ?p)] => idtac end;
               first [apply tcs_tl_incl in Hin | destruct Hin as [Hin|Hin]])).

Lemma partition_ovd s l0 l1 job : partition s = (l0, l1) -> In job l1 -> tj_deadline job < pnow s.
Proof.
  unfold partition. intros E Hin. apply (f_equal snd) in E. simpl in E. subst l1.
  apply partition_overdue in Hin. tauto.
Qed.

Lemma inv1_step0 s e s' : Inv1 s -> step0 s e = Some s' -> Inv1 s'.
Proof.
  intros [A B C] H. step0_cases H.
  all: split; simpl; try assumption.
  all: try (apply hist_late_cons; [try exact A|intros ? ? ? Q; try discriminate Q]).
  all: try (apply hist_late_cons; [try exact A|intros ? ? ? Q; try discriminate Q]).
  all: try match goal with E : wait_view _ = _ |- _ => apply wait_view_tcs in E; rewrite E in B end.
  all: try (intros job' Hin; unfold upd in Hin; rewrite ?Nat.eqb_refl in Hin;
            try match type of Hin with context [Nat.eqb jt ?t] => destruct (Nat.eqb jt t) eqn:Et;
               [apply Nat.eqb_eq in Et; subst|apply B; exact Hin] end;
            try match goal with E : thr _ jt = _ |- _ => rewrite E in B end;
            tcs_in Hin; simpl in B; try (apply B; tauto)).
  - destruct Hin as [Hin|Hin]; [eapply partition_ovd; eauto|auto].
  - inversion Q; subst. apply andb_true_iff in E3. destruct E3 as [_ E3]. apply Nat.eqb_eq in E3. subst t.
    assert (tj_deadline job < pnow s); [|lia]. apply B. rewrite E0. simpl. auto.
  - apply negb_false_iff, Z.eqb_eq in E0. subst w.
    assert (tj_deadline job' < pnow s); [|lia]. apply B.
    destruct (Nat.eqb jt t) eqn:Et; [|exact Hin]. apply Nat.eqb_eq in Et. subst t. rewrite E1.
    tcs_in Hin. simpl. tauto.
  - apply negb_false_iff, Z.eqb_eq in E0. lia.
Qed.

Lemma inv1_reach s : reachable_from step init s -> Inv1 s.
Proof.
  apply invariant_rule; [exact inv1_init|]. intros s0 e s1 I H.
  apply step_split in H. destruct H as [Hc H]. eapply inv1_step0; [|exact H]. apply inv1_tick; auto.
Qed.

(* never_early *)
Lemma never_early_l s : reachable_from step init s ->
  forall j dl ts, In (HAttempt j dl ts) (hist s) -> dl < ts.
Proof. intros R. exact (i1_hist s (inv1_reach s R)). Qed.

(* ---- I2: an outcome, once set, stays ------------------------------------------------------------ *)
Definition Inv2 (s : st) : Prop :=
  forall j o ts, In (HSet j o ts) (hist s) -> rs s j = Finished /\ rout s j = Some o.

Lemma pre_eq pre x : negb (fstate_eqb pre x) = false -> pre = x.
Proof. intros H. apply negb_false_iff, fstate_eqb_eq in H. exact H. Qed.
Lemma f_set_fin pre f : f_set pre = Some f -> f = Finished /\ pre <> Finished.
Proof. destruct pre; simpl; intros H; inversion H; split; congruence. Qed.
Lemma f_cancel_nf pre f : f_cancel pre = (f, true) -> pre <> Finished.
Proof. destruct pre; simpl; intros H; inversion H; congruence. Qed.
Lemma f_srnc_nf pre f b : f_srnc pre = Some (f, b) -> pre <> Finished.
Proof. destruct pre; simpl; intros H; inversion H; congruence. Qed.

Lemma inv2_step0 s e s' : Inv2 s -> step0 s e = Some s' -> Inv2 s'.
Proof.
  intros A H. step0_cases H.
  all: intros j' o' ts' Hin; simpl in Hin |- *.
  all: repeat match type of Hin with _ \/ _ => destruct Hin as [Hin|Hin]; [try discriminate Hin|] end.
  all: try (specialize (A _ _ _ Hin); destruct A as [A2 A3]).
  all: try (split; assumption).
  all: try match goal with E : negb (fstate_eqb _ _) = false |- _ => apply pre_eq in E; subst end.
  all: try match goal with E : negb (Nat.eqb _ _) = false |- _ => apply negb_false_iff, Nat.eqb_eq in E; subst end.
  all: try match goal with E : f_set _ = Some _ |- _ => apply f_set_fin in E; destruct E; subst end.
  all: try match goal with E : f_cancel _ = (_, true) |- _ => apply f_cancel_nf in E end.
  all: try match goal with E : f_srnc _ = Some _ |- _ => apply f_srnc_nf in E end.
  all: try (inversion Hin; subst; rewrite !upd_same; auto).
  all: unfold upd; destruct (Nat.eqb j' j0) eqn:Ej; [apply Nat.eqb_eq in Ej; subst; congruence|auto].
Qed.

Lemma inv2_reach s : reachable_from step init s -> Inv2 s.
Proof.
  apply invariant_rule; [intros j o ts []|]. intros s0 e s1 I H.
  apply step_split in H. destruct H as [_ H]. eapply inv2_step0; [|exact H]. exact I.
Qed.

(* ---- I3: no lost wake-up ------------------------------------------------------------------------- *)
Definition is_wait (i : instr) : bool :=
  match i with IWWait _ | IWWoke | IWaitCalc (Some _) => true | _ => false end.
Definition clean (p : list instr) : bool := forallb (fun i => negb (is_wait i)) p.

Lemma clean_app p q : clean (p ++ q) = clean p && clean q.
Proof. apply forallb_app. Qed.
Lemma clean_tl p : clean p = true -> clean (tl p) = true.
Proof. destruct p as [|i r]; simpl; auto. intros H. apply andb_true_iff in H. tauto. Qed.
Lemma clean_ret_of t b : clean (ret_of t b) = true.
Proof. unfold ret_of. destruct (Nat.eqb t jt); reflexivity. Qed.
Lemma clean_cb_prog j c : clean (cb_prog j c) = true.
Proof. destruct c; reflexivity. Qed.
Lemma clean_cbs_prog j l : clean (cbs_prog j l) = true.
Proof.
  induction l as [|c r IH]; [reflexivity|]. unfold cbs_prog in *. simpl flat_map.
  rewrite clean_app, clean_cb_prog, IH. reflexivity.
Qed.
Lemma clean_map_tc l : clean (map ITCancel l) = true.
Proof. induction l; simpl; auto. Qed.
Lemma clean_map_pd (l : list tjob) : clean (map (fun job => IPDone (tj_id job)) l) = true.
Proof. induction l; simpl; auto. Qed.
Lemma clean_cons i p : clean (i :: p) = negb (is_wait i) && clean p.
Proof. reflexivity. Qed.
#[export] Hint Rewrite clean_cons clean_app clean_ret_of clean_cb_prog clean_cbs_prog clean_map_tc clean_map_pd : cln.

Definition pendset (s : st) : Prop := exists t r, thr s t = IEvSet :: r.
Definition cov (s : st) (tau : option Z) (job : tjob) : Prop :=
  exists x, tau = Some x /\ x <= Z.max 0 (tj_deadline job - wclk s).

Record Inv3 (s : st) : Prop := {
  i3_clean : forall t, clean (tl (thr s t)) = true;
  i3_wait : forall tau r, thr s jt = IWWait tau :: r ->
            forall job, In job (jobs s) -> cov s tau job \/ evf s = true \/ pendset s;
  i3_calc : forall r, thr s jt = IWaitCalc (Some true) :: r ->
            forall job, In job (jobs s) -> evf s = true \/ pendset s;
  i3_woke : forall r, thr s jt = IWWoke :: r ->
            exists tau since, wblock s = Some (tau, since) /\
            forall job, In job (jobs s) -> cov s tau job \/ wnotif s = true \/ pendset s
}.

Lemma isnil_nil {A} (l : list A) : isnil l = true -> l = [].
Proof. destruct l; simpl; congruence. Qed.

Lemma stamp_head s1 P : clean P = true ->
  (forall tau r, stamp s1 P <> IWWait tau :: r) /\ (forall r, stamp s1 P <> IWWoke :: r) /\
  (forall r, stamp s1 P = IWaitCalc (Some true) :: r -> jobs s1 = []) /\ clean (tl (stamp s1 P)) = true.
Proof.
  intros H. destruct P as [|i r]; [simpl; repeat split; congruence|].
  rewrite clean_cons in H. apply andb_true_iff in H. destruct H as [Hi Hr].
  destruct i; simpl in Hi; try discriminate Hi; simpl; repeat split; try congruence.
  all: destruct e as [b|]; try discriminate Hi; simpl; try congruence.
  intros r0 Q. inversion Q. apply isnil_nil. assumption.
Qed.

Definition not_evset (p : list instr) : Prop := match p with IEvSet :: _ => False | _ => True end.

Lemma pendset_keep s s' t P : pendset s -> not_evset (thr s t) -> thr s' = upd (thr s) t P -> pendset s'.
Proof.
  intros [t0 [r H]] N E. exists t0, r. rewrite E. unfold upd.
  destruct (Nat.eqb t0 t) eqn:Et; [|exact H]. apply Nat.eqb_eq in Et. subst. rewrite H in N. destruct N.
Qed.

Lemma cov_eq s s' tau job : wclk s' = wclk s -> cov s tau job -> cov s' tau job.
Proof. intros E [x H]. exists x. rewrite E. exact H. Qed.

(* a step of thread t that touches neither the event nor the wait bookkeeping and does not add jobs *)
Lemma inv3_neutral s s' s1 t P :
  Inv3 s -> not_evset (thr s t) -> thr s' = upd (thr s) t (stamp s1 P) ->
  (clean (tl (thr s t)) = true -> clean P = true) -> jobs s1 = jobs s' -> incl (jobs s') (jobs s) ->
  evf s' = evf s -> wnotif s' = wnotif s -> wblock s' = wblock s -> wclk s' = wclk s -> Inv3 s'.
Proof.
  intros [A B C D] N ET CP EJ IJ E1 E2 E3 E4.
  specialize (CP (A t)). destruct (stamp_head s1 P CP) as [S1 [S2 [S3 S4]]].
  assert (PK : pendset s -> pendset s') by (intros Hp; eapply pendset_keep; eauto).
  split.
  - intros t'. rewrite ET. unfold upd. destruct (Nat.eqb t' t); [exact S4|apply A].
  - intros tau r. rewrite ET. unfold upd. destruct (Nat.eqb jt t) eqn:Et; [intros Q; destruct (S1 _ _ Q)|].
    intros Q job Hin. destruct (B _ _ Q job (IJ _ Hin)) as [H|[H|H]];
      [left; eapply cov_eq; eauto|right; left; congruence|right; right; auto].
  - intros r. rewrite ET. unfold upd. destruct (Nat.eqb jt t) eqn:Et.
    + intros Q job Hin. rewrite <- EJ, (S3 _ Q) in Hin. destruct Hin.
    + intros Q job Hin. destruct (C _ Q job (IJ _ Hin)) as [H|H]; [left; congruence|right; auto].
  - intros r. rewrite ET. unfold upd. destruct (Nat.eqb jt t) eqn:Et; [intros Q; destruct (S2 _ Q)|].
    intros Q. destruct (D _ Q) as [tau [since [W H]]]. exists tau, since. split; [congruence|].
    intros job Hin. destruct (H job (IJ _ Hin)) as [K|[K|K]];
      [left; eapply cov_eq; eauto|right; left; congruence|right; right; auto].
Qed.

Arguments stamp : simpl never.

Lemma inv3_same s s' : Inv3 s -> thr s' = thr s -> jobs s' = jobs s -> evf s' = evf s ->
  wnotif s' = wnotif s -> wblock s' = wblock s -> wclk s' = wclk s -> Inv3 s'.
Proof.
  intros [A B C D] E1 E2 E3 E4 E5 E6. split; unfold pendset, cov in *; rewrite ?E1, ?E2, ?E3, ?E4, ?E5, ?E6; assumption.
Qed.

(* a step of the job thread itself to a program whose head is not a wait instruction *)
Lemma inv3_jt_clean s s' s1 P :
  Inv3 s -> thr s' = upd (thr s) jt (stamp s1 P) -> clean P = true -> jobs s1 = jobs s' -> Inv3 s'.
Proof.
  intros [A B C D] ET CP EJ. destruct (stamp_head s1 P CP) as [S1 [S2 [S3 S4]]].
  split; rewrite ET; unfold upd; rewrite ?Nat.eqb_refl.
  - intros t'. destruct (Nat.eqb t' jt); [exact S4|apply A].
  - intros tau r Q. destruct (S1 _ _ Q).
  - intros r Q job Hin. rewrite <- EJ, (S3 _ Q) in Hin. destruct Hin.
  - intros r Q. destruct (S2 _ Q).
Qed.

Lemma partition_pend_incl s l0 l1 : partition s = (l0, l1) -> incl l0 (jobs s).
Proof.
  unfold partition. intros E job Hin. apply (f_equal fst) in E. simpl in E. subst l0.
  apply partition_pending in Hin. tauto.
Qed.

Lemma cov_wait_time s w job : In job (jobs s) -> cov (s <| wclk := w |>) (wait_time (jobs s) w) job.
Proof.
  intros Hin. destruct (wait_time_spec (jobs s) w) as [m [E [_ Hm]]]; [intros Q; rewrite Q in Hin; destruct Hin|].
  exists (Z.max (m - w) 0). split; [exact E|]. simpl. specialize (Hm job Hin). lia.
Qed.

Ltac neutral I :=
  match goal with
  | E : thr ?s ?t = ?p |- Inv3 _ =>
      eapply (inv3_neutral s _ _ t);
      [exact I | rewrite E; exact Logic.I | simpl; reflexivity
      | rewrite E; simpl tl; intros CL; autorewrite with cln in CL; simpl in CL; autorewrite with cln; simpl; rewrite ?CL; reflexivity
      | reflexivity | simpl; apply incl_refl
      | reflexivity | reflexivity | reflexivity | reflexivity ]
  end.

Lemma inv3_step0 s e s' : Inv3 s -> step0 s e = Some s' -> Inv3 s'.
Proof.
  intros I H. step0_cases H.
  all: try solve [neutral I].
  - (* XSec: the appender's next operation is event.set() *)
    destruct I as [A B C D].
    assert (CL : clean l = true) by (specialize (A t); rewrite E1 in A; exact A).
    assert (PS : forall s1, pendset (log (set_prog s1 t (IEvSet :: IRelG :: IRet :: l)) (HSub (tj_id job) (tj_deadline job) (clock s)))).
    { intros s1. exists t, (IRelG :: IRet :: l). simpl. unfold upd. rewrite Nat.eqb_refl. reflexivity. }
    split; simpl; unfold upd.
    + intros t'. destruct (Nat.eqb t' t); [simpl; exact CL|apply A].
    + intros tau r. destruct (Nat.eqb jt t); [discriminate|]. intros _ ? _. right; right. apply PS.
    + intros r. destruct (Nat.eqb jt t); [discriminate|]. intros _ ? _. right. apply PS.
    + intros r. destruct (Nat.eqb jt t); [discriminate|]. intros Q. destruct (D _ Q) as [tau [since [W _]]].
      exists tau, since. split; [exact W|]. intros ? _. right; right. apply PS.
  - (* XRel: _jobs = pending *)
    eapply (inv3_neutral s _ _ t);
      [exact I | rewrite E0; exact Logic.I | simpl; reflexivity
      | rewrite E0; simpl tl; intros CL; autorewrite with cln; simpl; rewrite ?CL; reflexivity
      | reflexivity | simpl; eapply partition_pend_incl; eauto
      | reflexivity | reflexivity | reflexivity | reflexivity ].
  - (* event.set() *)
    destruct I as [A B C D].
    assert (CL : clean l = true) by (specialize (A t); rewrite E0 in A; exact A).
    destruct (stamp_head (s <| evf := true |> <| wnotif := issome (wblock s) || wnotif s |>) l CL) as [S1 [S2 [S3 S4]]].
    split; simpl; unfold upd.
    + intros t'. destruct (Nat.eqb t' t); [exact S4|apply A].
    + intros tau r. destruct (Nat.eqb jt t); [intros Q; destruct (S1 _ _ Q)|]. intros _ ? _. right; left; reflexivity.
    + intros r. destruct (Nat.eqb jt t); [intros Q job Hin; simpl in S3; rewrite (S3 _ Q) in Hin; destruct Hin|].
      intros _ ? _. left; reflexivity.
    + intros r. destruct (Nat.eqb jt t); [intros Q; destruct (S2 _ Q)|]. intros Q.
      destruct (D _ Q) as [tau [since [W _]]]. exists tau, since. split; [exact W|].
      intros ? _. right; left. rewrite W. reflexivity.
  - (* wait_time computed from the live list *)
    match goal with E : _ || negb (Nat.eqb t jt) = false |- _ =>
      apply orb_false_iff in E; destruct E as [_ E]; apply negb_false_iff, Nat.eqb_eq in E; subst t end.
    destruct I as [A B C D].
    assert (CL : clean l = true) by (specialize (A jt); rewrite E1 in A; exact A).
    split; simpl; unfold upd; rewrite ?Nat.eqb_refl.
    + intros t'. destruct (Nat.eqb t' jt); [unfold stamp; simpl; exact CL|apply A].
    + unfold stamp. intros tau r Q job Hin. inversion Q; subst. left. apply (cov_wait_time s w job Hin).
    + unfold stamp. intros r Q. discriminate Q.
    + unfold stamp. intros r Q. discriminate Q.
  - (* wait: flag already set *)
    assert (CL : clean l = true).
    { apply wait_view_inv in E0. destruct I as [A _ _ _]. specialize (A jt).
      destruct E0 as [E0|[E0 _]]; rewrite E0 in A; exact A. }
    eapply (inv3_jt_clean s _ s); [exact I|simpl; reflexivity|simpl; exact CL|reflexivity].
  - (* wait: blocks *)
    destruct I as [A B C D].
    assert (NE : not_evset (thr s jt)).
    { apply wait_view_inv in E0. destruct E0 as [E0|[E0 _]]; rewrite E0; exact Logic.I. }
    assert (CL : clean l = true).
    { apply wait_view_inv in E0. specialize (A jt). destruct E0 as [E0|[E0 _]]; rewrite E0 in A; exact A. }
    assert (OB : forall job, In job (jobs s) -> cov s tau job \/ pendset s).
    { intros job Hin. apply wait_view_inv in E0. destruct E0 as [E0|[E0 _]].
      - destruct (B _ _ E0 job Hin) as [H|[H|H]]; [auto|congruence|auto].
      - destruct (C _ E0 job Hin) as [H|H]; [congruence|auto]. }
    split; simpl; unfold upd; rewrite ?Nat.eqb_refl; unfold stamp.
    + intros t'. destruct (Nat.eqb t' jt); [simpl; exact CL|apply A].
    + intros ? ? Q; discriminate Q.
    + intros ? Q; discriminate Q.
    + intros r _. exists tau, (clock s). split; [reflexivity|]. intros job Hin.
      destruct (OB job Hin) as [H|H]; [left; exact H|right; right].
      eapply pendset_keep; [exact H|exact NE|simpl; reflexivity].
  - (* woke *)
    assert (CL : clean l = true) by (destruct I as [A _ _ _]; specialize (A jt); rewrite E0 in A; exact A).
    eapply (inv3_jt_clean s _ (s <| wblock := None |> <| wnotif := false |>));
      [exact I|simpl; reflexivity|simpl; exact CL|reflexivity].
  - assert (CL : clean l = true) by (destruct I as [A _ _ _]; specialize (A jt); rewrite E0 in A; exact A).
    eapply (inv3_jt_clean s _ (s <| wblock := None |> <| wnotif := false |>));
      [exact I|simpl; reflexivity|simpl; exact CL|reflexivity].
  - (* clear *)
    assert (CL : clean l = true) by (destruct I as [A _ _ _]; specialize (A jt); rewrite E0 in A; exact A).
    eapply (inv3_jt_clean s _ (s <| evf := false |>)); [exact I|simpl; reflexivity|exact CL|reflexivity].
  - apply (inv3_same s); auto.
Qed.

Lemma inv3_init : Inv3 init.
Proof. split; simpl; intros; try discriminate; auto. Qed.

Lemma inv3_reach s : reachable_from step init s -> Inv3 s.
Proof.
  apply invariant_rule; [exact inv3_init|]. intros s0 e s1 I H.
  apply step_split in H. destruct H as [_ H]. eapply inv3_step0; [|exact H].
  apply (inv3_same s0); auto.
Qed.

(* no_lost_wakeup: while the job thread sleeps un-notified, every job in _jobs is covered by the
   timeout it sleeps with, or the set() of the submitter that appended it is its very next step *)
Lemma no_lost_wakeup_l s : reachable_from step init s ->
  forall r tau since, thr s jt = IWWoke :: r -> wblock s = Some (tau, since) -> wnotif s = false ->
  forall job, In job (jobs s) -> cov s tau job \/ pendset s.
Proof.
  intros R r tau since Q W N job Hin. destruct (i3_woke s (inv3_reach s R) r Q) as [tau' [since' [W' H]]].
  rewrite W in W'. inversion W'; subst. destruct (H job Hin) as [K|[K|K]]; [auto|congruence|auto].
Qed.

(* sleep_le_earliest: the timeout handed to event.wait() covers every job in _jobs unless a set()
   is already visible or imminent *)
Lemma sleep_le_earliest_l s : reachable_from step init s ->
  forall tau r, thr s jt = IWWait tau :: r ->
  forall job, In job (jobs s) -> cov s tau job \/ evf s = true \/ pendset s.
Proof. intros R. exact (i3_wait s (inv3_reach s R)). Qed.

(* ---- frame lemmas: what one step does to the history and to the pending cancels ------------------- *)
Lemma mkjob_eta job : mkjob (tj_id job) (tj_deadline job) = job.
Proof. destruct job; reflexivity. Qed.

Lemma hist_grows s e s' : step0 s e = Some s' -> exists new, hist s' = new ++ hist s.
Proof.
  intros H. step0_cases H; simpl;
    first [exists []; reflexivity | eexists [_]; reflexivity | eexists [_; _]; reflexivity].
Qed.

Lemma hist_mono s e s' h : step0 s e = Some s' -> In h (hist s) -> In h (hist s').
Proof. intros H Hin. destruct (hist_grows _ _ _ H) as [new E]. rewrite E. apply in_or_app. auto. Qed.

Lemma attempt_frame s e s' : step0 s e = Some s' ->
  forall j dl ts, In (HAttempt j dl ts) (hist s') ->
  In (HAttempt j dl ts) (hist s) \/ (ts = clock s /\ In (mkjob j dl) (tcs (thr s jt))).
Proof.
  intros H. step0_cases H; simpl; intros j' dl' ts' Hin.
  all: repeat match type of Hin with _ \/ _ => destruct Hin as [Hin|Hin]; [try discriminate Hin|] end.
  all: try (left; exact Hin).
  inversion Hin; subst. right. split; [reflexivity|].
  match goal with E : _ && _ = true |- _ => apply andb_true_iff in E; destruct E as [E1' E2'];
    apply Nat.eqb_eq in E1', E2'; subst end.
  match goal with E : thr _ jt = _ |- _ => rewrite E end. rewrite mkjob_eta. simpl. auto.
Qed.

Lemma tcs_frame s e s' : step0 s e = Some s' ->
  forall job, In job (tcs (thr s' jt)) ->
  In job (tcs (thr s jt)) \/
  (exists l0 l1, hist s' = HPart (pnow s) l0 l1 :: hist s /\ In job l1 /\ tj_deadline job < pnow s /\ pnow s' = pnow s /\
                 partition s = (l0, l1) /\ exists l, thr s jt = IXRelP :: l).
Proof.
  intros H. step0_cases H; simpl.
  all: try match goal with E : wait_view _ = _ |- _ => apply wait_view_tcs in E; rewrite E end.
  all: intros job' Hin; try (left; exact Hin); unfold upd in Hin; rewrite ?Nat.eqb_refl in Hin;
       try match type of Hin with context [Nat.eqb jt ?t] => destruct (Nat.eqb jt t) eqn:Et;
          [apply Nat.eqb_eq in Et; subst|left; exact Hin] end;
       try match goal with E : thr _ jt = _ |- _ => rewrite E end;
       tcs_in Hin; simpl; try (left; tauto).
  destruct Hin as [Hin|Hin]; [right|left; exact Hin].
  eexists _, _. split; [reflexivity|]. split; [exact Hin|]. split; [eapply partition_ovd; eauto|].
  split; [reflexivity|]. split; [first [eassumption|reflexivity]|]. eexists; first [eassumption|reflexivity].
Qed.

Lemma clock_step0 s e s' : step0 s e = Some s' -> clock s' = clock s.
Proof. intros H. step0_cases H; reflexivity. Qed.

(* ---- I4: every attempt belongs to a partition that classified the job overdue --------------------- *)
Definition from_part (h : list hev) (job : tjob) (upto : Z) : Prop :=
  exists now pend ovd, In (HPart now pend ovd) h /\ In job ovd /\ tj_deadline job < now /\ now <= upto.

Record Inv4 (s : st) : Prop := {
  i4_tc : forall job, In job (tcs (thr s jt)) -> from_part (hist s) job (clock s);
  i4_att : forall j dl ts, In (HAttempt j dl ts) (hist s) -> from_part (hist s) (mkjob j dl) ts
}.

Lemma from_part_mono h h' job a b : (forall x, In x h -> In x h') -> a <= b -> from_part h job a -> from_part h' job b.
Proof. intros Hh Hab [now [p [o [H1 [H2 [H3 H4]]]]]]. exists now, p, o. repeat split; auto. lia. Qed.

Lemma inv4_step0 s e s' : Inv1 s -> Inv4 s -> step0 s e = Some s' -> Inv4 s'.
Proof.
  intros I1 [A B] H. pose proof (clock_step0 _ _ _ H) as EC.
  assert (HM : forall x, In x (hist s) -> In x (hist s')) by (intros x; eapply hist_mono; eauto).
  split.
  - intros job Hin. destruct (tcs_frame _ _ _ H job Hin) as [K|[l0 [l1 [EH [K1 [K2 [K3 _]]]]]]].
    + eapply from_part_mono; [exact HM| |apply A; exact K]. lia.
    + exists (pnow s), l0, l1. rewrite EH. repeat split; simpl; auto. rewrite EC. apply (i1_now s I1).
  - intros j dl ts Hin. destruct (attempt_frame _ _ _ H j dl ts Hin) as [K|[K1 K2]].
    + eapply from_part_mono; [exact HM| |apply B; exact K]. lia.
    + subst ts. eapply from_part_mono; [exact HM| |apply A; exact K2]. lia.
Qed.

Lemma inv4_reach s : reachable_from step init s -> Inv4 s.
Proof.
  apply invariant_rule_r.
  - split; simpl; intros; tauto.
  - intros s0 e s1 R I H. apply step_split in H. destruct H as [Hc H].
    eapply inv4_step0; [| |exact H].
    + apply inv1_tick; [apply inv1_reach; exact R|exact Hc].
    + destruct I as [A B]. split; simpl; [|exact B].
      intros job Hin. eapply from_part_mono; [| |apply A; exact Hin]; auto.
Qed.

(* overdue_cancelled_this_iteration, seen from the attempt: it was produced by a partition whose
   clock reading exceeded the deadline and that ran no later than the attempt *)
Lemma attempt_from_partition_l s : reachable_from step init s ->
  forall j dl ts, In (HAttempt j dl ts) (hist s) ->
  exists now pend ovd, In (HPart now pend ovd) (hist s) /\ In (mkjob j dl) ovd /\ dl < now /\ now <= ts.
Proof. intros R j dl ts Hin. exact (i4_att s (inv4_reach s R) j dl ts Hin). Qed.

(* ---- I5: every job classified overdue is attempted before the job thread leaves the iteration ----- *)
(* ---- I5: every job classified overdue is attempted before the job thread leaves the iteration ----- *)
Lemma tcs_frame_rev s e s' : step0 s e = Some s' ->
  forall job, In job (tcs (thr s jt)) ->
  In job (tcs (thr s' jt)) \/ In (HAttempt (tj_id job) (tj_deadline job) (clock s)) (hist s').
Proof.
  intros H. step0_cases H; simpl.
  all: try match goal with E : wait_view _ = _ |- _ => apply wait_view_tcs in E; rewrite E end.
  all: intros job' Hin; try (left; exact Hin); unfold upd; rewrite ?Nat.eqb_refl;
       try match goal with |- context [Nat.eqb jt ?t] => destruct (Nat.eqb jt t) eqn:Et;
          [apply Nat.eqb_eq in Et; subst|left; exact Hin] end;
       try match goal with E : thr _ jt = _ |- _ => rewrite E in Hin end;
       tcs_in Hin; autorewrite with tcs; simpl; repeat rewrite in_app_iff; simpl; try (left; tauto).
  destruct Hin as [Hin|Hin]; [subst job'|left; exact Hin].
  match goal with E : _ && _ = true |- _ => apply andb_true_iff in E; destruct E as [E1' _]; apply Nat.eqb_eq in E1'; subst end.
  right; left; reflexivity.
Qed.

Lemma part_frame s e s' : step0 s e = Some s' ->
  forall now pend ovd, In (HPart now pend ovd) (hist s') ->
  In (HPart now pend ovd) (hist s) \/ (forall job, In job ovd -> In job (tcs (thr s' jt))).
Proof.
  intros H. step0_cases H; simpl; intros now' pend' ovd' Hin.
  all: repeat match type of Hin with _ \/ _ => destruct Hin as [Hin|Hin]; [try discriminate Hin|] end.
  all: try (left; exact Hin).
  inversion Hin; subst. right. intros job Hj.
  match goal with E : _ || negb (Nat.eqb ?t jt) = false |- _ =>
    apply orb_false_iff in E; destruct E as [_ E]; apply negb_false_iff, Nat.eqb_eq in E; subst t end.
  unfold upd. rewrite Nat.eqb_refl. autorewrite with tcs. apply in_or_app. left. exact Hj.
Qed.

Definition Inv5 (s : st) : Prop :=
  forall now pend ovd job, In (HPart now pend ovd) (hist s) -> In job ovd ->
  (exists ts, In (HAttempt (tj_id job) (tj_deadline job) ts) (hist s)) \/ In job (tcs (thr s jt)).

Lemma inv5_step0 s e s' : Inv5 s -> step0 s e = Some s' -> Inv5 s'.
Proof.
  intros A H now pend ovd job HP Hj.
  destruct (part_frame _ _ _ H _ _ _ HP) as [K|K]; [|right; apply K; exact Hj].
  destruct (A _ _ _ _ K Hj) as [[ts Ha]|Ht].
  - left. exists ts. eapply hist_mono; eauto.
  - destruct (tcs_frame_rev _ _ _ H job Ht) as [Q|Q]; [right; exact Q|left; eexists; exact Q].
Qed.

Lemma inv5_reach s : reachable_from step init s -> Inv5 s.
Proof.
  apply invariant_rule; [intros ? ? ? ? []|]. intros s0 e s1 I H.
  apply step_split in H. destruct H as [_ H]. eapply inv5_step0; [|exact H]. exact I.
Qed.

(* loop-control instructions of the job thread: nothing classified overdue is left behind them *)
Definition loopctl (i : instr) : bool :=
  match i with IClockP | IPDone _ | IXRelP | IWaitCalc _ | IWWait _ | IWWoke | IWClear => true | _ => false end.
Fixpoint ctl_ok (p : list instr) : bool :=
  match p with [] => true | i :: r => (if loopctl i then isnil (tcs r) else true) && ctl_ok r end.

Lemma ctl_ok_tcs_nil p : tcs p = [] -> ctl_ok p = true.
Proof.
  induction p as [|i r IH]; [reflexivity|]. rewrite tcs_cons. intros H. apply app_eq_nil in H. destruct H as [_ H].
  simpl. rewrite (IH H), H. destruct (loopctl i); reflexivity.
Qed.
Lemma ctl_ok_app p q : ctl_ok q = true -> (forall i, In i p -> loopctl i = false) -> ctl_ok (p ++ q) = true.
Proof.
  intros Hq Hp. induction p as [|i r IH]; [exact Hq|]. simpl. rewrite (Hp i (or_introl eq_refl)). simpl.
  apply IH. intros x Hx. apply Hp. right. exact Hx.
Qed.
Lemma ctl_ok_tl i r : ctl_ok (i :: r) = true -> ctl_ok r = true.
Proof. simpl. intros H. apply andb_true_iff in H. tauto. Qed.
Lemma ctl_ok_head i r : ctl_ok (i :: r) = true -> loopctl i = true -> tcs r = [].
Proof. simpl. intros H L. rewrite L in H. apply andb_true_iff in H. destruct H as [H _]. apply isnil_nil. exact H. Qed.

Lemma ctl_ok_stamp s p : ctl_ok (stamp s p) = ctl_ok p.
Proof. unfold stamp. destruct p as [|[] r]; try reflexivity. destruct e; reflexivity. Qed.
Lemma ctl_ok_pd (js : list tjob) l : tcs l = [] -> ctl_ok l = true ->
  ctl_ok (map (fun job => IPDone (tj_id job)) js ++ IXRelP :: l) = true.
Proof.
  intros T C. induction js as [|a r IH]; simpl.
  - rewrite T, C. reflexivity.
  - rewrite IH. fold (tcs (map (fun job : tjob => IPDone (tj_id job)) r ++ IXRelP :: l)).
    rewrite tcs_app, tcs_map_pd, tcs_cons, T. reflexivity.
Qed.
Lemma ctl_ok_tc ovd l : ctl_ok l = true -> ctl_ok (map ITCancel ovd ++ l) = true.
Proof. intros C. apply ctl_ok_app; [exact C|]. intros i Hi. apply in_map_iff in Hi. destruct Hi as [x [<- _]]. reflexivity. Qed.
Lemma ctl_ok_ret_of t b l : ctl_ok (ret_of t b ++ l) = ctl_ok l.
Proof. unfold ret_of. destruct (Nat.eqb t jt); reflexivity. Qed.
Lemma ctl_ok_cb_prog j c l : ctl_ok (cb_prog j c ++ l) = ctl_ok l.
Proof. destruct c; reflexivity. Qed.
Lemma ctl_ok_cbs_prog j cs l : ctl_ok l = true -> ctl_ok (cbs_prog j cs ++ l) = true.
Proof.
  intros C. apply ctl_ok_app; [exact C|]. intros i Hi. unfold cbs_prog in Hi. apply in_flat_map in Hi.
  destruct Hi as [c [_ Hc]]. destruct c; simpl in Hc; destruct Hc as [<-|[]]; reflexivity.
Qed.

Definition Inv6 (s : st) : Prop := forall t, ctl_ok (thr s t) = true.

Lemma inv6_step0 s e s' : Inv6 s -> step0 s e = Some s' -> Inv6 s'.
Proof.
  intros A H. step0_cases H.
  all: try match goal with E : wait_view _ = _ |- _ => apply wait_view_inv in E; destruct E as [E|[E _]] end.
  all: intros t'; simpl; try apply A; unfold upd;
       match goal with |- context [Nat.eqb t' ?t] => destruct (Nat.eqb t' t) eqn:Et; [|apply A];
         rewrite ctl_ok_stamp; specialize (A t) end;
       match goal with E : thr _ _ = _ |- _ => rewrite E in A end; simpl in A |- *;
       repeat match type of A with _ && _ = true => let A1 := fresh "A" in apply andb_true_iff in A; destruct A as [A1 A] end;
       rewrite ?ctl_ok_ret_of, ?ctl_ok_cb_prog; try rewrite A; try reflexivity.
  all: try (rewrite A0; reflexivity).
  - apply ctl_ok_tc. simpl. rewrite A0, A. reflexivity.
  - apply ctl_ok_cbs_prog. exact A.
  - apply ctl_ok_pd; [apply isnil_nil; exact A0|exact A].
Qed.

Lemma inv6_reach s : reachable_from step init s -> Inv6 s.
Proof.
  apply invariant_rule; [intros t; reflexivity|]. intros s0 e s1 I H.
  apply step_split in H. destruct H as [_ H]. eapply inv6_step0; [|exact H]. exact I.
Qed.

(* overdue_cancelled_this_iteration: a job classified overdue by a partition has been attempted, or
   its cancel is still ahead in the job thread's program; and whenever the job thread is at a
   loop-control point (next partition, computing the wait, waiting, clearing) nothing is ahead *)
Lemma overdue_attempted_l s : reachable_from step init s ->
  forall now pend ovd job, In (HPart now pend ovd) (hist s) -> In job ovd ->
  (exists ts, In (HAttempt (tj_id job) (tj_deadline job) ts) (hist s)) \/
  (In job (tcs (thr s jt)) /\ match thr s jt with i :: _ => loopctl i = false | [] => False end).
Proof.
  intros R now pend ovd job HP Hj. destruct (inv5_reach s R _ _ _ _ HP Hj) as [K|K]; [left; exact K|right].
  split; [exact K|]. pose proof (inv6_reach s R jt) as C.
  destruct (thr s jt) as [|i r] eqn:E; [destruct K|].
  destruct (loopctl i) eqn:L; [|reflexivity].
  rewrite tcs_cons in K. rewrite (ctl_ok_head _ _ C L), app_nil_r in K.
  destruct i; simpl in L; try discriminate L; destruct K.
Qed.

(* ---- I7: the partition's done() answers; outcomes set before the deadline exclude an attempt ------ *)
Definition is_part (i : instr) : bool := match i with IClockP | IPDone _ | IXRelP => true | _ => false end.
Definition nopart (p : list instr) : bool := forallb (fun i => negb (is_part i)) p.
Fixpoint pshape (p : list instr) : bool :=
  match p with
  | IPDone _ :: r => pshape r
  | IXRelP :: r | IClockP :: r => nopart r
  | _ => nopart p
  end.
Fixpoint pdh (p : list instr) : list nat := match p with IPDone j :: r => j :: pdh r | _ => [] end.
Definition holdsx (p : list instr) : bool := match p with IClockP :: _ | IPDone _ :: _ | IXRelP :: _ => true | _ => false end.
Definition in_part (p : list instr) : bool := match p with IPDone _ :: _ | IXRelP :: _ => true | _ => false end.

Lemma nopart_app p q : nopart (p ++ q) = nopart p && nopart q.
Proof. apply forallb_app. Qed.
Lemma nopart_cons i p : nopart (i :: p) = negb (is_part i) && nopart p.
Proof. reflexivity. Qed.
Lemma nopart_ret_of t b : nopart (ret_of t b) = true.
Proof. unfold ret_of. destruct (Nat.eqb t jt); reflexivity. Qed.
Lemma nopart_cb_prog j c : nopart (cb_prog j c) = true.
Proof. destruct c; reflexivity. Qed.
Lemma nopart_cbs_prog j l : nopart (cbs_prog j l) = true.
Proof.
  induction l as [|c r IH]; [reflexivity|]. unfold cbs_prog in *. simpl flat_map.
  rewrite nopart_app, nopart_cb_prog, IH. reflexivity.
Qed.
Lemma nopart_map_tc l : nopart (map ITCancel l) = true.
Proof. induction l; simpl; auto. Qed.
#[export] Hint Rewrite nopart_cons nopart_app nopart_ret_of nopart_cb_prog nopart_cbs_prog nopart_map_tc : npt.

Lemma nopart_pshape p : nopart p = true -> pshape p = true.
Proof. destruct p as [|i r]; [reflexivity|]. rewrite nopart_cons. destruct i; simpl; intros H; try discriminate H; exact H. Qed.
Lemma nopart_holdsx p : nopart p = true -> holdsx p = false.
Proof. destruct p as [|i r]; [reflexivity|]. rewrite nopart_cons. destruct i; simpl; intros H; try discriminate H; reflexivity. Qed.
Lemma pshape_stamp s p : pshape (stamp s p) = pshape p.
Proof. unfold stamp. destruct p as [|[] r]; try reflexivity. destruct e; reflexivity. Qed.
Lemma holdsx_stamp s p : holdsx (stamp s p) = holdsx p.
Proof. unfold stamp. destruct p as [|[] r]; try reflexivity. destruct e; reflexivity. Qed.
Lemma pshape_pd (js : list tjob) l : nopart l = true ->
  pshape (map (fun job => IPDone (tj_id job)) js ++ IXRelP :: l) = true.
Proof. intros H. induction js; simpl; auto. Qed.
Lemma pdh_pd (js : list tjob) l : pdh (map (fun job => IPDone (tj_id job)) js ++ IXRelP :: l) = map tj_id js.
Proof. induction js as [|a r IH]; simpl; [reflexivity|]. rewrite IH. reflexivity. Qed.

Definition Inv7s (s : st) : Prop := forall t, pshape (thr s t) = true.

Lemma inv7s_step0 s e s' : Inv7s s -> step0 s e = Some s' -> Inv7s s'.
Proof.
  intros A H. step0_cases H.
  all: try match goal with E : wait_view _ = _ |- _ => apply wait_view_inv in E; destruct E as [E|[E _]] end.
  all: intros t'; simpl; try apply A; unfold upd;
       match goal with |- context [Nat.eqb t' ?t] => destruct (Nat.eqb t' t) eqn:Et; [|apply A];
         rewrite pshape_stamp; specialize (A t) end;
       match goal with E : thr _ _ = _ |- _ => rewrite E in A end; simpl in A;
       try (apply pshape_pd; exact A);
       try (apply nopart_pshape; autorewrite with npt in A |- *; simpl in A |- *; rewrite ?A; reflexivity).
  - reflexivity.
  - exact A.
Qed.

Lemma inv7s_reach s : reachable_from step init s -> Inv7s s.
Proof.
  apply invariant_rule; [intros t; reflexivity|]. intros s0 e s1 I H.
  apply step_split in H. destruct H as [_ H]. eapply inv7s_step0; [|exact H]. exact I.
Qed.

Lemma hset_frame s e s' : step0 s e = Some s' ->
  forall j o ts, In (HSet j o ts) (hist s') -> In (HSet j o ts) (hist s) \/ (ts = clock s /\ rs s j <> Finished).
Proof.
  intros H. step0_cases H; simpl; intros j' o' ts' Hin.
  all: repeat match type of Hin with _ \/ _ => destruct Hin as [Hin|Hin]; [try discriminate Hin|] end.
  all: try (left; exact Hin).
  all: inversion Hin; subst; right; split; [reflexivity|].
  all: match goal with E : negb (fstate_eqb _ _) = false |- _ => apply pre_eq in E; subst end.
  all: match goal with E : f_set _ = Some _ |- _ => apply f_set_fin in E; tauto end.
Qed.

Definition hset_late (s : st) (j : nat) : Prop := forall o ts, In (HSet j o ts) (hist s) -> pnow s <= ts.

Record Inv7p (s : st) : Prop := {
  p_x : holdsx (thr s jt) = true -> xown s = Some jt;
  p_a : in_part (thr s jt) = true -> forall job, In job (jobs s) ->
        In (tj_id job) (pdh (thr s jt)) \/ pans s (tj_id job) = true \/ hset_late s (tj_id job)
}.

Lemma in_part_holdsx p : in_part p = true -> holdsx p = true.
Proof. destruct p as [|[] r]; simpl; congruence. Qed.

Lemma inv7p_other s s' : Inv1 s -> Inv7p s -> thr s' jt = thr s jt ->
  (xown s = Some jt -> jobs s' = jobs s) -> xown s' = xown s -> pans s' = pans s -> pnow s' = pnow s ->
  (forall j o ts, In (HSet j o ts) (hist s') -> In (HSet j o ts) (hist s) \/ ts = clock s) -> Inv7p s'.
Proof.
  intros I1 [X A] ET EJ EX EP EN EH. split; rewrite ET.
  - intros H. rewrite EX. auto.
  - intros H job Hin. rewrite EJ in Hin; [|apply X, in_part_holdsx, H]. rewrite EP.
    destruct (A H job Hin) as [K|[K|K]]; [auto|auto|right; right].
    intros o ts Hs. rewrite EN. destruct (EH _ _ _ Hs) as [Q|Q]; [apply (K _ _ Q)|subst ts; apply (i1_now s I1)].
Qed.

Lemma inv7p_out s' s1 P : thr s' jt = stamp s1 P -> nopart P = true -> Inv7p s'.
Proof.
  intros ET NP. assert (H : holdsx (thr s' jt) = false) by (rewrite ET, holdsx_stamp; apply nopart_holdsx, NP).
  split; intros K; [congruence|apply in_part_holdsx in K; congruence].
Qed.

Lemma pdh_stamp s p : pdh (stamp s p) = pdh p.
Proof. unfold stamp. destruct p as [|[] r]; try reflexivity. destruct e; reflexivity. Qed.
Lemma in_part_stamp s p : in_part (stamp s p) = in_part p.
Proof. unfold stamp. destruct p as [|[] r]; try reflexivity. destruct e; reflexivity. Qed.

Lemma inv7p_step0 s e s' : Inv1 s -> Inv2 s -> Inv7s s -> Inv7p s -> step0 s e = Some s' -> Inv7p s'.
Proof.
  intros I1 I2 SH I H. pose proof (hset_frame _ _ _ H) as HF.
  assert (HF' : forall j o ts, In (HSet j o ts) (hist s') -> In (HSet j o ts) (hist s) \/ ts = clock s)
    by (intros j o ts Q; destruct (HF j o ts Q) as [K|[K _]]; auto).
  clear HF. step0_cases H.
  all: try match goal with E : wait_view _ = _ |- _ => apply wait_view_inv in E; destruct E as [E|[E _]] end.
  (* steps of other threads, or of the job thread outside the partition *)
  all: try (match goal with E : thr ?s0 ?t = _ |- _ =>
              destruct (Nat.eqb jt t) eqn:Et;
              [ apply Nat.eqb_eq in Et; subst;
                try solve [ eapply inv7p_out; [simpl; unfold upd; rewrite Nat.eqb_refl; reflexivity|];
                            specialize (SH jt); rewrite E in SH; simpl in SH; autorewrite with npt in SH |- *;
                            simpl in SH |- *; rewrite ?SH; reflexivity ]
              | try solve [ apply (inv7p_other s0 _ I1 I);
                            [ simpl; unfold upd; rewrite Et; reflexivity
                            | simpl; intros XO; try reflexivity;
                              match goal with E' : issome (xown _) = false |- _ => rewrite XO in E'; discriminate E' end
                            | reflexivity | reflexivity | reflexivity | exact HF' ] ] ] end).
  (* contradictions: partition instructions are only executed by the job thread *)
  all: try solve [ exfalso; rewrite Nat.eqb_sym in Et;
                   match goal with E : context [negb (Nat.eqb ?t jt)] |- _ => rewrite Et in E; simpl in E;
                     rewrite ?orb_true_r in E; discriminate E end ].
  all: try solve [ apply (inv7p_other s _ I1 I); try reflexivity; auto ].
  - split; simpl; unfold upd; rewrite Nat.eqb_refl; unfold stamp; simpl; [reflexivity|discriminate].
  - (* job.future.done() inside the partition *)
    apply orb_false_iff in E5. destruct E5 as [E5 _]. apply negb_false_iff, Nat.eqb_eq in E5. subst j0.
    apply pre_eq in E0. subst pre. destruct I as [X A].
    rewrite E1 in X, A. specialize (X eq_refl). specialize (A eq_refl).
    split; simpl; rewrite !(upd_same (thr s)); [intros _; exact X|].
    rewrite in_part_stamp, pdh_stamp. intros _ job Hin. unfold hset_late in *. simpl in *.
    assert (J : tj_id job = j -> upd (pans s) j (fdone (rs s j)) (tj_id job) = true \/
                               (forall o ts, In (HSet (tj_id job) o ts) (hist s) -> pnow s <= ts)).
    { intros ->. rewrite upd_same. destruct (fdone (rs s j)) eqn:F; [left; reflexivity|right].
      intros o ts Hs. destruct (I2 _ _ _ Hs) as [R _]. rewrite R in F. discriminate F. }
    destruct (Nat.eq_dec (tj_id job) j) as [Ej|Ej]; [right; apply J; exact Ej|].
    destruct (A job Hin) as [[K|K]|[K|K]].
    + congruence.
    + left; exact K.
    + right; left. rewrite upd_other; auto.
    + right; right. exact K.
  - (* now = monotonic(): every job still has its done() call ahead *)
    destruct I as [X A]. rewrite E1 in X. specialize (X eq_refl).
    split; simpl; rewrite !(upd_same (thr s)); [intros _; exact X|].
    rewrite pdh_stamp, pdh_pd. intros _ job Hin. left. apply in_map. exact Hin.
Qed.

Lemma inv7p_reach s : reachable_from step init s -> Inv7p s.
Proof.
  apply invariant_rule_r.
  - split; simpl; discriminate.
  - intros s0 e s1 R I H. apply step_split in H. destruct H as [Hc H].
    eapply inv7p_step0; [| | | |exact H].
    + apply inv1_tick; [apply inv1_reach; exact R|exact Hc].
    + exact (inv2_reach s0 R).
    + exact (inv7s_reach s0 R).
    + destruct I as [X A]. split; [exact X|exact A].
Qed.

Record Inv7b (s : st) : Prop := {
  b_tc : forall job, In job (tcs (thr s jt)) ->
         forall o ts, In (HSet (tj_id job) o ts) (hist s) -> tj_deadline job < ts;
  b_now : forall j dl ts, In (HAttempt j dl ts) (hist s) -> dl < clock s;
  b_att : forall j dl ts' o ts, In (HAttempt j dl ts') (hist s) -> In (HSet j o ts) (hist s) -> dl < ts
}.

Lemma inv7b_step0 s e s' : Inv1 s -> Inv7p s -> Inv7b s -> step0 s e = Some s' -> Inv7b s'.
Proof.
  intros I1 IP [B N C] H. pose proof (clock_step0 _ _ _ H) as EC.
  pose proof (i1_now s I1) as PN. pose proof (i1_tc s I1) as TC.
  split.
  - intros job Hin o ts Hs.
    destruct (tcs_frame _ _ _ H job Hin) as [K|[l0 [l1 [EH [K1 [K2 [K3 [EP [l EL]]]]]]]]].
    + destruct (hset_frame _ _ _ H _ _ _ Hs) as [Q|[Q _]]; [eapply B; eauto|].
      subst ts. specialize (TC job K). lia.
    + rewrite EH in Hs. destruct Hs as [Q|Hs]; [discriminate Q|].
      assert (PO : In job (snd (partition s))) by (rewrite EP; exact K1).
      unfold partition in PO. apply partition_overdue in PO. destruct PO as [P1 [P2 P3]].
      destruct (p_a s IP) with (job := job) as [Q|[Q|Q]]; [rewrite EL; reflexivity|exact P1| | |].
      * rewrite EL in Q. destruct Q.
      * congruence.
      * specialize (Q _ _ Hs). lia.
  - intros j dl ts Hin. rewrite EC. destruct (attempt_frame _ _ _ H _ _ _ Hin) as [K|[K1 K2]]; [eapply N; eauto|].
    specialize (TC _ K2). simpl in TC. lia.
  - intros j dl ts' o ts Ha Hs.
    destruct (attempt_frame _ _ _ H _ _ _ Ha) as [K|[K1 K2]]; destruct (hset_frame _ _ _ H _ _ _ Hs) as [Q|[Q _]].
    + eapply C; eauto.
    + subst ts. eapply N; eauto.
    + apply (B _ K2 o ts Q).
    + subst ts. specialize (TC _ K2). simpl in TC. lia.
Qed.

Lemma inv7b_reach s : reachable_from step init s -> Inv7b s.
Proof.
  apply invariant_rule_r.
  - split; simpl; intros; tauto.
  - intros s0 e s1 R I H. apply step_split in H. destruct H as [Hc H].
    eapply inv7b_step0; [| | |exact H].
    + apply inv1_tick; [apply inv1_reach; exact R|exact Hc].
    + destruct (inv7p_reach s0 R) as [X A]. split; [exact X|exact A].
    + destruct I as [B N C]. split; simpl; [exact B| |exact C].
      intros j dl ts Hin. specialize (N _ _ _ Hin). lia.
Qed.

(* early_completion: an outcome set no later than the deadline excludes any cancel attempt by the
   job thread (equivalently: if both exist, the outcome was set after the deadline) *)
Lemma set_before_deadline_no_attempt_l s : reachable_from step init s ->
  forall j dl ts' o ts, In (HAttempt j dl ts') (hist s) -> In (HSet j o ts) (hist s) -> dl < ts.
Proof. intros R. exact (b_att s (inv7b_reach s R)). Qed.

(* ---- generic extraction of instruction payloads from programs -------------------------------------- *)
Section Ext.
  Context {A : Type} (f : instr -> list A).
  Hypothesis f_wc : forall e, f (IWaitCalc e) = [].
  Hypothesis f_retb : forall b, f (IRetB b) = [].
  Hypothesis f_evset : f IEvSet = [].
  Hypothesis f_ucb : forall j c, f (IUserCb j c) = [].
  Hypothesis f_tc : forall job, f (ITCancel job) = [].
  Hypothesis f_pd : forall j, f (IPDone j) = [].
  Definition ext (p : list instr) : list A := flat_map f p.
  Lemma ext_app p q : ext (p ++ q) = ext p ++ ext q.
  Proof. apply flat_map_app. Qed.
  Lemma ext_cons i p : ext (i :: p) = f i ++ ext p.
  Proof. reflexivity. Qed.
  Lemma ext_stamp s p : ext (stamp s p) = ext p.
  Proof. unfold stamp. destruct p as [|[] r]; try reflexivity. destruct e; rewrite !ext_cons, !f_wc; reflexivity. Qed.
  Lemma ext_ret_of t b : ext (ret_of t b) = [].
  Proof. unfold ret_of. destruct (Nat.eqb t jt); [reflexivity|]. rewrite ext_cons, f_retb. reflexivity. Qed.
  Lemma ext_cb_prog j c : ext (cb_prog j c) = [].
  Proof. destruct c; simpl cb_prog; rewrite ext_cons; rewrite ?f_evset, ?f_ucb; reflexivity. Qed.
  Lemma ext_cbs_prog j l : ext (cbs_prog j l) = [].
  Proof.
    induction l as [|c r IH]; [reflexivity|]. unfold cbs_prog in *. simpl flat_map.
    rewrite ext_app, ext_cb_prog, IH. reflexivity.
  Qed.
  Lemma ext_map_tc l : ext (map ITCancel l) = [].
  Proof. induction l as [|a r IH]; [reflexivity|]. simpl map. rewrite ext_cons, f_tc, IH. reflexivity. Qed.
  Lemma ext_map_pd (l : list tjob) : ext (map (fun job => IPDone (tj_id job)) l) = [].
  Proof. induction l as [|a r IH]; [reflexivity|]. simpl map. rewrite ext_cons, f_pd, IH. reflexivity. Qed.
End Ext.

Definition cd1 (i : instr) : list (nat * Z) := match i with IClockD j tmo => [(j, tmo)] | _ => [] end.
Definition xa1 (i : instr) : list tjob := match i with IXAppend job => [job] | _ => [] end.
Definition cds := ext cd1.
Definition xas := ext xa1.

Ltac ext_triv := intros; reflexivity.
Ltac ext_in f Hin :=
  unfold cds, xas in Hin;
  repeat first [ rewrite (ext_stamp f) in Hin by ext_triv | rewrite (ext_app f) in Hin
               | rewrite (ext_cons f) in Hin | rewrite (ext_ret_of f) in Hin by ext_triv
               | rewrite (ext_cb_prog f) in Hin by ext_triv | rewrite (ext_cbs_prog f) in Hin by ext_triv
               | rewrite (ext_map_tc f) in Hin by ext_triv | rewrite (ext_map_pd f) in Hin by ext_triv ];
  simpl in Hin; repeat rewrite in_app_iff in Hin; simpl in Hin.

Lemma wait_view_ext {A} (f : instr -> list A) p tau l :
  (forall e, f (IWaitCalc e) = []) -> (forall x, f (IWWait x) = []) ->
  wait_view p = IWWait tau :: l -> ext f p = ext f l.
Proof. intros F1 F2 H. apply wait_view_inv in H. destruct H as [->|[-> _]]; rewrite ext_cons, ?F1, ?F2; reflexivity. Qed.

Lemma cds_frame s e s' : step0 s e = Some s' ->
  forall t j tmo, In (j, tmo) (cds (thr s' t)) ->
  In (j, tmo) (cds (thr s t)) \/ (exists d, In (HNew j d tmo (clock s)) (hist s')).
Proof.
  intros H. step0_cases H; simpl.
  all: try match goal with E : wait_view _ = _ |- _ => apply (wait_view_ext cd1) in E; [|ext_triv|ext_triv] end.
  all: intros t0 j' tmo' Hin; try (left; exact Hin); unfold upd in Hin;
       try match type of Hin with context [Nat.eqb t0 ?t] => destruct (Nat.eqb t0 t) eqn:Et;
          [apply Nat.eqb_eq in Et; subst|left; exact Hin] end;
       try match goal with E : thr _ _ = _ |- _ => unfold cds; rewrite E end;
       try match goal with E : ext cd1 (thr _ _) = _ |- _ => unfold cds; rewrite E end;
       ext_in cd1 Hin; rewrite ?(ext_cons cd1); simpl; try (left; tauto).
  all: destruct Hin as [Q|Q]; [inversion Q; subst; right; eexists; left; reflexivity|left; exact Q].
Qed.

Lemma xas_frame s e s' : step0 s e = Some s' ->
  forall t job, In job (xas (thr s' t)) ->
  In job (xas (thr s t)) \/ (exists tmo, In (tj_id job, tmo) (cds (thr s t)) /\ tj_deadline job = clock s + tmo).
Proof.
  intros H. step0_cases H; simpl.
  all: try match goal with E : wait_view _ = _ |- _ => apply (wait_view_ext xa1) in E; [|ext_triv|ext_triv] end.
  all: intros t0 job' Hin; try (left; exact Hin); unfold upd in Hin;
       try match type of Hin with context [Nat.eqb t0 ?t] => destruct (Nat.eqb t0 t) eqn:Et;
          [apply Nat.eqb_eq in Et; subst|left; exact Hin] end;
       try match goal with E : thr _ _ = _ |- _ => unfold xas, cds; rewrite E end;
       try match goal with E : ext xa1 (thr _ _) = _ |- _ => unfold xas; rewrite E end;
       ext_in xa1 Hin; rewrite ?(ext_cons xa1), ?(ext_cons cd1); simpl; try (left; tauto).
  destruct Hin as [Q|Q]; [|left; exact Q]. subst job'. right. exists tmo. simpl.
  apply negb_false_iff, Z.eqb_eq in E0. subst w. split; [left; reflexivity|reflexivity].
Qed.

Lemma jobs_frame s e s' : step0 s e = Some s' ->
  forall job, In job (jobs s') ->
  In job (jobs s) \/ (exists t, In job (xas (thr s t)) /\ In (HSub (tj_id job) (tj_deadline job) (clock s)) (hist s')).
Proof.
  intros H. step0_cases H; simpl; intros job' Hin; try (left; exact Hin).
  - apply in_app_or in Hin. destruct Hin as [Q|[Q|[]]]; [left; exact Q|subst job'; right].
    exists t. unfold xas. rewrite E1, ext_cons. simpl. auto.
  - left. eapply partition_pend_incl; eauto.
Qed.

Lemma sub_frame s e s' : step0 s e = Some s' ->
  forall j dl ts, In (HSub j dl ts) (hist s') ->
  In (HSub j dl ts) (hist s) \/ (ts = clock s /\ exists t, In (mkjob j dl) (xas (thr s t))).
Proof.
  intros H. step0_cases H; simpl; intros j' dl' ts' Hin.
  all: repeat match type of Hin with _ \/ _ => destruct Hin as [Hin|Hin]; [try discriminate Hin|] end.
  all: try (left; exact Hin).
  inversion Hin; subst. right. split; [reflexivity|]. exists t. unfold xas. rewrite E1, ext_cons, mkjob_eta. simpl. auto.
Qed.

(* ---- I9: deadlines are creation time + timeout ---------------------------------------------------- *)
Definition created (h : list hev) (j : nat) (dl upto : Z) : Prop :=
  exists d tmo ts0, In (HNew j d tmo ts0) h /\ ts0 + tmo <= dl /\ dl <= upto + tmo.
Definition submitted (h : list hev) (job : tjob) : Prop := exists ts, In (HSub (tj_id job) (tj_deadline job) ts) h.

Record Inv9 (s : st) : Prop := {
  n_cd : forall t j tmo, In (j, tmo) (cds (thr s t)) -> exists d ts0, In (HNew j d tmo ts0) (hist s) /\ ts0 <= clock s;
  n_xa : forall t job, In job (xas (thr s t)) -> created (hist s) (tj_id job) (tj_deadline job) (clock s);
  n_job : forall job, In job (jobs s) -> submitted (hist s) job;
  n_tc : forall job, In job (tcs (thr s jt)) -> submitted (hist s) job;
  n_sub : forall j dl ts, In (HSub j dl ts) (hist s) -> created (hist s) j dl ts;
  n_att : forall j dl ts, In (HAttempt j dl ts) (hist s) -> submitted (hist s) (mkjob j dl)
}.

Lemma created_mono h h' j dl a b : (forall x, In x h -> In x h') -> a <= b -> created h j dl a -> created h' j dl b.
Proof. intros Hh Hab [d [tmo [ts0 [H1 [H2 H3]]]]]. exists d, tmo, ts0. repeat split; auto. lia. Qed.
Lemma submitted_mono h h' job : (forall x, In x h -> In x h') -> submitted h job -> submitted h' job.
Proof. intros Hh [ts H]. exists ts. auto. Qed.

Lemma inv9_step0 s e s' : Inv9 s -> step0 s e = Some s' -> Inv9 s'.
Proof.
  intros [CD XA JB TC SB AT] H. pose proof (clock_step0 _ _ _ H) as EC.
  assert (HM : forall x, In x (hist s) -> In x (hist s')) by (intros x; eapply hist_mono; eauto).
  split.
  - intros t j tmo Hin. rewrite EC. destruct (cds_frame _ _ _ H _ _ _ Hin) as [K|[d K]].
    + destruct (CD _ _ _ K) as [d [ts0 [Q1 Q2]]]. exists d, ts0. auto.
    + exists d, (clock s). split; [exact K|lia].
  - intros t job Hin. rewrite EC. destruct (xas_frame _ _ _ H _ _ Hin) as [K|[tmo [K1 K2]]].
    + eapply created_mono; [exact HM| |apply (XA _ _ K)]. lia.
    + destruct (CD _ _ _ K1) as [d [ts0 [Q1 Q2]]]. exists d, tmo, ts0. split; [auto|]. lia.
  - intros job Hin. destruct (jobs_frame _ _ _ H _ Hin) as [K|[t [_ K]]].
    + eapply submitted_mono; [exact HM|apply JB; exact K].
    + eexists; exact K.
  - intros job Hin. destruct (tcs_frame _ _ _ H job Hin) as [K|[l0 [l1 [_ [K1 [_ [_ [EP _]]]]]]]].
    + eapply submitted_mono; [exact HM|apply TC; exact K].
    + assert (PO : In job (snd (partition s))) by (rewrite EP; exact K1).
      unfold partition in PO. apply partition_overdue in PO. destruct PO as [P1 _].
      eapply submitted_mono; [exact HM|apply JB; exact P1].
  - intros j dl ts Hin. destruct (sub_frame _ _ _ H _ _ _ Hin) as [K|[K1 [t K2]]].
    + eapply created_mono; [exact HM| |apply SB; exact K]. lia.
    + subst ts. eapply created_mono; [exact HM| |apply (XA _ _ K2)]. simpl. lia.
  - intros j dl ts Hin. destruct (attempt_frame _ _ _ H _ _ _ Hin) as [K|[_ K]].
    + eapply submitted_mono; [exact HM|apply (AT _ _ _ K)].
    + eapply submitted_mono; [exact HM|apply TC; exact K].
Qed.

Lemma inv9_reach s : reachable_from step init s -> Inv9 s.
Proof.
  apply invariant_rule.
  - split; simpl; intros; tauto.
  - intros s0 e s1 I H. apply step_split in H. destruct H as [Hc H]. eapply inv9_step0; [|exact H].
    destruct I as [CD XA JB TC SB AT]. split; simpl; auto.
    + intros t j tmo Hin. destruct (CD _ _ _ Hin) as [d [ts0 [Q1 Q2]]]. exists d, ts0. split; [auto|lia].
    + intros t job Hin. eapply created_mono; [| |apply (XA _ _ Hin)]; auto.
Qed.

(* never_early relative to the creation time: an attempt on j at ts implies that j was created at
   some ts0 with timeout tmo and ts0 + tmo < ts *)
Lemma never_early_creation_l s : reachable_from step init s ->
  forall j dl ts, In (HAttempt j dl ts) (hist s) ->
  exists d tmo ts0, In (HNew j d tmo ts0) (hist s) /\ ts0 + tmo <= dl /\ dl < ts.
Proof.
  intros R j dl ts Hin. pose proof (inv9_reach s R) as I9.
  destruct (n_att s I9 _ _ _ Hin) as [ts1 Hs]. simpl in Hs.
  destruct (n_sub s I9 _ _ _ Hs) as [d [tmo [ts0 [H1 [H2 _]]]]].
  exists d, tmo, ts0. split; [exact H1|]. split; [exact H2|]. eapply never_early_l; eauto.
Qed.

(* ---- I8: at most one attempt per future ------------------------------------------------------------ *)
Definition pd1 (i : instr) : list nat := match i with IClockD j _ => [j] | IXAppend job => [tj_id job] | _ => [] end.
Definition pendl := ext pd1.

Record Inv8a (s : st) : Prop := {
  a_lt : forall t j, In j (pendl (thr s t)) -> (j < nfut s)%nat;
  a_nd : forall t, NoDup (pendl (thr s t));
  a_uq : forall t1 t2 j, In j (pendl (thr s t1)) -> In j (pendl (thr s t2)) -> t1 = t2
}.

Ltac ext_goal f :=
  repeat first [ rewrite (ext_stamp f) by ext_triv | rewrite (ext_app f)
               | rewrite (ext_cons f) | rewrite (ext_ret_of f) by ext_triv
               | rewrite (ext_cb_prog f) by ext_triv | rewrite (ext_cbs_prog f) by ext_triv
               | rewrite (ext_map_tc f) by ext_triv | rewrite (ext_map_pd f) by ext_triv ];
  simpl.

(* how a step changes the pending ids of each thread's program *)
Lemma pendl_frame s e s' : step0 s e = Some s' ->
  (nfut s <= nfut s')%nat /\
  exists t, (forall t', t' <> t -> pendl (thr s' t') = pendl (thr s t')) /\
            (pendl (thr s' t) = pendl (thr s t) \/
             (pendl (thr s' t) = nfut s :: pendl (thr s t) /\ nfut s' = S (nfut s)) \/
             (exists j, pendl (thr s t) = j :: pendl (thr s' t))).
Proof.
  intros H. step0_cases H; simpl; (split; [lia|]).
  all: try match goal with E : wait_view _ = _ |- _ => apply (wait_view_ext pd1) in E; [|ext_triv|ext_triv] end.
  all: try match goal with E : thr _ ?t = _ |- _ => exists t end;
       try match goal with E : ext pd1 (thr _ ?t) = _ |- _ => exists t end;
       try (exists 0%nat);
       (split; [intros t' Ht'; try reflexivity; unfold upd; apply Nat.eqb_neq in Ht'; rewrite Ht'; reflexivity|]);
       try (left; reflexivity); unfold upd; rewrite ?Nat.eqb_refl; unfold pendl;
       try match goal with E : thr _ _ = _ |- _ => rewrite E end;
       try match goal with E : ext pd1 (thr _ _) = _ |- _ => rewrite E end;
       ext_goal pd1; try (left; reflexivity).
  all: first [ right; right; eexists; reflexivity | right; left; split; reflexivity ].
Qed.

Lemma inv8a_step0 s e s' : Inv8a s -> step0 s e = Some s' -> Inv8a s'.
Proof.
  intros [LT ND UQ] H. destruct (pendl_frame _ _ _ H) as [NF [t [OT CH]]].
  assert (SUB : forall t' j, In j (pendl (thr s' t')) ->
                 In j (pendl (thr s t')) \/ (t' = t /\ j = nfut s /\ nfut s' = S (nfut s))).
  { intros t' j Hin. destruct (Nat.eq_dec t' t) as [->|Ne]; [|rewrite (OT _ Ne) in Hin; auto].
    destruct CH as [E|[[E F]|[j0 E]]].
    - rewrite E in Hin. auto.
    - rewrite E in Hin. destruct Hin as [<-|Hin]; auto.
    - left. rewrite E. right. exact Hin. }
  split.
  - intros t' j Hin. destruct (SUB _ _ Hin) as [K|[_ [-> F]]]; [specialize (LT _ _ K); lia|lia].
  - intros t'. destruct (Nat.eq_dec t' t) as [->|Ne]; [|rewrite (OT _ Ne); apply ND].
    destruct CH as [E|[[E F]|[j0 E]]].
    + rewrite E. apply ND.
    + rewrite E. constructor; [|apply ND]. intros Hin. specialize (LT _ _ Hin). lia.
    + specialize (ND t). rewrite E in ND. inversion ND; assumption.
  - intros t1 t2 j H1 H2.
    destruct (SUB _ _ H1) as [K1|[-> [-> F1]]]; destruct (SUB _ _ H2) as [K2|[-> [E2 F2]]]; auto.
    + eapply UQ; eauto.
    + subst j. specialize (LT _ _ K1). lia.
    + specialize (LT _ _ K2). lia.
Qed.

Lemma inv8a_reach s : reachable_from step init s -> Inv8a s.
Proof.
  apply invariant_rule.
  - split; simpl; intros; try tauto. constructor.
  - intros s0 e s1 I H. apply step_split in H. destruct H as [_ H]. eapply inv8a_step0; [|exact H].
    destruct I as [A B C]. split; auto.
Qed.

Definition att1 (e : hev) : list nat := match e with HAttempt j _ _ => [j] | _ => [] end.
Definition atts (h : list hev) : list nat := flat_map att1 h.

Lemma L_frame s e s' : step0 s e = Some s' ->
  (jobs s' = jobs s /\ tcs (thr s' jt) = tcs (thr s jt) /\ atts (hist s') = atts (hist s)) \/
  (exists t job l, thr s t = IXAppend job :: l /\ jobs s' = jobs s ++ [job] /\
                   tcs (thr s' jt) = tcs (thr s jt) /\ atts (hist s') = atts (hist s) /\
                   thr s' = upd (thr s) t (IEvSet :: IRelG :: IRet :: l)) \/
  (exists l0 l1, partition s = (l0, l1) /\ jobs s' = l0 /\ tcs (thr s' jt) = l1 ++ tcs (thr s jt) /\
                 atts (hist s') = atts (hist s)) \/
  (exists job, tcs (thr s jt) = job :: tcs (thr s' jt) /\ atts (hist s') = tj_id job :: atts (hist s) /\
               jobs s' = jobs s).
Proof.
  intros H. step0_cases H; simpl.
  all: try match goal with E : wait_view _ = _ |- _ => apply wait_view_tcs in E end.
  all: try (left; repeat split; reflexivity).
  all: unfold upd; rewrite ?Nat.eqb_refl;
       try match goal with |- context [Nat.eqb jt ?t] => destruct (Nat.eqb jt t) eqn:Et;
          [apply Nat.eqb_eq in Et; subst|] end;
       try match goal with E : thr _ jt = _ |- _ => rewrite E end;
       try match goal with E : tcs (thr _ jt) = _ |- _ => rewrite E end;
       autorewrite with tcs; simpl;
       try (left; repeat split; reflexivity).
  all: try solve [ exfalso; rewrite Nat.eqb_sym in Et;
                   match goal with E : context [Nat.eqb ?t jt] |- _ => rewrite Et in E; simpl in E;
                     rewrite ?orb_true_r, ?andb_false_r in E; discriminate E end ].
  - right; left. exists jt, job, l. repeat split; try reflexivity. exact E1.
  - right; left. exists t, job, l. repeat split; try reflexivity. exact E1.
  - right; right; left. exists l0, l1. repeat split; reflexivity.
  - right; right; right. exists job.
    match goal with E : _ && _ = true |- _ => apply andb_true_iff in E; destruct E as [E1' _]; apply Nat.eqb_eq in E1'; subst end.
    repeat split; reflexivity.
Qed.

From Coq Require Import Permutation.

Lemma nodup_part {A B} (f : A -> B) (p q : A -> bool) l R :
  (forall x, p x && q x = false) -> NoDup (map f l ++ R) -> NoDup (map f (filter p l) ++ map f (filter q l) ++ R).
Proof.
  intros PQ. induction l as [|a r IH]; simpl; [auto|]. intros H. inversion H as [|x l' Hn Hr]; subst.
  specialize (IH Hr).
  assert (NI : ~ In (f a) (map f (filter p r) ++ map f (filter q r) ++ R)).
  { intros Hin. apply Hn. rewrite !in_app_iff in Hin. rewrite in_app_iff.
    destruct Hin as [Hin|[Hin|Hin]]; [left|left|right; exact Hin];
      apply in_map_iff in Hin; destruct Hin as [y [E Hy]]; apply filter_In in Hy; apply in_map_iff; exists y; tauto. }
  specialize (PQ a). destruct (p a), (q a); simpl in *; try discriminate PQ.
  - constructor; assumption.
  - eapply Permutation_NoDup; [apply Permutation_middle|]. constructor; assumption.
  - exact IH.
Qed.

Definition Lids (s : st) : list nat := map tj_id (jobs s) ++ map tj_id (tcs (thr s jt)) ++ atts (hist s).

Record Inv8b (s : st) : Prop := {
  l_nd : NoDup (Lids s);
  l_lt : forall j, In j (Lids s) -> (j < nfut s)%nat;
  l_pd : forall t j, In j (pendl (thr s t)) -> ~ In j (Lids s)
}.

Lemma keep_ovd_excl isdone now (x : tjob) : keep_b isdone now x && ovd_b isdone now x = false.
Proof. unfold keep_b, ovd_b. destruct (isdone x), (Z.ltb (tj_deadline x) now); reflexivity. Qed.

Lemma partition_filters s l0 l1 : partition s = (l0, l1) ->
  l0 = filter (keep_b (fun job => pans s (tj_id job)) (pnow s)) (jobs s) /\
  l1 = filter (ovd_b (fun job => pans s (tj_id job)) (pnow s)) (jobs s).
Proof. unfold partition. rewrite partition_jobs_spec. intros H. inversion H. auto. Qed.

Lemma pendl_sub s e s' : step0 s e = Some s' -> forall t j, In j (pendl (thr s' t)) ->
  In j (pendl (thr s t)) \/ j = nfut s.
Proof.
  intros H t' j Hin. destruct (pendl_frame _ _ _ H) as [_ [t [OT CH]]].
  destruct (Nat.eq_dec t' t) as [->|Ne]; [|rewrite (OT _ Ne) in Hin; auto].
  destruct CH as [E|[[E F]|[j0 E]]].
  - rewrite E in Hin. auto.
  - rewrite E in Hin. destruct Hin as [<-|Hin]; auto.
  - left. rewrite E. right. exact Hin.
Qed.

Lemma inv8b_step0 s e s' : Inv8a s -> Inv8b s -> step0 s e = Some s' -> Inv8b s'.
Proof.
  intros [ALT AND AUQ] [ND LT PD] H.
  pose proof (pendl_sub _ _ _ H) as PSUB.
  assert (NF : (nfut s <= nfut s')%nat) by (apply (pendl_frame _ _ _ H)).
  assert (GEN : (forall j, In j (Lids s') -> In j (Lids s)) -> NoDup (Lids s') -> Inv8b s').
  { intros SUB N. split; [exact N| |].
    - intros j Hin. specialize (LT _ (SUB _ Hin)). lia.
    - intros t j Hin Hl. apply SUB in Hl. destruct (PSUB _ _ Hin) as [K|K]; [exact (PD _ _ K Hl)|].
      subst j. specialize (LT _ Hl). lia. }
  destruct (L_frame _ _ _ H) as [[E1 [E2 E3]]|[[t [job [l [ET [E1 [E2 [E3 EU]]]]]]]|[[l0 [l1 [EP [E1 [E2 E3]]]]]|[job [E2 [E3 E1]]]]]].
  - apply GEN; unfold Lids; rewrite E1, E2, E3; auto.
  - (* append *)
    assert (IP : In (tj_id job) (pendl (thr s t))) by (unfold pendl; rewrite ET, ext_cons; simpl; auto).
    assert (PM : Permutation (tj_id job :: Lids s) (Lids s')).
    { unfold Lids. rewrite E1, E2, E3, map_app. simpl. rewrite <- app_assoc. simpl. apply Permutation_middle. }
    split.
    + eapply Permutation_NoDup; [exact PM|]. constructor; [apply (PD _ _ IP)|exact ND].
    + intros j Hin. apply (Permutation_in _ (Permutation_sym PM)) in Hin.
      destruct Hin as [<-|Hin]; [specialize (ALT _ _ IP)|specialize (LT _ Hin)]; lia.
    + intros t' j Hin Hl. apply (Permutation_in _ (Permutation_sym PM)) in Hl.
      assert (OLD : In j (pendl (thr s t')) /\ j <> tj_id job).
      { rewrite EU in Hin. unfold upd in Hin. destruct (Nat.eqb t' t) eqn:Et.
        - apply Nat.eqb_eq in Et. subst t'. unfold pendl in Hin. rewrite !ext_cons in Hin. simpl in Hin.
          specialize (AND t). unfold pendl in AND |- *. rewrite ET, ext_cons in AND |- *. simpl in AND |- *.
          inversion AND; subst. split; [auto|]. intros ->. contradiction.
        - split; [exact Hin|]. intros ->. apply Nat.eqb_neq in Et. apply Et. eapply AUQ; eauto. }
      destruct OLD as [O1 O2]. destruct Hl as [Hl|Hl]; [congruence|exact (PD _ _ O1 Hl)].
  - (* partition *)
    destruct (partition_filters _ _ _ EP) as [F0 F1]. clear EP. rewrite F0 in E1. rewrite F1 in E2. clear F0 F1.
    set (kp := keep_b (fun job => pans s (tj_id job)) (pnow s)) in *.
    set (ov := ovd_b (fun job => pans s (tj_id job)) (pnow s)) in *.
    assert (EL : Lids s' = map tj_id (filter kp (jobs s)) ++ map tj_id (filter ov (jobs s)) ++ (map tj_id (tcs (thr s jt)) ++ atts (hist s))).
    { unfold Lids. rewrite E1, E2, E3, map_app, <- !app_assoc. reflexivity. }
    apply GEN.
    + intros j. rewrite EL. unfold Lids. rewrite !in_app_iff.
      intros [K|[K|K]]; [left|left|right; tauto]; apply in_map_iff in K; destruct K as [x [Ex Hx]];
        apply filter_In in Hx; apply in_map_iff; exists x; tauto.
    + rewrite EL. apply nodup_part; [intros x; apply keep_ovd_excl|]. exact ND.
  - (* attempt *)
    assert (PM : Permutation (Lids s) (Lids s')).
    { unfold Lids. rewrite E1, E2, E3. simpl. apply Permutation_app_head. apply Permutation_middle. }
    apply GEN.
    + intros j Hin. apply (Permutation_in _ (Permutation_sym PM)). exact Hin.
    + eapply Permutation_NoDup; [exact PM|exact ND].
Qed.

Lemma inv8b_reach s : reachable_from step init s -> Inv8b s.
Proof.
  apply invariant_rule_r.
  - split; simpl; intros; try tauto. constructor.
  - intros s0 e s1 R I H. apply step_split in H. destruct H as [_ H].
    eapply inv8b_step0; [| |exact H].
    + destruct (inv8a_reach s0 R) as [A B C]. split; auto.
    + destruct I as [A B C]. split; auto.
Qed.

Lemma nodup_app_r {A} (l r : list A) : NoDup (l ++ r) -> NoDup r.
Proof. induction l as [|a l IH]; simpl; auto. intros H. inversion H; auto. Qed.

(* at_most_once: the ids of the futures the job thread attempted to cancel are pairwise distinct *)
Lemma at_most_once_l s : reachable_from step init s -> NoDup (atts (hist s)).
Proof.
  intros R. pose proof (l_nd s (inv8b_reach s R)) as N. unfold Lids in N.
  apply nodup_app_r in N. apply nodup_app_r in N. exact N.
Qed.
