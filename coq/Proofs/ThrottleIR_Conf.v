(* PATH CONFORMANCE of the regenerated methods of throttle.py (Gen/ThrottleSkel.v) with Model/Throttle.v:
   soundness of the co-execution (what [coexec] returns IS a run of Throttle.step whose heads on the executing
   thread are the instructions derived from the generated term), the entry points, the finite families of
   machine states from which every method is co-executed, and the boolean check. *)
From Coq Require Import ZArith List Bool Arith String Lia.
From RecordUpdate Require Import RecordSet.
From ME Require Import Base.Machine Base.Fut Base.GenPrelude Gen.ThrottleGen Model.Throttle Model.ThrottleIR Gen.ThrottleSkel.
Import ListNotations RecordSetNotations.

(* ---- soundness of the co-execution ----------------------------------------------------------------- *)
Lemma instr_eqb_eq a b : instr_eqb a b = true -> a = b.
Proof. unfold instr_eqb. destruct (instr_eq_dec a b) as [e|ne]; [intros _; exact e|discriminate]. Qed.

Lemma run_ins_sound E t p : forall s evs sf,
  run_ins E s t p = Some (evs, sf) -> run step s evs = Some sf /\ heads s t evs = Some p.
Proof.
  induction p as [|i r IH]; intros s evs sf Hr; cbn [run_ins] in Hr.
  - inversion Hr; subst. split; reflexivity.
  - destruct (thr s t) as [|h tl] eqn:Et; [discriminate|].
    destruct (instr_eqb h i) eqn:Eq; [|discriminate]. apply instr_eqb_eq in Eq. subst h.
    destruct (ev_of E s t i) as [e|] eqn:Ee; [|discriminate].
    destruct (step s e) as [s'|] eqn:Es; [|discriminate].
    destruct (run_ins E s' t r) as [[evs' sf']|] eqn:Er; [|discriminate].
    inversion Hr; subst. destruct (IH _ _ _ Er) as [R Hd].
    split; cbn [run heads]; rewrite Es; [exact R|]. rewrite Et, Hd. reflexivity.
Qed.

Lemma heads_app t : forall evs1 s a s1 evs2 b,
  heads s t evs1 = Some a -> run step s evs1 = Some s1 -> heads s1 t evs2 = Some b ->
  heads s t (evs1 ++ evs2) = Some (a ++ b).
Proof.
  induction evs1 as [|e r IH]; intros s a s1 evs2 b Ha Hr Hb; cbn [heads run app] in *.
  - inversion Ha; inversion Hr; subst. exact Hb.
  - destruct (thr s t) as [|i tl]; [discriminate|].
    destruct (step s e) as [s'|]; [|discriminate].
    destruct (heads s' t r) as [l|] eqn:El; [|discriminate].
    inversion Ha; subst. rewrite (IH _ _ _ _ _ El Hr Hb). reflexivity.
Qed.

Lemma map_snd_pair (ir : bool) (p : list instr) : map snd (map (pair ir) p) = p.
Proof. induction p as [|i r IH]; simpl; [reflexivity|rewrite IH; reflexivity]. Qed.

Lemma coexec_S n E en s t loc k :
  coexec (S n) E en s t loc k =
  match macro E en s t loc k with
  | MStuck => None
  | MDone => Some ([], [], s, true)
  | MIns ir p loc' k' =>
      match run_ins E s t p with
      | None => None
      | Some (evs, s') =>
          match coexec n E en s' t loc' k' with
          | Some (a, b, sf, c) => Some (map (pair ir) p ++ a, evs ++ b, sf, c)
          | None => None
          end
      end
  end.
Proof. reflexivity. Qed.

Theorem coexec_sound : forall fuel E en s t loc k tis evs sf c,
  coexec fuel E en s t loc k = Some (tis, evs, sf, c) ->
  run step s evs = Some sf /\ heads s t evs = Some (map snd tis).
Proof.
  induction fuel as [|n IH]; intros E en s t loc k tis evs sf c Hc.
  - cbn [coexec] in Hc. inversion Hc; subst. split; reflexivity.
  - rewrite coexec_S in Hc. destruct (macro E en s t loc k) as [ir p loc' k'| |] eqn:Em; try discriminate.
    + destruct (run_ins E s t p) as [[evs1 s1]|] eqn:Er; [|discriminate].
      destruct (coexec n E en s1 t loc' k') as [[[[a b] sf'] c']|] eqn:Ec; [|discriminate].
      inversion Hc; subst. destruct (run_ins_sound _ _ _ _ _ _ Er) as [R1 H1].
      destruct (IH _ _ _ _ _ _ _ _ _ _ Ec) as [R2 H2].
      split.
      * rewrite run_app, R1. exact R2.
      * rewrite map_app, map_snd_pair. eapply heads_app; eauto.
    + inversion Hc; subst. split; reflexivity.
Qed.

(* ---- the families of machine states ------------------------------------------------------------------ *)
Definition T : nat := 1.            (* the client / environment thread that makes the call *)

Record cfg := mkC {
  c_blk : bool; c_dyn : bool; c_last : option Z; c_shut : bool;
  c_qu : list nat; c_run : Z; c_eflag : bool;
  c_ans : policy_answer (option Z);     (* what the count callable answers during the call *)
  c_inline : option outcome;            (* delegate.submit completes the future inline *)
  c_wait : bool;                        (* shutdown(wait=..) *)
  c_j : nat;                            (* the future cancel() is called on / delegate 0 was created for *)
  c_del : bool;                         (* future c_j has delegate 0 *)
  c_exec : bool;                        (* future c_j still refers to its executor *)
  c_ds : fstate;                        (* state of delegate future 0 *)
  c_o : outcome                         (* outcome with which the environment completes delegate 0 *)
}.

(* three throttle futures 0, 1, 2 exist (those in c_qu are queued); one delegate future 0, created for c_j,
   with the two callbacks _do_submit registers while it is not done *)
Definition state_of (c : cfg) : st :=
  init <| started := true |> <| blk := c_blk c |> <| dyn := c_dyn c |> <| last := c_last c |> <| shut := c_shut c |>
       <| running := c_run c |> <| qu := c_qu c |> <| eflag := c_eflag c |>
       <| hdone := c_wait c |>          (* for shutdown(wait=True): join() returns once the hand-over thread has exited *)
       <| nfut := 3 |> <| ndel := 1 |>
       <| mdel := upd (fun _ => None) (c_j c) (if c_del c then Some 0 else None) |>
       <| mexec := upd (fun _ => true) (c_j c) (c_exec c) |>
       <| ds := upd (fun _ => Pending) 0 (c_ds c) |>
       <| dout := upd (fun _ => None) 0 (if fstate_eqb (c_ds c) Finished then Some (c_o c) else None) |>
       <| dcbs := upd (fun _ => []) 0 (if fdone (c_ds c) then [] else [CbDone; CbRes (c_j c)]) |>
       <| dfor := upd (fun _ => 0) 0 (c_j c) |>
       <| thr := upd (fun _ => []) H [IHStart] |>.

Definition env_of (c : cfg) : envp := mkE (c_ans c) (c_inline c).

(* ---- entry points --------------------------------------------------------------------------------- *)
Definition thread_of (en : entry) : nat := match en with EnLoop => H | _ => T end.
Definition entry_ev (en : entry) (c : cfg) : ev :=
  match en with
  | EnSubmit => ECallSubmit T
  | EnShutdown => ECallShutdown T (c_wait c)
  | EnCancel => ECallCancel T (c_j c)
  | EnLoop => EHStart
  | EnCallback => EEnvFinish T 0 (c_ds c) (c_o c)
  end.
Definition loc_of (c : cfg) : locals := loc0 <| lj := c_j c |> <| lw := c_wait c |>.
Definition cont_of (en : entry) : list item :=
  match en with
  | EnSubmit => map IS submit_m ++ [KEnd]
  | EnShutdown => map IS shutdown_m ++ [KEnd]
  | EnCancel => [KProto (cancel_head 0)]       (* replaced below: the head depends on c_j *)
  | EnLoop => map IS submit_loop_m ++ [KEnd]
  | EnCallback => [IS (SCall CB delegate_future_done_m); KDrain 0; KEnd]
  end.
Definition cont_for (en : entry) (c : cfg) : list item :=
  match en with
  | EnCancel => [KProto (cancel_head (c_j c)); IS (SCall "ThrottleFuture._me_cancel" me_cancel_m); KCancelTail; KEnd]
  | _ => cont_of en
  end.

Definition NF : nat := 40.     (* macro steps *)
Definition NE : nat := 12.     (* a co-execution that does not complete has matched at least NE events *)

Definition conf_run (en : entry) (c : cfg) :=
  match step (state_of c) (0%Z, entry_ev en c) with
  | Some s1 => match coexec NF (env_of c) en s1 (thread_of en) (loc_of c) (cont_for en c) with
               | Some r => Some (s1, r)
               | None => None
               end
  | None => None
  end.

Definition conf_ok (en : entry) (c : cfg) : bool :=
  match conf_run en c with
  | Some (_, (_, evs, s2, done)) => if done then isnil (thr s2 (thread_of en)) else Nat.leb NE (List.length evs)
  | None => false
  end.

(* the statement: from the machine state of configuration c, the call is accepted, and the machine, fed with the
   canonical events of ITS OWN head instructions, executes on the calling thread exactly the instructions derived
   from the generated term (tagged true) and from the vocabulary of the library code underneath (tagged false),
   to the end of the call - or, where the call does not return on its own (a blocked submit, the hand-over loop),
   for at least NE events *)
Definition conforms (en : entry) (c : cfg) : Prop :=
  exists tis evs s1 s2 done,
    step (state_of c) (0%Z, entry_ev en c) = Some s1 /\
    coexec NF (env_of c) en s1 (thread_of en) (loc_of c) (cont_for en c) = Some (tis, evs, s2, done) /\
    run step s1 evs = Some s2 /\
    heads s1 (thread_of en) evs = Some (map snd tis) /\
    (done = true -> thr s2 (thread_of en) = []) /\
    (done = true \/ NE <= List.length evs).

Lemma conf_ok_conforms en c : conf_ok en c = true -> conforms en c.
Proof.
  unfold conf_ok, conf_run. intros Hk.
  destruct (step (state_of c) (0%Z, entry_ev en c)) as [s1|] eqn:Es; [|discriminate].
  destruct (coexec NF (env_of c) en s1 (thread_of en) (loc_of c) (cont_for en c)) as [[[[tis evs] s2] done]|] eqn:Ec; [|discriminate].
  destruct (coexec_sound _ _ _ _ _ _ _ _ _ _ _ Ec) as [R Hd].
  exists tis, evs, s1, s2, done. repeat split; auto.
  - intros ->. destruct (thr s2 (thread_of en)); [reflexivity|discriminate].
  - destruct done; [left; reflexivity|right]. apply Nat.leb_le. exact Hk.
Qed.

Lemma all_conform en fam : forallb (conf_ok en) fam = true -> forall c, In c fam -> conforms en c.
Proof. intros Hf c Hin. apply conf_ok_conforms. rewrite forallb_forall in Hf. apply Hf. exact Hin. Qed.

(* ---- the families ----------------------------------------------------------------------------------- *)
Definition bools : list bool := [true; false].
Definition lasts : list (option Z) := [None; Some 0%Z; Some 1%Z; Some 2%Z].
Definition queues : list (list nat) := [[]; [0]; [0; 1]].
Definition runs : list Z := [0%Z; 1%Z; 2%Z].
Definition answers : list (policy_answer (option Z)) := [Answer (Some 1%Z); Answer None; Raises].
Definition inlines : list (option outcome) := [None; Some (Ok 5); Some (Err 7)].
Definition c0 : cfg := mkC false false None false [] 0%Z false (Answer None) None false 2 false true Pending (Ok 5).

Definition prod {A B} (la : list A) (f : A -> list B) : list B := flat_map f la.

Definition fam_submit : list cfg :=
  prod bools (fun b => prod bools (fun dy => prod lasts (fun l => prod bools (fun sh => prod queues (fun q =>
  prod bools (fun ef => prod answers (fun a =>
    [mkC b dy l sh q 0%Z ef a None false 2 false true Pending (Ok 5)]))))))).
Definition fam_shutdown : list cfg :=
  prod bools (fun sh => prod bools (fun w => prod bools (fun ef => prod queues (fun q =>
    [mkC false false (Some 1%Z) sh q 0%Z ef (Answer None) None w 2 false true Pending (Ok 5)])))).
Definition fam_loop : list cfg :=
  prod bools (fun dy => prod lasts (fun l => prod bools (fun sh => prod queues (fun q => prod runs (fun r =>
  prod bools (fun ef => prod answers (fun a => prod inlines (fun i =>
    [mkC false dy l sh q r ef a i false 2 false true Pending (Ok 5)])))))))).
Definition cancel_queues : list (list nat) := [[]; [0]; [1; 0]; [2]].
Definition dstates : list fstate := [Pending; Running; Finished; Cancelled; CancelledNotified].
Definition fam_cancel : list cfg :=
  prod [0; 2] (fun j => prod cancel_queues (fun q => prod bools (fun del => prod bools (fun ex => prod dstates (fun d =>
  prod bools (fun ef =>
    [mkC false false (Some 1%Z) false q 1%Z ef (Answer None) None false j del ex d (Ok 5)])))))).
Definition fam_callback : list cfg :=
  prod [Pending; Running] (fun d => prod [Ok 5; Err 7] (fun o => prod bools (fun ef => prod runs (fun r => prod bools (fun del =>
    [mkC false false (Some 1%Z) false [0] r ef (Answer None) None false 2 del true d o]))))).
