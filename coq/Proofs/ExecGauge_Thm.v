(* Executor-side laws of Model/ExecGauge.v on the product machine: the gauge of an instance is exact up to
   the single decrement its winner still owes, never negative, exact at rest; the counter; one decrement
   per instance and only by the winner; the labelled series as sums over instances. *)
From Coq Require Import ZArith List Bool Arith Lia.
From ME Require Import Base.Machine Model.ExecGauge Proofs.ExecGauge_Defs Proofs.ExecGauge_Inv.
Import ListNotations.
Local Open Scope Z_scope.

Definition reachable := reachable_from step init.

Lemma step_split s e s' : step s e = Some s' ->
  (exists x, e = EX x /\ xstep (xs s) x = Some (xs s') /\ fu s' = fu s)
  \/ (exists f, e = EF f /\ fstep (fu s) f = Some (fu s') /\ xs s' = xs s).
Proof.
  unfold step, step_gen. destruct e as [x|f].
  - fold (xstep (xs s) x). destruct (xstep (xs s) x) as [x'|] eqn:E; [|discriminate].
    intros H; inversion H; subst. left. exists x. simpl. auto.
  - destruct (fstep (fu s) f) as [f'|] eqn:E; [|discriminate].
    intros H; inversion H; subst. right. exists f. simpl. auto.
Qed.

Lemma xinv_reach s : reachable s -> XInv (xs s).
Proof.
  apply (invariant_rule step (fun s => XInv (xs s)) init).
  - exact xinv_init.
  - intros s0 e s1 I H. destruct (step_split _ _ _ H) as [[x [_ [Hx _]]]|[f [_ [_ Hf]]]].
    + eapply xinv_step; eauto.
    + rewrite Hf. exact I.
Qed.

Section Exec.
Variable s : st.
Hypothesis R : reachable s.
Let x := xs s.

(* the gauge of an instance: 1 while created (gauge line passed) and not shut down, plus the one decrement
   the winner of the test-and-set still owes; so it is 0 or 1, never negative *)
Theorem exec_gauge_exact e :
  gauge x e = b2z (gauged x e && negb (flag x e)) + b2z (is_some (pend x e))
  /\ 0 <= gauge x e <= 1.
Proof.
  destruct (xinv_reach s R) as [I _]. destruct (I e) as [G [_ [_ [P _]]]]. fold x in G, P.
  split; [exact G|]. rewrite G.
  destruct (pend x e) as [w|] eqn:Ep; simpl.
  - destruct (P w eq_refl) as [Ef _]. rewrite Ef, andb_false_r. simpl. lia.
  - destruct (gauged x e && negb (flag x e)); simpl; lia.
Qed.

Lemma not_busy_no_pend e : busy x e = false -> pend x e = None.
Proof.
  intros B. destruct (xinv_reach s R) as [I _]. destruct (I e) as [_ [_ [_ [P _]]]]. fold x in P.
  destruct (pend x e) as [w|] eqn:Ep; [|reflexivity].
  destruct (P w eq_refl) as [_ Hin]. apply busy_in in Hin. simpl in Hin. congruence.
Qed.

(* no shutdown() call on e in progress: the gauge says exactly whether e is in use *)
Theorem exec_gauge_at_rest e : busy x e = false ->
  gauge x e = b2z (gauged x e && negb (flag x e))
  /\ (settled x e = true -> gauge x e = b2z (in_use x e))
  /\ (settled x e = true -> (gauge x e = 1 <-> (created x e = true /\ flag x e = false))).
Proof.
  intros B. destruct (exec_gauge_exact e) as [G _]. rewrite (not_busy_no_pend e B) in G. simpl in G.
  assert (settled x e = true -> gauged x e && negb (flag x e) = in_use x e) as S.
  { unfold settled, in_use, created. intros St. apply eqb_prop in St. rewrite St.
    destruct (gauged x e); reflexivity. }
  split; [lia|]. split.
  - intros St. rewrite <- (S St). lia.
  - intros St. rewrite G, Z.add_0_r, (S St). unfold in_use.
    destruct (created x e), (flag x e); simpl; split; intros H; try lia; try tauto; destruct H; discriminate.
Qed.

(* the labelled gauge (instances share a (type, name) label): over any list of instances at rest, the sum of
   their shares is the number of them in use *)
Theorem exec_gauge_sum_at_rest l :
  (forall e, In e l -> busy x e = false /\ settled x e = true) ->
  sumZ (gauge x) l = Z.of_nat (countb (in_use x) l).
Proof.
  intros H. apply sumZ_pointwise. intros e He. destruct (H e He) as [B St].
  destruct (exec_gauge_at_rest e B) as [_ [G _]]. exact (G St).
Qed.

(* in the middle of shutdowns the labelled gauge exceeds the number in use by the owed decrements only, and is
   never negative *)
Theorem exec_gauge_sum_bounds l :
  (forall e, In e l -> settled x e = true) ->
  Z.of_nat (countb (in_use x) l) <= sumZ (gauge x) l <= Z.of_nat (countb (in_use x) l) + Z.of_nat (countb (fun e => is_some (pend x e)) l).
Proof.
  induction l as [|e r IH]; intros H; [simpl; lia|].
  rewrite !countb_cons. simpl sumZ.
  assert (forall e0, In e0 r -> settled x e0 = true) as Hr by (intros e0 He0; apply H; right; exact He0).
  specialize (IH Hr). destruct (exec_gauge_exact e) as [G _].
  assert (gauged x e && negb (flag x e) = in_use x e) as S.
  { specialize (H e (or_introl eq_refl)). unfold settled, in_use, created in *. apply eqb_prop in H. rewrite H.
    destruct (gauged x e); reflexivity. }
  rewrite S in G. rewrite G.
  destruct (in_use x e), (is_some (pend x e)); simpl b2z; simpl b2n; lia.
Qed.

(* the counter *)
Theorem exec_total_exact e :
  total x e = b2z (counted x e)
  /\ (total x e = 1 <-> counted x e = true)
  /\ (settled x e = true -> total x e = b2z (created x e)).
Proof.
  destruct (xinv_reach s R) as [I _]. destruct (I e) as [_ [T _]]. fold x in T.
  split; [exact T|]. split.
  - rewrite T. destruct (counted x e); simpl; split; intros H; try lia; try reflexivity; discriminate.
  - intros St. unfold settled in St. apply eqb_prop in St. unfold created. rewrite T, <- St.
    destruct (counted x e); reflexivity.
Qed.

Theorem exec_total_sum l : sumZ (total x) l = Z.of_nat (countb (counted x) l).
Proof. apply sumZ_pointwise. intros e _. apply exec_total_exact. Qed.

(* at most one decrement per instance, and only once its flag is set by a win *)
Theorem exec_dec_once e :
  (decs x e <= 1)%nat /\ (wins x e <= 1)%nat
  /\ decs x e = b2n (flag x e && negb (is_some (pend x e)))
  /\ (decs x e = 1%nat -> flag x e = true /\ wins x e = 1%nat /\ pend x e = None).
Proof.
  destruct (xinv_reach s R) as [I _]. destruct (I e) as [_ [_ [_ [P [W D]]]]]. fold x in P, W, D.
  destruct (pend x e) as [w|] eqn:Ep.
  - destruct (P w eq_refl) as [Ef _]. rewrite Ef in *. simpl in *. repeat split; try lia.
  - destruct (flag x e); simpl in *; repeat split; try lia; try reflexivity.
Qed.

(* shut down (flag set) and nobody owes a decrement: the instance's share is 0 - the gauge is not stuck *)
Theorem exec_gauge_zero_after_shutdown e : flag x e = true -> pend x e = None -> gauge x e = 0.
Proof.
  intros Ef Ep. destruct (exec_gauge_exact e) as [G _]. rewrite Ef, Ep, andb_false_r in G. exact G.
Qed.
End Exec.

(* ---- step-level facts ------------------------------------------------------------------------------ *)
(* a decrement is made by the winner, after its win, in its winning call, and is the first one *)
Theorem exec_dec_only_by_winner s t e s' : reachable s -> step s (EX (XDec t e)) = Some s' ->
  pend (xs s) e = Some t /\ flag (xs s) e = true /\ decs (xs s) e = 0%nat /\ wins (xs s) e = 1%nat
  /\ top t (open (xs s)) = Some (mkF t e FWon)
  /\ gauge (xs s') e = gauge (xs s) e - 1 /\ pend (xs s') e = None.
Proof.
  intros R H. destruct (step_split _ _ _ H) as [[x0 [E [Hx _]]]|[f [E _]]]; [|discriminate].
  inversion E; subst x0; clear E. rewrite xstep_is_clean in Hx. simpl in Hx.
  destruct (top_is t e FWon (open (xs s))) eqn:Et; [|discriminate].
  destruct (pend_is (xs s) e t) eqn:Ep; [|discriminate]. apply pend_is_spec in Ep.
  inversion Hx as [Hx']. simpl.
  destruct (xinv_reach s R) as [I _]. destruct (I e) as [_ [_ [_ [P [W D]]]]].
  destruct (P t Ep) as [Ef _]. rewrite Ep, Ef in *. simpl in *.
  rewrite !upd_same. repeat split; auto; try lia. apply top_is_spec. exact Et.
Qed.

(* a losing shutdown() changes nothing but its own call frame *)
Theorem exec_lose_changes_nothing s t e s' : step s (EX (XLose t e)) = Some s' ->
  flag (xs s) e = true
  /\ gauge (xs s') = gauge (xs s) /\ total (xs s') = total (xs s) /\ flag (xs s') = flag (xs s)
  /\ pend (xs s') = pend (xs s) /\ decs (xs s') = decs (xs s) /\ wins (xs s') = wins (xs s)
  /\ counted (xs s') = counted (xs s) /\ gauged (xs s') = gauged (xs s) /\ fu s' = fu s.
Proof.
  intros H. destruct (step_split _ _ _ H) as [[x0 [E [Hx Hf]]]|[f [E _]]]; [|discriminate].
  inversion E; subst x0; clear E. rewrite xstep_is_clean in Hx. simpl in Hx.
  destruct (top_is t e FCalled (open (xs s))); [|discriminate].
  destruct (flag (xs s) e) eqn:Ef; [|discriminate]. inversion Hx as [Hx']. simpl. repeat split; auto.
Qed.

(* the test-and-set answers True once: a win on a flagged instance, a decrement by anybody but the pending
   winner, a decrement outside a won call, a return of the winner before its decrement are all rejected *)
Theorem exec_second_win_rejected s t e : flag (xs s) e = true -> step s (EX (XWin t e)) = None.
Proof.
  intros Ef. unfold step, step_gen. fold (xstep (xs s) (XWin t e)). rewrite xstep_is_clean. simpl.
  rewrite Ef. destruct (top_is t e FCalled (open (xs s))); reflexivity.
Qed.

Theorem exec_dec_by_other_rejected s t e : pend (xs s) e <> Some t -> step s (EX (XDec t e)) = None.
Proof.
  intros N. unfold step, step_gen. fold (xstep (xs s) (XDec t e)). rewrite xstep_is_clean. simpl.
  destruct (top_is t e FWon (open (xs s))); [|reflexivity].
  destruct (pend_is (xs s) e t) eqn:Ep; [|reflexivity]. apply pend_is_spec in Ep. congruence.
Qed.

Theorem exec_ret_before_dec_rejected s t e : top t (open (xs s)) = Some (mkF t e FWon) -> step s (EX (XRet t e)) = None.
Proof.
  intros T. unfold step, step_gen. fold (xstep (xs s) (XRet t e)). rewrite xstep_is_clean. simpl.
  unfold top_is. rewrite T. simpl. rewrite andb_false_r. reflexivity.
Qed.

Theorem exec_second_inc_rejected s e :
  (counted (xs s) e = true -> step s (EX (XIncTotal e)) = None)
  /\ (gauged (xs s) e = true -> step s (EX (XIncProg e)) = None).
Proof.
  split; intros C; unfold step, step_gen; simpl; rewrite C; reflexivity.
Qed.

(* an accepted observation of the real object at final quiescence: the model's flag is the real is_shutdown, so -
   no call being in progress - the instance's share of the gauge says exactly whether the real executor is in use *)
Theorem exec_obs_sound s e b s' : reachable s -> step s (EX (XObs e b)) = Some s' ->
  s' = s /\ created (xs s) e = true /\ flag (xs s) e = b
  /\ (busy (xs s) e = false -> gauge (xs s) e = b2z (negb b)) /\ total (xs s) e = 1.
Proof.
  intros R H. destruct (step_split _ _ _ H) as [[x0 [E [Hx Hf]]]|[f [E _]]]; [|discriminate].
  inversion E; subst x0; clear E. rewrite xstep_is_clean in Hx. simpl in Hx.
  destruct (created (xs s) e && Bool.eqb (flag (xs s) e) b) eqn:C; [|discriminate].
  apply andb_true_iff in C. destruct C as [Cr Fl]. apply eqb_prop in Fl.
  inversion Hx as [Hx']. split.
  - destruct s as [x f], s' as [x' f']; simpl in *. subst. reflexivity.
  - split; [exact Cr|]. split; [exact Fl|].
    pose proof Cr as Cr'. unfold created in Cr'. apply andb_true_iff in Cr'. destruct Cr' as [Cc Cg]. split.
    + intros B. destruct (exec_gauge_at_rest s R e B) as [G _]. rewrite G, Cg, Fl. reflexivity.
    + destruct (exec_total_exact s R e) as [T _]. rewrite T, Cc. reflexivity.
Qed.
