(* PATH CONFORMANCE with one interference by a second thread: the two large checks (see Proofs/MapIR_Conf2.v). *)
From Coq Require Import ZArith List Bool Arith String.
From ME Require Import Base.Machine Base.Fut Base.GenPrelude Model.MapFut Model.MapIR Gen.MapSkel Proofs.MapIR_Conf.
Import ListNotations.
Lemma resolved_err_conf1 : conf_all_n 1 (EnResolved 1) = true.     Proof. vm_compute. reflexivity. Qed.
