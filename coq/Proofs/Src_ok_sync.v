(* source facts of more_executors/_impl/sync.py: what the translator finds now is what the models were written against *)
From Coq Require Import List String.
From ME Require Import Gen.Src_sync Model.SrcExpected.
Lemma src_sync_ok : Src_sync.facts = expected_sync.
Proof. reflexivity. Qed.
