(* source facts of more_executors/_impl/futures/__init__.py: what the translator finds now is what the models were written against *)
From Coq Require Import List String.
From ME Require Import Gen.Src_futures_init Model.SrcExpected.
Lemma src_futures_init_ok : Src_futures_init.facts = expected_futures_init.
Proof. reflexivity. Qed.
