(* C04 for the Retry machine: the program lock discipline lk and its basic lemmas. *)
From Coq Require Import List ZArith Bool Arith Lia PeanoNat.
From RecordUpdate Require Import RecordSet.
From ME Require Import Base.Machine Base.Fut Base.GenPrelude Gen.RetryGen Model.Retry Proofs.Retry_InvB0
  Proofs.Retry_InvB2 Proofs.Retry_L0.
Import ListNotations RecordSetNotations.

Definition is_relcbs (j : nat) (r : list instr) : Prop :=
  match r with IRelMCbs j' :: _ => j' = j | _ => False end.

(* lk dsf rc b hM hx p: program p is consistent with its thread holding M_j iff hM = Some j and
   X iff hx = true; at most one M is held, no M is acquired while holding anything, X is acquired
   only while not holding X, and callback instructions that may acquire an M run lock-free or are
   known to return at once (delegate cancelled). *)
Fixpoint lk (dsf : nat -> fstate) (rc : nat -> jrec) (b : bool) (hM : option nat) (hx : bool)
         (p : list instr) : Prop :=
  match p with
  | [] => hM = None /\ hx = false
  | i :: r =>
      match kind i with
      | KCatch => lk dsf rc false hM hx r
      | KThrow => lk dsf rc true hM hx r
      | k =>
        if b then False else
        match k with
        | KAcq j => hM = None /\ hx = false /\ lk dsf rc false (Some j) false r
        | KRel j => hM = Some j /\ hx = false /\ lk dsf rc false None false r
        | KXAcq r0 => hM = Some (jf (rc r0)) /\ hx = false /\ lk dsf rc false None false r
        | KXHeld r0 => hM = Some (jf (rc r0)) /\ hx = true /\ lk dsf rc false None false r
        | KXRel => hx = true /\ lk dsf rc false hM false r
        | KFSet j => is_relcbs j r /\ lk dsf rc false hM hx r
        | KXSec => hx = false /\ lk dsf rc false hM hx r
        | KCbD d => (hM = None \/ fcancelled (dsf d) = true) /\ hx = false /\
                    lk dsf rc false hM hx r /\ lk dsf rc true hM hx r
        | KCbC d => (hM = None \/ fcancelled (dsf d) = true) /\ hx = false /\ lk dsf rc false hM hx r
        | KFree => hM = None /\ hx = false /\ lk dsf rc false hM hx r
        | _ => lk dsf rc false hM hx r
        end
      end
  end.

Lemma norm_kind b i r : norm b (i :: r) =
  match kind i with KCatch => norm false r | KThrow => norm true r | _ => if b then norm true r else i :: r end.
Proof. destruct i; reflexivity. Qed.

Lemma lk_norm dsf rc p : forall b hM hx, lk dsf rc b hM hx p -> lk dsf rc false hM hx (norm b p).
Proof.
  induction p as [|i r IH]; intros b hM hx H.
  - destruct b; exact H.
  - rewrite norm_kind. cbn [lk] in H. destruct (kind i) eqn:K; try (destruct b; [destruct H|]);
      try (apply IH; exact H); cbn [lk]; rewrite K; exact H.
Qed.

Definition oeqb (a : option nat) (j : nat) : bool := match a with Some x => Nat.eqb j x | None => false end.

Lemma lk_pend dsf rc j p : forall b hM hx, lk dsf rc b hM hx p ->
  pendM rc j b p = oeqb hM j /\ pendX b p = hx.
Proof.
  induction p as [|i r IH]; intros b hM hx H.
  - destruct H as [-> ->]. auto.
  - cbn [lk pendM pendX] in *. destruct (kind i) eqn:K; try (destruct b; [destruct H|]);
      try (apply IH in H; exact H).
    + destruct H as (-> & -> & H). apply IH in H. simpl in *. destruct (Nat.eqb j j0); tauto.
    + destruct H as (-> & -> & H). apply IH in H. simpl in *. destruct (Nat.eqb j j0); tauto.
    + destruct H as (-> & -> & H). apply IH in H. simpl in *. destruct (Nat.eqb j _); tauto.
    + destruct H as (-> & -> & H). apply IH in H. simpl in *. destruct (Nat.eqb j _); tauto.
    + destruct H as (-> & H). apply IH in H. tauto.
    + destruct H as (_ & H). apply IH in H. exact H.
    + destruct H as (-> & H). apply IH in H. exact H.
    + destruct H as (_ & -> & H & _). apply IH in H. exact H.
    + destruct H as (_ & -> & H). apply IH in H. exact H.
    + destruct H as (-> & -> & H). apply IH in H. exact H.
Qed.

Lemma lk_cbs dsf rc j l rest :
  lk dsf rc false None false rest -> lk dsf rc false None false (cbs_prog j l ++ rest).
Proof.
  intros H. unfold cbs_prog. induction l as [|c l IH]; simpl; auto.
  destruct c; simpl; auto.
Qed.

Lemma lk_frame s dsf' rc' p : InvA s -> Forall (wfi s) p ->
  (forall d, d < ndel s -> fcancelled (ds s d) = true -> fcancelled (dsf' d) = true) ->
  (forall r, r < nrec s -> jf (rc' r) = jf (recs s r)) ->
  forall b hM hx, lk (ds s) (recs s) b hM hx p -> lk dsf' rc' b hM hx p.
Proof.
  intros IA Hw Hd Hr. induction Hw as [|i r Wi Wr IH]; intros b hM hx H; [exact H|].
  cbn [lk] in *. destruct i; cbn [kind] in *; try (destruct b; [destruct H|]); cbn [wfi] in Wi;
    try (apply IH; exact H);
    try (destruct H as (H1 & H2 & H3); split; [exact H1|split; [exact H2|apply IH; exact H3]]; fail);
    try (destruct H as (H1 & H2); split; [exact H1|apply IH; exact H2]; fail);
    try (destruct Wi as [W1 W2]; rewrite (Hr _ W1); destruct H as (H1 & H2 & H3);
         split; [exact H1|split; [exact H2|apply IH; exact H3]]; fail).
  - destruct H as (H1 & H2 & H3 & H4). split; [destruct H1; auto|]. split; auto.
  - destruct Wi as [W1 W2]. destruct (a_rec _ IA _ _ W1 W2) as (W3 & _).
    destruct H as (H1 & H2 & H3). split; [destruct H1; auto|]. split; auto.
Qed.

Definition InvL (s : st) : Prop :=
  forall t, exists hM, lk (ds s) (recs s) false hM (opt_eqb (xown s) t) (thr s t) /\
                       forall j, mown s j = Some t <-> hM = Some j.

Lemma invL_upd s s' t p :
  InvA s -> InvL s ->
  (forall d, d < ndel s -> fcancelled (ds s d) = true -> fcancelled (ds s' d) = true) ->
  (forall r, r < nrec s -> jf (recs s' r) = jf (recs s r)) ->
  thr s' = upd (thr s) t (norm false p) ->
  (forall t', t' <> t -> forall j, mown s' j = Some t' <-> mown s j = Some t') ->
  (forall t', t' <> t -> opt_eqb (xown s') t' = opt_eqb (xown s) t') ->
  (forall hM, lk (ds s') (recs s') false hM (opt_eqb (xown s) t) (thr s t) ->
              (forall j, mown s j = Some t <-> hM = Some j) ->
     exists hM', lk (ds s') (recs s') false hM' (opt_eqb (xown s') t) p /\
                 forall j, mown s' j = Some t <-> hM' = Some j) ->
  InvL s'.
Proof.
  intros IA IL Hd Hr Ht Hm Hx Hp t'.
  assert (Fr : forall t0 hM hx, lk (ds s) (recs s) false hM hx (thr s t0) ->
                                lk (ds s') (recs s') false hM hx (thr s t0)).
  { intros t0 hM hx. apply (lk_frame s); auto. apply Forall_forall. intros i. apply (a_wf _ IA). }
  destruct (IL t') as (hM & L & M). destruct (Nat.eq_dec t' t) as [->|Hn].
  - destruct (Hp hM (Fr _ _ _ L) M) as (hM' & L' & M'). exists hM'. split; auto.
    rewrite Ht, upd_same. apply lk_norm. exact L'.
  - exists hM. split.
    + rewrite Ht, upd_other, Hx by auto. apply Fr. exact L.
    + intros j. rewrite Hm by auto. apply M.
Qed.

Lemma invL_same s s' :
  InvA s -> InvL s ->
  (forall d, d < ndel s -> fcancelled (ds s d) = true -> fcancelled (ds s' d) = true) ->
  (forall r, r < nrec s -> jf (recs s' r) = jf (recs s r)) ->
  thr s' = thr s -> mown s' = mown s -> xown s' = xown s -> InvL s'.
Proof.
  intros IA IL Hd Hr Ht Hm Hx t. destruct (IL t) as (hM & L & M). exists hM. rewrite Ht, Hm, Hx. split; auto.
  apply (lk_frame s); auto. apply Forall_forall. intros i. apply (a_wf _ IA).
Qed.
