(* I3: the output is completed (set or cancelled) at most once. *)
From Coq Require Import List Arith Bool Lia PeanoNat ZArith.
From ME Require Import Base.Machine Base.Fut Base.GenPrelude Gen.BoolGen Gen.ZipGen Model.Comb Proofs.Comb_Spec Proofs.Comb_I0.
Import ListNotations.

Definition isout (h : hev) : bool := match h with HSetOut _ | HOutCancelled => true | _ => false end.
Definition nout (l : list hev) : nat := length (filter isout l).

Record I3 (s : st) : Prop := {
  i3_le : nout (hist s) <= 1;
  i3_zero : fdone (os s) = false -> nout (hist s) = 0
}.

Lemma I3_init : I3 init.
Proof. constructor; simpl; auto. Qed.

Lemma I3_step s e s' : I3 s -> step s e = Some s' -> I3 s'.
Proof.
  intros [Hle Hz] H. constructor.
  - destruct e; step_inv H; simpl; try assumption; clean; unfold nout in *; simpl;
      repeat match goal with |- context [if ?c then _ else _] => destruct c end; simpl; auto;
      rewrite Hz; auto; destruct (os s); simpl in *; congruence.
  - destruct e; step_inv H; simpl; try assumption; clean; unfold nout in *; simpl;
      repeat match goal with |- context [if ?c then _ else _] => destruct c end; simpl; auto;
      try (intros; apply Hz; destruct (os s); simpl in *; congruence);
      destruct (os s); simpl in *; try congruence; try discriminate.
  all: try (inversion Heqo; subst; simpl; intros; auto; discriminate).
  all: try (inversion Heqp; subst; simpl; intros; auto; discriminate).
  all: inversion Heqo0; subst; simpl; intros; auto; discriminate.
Qed.

Lemma I3_reach s : reachable s -> I3 s.
Proof. apply invariant_rule; [exact I3_init|]. intros; eapply I3_step; eauto. Qed.
