(* C12 / Throttle: "once a ThrottleFuture is done the executor keeps no record of it" (part A: the invariant,
   its generic preservation lemmas).

   Who can retain a ThrottleFuture j:  the queue `_to_submit` (qu), the hand-over thread's local list (pend),
   the callback list of the delegate future created for it (CbRes j in dcbs d: the bound method
   ThrottleFuture._delegate_resolved).  In the other direction the future points at its delegate (mdel).

   InvK ties the state of every throttle future to the ghost history and to the delegate future created for it:
     k_ds    the n-th delegate.submit of the history is the job of the n-th delegate future (dfor);
     k_jd    a DONE throttle future was cancelled while queued, or the delegate future created for it is done;
     k_cb    a registered _delegate_resolved of j sits on the delegate future created for j;
     k_link  a future that points at a delegate is registered on it, or the registration (IAddCb2) / the clearing of
             the link (IAcqMSet j None, the first step of _delegate_resolved) is pending in some program;
     k_prog  the obligations of the pending instructions of every program. *)
From Coq Require Import ZArith List Bool Arith Lia.
From RecordUpdate Require Import RecordSet.
From ME Require Import Base.Machine Base.Fut Base.GenPrelude Gen.ThrottleGen Model.Throttle
  Proofs.Throttle_Spec Proofs.Throttle_Inv Proofs.Throttle_Fifo.
Import ListNotations RecordSetNotations.

Definition hand (s : st) (d j : nat) : Prop := (d < ndel s)%nat /\ dfor s d = j.
(* why throttle future j may be done *)
Definition jd (s : st) (j : nat) : Prop :=
  In j (cancq (hist s)) \/ exists d, hand s d j /\ fdone (ds s d) = true.

(* instructions that carry an obligation or take part in the link protocol *)
Definition key (i : instr) : bool :=
  match i with
  | IFCancel _ | IFSet _ _ | IDoneQ _ | IDCancelledQ _ _ | IAddCb2 _ _ | IAcqMSet _ _ => true
  | _ => false
  end.
Definition plain (i : instr) : bool := negb (key i).
(* the two instructions whose presence in a program stands for a link that is not registered (any more) *)
Definition rel (i : instr) : bool :=
  match i with IAddCb2 _ _ | IAcqMSet _ None => true | _ => false end.
Lemma rel_key i : rel i = true -> plain i = false.
Proof. destruct i; simpl; intros Hx; try discriminate Hx; reflexivity. Qed.

Definition iok (s : st) (r : list instr) (i : instr) : Prop :=
  match i with
  | IFCancel j | IFSet j _ | IDoneQ j => jd s j
  | IDCancelledQ j d => hand s d j /\ fdone (ds s d) = true
  | IAddCb2 d j => hand s d j
  | IAcqMSet j (Some d) => In (IAddCb2 d j) r
  | _ => True
  end.
Fixpoint pok (s : st) (p : list instr) : Prop :=
  match p with [] => True | i :: r => iok s r i /\ pok s r end.

Definition clr (s : st) (j d : nat) : Prop :=
  exists t, In (IAddCb2 d j) (thr s t) \/ In (IAcqMSet j None) (thr s t).

Record InvK (s : st) : Prop := {
  k_ds : dsubs (hist s) = map (dfor s) (seq 0 (ndel s));
  k_jd : forall j, fdone (ms s j) = true -> jd s j;
  k_cb : forall d j, In (CbRes j) (dcbs s d) -> hand s d j;
  k_link : forall j d, mdel s j = Some d -> In (CbRes j) (dcbs s d) \/ clr s j d;
  k_prog : forall t, pok s (thr s t)
}.

(* ---- monotonicity ---------------------------------------------------------------------------------------- *)
Definition kgrows (s s' : st) : Prop :=
  (forall j, In j (cancq (hist s)) -> In j (cancq (hist s'))) /\ (ndel s <= ndel s')%nat /\
  (forall d, (d < ndel s)%nat -> dfor s' d = dfor s d) /\
  (forall d, (d < ndel s)%nat -> fdone (ds s d) = true -> fdone (ds s' d) = true).

Lemma kgrows_refl s : kgrows s s.
Proof. unfold kgrows. auto 6. Qed.
Lemma hand_grows s s' d j : kgrows s s' -> hand s d j -> hand s' d j.
Proof. intros [_ [G2 [G3 _]]] [A B]. split; [lia|rewrite G3; auto]. Qed.
Lemma jd_grows s s' j : kgrows s s' -> jd s j -> jd s' j.
Proof.
  intros G [Hc|[d [Hh Hd]]]; [left; apply G; exact Hc|right].
  exists d. split; [eapply hand_grows; eauto|]. destruct Hh as [Hlt _]. destruct G as [_ [_ [_ G4]]]. auto.
Qed.
Lemma iok_grows s s' r i : kgrows s s' -> iok s r i -> iok s' r i.
Proof.
  intros G. destruct i; simpl; auto; try (apply jd_grows; exact G); try (apply hand_grows; exact G).
  intros [A B]. split; [eapply hand_grows; eauto|]. destruct A as [Hlt _]. destruct G as [_ [_ [_ G4]]]. auto.
Qed.
Lemma pok_grows s s' p : kgrows s s' -> pok s p -> pok s' p.
Proof. intros G. induction p as [|i r IH]; simpl; [auto|]. intros [A B]. split; [eapply iok_grows; eauto|auto]. Qed.

(* ---- programs: prefixes of plain instructions ------------------------------------------------------------- *)
Lemma iok_plain s r i : plain i = true -> iok s r i.
Proof. unfold plain. destruct i; simpl; try discriminate; auto. Qed.

(* q is r with a prefix of plain instructions replaced by another one *)
Inductive ext : list instr -> list instr -> Prop :=
| ext_refl r : ext r r
| ext_add i r q : plain i = true -> ext r q -> ext r (i :: q)
| ext_drop i r q : plain i = true -> ext r q -> ext (i :: r) q.

Lemma ext_app_plain l r q : forallb plain l = true -> ext r q -> ext r (l ++ q).
Proof.
  induction l as [|i l IH]; simpl; [auto|]. intros Hx Hq. apply andb_prop in Hx. destruct Hx as [A B].
  apply ext_add; auto.
Qed.
Lemma plain_map_dsubmit l : forallb plain (map IDSubmit l) = true.
Proof. induction l; simpl; auto. Qed.
Lemma ext_in r q : ext r q -> forall x, rel x = true -> In x r -> In x q.
Proof.
  induction 1 as [r|i r q Hp _ IH|i r q Hp _ IH]; intros x Hx Hin; [exact Hin|right; auto|].
  destruct Hin as [->|Hin]; [apply rel_key in Hx; congruence|auto].
Qed.
Lemma ext_pok s r q : ext r q -> pok s r -> pok s q.
Proof.
  induction 1 as [r|i r q Hp _ IH|i r q Hp _ IH]; intros Hr; [exact Hr| |].
  - split; [apply iok_plain; exact Hp|auto].
  - destruct Hr as [_ Hr]. auto.
Qed.

Lemma pok_norm s0 s p : pok s p -> pok s (norm s0 p).
Proof.
  destruct p as [|i r]; [auto|]. destruct i; auto. intros [_ Hr]. unfold norm.
  destruct (qu s0); [split; [exact Logic.I|exact Hr]|]. destruct (hlim s0); simpl; auto 10.
Qed.
Lemma in_norm_rel s0 p x : rel x = true -> (In x (norm s0 p) <-> In x p).
Proof.
  intros Hx. destruct p as [|i r]; [tauto|]. destruct i; try tauto. unfold norm.
  destruct (qu s0); [|destruct (hlim s0)]; simpl; split; intros Hin;
    repeat (destruct Hin as [Hin|Hin]; [subst x; discriminate Hx|]); auto 10.
Qed.
Lemma pok_app s p q : pok s (p ++ q) -> pok s q.
Proof. induction p as [|i r IH]; simpl; [auto|]. intros [_ Hr]. auto. Qed.

(* ---- the master lemma: thread t replaces its program by q --------------------------------------------------- *)
Lemma invK_step s s' t q :
  InvK s -> kgrows s s' ->
  dsubs (hist s') = map (dfor s') (seq 0 (ndel s')) ->
  (forall u, thr s' u = upd (thr s) t q u) ->
  pok s' q ->
  (forall j, fdone (ms s' j) = true -> fdone (ms s j) = true \/ jd s' j) ->
  (forall d j, In (CbRes j) (dcbs s' d) -> In (CbRes j) (dcbs s d) \/ hand s' d j) ->
  (forall j d, mdel s' j = Some d -> mdel s j = Some d \/ In (CbRes j) (dcbs s' d) \/ clr s' j d) ->
  (forall d j, In (CbRes j) (dcbs s d) -> In (CbRes j) (dcbs s' d) \/ clr s' j d \/ mdel s' j <> Some d) ->
  (forall x, rel x = true -> In x (thr s t) ->
     In x q \/ (exists d j, x = IAddCb2 d j /\ (In (CbRes j) (dcbs s' d) \/ In (IAcqMSet j None) q))
            \/ (exists j, x = IAcqMSet j None /\ mdel s' j = None)) ->
  InvK s'.
Proof.
  intros [K1 K2 K3 K4 K5] G Hds Hthr Hq Hj Hc Hm Hkc Hki. constructor.
  - exact Hds.
  - intros j Hd. destruct (Hj j Hd) as [Hx|Hx]; [eapply jd_grows; eauto|exact Hx].
  - intros d j Hin. destruct (Hc d j Hin) as [Hx|Hx]; [eapply hand_grows; eauto|exact Hx].
  - intros j d Hmd. destruct (Hm j d Hmd) as [Hold|Hnew]; [|exact Hnew].
    destruct (K4 j d Hold) as [Hcb|[t0 Hcl]].
    + destruct (Hkc d j Hcb) as [Hx|[Hx|Hx]]; [left; exact Hx|right; exact Hx|contradiction].
    + assert (Hone : forall x, (x = IAddCb2 d j \/ x = IAcqMSet j None) -> In x (thr s t0) ->
                     In (CbRes j) (dcbs s' d) \/ clr s' j d).
      { intros x Hxe Hin. assert (Hrel : rel x = true) by (destruct Hxe; subst x; reflexivity).
        destruct (Nat.eq_dec t0 t) as [->|Hne].
        - destruct (Hki x Hrel Hin) as [Hx|[[d1 [j1 [E1 Hx]]]|[j1 [E1 Hx]]]].
          + right. exists t. rewrite Hthr, upd_same. destruct Hxe; subst x; auto.
          + destruct Hxe as [Hxe|Hxe]; subst x; [|discriminate E1]. inversion E1; subst d1 j1.
            destruct Hx as [Hx|Hx]; [left; exact Hx|right; exists t; rewrite Hthr, upd_same; right; exact Hx].
          + destruct Hxe as [Hxe|Hxe]; subst x; [discriminate E1|]. inversion E1; subst j1. congruence.
        - right. exists t0. rewrite Hthr, upd_other by exact Hne. destruct Hxe; subst x; auto. }
      destruct Hcl as [Hcl|Hcl]; [apply (Hone (IAddCb2 d j))|apply (Hone (IAcqMSet j None))]; auto.
  - intros u. rewrite Hthr. destruct (Nat.eq_dec u t) as [->|Hne]; [rewrite upd_same; exact Hq|].
    rewrite upd_other by exact Hne. eapply pok_grows; eauto.
Qed.

(* ---- the plain case: nothing the invariant looks at changes but the program of t ----------------------------- *)
Definition kv (s : st) := (ms s, mdel s, ds s, dcbs s, dfor s, ndel s, cancq (hist s), dsubs (hist s)).
Definition headok (p : list instr) : Prop := match p with i :: _ => rel i = false | [] => True end.

Lemma tl_in (p : list instr) x : In x p -> headok p -> rel x = true -> In x (tl p).
Proof. destruct p as [|i r]; [intros []|]. simpl. intros [->|Hin] Hh Hx; [congruence|exact Hin]. Qed.
Lemma pok_tl s p : pok s p -> pok s (tl p).
Proof. destruct p as [|i r]; simpl; tauto. Qed.

Lemma invK_plain s s' t sn q :
  InvK s -> kv s' = kv s -> (forall u, thr s' u = upd (thr s) t (norm sn q) u) ->
  ext (tl (thr s t)) q -> headok (thr s t) -> InvK s'.
Proof.
  intros IK Ev Hthr He Hh. unfold kv in Ev. inversion Ev as [[E1 E2 E3 E4 E5 E6 E7 E8]].
  assert (G : kgrows s s') by (unfold kgrows; rewrite E3, E5, E6, E7; auto 6).
  apply (invK_step s s' t (norm sn q) IK G).
  - rewrite E5, E6, E8. apply (k_ds _ IK).
  - exact Hthr.
  - apply pok_norm. eapply pok_grows; [exact G|]. eapply ext_pok; [exact He|]. apply pok_tl. apply (k_prog _ IK).
  - intros j Hd. left. rewrite <- E1. exact Hd.
  - intros d j Hin. left. rewrite <- E4. exact Hin.
  - intros j d Hm. left. rewrite <- E2. exact Hm.
  - intros d j Hin. left. rewrite E4. exact Hin.
  - intros x Hx Hin. left. apply in_norm_rel; [exact Hx|]. eapply ext_in; [exact He|exact Hx|]. apply tl_in; auto.
Qed.

Lemma kv_sub_check s t v rest : kv (sub_check s t v rest) = kv s.
Proof. unfold sub_check. destruct (blk s && negb (shut s)); [destruct (block_ready (qlen s) v) as [[|]|]|]; reflexivity. Qed.
Lemma thr_sub_check s t v rest : exists pre, forallb plain pre = true /\
  forall u, thr (sub_check s t v rest) u = upd (thr s) t (norm s (pre ++ rest)) u.
Proof.
  unfold sub_check. destruct (blk s && negb (shut s)); [destruct (block_ready (qlen s) v) as [[|]|]|].
  - exists enq_prog. split; reflexivity.
  - exists [IWait 30 (WSub v)]. split; reflexivity.
  - exists [IRelG; IRetRaise]. split; reflexivity.
  - exists enq_prog. split; reflexivity.
Qed.

Lemma invK_sub_check s s1 t v rest :
  InvK s -> kv s1 = kv s -> thr s1 = thr s -> ext (tl (thr s t)) rest -> headok (thr s t) ->
  InvK (sub_check s1 t v rest).
Proof.
  intros IK Ev Et He Hh. destruct (thr_sub_check s1 t v rest) as [pre [Hp Hthr]].
  apply (invK_plain s _ t s1 (pre ++ rest) IK).
  - rewrite kv_sub_check. exact Ev.
  - intros u. rewrite Hthr, Et. reflexivity.
  - apply ext_app_plain; assumption.
  - exact Hh.
Qed.
Lemma invK_after_wait s s1 t k rest :
  InvK s -> kv s1 = kv s -> thr s1 = thr s -> ext (tl (thr s t)) rest -> headok (thr s t) ->
  InvK (after_wait s1 t k rest).
Proof.
  intros IK Ev Et He Hh. destruct k; simpl.
  - apply (invK_plain s _ t s1 (IClear :: rest) IK); auto.
    + intros u. simpl. rewrite Et. reflexivity.
    + apply ext_add; [reflexivity|exact He].
  - apply (invK_sub_check s); auto.
Qed.
Lemma invK_start_iter s s1 t :
  InvK s -> kv s1 = kv s -> thr s1 = thr s -> ext (tl (thr s t)) [] -> headok (thr s t) -> InvK (start_iter s1 t).
Proof.
  intros IK Ev Et He Hh. unfold start_iter. destruct (shut s1); [|destruct (dyn s1)].
  - apply (invK_plain s _ t s1 [IExit] IK); auto.
    + intros u. simpl. rewrite Et. reflexivity.
    + apply ext_add; [reflexivity|exact He].
  - apply (invK_plain s _ t s1 [ICount CH] IK); auto.
    + intros u. simpl. rewrite Et. reflexivity.
    + apply ext_add; [reflexivity|exact He].
  - apply (invK_plain s _ t (s1 <| hlim := last s1 |>) [IXAcqH] IK); auto.
    + intros u. simpl. rewrite Et. reflexivity.
    + apply ext_add; [reflexivity|exact He].
Qed.

(* ---- tactics ---------------------------------------------------------------------------------------------- *)
Ltac ext_tac :=
  simpl;
  repeat first [ apply ext_refl
               | apply ext_add; [reflexivity|]
               | apply ext_drop; [reflexivity|]
               | apply ext_app_plain; [first [reflexivity | apply plain_map_dsubmit]|] ].

(* side conditions of the plain lemmas, from the equation Et : thr s t = ... produced by brk *)
Ltac kside IK s :=
  first [ exact IK
        | reflexivity
        | (intros ?; reflexivity)
        | match goal with
          | Et : thr s ?t = _ |- ext (tl (thr s ?t)) _ => rewrite Et; ext_tac
          | Et : thr s ?t = _ |- headok (thr s ?t) => rewrite Et; reflexivity
          end ].
Ltac kplain IK s :=
  first [ eapply (invK_sub_check s) | eapply (invK_after_wait s) | eapply (invK_start_iter s) | eapply (invK_plain s) ];
  kside IK s.
Ltac khandler IK Hx s := brk Hx; inv_some Hx; kplain IK s.

Lemma idle_nil s t : idle s t = true -> thr s t = [].
Proof. unfold idle. intros Hx. destruct (thr s t); [reflexivity|]. rewrite andb_false_r in Hx. discriminate. Qed.
