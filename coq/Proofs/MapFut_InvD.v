(* Inductive invariants of the MapFuture/FlatMapFuture machine: the lemmas behind Props/MapFut_D.v.
   The proofs live in the layer files MapFut_D0 .. MapFut_D10:
   D0  loud step (step with set_prog replaced by a plain program update) + silent micro-steps, decomposition
       of a step, two-level invariant rule, adjacency shape of programs;
   D1  no raising instruction (mapfut_no_raise), all mentioned futures exist;
   D2  terminal outcome / cancel facts (mapfut_terminal_once, mapfut_cancel_true_stays,
       mapfut_cancel_false_on_finished);
   D3  who flushes the callbacks of a done future; D4 callback tokens (mapfut_callback_once,
       mapfut_callback_all_run);
   D5/D6 delegate-resolution tokens are unique, fn/error_fn once (mapfut_fn_once, mapfut_efn_once);
   D7..D10 the outcome law (mapfut_outcome_law). *)
From ME Require Export Base.Machine Base.Fut Model.MapFut Proofs.MapFut_D0 Proofs.MapFut_D1 Proofs.MapFut_D2
  Proofs.MapFut_D3 Proofs.MapFut_D4 Proofs.MapFut_D5 Proofs.MapFut_D6 Proofs.MapFut_D7 Proofs.MapFut_D8
  Proofs.MapFut_D9 Proofs.MapFut_D10.
