(* C12 on the MapFuture/FlatMapFuture machine, layer 1: what the library still holds of a DONE future.
   New invariants (on top of Inv12 of Proofs/MapFut_E10.v):
     Hx   a granted delegate cancel (HDCancel j d true in the history) leaves d cancelled for good;
     Ub   futures that are not created yet are pending;
   and the key consequence, by history reasoning: the delegate a DONE library future still "depends on"
   (tokP) is itself done -- hence a done future is registered on no delegate, in every reachable state. *)
From Coq Require Import ZArith List Bool Arith Lia.
From RecordUpdate Require Import RecordSet.
From ME Require Import Base.Machine Base.Fut Base.GenPrelude Model.MapFut Model.MapLaw Proofs.MapFut_InvD
  Proofs.MapFut_E1 Proofs.MapFut_E2 Proofs.MapFut_E3 Proofs.MapFut_E4 Proofs.MapFut_E7 Proofs.MapFut_E8
  Proofs.MapFut_E9 Proofs.MapFut_E10.
Import ListNotations RecordSetNotations.

(* ---- Hx: a granted delegate cancel is final ---------------------------------------------------- *)
Definition Hx (s : st) : Prop := forall j d, In (HDCancel j d true) (hist s) -> fcancelled (es s d) = true.

Lemma f_cancel_granted pre n : f_cancel pre = (n, true) -> fcancelled n = true.
Proof. destruct pre; simpl; intros E; inversion E; reflexivity. Qed.

Lemma lstep_hx s e s0 : lstep s e = Some s0 -> Hx s -> Hx s0.
Proof.
  intros H I j' d' X.
  assert (K : forall d1, fcancelled (es s d1) = true -> fcancelled (es s0 d1) = true)
    by (intros d1; eapply lstep_es_canc; eauto).
  step_cases H; simpl in X; try (apply K; apply (I j' d'); exact X).
  all: try (destruct X as [X|X]; [discriminate X|apply K; apply (I j' d'); exact X]).
  (* the three IDCancel outcomes: granted and firing, granted on an already cancelled delegate, refused *)
  all: destruct X as [X|X]; [inversion X; subst; simpl; rewrite ?upd_same|apply K; apply (I j' d'); exact X].
  all: eapply f_cancel_granted; eassumption.
Qed.

Lemma sil_hx t s s' : sil t s s' -> Hx s -> Hx s'.
Proof. intros H I. unfold Hx. rewrite (sil_hist _ _ _ H), (sil_es _ _ _ H). exact I. Qed.

(* ---- Ub: futures not created yet are pending --------------------------------------------------- *)
Definition Ub (s : st) : Prop := forall j, nfut s <= j -> ms s j = Pending.

Lemma lstep_ub s e s0 : lstep s e = Some s0 -> Bnd s -> Ub s -> Ub s0.
Proof.
  intros H B I. pose proof (b_thr _ B) as B1.
  step_cases H; try exact I.
  all: intros j' L; simpl in *.
  all: try (apply I; exact L).
  all: try (specialize (B1 t); rewrite Heql in B1; inversion B1 as [|? ? OK _]; subst; unfold okI in OK; simpl in OK;
            rewrite upd_other by lia; apply I; exact L).
  rewrite upd_other by lia. apply I. lia.
Qed.
Lemma sil_ub t s s' : sil t s s' -> Ub s -> Ub s'.
Proof. intros H I. unfold Ub. rewrite (sil_nfut _ _ _ H), (Proofs.MapFut_D1.sil_ms _ _ _ H). exact I. Qed.

Definition InvK (s : st) : Prop := Inv12 s /\ (Hx s /\ Ub s).
Lemma inv12_inv6 s : Inv12 s -> Inv6 s.
Proof. intros H; apply H. Qed.
Lemma linvK : linv InvK.
Proof.
  apply linv_and; [apply linv12| | |].
  - split; [intros j d X; destruct X|intros j _; reflexivity].
  - intros s e s0 I12 _ [X U] H. split; [eapply lstep_hx; eauto|].
    eapply lstep_ub; eauto. apply inv6_bnd. apply inv12_inv6. exact I12.
  - intros t s s' _ _ [X U] H. split; [eapply sil_hx; eauto|eapply sil_ub; eauto].
Qed.
Lemma invK_reach s : reachable s -> InvK s.
Proof. apply linv_reach; [apply linvK|]. intros s0 H; apply H. Qed.

(* ---- the delegate a done future depends on is done --------------------------------------------- *)
Lemma incl_cnt_pos {A} (f : A -> bool) l x : In x l -> f x = true -> cnt f l >= 1.
Proof. intros X F. pose proof (in_cnt_pos f l x X F). lia. Qed.

Lemma call_same s j (h1 h2 : hev) : Fn s -> In h1 (hist s) -> In h2 (hist s) -> hcall j h1 = true -> hcall j h2 = true -> h1 = h2.
Proof. intros F X Y A B. eapply cnt_le1_uniq; eauto. apply (f_le _ F j). Qed.

(* j was given the outcome o (claim), and still depends on d: then d finished *)
Lemma tok_claim_done s j d o : Fn s -> Cn s -> tokP s j d -> claim s j o -> fdone (es s d) = true.
Proof.
  intros F CN T (d0 & din & N0 & O0 & E0 & LW).
  destruct T as [FL|[NC N1]].
  2:{ pose proof (n_uniq _ CN _ _ _ N0 N1) as <-. rewrite E0. reflexivity. }
  destruct FL as (K & d1 & din1 & N1 & O1 & E1 & X).
  pose proof (n_uniq _ CN _ _ _ N0 N1) as <-. rewrite O0 in O1. inversion O1; subst din1. clear O1.
  unfold law in LW. rewrite K in LW.
  assert (IN : inner_of s d = Some o -> fdone (es s d) = true).
  { unfold inner_of. destruct (fstate_eqb (es s d) Finished) eqn:EF; [|discriminate].
    apply fstate_eqb_eq in EF. rewrite EF. reflexivity. }
  destruct din as [v|e0]; destruct X as [MF X]; rewrite MF in LW; destruct LW as (a & Y & AP).
  - assert (EQ : HFn j d0 a = HFn j d0 (ARetFut d)) by (apply (call_same s j); simpl; auto using Nat.eqb_refl).
    inversion EQ; subst a. simpl in AP. apply IN. exact AP.
  - assert (EQ : HEfn j d0 a = HEfn j d0 (ARetFut d)) by (apply (call_same s j); simpl; auto using Nat.eqb_refl).
    inversion EQ; subst a. simpl in AP. apply IN. exact AP.
Qed.

(* a cancel of j was granted by some delegate, and j still depends on d: then d is done *)
Lemma tok_cancel_done s j d d1 : Fn s -> Cn s -> Ccur s -> Hx s ->
  tokP s j d -> In (HDCancel j d1 true) (hist s) -> fdone (es s d) = true.
Proof.
  intros F CN CC X T HD. pose proof (X _ _ HD) as C1.
  assert (DN : forall d', fcancelled (es s d') = true -> fdone (es s d') = true)
    by (intros d'; destruct (es s d'); simpl; congruence).
  destruct (in_split _ _ HD) as (l1 & l2 & EH).
  pose proof (CC _ _ _ _ _ EH) as CU.
  assert (SUB : forall h, In h l2 -> In h (hist s)) by (intros h Hh; rewrite EH; apply in_or_app; right; right; exact Hh).
  destruct T as [FL|[NC N1]].
  - (* flattened onto d *)
    destruct FL as (K & d0 & din & N0 & O0 & E0 & Y).
    destruct CU as [[_ N2]|(_ & d2 & CA)].
    + (* the cancel went to the original delegate, which then finished: impossible *)
      pose proof (n_uniq _ CN _ _ _ N0 (SUB _ N2)) as <-. rewrite E0 in C1. discriminate C1.
    + assert (EQ : d1 = d).
      { destruct din; destruct Y as [_ Y]; destruct CA as [CA|CA]; apply SUB in CA;
          match goal with
          | A : In ?h1 (hist s), B : In ?h2 (hist s) |- _ =>
              assert (EQ : h1 = h2) by (apply (call_same s j); simpl; auto using Nat.eqb_refl); inversion EQ; reflexivity
          end. }
      subst d1. apply DN. exact C1.
  - destruct CU as [[_ N2]|(_ & d2 & CA)].
    + pose proof (n_uniq _ CN _ _ _ N1 (SUB _ N2)) as <-. apply DN. exact C1.
    + exfalso. unfold ncall in NC.
      destruct CA as [CA|CA]; apply SUB in CA; pose proof (incl_cnt_pos (hcall j) _ _ CA) as P; simpl in P;
        rewrite Nat.eqb_refl in P; specialize (P eq_refl); lia.
Qed.

(* projections *)
Lemma invK_parts s : InvK s ->
  Inv6 s /\ Ecl s /\ Cn s /\ Ch s /\ Md s /\ Vd s /\ Ms s /\ Ccur s /\ Hx s /\ Ub s.
Proof.
  intros [I12 [X U]]. destruct I12 as [[[[[I6 (E & _ & CN)] CH] [_ M]] V] (_ & _ & MS & CC)].
  exact (conj I6 (conj E (conj CN (conj CH (conj M (conj V (conj MS (conj CC (conj X U))))))))).
Qed.

Lemma done_tok_done s j d : InvK s -> fdone (ms s j) = true -> tokP s j d -> fdone (es s d) = true.
Proof.
  intros IK D T. destruct (invK_parts s IK) as (I6 & E & CN & CH & M & V & MS & CC & X & U).
  pose proof (inv6_hd _ I6) as HD. pose proof (inv6_fn _ I6) as F. pose proof (inv6_ol _ I6) as O.
  destruct (h_done _ HD j D) as [[o S]|C].
  - eapply tok_claim_done; eauto. apply (o_set _ O). exact S.
  - destruct (in_split _ _ C) as (l1 & l2 & EH). destruct (c_fwd _ CH _ _ _ EH) as (d1 & Y).
    eapply (tok_cancel_done s j d d1); eauto. rewrite EH. apply in_or_app; right; right; exact Y.
Qed.
