(* The machine run on the GENERATED methods of TimeoutExecutor (Model/TimeoutIR.gstep applied to
   Gen/TimeoutSkel.submit_timeout_m / job_loop_m) and the hand-written acceptor Model/Timeout.v make the same
   step on every state and every event: at each of the eight events at which Timeout.step loads a piece of a
   method of TimeoutExecutor, the segment of the generated method, instantiated with the data the event binds,
   IS that piece (Proofs/TimeoutIR_Paths.v, seg_...).  Hence a lockstep bisimulation with the identity relation:
   both directions at once. *)
From Coq Require Import ZArith List Bool Arith Lia.
From RecordUpdate Require Import RecordSet.
From ME Require Import Base.Machine Base.Fut Base.GenPrelude Gen.TimeoutGen Model.Timeout Model.TimeoutIR Gen.TimeoutSkel
  Proofs.TimeoutIR_Paths.
Import ListNotations RecordSetNotations.

Definition src_step0 : st -> ev -> option st := gstep0 submit_timeout_m job_loop_m.
Definition src_step : st -> Z * ev -> option st := gstep submit_timeout_m job_loop_m.

Lemma src_call_submit s t tmo : src_step0 s (ECallSubmit t tmo) = step0 s (ECallSubmit t tmo).
Proof.
  unfold src_step0, gstep0, load, step0, step_call.
  destruct (thr s t) as [|i rest]; [|reflexivity].
  destruct (Nat.eqb t jt); [reflexivity|].
  rewrite seg_submit_0. reflexivity.
Qed.

Lemma src_dsubmit s t d inl : src_step0 s (EDSubmit t d inl) = step0 s (EDSubmit t d inl).
Proof.
  unfold src_step0, gstep0, load, step0, step_call.
  destruct (thr s t) as [|i rest]; [reflexivity|]. destruct i; try reflexivity.
  all: destruct (negb (Nat.eqb d (ndel s))); [reflexivity|]; cbv zeta.
  all: rewrite seg_submit_1; reflexivity.
Qed.

Lemma src_xsec s t : src_step0 s (EXSec t) = step0 s (EXSec t).
Proof.
  unfold src_step0, gstep0, load, step0, step_sync.
  destruct (issome (xown s)); [reflexivity|].
  destruct (thr s t) as [|i rest]; [reflexivity|]. destruct i; try reflexivity.
  all: rewrite seg_submit_3; reflexivity.
Qed.

Lemma src_xacq s t : src_step0 s (EXAcq t) = step0 s (EXAcq t).
Proof.
  unfold src_step0, gstep0, load, step0, step_sync.
  destruct (issome (xown s) || negb (Nat.eqb t jt)); [reflexivity|].
  destruct (thr s t) as [|i rest]; [|reflexivity].
  rewrite seg_iter_0. reflexivity.
Qed.

Lemma src_xrel s t : src_step0 s (EXRel t) = step0 s (EXRel t).
Proof.
  unfold src_step0, gstep0, load, step0, step_sync.
  destruct (thr s t) as [|i rest]; [reflexivity|]. destruct i; try reflexivity.
  all: destruct (xown s) as [t'|]; [|reflexivity].
  all: destruct (negb (Nat.eqb t t') || negb (Nat.eqb t jt)); [reflexivity|].
  all: destruct (partition s) as [pending overdue].
  all: rewrite seg_iter_2; unfold k_xrel; rewrite <- app_assoc; reflexivity.
Qed.

Lemma src_clock s t w : src_step0 s (EClock t w) = step0 s (EClock t w).
Proof.
  unfold src_step0, gstep0, load, step0, step_sync.
  destruct (negb (Z.eqb w (clock s))); [reflexivity|].
  destruct (thr s t) as [|i rest]; [reflexivity|]. destruct i; try reflexivity.
  all: try (rewrite seg_submit_2; reflexivity).
  all: try (destruct (negb (Nat.eqb t jt)); [reflexivity|];
            rewrite seg_iter_1; unfold k_clockp; rewrite <- app_assoc; reflexivity).
  all: destruct (isnil (jobs s) || negb (Nat.eqb t jt)); [reflexivity|].
  all: rewrite seg_iter_3; reflexivity.
Qed.

Lemma segments_all : forall tmo j d w js ovd tau,
  inst (mkD tmo 0 0 0 [] [] None) (first_seg (path_submit submit_timeout_m)) = Some [IAcqG; IDSubmit tmo] /\
  inst (mkD tmo j d 0 [] [] None) (seg_after OpDSubmit (path_submit submit_timeout_m)) = Some (submit_prog j d tmo) /\
  inst (mkD tmo j 0 w [] [] None) (seg_after OpClockJob (path_submit submit_timeout_m)) = Some [IXAppend (mkjob j (deadline_of w tmo))] /\
  inst d0 (seg_after OpXSecAppend (path_submit submit_timeout_m)) = Some [IEvSet; IRelG; IRet] /\
  inst d0 (first_seg (path_iter job_loop_m true)) = Some [IClockP] /\
  inst (mkD 0 0 0 0 js [] None) (seg_after OpClockP (path_iter job_loop_m true)) = Some (map (fun job => IPDone (tj_id job)) js ++ [IXRelP]) /\
  inst (mkD 0 0 0 0 [] ovd None) (seg_after OpXRel (path_iter job_loop_m true)) = Some (map ITCancel ovd ++ [IWaitCalc None]) /\
  inst (mkD 0 0 0 0 [] [] tau) (seg_after OpWaitClock (path_iter job_loop_m true)) = Some [IWWait tau].
Proof.
  intros. repeat apply conj.
  - exact (seg_submit_0 tmo).
  - exact (seg_submit_1 tmo j d).
  - exact (seg_submit_2 tmo j w).
  - exact seg_submit_3.
  - exact seg_iter_0.
  - exact (seg_iter_1 js).
  - exact (seg_iter_2 ovd).
  - exact (seg_iter_3 tau).
Qed.

Theorem src_step0_eq s e : src_step0 s e = step0 s e.
Proof.
  destruct e; try reflexivity;
    first [apply src_call_submit | apply src_xsec | apply src_xacq | apply src_xrel | apply src_dsubmit | apply src_clock].
Qed.

Theorem src_step_eq s te : src_step s te = step s te.
Proof. unfold src_step, gstep, step. destruct (tick s (fst te)); [apply src_step0_eq|reflexivity]. Qed.

(* lockstep, both directions: from the same state every event is accepted by both with the same successor,
   or rejected by both *)
Theorem lockstep s te :
  match src_step s te, step s te with
  | Some s1, Some s2 => s1 = s2
  | None, None => True
  | _, _ => False
  end.
Proof. rewrite src_step_eq. destruct (step s te); [reflexivity|exact I]. Qed.

Lemma run_eq es : forall s, run src_step s es = run step s es.
Proof.
  induction es as [|e r IH]; intros s; simpl; [reflexivity|].
  rewrite src_step_eq. destruct (step s e); [apply IH|reflexivity].
Qed.

Lemma first_reject_eq es : forall s i, first_reject src_step s es i = first_reject step s es i.
Proof.
  induction es as [|e r IH]; intros s i; simpl; [reflexivity|].
  rewrite src_step_eq. destruct (step s e); [apply IH|reflexivity].
Qed.

Theorem src_trace_accepted_by_timeout es s : run src_step init es = Some s -> run step init es = Some s.
Proof. rewrite run_eq. exact (fun H => H). Qed.
Theorem timeout_trace_accepted_by_src es s : run step init es = Some s -> run src_step init es = Some s.
Proof. rewrite run_eq. exact (fun H => H). Qed.

Definition src_reachable (s : st) : Prop := reachable_from src_step init s.

Theorem src_reachable_iff s : src_reachable s <-> reachable_from step init s.
Proof. unfold src_reachable, reachable_from. split; intros [es H]; exists es; [rewrite <- run_eq|rewrite run_eq]; exact H. Qed.

Theorem same_verdict ls : gaccept submit_timeout_m job_loop_m ls = accept ls.
Proof.
  unfold gaccept, accept. destruct (decode_all ls) as [es|]; [|reflexivity].
  change (gstep submit_timeout_m job_loop_m) with src_step. rewrite first_reject_eq. reflexivity.
Qed.

(* any invariant of the hand-written machine is an invariant of the generated programs, and conversely *)
Theorem invariant_transfer (P : st -> Prop) :
  (forall s, reachable_from step init s -> P s) <-> (forall s, src_reachable s -> P s).
Proof. split; intros H s Hs; apply H; apply src_reachable_iff; exact Hs. Qed.
