(* The lemmas Props/C08_Poll.v is closed with: the invariants hold in every reachable state. *)
From Coq Require Import ZArith List Bool Arith Lia.
From RecordUpdate Require Import RecordSet.
From ME Require Import Base.Machine Base.Fut Base.GenPrelude Model.Poll
     Proofs.Poll_Inv Proofs.Poll_Prov Proofs.Poll_Raise Proofs.Poll_NoDup Proofs.Poll_Snap.
Import ListNotations RecordSetNotations.

Lemma reach_inv1 s : reachable s -> Inv1 s.
Proof. apply invariant_rule; [exact inv1_init|intros; eapply inv1_step; eauto]. Qed.
Lemma reach_inv2 s : reachable s -> Inv2 s.
Proof. apply invariant_rule; [exact inv2_init|intros; eapply inv2_step; eauto]. Qed.
Lemma reach_inv3 s : reachable s -> Inv3 s.
Proof. apply invariant_rule; [exact inv3_init|intros; eapply inv3_step; eauto]. Qed.
Lemma reach_inv4 s : reachable s -> Inv4 s.
Proof. apply invariant_rule; [exact inv4_init|intros; eapply inv4_step; eauto]. Qed.
Lemma reach_inv5 s : reachable s -> Inv5 s.
Proof. apply invariant_rule; [exact inv5_init|intros; eapply inv5_step; eauto]. Qed.
Lemma reach_inv6 s : reachable s -> Inv6 s.
Proof. apply invariant_rule; [exact inv6_init|intros; eapply inv6_step; eauto]. Qed.

Lemma reach_inv7 s : reachable s -> Inv7 s.
Proof. apply invariant_rule; [exact inv7_init|intros; eapply inv7_step; eauto]. Qed.

(* ---- single_poller ---------------------------------------------------------------------------- *)
Lemma single_poller_lemma s :
  reachable s ->
  alternating (hist s) /\ (forall t l ts, In (HPoll t l ts) (hist s) -> t = poller).
Proof. intros R. destruct (reach_inv1 s R) as [A [_ P]]. auto. Qed.

(* ---- descriptor_exact --------------------------------------------------------------------------- *)
Lemma descriptor_exact_lemma s :
  reachable s ->
  descs s = descs_of (hist s) /\ snaps_ok (hist s) /\
  (forall j v, In (j, v) (descs s) -> regd (hist s) j v /\ dok (hist s) j v).
Proof.
  intros R. destruct (reach_inv3 s R) as [Hd Hs _ _ _]. destruct (reach_inv5 s R) as [_ Id _ _ _ Ireg].
  repeat split; auto. destruct (Id _ _ H) as [ts Hts]. eapply Ireg; eauto.
Qed.

Lemma descriptor_nodup_lemma s :
  reachable s ->
  NoDup (map fst (descs s)) /\
  (forall l ts, In (HSnap l ts) (hist s) -> NoDup (map fst l)) /\
  (forall t l ts, In (HPoll t l ts) (hist s) -> NoDup (map fst l)).
Proof.
  intros R. destruct (reach_inv3 s R) as [Hd Hs _ _ _]. destruct (reach_inv7 s R) as [_ _ _ Ho _].
  split; [rewrite Hd; apply nodup_descs_of, Ho|apply snaps_nodup; auto].
Qed.

Lemma descriptor_exact_at_snapshot_lemma s h1 l ts r :
  reachable s -> hist s = h1 ++ HSnap l ts :: r ->
  (forall j v, In (j, v) l <-> live_in r j v) /\ NoDup (map fst l).
Proof.
  intros R E. destruct (reach_inv3 s R) as [_ Hs _ _ _]. rewrite E in Hs.
  pose proof (snap_is_descs _ _ _ _ Hs) as ->. split.
  - intros j v. split; [apply descs_of_live|apply live_descs_of].
  - destruct (descriptor_nodup_lemma s R) as [_ [Hn _]]. apply (Hn _ ts). rewrite E. apply in_or_app. right. left. reflexivity.
Qed.

(* ---- first_yield_wins ---------------------------------------------------------------------------- *)
Lemma set_once_lemma s j :
  reachable s ->
  outs_of j (hist s) = match pout s j with Some o => [o] | None => [] end /\
  (forall o ts, In (HSet j o ts) (hist s) -> src (hist s) j o).
Proof.
  intros R. destruct (reach_inv3 s R) as [_ _ _ Ho _]. destruct (reach_inv5 s R) as [_ _ _ Iset _ _].
  split; [apply Ho|intros; eapply Iset; eauto].
Qed.

Lemma pout_stable_step s e s' j o :
  Inv3 s -> step s e = Some s' -> pout s j = Some o -> pout s' j = Some o.
Proof.
  destruct e as [ts e]. intros I H Hp. apply step_inv in H. destruct H as [s1 [Ht H]].
  apply tick_fields in Ht. destruct Ht as [_ [_ [_ [_ [_ [_ [_ [_ [Eps [Epo _]]]]]]]]]].
  assert (If : forall j, pout s1 j <> None -> ps s1 j = Finished) by (rewrite Eps, Epo; apply (i3_fin _ I)).
  rewrite <- Epo in Hp. clear I Eps Epo s.
  apply step0_inv in H. destruct H as [[c [d [-> [_ ->]]]]|[_ [H|[H|H]]]]; [exact Hp| | |].
  - open1 H; simpl; auto.
  - open2 H; simpl; auto; norm_eqs; ps_facts; usplit_all; congruence.
  - open3 H; simpl; auto.
Qed.

Lemma pout_stable_lemma s es s' j o :
  reachable s -> run step s es = Some s' -> pout s j = Some o -> pout s' j = Some o.
Proof.
  revert s. induction es as [|e r IH]; simpl; intros s R H Hp.
  - inversion H; subst; exact Hp.
  - destruct (step s e) eqn:E; [|discriminate].
    apply (IH s0); auto.
    + eapply reachable_step; eauto.
    + eapply pout_stable_step; eauto. apply reach_inv3, R.
Qed.

(* ---- poll_raise_fails_shown ------------------------------------------------------------------------ *)
Lemma raise_done_lemma s tau e l :
  reachable s -> pmode s = PRest tau -> thr s poller = [] -> last_end (hist s) = Some (e, l) ->
  forall j, In j (map fst l) -> fdone (ps s j) = true.
Proof.
  intros R Hm Ht Hl j Hj. destruct (reach_inv6 s R _ _ _ Hm Hl j Hj) as [H|[H|H]]; auto;
    rewrite Ht in H; destruct H.
Qed.

(* ---- prompt_poll ------------------------------------------------------------------------------------ *)
Lemma prompt_poll_lemma s T :
  reachable s -> owed_of (hist s) = Some T ->
  clock s = T /\ ~ (pmode s = PBlocked /\ wnotif s = false).
Proof.
  intros R H. destruct (reach_inv2 s R) as [Io Ib If Iw It]. rewrite <- Io in H. split; [auto|].
  intros [Hp Hn]. destruct Iw as [Hw|[[_ Hw]|[Hw|Hw]]]; try congruence.
  rewrite (If Hw Hp) in Hn. discriminate.
Qed.

(* ---- cancel_fn_scope --------------------------------------------------------------------------------- *)
Lemma cancel_fn_scope_lemma s :
  reachable s ->
  (forall t j v a ts, In (HCancelFn t j v a ts) (hist s) -> regd (hist s) j v /\ dok (hist s) j v) /\
  veto_ok (hist s).
Proof.
  intros R. destruct (reach_inv5 s R) as [_ _ _ _ Icfn Ireg]. destruct (reach_inv4 s R) as [_ Iok _].
  split; [|exact Iok]. intros t j v a ts H. pose proof (Icfn _ _ _ _ _ H) as Hr. split; [exact Hr|].
  destruct Hr as [ts' Hr]. eapply Ireg; eauto.
Qed.
