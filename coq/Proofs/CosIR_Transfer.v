(* Consequences of the lockstep theorem: the IR machine running the generated programs and Cos.v accept the
   same traces; reachable IR states are related to reachable Cos states; the lemmas behind Props/C10_ir.v. *)
From Coq Require Import List Arith Bool Lia PeanoNat.
From ME Require Import Base.Machine Base.Fut Model.Cos Model.CosIR Gen.CosSkel
  Proofs.Cos_Inv Proofs.CosIR_Sim Proofs.CosIR_Sim2.
Import ListNotations.

Definition ireachable (s : ist) : Prop := reachable_from gstep iinit s.

Lemma run_lockstep es : forall s cs, R s cs -> lock_ok (run gstep s es) (run step cs es).
Proof.
  induction es as [|e r IH]; intros s cs HR; simpl; [exact HR|].
  pose proof (lockstep s cs e HR) as L. unfold lock_ok in L.
  destruct (gstep s e) as [s'|]; destruct (step cs e) as [cs'|]; try contradiction; [apply IH; exact L|exact I].
Qed.

(* forward simulation: every trace the generated programs can produce is accepted by Cos.v ... *)
Theorem ir_trace_accepted_by_cos : forall es s, run gstep iinit es = Some s ->
  exists cs, run step init es = Some cs /\ R s cs.
Proof.
  intros es s H. pose proof (run_lockstep es iinit init R_init) as L. rewrite H in L. simpl in L.
  destruct (run step init es) as [cs|]; [|contradiction]. exists cs. split; [reflexivity|exact L].
Qed.

(* ... and backward: Cos.v accepts nothing the generated programs cannot do *)
Theorem cos_trace_accepted_by_ir : forall es cs, run step init es = Some cs ->
  exists s, run gstep iinit es = Some s /\ R s cs.
Proof.
  intros es cs H. pose proof (run_lockstep es iinit init R_init) as L. rewrite H in L.
  destruct (run gstep iinit es) as [s|]; simpl in L; [|contradiction]. exists s. split; [reflexivity|exact L].
Qed.

Theorem ir_cos_trace_equivalent : forall es, run gstep iinit es <> None <-> run step init es <> None.
Proof.
  intros es. pose proof (run_lockstep es iinit init R_init) as L. unfold lock_ok in L.
  destruct (run gstep iinit es); destruct (run step init es); try contradiction; split; congruence.
Qed.

(* same verdict on every wire trace, first rejected event included *)
Lemma first_reject_lockstep es : forall s cs n, R s cs -> first_reject gstep s es n = first_reject step cs es n.
Proof.
  induction es as [|e r IH]; intros s cs n HR; simpl; [reflexivity|].
  pose proof (lockstep s cs e HR) as L. unfold lock_ok in L.
  destruct (gstep s e) as [s'|]; destruct (step cs e) as [cs'|]; try contradiction; [apply IH; exact L|reflexivity].
Qed.
Theorem iaccept_eq_accept : forall ls, iaccept submit_prog shutdown_prog ls = accept ls.
Proof.
  intros ls. unfold iaccept, accept. destruct (decode_all ls) as [es|]; [|reflexivity].
  change (istep submit_prog shutdown_prog) with gstep. rewrite (first_reject_lockstep es iinit init 0 R_init). reflexivity.
Qed.

Lemma ireachable_related : forall s, ireachable s -> exists cs, reachable_from step init cs /\ R s cs.
Proof.
  intros s [es H]. destruct (ir_trace_accepted_by_cos es s H) as [cs [Hc HR]]. exists cs. split; [exists es; exact Hc|exact HR].
Qed.

(* every invariant of Cos.v holds of the Cos state related to a reachable IR state *)
Theorem ir_invariant_transfer : forall (P : st -> Prop),
  (forall cs, reachable_from step init cs -> P cs) ->
  forall s, ireachable s -> exists cs, R s cs /\ P cs.
Proof.
  intros P HP s Hs. destruct (ireachable_related s Hs) as [cs [Hc HR]]. exists cs. split; [exact HR|apply HP; exact Hc].
Qed.

(* ---- the C10 lemmas on the IR machine ----------------------------------------------------------- *)
Lemma ir_cover_once : forall s, ireachable s -> ishut_ret (sh s) = true ->
  idshut (sh s) = 1 /\
  forall f, f < icreated (sh s) ->
    icancels (sh s) f <= 1 /\ (fdone (ifs (sh s) f) = true \/ icancels (sh s) f = 1).
Proof.
  intros s Hs Hret. destruct (ireachable_related s Hs) as [cs [Hc HR]]. destruct HR.
  rewrite r_shut_ret in Hret. destruct (cos_cover_once cs Hc Hret) as [Hd Hcov].
  rewrite r_dshut, r_created, r_cancels, r_fs. split; assumption.
Qed.

Lemma ir_at_most_once : forall s, ireachable s -> forall f, icancels (sh s) f <= 1.
Proof.
  intros s Hs f. destruct (ireachable_related s Hs) as [cs [Hc HR]]. destruct HR.
  rewrite r_cancels. apply cos_at_most_once; exact Hc.
Qed.

Lemma ir_dshut_le1 : forall s, ireachable s -> idshut (sh s) <= 1.
Proof.
  intros s Hs. destruct (ireachable_related s Hs) as [cs [Hc HR]]. destruct HR.
  rewrite r_dshut. apply cos_dshut_le1; exact Hc.
Qed.

(* thread t of the IR state is at the continuation the pc p of Cos.v stands for *)
Definition at_pc (s : ist) (t : tid) (p : pc) : Prop := exists c, ithr s t = conc c p.

(* conc is injective up to the value of `cancel` *)
Lemma conc_inj c1 c2 p1 p2 : conc c1 p1 = conc c2 p2 -> p1 = p2.
Proof.
  destruct p1 as [| | | | |f1|f1|f1|f1| | | | | | |l1|l1| ]; destruct p2 as [| | | | |f2|f2|f2|f2| | | | | | |l2|l2| ];
    try (destruct l1); try (destruct l2); simpl; intros H; try discriminate H; try reflexivity;
    try (injection H; intros; subst; reflexivity).
Qed.

Lemma at_pc_related s cs t p : R s cs -> at_pc s t p -> thr cs t = p.
Proof.
  intros HR [c Hc]. destruct (r_thr _ _ HR t) as [c' Hc']. rewrite Hc in Hc'. symmetry. eapply conc_inj. exact Hc'.
Qed.

Lemma ir_no_inflight_after_flag : forall s, ireachable s -> iflag (sh s) = true ->
  forall t p, past_check' p = true -> ~ at_pc s t p.
Proof.
  intros s Hs Hf t p Hp Hat. destruct (ireachable_related s Hs) as [cs [Hc HR]].
  pose proof (at_pc_related s cs t p HR Hat) as Ht.
  rewrite (r_flag _ _ HR) in Hf. pose proof (cos_no_inflight_after_flag cs Hc Hf t) as Hn. rewrite Ht in Hn. congruence.
Qed.

(* the semantic reading: once the flag is set, no submit reaches the delegate, from any thread *)
Lemma ir_no_delegate_submit_after_flag : forall s, ireachable s -> iflag (sh s) = true ->
  forall t f d, gstep s (DSubmit t f d) = None.
Proof.
  intros s Hs Hf t f d. destruct (ireachable_related s Hs) as [cs [Hc HR]].
  pose proof (lockstep s cs (DSubmit t f d) HR) as L. unfold lock_ok in L.
  rewrite (r_flag _ _ HR) in Hf. pose proof (cos_no_inflight_after_flag cs Hc Hf t) as Hn.
  destruct (gstep s (DSubmit t f d)) as [s'|]; [|reflexivity]. exfalso.
  simpl in L. destruct (thr cs t); try contradiction. simpl in Hn. discriminate.
Qed.

(* a submit() that takes the gate after the flag flipped is left with: release the gate, raise *)
Lemma ir_submit_after_flag_raises : forall s t s', iflag (sh s) = true ->
  ithr s t = TRun (map IS submit_prog ++ [KRet false]) lv0 ->
  gstep s (Acq t LG) = Some s' -> ithr s' t = TRun [KRel LG; KRet true] lv0 /\ iflag (sh s') = true.
Proof.
  intros [[g l fl tr cr ff cc ds sr] th] t s' Hf Ht. simpl in Hf, Ht. subst fl.
  unfold gstep, istep. simpl. rewrite Ht. simpl.
  destruct g; simpl; [discriminate|]. intros H. injection H as <-. simpl. rewrite upd_same. split; reflexivity.
Qed.

(* the value a submit() is about to hand to its caller is a covered future *)
Lemma ir_returned_covered : forall s, ireachable s -> ishut_ret (sh s) = true ->
  forall t lv f, ithr s t = TRun [KRet false] lv -> l_ret lv = RFut f ->
  fdone (ifs (sh s) f) = true \/ icancels (sh s) f = 1.
Proof.
  intros s Hs Hret t lv f Ht Hv. destruct (ireachable_related s Hs) as [cs [Hc HR]].
  destruct (r_thr _ _ HR t) as [c Hcc]. rewrite Ht in Hcc.
  rewrite (r_shut_ret _ _ HR) in Hret. rewrite (r_fs _ _ HR), (r_cancels _ _ HR).
  destruct (thr cs t) as [| | | | |g|g|g|g| | | | | | |todo|todo| ] eqn:Ep; try (destruct todo); simpl in Hcc;
    try discriminate Hcc; injection Hcc as ->; simpl in Hv; try discriminate Hv.
  injection Hv as ->. exact (cos_returned_covered cs Hc Hret t f Ep).
Qed.

Lemma ir_no_deadlock : forall s, ireachable s -> (exists t, ithr s t <> TIdle) ->
  exists e s', thread_event' e = true /\ gstep s e = Some s'.
Proof.
  intros s Hs [t Ht]. destruct (ireachable_related s Hs) as [cs [Hc HR]].
  assert (Hn : thr cs t <> Idle).
  { intros E. destruct (r_thr _ _ HR t) as [c Hcc]. rewrite E in Hcc. simpl in Hcc. contradiction. }
  destruct (cos_no_deadlock cs Hc (ex_intro _ t Hn)) as [e [cs' [He Hst]]].
  pose proof (lockstep s cs e HR) as L. rewrite Hst in L. unfold lock_ok in L.
  destruct (gstep s e) as [s'|] eqn:Eg; [|contradiction]. exists e, s'. split; [exact He|exact Eg].
Qed.

(* ---- concrete histories -------------------------------------------------------------------------- *)
(* submit (thread 0) racing with shutdown (thread 1): the submit wins the gate, the shutdown's sweep cancels its
   future; a second submit raises *)
Definition race_trace : list ev :=
  [ CallSubmit 0; CallShutdown 1; Acq 0 LG; Acq 0 LX; DSubmit 0 0 false; AddCb 0 0 Pending; Rel 0 LX; Rel 0 LG;
    Acq 1 LG; Ret 0 false; Rel 1 LG; Acq 1 LX; CallSubmit 0; Rel 1 LX; Acq 0 LG; Cancel 1 0 Pending; Rel 0 LG;
    DShutdown 1; Ret 0 true; Ret 1 false ].
(* the other outcome: the shutdown wins the gate, the racing submit raises, nothing to cancel *)
Definition race_trace2 : list ev :=
  [ CallSubmit 0; CallShutdown 1; Acq 1 LG; Rel 1 LG; Acq 0 LG; Acq 1 LX; Rel 0 LG; Rel 1 LX; Ret 0 true;
    DShutdown 1; Ret 1 false ].

Definition summary (s : ist) :=
  (ishut_ret (sh s), idshut (sh s), icreated (sh s), icancels (sh s) 0, icancels (sh s) 1, ifs (sh s) 0, ifs (sh s) 1,
   itracked (sh s), iflag (sh s)).

Lemma ir_race_accepted :
  option_map summary (run gstep iinit race_trace) = Some (true, 1, 1, 1, 0, Cancelled, Pending, [], true) /\
  option_map summary (run gstep iinit race_trace2) = Some (true, 1, 0, 0, 0, Pending, Pending, [], true).
Proof. split; vm_compute; reflexivity. Qed.

(* the witness of Cos_Inv (two submits, one finished by the environment, one cancelled by the sweep) on the IR machine *)
Lemma ir_nonvacuous : exists s, ireachable s /\ ishut_ret (sh s) = true /\ icreated (sh s) = 2 /\
  icancels (sh s) 1 = 1 /\ ifs (sh s) 0 = Finished /\ ifs (sh s) 1 = Cancelled.
Proof.
  destruct (run gstep iinit witness_trace) as [s|] eqn:E; [|vm_compute in E; discriminate].
  exists s. split; [exists witness_trace; exact E|].
  assert (H : option_map summary (run gstep iinit witness_trace) = Some (true, 1, 2, 0, 1, Finished, Cancelled, [], true))
    by (vm_compute; reflexivity).
  rewrite E in H. simpl in H. unfold summary in H. injection H as H1 H2 H3 H4 H5 H6 H7 H8 H9. auto.
Qed.

(* hypotheses of the other theorems are satisfiable *)
Lemma ir_flag_state_nonvacuous : exists s, ireachable s /\ iflag (sh s) = true /\
  ithr s 0 = TRun (map IS submit_prog ++ [KRet false]) lv0 /\ exists s', gstep s (Acq 0 LG) = Some s'.
Proof.
  pose (tr := [CallShutdown 1; Acq 1 LG; Rel 1 LG; CallSubmit 0]).
  destruct (run gstep iinit tr) as [s|] eqn:E; [|vm_compute in E; discriminate].
  exists s. split; [exists tr; exact E|].
  vm_compute in E. injection E as <-. repeat split. eexists. vm_compute. reflexivity.
Qed.

Lemma ir_returning_state_nonvacuous : exists s t lv f, ireachable s /\ ishut_ret (sh s) = true /\
  ithr s t = TRun [KRet false] lv /\ l_ret lv = RFut f.
Proof.
  pose (tr := [ CallSubmit 0; CallShutdown 1; Acq 0 LG; Acq 0 LX; DSubmit 0 0 false; AddCb 0 0 Pending; Rel 0 LX; Rel 0 LG;
    Acq 1 LG; Rel 1 LG; Acq 1 LX; Rel 1 LX; Cancel 1 0 Pending; DShutdown 1; Ret 1 false ]).
  destruct (run gstep iinit tr) as [s|] eqn:E; [|vm_compute in E; discriminate].
  exists s, 0, (lvf 0 (RFut 0)), 0. split; [exists tr; exact E|].
  vm_compute in E. injection E as <-. repeat split.
Qed.
