(* Layer E: facts about delegate outcomes; provenance of new records and delegates. *)
From Coq Require Import List ZArith Bool Arith Lia PeanoNat.
From RecordUpdate Require Import RecordSet.
From ME Require Import Base.Machine Base.Fut Base.GenPrelude Gen.RetryGen Model.Retry Proofs.Retry_InvB0
  Proofs.Retry_InvB2 Proofs.Retry_InvB3 Proofs.Retry_InvB4.
Import ListNotations RecordSetNotations.

(* a new queued record of j stems from a pending delegate of j (or j is fresh);
   a new delegate of j stems from a live queued record of j at the head of the worker *)
Definition NewJ (s s' : st) : Prop :=
  (forall r, nrec s <= r -> r < nrec s' -> jdel (recs s' r) = None ->
     (jf (recs s' r) = nfut s /\ jold (recs s' r) = None) \/
     exists r0 d delta t l, thr s t = IXRetry r0 delta :: l /\ jdel (recs s r0) = Some d /\
                            jf (recs s' r) = jf (recs s r0) /\ jatt (recs s' r) = jatt (recs s r0) /\
                            jold (recs s' r) = Some d) /\
  (forall d, ndel s <= d -> d < ndel s' ->
     exists r l, thr s worker = IDSubmit r :: l /\ dfor s' d = jf (recs s r) /\ datt s' d = S (jatt (recs s r))) /\
  nrec s <= nrec s' /\ ndel s <= ndel s' /\ nfut s <= nfut s' /\ ndel s' <= S (ndel s).

Lemma newj_step0 s e s' : InvA s -> step0 s e = Some s' -> NewJ s s'.
Proof.
  intros IA H. unfold step0 in H. destruct e.
  all: step_cases H.
  all: clean.
  all: unfold NewJ; simpl.
  all: try (repeat split; intros; lia).
  - split; [|repeat split; intros; lia].
    intros r G1 G2. assert (r = nrec s) by lia. subst r. rewrite upd_same. simpl. auto.
  - assert (W := a_wf _ IA t (IXRetry r delta)). rewrite Heql in W. specialize (W (or_introl eq_refl)).
    simpl in W. destruct W as [W1 W2]. destruct (jdel (recs s r)) as [d|] eqn:Ed; [clear W2|tauto].
    split; [|repeat split; intros; lia].
    intros r0 G1 G2. assert (r0 = nrec s) by lia. subst r0. rewrite upd_same. simpl. intros _. right.
    exists r, d, delta, t, l. auto.
  - assert (t = worker) by (eapply wk_worker; [exact IA|exact Heql|reflexivity]). subst t.
    split; [|split; [|repeat split; lia]].
    + intros r0 G1 G2. assert (r0 = nrec s) by lia. subst r0. rewrite upd_same. simpl. discriminate.
    + intros d G1 G2. assert (d = ndel s) by lia. subst d. rewrite !upd_same. exists r, l. auto.
  - assert (t = worker) by (eapply wk_worker; [exact IA|exact Heql|reflexivity]). subst t.
    split; [|split; [|repeat split; lia]].
    + intros r0 G1 G2. assert (r0 = nrec s) by lia. subst r0. rewrite upd_same. simpl. discriminate.
    + intros d G1 G2. assert (d = ndel s) by lia. subst d. rewrite !upd_same. exists r, l. auto.
  - assert (t = worker) by (eapply wk_worker; [exact IA|exact Heql|reflexivity]). subst t.
    split; [|split; [|repeat split; lia]].
    + intros r0 G1 G2. assert (r0 = nrec s) by lia. subst r0. rewrite upd_same. simpl. discriminate.
    + intros d G1 G2. assert (d = ndel s) by lia. subst d. rewrite !upd_same. exists r, l. auto.
  - assert (t = worker) by (eapply wk_worker; [exact IA|exact Heql|reflexivity]). subst t.
    split; [|split; [|repeat split; lia]].
    + intros r0 G1 G2. assert (r0 = nrec s) by lia. subst r0. rewrite upd_same. simpl. discriminate.
    + intros d G1 G2. assert (d = ndel s) by lia. subst d. rewrite !upd_same. exists r, l. auto.
Qed.

(* old records and delegates keep their identity; finished delegates keep their outcome *)
Definition OldSame (s s' : st) : Prop :=
  (forall r, r < nrec s -> same_rec (recs s' r) (recs s r)) /\
  (forall d, d < ndel s -> dfor s' d = dfor s d /\ datt s' d = datt s d /\
             (ds s d = Finished -> ds s' d = Finished /\ dout s' d = dout s d)).

Lemma oldsame_step0 s e s' : step0 s e = Some s' -> OldSame s s'.
Proof.
  intros H. unfold step0 in H. destruct e.
  all: step_cases H.
  all: clean.
  all: unfold OldSame; simpl.
  all: try (split; [intros; apply same_rec_refl|intros; auto]; fail).
  all: split; [intros r0 Hr0; unfold upd; try (destruct (Nat.eqb r0 _) eqn:E0; [apply Nat.eqb_eq in E0; subst; try lia|]); simpl; repeat split|].
  all: intros d' Hd'; rewrite ?upd_fresh_other by auto; split; [auto|split; [auto|]]; intros Fin; auto.
  all: unfold upd; destruct (Nat.eqb d' _) eqn:E; [apply Nat.eqb_eq in E; subst; try lia|auto].
  all: try (rewrite Fin in *; simpl in *; discriminate).
Qed.

(* no live queued record (except possibly x) and no pending delegate of j *)
Definition QuietEx (s : st) (j : nat) (x : option nat) : Prop :=
  (forall r, liveq s r -> jf (recs s r) = j -> Some r = x) /\
  (forall d, pend s d -> dfor s d <> j).

Lemma quiet_stable s s' j x :
  InvA s -> InvB s -> NewJ s s' -> OldSame s s' ->
  (forall r, r < nrec s -> liveq s' r -> liveq s r) ->
  (forall d, d < ndel s -> pend s' d -> pend s d) ->
  j < nfut s -> (x <> None -> wcount (thr s worker) = 0) ->
  QuietEx s j x -> QuietEx s' j x /\ (forall d, ndel s <= d -> d < ndel s' -> dfor s' d <> j).
Proof.
  intros IA IB (N1 & N2 & N3 & N4 & N5 & N6) (O1 & O2) Hl Hp Hj Hx (Q1 & Q2).
  assert (ND : forall d, ndel s <= d -> d < ndel s' -> dfor s' d <> j).
  { intros d G1 G2 E. destruct (N2 d G1 G2) as (r & l & T & F & _).
    assert (W := a_wf _ IA worker (IDSubmit r)). rewrite T in W. specialize (W (or_introl eq_refl)). simpl in W.
    assert (L : liveq s r).
    { destruct W. split; [auto|]. split; [auto|]. right. exists (IDSubmit r). split; [right; right; auto|rewrite T; left; auto]. }
    assert (X : Some r = x) by (apply Q1; auto; congruence).
    assert (Z : wcount (thr s worker) = 0) by (apply Hx; rewrite <- X; discriminate).
    rewrite T in Z. unfold wcount in Z. simpl in Z. discriminate. }
  split; [|exact ND]. split.
  - intros r L E. destruct (Nat.lt_ge_cases r (nrec s)) as [G|G].
    + apply Q1; [auto|]. destruct (O1 r G) as (<- & _). auto.
    + exfalso. destruct L as (L1 & L2 & _). destruct (N1 r G L1 L2) as [[F _]|(r0 & d & delta & t & l & T & F1 & F2 & _)]; [lia|].
      assert (W := a_wf _ IA t (IXRetry r0 delta)). rewrite T in W. specialize (W (or_introl eq_refl)). simpl in W.
      destruct W as [W1 _]. destruct (a_rec _ IA r0 d W1 F1) as (A1 & A2 & _).
      apply (Q2 d); [|congruence]. split; [auto|]. right. exists t.
      assert (Hh : opt_eqb (cbk_of (recs s) (IXRetry r0 delta)) d = true) by (simpl; rewrite F1; apply Nat.eqb_refl).
      apply (cbc_head_one s t _ l d IB T Hh).
  - intros d P E. destruct (Nat.lt_ge_cases d (ndel s)) as [G|G].
    + apply (Q2 d); [auto|]. destruct (O2 d G) as (<- & _). auto.
    + apply (ND d G (proj1 P) E).
Qed.

Definition fin_i (s : st) (i : instr) : Prop :=
  match i with
  | IPolSR r | IPolST r | IXRetry r _ => forall d, jdel (recs s r) = Some d -> ds s d = Finished
  | _ => True
  end.

Record InvE (s : st) : Prop := {
  e_out : forall d, ds s d = Finished -> exists o, dout s d = Some o;
  e_prog : forall t i, In i (thr s t) -> fin_i s i;
  e_old : forall r, r < nrec s -> jdel (recs s r) = None -> forall d, jold (recs s r) = Some d ->
          d < ndel s /\ dfor s d = jf (recs s r) /\ datt s d = jatt (recs s r) /\ ds s d = Finished;
  e_ord : forall d1 d2, d1 < d2 -> d2 < ndel s -> dfor s d1 = dfor s d2 -> datt s d1 < datt s d2
}.

Lemma fin_i_old s s' i : InvA s -> OldSame s s' -> wfi s i -> fin_i s i -> fin_i s' i.
Proof.
  intros IA (O1 & O2) W F. destruct i; simpl in *; auto; destruct W as [W1 W2];
    destruct (O1 r W1) as (_ & _ & -> & _); intros d E; destruct (a_rec _ IA r d W1 E) as (A1 & _);
    apply (O2 d A1); auto.
Qed.

Lemma invE_gen s s' t p :
  InvA s -> InvC s -> InvE s -> OldSame s s' -> NewJ s s' ->
  (forall d, ds s' d = Finished -> exists o, dout s' d = Some o) ->
  thr s' = upd (thr s) t (norm false p) ->
  (forall i, In i p -> (wfi s i /\ fin_i s i) \/ (forall s0, fin_i s0 i)) -> InvE s'.
Proof.
  intros IA IC [E1 E2 E3 E4] OS (N1 & N2 & N3 & N4 & N5 & N6) Ho Ht Hp.
  assert (OS' := OS). destruct OS' as (O1 & O2).
  constructor; auto.
  - intros t' i. rewrite Ht. unfold upd. destruct (Nat.eqb t' t).
    + intros H. apply norm_in in H. destruct H as [H| ->]; [|exact I].
      destruct (Hp i H) as [[G1 G2]|G]; [eapply fin_i_old; eauto|apply G].
    + intros H. eapply fin_i_old; eauto. eapply (a_wf _ IA); eauto.
  - intros r Hr Hq d Hd. destruct (Nat.lt_ge_cases r (nrec s)) as [G|G].
    + destruct (O1 r G) as (F1 & F2 & F3 & F4). rewrite F1, F2. rewrite F3 in Hq. rewrite F4 in Hd.
      destruct (E3 r G Hq d Hd) as (A1 & A2 & A3 & A4). destruct (O2 d A1) as (-> & -> & B).
      repeat split; auto; [lia|apply B; auto].
    + destruct (N1 r G Hr Hq) as [[_ F]|(r0 & d0 & delta & t0 & l & T & F1 & F2 & F3 & F4)]; [congruence|].
      assert (d0 = d) by congruence. subst d0.
      assert (W := a_wf _ IA t0 (IXRetry r0 delta)). rewrite T in W. specialize (W (or_introl eq_refl)). simpl in W.
      destruct W as [W1 _]. destruct (a_rec _ IA r0 d W1 F1) as (A1 & A2 & A3 & _).
      assert (Fd := E2 t0 (IXRetry r0 delta)). rewrite T in Fd. specialize (Fd (or_introl eq_refl) d F1).
      destruct (O2 d A1) as (-> & -> & B). rewrite F2, F3. repeat split; auto; [lia|apply B; auto].
  - intros d1 d2 H12 H2. destruct (Nat.lt_ge_cases d2 (ndel s)) as [G|G].
    + destruct (O2 d2 G) as (-> & -> & _). destruct (O2 d1 ltac:(lia)) as (-> & -> & _). apply E4; auto.
    + destruct (N2 d2 G H2) as (r & l & T & F1 & F2). assert (G1 : d1 < ndel s) by lia.
      destruct (O2 d1 G1) as (-> & -> & _). rewrite F1, F2. intros E.
      assert (W := a_wf _ IA worker (IDSubmit r)). rewrite T in W. specialize (W (or_introl eq_refl)). simpl in W.
      assert (L : liveq s r).
      { destruct W. split; [auto|]. split; [auto|]. right. exists (IDSubmit r). split; [right; right; auto|rewrite T; left; auto]. }
      pose proof (c_l1d _ IC r d1 L G1 E). lia.
Qed.

Lemma invE_same s s' :
  InvA s -> InvE s -> OldSame s s' -> nrec s' = nrec s -> ndel s' = ndel s ->
  (forall d, ds s' d = Finished -> exists o, dout s' d = Some o) ->
  thr s' = thr s -> InvE s'.
Proof.
  intros IA [E1 E2 E3 E4] OS En Ed Ho Ht. assert (OS' := OS). destruct OS' as (O1 & O2).
  constructor; auto; rewrite ?En, ?Ed.
  - intros t' i. rewrite Ht. intros H. eapply fin_i_old; eauto. eapply (a_wf _ IA); eauto.
  - intros r G Hq d Hd. destruct (O1 r G) as (F1 & F2 & F3 & F4). rewrite F1, F2. rewrite F3 in Hq. rewrite F4 in Hd.
    destruct (E3 r G Hq d Hd) as (A1 & A2 & A3 & A4). destruct (O2 d A1) as (-> & -> & B).
    repeat split; auto. apply B; auto.
  - intros d1 d2 H12 G. destruct (O2 d2 G) as (-> & -> & _). destruct (O2 d1 ltac:(lia)) as (-> & -> & _). apply E4; auto.
Qed.

Lemma done_notcancelled x : fdone x = true -> fcancelled x = false -> x = Finished.
Proof. destruct x; simpl; congruence. Qed.
Ltac sv_fin P PW := simpl; intros i0 Hi0;
  repeat (destruct Hi0 as [<-|Hi0]; [right; intros; exact I|]);
  left; rewrite Forall_forall in P, PW; split; [apply PW|apply P]; simpl; auto.
Lemma fin_cbs i j l : In i (cbs_prog j l) -> forall s0, fin_i s0 i.
Proof.
  unfold cbs_prog. induction l as [|c l IH]; simpl; [tauto|]. rewrite in_app_iff. intros [H|H]; auto.
  destruct c; simpl in H; intuition (subst; exact I).
Qed.
Ltac upd_eq d := simpl; unfold upd; let E := fresh "E" in destruct (Nat.eqb d _) eqn:E;
  [apply Nat.eqb_eq in E; subst d|].

Lemma invE_step0 s e s' : InvA s -> InvB s -> InvC s -> InvE s -> step0 s e = Some s' -> InvE s'.
Proof.
  intros IA IB IC IE H.
  assert (OS := oldsame_step0 s e s' H). assert (NJ := newj_step0 s e s' IA H).
  assert (EO := e_out _ IE).
  unfold step0 in H. destruct e.
  all: step_cases H.
  all: clean.
  all: try exact IE.
  all: try (eapply invE_same; [exact IA|exact IE|exact OS|reflexivity|reflexivity| |reflexivity]).
  all: try match goal with E : thr _ ?t = _ |- _ =>
         assert (P := e_prog _ IE t); rewrite E in P; apply Forall_forall in P;
         assert (PW := a_wf _ IA t); rewrite E in PW; apply Forall_forall in PW end.
  all: try (eapply invE_gen; [exact IA|exact IC|exact IE|exact OS|exact NJ| |reflexivity|]).
  all: try (exact EO).
  all: try (sv_fin P PW; fail).
  all: try match goal with H : issome _ = _ |- _ => simpl in H; discriminate end.
  - intros i Hi. apply in_app_iff in Hi. destruct Hi as [Hi|Hi]; [right; eapply fin_cbs; eauto|].
    left. rewrite Forall_forall in P, PW. split; [apply PW|apply P]; right; auto.
  - intros i [<-|Hi]; [right; intros; exact I|]. apply in_tl_in in Hi.
    left. rewrite Forall_forall in P, PW. split; [apply PW|apply P]; right; auto.
  - intros d. upd_eq d; [|apply EO]. intros ->. destruct (ds s d0); inversion Heqp.
  - intros d. upd_eq d; [|apply EO]. intros ->. destruct (ds s d0); inversion Heqp.
  - assert (Hh : opt_eqb (cbk_of (recs s) (IDCbCancelled d0 r)) d0 = true) by (simpl; apply Nat.eqb_refl).
    destruct (cbc_head_one s t _ l d0 IB Heql Hh) as [Q1 _].
    assert (St := b_started _ IB t d0 Q1). unfold started in St. apply andb_true_iff in St. destruct St as [_ St].
    assert (Fi := done_notcancelled _ St Heqb1).
    intros i Hi. left. rewrite Forall_forall in P, PW. destruct Hi as [<-|Hi].
    + destruct (PW _ (or_introl eq_refl)) as [W1 W2]. simpl. split; [split; [auto|congruence]|].
      intros d E. congruence.
    + split; [apply PW|apply P]; right; auto.
  - intros i Hi. left. rewrite Forall_forall in P, PW. destruct Hi as [<-|Hi].
    + split; [apply (PW _ (or_introl eq_refl))|apply (P _ (or_introl eq_refl))].
    + split; [apply PW|apply P]; right; auto.
  - intros i Hi. rewrite Forall_forall in P, PW. destruct Hi as [<-|[<-|Hi]]; [left|right; intros; exact I|left].
    + split; [apply (PW _ (or_introl eq_refl))|apply (P _ (or_introl eq_refl))].
    + split; [apply PW|apply P]; right; auto.
  - intros d. upd_eq d; [eauto|apply EO].
  - intros d. upd_eq d; [discriminate|apply EO].
  - intros d1. upd_eq d1; [|apply EO]. intros ->.
    match goal with Hq : f_srnc ?x = _ |- _ => destruct x; inversion Hq end.
  - intros d1. upd_eq d1; [eauto|apply EO].
  - intros d1. upd_eq d1; [eauto|apply EO].
  - intros d1. upd_eq d1; [|apply EO]. rewrite (fires_pending _ Heqb0). discriminate.
  - intros d1. upd_eq d1; [|apply EO]. rewrite (fires_pending _ Heqb0). discriminate.
Qed.

Lemma invE_init : InvE init.
Proof. constructor; simpl; try discriminate; try tauto; intros; lia. Qed.
Lemma invE_tick s ts : InvA s -> InvE s -> InvE (s <| clock := ts |>).
Proof.
  intros IA IE. eapply invE_same; [exact IA|exact IE| |reflexivity|reflexivity|apply (e_out _ IE)|reflexivity].
  split; [intros; apply same_rec_refl|intros; simpl; auto].
Qed.
