(* Lemmas behind Props/C06_machine.v (collected from the helper files Retry_C0 .. Retry_C18). *)
From ME Require Export Proofs.Retry_C0 Proofs.Retry_C1 Proofs.Retry_C2 Proofs.Retry_C3 Proofs.Retry_C16 Proofs.Retry_C18.
