(* C04 for the Retry machine: the lock discipline is an invariant. *)
From Coq Require Import List ZArith Bool Arith Lia PeanoNat.
From RecordUpdate Require Import RecordSet.
From ME Require Import Base.Machine Base.Fut Base.GenPrelude Gen.RetryGen Model.Retry Proofs.Retry_InvB0
  Proofs.Retry_InvB1 Proofs.Retry_InvB2 Proofs.Retry_InvB3 Proofs.Retry_InvB Proofs.Retry_L0 Proofs.Retry_L1.
Import ListNotations RecordSetNotations.
Ltac sv_jf := simpl; intros r0 Hr0; unfold upd;
  try (destruct (Nat.eqb r0 _) eqn:E0; [apply Nat.eqb_eq in E0; subst; try lia|]); reflexivity.
Ltac sv_main E := let hM := fresh "hM" in let L := fresh "L" in let M := fresh "M" in
  intros hM L M; rewrite E in L; cbn [lk kind] in L; exists hM; split; [simpl; cbn [lk kind]; intuition (subst; try congruence; auto)|exact M].
Ltac fin_main E := let hM := fresh "hM" in let L := fresh "L" in let M := fresh "M" in
  intros hM L M; rewrite E in L; simpl in L; cbn [lk kind] in L;
  let L1 := fresh "L1" in let L2 := fresh "L2" in let L3 := fresh "L3" in
  destruct L as (L1 & L2 & L3); assert (hM = None) by (intuition congruence); subst hM;
  exists None; split; [|exact M]; simpl; rewrite L2 in *; cbn [lk kind is_relcbs]; intuition (subst; try congruence; auto).
Lemma invL_step0 s e s' : InvA s -> InvL s -> step0 s e = Some s' -> InvL s'.
Proof.
  intros IA IL H. unfold step0 in H. destruct e.
  all: step_cases H.
  all: clean.
  all: try exact IL.
  all: try (eapply (invL_same s _ IA IL); [simpl; auto|sv_jf|reflexivity..]; fail).
  all: try match goal with E : thr _ ?t = _ |- _ =>
      eapply (invL_upd s _ t _ IA IL); [ | |reflexivity| | |] end.
  all: try (simpl; auto; fail).
  all: try (sv_jf; fail).
  all: try (simpl; intros; tauto).
  all: try match goal with E : thr _ ?t = _ |- _ => sv_main E; fail end.
  - (* EXAcq: others' hx *) simpl. intros t' Hn. destruct (xown s); [discriminate|]. simpl.
    apply Nat.eqb_neq. auto.
  - (* EXAcq main *) intros hM L M. rewrite Heql in L. cbn [lk kind] in L. destruct L as (L1 & L2 & L3).
    exists hM. split; [|exact M]. simpl. cbn [lk kind]. rewrite Nat.eqb_refl. auto.
  - (* EXRel others *) simpl. intros t' Hn. rewrite Heqo. simpl. symmetry. apply Nat.eqb_neq. auto.
  - (* EAcqM others *) simpl. intros t' Hn j. unfold upd. destruct (Nat.eqb j j0) eqn:E; [|tauto].
    apply Nat.eqb_eq in E. subst j. rewrite Heqo. split; intros Hc; inversion Hc. congruence.
  - (* EAcqM main *) intros hM L M. rewrite Heql in L. cbn [lk kind] in L. destruct L as (-> & L2 & L3).
    exists (Some j0). simpl. rewrite L2 in *. split; [exact L3|]. intros j. unfold upd.
    destruct (Nat.eqb j j0) eqn:E.
    + apply Nat.eqb_eq in E. subst j. tauto.
    + apply Nat.eqb_neq in E. rewrite M. split; [discriminate|congruence].
  - (* EAcqM at IPolSR, others *) simpl. intros t' Hn j. unfold upd.
    destruct (Nat.eqb j (jf (recs s r))) eqn:E; [|tauto]. apply Nat.eqb_eq in E. subst j.
    match goal with Hq : mown s _ = None |- _ => rewrite Hq end. split; intros Hc; inversion Hc. congruence.
  - (* EAcqM at IPolSR, main *) intros hM L M. rewrite Heql in L. cbn [lk kind] in L. destruct L as (-> & L2 & L3).
    exists (Some (jf (recs s r))). simpl. rewrite L2 in *. cbn [lk kind is_relcbs].
    split; [tauto|]. intros j. unfold upd. destruct (Nat.eqb j (jf (recs s r))) eqn:E.
    + apply Nat.eqb_eq in E. subst j. tauto.
    + apply Nat.eqb_neq in E. rewrite M. split; [discriminate|congruence].
  - (* ERelM others *) simpl. intros t' Hn j. unfold upd. destruct (Nat.eqb j j0) eqn:E; [|tauto].
    apply Nat.eqb_eq in E. subst j. rewrite Heqo. split; intros Hc; inversion Hc. congruence.
  - (* ERelM main *) intros hM L M. rewrite Heql in L. cbn [lk kind] in L. destruct L as (-> & L2 & L3).
    exists None. simpl. rewrite L2 in *. split; [exact L3|]. intros j. unfold upd.
    destruct (Nat.eqb j j0) eqn:E; [split; discriminate|].
    apply Nat.eqb_neq in E. rewrite M. split; [congruence|discriminate].
  - (* ERelM others *) simpl. intros t' Hn j. unfold upd. destruct (Nat.eqb j j0) eqn:E; [|tauto].
    apply Nat.eqb_eq in E. subst j. rewrite Heqo. split; intros Hc; inversion Hc. congruence.
  - (* ERelMCbs main *) intros hM L M. rewrite Heql in L. cbn [lk kind] in L. destruct L as (-> & L2 & L3).
    exists None. simpl. rewrite L2 in *. split; [apply lk_cbs; exact L3|]. intros j. unfold upd.
    destruct (Nat.eqb j j0) eqn:E; [split; discriminate|].
    apply Nat.eqb_neq in E. rewrite M. split; [congruence|discriminate].
  - (* IFSet fails *) intros hM L M. rewrite Heql in L. cbn [lk kind] in L. destruct L as (L1 & L2).
    destruct l as [|i' m]; [destruct L1|]. destruct i'; try (exfalso; exact L1). simpl in L1. subst j.
    exists hM. split; [|exact M]. simpl. cbn [lk kind] in *. exact L2.
  - simpl. intros d Hd Hc. unfold upd. destruct (Nat.eqb d d0) eqn:E; [|exact Hc].
    apply Nat.eqb_eq in E. subst d. destruct (ds s d0); inversion Heqp; subst; auto.
  - intros hM L M. rewrite Heql in L. cbn [lk kind] in L. destruct L as (-> & L2 & L3).
    assert (Fc : fcancelled f = true).
    { pose proof (f_cancel_true_cancelled (ds s d0)) as Q. rewrite Heqp in Q. apply Q. reflexivity. }
    exists (Some j). split; [|exact M]. simpl. cbn [lk kind]. rewrite upd_same. rewrite L2 in *. simpl. tauto.
  - simpl. intros d Hd Hc. unfold upd. destruct (Nat.eqb d d0) eqn:E; [|exact Hc].
    apply Nat.eqb_eq in E. subst d. destruct (ds s d0); inversion Heqp; subst; auto.
  - fin_main Heql.
  - fin_main Heql.
  - fin_main Heql.
  - fin_main Heql.
  - fin_main Heql.
  - simpl. intros d Hd Hc. rewrite upd_fresh_other by auto. exact Hc.
  - assert (W := a_wf _ IA t (IDSubmit r)). rewrite Heql in W. specialize (W (or_introl eq_refl)).
    simpl in W. destruct W as [W1 _].
    intros hM L M. rewrite Heql in L. simpl in L. cbn [lk kind] in L. rewrite upd_fresh_other in L by auto.
    destruct L as (L1 & L2 & L3). exists hM. split; [|exact M]. simpl. rewrite L2. cbn [lk kind]. tauto.
  - simpl. intros d Hd Hc. rewrite upd_fresh_other by auto. exact Hc.
  - assert (W := a_wf _ IA t (IDSubmit r)). rewrite Heql in W. specialize (W (or_introl eq_refl)).
    simpl in W. destruct W as [W1 _].
    intros hM L M. rewrite Heql in L. simpl in L. cbn [lk kind] in L. rewrite upd_fresh_other in L by auto.
    destruct L as (L1 & L2 & L3). exists hM. split; [|exact M]. simpl. rewrite L2. cbn [lk kind]. tauto.
  - simpl. intros d Hd Hc. rewrite upd_fresh_other by auto. exact Hc.
  - assert (W := a_wf _ IA t (IDSubmit r)). rewrite Heql in W. specialize (W (or_introl eq_refl)).
    simpl in W. destruct W as [W1 _].
    intros hM L M. rewrite Heql in L. simpl in L. cbn [lk kind] in L. rewrite upd_fresh_other in L by auto.
    destruct L as (L1 & L2 & L3). exists hM. split; [|exact M]. simpl. rewrite L2. cbn [lk kind]. tauto.
  - simpl. intros d Hd Hc. rewrite upd_fresh_other by auto. exact Hc.
  - assert (W := a_wf _ IA t (IDSubmit r)). rewrite Heql in W. specialize (W (or_introl eq_refl)).
    simpl in W. destruct W as [W1 _].
    intros hM L M. rewrite Heql in L. simpl in L. cbn [lk kind] in L. rewrite upd_fresh_other in L by auto.
    destruct L as (L1 & L2 & L3). exists hM. split; [|exact M]. simpl. rewrite L2. cbn [lk kind]. tauto.
  - eapply (invL_same s _ IA IL); [|sv_jf|reflexivity..].
    simpl. intros d0 Hd Hc. unfold upd. destruct (Nat.eqb d0 d) eqn:E; [|exact Hc].
    apply Nat.eqb_eq in E. subst d0. destruct (ds s d); inversion Heqo; subst; auto.
  - simpl. intros d0 Hd Hc. unfold upd. destruct (Nat.eqb d0 d) eqn:E; [|exact Hc].
    apply Nat.eqb_eq in E. subst d0. destruct (ds s d); simpl in *; try discriminate.
  - simpl. intros d0 Hd Hc. unfold upd. destruct (Nat.eqb d0 d) eqn:E; [|exact Hc].
    apply Nat.eqb_eq in E. subst d0. destruct (ds s d); simpl in *; try discriminate.
  - simpl. intros d0 Hd Hc. unfold upd. destruct (Nat.eqb d0 d) eqn:E; [|exact Hc].
    apply Nat.eqb_eq in E. subst d0. destruct (ds s d); simpl in *; try discriminate.
  - simpl. intros d0 Hd Hc. unfold upd. destruct (Nat.eqb d0 d) eqn:E; [|exact Hc].
    apply Nat.eqb_eq in E. subst d0. destruct (ds s d); simpl in *; try discriminate.
Qed.

Lemma invL_init : InvL init.
Proof. intros t. exists None. simpl. split; [auto|]. intros j. split; discriminate. Qed.

Lemma invL_reach s : reachable_from step init s -> InvL s.
Proof.
  apply invariant_rule_r; [exact invL_init|].
  intros s0 e s1 R IL H. destruct (invAll_reach s0 R) as (IA & _).
  apply step_tick in H. destruct H as (s2 & T & H).
  unfold tick in T. destruct (Z.leb (clock s0) (fst e)); inv_some T.
  eapply invL_step0; [apply invA_tick; exact IA| |exact H].
  eapply (invL_same s0 _ IA IL); auto.
Qed.
