(* fcpre: a canceller about to run super().cancel() (IFCancel j) while holding M_j. *)
From Coq Require Import List ZArith Bool Arith Lia.
From RecordUpdate Require Import RecordSet.
From ME Require Import Base.Machine Base.Fut Base.GenPrelude Gen.RetryGen Model.Retry Proofs.Retry_Spec Proofs.Retry_C0 Proofs.Retry_C1 Proofs.Retry_C2 Proofs.Retry_C3 Proofs.Retry_C4 Proofs.Retry_C5 Proofs.Retry_C6 Proofs.Retry_C7 Proofs.Retry_C8 Proofs.Retry_C9 Proofs.Retry_C10.
Import ListNotations RecordSetNotations.

Fixpoint fcpre (s : st) (j : nat) (ex : nat) (p : list instr) : bool :=
  match p with
  | [] => false
  | i :: r =>
    match ex with
    | 1 => is_catch i && fcpre s j 0 r
    | _ =>
      match i with
      | IFCancel j' => Nat.eqb j' j
      | IDCbDone d => fcancelled (ds s d) && fcpre s j 1 r
      | IThrow => fcpre s j 1 r
      | IDCbCancelled d _ => fcancelled (ds s d) && fcpre s j 0 r
      | ICatch | IXPop _ => fcpre s j 0 r
      | _ => false
      end
    end
  end.

Lemma fcpre_norm s j : forall p,
  (fcpre s j 0 p = true -> fcpre s j 0 (norm false p) = true) /\
  (fcpre s j 1 p = true -> fcpre s j 0 (norm true p) = true).
Proof.
  induction p as [|i r [IH1 IH2]]; split; intros H; try discriminate H.
  - destruct i; simpl in *; try discriminate H; auto.
  - destruct i; simpl in *; try discriminate H. auto.
Qed.

Lemma fcpre_mono s s' j : MONO s s' -> forall p ex, Forall (ipr s) p ->
  fcpre s j ex p = true -> fcpre s' j ex p = true.
Proof.
  intros M. induction p as [|i r IH]; intros ex HP H; [discriminate H|].
  inversion HP as [|? ? Pi Pr]; subst.
  destruct ex as [|[|ex]].
  2: { simpl in *. apply andb_true_iff in H. destruct H as [A B]. rewrite A. simpl. apply IH; assumption. }
  all: destruct i; simpl in *; try discriminate H; auto.
  all: try (apply andb_true_iff in H; destruct H as [A B]; rewrite (IH _ Pr B), andb_true_r;
            apply (mo_dcan _ _ M); [tauto|exact A]).
Qed.

Lemma fcpre_held s jfr j h : forall p ex1 ex2, mseq jfr j h ex1 p = true -> fcpre s j ex2 p = true -> h = true.
Proof.
  induction p as [|i r IH]; intros ex1 ex2 Hm Hf; [discriminate Hf|].
  simpl in Hm. apply andb_true_iff in Hm. destruct Hm as [_ Hm].
  destruct ex2 as [|[|ex2]].
  2: { simpl in Hf. apply andb_true_iff in Hf. destruct Hf as [A B]. destruct i; try discriminate A.
       simpl in Hm. eapply IH; eassumption. }
  all: destruct i; simpl in Hf; try discriminate Hf; simpl in Hm;
    try (eapply IH; eassumption);
    try (apply andb_true_iff in Hf; destruct Hf as [A B]; eapply IH; eassumption).
  all: apply eqb_t in Hf; subst; rewrite Nat.eqb_refl in Hm; apply andb_true_iff in Hm; apply Hm.
Qed.

Definition chr (i : instr) : option nat :=
  match i with IDCbCancelled _ r | IPolSR r | IPolST r | IXRetry r _ => Some r | _ => None end.

Definition JCH (s : st) : Prop := forall t i l r, thr s t = i :: l -> chr i = Some r ->
  fdone (rs s (jf (recs s r))) = false ->
  (forall d, jdel (recs s r) = Some d -> ds s d = Finished) -> In r (jobs s).

(* facts about the record of a chain instruction *)
Lemma chr_ipr s i r : ipr s i -> chr i = Some r ->
  r < nrec s /\ exists d, jdel (recs s r) = Some d /\ d < ndel s /\ fdone (ds s d) = true /\ chd s d i = true.
Proof.
  destruct i; simpl; try discriminate; intros H [= <-].
  - destruct H as (A & B & C & D & E). split; [exact A|]. exists d. rewrite Nat.eqb_refl. auto.
  - destruct H as (A & d & B & C & D & E). split; [exact A|]. exists d. rewrite B, D. simpl. rewrite Nat.eqb_refl. auto.
  - destruct H as (A & d & B & C & D & E). split; [exact A|]. exists d. rewrite B, D. simpl. rewrite Nat.eqb_refl. auto.
  - destruct H as (A & d & B & C & D & E). split; [exact A|]. exists d. rewrite B, D. simpl. rewrite Nat.eqb_refl. auto.
Qed.

Lemma jch_other s s' u i l r : JCH s -> PI s -> MONO s s' -> thr s u = i :: l -> chr i = Some r ->
  fdone (rs s' (jf (recs s' r))) = false ->
  (forall d, jdel (recs s' r) = Some d -> ds s' d = Finished) -> In r (jobs s).
Proof.
  intros J P M E C Hd Hf. pose proof (pi_thr s P u) as Pu. rewrite E in Pu. inversion Pu as [|? ? Pi _]; subst.
  destruct (chr_ipr s i r Pi C) as (A & d & B & D & F & _).
  apply (J u i l r E C).
  - rewrite (mo_jf _ _ M) in Hd by exact A.
    destruct (fdone (rs s (jf (recs s r)))) eqn:X; [|reflexivity].
    rewrite (mo_rdone _ _ M) in Hd; [discriminate|apply (pi_jf s P); exact A|exact X].
  - intros d' Hd'. assert (d' = d) by congruence. subst d'.
    rewrite <- (mo_jdel _ _ M) in B by exact A. specialize (Hf d B).
    destruct (fcancelled (ds s d)) eqn:X.
    + exfalso. pose proof (mo_dcan _ _ M d D X) as Y. rewrite Hf in Y. discriminate.
    + destruct (ds s d); simpl in *; try discriminate; reflexivity.
Qed.

Lemma chr_jdel s P u i l r : PI s -> thr s u = i :: l -> chr i = Some r -> P = jdel (recs s r) -> P <> None.
Proof.
  intros HP E C ->. pose proof (pi_thr s HP u) as Pu. rewrite E in Pu. inversion Pu as [|? ? Pi _]; subst.
  destruct (chr_ipr s i r Pi C) as (_ & d & B & _). congruence.
Qed.

Lemma jch_conflict s t u r i l iT lT : UI s -> PI s -> u <> t -> thr s u = i :: l -> chr i = Some r ->
  thr s t = iT :: lT -> (forall d, jdel (recs s r) = Some d -> chd s d iT = true) -> False.
Proof.
  intros HU HP Nu E C ET Hc. pose proof (pi_thr s HP u) as Pu. rewrite E in Pu. inversion Pu as [|? ? Pi _]; subst.
  destruct (chr_ipr s i r Pi C) as (_ & d & B & _ & _ & F). specialize (Hc d B).
  pose proof (u_le s HU d u t Nu) as L. rewrite E, ET in L. simpl in L. rewrite F, Hc in L. lia.
Qed.

Lemma JCH_step0 s e s' : JCH s -> PI s -> UI s -> RI s -> (forall t, posok (thr s t) = true) ->
  step0 s e = Some s' -> JCH s'.
Proof.
  intros HJ HP HU HR HPos H. pose proof (MONO_step0 _ _ _ H) as HM. s0inv H; try exact HJ.
  all: try (match goal with inl : option outcome |- _ => destruct inl end).
  all: bsplit; subst.
  all: intros u i' l' r' E C Hd Hf.
  all: try (match goal with Hq : thr _ ?t = _ |- _ =>
      destruct (Nat.eq_dec u t) as [->|Nu];
      [pose proof (HPos t) as Pt; rewrite Hq in Pt; unfold posok in Pt; simpl in Pt;
       pose proof (pi_thr s HP t) as Pit; rewrite Hq in Pit
      |assert (Eu : thr s u = i' :: l') by (unfold log, set_prog in E; simpl in E; rewrite upd_other in E by exact Nu; exact E);
       pose proof (jch_other s _ u i' l' r' HJ HP HM Eu C Hd Hf) as Hin] end).
  all: unfold log, set_prog in *; simpl in *; rewrite ?upd_same in E.
  all: try exact Hin.
  all: try (apply norm_head_nh in E; [|assumption]; destruct i'; try discriminate E; discriminate C).
  all: try (inversion E; subst; discriminate C).
  all: try (apply in_app_iff; left; exact Hin).
  - apply in_remove_id. split; [exact Hin|]. intros ->. eapply (chr_jdel s _ u); eauto.
  - apply in_app_iff. left. apply in_remove_id. split; [exact Hin|]. intros ->.
    eapply (jch_conflict s t u r); eauto. intros d Hd'. simpl. rewrite Hd'. simpl. apply Nat.eqb_refl.
  - apply in_remove_id. split; [exact Hin|]. intros ->.
    eapply (jch_conflict s t u r); eauto. intros d Hd'. simpl. rewrite Hd'. simpl. rewrite Nat.eqb_refl.
    rewrite (Hf d Hd'). reflexivity.
  - apply in_remove_id. split; [exact Hin|]. intros ->.
    pose proof (pi_thr s HP t) as Q. rewrite Heql in Q. inversion Q as [|? ? Qi _]; subst. simpl in Qi.
    destruct Qi as (_ & Qd & _). eapply (chr_jdel s _ u); eauto.
  - assert (X : forallb nh (cbs_prog j0 (rcbs s j0) ++ l) = true) by (rewrite forallb_app, nh_cbs; exact Pt).
    apply norm_head_nh in E; [|exact X]. destruct i'; try discriminate E; discriminate C.
  - inversion E; subst. simpl in C. inversion C; subst. apply find_del_some in Heqo. apply Heqo.
  - apply (nh_norm l true) in Pt. rewrite E in Pt. simpl in Pt. apply andb_true_iff in Pt.
    destruct Pt as [Pt _]. destruct i'; try discriminate Pt; discriminate C.
  - inversion E; subst. simpl in C. inversion C; subst. eapply (HJ t _ _ r' Heql); [reflexivity|exact Hd|exact Hf].
  - inversion E; subst. simpl in C. inversion C; subst. eapply (HJ t _ _ r' Heql); [reflexivity|exact Hd|exact Hf].
  - inversion E; subst. simpl in C. inversion C; subst. eapply (HJ t _ _ r' Heql); [reflexivity|exact Hd|exact Hf].
  - eapply jch_other; [exact HJ|exact HP|exact HM|exact E|exact C|exact Hd|exact Hf].
  - destruct (dcb s d); simpl in E; inversion E; subst. discriminate C.
  - destruct (dcb s d); simpl in E; inversion E; subst. discriminate C.
Qed.

Lemma JCH_reach s : reachable_from step init s -> JCH s.
Proof.
  apply (invariant_rule_r step JCH).
  - intros t i l r E. discriminate E.
  - intros s0 e s' R IH H. apply step_split in H. destruct H as (s1 & Ht & H).
    apply tick_eq in Ht. subst s1. eapply JCH_step0; [ | | | | |exact H].
    + exact IH.
    + apply PI_tick, PI_reach, R.
    + apply UI_tick, UI_reach, R.
    + apply RI_tick, RI_reach, R.
    + apply (POS_reach s0 R).
Qed.
