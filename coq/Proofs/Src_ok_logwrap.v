(* source facts of more_executors/_impl/logwrap.py: what the translator finds now is what the models were written against *)
From Coq Require Import List String.
From ME Require Import Gen.Src_logwrap Model.SrcExpected.
Lemma src_logwrap_ok : Src_logwrap.facts = expected_logwrap.
Proof. reflexivity. Qed.
