(* source facts of more_executors/_impl/event.py: what the translator finds now is what the models were written against *)
From Coq Require Import List String.
From ME Require Import Gen.Src_event Model.SrcExpected.
Lemma src_event_ok : Src_event.facts = expected_event.
Proof. reflexivity. Qed.
