(* C02 / Throttle, part V: every step of the machine is a protocol step (Proto_Gen.vstep) of its view
   (allocated throttle futures, their state [ms], their outcome [mout], the protocol events of the history). *)
From Coq Require Import ZArith List Bool Arith Lia.
From RecordUpdate Require Import RecordSet.
From ME Require Import Base.Machine Base.Fut Base.GenPrelude Gen.ThrottleGen Model.Throttle
  Proofs.Throttle_Inv Proofs.Throttle_L1b Proofs.Proto_Gen Proofs.Proto_Throttle_P Proofs.Proto_Throttle_P1 Proofs.Proto_Throttle_P2.
Import ListNotations RecordSetNotations.

Definition pe (h : hev) : option (pev outcome) :=
  match h with
  | HFinal j o _ => Some (PSet j o)
  | HCancelled j _ => Some (PCancelled j)
  | HCancelRet j b _ => Some (PCancelRet j b)
  | _ => None
  end.
Definition view_of (s : st) : view outcome := mkView (nfut s) (ms s) (mout s) (pmap pe (hist s)).

Definition vv (s : st) := (nfut s, ms s, mout s, pmap pe (hist s)).
Lemma vneutral s s' : vv s' = vv s -> vstep outcome (view_of s) (view_of s').
Proof.
  unfold vv. intros E. inversion E as [[E1 E2 E3 E4]]. apply VNeutral; unfold view_of, same_at; simpl; auto.
  intros k. rewrite E2, E3. auto.
Qed.
Lemma vv_sub_check s t v rest : vv (sub_check s t v rest) = vv s.
Proof. unfold sub_check. destruct (blk s && negb (shut s)); [destruct (block_ready (qlen s) v) as [[|]|]|]; reflexivity. Qed.
Lemma vv_after_wait s t k rest : vv (after_wait s t k rest) = vv s.
Proof. destruct k; simpl; [reflexivity|apply vv_sub_check]. Qed.
Lemma vv_start_iter s t : vv (start_iter s t) = vv s.
Proof. unfold start_iter. destruct (shut s); [|destruct (dyn s)]; reflexivity. Qed.
Lemma vv_clear_del l : forall s, vv (clear_del s l) = vv s.
Proof.
  unfold clear_del. induction l as [|c l IH]; intros s; simpl; [auto|].
  rewrite (IH (match c with CbDone => s | CbRes j => s <| mdel := upd (mdel s) j None |> end)). destruct c; reflexivity.
Qed.
(* vv of a state that differs from x only in the program of one thread / by an unrelated history event *)
Lemma vv_set s t p : vv (set_prog s t p) = vv s. Proof. reflexivity. Qed.

Ltac vneu :=
  apply vneutral;
  repeat first [ rewrite vv_sub_check | rewrite vv_after_wait | rewrite vv_start_iter ];
  try reflexivity.
Ltac vhandler Hx := brk Hx; inv_some Hx; vneu.

Ltac vcancel IP s :=
  match goal with Et : thr s ?t = IFCancel ?j :: ?rest, Ef : f_cancel _ = (?n, true) |- _ =>
    let jc := fresh "jc" in let Ec := fresh "Ec" in let Hjc := fresh "Hjc" in let Hcp := fresh "Hcp" in let Hk := fresh "Hk" in
    let Hn := fresh "Hn" in let Hb := fresh "Hb" in
    destruct (head_conly _ _ _ _ IP Et eq_refl) as [jc [Ec [Hjc [Hcp Hk]]]];
    assert (Hn : n = fst (f_cancel (ms s j))) by (rewrite Ef; reflexivity);
    assert (Hb : snd (f_cancel (ms s j)) = true) by (rewrite Ef; reflexivity);
    apply (VCancel _ _ _ j); unfold view_of, same_at; simpl; rewrite ?upd_same; auto;
    first [ solve [simpl in Hk; apply Nat.ltb_lt; exact Hk]
          | solve [let k := fresh "k" in let Hne := fresh "Hne" in intros k Hne; rewrite upd_other by exact Hne; auto] ]
  end.
Ltac vsrnc IP s :=
  match goal with Et : thr s ?t = IFSrnc ?j :: ?rest, Ef : f_srnc _ = Some (?n, ?b) |- _ =>
    let jc := fresh "jc" in let Ec := fresh "Ec" in let Hjc := fresh "Hjc" in let Hcp := fresh "Hcp" in let Hk := fresh "Hk" in
    destruct (head_conly _ _ _ _ IP Et eq_refl) as [jc [Ec [Hjc [Hcp Hk]]]];
    apply (VSrnc _ _ _ j n b); unfold view_of, same_at; simpl; rewrite ?upd_same; auto;
    first [ solve [simpl in Hk; apply Nat.ltb_lt; exact Hk]
          | solve [let k := fresh "k" in let Hne := fresh "Hne" in intros k Hne; rewrite upd_other by exact Hne; auto] ]
  end.
Ltac vset IP s :=
  match goal with Et : thr s ?t = IFSet ?j ?o :: ?rest, Ef : f_set _ = Some ?n |- _ =>
    let Hw := fresh "Hw" in let A1 := fresh "A1" in let Hk := fresh "Hk" in
    pose proof (p_wf _ IP t) as Hw; rewrite Et in Hw; destruct (wfp_split _ _ _ Hw) as [A1 _];
    simpl in A1; apply andb_prop in A1; destruct A1 as [Hk _];
    apply (VSet _ _ _ j o n); unfold view_of, same_at; simpl; rewrite ?upd_same; auto;
    first [ solve [apply Nat.ltb_lt; exact Hk]
          | solve [let k := fresh "k" in let Hne := fresh "Hne" in intros k Hne; rewrite !upd_other by exact Hne; auto] ]
  end.

Lemma do_fm_vstep s t op j p s' : InvP s -> do_fm s t op j p = Some s' -> vstep outcome (view_of s) (view_of s').
Proof.
  intros IP Hx. unfold do_fm in Hx.
  destruct (negb (fstate_eqb p (ms s j))) eqn:Epre; [discriminate|]. apply pre_eq in Epre. subst p.
  brk Hx; inv_some Hx; eqs; first [ solve [vneu] | solve [vcancel IP s] | solve [vsrnc IP s] | solve [vset IP s] ].
Qed.

Lemma do_ret_vstep s t c s' : InvP s -> do_ret s t c = Some s' -> vstep outcome (view_of s) (view_of s').
Proof.
  intros IP Hx. unfold do_ret in Hx. brk Hx; inv_some Hx; eqs; try solve [vneu].
  match goal with Et : thr s t = IRetB ?b :: ?rest, Ec : cancelling s t = Some ?j |- _ =>
    apply (VRet _ _ _ j b); unfold view_of, same_at; simpl; auto;
    intros ->; destruct (p_guard _ IP _ _ Ec) as [A|A]; [rewrite Et in A; discriminate|exact A] end.
Qed.

Lemma do_xsec_vstep s t s' : InvP s -> do_xsec s t = Some s' -> vstep outcome (view_of s) (view_of s').
Proof.
  intros IP Hx. unfold do_xsec in Hx. brk Hx; inv_some Hx; eqs; try solve [vneu].
  apply VNew; unfold view_of, same_at; simpl; rewrite ?upd_same; auto.
  intros k Hne. rewrite !upd_other by exact Hne. auto.
Qed.

Lemma do_fd_vstep s t op d p s' : do_fd s t op d p = Some s' -> vstep outcome (view_of s) (view_of s').
Proof.
  intros Hx. unfold do_fd in Hx. brk Hx; inv_some Hx; try solve [vneu].
  apply vneutral. unfold vv at 1. simpl.
  match goal with |- context [clear_del ?x ?l] => pose proof (vv_clear_del l x) as E; unfold vv in E; inversion E as [[E1 E2 E3 E4]] end.
  rewrite E1, E2, E3, E4. reflexivity.
Qed.

Lemma step0_vstep s e s' : InvP s -> step0 s e = Some s' -> vstep outcome (view_of s) (view_of s').
Proof.
  intros IP Hx. destruct e; cbn [step0] in Hx;
    try solve [ eapply do_fm_vstep; eauto | eapply do_ret_vstep; eauto | eapply do_xsec_vstep; eauto | eapply do_fd_vstep; eauto ].
  - unfold do_new in Hx. vhandler Hx.
  - unfold do_hstart in Hx. vhandler Hx.
  - unfold do_exit in Hx. vhandler Hx.
  - unfold do_call_submit in Hx. vhandler Hx.
  - unfold do_call_cancel in Hx. vhandler Hx.
  - unfold do_call_shutdown in Hx. vhandler Hx.
  - unfold do_acq_g in Hx. vhandler Hx.
  - unfold do_rel_g in Hx. vhandler Hx.
  - unfold do_count in Hx. vhandler Hx.
  - unfold do_xacq in Hx. vhandler Hx.
  - unfold do_relx in Hx. vhandler Hx.
  - unfold do_rcread in Hx. vhandler Hx.
  - unfold do_pop in Hx. vhandler Hx.
  - unfold do_acq_a in Hx. vhandler Hx.
  - unfold do_rel_a in Hx. vhandler Hx.
  - unfold do_evset in Hx. vhandler Hx.
  - unfold do_wait in Hx. vhandler Hx.
  - unfold do_woke in Hx. vhandler Hx.
  - unfold do_clear in Hx. vhandler Hx.
  - unfold do_dsubmit in Hx. vhandler Hx.
  - unfold do_dshutdown in Hx. vhandler Hx.
  - unfold do_acq_m in Hx. vhandler Hx.
  - unfold do_rel_m in Hx. vhandler Hx.
  - unfold do_env_run in Hx. vhandler Hx.
  - unfold do_env_finish in Hx. vhandler Hx.
Qed.

Lemma view_tick s ts : view_of (s <| clock := ts |>) = view_of s. Proof. reflexivity. Qed.

Lemma step_vstep s e s' : reachable_from step init s -> step s e = Some s' -> vstep outcome (view_of s) (view_of s').
Proof.
  intros Hr Hx. destruct e as [ts e]. unfold step in Hx. simpl in Hx.
  destruct (tick s ts) as [s1|] eqn:Et; [|discriminate].
  unfold tick in Et. destruct (Z.leb (clock s) ts); inv_some Et.
  rewrite <- (view_tick s ts). apply (step0_vstep _ e); [apply invP_tick; apply invP_reachable; exact Hr|exact Hx].
Qed.

Lemma view_init : vinit outcome (view_of init).
Proof. unfold vinit. simpl. auto. Qed.

Definition reachable (s : st) : Prop := reachable_from step init s.

Theorem throttle_vinv s : reachable s -> VInv outcome (view_of s).
Proof. apply (sys_vinv outcome step init view_of view_init step_vstep). Qed.
