(* C02 / Poll, clause (d) CALLBACKS, part D: Model/Poll.v has no user done-callbacks on the PollFuture, but it does model
   the future's one built-in done-callback, _clear_executor (registered by PollFuture.__init__ through
   self.add_done_callback: instruction IDoneA j; "is in _me_done_callbacks": flag pcb s j; invocation = the X-section of
   _deregister_poll: instruction IXDereg j; it ran: history event HDereg j).  At any time the callback of an allocated
   future is in exactly one of these four places.  [pshape] lists what one step does to them (and to the state of the
   futures); [step_pshape] shows every step has one of these shapes. *)
From Coq Require Import ZArith List Bool Arith Lia.
From RecordUpdate Require Import RecordSet.
From ME Require Import Base.Machine Base.Fut Base.GenPrelude Model.Poll Proofs.Poll_Inv
  Proofs.Proto_Poll_P Proofs.Proto_Poll_P1 Proofs.Proto_Poll_P2.
Import ListNotations RecordSetNotations.

(* ---- counting ------------------------------------------------------------------------------------------------- *)
Definition wI (j : nat) (i : instr) : nat :=
  match i with IDoneA j' | IXDereg j' => if Nat.eqb j' j then 1 else 0 | _ => 0 end.
Fixpoint pcI (j : nat) (p : list instr) : nat := match p with [] => 0 | i :: r => wI j i + pcI j r end.
Definition wH (j : nat) (h : hev) : nat := match h with HDereg j' _ => if Nat.eqb j' j then 1 else 0 | _ => 0 end.
Fixpoint hD (j : nat) (l : list hev) : nat := match l with [] => 0 | h :: r => wH j h + hD j r end.
Definition bP (s : st) (j : nat) : nat := if pcb s j then 1 else 0.
Definition alloc (s : st) (j : nat) : nat := if j <? nfut s then 1 else 0.

Lemma pcI_app j p q : pcI j (p ++ q) = pcI j p + pcI j q.
Proof. induction p as [|i p IH]; simpl; [reflexivity|]. rewrite IH. lia. Qed.
Lemma hD_app j p q : hD j (p ++ q) = hD j p + hD j q.
Proof. induction p as [|i p IH]; simpl; [reflexivity|]. rewrite IH. lia. Qed.
Lemma hD_pos j l : 0 < hD j l <-> exists ts, In (HDereg j ts) l.
Proof.
  induction l as [|h l IH]; simpl; [split; [lia|intros [ts []]]|]. split.
  - intros Hp. destruct (Nat.eq_dec (wH j h) 0) as [E|E].
    + rewrite E in Hp. apply IH in Hp. destruct Hp as [ts Hin]. exists ts. right. exact Hin.
    + destruct h; simpl in E; try (exfalso; apply E; reflexivity).
      destruct (Nat.eqb j0 j) eqn:E1; [|exfalso; apply E; reflexivity]. apply Nat.eqb_eq in E1. subst. exists ts. left. reflexivity.
  - intros [ts [E|Hin]].
    + subst h. simpl. rewrite Nat.eqb_refl. lia.
    + assert (0 < hD j l) by (apply IH; exists ts; exact Hin). lia.
Qed.

(* instructions that carry no occurrence of the callback *)
Definition plain (i : instr) : bool := match i with IDoneA _ | IXDereg _ => false | _ => true end.
Lemma plain_pcI j p : forallb plain p = true -> pcI j p = 0.
Proof.
  induction p as [|i p IH]; [reflexivity|]. simpl. intros Hx. apply andb_prop in Hx. destruct Hx as [A B]. rewrite (IH B).
  destruct i; simpl in A |- *; try discriminate; reflexivity.
Qed.

(* every set_running_or_notify_cancel() on j is followed, later in the same program, by the callbacks of j *)
Definition is_cbs (j : nat) (i : instr) : bool := match i with IRelMCbs j' => Nat.eqb j' j | _ => false end.
Fixpoint tripb (p : list instr) : bool :=
  match p with
  | [] => true
  | IFSrnc j :: r => existsb (is_cbs j) r && tripb r
  | _ :: r => tripb r
  end.
Lemma tripb_tl i r : tripb (i :: r) = true -> tripb r = true.
Proof. destruct i; simpl; auto. intros Hx. apply andb_prop in Hx. tauto. Qed.
Lemma tripb_app p q : tripb p = true -> tripb q = true -> tripb (p ++ q) = true.
Proof.
  induction p as [|i p IH]; [auto|]. intros Hp Hq. pose proof (IH (tripb_tl _ _ Hp) Hq) as Hr.
  destruct i; simpl in *; auto. apply andb_prop in Hp. destruct Hp as [A _]. rewrite Hr, andb_true_r.
  rewrite existsb_app, A. reflexivity.
Qed.
(* the head of a program does not decide the state / the flag of any future: neither a callback occurrence, nor the
   callbacks, nor the notification *)
Definition quiet (i : instr) : bool :=
  match i with IDoneA _ | IXDereg _ | IRelMCbs _ | IFSrnc _ => false | _ => true end.
(* the pending callbacks / notification of j *)
Definition w2 (j : nat) (i : instr) : bool := match i with IRelMCbs j' | IFSrnc j' => Nat.eqb j' j | _ => false end.
Definition has_w2 (j : nat) (p : list instr) : bool := existsb (w2 j) p.

Lemma tripb_norm s p : tripb p = true -> tripb (norm s p) = true.
Proof.
  intros Hp. destruct p as [|i r]; [exact Hp|]. destruct i; try exact Hp. unfold norm. simpl in Hp.
  apply tripb_app; [|exact Hp]. destruct (cancel_cont_cases s j) as [->|[->|[v ->]]]; simpl; rewrite ?Nat.eqb_refl; reflexivity.
Qed.
Lemma plain_norm s p : forallb plain p = true -> forallb plain (norm s p) = true.
Proof.
  intros Hp. destruct p as [|i r]; [exact Hp|]. destruct i; try exact Hp. unfold norm. simpl in Hp.
  rewrite forallb_app, Hp, andb_true_r. destruct (cancel_cont_cases s j) as [->|[->|[v ->]]]; reflexivity.
Qed.
Lemma pcI_norm j s p : pcI j (norm s p) = pcI j p.
Proof.
  destruct p as [|i r]; [reflexivity|]. destruct i; try reflexivity. unfold norm. rewrite pcI_app. simpl.
  rewrite (plain_pcI j (cancel_cont s j0)); [reflexivity|]. destruct (cancel_cont_cases s j0) as [->|[->|[v ->]]]; reflexivity.
Qed.
Lemma has_w2_norm j s p : has_w2 j p = true -> has_w2 j (norm s p) = true.
Proof.
  intros Hp. destruct p as [|i r]; [exact Hp|]. destruct i; try exact Hp. unfold norm. simpl in Hp.
  unfold has_w2. rewrite existsb_app. apply orb_true_iff. right. exact Hp.
Qed.

(* ---- the shapes of a step -------------------------------------------------------------------------------------- *)
Definition same_hd (s s' : st) : Prop := forall j, hD j (hist s') = hD j (hist s).
Definition same_fut (s s' : st) : Prop := nfut s' = nfut s /\ ps s' = ps s /\ pcb s' = pcb s.

Inductive pshape (s s' : st) : Prop :=
  (* no program changes *)
| SNone : thr s' = thr s -> same_fut s s' -> same_hd s s' -> pshape s s'
  (* an idle thread starts a program *)
| SStart t p s1 : thr s t = [] -> thr s' = upd (thr s) t (norm s1 p) -> forallb plain p = true -> tripb p = true ->
    same_fut s s' -> same_hd s s' -> pshape s s'
  (* a quiet head is consumed, p takes its place; the state of at most one future changes, and if that makes it done
     its callbacks / its notification are pending in the new program *)
| SPlain t i p rest s1 : thr s t = i :: rest -> thr s' = upd (thr s) t (norm s1 (p ++ rest)) -> quiet i = true ->
    forallb plain p = true -> tripb p = true -> nfut s' = nfut s -> pcb s' = pcb s -> same_hd s s' ->
    (ps s' = ps s \/ exists j n, ps s' = upd (ps s) j n /\ (fdone (ps s j) = true \/ has_w2 j (p ++ rest) = true)) ->
    pshape s s'
  (* submit(): a new future; its constructor is about to register the callback *)
| SNew t rest s1 : thr s t = IDSubmit :: rest ->
    thr s' = upd (thr s) t (norm s1 ([IAcqM (nfut s); IDoneA (nfut s); IAddCbD (nfut s); IGRel; IRetSubmit (nfut s)] ++ rest)) ->
    nfut s' = S (nfut s) -> ps s' = ps s -> pcb s' = upd (pcb s) (nfut s) false -> same_hd s s' -> pshape s s'
  (* add_done_callback on a done future: invoked at once *)
| SAddDone t j rest s1 : thr s t = IDoneA j :: rest -> fdone (ps s j) = true ->
    thr s' = upd (thr s) t (norm s1 (IRelM j :: IXDereg j :: rest)) -> same_fut s s' -> same_hd s s' -> pshape s s'
  (* ... on a future that is not done: registered *)
| SAddPend t j rest s1 : thr s t = IDoneA j :: rest -> fdone (ps s j) = false ->
    thr s' = upd (thr s) t (norm s1 (IRelM j :: rest)) -> nfut s' = nfut s -> ps s' = ps s -> pcb s' = upd (pcb s) j true ->
    same_hd s s' -> pshape s s'
  (* _me_invoke_callbacks *)
| SRun t j rest s1 : thr s t = IRelMCbs j :: rest ->
    thr s' = upd (thr s) t (norm s1 ((if pcb s j then [IXDereg j] else []) ++ rest)) ->
    nfut s' = nfut s -> ps s' = ps s -> pcb s' = upd (pcb s) j false -> same_hd s s' -> pshape s s'
  (* the callback runs *)
| SDereg t j rest s1 ts : thr s t = IXDereg j :: rest -> thr s' = upd (thr s) t (norm s1 rest) -> same_fut s s' ->
    hist s' = HDereg j ts :: hist s -> pshape s s'
  (* set_running_or_notify_cancel() *)
| SSrnc t j rest s1 n b : thr s t = IFSrnc j :: rest -> f_srnc (ps s j) = Some (n, b) -> thr s' = upd (thr s) t (norm s1 rest) ->
    nfut s' = nfut s -> ps s' = upd (ps s) j n -> pcb s' = pcb s -> same_hd s s' -> pshape s s'.

(* ---- tactics ----------------------------------------------------------------------------------------------------- *)
Ltac triv_h := let j := fresh "j" in intros j; reflexivity.
Ltac sf := split; [reflexivity|split; reflexivity].
Ltac bcomp := first [ reflexivity | (simpl; rewrite ?Nat.eqb_refl; reflexivity) ].
Ltac plain_with s t s1 p :=
  match goal with
  | Et : thr s t = ?i :: ?rest |- _ =>
      let pre := prefix_of p rest in
      apply (SPlain s _ t i pre rest s1); [exact Et|reflexivity|reflexivity|bcomp|bcomp|reflexivity|reflexivity|triv_h|left; reflexivity]
  end.
Ltac plain_s s :=
  match goal with
  | |- pshape _ (log (set_prog ?s1 ?t ?p) _) => plain_with s t s1 p
  | |- pshape _ (set_prog ?s1 ?t ?p) => plain_with s t s1 p
  end.
Ltac start_s s :=
  match goal with
  | |- pshape _ (log (set_prog ?s1 ?t ?p) _) => apply (SStart s _ t p s1); [|reflexivity|bcomp|bcomp|sf|triv_h]
  | |- pshape _ (set_prog ?s1 ?t ?p) => apply (SStart s _ t p s1); [|reflexivity|bcomp|bcomp|sf|triv_h]
  end.
Ltac none_s := apply SNone; [reflexivity|sf|triv_h].

Lemma plain_fail_all e (l : list (nat * nat)) : forallb plain (flat_map (fun p => exc_prog (fst p) e) l) = true.
Proof. induction l as [|p l IH]; simpl; auto. Qed.
Lemma tripb_fail_all e (l : list (nat * nat)) : tripb (flat_map (fun p => exc_prog (fst p) e) l) = true.
Proof. induction l as [|p l IH]; simpl; auto. Qed.

(* ---- every step has one of the shapes -------------------------------------------------------------------------- *)
Lemma step1_pshape s e s' : step1 s e = Some s' -> pshape s s'.
Proof.
  intros Hx. destruct e; try discriminate Hx; unfold step1 in Hx; brk Hx; inv_some Hx; eqs;
    first [ solve [plain_s s] | solve [none_s]
          | solve [start_s s; apply client_nil; assumption]
          | solve [match goal with Et : thr s ?t = IDSubmit :: ?rest |- pshape _ (set_prog ?s1 _ _) =>
                     apply (SNew s _ t rest s1); [exact Et|reflexivity|reflexivity|reflexivity|reflexivity|triv_h] end]
          | solve [match goal with Et : thr s ?t = IXDereg ?j :: ?rest |- pshape _ (log (set_prog ?s1 _ _) (HDereg _ ?ts)) =>
                     apply (SDereg s _ t j rest s1 ts); [exact Et|reflexivity|sf|reflexivity] end]
          | solve [match goal with Et : thr s ?t = IRelMCbs ?j :: ?rest |- pshape _ (set_prog ?s1 _ _) =>
                     apply (SRun s _ t j rest s1);
                       [exact Et|match goal with E : pcb s j = _ |- _ => rewrite E end; reflexivity|reflexivity|reflexivity|reflexivity|triv_h] end] ].
Qed.

Lemma fp_pshape s t op j p s' : InvP s -> step2 s (EFP t op j p) = Some s' -> pshape s s'.
Proof.
  intros IP Hx. unfold step2 in Hx.
  destruct (negb (fstate_eqb p (ps s j))) eqn:Epre; [discriminate|]. apply pre_eq in Epre. subst p.
  brk Hx; inv_some Hx; eqs;
    first [ solve [plain_s s]
          | solve [match goal with Et : thr s ?t = IDoneA ?j :: ?rest, Ed : fdone (ps s ?j) = true |- pshape _ (set_prog ?s1 _ _) =>
                     apply (SAddDone s _ t j rest s1); [exact Et|exact Ed|reflexivity|sf|triv_h] end]
          | solve [match goal with Et : thr s ?t = IDoneA ?j :: ?rest, Ed : fdone (ps s ?j) = false |- pshape _ (set_prog ?s1 _ _) =>
                     apply (SAddPend s _ t j rest s1); [exact Et|exact Ed|reflexivity|reflexivity|reflexivity|reflexivity|triv_h] end]
          | solve [match goal with Et : thr s ?t = IFSrnc ?j :: ?rest, Ef : f_srnc _ = Some (?n, ?b) |- pshape _ (set_prog ?s1 _ _) =>
                     apply (SSrnc s _ t j rest s1 n b); [exact Et|exact Ef|reflexivity|reflexivity|reflexivity|reflexivity|triv_h] end]
            (* set_result / set_exception taking effect: the callbacks follow *)
          | solve [match goal with Et : thr s ?t = ?i :: ?rest |- pshape _ (log (set_prog ?s1 _ (IRelMCbs ?j :: ?rest)) _) =>
                     apply (SPlain s _ t i [IRelMCbs j] rest s1); [exact Et|reflexivity|reflexivity|reflexivity|reflexivity|reflexivity|reflexivity|triv_h|];
                     right; eexists; eexists; split; [reflexivity|right; simpl; rewrite Nat.eqb_refl; reflexivity] end]
            (* super().cancel(): the notification follows (pairs) *)
          | solve [match goal with Et : thr s ?t = IFCancel ?j :: ?rest |- pshape _ (log (set_prog ?s1 _ ?rest) _) =>
                     apply (SPlain s _ t (IFCancel j) [] rest s1); [exact Et|reflexivity|reflexivity|reflexivity|reflexivity|reflexivity|reflexivity|triv_h|];
                     right; eexists; eexists; split; [reflexivity|right];
                     let Hw := fresh "Hw" in let A2 := fresh "A2" in
                     pose proof (p_wf _ IP t) as Hw; rewrite Et in Hw; destruct (wfp_split _ _ _ Hw) as [_ [A2 _]];
                     simpl in A2; apply andb_prop in A2; destruct A2 as [A2 _];
                     destruct rest as [|i2 r2]; [discriminate A2|]; destruct i2; try discriminate A2;
                     apply Nat.eqb_eq in A2; subst; simpl; rewrite Nat.eqb_refl; reflexivity end] ].
Qed.

Lemma step2_pshape s e s' : InvP s -> step2 s e = Some s' -> pshape s s'.
Proof.
  intros IP Hx. destruct e; try discriminate Hx; try solve [eapply fp_pshape; eauto];
    unfold step2 in Hx; brk Hx; inv_some Hx; eqs;
    first [ solve [plain_s s] | solve [none_s]
          | solve [start_s s; assumption]
          | solve [match goal with |- pshape _ (log (set_prog ?s1 ?t ?p) _) =>
                     apply (SStart s _ t p s1); [assumption|reflexivity|apply plain_fail_all|apply tripb_fail_all|sf|triv_h] end]
          | solve [match goal with o : outcome |- _ => destruct o; start_s s; assumption end] ].
Qed.

Lemma step3_pshape s e s' : step3 s e = Some s' -> pshape s s'.
Proof.
  intros Hx. destruct e; try discriminate Hx; unfold step3 in Hx; brk Hx; inv_some Hx; eqs;
    first [ solve [none_s] | solve [start_s s; apply client_nil; assumption] ].
Qed.

Lemma step0_pshape s e s' : InvP s -> step0 s e = Some s' -> pshape s s'.
Proof.
  intros IP Hx. destruct (step0_inv _ _ _ Hx) as [[c [d [-> [_ ->]]]]|[_ [H1|[H2|H3]]]].
  - none_s.
  - eapply step1_pshape; eauto.
  - eapply step2_pshape; eauto.
  - eapply step3_pshape; eauto.
Qed.
