(* Chain model: the lemmas behind Props/C11_Chain.v, assembled from the invariants in
   Chain_Gate (gates), Chain_Tok (tokens / first-shutdown-wins), Chain_Ret (arguments, returns),
   Chain_Prop (what holds when the winner returns), Chain_Lock (gate order). *)
From Coq Require Import List Arith Bool Lia PeanoNat ZArith.
From ME Require Import Base.Machine Model.Chain Proofs.Chain_Base Proofs.Chain_Gate Proofs.Chain_Tok
  Proofs.Chain_Ret Proofs.Chain_Prop Proofs.Chain_Lock.
Import ListNotations.

Definition reach (c : cfg) := reachable_from (step c) init.

Lemma win_unique k l : cnt (is_win k) l <= 1 -> forall t w kw u w' kw',
  In (HWin t k w kw) l -> In (HWin u k w' kw') l -> u = t /\ w' = w /\ kw' = kw.
Proof.
  induction l as [|h l IH]; simpl; [tauto|]. intros C t w kw u w' kw' [X|X] [Y|Y].
  - subst h. inversion Y; auto.
  - subst h. simpl in C. rewrite Nat.eqb_refl in C. assert (Z : cnt (is_win k) l = 0) by lia.
    exfalso. clear -Y Z. induction l as [|h l IH]; [contradiction|]. simpl in Z. destruct Y as [Y|Y].
    + subst h. simpl in Z. rewrite Nat.eqb_refl in Z. discriminate.
    + apply IH; [exact Y|lia].
  - subst h. simpl in C. rewrite Nat.eqb_refl in C. assert (Z : cnt (is_win k) l = 0) by lia.
    exfalso. clear -X Z. induction l as [|h l IH]; [contradiction|]. simpl in Z. destruct X as [X|X].
    + subst h. simpl in Z. rewrite Nat.eqb_refl in Z. discriminate.
    + apply IH; [exact X|lia].
  - apply (IH ltac:(lia) t w kw u w' kw' X Y).
Qed.

(* (1) each layer calls its delegate's shutdown at most once, from the winner's thread, with the winner's arguments *)
Lemma chain_once_each c s : reach c s -> forall k,
  cnt (is_down k) (hist s) <= 1 /\
  forall t w kw, In (HDown t k w kw) (hist s) ->
    In (HWin t k w kw) (hist s) /\
    forall u w' kw', In (HWin u k w' kw') (hist s) -> u = t /\ w' = w /\ kw' = kw.
Proof.
  intros R k. generalize (ainv_reachable c s R). generalize (dinv_reachable c s R). intros D A.
  split; [apply (a_dle s A)|]. intros t w kw X. apply (d_dargs s D) in X. split; [exact X|].
  intros u w' kw' Y. apply (win_unique k (hist s)); auto.
  destruct (flag s k) eqn:F; [rewrite (a_f1 s A k F); lia|destruct (a_f0 s A k F) as [Z _]; rewrite Z; lia].
Qed.

Lemma okh_split l1 : forall h l2, okh (l1 ++ h :: l2) ->
  match h with HEnter _ k | HWin _ k _ _ => forall u b, ~ In (HSdRet u k b) l2 | _ => True end.
Proof. induction l1 as [|a l1 IH]; simpl; intros h l2 [X Y]; [exact X|apply IH; exact Y]. Qed.

(* (3) a submit(k) that gets past the gate did so before any shutdown(k) call had returned *)
Lemma chain_enter_before_ret c s : reach c s -> forall l1 l2 t k, hist s = l1 ++ HEnter t k :: l2 ->
  forall u b, ~ In (HSdRet u k b) l2.
Proof.
  intros R l1 l2 t k E. generalize (d_okh s (dinv_reachable c s R)). rewrite E. intros O.
  apply (okh_split l1 (HEnter t k) l2 O).
Qed.

(* (6) the shutdown(k) that wins does so before any shutdown(k) call has returned: later calls lose *)
Lemma chain_win_before_ret c s : reach c s -> forall l1 l2 t k w kw, hist s = l1 ++ HWin t k w kw :: l2 ->
  forall u b, ~ In (HSdRet u k b) l2.
Proof.
  intros R l1 l2 t k w kw E. generalize (d_okh s (dinv_reachable c s R)). rewrite E. intros O.
  apply (okh_split l1 (HWin t k w kw) l2 O).
Qed.

Lemma chain_ret_flag c s : reach c s -> forall u k b, In (HSdRet u k b) (hist s) -> 0 < k -> flag s k = true.
Proof. intros R u k b X K. eapply (d_hret s (dinv_reachable c s R)); eauto. Qed.

(* (3) after a shutdown(k) has returned, a submit(k) taking the gate raises at layer k: its program
   goes straight to releasing the gate and raising; layer k-1 is not called *)
Lemma chain_submit_after c s : reach c s -> forall u k b, In (HSdRet u k b) (hist s) -> 0 < k ->
  forall t r e s', prog s t = IAcqSub k :: r -> (e = Acq t k \/ e = ReAcq t k) -> step c s e = Some s' ->
  prog s' t = IRelSub k false :: ISubRet k false :: r /\ hist s' = HRaise t k :: match e with Acq _ _ => [HAcq t k (held_by c s t)] | _ => [] end ++ hist s.
Proof.
  intros R u k b X K t r e s' P E H. assert (F : flag s k = true) by (eapply chain_ret_flag; eauto).
  apply step_tr in H. destruct E as [-> | ->]; inversion H; subst.
  - rewrite P in H3. inversion H3; subst. inversion H6; subst; simpl in *; try congruence.
    split; [rewrite upd_same; reflexivity|reflexivity].
  - rewrite P in H3. inversion H3; subst. inversion H6; subst; simpl in *; try congruence.
    split; [rewrite upd_same; reflexivity|reflexivity].
Qed.

(* (4) gate mutual exclusion, re-entrancy included *)
Lemma chain_gate_mutex c s : reach c s -> forall k t u,
  0 < inside k (prog s t) -> 0 < inside k (prog s u) -> t = u.
Proof.
  intros R k t u X Y. generalize (ginv_reachable c s R). intros G.
  apply (g_in s G) in X. apply (g_in s G) in Y. congruence.
Qed.

(* (4) while thread t is inside a gate section of layer k (a submit between the flag test and the
   release), the flag of layer k can only be flipped by t itself, re-entrantly *)
Lemma chain_racing c s : reach c s -> forall k t e s', 0 < inside k (prog s t) ->
  step c s e = Some s' -> flag s k = false -> flag s' k = true -> e = ReAcq t k.
Proof.
  intros R k0 t0 e s' X H F F'. generalize (ginv_reachable c s R). intros G. apply (g_in s G) in X.
  apply step_tr in H. destruct H; simpl in F'; try congruence; try (destruct k; simpl in F'; congruence);
    try (unfold finish_sub in F'; simpl in F'; congruence).
  - destruct H2; simpl in F'; try congruence. unfold upd in F'. destruct (Nat.eqb k0 k) eqn:E; [|congruence].
    apply Nat.eqb_eq in E. subst. congruence.
  - destruct H2; simpl in F'; try congruence. unfold upd in F'. destruct (Nat.eqb k0 k) eqn:E; [|congruence].
    apply Nat.eqb_eq in E. subst. rewrite H in X. inversion X; subst. reflexivity.
Qed.

(* (2) when the winning shutdown(k) is about to return *)
Lemma chain_propagated c s : reach c s -> forall t k jn r, prog s t = ISdRet k jn true :: r ->
  cdn s k = 1 /\
  forall j, j < k ->
    (cdn s (S j) = 1 /\ (1 <= j -> flag s j = true)) \/ (exists i, j < i /\ i < k /\ pend s i).
Proof.
  intros R t k jn r P. destruct (propinv_reachable c s R) as [A Pi [Q1 Q2]].
  generalize (Pi t). rewrite P. simpl. intros [C [F _]]. split; [exact C|].
  assert (G : forall d j, j + d + 1 = k ->
            (cdn s (S j) = 1 /\ (1 <= j -> flag s j = true)) \/ (exists i, j < i /\ i < k /\ pend s i)).
  { induction d as [|d IH]; intros j E.
    - left. assert (Ek : k = S j) by lia. clear E. rewrite Ek in C, F. split; [exact C|]. intros J.
      replace j with (S j - 1) by lia. apply F. lia.
    - destruct (IH (S j) ltac:(lia)) as [[C1 F1]|[i [I1 [I2 I3]]]].
      + assert (F2 : flag s (S j) = true) by (apply F1; lia).
        destruct (Q1 (S j) F2) as [C2|Pd]; [|right; exists (S j); split; [lia|split; [lia|exact Pd]]].
        destruct j as [|j]; [left; split; [exact C2|lia]|].
        destruct (Q2 (S j) ltac:(lia) C2) as [F3|Pd]; [left; split; [exact C2|intros _; exact F3]|].
        right. exists (S (S j)). split; [lia|split; [lia|exact Pd]].
      + right. exists i. split; [lia|split; [lia|exact I3]]. }
  intros j J. apply (G (k - j - 1) j). lia.
Qed.

(* (5) gates are taken top-down as long as no callable calls back into the stack *)
Lemma chain_lock_order c s : reach c s -> nested s = false ->
  forall t k held, In (HAcq t k held) (hist s) -> forall j, In j held -> k < j.
Proof. intros R N. apply (li_h s (lockinv_reachable c s R) N). Qed.

Lemma chain_no_gate_deadlock c s : reach c s -> nested s = false ->
  forall L : list nat,
    (forall t, In t L -> exists k u, want s t = Some k /\ gown s k = Some u /\ u <> t /\ In u L) -> L = [].
Proof.
  intros R N L D. destruct L as [|t L]; [reflexivity|]. exfalso.
  apply (no_gate_cycle c s R N (t :: L) D t). left. reflexivity.
Qed.

(* ---- concrete histories (non-vacuity and refutations) ------------------------------------------- *)
Definition st_of (c : cfg) (es : list ev) : st := match run (step c) init es with Some s => s | None => init end.
Lemma reach_st_of c es : run (step c) init es <> None -> reach c (st_of c es).
Proof. unfold st_of, reach, reachable_from. intros H. exists es. destruct (run (step c) init es); [reflexivity|congruence]. Qed.

(* layers: 1 map, 2 retry, 3 poll.  Thread 2 submits at the top and races with thread 1 shutting down
   layer 2 (wait=False, cancel_futures=True) and thread 0 shutting down layer 3 (wait=True). *)
Definition ex_cfg : cfg := [KMap; KRetry; KPoll].
Definition ex_part1 : list ev :=
  [SubCall 2 3; Acq 2 3;                         (* submit enters layer 3 *)
   SdCall 1 2 false 1; Acq 1 2; Rel 1 2;         (* thread 1 wins layer 2 *)
   SubCall 2 2; Acq 2 2; Rel 2 2; SubRet 2 2 false;   (* the submit raises at layer 2 ... *)
   Rel 2 3; SubRet 2 3 false;                    (* ... and the error propagates to the caller *)
   SdCall 0 3 true 0; Acq 0 3; Rel 0 3;          (* thread 0 wins layer 3 *)
   SdCall 0 2 true 0; Acq 0 2; Rel 0 2; SdRet 0 2;    (* its call down loses on layer 2, returns at once *)
   WExit 5 3].                                   (* the poll thread exits *)
Definition ex_part2 : list ev :=
  [SdRet 0 3;                                    (* shutdown(3, wait=True) returns; layer 1 not yet shut down *)
   SdCall 1 1 false 1; Acq 1 1; Rel 1 1; SdCall 1 0 false 1; SdRet 1 0; SdRet 1 1; SdRet 1 2].

Lemma chain_nonvacuous : exists s, reach ex_cfg s /\ nested s = false /\
  flag s 1 = true /\ flag s 2 = true /\ flag s 3 = true /\ bcalls s = 1 /\ wdead s 3 = true /\
  cdn s 1 = 1 /\ cdn s 2 = 1 /\ cdn s 3 = 1 /\
  In (HEnter 2 3) (hist s) /\ In (HRaise 2 2) (hist s) /\ In (HLose 0 2) (hist s) /\
  In (HDown 1 2 false 1) (hist s) /\ In (HDown 0 3 true 0) (hist s) /\ In (HSdRet 0 3 true) (hist s).
Proof.
  exists (st_of ex_cfg (ex_part1 ++ ex_part2)). split; [apply reach_st_of; vm_compute; discriminate|].
  vm_compute. repeat split; auto 40.
Qed.

(* the strict reading of (2) -- every layer below flagged when the winner returns -- is false when an
   inner layer is being shut down by another thread at that moment *)
Lemma chain_propagated_strict_refuted : exists s t k jn r j, reach ex_cfg s /\
  prog s t = ISdRet k jn true :: r /\ 1 <= j /\ j < k /\ flag s j = false /\ cdn s (S j) = 0.
Proof.
  exists (st_of ex_cfg ex_part1), 0, 3, true, [], 1.
  split; [apply reach_st_of; vm_compute; discriminate|]. vm_compute. repeat split; auto.
Qed.

(* without the hypothesis nested = false: a callable submitted to layer 1 calls back into layer 2 *)
Definition inv_cfg : cfg := [KMap; KMap].
Definition inv_trace : list ev :=
  [SubCall 1 2; Acq 1 2; SubCall 1 1;            (* thread 1 comes down from the top, needs G1 *)
   SubCall 0 1; Acq 0 1; SubCall 0 0;            (* thread 0 submitted to layer 1; the sync base runs the callable *)
   SubCall 0 2].                                 (* which submits to layer 2: needs G2 *)
Lemma chain_lock_order_refuted : exists s t k held j, reach inv_cfg s /\
  In (HAcq t k held) (hist s) /\ In j held /\ j < k.
Proof.
  exists (st_of inv_cfg [SubCall 0 1; Acq 0 1; SubCall 0 0; SubCall 0 2; Acq 0 2]), 0, 2, [1], 1.
  split; [apply reach_st_of; vm_compute; discriminate|]. vm_compute. repeat split; auto.
Qed.
Lemma chain_no_gate_deadlock_refuted : exists s L, reach inv_cfg s /\ L <> [] /\
  forall t, In t L -> exists k u, want s t = Some k /\ gown s k = Some u /\ u <> t /\ In u L.
Proof.
  exists (st_of inv_cfg inv_trace), [0; 1].
  split; [apply reach_st_of; vm_compute; discriminate|]. split; [discriminate|].
  intros t [<-|[<-|[]]].
  - exists 2, 1. vm_compute. repeat split; auto. discriminate.
  - exists 1, 0. vm_compute. repeat split; auto. discriminate.
Qed.
