(* History invariant: after HCancelRet j _ no HDSubmit j. *)
From Coq Require Import List ZArith Bool Arith Lia.
From RecordUpdate Require Import RecordSet.
From ME Require Import Base.Machine Base.Fut Base.GenPrelude Gen.RetryGen Model.Retry Proofs.Retry_Spec Proofs.Retry_C0 Proofs.Retry_C1 Proofs.Retry_C2 Proofs.Retry_C3 Proofs.Retry_C4 Proofs.Retry_C5 Proofs.Retry_C6 Proofs.Retry_C7 Proofs.Retry_C8 Proofs.Retry_C9 Proofs.Retry_C10 Proofs.Retry_C11 Proofs.Retry_C12 Proofs.Retry_C13 Proofs.Retry_C14 Proofs.Retry_C15.
Import ListNotations RecordSetNotations.

Lemma app_split_elt {A} (c : A) : forall ext h l1 l2, ext ++ h = l1 ++ c :: l2 ->
  (exists l1', l1 = ext ++ l1' /\ h = l1' ++ c :: l2) \/ In c ext.
Proof.
  induction ext as [|x ext IH]; intros h l1 l2 E.
  - left. exists l1. split; [reflexivity|exact E].
  - destruct l1 as [|y l1]; simpl in E.
    + inversion E; subst. right. left. reflexivity.
    + inversion E; subst. destruct (IH _ _ _ H1) as [(l1' & -> & Eh)|Hin].
      * left. exists l1'. split; [reflexivity|exact Eh].
      * right. right. exact Hin.
Qed.

Definition SH (s : st) : Prop := forall l1 j b ts l2, hist s = l1 ++ HCancelRet j b ts :: l2 ->
  Qs s j /\ forall d a t w, ~ In (HDSubmit j d a t w) l1.

Lemma SH_ext s s' ext : SH s -> hist s' = ext ++ hist s -> (forall j, Qs s j -> Qs s' j) ->
  (forall j b ts, In (HCancelRet j b ts) ext -> ext = [HCancelRet j b ts] /\ Qs s' j) ->
  (forall j d a t w, In (HDSubmit j d a t w) ext -> ~ Qs s j) -> SH s'.
Proof.
  intros IH E Keep Hc Hd l1 j b ts l2 Hh. rewrite E in Hh.
  destruct (app_split_elt _ _ _ _ _ Hh) as [(l1' & -> & Eh)|Hin].
  - destruct (IH _ _ _ _ _ Eh) as [Q N]. split; [apply Keep; exact Q|].
    intros d a t w Hin. apply in_app_iff in Hin. destruct Hin as [Hin|Hin].
    + apply (Hd _ _ _ _ _ Hin). exact Q.
    + apply (N _ _ _ _ Hin).
  - destruct (Hc _ _ _ Hin) as [-> Q]. split; [exact Q|].
    destruct l1 as [|y l1]; [intros d a t w []|].
    simpl in Hh. inversion Hh as [[Ey Eh]]. destruct (IH _ _ _ _ _ Eh) as [_ N].
    intros d a t w [X|X]; [discriminate X|apply (N _ _ _ _ X)].
Qed.

Lemma SH_step0 s e s' : SH s -> KI s -> CI s -> HI s -> JCH s -> PI s -> RI s -> (forall t, posok (thr s t) = true) ->
  step0 s e = Some s' -> SH s'.
Proof.
  intros HS HK HC HH HJ HP HR HPos H. pose proof H as H0.
  assert (Keep : forall j, Qs s j -> Qs s' j) by (intros j Q; eapply Qs_step0; eassumption).
  s0inv H; try exact HS.
  all: try (match goal with inl : option outcome |- _ => destruct inl end).
  all: bsplit; subst.
  all: try (apply (SH_ext s _ [] HS); [reflexivity|exact Keep|intros ? ? ? []|intros ? ? ? ? ? []]).
  all: try (match goal with |- SH (log ?BB ?h) => apply (SH_ext s _ [h] HS); [reflexivity|exact Keep| |];
     try (intros ? ? ? Hin; simpl in Hin; destruct Hin as [Ex|[]]; discriminate Ex);
     try (intros ? ? ? ? ? Hin; simpl in Hin; destruct Hin as [Ex|[]]; discriminate Ex) end).
  - intros j b0 ts Hin. simpl in Hin. destruct Hin as [Ex|[]]. inversion Ex; subst. split; [reflexivity|].
    apply Keep. apply (HK t j Heqo). rewrite Heql.
    pose proof (ci_thr s HC t (canc_nw s t j HC Heqo)) as Ck. rewrite Heql in Ck. simpl in Ck.
    apply andb_true_iff in Ck. destruct Ck as [Ck _]. apply isnil_nil in Ck. subst l. reflexivity.
  - match goal with |- SH (set_prog (log _ ?h) _ _) => apply (SH_ext s _ [h] HS); [reflexivity|exact Keep| |] end.
    + intros ? ? ? Hin; simpl in Hin; destruct Hin as [Ex|[]]; discriminate Ex.
    + intros ? ? ? ? ? Hin; simpl in Hin; destruct Hin as [Ex|[]]; discriminate Ex.
  - match goal with |- SH (set_prog (log _ ?h) _ _) => apply (SH_ext s _ [h] HS); [reflexivity|exact Keep| |] end.
    + intros ? ? ? Hin; simpl in Hin; destruct Hin as [Ex|[]]; discriminate Ex.
    + intros ? ? ? ? ? Hin; simpl in Hin; destruct Hin as [Ex|[]]; discriminate Ex.
  - match goal with |- SH (set_prog (log _ ?h) _ _) => apply (SH_ext s _ [h] HS); [reflexivity|exact Keep| |] end.
    + intros ? ? ? Hin; simpl in Hin; destruct Hin as [Ex|[]]; discriminate Ex.
    + intros ? ? ? ? ? Hin; simpl in Hin; destruct Hin as [Ex|[]]; discriminate Ex.
  - match goal with |- SH (set_prog (log _ ?h) _ _) => apply (SH_ext s _ [h] HS); [reflexivity|exact Keep| |] end.
    + intros ? ? ? Hin; simpl in Hin; destruct Hin as [Ex|[]]; discriminate Ex.
    + intros ? ? ? ? ? Hin; simpl in Hin; destruct Hin as [Ex|[]]; discriminate Ex.
  - match goal with |- SH (set_prog (log _ ?h) _ _) => apply (SH_ext s _ [h] HS); [reflexivity|exact Keep| |] end.
    + intros ? ? ? Hin; simpl in Hin; destruct Hin as [Ex|[]]; discriminate Ex.
    + intros ? ? ? ? ? Hin; simpl in Hin; destruct Hin as [Ex|[]]; discriminate Ex.
  - apply (SH_ext s _ [HDDone (ndel s) o (clock s); HStart (ndel s) (clock s);
        HDSubmit (jf (recs s r)) (ndel s) (S (jatt (recs s r))) (clock s) (jwhen (recs s r))] HS); [reflexivity|exact Keep| |].
    + intros ? ? ? Hin; simpl in Hin; destruct Hin as [Ex|[Ex|[Ex|[]]]]; discriminate Ex.
    + intros j d a t0 w Hin Q; simpl in Hin; destruct Hin as [Ex|[Ex|[Ex|[]]]]; try discriminate Ex.
      inversion Ex; subst. eapply (Qs_nosubmit s _ t r l Q HH Heql). reflexivity.
  - intros j d a t0 w Hin Q; simpl in Hin; destruct Hin as [Ex|[]]. inversion Ex; subst.
    eapply (Qs_nosubmit s _ t r l Q HH Heql). reflexivity.
Qed.

Lemma SH_reach s : reachable_from step init s -> SH s.
Proof.
  apply (invariant_rule_r step SH).
  - intros l1 j b ts l2 E. destruct l1; discriminate E.
  - intros s0 e s' R IH H. apply step_split in H. destruct H as (s1 & Ht & H).
    apply tick_eq in Ht. subst s1. eapply SH_step0; [ | | | | | | | |exact H].
    + intros l1 j b ts l2 E. destruct (IH l1 j b ts l2 E) as [Q N]. split; [apply Qs_tick; exact Q|exact N].
    + intros t j C D. apply Qs_tick. apply (KI_reach s0 R t j C D).
    + apply CI_tick, CI_reach, R.
    + apply HI_tick, HI_reach, R.
    + exact (JCH_reach s0 R).
    + apply PI_tick, PI_reach, R.
    + apply RI_tick, RI_reach, R.
    + apply (POS_reach s0 R).
Qed.

Lemma retry_cancel_stops : forall s, reachable_from step init s -> forall l1 j b ts l2,
  hist s = l1 ++ HCancelRet j b ts :: l2 ->
  forall d a t w, ~ In (HDSubmit j d a t w) l1.
Proof. intros s R l1 j b ts l2 E. apply (SH_reach s R l1 j b ts l2 E). Qed.
