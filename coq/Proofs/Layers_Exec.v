(* Layers, part 1: `exec` (Locks.ordered returning the held stack), the global numbering, the held stack of a
   checker context. *)
From Coq Require Import List Bool Arith Lia.
From ME Require Import Base.Machine Model.Locks Model.Layers.
Import ListNotations.

Lemma exec_ordered h p : ordered h p = true <-> exec h p = Some [].
Proof.
  revert h. induction p as [|[l|l] r IH]; intros h; simpl.
  - destruct h; split; intros H; try discriminate; auto.
  - destruct (existsb (Nat.eqb l) h); simpl; [apply IH|].
    destruct (forallb (fun x => Nat.ltb x l) h); simpl; [apply IH|].
    split; discriminate.
  - destruct h as [|x hs]; [split; discriminate|].
    destruct (Nat.eqb x l); simpl; [apply IH|split; discriminate].
Qed.

Lemma exec_app h p q :
  exec h (p ++ q) = match exec h p with Some h' => exec h' q | None => None end.
Proof.
  revert h. induction p as [|[l|l] r IH]; intros h; simpl; auto.
  - destruct (existsb (Nat.eqb l) h || forallb (fun x => Nat.ltb x l) h); auto.
  - destruct h as [|x hs]; auto. destruct (Nat.eqb x l); auto.
Qed.

(* the numbering is lexicographic in (layer, local number) for local numbers below K *)
Lemma glob_lt_local K i k1 k2 : k1 < k2 -> glob K i k1 < glob K i k2.
Proof. unfold glob. lia. Qed.

Lemma glob_lt_layer K i j k1 k2 : i < j -> k1 < K -> glob K i k1 < glob K j k2.
Proof. unfold glob. intros Hij Hk. nia. Qed.

Lemma glob_below K i k : k < K -> glob K i k < S i * K.
Proof. unfold glob. simpl. lia. Qed.

Lemma glob_inj K i j k1 k2 : k1 < K -> k2 < K -> glob K i k1 = glob K j k2 -> i = j /\ k1 = k2.
Proof.
  intros H1 H2 E. destruct (lt_eq_lt_dec i j) as [[L|E0]|L]; [| subst j |].
  - pose proof (glob_lt_layer K i j k1 k2 L H1). lia.
  - unfold glob in E. split; auto. lia.
  - pose proof (glob_lt_layer K j i k2 k1 L H2). lia.
Qed.

Lemma glob_lexicographic : forall K,
  (forall i k1 k2, k1 < k2 -> glob K i k1 < glob K i k2) /\
  (forall i j k1 k2, i < j -> k1 < K -> glob K i k1 < glob K j k2) /\
  (forall i j k1 k2, k1 < K -> k2 < K -> glob K i k1 = glob K j k2 -> i = j /\ k1 = k2).
Proof. intros K. split; [exact (glob_lt_local K)|split; [exact (glob_lt_layer K)|exact (glob_inj K)]]. Qed.

Definition bnd (K : nat) (l : list nat) : Prop := Forall (fun k => k < K) l.
Definition bnds (K : nat) (ls : list (list nat)) : Prop := Forall (bnd K) ls.

Lemma bnds_repeat K n : bnds K (repeat [] n).
Proof. induction n; simpl; constructor; auto. constructor. Qed.

(* every lock of the held stack of a context at layer (length above) lies below the next layer *)
Lemma gstack_below K above : bnds K above -> forall cur, bnd K cur ->
  forall x, In x (gstack K cur above) -> x < S (length above) * K.
Proof.
  induction above as [|a ab IH]; intros Ha cur Hc x Hx; simpl in Hx; apply in_app_or in Hx.
  - destruct Hx as [Hx|[]]. apply in_map_iff in Hx. destruct Hx as (k & <- & Hk).
    apply glob_below. unfold bnd in Hc. rewrite Forall_forall in Hc. auto.
  - inversion Ha as [|? ? Ha1 Ha2]; subst. destruct Hx as [Hx|Hx].
    + apply in_map_iff in Hx. destruct Hx as (k & <- & Hk).
      apply glob_below. unfold bnd in Hc. rewrite Forall_forall in Hc. auto.
    + apply (IH Ha2 a Ha1) in Hx. simpl length. simpl in *. lia.
Qed.

Lemma gstack_cons K k cur above :
  gstack K (k :: cur) above = glob K (length above) k :: gstack K cur above.
Proof. destruct above; reflexivity. Qed.

Lemma gstack_nil_cons K a ab : gstack K [] (a :: ab) = gstack K a ab.
Proof. reflexivity. Qed.

Lemma gstack_nil_repeat K n : gstack K [] (repeat [] n) = [].
Proof. induction n as [|n IH]; simpl; auto. Qed.

Lemma list_eqb_eq a b : list_eqb a b = true -> a = b.
Proof.
  revert b. induction a as [|x a IH]; intros [|y b]; simpl; try discriminate; auto.
  intros H. apply andb_prop in H. destruct H as [E H]. apply Nat.eqb_eq in E. apply IH in H. congruence.
Qed.

Lemma list_eqb_refl a : list_eqb a a = true.
Proof. induction a as [|x a IH]; simpl; auto. rewrite Nat.eqb_refl. auto. Qed.

(* one acquisition accepted by the layer-local test is accepted against the whole held stack *)
Lemma acq_ok_global K above cur k : bnds K above -> bnd K cur -> acq_ok K cur k = true ->
  k < K /\
  (existsb (Nat.eqb (glob K (length above) k)) (gstack K cur above)
   || forallb (fun h => Nat.ltb h (glob K (length above) k)) (gstack K cur above)) = true.
Proof.
  intros Ha Hc H. unfold acq_ok in H. apply andb_prop in H. destruct H as [HK H].
  apply Nat.ltb_lt in HK. split; auto.
  apply orb_prop in H. destruct H as [H|H]; apply orb_true_iff.
  - left. apply existsb_exists. apply existsb_exists in H. destruct H as (k' & Hin & E).
    apply Nat.eqb_eq in E. subst k'. exists (glob K (length above) k). split; [|apply Nat.eqb_refl].
    destruct above; simpl; apply in_or_app; left; apply in_map; auto.
  - right. apply forallb_forall. intros x Hx. apply Nat.ltb_lt.
    rewrite forallb_forall in H.
    destruct above as [|a ab]; simpl in Hx; apply in_app_or in Hx.
    + destruct Hx as [Hx|[]]. apply in_map_iff in Hx. destruct Hx as (k' & <- & Hk').
      apply glob_lt_local. apply Nat.ltb_lt. auto.
    + destruct Hx as [Hx|Hx].
      * apply in_map_iff in Hx. destruct Hx as (k' & <- & Hk').
        apply glob_lt_local. apply Nat.ltb_lt. auto.
      * inversion Ha as [|? ? Ha1 Ha2]; subst.
        pose proof (gstack_below K ab Ha2 a Ha1 x Hx) as B. simpl length. unfold glob. lia.
Qed.
