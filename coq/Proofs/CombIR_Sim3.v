(* Lockstep of the IR machine (generated combinator programs) and Comb.v: running a thread's silent code corresponds to
   Comb.v's [norm]; callbacks pushed as frames correspond to the segments Comb.v prepends; re-assembling the relation
   after a step. *)
From Coq Require Import List Arith Bool Lia PeanoNat ZArith.
From RecordUpdate Require Import RecordSet.
From ME Require Import Base.Machine Base.Fut Base.GenPrelude Gen.BoolGen Gen.ZipGen Model.Comb Model.CombIR Gen.CombSkel
  Proofs.CombIR_Sim Proofs.CombIR_Sim2.
Import ListNotations RecordSetNotations.

Lemma gsettle_cons h k lv st :
  gsettle h ((k, lv) :: st) =
  match gsrun FUEL h k lv with
  | (h', [], _) => gsettle h' st
  | (h', k', lv') => (h', (k', lv') :: st)
  end.
Proof. reflexivity. Qed.

Lemma gsstep_for h j body r lv :
  gsstep h (KFor j body :: r) lv =
  if j <? length (iinputs h) then Some (h, map IS body ++ KFor (S j) body :: r, set_pos lv j (iinput_at h j))
  else Some (h, r, lv).
Proof. reflexivity. Qed.

(* THE SILENT-CODE LEMMA: whatever the stack stands for, running the silent code of its top frame (leaving the frames
   that have ended) yields a stack that stands for the normalised instruction list, with a visible operation on top;
   the shared state is not touched. *)
Lemma settle_norm cs h : iinputs h = inputs cs -> forall p st, R_thr cs p st ->
  exists st', gsettle h st = (h, st') /\ R_thr cs (norm false p) st' /\ top_ok st'.
Proof.
  intros Hin p st H. induction H as [|p fr Hs|p fr rest st Hs Hr IH].
  - exists []. repeat split; constructor.
  - destruct (visible_head fr) eqn:Hv.
    + exists [fr]. rewrite (visible_settle _ _ _ Hv). split; [reflexivity|].
      rewrite (R_thr_norm cs p [fr] (RT_bot _ _ _ Hs) Hv). split; [apply RT_bot; exact Hs|exact Hv].
    + assert (KF : forall n j lv1, exists k' lv', gsrun (S (S (S n))) h (KFor j LB :: CT) lv1 = (h, k', lv') /\
                     visible_head (k', lv') = true /\ segb cs (norm false (loop (length (inputs cs)) j ++ [IRet])) (k', lv')).
      { intros n j lv1. rewrite gsrun_S, gsstep_for, Hin.
        destruct (j <? length (inputs cs)) eqn:Ej.
        * apply Nat.ltb_lt in Ej. simpl map. simpl app.
          rewrite gsrun_visible by reflexivity.
          eexists. eexists. split; [reflexivity|]. rewrite (loop_step _ _ Ej). simpl app. rewrite norm_real by reflexivity.
          split; [reflexivity|]. apply SB_K1; [exact Ej|reflexivity|].
          simpl. unfold iinput_at, input_at. rewrite Hin. reflexivity.
        * apply Nat.ltb_ge in Ej. rewrite (loop_end _ _ Ej). simpl app. cbv beta iota.
          rewrite gsrun_S. change (gsstep h CT lv1) with (Some (h, [IS (SReturn EOut); KRet], lv1)).
          cbv beta iota.
          rewrite gsrun_S. change (gsstep h [IS (SReturn EOut); KRet] lv1) with (Some (h, [KRet], set_ret lv1 ROut)).
          cbv beta iota. rewrite gsrun_visible by reflexivity.
          eexists. eexists. split; [reflexivity|]. split; [reflexivity|]. apply SB_K3. reflexivity. }
      assert (Fin : forall k' lv' st0, visible_head (k', lv') = true ->
                match (h, k', lv') with (h', [], _) => gsettle h' st0 | (h', k'', lv'') => (h', (k'', lv'') :: st0) end
                = (h, (k', lv') :: st0)).
      { intros k' lv' st0 Hv'. destruct k'; [discriminate Hv'|reflexivity]. }
      destruct Hs as [ |i lv Hi Hx Hf|i lv Hi Hx Hf|lv|j lv|lv Hr|  |b lv Hr]; try discriminate Hv.
      * (* the loop statement: its head *)
        destruct (KF 28 0 lv) as (k' & lv' & E & Hv' & Hs').
        exists [(k', lv')]. rewrite gsettle_cons. unfold FUEL. rewrite gsrun_S.
        change (gsstep h (IS (SForInputs LB) :: CT) lv) with (Some (h, KFor 0 LB :: CT, lv)).
        cbv beta iota. rewrite E. rewrite (Fin _ _ _ Hv'). split; [reflexivity|]. split; [apply RT_bot; exact Hs'|exact Hv'].
      * destruct (KF 29 j lv) as (k' & lv' & E & Hv' & Hs').
        exists [(k', lv')]. rewrite gsettle_cons. unfold FUEL. rewrite E. rewrite (Fin _ _ _ Hv').
        split; [reflexivity|]. split; [apply RT_bot; exact Hs'|exact Hv'].
  - destruct IH as (st1 & E1 & R1 & T1).
    destruct (visible_head fr) eqn:Hv.
    + exists (fr :: st). rewrite (visible_settle _ _ _ Hv). split; [reflexivity|].
      rewrite (R_thr_norm cs _ (fr :: st) (RT_cb _ _ _ _ _ Hs Hr) Hv). split; [apply RT_cb; assumption|exact Hv].
    + destruct Hs as [i lv Hx|i lv Hx|lv|lv|lv|lv|lv|i d Hk Hd|i d Hk Hd|i d Hk Hd|i d Hk Hd|i d Hk Hd|i d Hk Hd|d lv k Hd Hf Ht Hl];
        try discriminate Hv.
      * (* notify_cancel: entering the try-block *)
        rewrite gsettle_cons. simpl.
        eexists. split; [reflexivity|]. split; [|reflexivity].
        apply (RT_cb cs [ISrncOut]); [apply SC_N1|exact Hr].
      * (* leaving the try-block, then the frame *)
        rewrite gsettle_cons. simpl. exists st1. split; [exact E1|]. split; [exact R1|exact T1].
      * rewrite gsettle_cons. simpl. exists st1. split; [exact E1|]. split; [exact R1|exact T1].
      * (* handle_done (bool) entered: its three assignments *)
        rewrite gsettle_cons. simpl.
        eexists. split; [reflexivity|]. split; [|reflexivity].
        apply (RT_cb cs [IAcqL i d]); [apply SC_HB0; assumption|exact Hr].
      * rewrite gsettle_cons. simpl.
        eexists. split; [reflexivity|]. split; [|reflexivity].
        apply (RT_cb cs [IAcqL i d]); [apply SC_HZ0; assumption|exact Hr].
      * (* a tail *)
        destruct (tail_srun (oc_of cs d) h FUEL k lv Ht ltac:(unfold FUEL; lia)) as (k' & E & Et & Hk' & Hlen & Hvis).
        rewrite gsettle_cons, E, <- Et.
        destruct Hvis as [->|Hvis].
        -- simpl. exists st1. split; [exact E1|]. split; [exact R1|exact T1].
        -- destruct k' as [|it k']; [discriminate Hvis|].
           exists ((it :: k', lv) :: st). split; [reflexivity|].
           assert (Hseg : segc cs (tail_instrs (oc_of cs d) lv (it :: k')) (it :: k', lv)) by (apply SC_T; auto; lia).
           rewrite (R_thr_norm cs _ _ (RT_cb _ _ _ _ _ Hseg Hr) Hvis).
           split; [apply RT_cb; assumption|exact Hvis].
Qed.

(* ---- callbacks ------------------------------------------------------------------------------------------ *)
Lemma R_in_fires cs d : fdone (es cs d) = true -> forall l X stX, R_thr cs X stX ->
  R_thr cs (flat_map (fun i => [IAcqL i d; ICatch]) l ++ X)
        (map (gframe_of (ck cs)) (map (fun i => CloHandle i d) l) ++ stX).
Proof.
  intros Hd l X stX HX. induction l as [|i l IH]; [exact HX|].
  simpl. apply (RT_cb cs [IAcqL i d]); [|exact IH].
  destruct (ck cs) eqn:Ek.
  - apply SC_HB0r; [rewrite Ek; discriminate|exact Hd].
  - apply SC_HB0r; [rewrite Ek; discriminate|exact Hd].
  - apply SC_HZ0r; [exact Ek|exact Hd].
Qed.

Lemma R_out_fires cs kd : forall l X stX, R_thr cs X stX ->
  R_thr cs (flat_map (fun i => if Nat.eqb i notify_id then [INotifyQ; ICatch] else [IOutCancelledQ i; ICatch]) l ++ X)
        (map (gframe_of kd) (map (fun i => if Nat.eqb i notify_id then CloNotify else CloChain i) l) ++ stX).
Proof.
  intros l X stX HX. induction l as [|i l IH]; [exact HX|].
  simpl. destruct (Nat.eqb i notify_id).
  - apply (RT_cb cs [INotifyQ]); [apply SC_N0|exact IH].
  - apply (RT_cb cs [IOutCancelledQ i]); [apply SC_C0; reflexivity|exact IH].
Qed.

(* ---- re-assembling the relation after a step of thread t ------------------------------------------------- *)
Lemma assemble (thr_i : nat -> list frame) cs cs' h' t p' st' :
  Rcore h' cs' -> built cs' = true -> fsd_rel h' cs' -> rem_rel h' cs' ->
  thr cs' = upd (thr cs) t (norm false p') ->
  stable cs cs' ->
  (forall u, TR cs (thr cs u) (thr_i u)) ->
  R_thr cs' p' st' ->
  R (resume bool_init_prog zip_init_prog h' thr_i t st') cs'.
Proof.
  intros Hc Hb Hf Hr Ht Hs Hall Hp.
  destruct (settle_norm cs' h' (rc_inputs _ _ Hc) p' st' Hp) as (st2 & E & R2' & T2).
  unfold resume. change (settle bool_init_prog zip_init_prog h' st') with (gsettle h' st'). rewrite E.
  split; [exact Hc|]. right. right. split; [exact Hb|]. split; [exact Hf|]. split; [exact Hr|].
  intros u. simpl. rewrite Ht. unfold upd. destruct (Nat.eqb u t).
  - split; assumption.
  - destruct (Hall u) as [Hu Tu]. split; [eapply R_thr_stable; eassumption|exact Tu].
Qed.
