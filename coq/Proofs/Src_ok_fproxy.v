(* source facts of more_executors/_impl/futures/proxy.py: what the translator finds now is what the models were written against *)
From Coq Require Import List String.
From ME Require Import Gen.Src_fproxy Model.SrcExpected.
Lemma src_fproxy_ok : Src_fproxy.facts = expected_fproxy.
Proof. reflexivity. Qed.
