(* Every wait on the shared event is bounded: 2 <= timeout <= 30 (the hand-over thread re-checks a dynamic
   count after 30 s at the latest, after 2 s when nothing was running). *)
From Coq Require Import ZArith List Bool Arith Lia.
From RecordUpdate Require Import RecordSet.
From ME Require Import Base.Machine Base.Fut Base.GenPrelude Gen.ThrottleGen Model.Throttle
  Proofs.Throttle_Spec Proofs.Throttle_Inv.
Import ListNotations RecordSetNotations.
Local Open Scope Z_scope.

Definition wok (i : instr) : bool := match i with IWait tau _ => Z.leb 2 tau && Z.leb tau 30 | _ => true end.
Definition wokp (p : list instr) : bool := forallb wok p.
Definition hw_ok (h : hev) : Prop := match h with HHWait tau _ _ => 2 <= tau <= 30 | _ => True end.

Record InvT (s : st) : Prop := {
  t_prog : forall t, wokp (thr s t) = true;
  t_hist : Forall hw_ok (hist s)
}.

Lemma wokp_app p q : wokp (p ++ q) = wokp p && wokp q.
Proof. apply forallb_app. Qed.
Lemma wokp_norm s p : wokp p = true -> wokp (norm s p) = true.
Proof.
  destruct p as [|i r]; [auto|]. destruct i; auto. simpl. intros Hx.
  destruct (qu s); [exact Hx|]. destruct (hlim s); exact Hx.
Qed.
Lemma wokp_map_dsubmit l : wokp (map IDSubmit l) = true.
Proof. induction l; simpl; auto. Qed.
Lemma wokp_cb_prog d l : wokp (flat_map (cb_prog d) l) = true.
Proof. induction l as [|c l IH]; [reflexivity|]. simpl. rewrite wokp_app, IH. destruct c; reflexivity. Qed.
Lemma wokp_cb_prog_held d l : wokp (flat_map (cb_prog_held d) l) = true.
Proof. induction l as [|c l IH]; [reflexivity|]. simpl. rewrite wokp_app, IH. destruct c; reflexivity. Qed.
Lemma wokp_setres j o : wokp (setres_prog j o) = true.
Proof. destruct o; reflexivity. Qed.
Lemma wok_loop_wait x k : wok (IWait (loop_wait x) k) = true.
Proof. simpl. pose proof (loop_wait_le x). apply andb_true_intro. split; apply Z.leb_le; lia. Qed.

Lemma wokp_cons_lw x k r : wokp (IWait (loop_wait x) k :: r) = wokp r.
Proof. change (wokp (IWait (loop_wait x) k :: r)) with (wok (IWait (loop_wait x) k) && wokp r). rewrite wok_loop_wait. reflexivity. Qed.

Lemma invT_log s h : InvT s -> hw_ok h -> InvT (log s h).
Proof. intros [T1 T2] Hh. constructor; simpl; auto. Qed.
Lemma invT_set s s1 t p :
  InvT s -> Forall hw_ok (hist s1) -> thr s1 = thr s -> wokp p = true -> InvT (set_prog s1 t p).
Proof.
  intros [T1 T2] Hh Ht Hp. unfold set_prog. constructor; simpl; [|exact Hh].
  intros u. rewrite Ht. destruct (Nat.eq_dec u t) as [->|Hn]; [rewrite upd_same; apply wokp_norm; exact Hp|].
  rewrite upd_other by exact Hn. apply T1.
Qed.
Lemma invT_sub_check s s1 t v rest :
  InvT s -> Forall hw_ok (hist s1) -> thr s1 = thr s -> wokp rest = true -> InvT (sub_check s1 t v rest).
Proof.
  intros IT Hh Ht Hp. unfold sub_check.
  destruct (blk s1 && negb (shut s1)); [destruct (block_ready (qlen s1) v) as [[|]|]|];
    repeat (apply invT_log; [|exact Logic.I]); apply (invT_set s); auto; simpl; rewrite ?wokp_app, ?Hp; reflexivity.
Qed.
Lemma invT_after_wait s s1 t k rest :
  InvT s -> Forall hw_ok (hist s1) -> thr s1 = thr s -> wokp rest = true -> InvT (after_wait s1 t k rest).
Proof. intros IT Hh Ht Hp. destruct k; simpl; [apply (invT_set s)|apply (invT_sub_check s)]; auto. Qed.
Lemma invT_start_iter s s1 t : InvT s -> Forall hw_ok (hist s1) -> thr s1 = thr s -> InvT (start_iter s1 t).
Proof.
  intros IT Hh Ht. unfold start_iter. destruct (shut s1); [|destruct (dyn s1)]; apply (invT_set s); auto.
Qed.

Ltac wok_goal IT :=
  let Hs := fresh "Hs" in
  match goal with Et : thr _ ?t = _ :: _ |- _ => pose proof (t_prog _ IT t) as Hs; rewrite Et in Hs end;
  simpl in Hs;
  repeat match type of Hs with _ && _ = true => let A := fresh "Ha" in apply andb_prop in Hs; destruct Hs as [A Hs] end;
  rewrite ?wokp_cons_lw; simpl; rewrite ?wokp_app, ?wokp_map_dsubmit, ?wokp_cb_prog, ?wokp_cb_prog_held, ?wokp_setres, ?wok_loop_wait; simpl;
  rewrite ?wokp_app, ?wokp_setres, ?Hs; reflexivity.
Ltac thist_goal IT := simpl; repeat (constructor; [exact Logic.I|]); exact (t_hist _ IT).
Ltac tside IT := first [ exact IT | reflexivity | thist_goal IT | wok_goal IT ].
Ltac tfin IT s :=
  repeat match goal with |- InvT (log _ _) => apply invT_log; [|exact Logic.I] end;
  first [ apply (invT_set s) | apply (invT_sub_check s) | apply (invT_after_wait s) | apply (invT_start_iter s) ]; tside IT.
Ltac thandler IT Hx s := brk Hx; inv_some Hx; tfin IT s.
Lemma do_hstart_invT s  s' : InvT s -> do_hstart s  = Some s' -> InvT s'.
Proof. intros IT Hx. unfold do_hstart in Hx. thandler IT Hx s. Qed.
Lemma do_exit_invT s  s' : InvT s -> do_exit s  = Some s' -> InvT s'.
Proof. intros IT Hx. unfold do_exit in Hx. thandler IT Hx s. Qed.
Lemma do_call_submit_invT s t s' : InvT s -> do_call_submit s t = Some s' -> InvT s'.
Proof. intros IT Hx. unfold do_call_submit in Hx. thandler IT Hx s. Qed.
Lemma do_call_cancel_invT s t j s' : InvT s -> do_call_cancel s t j = Some s' -> InvT s'.
Proof. intros IT Hx. unfold do_call_cancel in Hx. thandler IT Hx s. Qed.
Lemma do_call_shutdown_invT s t w s' : InvT s -> do_call_shutdown s t w = Some s' -> InvT s'.
Proof. intros IT Hx. unfold do_call_shutdown in Hx. thandler IT Hx s. Qed.
Lemma do_ret_invT s t c s' : InvT s -> do_ret s t c = Some s' -> InvT s'.
Proof. intros IT Hx. unfold do_ret in Hx. thandler IT Hx s. Qed.
Lemma do_acq_g_invT s t s' : InvT s -> do_acq_g s t = Some s' -> InvT s'.
Proof. intros IT Hx. unfold do_acq_g in Hx. thandler IT Hx s. Qed.
Lemma do_rel_g_invT s t s' : InvT s -> do_rel_g s t = Some s' -> InvT s'.
Proof. intros IT Hx. unfold do_rel_g in Hx. thandler IT Hx s. Qed.
Lemma do_count_invT s t a s' : InvT s -> do_count s t a = Some s' -> InvT s'.
Proof. intros IT Hx. unfold do_count in Hx. thandler IT Hx s. Qed.
Lemma do_xsec_invT s t s' : InvT s -> do_xsec s t = Some s' -> InvT s'.
Proof. intros IT Hx. unfold do_xsec in Hx. thandler IT Hx s. Qed.
Lemma do_xacq_invT s t s' : InvT s -> do_xacq s t = Some s' -> InvT s'.
Proof. intros IT Hx. unfold do_xacq in Hx. thandler IT Hx s. Qed.
Lemma do_relx_invT s t s' : InvT s -> do_relx s t = Some s' -> InvT s'.
Proof. intros IT Hx. unfold do_relx in Hx. thandler IT Hx s. Qed.
Lemma do_rcread_invT s t x s' : InvT s -> do_rcread s t x = Some s' -> InvT s'.
Proof. intros IT Hx. unfold do_rcread in Hx. thandler IT Hx s. Qed.
Lemma do_pop_invT s t s' : InvT s -> do_pop s t = Some s' -> InvT s'.
Proof. intros IT Hx. unfold do_pop in Hx. thandler IT Hx s. Qed.
Lemma do_acq_a_invT s t s' : InvT s -> do_acq_a s t = Some s' -> InvT s'.
Proof. intros IT Hx. unfold do_acq_a in Hx. thandler IT Hx s. Qed.
Lemma do_rel_a_invT s t s' : InvT s -> do_rel_a s t = Some s' -> InvT s'.
Proof. intros IT Hx. unfold do_rel_a in Hx. thandler IT Hx s. Qed.
Lemma do_evset_invT s t s' : InvT s -> do_evset s t = Some s' -> InvT s'.
Proof. intros IT Hx. unfold do_evset in Hx. thandler IT Hx s. Qed.
Lemma do_clear_invT s t s' : InvT s -> do_clear s t = Some s' -> InvT s'.
Proof. intros IT Hx. unfold do_clear in Hx. thandler IT Hx s. Qed.
Lemma do_dsubmit_invT s t d i s' : InvT s -> do_dsubmit s t d i = Some s' -> InvT s'.
Proof. intros IT Hx. unfold do_dsubmit in Hx. thandler IT Hx s. Qed.
Lemma do_dshutdown_invT s t s' : InvT s -> do_dshutdown s t = Some s' -> InvT s'.
Proof. intros IT Hx. unfold do_dshutdown in Hx. thandler IT Hx s. Qed.
Lemma do_acq_m_invT s t j s' : InvT s -> do_acq_m s t j = Some s' -> InvT s'.
Proof. intros IT Hx. unfold do_acq_m in Hx. thandler IT Hx s. Qed.
Lemma do_rel_m_invT s t j s' : InvT s -> do_rel_m s t j = Some s' -> InvT s'.
Proof. intros IT Hx. unfold do_rel_m in Hx. thandler IT Hx s. Qed.
Lemma do_fm_invT s t op j p s' : InvT s -> do_fm s t op j p = Some s' -> InvT s'.
Proof. intros IT Hx. unfold do_fm in Hx. thandler IT Hx s. Qed.
Lemma do_woke_invT s t k s' : InvT s -> do_woke s t k = Some s' -> InvT s'.
Proof. intros IT Hx. unfold do_woke in Hx. thandler IT Hx s. Qed.
Lemma do_new_invT s b dy v s' : InvT s -> do_new s b dy v = Some s' -> InvT s'.
Proof.
  intros [T1 T2] Hx. unfold do_new in Hx. brk Hx. inv_some Hx. constructor; simpl; auto.
  intros u. destruct (Nat.eq_dec u H) as [->|Hn]; [rewrite upd_same; reflexivity|rewrite upd_other by exact Hn; apply T1].
Qed.
Lemma do_env_run_invT s t d p s' : InvT s -> do_env_run s t d p = Some s' -> InvT s'.
Proof. intros [T1 T2] Hx. unfold do_env_run in Hx. brk Hx; inv_some Hx; constructor; simpl; auto. Qed.
Lemma do_env_finish_invT s t d p o s' : InvT s -> do_env_finish s t d p o = Some s' -> InvT s'.
Proof.
  intros IT Hx. unfold do_env_finish in Hx. brk Hx; inv_some Hx; auto.
  apply invT_log; [|exact Logic.I]. apply (invT_set s); try tside IT. apply wokp_cb_prog.
Qed.
Lemma do_fd_invT s t op d p s' : InvT s -> do_fd s t op d p = Some s' -> InvT s'.
Proof.
  intros IT Hx. unfold do_fd in Hx. brk Hx; inv_some Hx; try solve [tfin IT s].
  apply invT_log; [|exact Logic.I].
  match goal with |- InvT (set_prog (clear_del ?x ?l) _ _) => destruct (clear_del_frame l x) as [A [B _]] end.
  apply (invT_set s); [exact IT|rewrite B; simpl; exact (t_hist _ IT)|rewrite A; reflexivity|wok_goal IT].
Qed.
Lemma do_wait_invT s t r s' : InvT s -> do_wait s t r = Some s' -> InvT s'.
Proof.
  intros IT Hx. unfold do_wait in Hx.
  destruct (thr s t) as [|i rest] eqn:Et; [discriminate|]. destruct i; try discriminate.
  pose proof (t_prog _ IT t) as Hs. rewrite Et in Hs. simpl in Hs.
  apply andb_prop in Hs. destruct Hs as [Hw Hs]. apply andb_prop in Hw. destruct Hw as [Hw1 Hw2].
  apply Z.leb_le in Hw1, Hw2.
  destruct (negb (waiter_ok t k)); [discriminate|].
  destruct r as [|r]; destruct (eflag s); try discriminate; inv_some Hx.
  - apply (invT_after_wait s); auto. exact (t_hist _ IT).
  - destruct k; (apply invT_log; [|simpl; auto]); apply (invT_set s); auto; try exact (t_hist _ IT).
Qed.

Lemma step0_invT s e s' : InvT s -> step0 s e = Some s' -> InvT s'.
Proof.
  intros IT Hx. destruct e; cbn [step0] in Hx;
  [ eapply do_new_invT | eapply do_hstart_invT | eapply do_exit_invT | eapply do_call_submit_invT
  | eapply do_call_cancel_invT | eapply do_call_shutdown_invT | eapply do_ret_invT | eapply do_acq_g_invT
  | eapply do_rel_g_invT | eapply do_count_invT | eapply do_xsec_invT | eapply do_xacq_invT | eapply do_relx_invT
  | eapply do_rcread_invT | eapply do_pop_invT | eapply do_acq_a_invT | eapply do_rel_a_invT | eapply do_evset_invT
  | eapply do_wait_invT | eapply do_woke_invT | eapply do_clear_invT | eapply do_dsubmit_invT | eapply do_dshutdown_invT
  | eapply do_acq_m_invT | eapply do_rel_m_invT | eapply do_fm_invT | eapply do_fd_invT | eapply do_env_run_invT
  | eapply do_env_finish_invT ]; eassumption.
Qed.

Lemma invT_reachable s : reachable_from step init s -> InvT s.
Proof.
  apply invariant_rule; [constructor; simpl; auto|].
  intros s0 [ts e] s' IT Hx. unfold step in Hx. simpl in Hx.
  destruct (tick s0 ts) as [s1|] eqn:Et; [|discriminate].
  eapply step0_invT; [|exact Hx].
  unfold tick in Et. destruct (Z.leb (clock s0) ts); inv_some Et. destruct IT as [T1 T2]. constructor; simpl; auto.
Qed.

Lemma recheck_bound_lemma s : reachable_from step init s ->
  forall tau run ts, In (HHWait tau run ts) (hist s) -> 2 <= tau <= 30.
Proof.
  intros Hr tau run ts Hin. pose proof (t_hist _ (invT_reachable s Hr)) as Hh. rewrite Forall_forall in Hh. exact (Hh _ Hin).
Qed.
