(* Specification lemmas about the kernels regenerated from futures/bool.py and futures/zip.py. *)
From Coq Require Import List ZArith Bool Lia.
From ME Require Import Base.GenPrelude Gen.BoolGen Gen.ZipGen.
Import ListNotations.

Definition truthy_view (v : fview) : bool := negb (v_cancelled v) && negb (v_failed v) && v_truthy v.
Definition falsy_view (v : fview) : bool := v_cancelled v || v_failed v || negb (v_truthy v).

(* OrOperation.get_state_update: decides iff this was the last input or it finished truthy; then
   result / exception / cancellation mirror the input, and every remaining input is to be cancelled
   (plus the output itself when the deciding input was cancelled) *)
Lemma or_update_spec fs out f :
  or_update fs out f =
  if isnil fs || truthy_view f then
    (true, negb (v_cancelled f) && negb (v_failed f), negb (v_cancelled f) && v_failed f,
     if v_cancelled f then fs ++ [out] else fs)
  else (false, false, false, []).
Proof.
  unfold or_update, truthy_view. destruct fs as [|x r]; destruct (v_cancelled f), (v_failed f), (v_truthy f); reflexivity.
Qed.

Lemma and_update_spec fs out f :
  and_update fs out f =
  if falsy_view f || isnil fs then
    (true, negb (v_cancelled f) && negb (v_failed f), negb (v_cancelled f) && v_failed f,
     if v_cancelled f then fs ++ [out] else fs)
  else (false, false, false, []).
Proof.
  unfold and_update, falsy_view. destruct fs as [|x r]; destruct (v_cancelled f), (v_failed f), (v_truthy f); reflexivity.
Qed.

(* Zipper.handle_done under the lock *)
Lemma zip_update_spec done remaining f :
  zip_update done remaining f =
  if done then (true, remaining, false, false, false, false)
  else if v_cancelled f then (true, remaining, false, false, false, true)
  else if v_failed f then (true, remaining, false, false, true, false)
  else if Z.eqb (remaining - 1) 0 then (true, (remaining - 1)%Z, true, true, false, false)
  else (false, (remaining - 1)%Z, true, false, false, false).
Proof.
  unfold zip_update. destruct done, (v_cancelled f), (v_failed f); try reflexivity.
Qed.

Lemma tuple_classes_20 : tuple_classes = 20%Z.
Proof. reflexivity. Qed.
