(* C17 / Proxy2: the instrumented dispatch erases to Model/Proxy.v's dispatch; `self.__result`; argument binding. *)
From Coq Require Import String List Bool Arith ZArith.
From ME Require Import Base.GenPrelude Base.ProxyPrelude Gen.ProxyGen Gen.Proxy2Gen Model.Proxy Model.Proxy2.
Import ListNotations.
Local Open Scope string_scope.
Local Open Scope list_scope.

Section Erase.
  Variable val : Type.
  Variable cmeth : val -> string -> option (list val -> cres val).
  Notation em := (emeth val cmeth).

  Lemma erase_reflected rop a b : fst (creflected val cmeth rop a b) = reflected val em rop a b.
  Proof. unfold creflected, reflected, emeth. destruct (cmeth b rop) as [g|]; simpl; [destruct (fst (g [a]))|]; reflexivity. Qed.
  Lemma erase_binop op rop a b : fst (cbinop val cmeth op rop a b) = binop val em op rop a b.
  Proof.
    unfold cbinop, binop. unfold emeth at 1. destruct (cmeth a op) as [f|]; [|apply erase_reflected].
    destruct (fst (f [b])) eqn:E; simpl; try reflexivity. apply erase_reflected.
  Qed.
  Lemma erase_unop op a : fst (cunop val cmeth op a) = unop val em op a.
  Proof. unfold cunop, unop, emeth. destruct (cmeth a op) as [f|]; simpl; [destruct (fst (f []))|]; reflexivity. Qed.
  Lemma erase_method_call name a args : fst (cmethod_call val cmeth name a args) = method_call val em name a args.
  Proof. unfold cmethod_call, method_call, emeth. destruct (cmeth a name); reflexivity. Qed.

  Lemma cbinop_never_notimpl op rop a b : fst (cbinop val cmeth op rop a b) <> RNotImpl.
  Proof. rewrite erase_binop. apply binop_never_notimpl. Qed.
  Lemma cunop_never_notimpl op a : fst (cunop val cmeth op a) <> RNotImpl.
  Proof. rewrite erase_unop. apply unop_never_notimpl. Qed.
End Erase.

Section Result.
  Variable val : Type.
  Variable fs : pstate val.
  Variable tmo : tval.
  Variable is_attr_err : nat -> bool.
  Variable vgetattr : val -> string -> cres val.
  Variable vnone : val.
  Notation getres := (get_result val fs tmo is_attr_err vgetattr vnone).

  (* TimeoutError is not an AttributeError (and the pseudo-outcome "never returns" is no exception at all) *)
  Definition sane_attr_err : Prop := is_attr_err timeout_error = false /\ is_attr_err never_returns = false.

  (* with the guard the source has, `self.__result` is one result() call whatever the outcome -- also for a future that failed
     with an AttributeError (the property's AttributeError sends Python to __getattr__("_ProxyFuture__result"), whose first
     statement re-raises the future's own exception) *)
  Lemma get_result_eq : sane_attr_err -> getres = (resolve val fs tmo, [tmo]).
  Proof.
    intros [H1 H2]. unfold get_result, fuel0. simpl result_prop.
    destruct fs as [v|e|]; simpl.
    - reflexivity.
    - destruct (is_attr_err e); reflexivity.
    - destruct tmo; simpl; [rewrite H2|rewrite H1]; reflexivity.
  Qed.
  Lemma bind1_get_result (k : val -> cres val) : sane_attr_err -> bind1 val getres k = after_resolve val fs tmo k.
  Proof.
    intros S. rewrite (get_result_eq S). unfold bind1, after_resolve; simpl. destruct (resolve val fs tmo); reflexivity.
  Qed.
  Lemma get_result_not_notimpl : sane_attr_err -> fst getres <> RNotImpl.
  Proof. intros S. rewrite (get_result_eq S); simpl. destruct fs as [v|e|]; simpl; try discriminate. destruct tmo; discriminate. Qed.

  (* WITHOUT the first statement of __getattr__ the same situation never terminates: every level of the recursion performs
     one more result() call until the interpreter's limit is hit *)
  Definition getattr_body_without_guard : list gstmt := [GIfPrefixRaiseAttributeError "__"; GReturnGetattrResult].
  Lemma result_prop_unguarded_loops e : fs = PFailed e -> is_attr_err e = true -> forall fuel,
    result_prop val fs tmo is_attr_err vgetattr vnone getattr_body_without_guard fuel = (RExc recursion_error, repeat tmo (S fuel)).
  Proof.
    intros -> He fuel. induction fuel as [|f IH].
    - simpl. rewrite He. reflexivity.
    - simpl result_prop. simpl resolve. rewrite He. rewrite IH. simpl. reflexivity.
  Qed.
End Result.

Section Bind.
  Variable val : Type.
  Lemma mem_false_neq n l : mem n l = false -> forall m, In m l -> String.eqb m n = false.
  Proof.
    unfold mem. intros H m Hm. destruct (String.eqb m n) eqn:E; [|reflexivity].
    apply String.eqb_eq in E; subst. exfalso.
    assert (existsb (String.eqb n) l = true) as X by (apply existsb_exists; exists n; split; [exact Hm|apply String.eqb_refl]).
    congruence.
  Qed.

  (* the argument expressions `a, b, *c` of a call, evaluated in the frame of a method called with args, are args *)
  Lemma eval_args_params (ev : bexp -> cres val) : forall params args (en : env val),
    nodup_names (map fst params) = true -> arity_ok val params args = true ->
    (forall q, In q params -> en (fst q) = bind val params args (fst q)) ->
    (forall n, ev (BArg n) = (match en n with v :: _ => RVal v | [] => RExc type_error end, [])) ->
    eval_args_with val en ev (args_of_params params) = (inl args, []).
  Proof.
    induction params as [|[n st] r IH]; intros args en ND AR EN EV.
    - destruct args; [reflexivity|discriminate].
    - simpl in ND. apply andb_prop in ND. destruct ND as [ND1 ND2]. apply negb_true_iff in ND1.
      destruct st.
      + simpl in AR. destruct r; [|discriminate]. simpl.
        pose proof (EN (n, true) (or_introl eq_refl)) as E1. simpl in E1. rewrite String.eqb_refl in E1.
        rewrite E1, app_nil_r. reflexivity.
      + destruct args as [|a ar]; [discriminate|]. simpl in AR. simpl args_of_params.
        change (eval_args_with val en ev (BArg n :: args_of_params r)) with
          (match fst (ev (BArg n)) with
           | RVal v => match eval_args_with val en ev (args_of_params r) with
                       | (inl vs, lg) => (inl (v :: vs), snd (ev (BArg n)) ++ lg)
                       | (inr x, lg) => (inr x, snd (ev (BArg n)) ++ lg) end
           | x => (inr x, snd (ev (BArg n))) end).
        pose proof (EN (n, false) (or_introl eq_refl)) as E1. simpl in E1. rewrite String.eqb_refl in E1.
        rewrite EV. rewrite E1. simpl.
        rewrite (IH ar en ND2 AR); [reflexivity| |exact EV].
        intros q Hq. rewrite (EN q (or_intror Hq)). simpl.
        rewrite (mem_false_neq _ _ ND1 (fst q)); [reflexivity|]. apply in_map; exact Hq.
  Qed.
End Bind.
