(* source facts of more_executors/_impl/wrapped.py: what the translator finds now is what the models were written against *)
From Coq Require Import List String.
From ME Require Import Gen.Src_wrapped Model.SrcExpected.
Lemma src_wrapped_ok : Src_wrapped.facts = expected_wrapped.
Proof. reflexivity. Qed.
