(* C03 / C12 for the Retry machine, part 11: an in-flight record whose delegate future is finished (resp.
   cancelled) is being handled: the _delegate_callback chain is pending or running, or some thread will certainly
   pop the record. *)
From Coq Require Import List ZArith Bool Arith Lia.
From RecordUpdate Require Import RecordSet.
From ME Require Import Base.Machine Base.Fut Base.GenPrelude Gen.RetryGen Model.Retry Proofs.Retry_Spec.
From ME Require Proofs.Retry_InvA.
From ME Require Import Proofs.Retry_C0 Proofs.Retry_C1 Proofs.Retry_C2 Proofs.Retry_C3 Proofs.Retry_C4 Proofs.Retry_C5 Proofs.Retry_C6
  Proofs.Retry_C7 Proofs.Retry_C8 Proofs.Retry_C9 Proofs.Retry_C10 Proofs.Retry_C11 Proofs.Retry_C12 Proofs.Retry_N0 Proofs.Retry_N1
  Proofs.Retry_N2 Proofs.Retry_N3 Proofs.Retry_N10.
Import ListNotations RecordSetNotations.
#[local] Arguments norm : simpl nomatch.

Ltac substl H := match type of H with ?x = _ => subst x end.

Definition handled (s : st) (d r : nat) : Prop :=
  exists t, chainhd d r (thr s t) = true \/ wpop r false (thr s t) = true.

Lemma keep3r s e s' r d t0 : SI s -> step0 s e = Some s' ->
  In r (jobs s) -> jdel (recs s r) = Some d -> ds s d = Finished -> chainhd d r (thr s t0) = true ->
  In r (jobs s') -> handled s' d r.
Proof.
  intros HS H Hin Hjd Hfin Hch.
  assert (Hr : r < nrec s) by (apply (ri_jobs s (si_ri s HS)); exact Hin).
  pose proof (si_pi s HS) as HP.
  s0inv H.
  all: try (match goal with inl : option outcome |- _ => destruct inl end).
  all: bsplit; subst.
  all: intros Hin'.
  all: try (rewrite Hfin in *; simpl in *; discriminate).
  all: try (exists t0; left; assumption).
  all: match goal with Hq : thr _ ?t = _ |- _ => destruct (Nat.eq_dec t0 t) as [->|Nt];
         [rewrite Hq in Hch; simpl in Hch; try discriminate Hch
         |exists t0; left; unfold log, set_prog; simpl; rewrite (upd_other _ _ _ _ Nt); exact Hch] end.
  all: unfold handled, log, set_prog in Hin' |- *; simpl in Hin' |- *.
  - (* _retry by the chain itself: the record is gone *)
    apply eqb_t in Hch. substl Hch. exfalso. apply in_app_iff in Hin'. destruct Hin' as [X|[X|[]]]; [|lia].
    apply in_remove_id in X. destruct X as [_ X]. apply X. reflexivity.
  - exists n. left. rewrite upd_same. destruct l as [|[] l]; try discriminate Hch. simpl. exact Hch.
  - apply eqb_t in Hch. substl Hch. exists t. right. rewrite upd_same. simpl. rewrite Nat.eqb_refl. reflexivity.
  - exists n. left. rewrite upd_same. destruct l as [|[] l]; try discriminate Hch. simpl. exact Hch.
  - apply eqb_t in Hch. substl Hch. apply find_del_some in Heqo. destruct Heqo as [A B].
    assert (n0 = r) by (apply (si_inj s HS n0 r d); auto; apply (ri_jobs s (si_ri s HS)); exact A). subst n0.
    exists t. left. rewrite upd_same. simpl. rewrite !Nat.eqb_refl. reflexivity.
  - apply eqb_t in Hch. substl Hch. exfalso. exact (find_del_none s d Heqo r Hin Hjd).
  - apply andb_true_iff in Hch. destruct Hch as [A B]. apply eqb_t in A. substl A. rewrite Hfin in Heqb1. discriminate.
  - apply andb_true_iff in Hch. destruct Hch as [A B]. apply eqb_t in B. substl B.
    exists t. right. rewrite upd_same. simpl. rewrite Nat.eqb_refl. reflexivity.
  - apply andb_true_iff in Hch. destruct Hch as [A B]. apply eqb_t in B. substl B.
    exists t. left. rewrite upd_same. simpl. apply Nat.eqb_refl.
  - apply eqb_t in Hch. substl Hch. exists t. left. rewrite upd_same. simpl. apply Nat.eqb_refl.
  - apply eqb_t in Hch. substl Hch. rewrite Hfin in Heqb1. discriminate.
  - apply eqb_t in Hch. substl Hch. exists t. right. rewrite upd_same. simpl. rewrite Nat.eqb_refl. reflexivity.
  - apply eqb_t in Hch. substl Hch. exists t. left. rewrite upd_same. simpl. apply Nat.eqb_refl.
  - apply eqb_t in Hch. substl Hch. exists t. right. rewrite upd_same. simpl. rewrite Nat.eqb_refl. reflexivity.
  - apply eqb_t in Hch. substl Hch. exists t. left. rewrite upd_same. simpl. apply Nat.eqb_refl.
  - apply eqb_t in Hch. substl Hch. exists t. right. rewrite upd_same. simpl. rewrite Nat.eqb_refl. reflexivity.
Qed.

(* the delegate future has just finished: the chain starts here, or add_done_callback is still ahead *)
Lemma dfin_new s e s' d : AP s -> step0 s e = Some s' -> d < ndel s -> ds s' d = Finished -> ds s d <> Finished ->
  forall r, exists t, chainhd d r (thr s' t) = true.
Proof.
  intros HA H Hd. s0inv H; try tauto.
  all: try (match goal with inl : option outcome |- _ => destruct inl end).
  all: bsplit; subst.
  all: unfold log, set_prog; simpl; try tauto.
  all: intros Hf Hn r'.
  all: try (match type of Hf with upd _ ?d0 _ _ = _ =>
         destruct (Nat.eq_dec d d0) as [->|Nd]; [rewrite upd_same in Hf|rewrite (upd_other _ _ _ _ Nd) in Hf; tauto] end).
  1-2: (exfalso; match type of Heqp with f_cancel ?x = _ => destruct x; simpl in Heqp; inversion Heqp; subst; congruence end).
  1-2: lia.
  - exfalso. match type of Heqo with f_srnc ?x = _ => destruct x; simpl in Heqo; inversion Heqo; subst; discriminate end.
  - match goal with |- context[dcb ?s0 ?dd] => destruct (dcb s0 dd) eqn:Ec end.
    + exists t. rewrite upd_same. simpl. apply Nat.eqb_refl.
    + destruct (HA _ Hd Ec) as [u Hu].
      assert (Nu : u <> t) by (intros ->; rewrite Heql in Hu; discriminate Hu).
      exists u. rewrite (upd_other _ _ _ _ Nu). apply addhd_chainhd, Hu.
  - (* EEnvCancel makes the future cancelled, not finished *)
    exfalso. match type of Hf with fst (f_cancel ?x) = _ => destruct x; simpl in *; discriminate end.
Qed.

(* a record that enters the queue with a delegate future: delegate.submit() just returned; if the future is
   already finished (inline completion) the worker still has add_done_callback ahead; it is never cancelled *)
Lemma new_inflight s e s' d : step0 s e = Some s' -> In (nrec s) (jobs s') -> nrec s' = S (nrec s) ->
  jdel (recs s' (nrec s)) = Some d ->
  fcancelled (ds s' d) = false /\ (ds s' d = Finished -> exists t, chainhd d (nrec s) (thr s' t) = true).
Proof.
  intros H. s0inv H; try lia.
  all: try (match goal with inl : option outcome |- _ => destruct inl end).
  all: bsplit; subst.
  all: unfold log, set_prog; simpl; try lia.
  all: intros _ _; rewrite upd_same; simpl; intros E; try discriminate E; inversion E; subst; rewrite !upd_same.
  - split; [reflexivity|]. intros _. exists t. rewrite upd_same. simpl. apply Nat.eqb_refl.
  - split; [reflexivity|]. discriminate.
Qed.

(* the delegate future has just been cancelled: by RetryFuture.cancel(), which goes on to pop the record, or by
   somebody else (EEnvCancel) *)
Lemma dcan_new s e s' d : PI s -> step0 s e = Some s' -> d < ndel s -> fcancelled (ds s' d) = true ->
  fcancelled (ds s d) = false ->
  (exists t r, jdel (recs s r) = Some d /\ r < nrec s /\ wpop r false (thr s' t) = true) \/ envc s' d.
Proof.
  intros HP H Hd. s0inv H; try congruence.
  all: try (match goal with inl : option outcome |- _ => destruct inl end).
  all: bsplit; subst.
  all: try (match goal with Hq : thr _ ?t = ?i :: _ |- _ => pose proof (head_ipr _ t i _ HP Hq) as Hi; simpl in Hi end).
  all: unfold log, set_prog; simpl; try congruence.
  all: intros Hf Hn.
  all: try (match type of Hf with fcancelled (upd _ ?d0 _ _) = _ =>
         destruct (Nat.eq_dec d d0) as [->|Nd]; [rewrite upd_same in Hf|rewrite (upd_other _ _ _ _ Nd) in Hf; congruence] end).
  1-2: (left; destruct Hi as (A & B & _); exists t, r; split; [exact B|]; split; [exact A|];
        rewrite upd_same; simpl; rewrite Nat.eqb_refl; reflexivity).
  1-2: lia.
  - exfalso. match type of Heqo with f_srnc ?x = _ => destruct x; simpl in Heqo; inversion Heqo; subst; discriminate end.
  - exfalso. apply f_set_fin in Heqo0. subst f. discriminate Hf.
  - right. exists (clock s). left. reflexivity.
Qed.

Definition R3 (s : st) : Prop := forall r d, In r (jobs s) -> jdel (recs s r) = Some d -> ds s d = Finished -> handled s d r.
Definition R4 (s : st) : Prop := forall r d, In r (jobs s) -> jdel (recs s r) = Some d -> fcancelled (ds s d) = true ->
  (exists c, wpop r false (thr s c) = true) \/ envc s d.

Lemma R3_step0 s e s' : R3 s -> SI s -> MI s -> step0 s e = Some s' -> R3 s'.
Proof.
  intros HR HS HM H r d Hin Hjd Hfin.
  destruct (Retry_InvA.step_ext _ _ _ H) as (_ & _ & _ & Er & Ej & _).
  pose proof (si_pi s HS) as HP.
  destruct (Ej r Hin) as [Hin0|[-> En]].
  - assert (Hr : r < nrec s) by (apply (ri_jobs s (si_ri s HS)); exact Hin0).
    destruct (Er r Hr) as (_ & Ed & _). rewrite Ed in Hjd.
    assert (Hd : d < ndel s) by (apply (pi_del s HP r d Hr Hjd)).
    destruct (fstate_eqb (ds s d) Finished) eqn:Ef.
    + apply fstate_eqb_eq in Ef. destruct (HR r d Hin0 Hjd Ef) as [t0 [C|W]].
      * exact (keep3r s e s' r d t0 HS H Hin0 Hjd Ef C Hin).
      * destruct (wpop_step s e s' r t0 HM H W) as [W'|N]; [exists t0; right; exact W'|contradiction].
    + assert (Nf : ds s d <> Finished) by (intros X; rewrite X in Ef; discriminate Ef).
      destruct (dfin_new s e s' d (si_ap s HS) H Hd Hfin Nf r) as [t C]. exists t. left. exact C.
  - destruct (new_inflight s e s' d H Hin En Hjd) as [_ F]. destruct (F Hfin) as [t C]. exists t. left. exact C.
Qed.

Lemma R4_step0 s e s' : R4 s -> SI s -> MI s -> step0 s e = Some s' -> R4 s'.
Proof.
  intros HR HS HM H r d Hin Hjd Hc.
  destruct (Retry_InvA.step_ext _ _ _ H) as (_ & _ & _ & Er & Ej & _).
  pose proof (si_pi s HS) as HP.
  destruct (Ej r Hin) as [Hin0|[-> En]].
  - assert (Hr : r < nrec s) by (apply (ri_jobs s (si_ri s HS)); exact Hin0).
    destruct (Er r Hr) as (_ & Ed & _). rewrite Ed in Hjd.
    assert (Hd : d < ndel s) by (apply (pi_del s HP r d Hr Hjd)).
    destruct (fcancelled (ds s d)) eqn:Ec.
    + destruct (HR r d Hin0 Hjd Ec) as [[c W]|E]; [|right; eapply envc_step0; eassumption].
      destruct (wpop_step s e s' r c HM H W) as [W'|N]; [left; exists c; exact W'|contradiction].
    + destruct (dcan_new s e s' d HP H Hd Hc Ec) as [(t & r1 & A & B & W)|E]; [|right; exact E].
      assert (r1 = r) by (apply (si_inj s HS r1 r d); assumption). subst r1. left. exists t. exact W.
  - destruct (new_inflight s e s' d H Hin En Hjd) as [F _]. congruence.
Qed.

Lemma wpop_tick r b p : wpop r b p = wpop r b p. Proof. reflexivity. Qed.

Lemma R34_reach s : reachable_from step init s -> R3 s /\ R4 s.
Proof.
  apply (invariant_rule_r step (fun s => R3 s /\ R4 s)).
  - split; intros r d [].
  - intros s0 e s' R [I3 I4] H. apply step_split in H. destruct H as (s1 & Ht & H).
    apply tick_eq in Ht. subst s1.
    assert (HM : MI (s0 <| clock := fst e |>)) by (apply MI_tick, MI_reach, R).
    split; [eapply R3_step0|eapply R4_step0]; try exact H; try exact HM; try (apply SI_tick; exact R).
    + exact I3.
    + exact I4.
Qed.
