(* Layer E10 (C06): the _delegate field always names the delegate the future currently depends on;
   a forwarded cancel therefore goes to the CURRENT delegate. *)
From Coq Require Import ZArith List Bool Arith Lia.
From RecordUpdate Require Import RecordSet.
From ME Require Import Base.Machine Base.Fut Base.GenPrelude Model.MapFut Model.MapLaw Proofs.MapFut_InvD Proofs.MapFut_E1 Proofs.MapFut_E2 Proofs.MapFut_E3 Proofs.MapFut_E4 Proofs.MapFut_E7 Proofs.MapFut_E8 Proofs.MapFut_E9.
Import ListNotations RecordSetNotations.

(* instructions that witness a live delegate-resolution token of j *)
Definition tk (j : nat) (i : instr) : bool :=
  match i with IAddCbE _ j' | IAcqMSet j' _ _ => Nat.eqb j j' | _ => false end.

Lemma tk_cnt j : forall p i, shape3 p = true -> In i p -> tk j i = true -> cnt (wD j) p >= 1.
Proof.
  induction p as [|a r IH]; intros i S X T; [destruct X|].
  simpl in S. apply andb_prop in S. destruct S as [Sa Sr]. rewrite cnt_cons.
  destruct X as [->|X]; [|specialize (IH i Sr X T); lia].
  destruct i; simpl in T; try discriminate T; apply Nat.eqb_eq in T; subst.
  - simpl in Sa. destruct r as [|[] [|tok r']]; try discriminate Sa.
    apply andb_prop in Sa. destruct Sa as [_ St]. rewrite !cnt_cons.
    assert (W : wD j0 tok = true).
    { destruct x; [apply (isAdd_wD n); exact St|unfold wD; rewrite St; rewrite ?orb_true_r; reflexivity]. }
    rewrite W. lia.
  - unfold wD at 1. simpl. rewrite Nat.eqb_refl. simpl. lia.
Qed.
Lemma bv_tk j d i : bv j d i = true -> tk j i = true.
Proof.
  unfold bv. destruct i; simpl; try discriminate.
  - destruct x; simpl; [discriminate|auto].
  - intros H. rewrite orb_false_r in H. apply andb_prop in H. tauto.
Qed.

Lemma call_excludes s t j : Dloc s -> shape3_all s -> is_call s t j ->
  (forall t' i, In i (thr s t') -> tk j i = true -> False) /\ (forall d, ~ In j (ecbs s d)).
Proof.
  intros D S3 IC. destruct (call_unique _ _ _ D IC) as (U1 & U2 & U3). split.
  - intros t' i X T. destruct (Nat.eq_dec t' t) as [->|N].
    + destruct IC as (d & rest & IC). assert (E : exists hd, thr s t = hd :: rest /\ tk j hd = false) by (destruct IC as [E|E]; rewrite E; eauto).
      destruct E as (hd & E & TH). pose proof (S3 t) as Sh. rewrite E in Sh, X. apply shape3_cons in Sh.
      destruct X as [<-|X]; [congruence|]. pose proof (tk_cnt j _ _ Sh X T). specialize (U2 _ _ E). lia.
    + pose proof (tk_cnt j _ _ (S3 t') X T). specialize (U1 _ N). lia.
  - intros d X. pose proof (in_cnt_pos (Nat.eqb j) _ _ X (Nat.eqb_refl j)). specialize (U3 d). lia.
Qed.

(* a dependency survives a step as long as a token witness exists *)
Lemma tok_keep s e s0 j d : lstep s e = Some s0 -> Dloc s -> shape3_all s -> Vd s -> j < nfut s -> tokP s j d ->
  (mdel s j = Some d \/ exists t' i, In i (thr s t') /\ tk j i = true) -> tokP s0 j d.
Proof.
  intros H D S3 V L T W. eapply tokP_mono; eauto.
  destruct (lstep_ncall _ _ _ H) as [NC|(j0 & IC & NC)]; [apply NC|].
  rewrite NC. destruct (Nat.eqb j j0) eqn:Ej; [|reflexivity]. apply Nat.eqb_eq in Ej. subst j0. exfalso.
  destruct (call_excludes _ _ _ D S3 IC) as [X1 X2].
  destruct W as [M|(t' & i & Hi & Ti)]; [|eapply X1; eauto].
  destruct (V j d M) as [Y|[t' Y]]; [eapply X2; eauto|].
  apply existsb_exists in Y. destruct Y as (i & Hi & Bi). eapply X1; [exact Hi|eapply bv_tk; exact Bi].
Qed.

Definition okS (s : st) (i : instr) : Prop :=
  match i with IAcqMSet j (Some d) false => tokP s j d | _ => True end.
Record Ms (s : st) : Prop := {
  s_del : forall j d, j < nfut s -> mdel s j = Some d -> tokP s j d;
  s_thr : forall t, Forall (okS s) (thr s t)
}.

Lemma okS_fires s0 s d r : Forall (okS s0) r -> Forall (okS s0) (fires s d r).
Proof.
  intros H; unfold fires. induction (ecbs s d); simpl; auto.
  repeat (constructor; [exact I|]). exact IHl.
Qed.
Lemma okS_on_mapped s0 s j x r : Forall (okS s0) r -> Forall (okS s0) (on_mapped s j x ++ r).
Proof.
  intros H; unfold on_mapped. destruct (mkind s j), (mflat s j), x; simpl;
    repeat (constructor; [exact I|]); exact H.
Qed.
Lemma okS_cbs s0 j l r : Forall (okS s0) r -> Forall (okS s0) (map (fun c => IUserCb j c false) l ++ r).
Proof. intros H; induction l; simpl; auto. constructor; [exact I|exact IHl]. Qed.

Lemma lstep_fresh_mdel s e s0 : lstep s e = Some s0 -> forall j, nfut s <= j -> j < nfut s0 -> mdel s0 j = None.
Proof.
  intros H. step_cases H; intros j' L1 L2; simpl in *; try lia.
  assert (j' = nfut s) as -> by lia. apply upd_same.
Qed.

Lemma lstep_s_thr s e s0 : lstep s e = Some s0 -> Bnd s -> Dloc s -> shape3_all s -> Vd s -> Ms s ->
  forall t, Forall (okS s0) (thr s0 t).
Proof.
  intros H B D S3 V MS. pose proof (s_thr _ MS) as I1. pose proof (b_thr _ B) as B1.
  assert (M : forall t', Forall (okS s0) (thr s t')).
  { intros t'. apply Forall_forall. intros i Hi. specialize (I1 t'). specialize (B1 t'). rewrite Forall_forall in I1, B1.
    specialize (I1 i Hi). specialize (B1 i Hi). destruct i; simpl in *; auto. destruct x; auto. destruct flat; auto.
    eapply tok_keep; eauto. right. exists t', (IAcqMSet j (Some n) false). split; [exact Hi|simpl; apply Nat.eqb_refl]. }
  step_cases H; try exact M.
  all: match goal with E : thr _ ?t = _ |- _ => pose proof (M t) as It; rewrite E in It; try (inversion It; subst) end.
  all: simpl; apply Forall_upd; [exact M|].
  all: try (apply okS_on_mapped); try (apply okS_fires); try (apply okS_cbs).
  all: repeat (constructor; [first [exact I | assumption]|]); try assumption; try (constructor; fail).
  all: try (apply okS_on_mapped); try (apply Forall_tl); try assumption.
  constructor; [|repeat (constructor; [exact I|]); constructor].
  simpl. right. split; [|left; reflexivity]. unfold ncall. simpl. rewrite cnt_cons. simpl. apply (ncall_unborn s (nfut s) B). lia.
Qed.

Lemma lstep_s_del s e s0 : lstep s e = Some s0 -> Bnd s -> Dloc s -> shape3_all s -> Ol s -> Vd s -> Ms s ->
  forall j d, j < nfut s0 -> mdel s0 j = Some d -> tokP s0 j d.
Proof.
  intros H B D S3 O V MS j d L X.
  destruct (le_lt_dec (nfut s) j) as [L1|L1].
  { rewrite (lstep_fresh_mdel _ _ _ H j L1 L) in X. discriminate X. }
  destruct (lstep_mdel_cases _ _ _ H j) as [[E NG]|[(E1 & E2 & _)|(x & fl & r & E1 & E2 & E3)]].
  - rewrite E in X. eapply tok_keep; eauto. apply (s_del _ MS); assumption.
  - rewrite E2 in X. discriminate X.
  - rewrite E2 in X. subst x.
    assert (NC : ncall s0 j = ncall s j).
    { destruct (lstep_ncall _ _ _ H) as [NC|(j0 & (d1 & rest & IC) & _)]; [apply NC|]. rewrite E1 in IC. destruct IC; discriminate. }
    eapply tokP_mono; eauto.
    pose proof (s_thr _ MS (tid e)) as It. pose proof (o_thr _ O (tid e)) as Ot. rewrite E1 in It, Ot.
    inversion It; subst. inversion Ot; subst. destruct fl; simpl in *; [|assumption].
    match goal with A : exists _, _ |- _ => destruct A as (d1 & A1 & F) end. inversion A1; subst. left. exact F.
Qed.

Lemma okS_sil t s s' i : sil t s s' -> okS s i -> okS s' i.
Proof. intros H P. destruct i; simpl in *; auto. destruct x; auto. destruct flat; auto. eapply tokP_sil; eauto. Qed.

Lemma sil_ms t s s' : sil t s s' -> Ol s -> Ms s -> Ms s'.
Proof.
  intros H O [I1 I2]. destruct (sil_thr _ _ _ H) as (i & r & Et & Ho & Hr).
  constructor.
  - intros j d. rewrite (sil_nfut _ _ _ H). intros L X.
    destruct (sil_mdel_cases _ _ _ H j) as [[E NG]|(x & fl & r0 & E1 & E2 & E3)].
    + rewrite E in X. eapply tokP_sil; eauto.
    + rewrite E2 in X. subst x. eapply tokP_sil; eauto.
      pose proof (I2 t) as It. pose proof (o_thr _ O t) as Ot. rewrite E1 in It, Ot.
      inversion It; subst. inversion Ot; subst. destruct fl; simpl in *; [|assumption].
      match goal with A : exists _, _ |- _ => destruct A as (d1 & A1 & F) end. inversion A1; subst. left. exact F.
  - intros t'. destruct (Nat.eq_dec t' t) as [->|N].
    + pose proof (I2 t) as It. rewrite Et in It. inversion It; subst.
      assert (R : Forall (okS s') r) by (eapply Forall_impl; [|eassumption]; intros; eapply okS_sil; eauto).
      destruct Hr as [->|(j0 & -> & ->)]; [exact R|apply okS_cbs; exact R].
    + rewrite Ho by exact N. eapply Forall_impl; [|apply I2]. intros; eapply okS_sil; eauto.
Qed.

(* d is the delegate j CURRENTLY depends on, read off a history l *)
Definition curH (k : kind) (l : list hev) (j d : nat) : Prop :=
  (cnt (hcall j) l = 0 /\ In (HNew j d) l) \/
  (k = KFlat /\ exists d0, In (HFn j d0 (ARetFut d)) l \/ In (HEfn j d0 (ARetFut d)) l).
Lemma tokP_curH s j d : tokP s j d -> curH (mkind s j) (hist s) j d.
Proof.
  intros [F|[N X]]; [|left; split; assumption].
  destruct F as (K & d0 & din & _ & _ & _ & X). right. split; [exact K|]. exists d0. destruct din; destruct X as [_ X]; auto.
Qed.

Definition Ccur (s : st) : Prop := forall l1 j d b l2, hist s = l1 ++ HDCancel j d b :: l2 -> curH (mkind s j) l2 j d.

Lemma lstep_ccur s e s0 : lstep s e = Some s0 -> Bnd s -> Lk s -> Ms s -> Ccur s -> Ccur s0.
Proof.
  intros H B LK MS A. unfold Ccur in *. pose proof (l_del _ LK) as LD. pose proof (s_del _ MS) as SD. pose proof (b_thr _ B) as B1.
  step_cases H; try exact A.
  all: intros l1 j' d' b' l2 E; simpl in *; try (eapply A; eauto; fail).
  all: apply app_cons_split in E; destruct E as [(-> & E1 & <-)|(l1' & -> & E)]; try discriminate E1.
  all: try (eapply A; eauto; fail).
  - assert (L : j' < nfut s).
    { eapply (bnd_hist s (HDCancel j' d' b')); [exact B| |reflexivity]. rewrite E. apply in_or_app; right; left; reflexivity. }
    rewrite upd_other by lia. eapply A; eauto.
  - inversion E1; subst. apply tokP_curH. apply SD; [|eapply LD; eauto]. specialize (B1 t). rewrite Heql in B1. inversion B1; subst. exact H1.
  - inversion E1; subst. apply tokP_curH. apply SD; [|eapply LD; eauto]. specialize (B1 t). rewrite Heql in B1. inversion B1; subst. exact H1.
  - inversion E1; subst. apply tokP_curH. apply SD; [|eapply LD; eauto]. specialize (B1 t). rewrite Heql in B1. inversion B1; subst. exact H1.
  - inversion E1; subst. apply tokP_curH. apply SD; [|eapply LD; eauto]. specialize (B1 t). rewrite Heql in B1. inversion B1; subst. exact H1.
Qed.

Definition Inv12 (s : st) : Prop := Inv11 s /\ (Cpos s /\ Lk s /\ Ms s /\ Ccur s).
Lemma linv12 : linv Inv12.
Proof.
  apply linv_and; [apply linv11| | |].
  - split; [intros t; left; reflexivity|]. split; [constructor; simpl; intros; discriminate|].
    split; [constructor; simpl; intros; [discriminate|constructor]|]. intros l1 j d b l2 E. destruct l1; discriminate E.
  - intros s e s0 [[[[I6 _] _] [S3 _]] V] _ (CP & LK & MS & CC) H.
    pose proof (inv6_shape _ I6) as SH. pose proof (inv6_bnd _ I6) as B. pose proof (inv6_dloc _ I6) as D. pose proof (inv6_ol _ I6) as O.
    split; [eapply lstep_cpos; eauto|]. split; [eapply lstep_lk; eauto|]. split; [|eapply lstep_ccur; eauto].
    constructor; [eapply lstep_s_del; eauto|eapply lstep_s_thr; eauto].
  - intros t s s' [[[[I6 _] _] _] _] _ (CP & LK & MS & CC) H.
    split; [eapply sil_cpos; eauto|]. split; [eapply sil_lk; eauto|]. split; [eapply sil_ms; eauto; apply (inv6_ol _ I6)|].
    unfold Ccur. rewrite (sil_hist _ _ _ H), (sil_mkind _ _ _ H). exact CC.
Qed.
Lemma inv12_reach s : reachable s -> Inv12 s.
Proof. apply linv_reach; [apply linv12|]. intros s0 H; apply H. Qed.

Lemma mapfut_dcancel_on_current_delegate : forall s, reachable s -> forall l1 j d b l2,
  hist s = l1 ++ HDCancel j d b :: l2 -> curH (mkind s j) l2 j d.
Proof. intros s R. destruct (inv12_reach s R) as [_ (_ & _ & _ & C)]. exact C. Qed.

(* the _delegate field names the current dependency, in every reachable state *)
Lemma mapfut_field_is_dependency : forall s, reachable s -> forall j d, j < nfut s -> mdel s j = Some d -> tokP s j d.
Proof. intros s R. destruct (inv12_reach s R) as [_ (_ & _ & M & _)]. apply (s_del _ M). Qed.

(* C06 (b) assembled with the current delegate *)
Lemma mapfut_cancel_forwards_current : forall s, reachable s -> forall l1 j l2,
  hist s = l1 ++ HCancelRet j true :: l2 ->
  exists d la lb, l2 = la ++ HDCancel j d true :: lb /\ curH (mkind s j) lb j d.
Proof.
  intros s R l1 j l2 E.
  destruct (mapfut_cancel_forwards s R l1 j l2 E) as (d & la & lb & E2 & _).
  exists d, la, lb. split; [exact E2|].
  eapply (mapfut_dcancel_on_current_delegate s R (l1 ++ HCancelRet j true :: la)).
  rewrite <- app_assoc. simpl. rewrite <- E2. exact E.
Qed.
