(* C02 / Timeout, clause (d), part D3: conservation of the user done-callbacks along every accepted trace, and its
   consequences: a callback never runs more often than it was registered; at rest, on a done future, it has run
   exactly as often as it was registered (exactly once per registration) and the callback list is empty. *)
From Coq Require Import ZArith List Bool Arith Lia.
From RecordUpdate Require Import RecordSet.
From ME Require Import Base.Machine Base.Fut Base.GenPrelude Gen.TimeoutGen Proofs.Timeout_Spec Model.Timeout
  Proofs.Timeout_Inv Proofs.Keep_Timeout
  Proofs.Proto_Timeout_P Proofs.Proto_Timeout_P1 Proofs.Proto_Timeout_D Proofs.Proto_Timeout_D1 Proofs.Proto_Timeout_D2.
Import ListNotations RecordSetNotations.

Fixpoint sumT (f : nat -> nat) (T : list nat) : nat := match T with [] => 0 | t :: r => f t + sumT f r end.
Lemma sumT_ext f f' T : (forall u, In u T -> f' u = f u) -> sumT f' T = sumT f T.
Proof.
  induction T as [|a T IH]; [reflexivity|]. intros H. simpl. rewrite (H a (or_introl eq_refl)), IH; [reflexivity|].
  intros u Hu. apply H. right. exact Hu.
Qed.
Lemma sumT_upd f f' t T : NoDup T -> In t T -> (forall u, u <> t -> f' u = f u) -> sumT f' T + f t = sumT f T + f' t.
Proof.
  induction T as [|a T IH]; [intros _ []|]. intros Hnd Hin Hf. inversion Hnd as [|x l Hni Hnd']; subst. simpl.
  destruct (Nat.eq_dec a t) as [->|Hne].
  - rewrite (sumT_ext f f' T); [lia|]. intros u Hu. apply Hf. intros ->. contradiction.
  - destruct Hin as [Hx|Hin]; [contradiction|]. rewrite (Hf a Hne). specialize (IH Hnd' Hin Hf). lia.
Qed.

(* T lists (without repetition) every thread whose program is not empty *)
Definition supp (s : st) (T : list nat) : Prop := NoDup T /\ forall t, thr s t <> [] -> In t T.
(* the registrations of callback c on future j in a trace *)
Fixpoint regs (j c : nat) (es : list (Z * ev)) : nat :=
  match es with [] => 0 | te :: r => cntE j c (snd te) + regs j c r end.
Lemma regs_app j c a b : regs j c (a ++ b) = regs j c a + regs j c b.
Proof. induction a as [|x a IH]; simpl; [reflexivity|]. rewrite IH. lia. Qed.
(* ran + still in _me_done_callbacks + pending in the programs of the threads of T *)
Definition total (j c : nat) (s : st) (T : list nat) : nat :=
  hc j c (hist s) + rc c (rcbs s j) + sumT (fun t => pc j c (thr s t)) T.

Lemma run_snoc es : forall s0 te s, run step s0 (es ++ [te]) = Some s -> exists s1, run step s0 es = Some s1 /\ step s1 te = Some s.
Proof.
  intros s0 te s H. rewrite run_app in H. destruct (run step s0 es) as [s1|]; [|discriminate]. exists s1. split; [reflexivity|].
  simpl in H. destruct (step s1 te); [exact H|discriminate].
Qed.

Lemma step_delta s te s' j c : step s te = Some s' ->
  exists t, (forall u, u <> t -> thr s' u = thr s u) /\
    hc j c (hist s') + rc c (rcbs s' j) + pc j c (thr s' t) = hc j c (hist s) + rc c (rcbs s j) + pc j c (thr s t) + cntE j c (snd te).
Proof.
  intros Hx. apply step_split in Hx. destruct Hx as [_ Hx].
  exact (dshape_delta _ _ _ j c (step0_dshape _ _ _ Hx)).
Qed.

(* (d2) CONSERVATION: whatever finite set of threads T covers the non-empty programs *)
Theorem timeout_cb_conservation j c es : forall s, run step init es = Some s -> forall T, supp s T -> total j c s T = regs j c es.
Proof.
  induction es as [|te es IH] using rev_ind; intros s Hrun T [Hnd Hsup].
  - simpl in Hrun. inversion Hrun; subst. unfold total. simpl. induction T as [|a T IHT]; [reflexivity|].
    inversion Hnd; subst. simpl. apply IHT; [assumption|]. intros t Ht. exfalso. apply Ht. reflexivity.
  - destruct (run_snoc _ _ _ _ Hrun) as [s0 [Hrun0 Hst]]. destruct (step_delta _ _ _ j c Hst) as [t [Hoth Hd]].
    rewrite regs_app. simpl. rewrite Nat.add_0_r.
    set (T0 := if in_dec Nat.eq_dec t T then T else t :: T).
    assert (Hin0 : In t T0) by (unfold T0; destruct (in_dec Nat.eq_dec t T); [assumption|left; reflexivity]).
    assert (Hnd0 : NoDup T0) by (unfold T0; destruct (in_dec Nat.eq_dec t T); [assumption|constructor; assumption]).
    assert (Hsup0 : forall u, thr s0 u <> [] -> In u T0).
    { intros u Hu. destruct (Nat.eq_dec u t) as [->|Hne]; [exact Hin0|]. rewrite <- (Hoth u Hne) in Hu.
      specialize (Hsup u Hu). unfold T0. destruct (in_dec Nat.eq_dec t T); [assumption|right; assumption]. }
    specialize (IH s0 Hrun0 T0 (conj Hnd0 Hsup0)).
    assert (Hsame : total j c s T = total j c s T0).
    { unfold T0. destruct (in_dec Nat.eq_dec t T) as [Hi|Hni]; [reflexivity|]. unfold total. simpl.
      destruct (thr s t) as [|i r] eqn:E; [simpl; lia|]. exfalso. apply Hni. apply Hsup. rewrite E. discriminate. }
    rewrite Hsame. unfold total in *.
    pose proof (sumT_upd (fun u => pc j c (thr s0 u)) (fun u => pc j c (thr s u)) t T0 Hnd0 Hin0) as Hs. simpl in Hs.
    assert (Hf : forall u, u <> t -> pc j c (thr s u) = pc j c (thr s0 u)) by (intros u Hu; rewrite (Hoth u Hu); reflexivity).
    specialize (Hs Hf). lia.
Qed.

(* such a T exists in every reachable state *)
Lemma supp_exists es : forall s, run step init es = Some s -> exists T, supp s T.
Proof.
  induction es as [|te es IH] using rev_ind; intros s Hrun.
  - simpl in Hrun. inversion Hrun; subst. exists []. split; [constructor|]. intros t Ht. apply Ht. reflexivity.
  - destruct (run_snoc _ _ _ _ Hrun) as [s0 [Hrun0 Hst]]. destruct (step_delta _ _ _ 0 0 Hst) as [t [Hoth _]].
    destruct (IH s0 Hrun0) as [T [Hnd Hsup]].
    exists (if in_dec Nat.eq_dec t T then T else t :: T). split.
    + destruct (in_dec Nat.eq_dec t T); [assumption|constructor; assumption].
    + intros u Hu. destruct (Nat.eq_dec u t) as [->|Hne].
      * destruct (in_dec Nat.eq_dec t T); [assumption|left; reflexivity].
      * rewrite (Hoth u Hne) in Hu. specialize (Hsup u Hu). destruct (in_dec Nat.eq_dec t T); [assumption|right; assumption].
Qed.

(* AT MOST ONCE PER REGISTRATION, always: callback c of future j has run no more often than it was registered *)
Theorem timeout_cb_at_most es s j c : run step init es = Some s -> hc j c (hist s) <= regs j c es.
Proof.
  intros Hrun. destruct (supp_exists es s Hrun) as [T HT]. pose proof (timeout_cb_conservation j c es s Hrun T HT) as H.
  unfold total in H. lia.
Qed.
Lemma hc_app j c a b : hc j c (a ++ b) = hc j c a + hc j c b.
Proof. induction a as [|x a IH]; simpl; [reflexivity|]. rewrite IH. lia. Qed.
Lemma hc_mid j c l1 ts l2 : hc j c (l1 ++ HCb j c ts :: l2) = hc j c l1 + 1 + hc j c l2.
Proof. rewrite hc_app. simpl. unfold wt, cntC. rewrite !Nat.eqb_refl. lia. Qed.
(* ... in particular a callback id registered at most once on j runs at most once *)
Corollary timeout_cb_once es s j c : run step init es = Some s -> regs j c es <= 1 ->
  forall l1 ts l2, hist s = l1 ++ HCb j c ts :: l2 -> (forall ts', ~ In (HCb j c ts') l1) /\ (forall ts', ~ In (HCb j c ts') l2).
Proof.
  intros Hrun Hreg l1 ts l2 E. pose proof (timeout_cb_at_most es s j c Hrun) as H.
  rewrite E, hc_mid in H.
  split; intros ts' Hin.
  - assert (0 < hc j c l1) by (apply hc_pos; exists ts'; exact Hin). lia.
  - assert (0 < hc j c l2) by (apply hc_pos; exists ts'; exact Hin). lia.
Qed.

(* (d3) AT REST: every registered callback has run or is still in the list of its (not yet done) future ... *)
Theorem timeout_cb_at_rest es s j c : run step init es = Some s -> timeout_parked s ->
  hc j c (hist s) + rc c (rcbs s j) = regs j c es.
Proof.
  intros Hrun Hp. assert (Hr : reachable_from step init s) by (exists es; exact Hrun).
  destruct (parked_shape s Hr Hp) as [Hi Hj].
  assert (HT : supp s [jt]).
  { split; [constructor; [intros []|constructor]|]. intros t Ht. destruct (Nat.eq_dec t jt) as [->|Hne]; [left; reflexivity|].
    exfalso. apply Ht. apply Hi. exact Hne. }
  pose proof (timeout_cb_conservation j c es s Hrun [jt] HT) as H. unfold total in H. simpl in H. rewrite Hj in H. simpl in H. lia.
Qed.
(* ... and on a done future the list is empty: EXACTLY ONCE PER REGISTRATION *)
Theorem timeout_cb_exactly_at_rest es s j : run step init es = Some s -> timeout_parked s -> fdone (rs s j) = true ->
  rcbs s j = [] /\ forall c, hc j c (hist s) = regs j c es.
Proof.
  intros Hrun Hp Hd. assert (Hr : reachable_from step init s) by (exists es; exact Hrun).
  pose proof (timeout_done_callbacks_quiescent_lemma s Hr Hp j Hd) as E. split; [exact E|].
  intros c. pose proof (timeout_cb_at_rest es s j c Hrun Hp) as H. rewrite E in H. simpl in H. lia.
Qed.
