(* C02 on the PollExecutor machine (Model/Poll.v), part P: the program-shape invariant behind the cancel() clauses
   (same design as Proofs/Proto_Throttle_P.v).  A thread inside cancel() on poll future j (ghost [cancelling s t = Some j])
   runs a CANCEL PROGRAM: instructions of the cancel path and of the callbacks it may run inline only, closed by exactly
   one instruction that returns a bool or expands to one (the silent ICancelFnQ included); every other thread runs no
   cancel-only instruction.  On top of the shape: guard (a pending `return True` is preceded by the pending
   `super().cancel()` on j, or j is already cancelled), pairs (`super().cancel()` is immediately followed by
   `set_running_or_notify_cancel()`), notif (a future in the bare CANCELLED state has that call pending somewhere),
   fresh / bounds (ids in programs, in the descriptor list and in the poll thread's snapshot are allocated). *)
From Coq Require Import ZArith List Bool Arith Lia.
From RecordUpdate Require Import RecordSet.
From ME Require Import Base.Machine Base.Fut Base.GenPrelude Model.Poll Proofs.Poll_Inv.
Import ListNotations RecordSetNotations.

(* ---- instruction classes ------------------------------------------------------------------------------ *)
Definition pok (n : nat) (i : instr) : bool :=
  match i with
  | IAddCbD j | IDoneA j | IRetSubmit j | IRetEnv j | IAcqM j | IAcqMClr j | IRelM j | IRelMCbs j
  | ICancelled j | IDoneC j | IDCancel j | ICancelFnQ j | IUserCancelFn j _ | IFCancel j | IFSrnc j
  | IDCancelledQ j | IXAcqReg j _ | IXDereg j | IDoneS j _ | IDoneX j _ | IFSetRes j _ | IFSetExc j _ => j <? n
  | _ => true
  end.
(* occur in cancel programs (own path or inline callbacks) and elsewhere *)
Definition neutral (i : instr) : bool :=
  match i with
  | IAcqM _ | IAcqMClr _ | IRelM _ | IRelMCbs _ | IDCancelledQ _ | IXAcqReg _ _ | IXRel | IEvSet | IXDereg _
  | IDoneS _ _ | IDoneX _ _ | IFSetRes _ _ | IFSetExc _ _ => true
  | _ => false
  end.
(* occur only inside cancel() *)
Definition conly (i : instr) : bool :=
  match i with
  | ICancelled _ | IDoneC _ | IDCancel _ | ICancelFnQ _ | IUserCancelFn _ _ | IFCancel _ | IFSrnc _ | IRetB _ => true
  | _ => false
  end.
Definition nonc (i : instr) : bool := negb (conly i).
Definition cbody (i : instr) : bool := neutral i || match i with IFCancel _ | IFSrnc _ => true | _ => false end.
(* the last instruction of a cancel program on j: the bool return, or a step of cancel() that expands to one *)
Definition closer (j : nat) (i : instr) : bool :=
  match i with
  | IRetB _ => true
  | ICancelled j' | IDoneC j' | IDCancel j' | ICancelFnQ j' | IUserCancelFn j' _ => Nat.eqb j' j
  | _ => false
  end.
Fixpoint cprog (j : nat) (p : list instr) : bool :=
  match p with
  | [] => false
  | i :: r => match r with [] => closer j i | _ :: _ => cbody i && cprog j r end
  end.
(* the first `return True` is preceded by `super().cancel()` on j *)
Fixpoint guard (j : nat) (p : list instr) : bool :=
  match p with
  | [] => true
  | IRetB true :: _ => false
  | IFCancel j' :: r => if Nat.eqb j' j then true else guard j r
  | _ :: r => guard j r
  end.
Fixpoint pairs (p : list instr) : bool :=
  match p with
  | [] => true
  | IFCancel j :: r => match r with IFSrnc j' :: _ => Nat.eqb j j' | _ => false end && pairs r
  | _ :: r => pairs r
  end.
Definition is_srnc (j : nat) (i : instr) : bool := match i with IFSrnc j' => Nat.eqb j' j | _ => false end.
Definition has_srnc (j : nat) (p : list instr) : bool := existsb (is_srnc j) p.

Definition wfp (n : nat) (c : option nat) (p : list instr) : bool :=
  forallb (pok n) p && pairs p && match c with Some j => cprog j p | None => forallb nonc p end.

Definition dbound (n : nat) (l : list (nat * nat)) : bool := forallb (fun p => fst p <? n) l.
Definition snap (m : pm) : list (nat * nat) := match m with PCall l | PBody l => l | _ => [] end.

Record InvP (s : st) : Prop := {
  p_wf : forall t, wfp (nfut s) (cancelling s t) (thr s t) = true;
  p_cn : forall t j, cancelling s t = Some j -> j < nfut s;
  p_guard : forall t j, cancelling s t = Some j -> guard j (thr s t) = true \/ fcancelled (ps s j) = true;
  p_fresh : forall j, nfut s <= j -> ps s j = Pending /\ pout s j = None;
  p_notif : forall j, ps s j = Cancelled -> exists t, has_srnc j (thr s t) = true;
  p_descs : dbound (nfut s) (descs s) = true;
  p_snap : dbound (nfut s) (snap (pmode s)) = true
}.

(* ---- list lemmas --------------------------------------------------------------------------------------- *)
Lemma neutral_cbody i : neutral i = true -> cbody i = true.
Proof. unfold cbody. intros ->. reflexivity. Qed.
Lemma neutral_nonc i : neutral i = true -> nonc i = true.
Proof. destruct i; simpl; try discriminate; reflexivity. Qed.
Lemma forallb_imp {A} (f g : A -> bool) l : (forall x, f x = true -> g x = true) -> forallb f l = true -> forallb g l = true.
Proof.
  intros H. induction l as [|a r IH]; simpl; [auto|]. intros Hx. apply andb_prop in Hx. destruct Hx as [A1 A2].
  rewrite (H _ A1), (IH A2). reflexivity.
Qed.
Lemma cbody_not_closer j i : cbody i = true -> closer j i = false.
Proof. destruct i; simpl; try discriminate; reflexivity. Qed.
Lemma cprog_cons j i r : cbody i = true -> cprog j (i :: r) = cprog j r.
Proof.
  intros Hc. destruct r as [|a r']; [simpl; apply cbody_not_closer; exact Hc|].
  change (cprog j (i :: a :: r')) with (cbody i && cprog j (a :: r')). rewrite Hc. reflexivity.
Qed.
Lemma cprog_app j pre r : forallb cbody pre = true -> cprog j (pre ++ r) = cprog j r.
Proof.
  induction pre as [|a pre IH]; [reflexivity|]. simpl forallb. intros Hx. apply andb_prop in Hx. destruct Hx as [A1 A2].
  change ((a :: pre) ++ r) with (a :: (pre ++ r)). rewrite (cprog_cons _ _ _ A1). auto.
Qed.
Lemma cprog_head j i r : cprog j (i :: r) = true -> (r = [] /\ closer j i = true) \/ (cbody i = true /\ cprog j r = true).
Proof.
  destruct r as [|a r']; [simpl; auto|].
  change (cprog j (i :: a :: r')) with (cbody i && cprog j (a :: r')). intros Hx. apply andb_prop in Hx. auto.
Qed.
Lemma closer_conly j i : closer j i = true -> conly i = true.
Proof. destruct i; simpl; try discriminate; reflexivity. Qed.
Lemma cprog_nil j : cprog j [] = false. Proof. reflexivity. Qed.

Lemma guard_cons j i r : nonc i = true -> guard j (i :: r) = guard j r.
Proof. destruct i; simpl; try discriminate; reflexivity. Qed.
Lemma guard_app j pre r : forallb nonc pre = true -> guard j (pre ++ r) = guard j r.
Proof.
  induction pre as [|a pre IH]; [reflexivity|]. simpl forallb. intros Hx. apply andb_prop in Hx. destruct Hx as [A1 A2].
  change ((a :: pre) ++ r) with (a :: (pre ++ r)). rewrite (guard_cons _ _ _ A1). auto.
Qed.
Lemma pairs_cons i r : nonc i = true -> pairs (i :: r) = pairs r.
Proof. destruct i; simpl; try discriminate; reflexivity. Qed.
Lemma pairs_app pre r : forallb nonc pre = true -> pairs (pre ++ r) = pairs r.
Proof.
  induction pre as [|a pre IH]; [reflexivity|]. simpl forallb. intros Hx. apply andb_prop in Hx. destruct Hx as [A1 A2].
  change ((a :: pre) ++ r) with (a :: (pre ++ r)). rewrite (pairs_cons _ _ A1). auto.
Qed.
Lemma pairs_tl i r : pairs (i :: r) = true -> pairs r = true.
Proof. destruct i; simpl; auto. intros Hx. apply andb_prop in Hx. tauto. Qed.
Lemma pairs_drop l r : pairs (l ++ r) = true -> pairs r = true.
Proof. induction l as [|a l IH]; [auto|]. intros Hx. apply IH. eapply pairs_tl. exact Hx. Qed.
Lemma srnc_cons j i r : nonc i = true -> has_srnc j (i :: r) = has_srnc j r.
Proof. destruct i; simpl; try discriminate; reflexivity. Qed.
Lemma srnc_app j pre r : forallb nonc pre = true -> has_srnc j (pre ++ r) = has_srnc j r.
Proof.
  induction pre as [|a pre IH]; [reflexivity|]. simpl forallb. intros Hx. apply andb_prop in Hx. destruct Hx as [A1 A2].
  change ((a :: pre) ++ r) with (a :: (pre ++ r)). rewrite (srnc_cons _ _ _ A1). auto.
Qed.
Lemma nonc_no_srnc j p : forallb nonc p = true -> has_srnc j p = false.
Proof. intros Hx. rewrite <- (app_nil_r p). rewrite srnc_app by exact Hx. reflexivity. Qed.
Lemma has_srnc_in j p : has_srnc j p = true <-> In (IFSrnc j) p.
Proof.
  unfold has_srnc. rewrite existsb_exists. split.
  - intros [x [Hin Hx]]. destruct x; simpl in Hx; try discriminate. apply Nat.eqb_eq in Hx. subst. exact Hin.
  - intros Hin. exists (IFSrnc j). split; [exact Hin|]. simpl. apply Nat.eqb_refl.
Qed.

Lemma pok_mono n n' p : n <= n' -> forallb (pok n) p = true -> forallb (pok n') p = true.
Proof.
  intros Hle. apply forallb_imp. intros i. destruct i; simpl; auto; intros Hx; apply Nat.ltb_lt in Hx; apply Nat.ltb_lt; lia.
Qed.
Lemma wfp_mono n n' c p : n <= n' -> wfp n c p = true -> wfp n' c p = true.
Proof.
  unfold wfp. intros Hle Hx. apply andb_prop in Hx. destruct Hx as [Hx A3]. apply andb_prop in Hx. destruct Hx as [A1 A2].
  rewrite (pok_mono _ _ _ Hle A1), A2, A3. reflexivity.
Qed.
Lemma wfp_split n c p : wfp n c p = true ->
  forallb (pok n) p = true /\ pairs p = true /\ match c with Some j => cprog j p | None => forallb nonc p end = true.
Proof. unfold wfp. intros Hx. apply andb_prop in Hx. destruct Hx as [Hx A3]. apply andb_prop in Hx. tauto. Qed.
Lemma wfp_join n c p : forallb (pok n) p = true -> pairs p = true ->
  match c with Some j => cprog j p | None => forallb nonc p end = true -> wfp n c p = true.
Proof. unfold wfp. intros -> -> ->. reflexivity. Qed.

Lemma pairs_nonc p : forallb nonc p = true -> pairs p = true.
Proof. intros Hx. rewrite <- (app_nil_r p). rewrite pairs_app by exact Hx. reflexivity. Qed.
Lemma dbound_mono n n' l : n <= n' -> dbound n l = true -> dbound n' l = true.
Proof. intros Hle. apply forallb_imp. intros p Hx. apply Nat.ltb_lt in Hx. apply Nat.ltb_lt. lia. Qed.

(* ---- the silent step at the head of a program: _me_cancel's `executor and executor._run_cancel_fn(self)` ------ *)
Lemma cancel_cont_cases s j :
  cancel_cont s j = cancel_no j \/ cancel_cont s j = cancel_ok j \/ exists v, cancel_cont s j = [IUserCancelFn j v].
Proof.
  unfold cancel_cont. destruct (negb (pexec s j)); [auto|]. destruct (negb (hascfn s)); [auto|].
  destruct (lookup j (descs s)) as [v|]; eauto.
Qed.
Lemma wfp_norm n c s p : wfp n c p = true -> wfp n c (norm s p) = true.
Proof.
  intros Hw. destruct p as [|i r]; [exact Hw|]. destruct i; try exact Hw. unfold norm.
  destruct (wfp_split _ _ _ Hw) as [A1 [A2 A3]]. simpl in A1. apply andb_prop in A1. destruct A1 as [A1 _].
  destruct c as [jc|].
  - destruct (cprog_head _ _ _ A3) as [[-> Hc]|[Hc _]]; [|discriminate]. simpl in Hc. apply Nat.eqb_eq in Hc. subst.
    rewrite app_nil_r. destruct (cancel_cont_cases s jc) as [->|[->|[v ->]]]; apply wfp_join; simpl; rewrite ?A1, ?Nat.eqb_refl; reflexivity.
  - simpl in A3. discriminate.
Qed.
Lemma guard_norm jc n s p : wfp n (Some jc) p = true -> guard jc p = true -> guard jc (norm s p) = true.
Proof.
  intros Hw Hg. destruct p as [|i r]; [exact Hg|]. destruct i; try exact Hg. unfold norm.
  destruct (wfp_split _ _ _ Hw) as [_ [_ A3]].
  destruct (cprog_head _ _ _ A3) as [[-> Hc]|[Hc _]]; [|discriminate]. simpl in Hc. apply Nat.eqb_eq in Hc. subst.
  rewrite app_nil_r. destruct (cancel_cont_cases s jc) as [->|[->|[v ->]]]; simpl; rewrite ?Nat.eqb_refl; reflexivity.
Qed.
Lemma srnc_norm j s p : has_srnc j p = true -> has_srnc j (norm s p) = true.
Proof.
  intros Hx. destruct p as [|i r]; [exact Hx|]. destruct i; try exact Hx. unfold norm. simpl in Hx.
  unfold has_srnc. rewrite existsb_app. apply orb_true_iff. right. exact Hx.
Qed.

(* ---- the master lemma: thread t replaces its program by p ----------------------------------------------- *)
Lemma invP_step s s' t p :
  InvP s ->
  (forall u, thr s' u = upd (thr s) t p u) ->
  (forall u, u <> t -> cancelling s' u = cancelling s u) ->
  nfut s <= nfut s' ->
  (forall j, j < nfut s -> fcancelled (ps s j) = true -> fcancelled (ps s' j) = true) ->
  (forall j, nfut s' <= j -> ps s' j = Pending /\ pout s' j = None) ->
  wfp (nfut s') (cancelling s' t) p = true ->
  (forall j, cancelling s' t = Some j -> j < nfut s' /\ (guard j p = true \/ fcancelled (ps s' j) = true)) ->
  (forall j, ps s' j = Cancelled ->
     has_srnc j p = true \/ (ps s j = Cancelled /\ (has_srnc j (thr s t) = true -> has_srnc j p = true))) ->
  dbound (nfut s') (descs s') = true -> dbound (nfut s') (snap (pmode s')) = true ->
  InvP s'.
Proof.
  intros [P1 P2 P3 P4 P5 P6 P7] Hthr Hc Hn Hmono Hfresh Hwf Hg Hnot Hd Hs. constructor; auto.
  - intros u. rewrite Hthr. destruct (Nat.eq_dec u t) as [->|Hne]; [rewrite upd_same; exact Hwf|].
    rewrite upd_other by exact Hne. rewrite (Hc u Hne). eapply wfp_mono; [exact Hn|apply P1].
  - intros u j Hu. destruct (Nat.eq_dec u t) as [->|Hne]; [apply Hg; exact Hu|].
    rewrite (Hc u Hne) in Hu. specialize (P2 _ _ Hu). lia.
  - intros u j Hu. rewrite Hthr. destruct (Nat.eq_dec u t) as [->|Hne]; [rewrite upd_same; apply Hg; exact Hu|].
    rewrite upd_other by exact Hne. rewrite (Hc u Hne) in Hu. destruct (P3 _ _ Hu) as [A|A]; [left; exact A|right].
    apply Hmono; [eapply P2; eauto|exact A].
  - intros j Hj. destruct (Hnot j Hj) as [A|[A B]].
    + exists t. rewrite Hthr, upd_same. exact A.
    + destruct (P5 j A) as [u Hu]. destruct (Nat.eq_dec u t) as [->|Hne].
      * exists t. rewrite Hthr, upd_same. auto.
      * exists u. rewrite Hthr, upd_other by exact Hne. exact Hu.
Qed.

Lemma invP_log s h : InvP s -> InvP (log s h).
Proof. intros [P1 P2 P3 P4 P5 P6 P7]. constructor; simpl; auto. Qed.

(* s1 agrees with s on the futures and the ghost, except thr; its descriptor list / snapshot are bounded *)
Definition pview (s : st) := (nfut s, ps s, pout s, cancelling s).
Lemma invP_set s s1 t p :
  InvP s -> thr s1 = thr s -> pview s1 = pview s ->
  dbound (nfut s) (descs s1) = true -> dbound (nfut s) (snap (pmode s1)) = true ->
  wfp (nfut s) (cancelling s t) p = true ->
  (forall j, cancelling s t = Some j -> guard j p = true \/ fcancelled (ps s j) = true) ->
  (forall j, has_srnc j (thr s t) = true -> has_srnc j p = true) ->
  InvP (set_prog s1 t p).
Proof.
  intros IP Et Ev Hd Hsn Hw Hg Hs. unfold pview in Ev. inversion Ev as [[E1 E2 E3 E4]].
  apply (invP_step s _ t (norm s1 p) IP); unfold set_prog; simpl; rewrite ?E1, ?E2, ?E3, ?E4, ?Et; auto.
  - exact (p_fresh _ IP).
  - apply wfp_norm. exact Hw.
  - intros j Hj. split; [exact (p_cn _ IP _ _ Hj)|]. destruct (Hg j Hj) as [A|A]; [left|right; exact A].
    rewrite Hj in Hw. eapply guard_norm; eauto.
  - intros j Hj. right. split; [exact Hj|]. intros Hx. apply srnc_norm. auto.
Qed.

(* nothing the invariant looks at changes, except (bounded) descriptor list / snapshot *)
Lemma invP_view s s' : InvP s -> thr s' = thr s -> pview s' = pview s ->
  dbound (nfut s) (descs s') = true -> dbound (nfut s) (snap (pmode s')) = true -> InvP s'.
Proof.
  intros [P1 P2 P3 P4 P5 P6 P7] Et Ev Hd Hs. unfold pview in Ev. inversion Ev as [[E1 E2 E3 E4]].
  constructor; rewrite ?E1, ?E2, ?E3, ?E4, ?Et; auto.
Qed.

(* a thread whose head instruction is not part of any cancel program is not inside cancel() *)
Lemma head_nc_none s t i rest : InvP s -> thr s t = i :: rest -> cbody i = false -> conly i = false ->
  cancelling s t = None.
Proof.
  intros IP Et Hb Hc. pose proof (p_wf _ IP t) as Hw. rewrite Et in Hw. destruct (wfp_split _ _ _ Hw) as [_ [_ A3]].
  destruct (cancelling s t) as [j|]; [|reflexivity]. exfalso.
  destruct (cprog_head _ _ _ A3) as [[_ Hx]|[Hx _]]; [apply closer_conly in Hx|]; congruence.
Qed.
Lemma nil_none s t : InvP s -> thr s t = [] -> cancelling s t = None.
Proof.
  intros IP Et. pose proof (p_wf _ IP t) as Hw. rewrite Et in Hw. destruct (wfp_split _ _ _ Hw) as [_ [_ A3]].
  destruct (cancelling s t) as [j|]; [discriminate|reflexivity].
Qed.

(* head outside every cancel program: consumed, a prefix of non-cancel instructions takes its place *)
Lemma invP_nc s s1 t i rest pre :
  InvP s -> thr s1 = thr s -> pview s1 = pview s ->
  dbound (nfut s) (descs s1) = true -> dbound (nfut s) (snap (pmode s1)) = true ->
  thr s t = i :: rest -> cbody i = false -> conly i = false ->
  (pok (nfut s) i = true -> forallb (pok (nfut s)) pre = true) -> forallb nonc pre = true ->
  InvP (set_prog s1 t (pre ++ rest)).
Proof.
  intros IP Et Ev Hd Hsn Ep Hb Hc Hk Hn. pose proof (head_nc_none _ _ _ _ IP Ep Hb Hc) as En.
  pose proof (p_wf _ IP t) as Hw. rewrite Ep, En in Hw. destruct (wfp_split _ _ _ Hw) as [A1 [A2 A3]].
  simpl in A1, A3. apply andb_prop in A1. destruct A1 as [A1 A1']. apply andb_prop in A3. destruct A3 as [A3 A3'].
  apply (invP_set s); auto.
  - rewrite En. apply wfp_join.
    + rewrite forallb_app, (Hk A1), A1'. reflexivity.
    + rewrite pairs_app by exact Hn. eapply pairs_tl. exact A2.
    + rewrite forallb_app, Hn, A3'. reflexivity.
  - intros j Hj. rewrite En in Hj. discriminate.
  - intros j Hj. rewrite Ep in Hj. rewrite (nonc_no_srnc j (i :: rest)) in Hj; [discriminate|]. simpl. rewrite A3, A3'. reflexivity.
Qed.

(* a non-empty prefix of neutral instructions is consumed, neutral instructions take its place *)
Lemma invP_both s s1 t drop rest pre :
  InvP s -> thr s1 = thr s -> pview s1 = pview s ->
  dbound (nfut s) (descs s1) = true -> dbound (nfut s) (snap (pmode s1)) = true ->
  thr s t = drop ++ rest -> drop <> [] -> forallb neutral drop = true ->
  (forallb (pok (nfut s)) drop = true -> forallb (pok (nfut s)) pre = true) -> forallb neutral pre = true ->
  InvP (set_prog s1 t (pre ++ rest)).
Proof.
  intros IP Et Ev Hds Hsn Ep Hne Hd Hk Hn.
  pose proof (forallb_imp _ _ _ neutral_nonc Hd) as Hdn. pose proof (forallb_imp _ _ _ neutral_cbody Hd) as Hdc.
  pose proof (forallb_imp _ _ _ neutral_nonc Hn) as Hnn. pose proof (forallb_imp _ _ _ neutral_cbody Hn) as Hnc.
  pose proof (p_wf _ IP t) as Hw. rewrite Ep in Hw. destruct (wfp_split _ _ _ Hw) as [A1 [A2 A3]].
  rewrite forallb_app in A1. apply andb_prop in A1. destruct A1 as [A1 A1'].
  apply (invP_set s); auto.
  - apply wfp_join.
    + rewrite forallb_app, (Hk A1), A1'. reflexivity.
    + rewrite pairs_app by exact Hnn. eapply pairs_drop. exact A2.
    + destruct (cancelling s t) as [j|].
      * rewrite cprog_app in A3 by exact Hdc. rewrite cprog_app by exact Hnc. exact A3.
      * rewrite forallb_app in A3. apply andb_prop in A3. destruct A3 as [_ A3]. rewrite forallb_app, Hnn, A3. reflexivity.
  - intros j Hj. destruct (p_guard _ IP _ _ Hj) as [A|A]; [left|right; exact A].
    rewrite Ep, guard_app in A by exact Hdn. rewrite guard_app by exact Hnn. exact A.
  - intros j Hj. rewrite Ep, srnc_app in Hj by exact Hdn. rewrite srnc_app by exact Hnn. exact Hj.
Qed.

(* a thread with an empty program starts a non-cancel program *)
Lemma invP_idle s s1 t p :
  InvP s -> thr s1 = thr s -> pview s1 = pview s ->
  dbound (nfut s) (descs s1) = true -> dbound (nfut s) (snap (pmode s1)) = true -> thr s t = [] ->
  forallb (pok (nfut s)) p = true -> forallb nonc p = true -> InvP (set_prog s1 t p).
Proof.
  intros IP Et Ev Hd Hsn Ep Hk Hn. pose proof (nil_none _ _ IP Ep) as En.
  apply (invP_set s); auto.
  - rewrite En. apply wfp_join; auto. apply pairs_nonc. exact Hn.
  - intros j Hj. rewrite En in Hj. discriminate.
  - intros j Hj. rewrite Ep in Hj. discriminate.
Qed.

Lemma wfp_tl n c i rest : wfp n c (i :: rest) = true -> cbody i = true -> wfp n c rest = true.
Proof.
  intros Hw Hb. destruct (wfp_split _ _ _ Hw) as [A1 [A2 A3]]. simpl in A1. apply andb_prop in A1. destruct A1 as [_ A1].
  apply wfp_join; [exact A1|eapply pairs_tl; exact A2|]. destruct c as [j|].
  - rewrite cprog_cons in A3 by exact Hb. exact A3.
  - simpl in A3. apply andb_prop in A3. tauto.
Qed.

(* thread t consumes the cancel-body instruction i, a stdlib method on poll future j: its state becomes n; the
   continuation is pre ++ rest with pre neutral *)
Lemma invP_ms s s1 t i rest pre j n :
  InvP s -> thr s1 = thr s -> nfut s1 = nfut s -> cancelling s1 = cancelling s -> ps s1 = upd (ps s) j n ->
  (forall k, k <> j -> pout s1 k = pout s k) ->
  dbound (nfut s) (descs s1) = true -> dbound (nfut s) (snap (pmode s1)) = true ->
  thr s t = i :: rest -> cbody i = true -> j < nfut s ->
  (fcancelled (ps s j) = true -> fcancelled n = true) ->
  (n = Cancelled -> has_srnc j rest = true) ->
  (forall jc, guard jc (i :: rest) = true -> guard jc rest = true \/ (jc = j /\ fcancelled n = true)) ->
  (forall k, k <> j -> has_srnc k (i :: rest) = true -> has_srnc k rest = true) ->
  forallb (pok (nfut s)) pre = true -> forallb neutral pre = true ->
  InvP (set_prog s1 t (pre ++ rest)).
Proof.
  intros IP Et En Ec Em Eo Hds Hsn Ep Hb Hj Hmono Hnot Hg Hs Hpk Hpn.
  pose proof (forallb_imp _ _ _ neutral_nonc Hpn) as Hnn. pose proof (forallb_imp _ _ _ neutral_cbody Hpn) as Hnc.
  pose proof (p_wf _ IP t) as Hw. rewrite Ep in Hw.
  assert (Hw2 : wfp (nfut s) (cancelling s t) (pre ++ rest) = true).
  { pose proof (wfp_tl _ _ _ _ Hw Hb) as Hw1. destruct (wfp_split _ _ _ Hw1) as [A1 [A2 A3]]. apply wfp_join.
    - rewrite forallb_app, Hpk, A1. reflexivity.
    - rewrite pairs_app by exact Hnn. exact A2.
    - destruct (cancelling s t); [rewrite cprog_app by exact Hnc; exact A3|rewrite forallb_app, Hnn, A3; reflexivity]. }
  apply (invP_step s _ t (norm s1 (pre ++ rest)) IP); unfold set_prog; simpl; rewrite ?En, ?Ec, ?Em, ?Et; auto.
  - intros k Hk Hc. unfold upd. destruct (Nat.eqb k j) eqn:E; [apply Nat.eqb_eq in E; subst; auto|exact Hc].
  - intros k Hk. assert (Hne : k <> j) by lia. rewrite upd_other by exact Hne. rewrite (Eo k Hne). exact (p_fresh _ IP k Hk).
  - apply wfp_norm. exact Hw2.
  - intros jc Hjc. split; [exact (p_cn _ IP _ _ Hjc)|].
    destruct (p_guard _ IP _ _ Hjc) as [A|A].
    + rewrite Ep in A. destruct (Hg jc A) as [B|[-> B]]; [left|right; rewrite upd_same; exact B].
      rewrite Hjc in Hw2. eapply guard_norm; [exact Hw2|]. rewrite guard_app by exact Hnn. exact B.
    + right. unfold upd. destruct (Nat.eqb jc j) eqn:E; [apply Nat.eqb_eq in E; subst; auto|exact A].
  - intros k Hk. unfold upd in Hk. destruct (Nat.eqb k j) eqn:E.
    + apply Nat.eqb_eq in E. subst. left. apply srnc_norm. rewrite srnc_app by exact Hnn. auto.
    + apply Nat.eqb_neq in E. right. split; [exact Hk|]. rewrite Ep. intros Hx. apply srnc_norm. rewrite srnc_app by exact Hnn. auto.
Qed.
