(* I9c: f_zip stores every input's result at its own position; the tuple is only produced when full. *)
From Coq Require Import List Arith Bool Lia PeanoNat ZArith.
From ME Require Import Base.Machine Base.Fut Base.GenPrelude Gen.BoolGen Gen.ZipGen Model.Comb Proofs.Comb_Spec.
From ME Require Import Proofs.Comb_I0 Proofs.Comb_I4 Proofs.Comb_I5 Proofs.Comb_I9a Proofs.Comb_I9b.
Import ListNotations.

Definition cntN (sl : nat -> option nat) (n : nat) : nat := length (filter (fun i => isnone (sl i)) (seq 0 n)).
Definition full (sl : nat -> option nat) (n : nat) : Prop := forall i, i < n -> sl i <> None.

Lemma cntN_S sl n : cntN sl (S n) = cntN sl n + (if isnone (sl n) then 1 else 0).
Proof. unfold cntN. rewrite seq_S, filter_app, app_length. simpl. destruct (isnone (sl n)); reflexivity. Qed.

Lemma cntN_allnone sl n : (forall i, sl i = None) -> cntN sl n = n.
Proof. intros H. induction n; [reflexivity|]. rewrite cntN_S, IHn, H. simpl. lia. Qed.

Lemma cntN_zero sl n : cntN sl n = 0 -> full sl n.
Proof.
  induction n; intros H i Hi; [lia|]. rewrite cntN_S in H.
  destruct (Nat.eq_dec i n) as [->|Hn].
  - destruct (sl n); [discriminate|simpl in H; lia].
  - apply IHn; lia.
Qed.

Lemma cntN_upd_ge sl n j v : n <= j -> cntN (upd sl j v) n = cntN sl n.
Proof.
  induction n; intros H; [reflexivity|]. rewrite !cntN_S, IHn by lia. rewrite upd_other by lia. reflexivity.
Qed.

Lemma cntN_store sl n j v : j < n -> sl j = None -> cntN (upd sl j (Some v)) n + 1 = cntN sl n.
Proof.
  induction n; intros Hj Hn; [lia|]. rewrite !cntN_S.
  destruct (Nat.eq_dec j n) as [->|Hne].
  - rewrite cntN_upd_ge by lia. rewrite upd_same, Hn. simpl. lia.
  - rewrite upd_other by lia. specialize (IHn ltac:(lia) Hn). lia.
Qed.

Definition Pz (k : ckind) (sl : nat -> option nat) (n : nat) (x : instr) : Prop :=
  match x with ISetOut (Ok _ _) => k = KZip -> full sl n | _ => True end.

Record ZV (s : st) : Prop := {
  zv_rem : built s = true -> ck s = KZip -> cdone s = false ->
           remaining s = Z.of_nat (cntN (slots s) (length (inputs s)));
  zv_val : forall i v, slots s i = Some v -> exists t, eout s (input_at s i) = Some (Ok v t);
  zv_thr : forall t, Forall (Pz (ck s) (slots s) (length (inputs s))) (thr s t);
  zv_hist : forall v b, In (HSetOut (Ok v b)) (hist s) -> ck s = KZip -> full (slots s) (length (inputs s))
}.

Lemma ZV_init : ZV init.
Proof. constructor; simpl; intros; try discriminate; try contradiction. constructor. Qed.

Lemma store_facts s a j d r : I4 s -> ZI s -> thr s a = ICancelledQ j d :: r ->
  fcancelled (es s d) = false -> v_failed (view s d) = false ->
  j < length (inputs s) /\ d = input_at s j /\ slots s j = None /\ exists v t, eout s d = Some (Ok v t).
Proof.
  intros J Z Ht Hc Hf. pose proof (i4_thr _ J a) as P. rewrite Ht in P. apply Forall_inv in P.
  simpl in P. destruct P as (Hd & Hi & Hl). repeat split; auto.
  - destruct (slots s j) eqn:E; auto. exfalso.
    destruct (zi_sl _ Z j ltac:(congruence)) as [T0 _]. specialize (T0 a). rewrite Ht, tokc_cons in T0.
    simpl istok in T0. rewrite Nat.eqb_refl in T0. lia.
  - destruct (i4_es _ J d) as [E|[E|E]]; rewrite E in *; try discriminate.
    apply (i4_eout _ J) in E. simpl in Hf. destruct (eout s d) as [[v t|]|]; try congruence; eauto.
Qed.

Lemma full_step s e s' : I4 s -> ZI s -> step s e = Some s' -> built s = true ->
  full (slots s) (length (inputs s)) -> full (slots s') (length (inputs s')).
Proof.
  intros J Z H Hb F. destruct (step_built _ _ _ H Hb) as (_ & Hi & _). rewrite Hi.
  destruct (store_step _ _ _ H) as [E|(j & d & r & Ht & _ & _ & Hc & Hf & Es & _)].
  - rewrite E. exact F.
  - destruct (store_facts _ _ _ _ _ J Z Ht Hc Hf) as (_ & _ & Hn & _).
    intros i Hi'. rewrite Es. unfold upd. destruct (Nat.eqb i j) eqn:E; [|apply F; auto].
    apply Nat.eqb_eq in E. subst. exfalso. apply (F j Hi' Hn).
Qed.

Lemma ZV_rem s e s' : I4 s -> ZI s -> ZV s -> step s e = Some s' ->
  built s' = true -> ck s' = KZip -> cdone s' = false ->
  remaining s' = Z.of_nat (cntN (slots s') (length (inputs s'))).
Proof.
  intros J Z V H Hb' Hk' Hc'.
  destruct (store_step _ _ _ H) as [E|(j & d & r & Ht & Hk & Hcd & Hc & Hf & Es & Er & Ed & _)].
  - rewrite E. pose proof (zv_rem _ V) as R.
    destruct e; step_inv H; simpl in *; auto; try congruence.
    + clean. rewrite cntN_allnone; auto. apply (zi_unb _ Z). auto.
    + exfalso. clean. destruct (store_facts _ t _ _ _ J Z Heql Heqb2 Heqb3) as (_ & _ & Hn & v & t' & Eo).
      unfold oc_of in E. rewrite Eo in E. rewrite <- E, upd_same in Hn. discriminate.
  - destruct (store_facts _ _ _ _ _ J Z Ht Hc Hf) as (Hl & _ & Hn & v & t & Eo).
    assert (Hb : built s = true) by (apply (nonempty_built s (actor e) J); rewrite Ht; discriminate).
    destruct (step_built _ _ _ H Hb) as (_ & Hi & _). rewrite Hi, Es, Er.
    unfold oc_of. rewrite Eo. pose proof (cntN_store (slots s) _ j v Hl Hn) as C.
    rewrite (zv_rem _ V Hb Hk Hcd). lia.
Qed.

Lemma ZV_val s e s' : I4 s -> ZI s -> ZV s -> step s e = Some s' ->
  forall i v, slots s' i = Some v -> exists t, eout s' (input_at s' i) = Some (Ok v t).
Proof.
  intros J Z V H i v Hs.
  assert (Old : slots s i = Some v -> exists t, eout s' (input_at s' i) = Some (Ok v t)).
  { intros Hv. destruct (built s) eqn:Hb.
    2:{ rewrite (zi_unb _ Z Hb) in Hv. discriminate. }
    destruct (step_built _ _ _ H Hb) as (_ & Hi & _). unfold input_at. rewrite Hi.
    destruct (zv_val _ V i v Hv) as [t Et]. exists t. unfold input_at in Et.
    assert (Hd : fdone (es s (nth i (inputs s) 0)) = true).
    { assert (Hf : es s (nth i (inputs s) 0) = Finished) by (apply (i4_eout _ J); congruence).
      rewrite Hf. reflexivity. }
    destruct (step_frozen _ _ _ _ H Hd) as [_ E2]. rewrite E2. exact Et. }
  destruct (store_step _ _ _ H) as [E|(j & d & r & Ht & Hk & Hcd & Hc & Hf & Es & Er & Ed & _)].
  - rewrite E in Hs. auto.
  - destruct (Nat.eq_dec i j) as [->|Hij].
    2:{ rewrite Es, upd_other in Hs by auto. auto. }
    destruct (store_facts _ _ _ _ _ J Z Ht Hc Hf) as (Hl & Hd & Hn & w & t & Eo).
    assert (Hb : built s = true) by (apply (nonempty_built s (actor e) J); rewrite Ht; discriminate).
    destruct (step_built _ _ _ H Hb) as (_ & Hi & _). unfold input_at. rewrite Hi.
    rewrite Es, upd_same in Hs. unfold oc_of in Hs. rewrite Eo in Hs. inversion Hs; subst w.
    exists t. unfold input_at in Hd. rewrite <- Hd.
    assert (Hdn : fdone (es s d) = true).
    { assert (Hfin : es s d = Finished) by (apply (i4_eout _ J); congruence). rewrite Hfin. reflexivity. }
    destruct (step_frozen _ _ _ _ H Hdn) as [_ E2]. rewrite E2. exact Eo.
Qed.

Lemma Pz_dead k sl n : Pz k sl n IDead.
Proof. exact I. Qed.

Lemma Pz_step s e s' x : I4 s -> ZI s -> step s e = Some s' -> built s = true ->
  Pz (ck s) (slots s) (length (inputs s)) x -> Pz (ck s') (slots s') (length (inputs s')) x.
Proof.
  intros J Z H Hb. destruct (step_built _ _ _ H Hb) as (_ & _ & Hk). rewrite Hk.
  destruct x; simpl; auto. destruct o; auto. intros F Hz. eapply full_step; eauto.
Qed.

Lemma ZV_thr_other s e s' u : I4 s -> ZI s -> ZV s -> step s e = Some s' -> u <> actor e ->
  Forall (Pz (ck s') (slots s') (length (inputs s'))) (thr s' u).
Proof.
  intros J Z V H Hu. rewrite (step_other_thr _ _ _ _ H Hu).
  destruct (built s) eqn:Hb.
  - eapply Forall_impl; [|apply (zv_thr _ V u)]. intros a. eapply Pz_step; eauto.
  - destruct (i4_unb _ J Hb) as (Ht & _). rewrite Ht. constructor.
Qed.

Lemma ZV_thr_actor s e s' : I4 s -> ZI s -> ZV s -> step s e = Some s' ->
  Forall (Pz (ck s') (slots s') (length (inputs s'))) (thr s' (actor e)).
Proof.
  intros J Z V H.
  assert (M : thr s (actor e) <> [] -> forall a, Pz (ck s) (slots s) (length (inputs s)) a ->
              Pz (ck s') (slots s') (length (inputs s')) a).
  { intros Hne a. eapply Pz_step; eauto. eapply nonempty_built; eauto. }
  destruct e; simpl actor in *; pose proof (zv_thr _ V t) as It; step_inv H;
  try match goal with Hq : thr _ _ = _ |- _ => rewrite Hq in It, M end;
  try (specialize (M ltac:(discriminate)); apply (Forall_impl _ M) in It); clear M; simpl in It; fa_hyps;
  simpl; rewrite ?upd_same; fold_retb; try (apply Forall_norm; [apply Pz_dead|]);
  try solve [fa_tac ltac:(simpl; auto; try (destruct (oc_of _ _); auto); try (intros; congruence))]; try assumption.
  - repeat constructor; auto. simpl. unfold oc_of. simpl in Heqb3.
    destruct (eout s d) as [[|]|]; auto; discriminate.
  - repeat constructor; auto. simpl. intros _. clean.
    destruct (store_facts _ t _ _ _ J Z Heql Heqb2 Heqb3) as (Hl & _ & Hn & v & t' & Eo).
    unfold oc_of. rewrite Eo. apply cntN_zero.
    pose proof (cntN_store (slots s) _ i0 v Hl Hn) as C.
    assert (Hb : built s = true) by (apply (nonempty_built s t J); rewrite Heql; discriminate).
    pose proof (zv_rem _ V Hb Heqc Heqb1) as R. apply Z.eqb_eq in Heqb4. lia.
  - apply (zv_thr _ V).
  - apply (zv_thr _ V).
  - apply (zv_thr _ V).
Qed.

Lemma ZV_hist s e s' : I4 s -> I5 s -> ZI s -> ZV s -> step s e = Some s' ->
  forall v b, In (HSetOut (Ok v b)) (hist s') -> ck s' = KZip -> full (slots s') (length (inputs s')).
Proof.
  intros J I5 Z V H v b.
  assert (M : In (HSetOut (Ok v b)) (hist s) -> ck s' = KZip -> full (slots s') (length (inputs s'))).
  { intros Hin Hk. destruct (built s) eqn:Hb.
    - destruct (step_built _ _ _ H Hb) as (_ & _ & Hk'). eapply full_step; eauto.
      apply (zv_hist _ V v b Hin). congruence.
    - apply (i5_unb _ I5 Hb) in Hin. discriminate. }
  destruct e; pose proof (zv_thr _ V t) as It; step_inv H; simpl in *; auto;
  try match goal with Hq : thr _ _ = _ |- _ => rewrite Hq in It end; fa_hyps;
  try solve [intros [Hin|Hin]; [discriminate|auto]];
  try solve [intros [Hin|[Hin|Hin]]; [discriminate|discriminate|auto]];
  try solve [intros [Hin|[Hin|[Hin|Hin]]]; [discriminate|discriminate|discriminate|auto]].
  all: intros [Hin|Hin]; auto; inversion Hin; subst; simpl in Hhd; auto.
Qed.

Lemma ZV_step s e s' : I4 s -> I5 s -> ZI s -> ZV s -> step s e = Some s' -> ZV s'.
Proof.
  intros J I5 Z V H. constructor.
  - eapply ZV_rem; eauto.
  - eapply ZV_val; eauto.
  - intros u. destruct (Nat.eq_dec u (actor e)) as [->|Hu]; [eapply ZV_thr_actor|eapply ZV_thr_other]; eauto.
  - eapply ZV_hist; eauto.
Qed.

Lemma ZV_reach s : reachable s -> ZV s.
Proof.
  apply invariant_rule_r; [exact ZV_init|]. intros s0 e s' R V H.
  eapply ZV_step; eauto using I4_reach, I5_reach, ZI_reach.
Qed.
