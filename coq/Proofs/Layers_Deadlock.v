(* Layers, part 3: no deadlock for any number of well-formed layered threads; a thread never blocks on itself;
   a thread running alone returns. *)
From Coq Require Import List Bool Arith Lia.
From ME Require Import Base.Machine Model.Locks Proofs.Locks_Proofs Model.Layers Proofs.Layers_Exec Proofs.Layers_Wf.
Import ListNotations.

Lemma lflat_idle K th : l_prog th = [] -> lflat K th = [].
Proof. unfold lflat. intros ->. reflexivity. Qed.

Theorem layers_no_deadlock : forall K n (ths : nat -> lthread),
  (forall t, lwf K (ths t) = true) -> (forall t, n <= t -> l_prog (ths t) = []) ->
  forall s, reachable_from step (init_of (fun t => lflat K (ths t))) s ->
  (exists t, prog s t <> []) -> exists t s', step s t = Some s'.
Proof.
  intros K n ths Hw Hn. apply (lock_order_no_deadlock n).
  - intros t. apply wf_layers_ordered. apply Hw.
  - intros t Ht. apply lflat_idle. auto.
Qed.

(* ---- re-entrant acquisition: the owner case of Locks.step always steps ---- *)
Theorem reentrant_acquire_steps : forall s t l r,
  prog s t = Acq l :: r -> owner s l = Some t ->
  exists s', step s t = Some s' /\ prog s' t = r /\ owner s' l = Some t /\ depth s' l = S (depth s l).
Proof.
  intros s t l r Ep Eo. unfold step. rewrite Ep, Eo, Nat.eqb_refl.
  eexists. split; [reflexivity|]. simpl. rewrite !upd_same. auto.
Qed.

Lemma reach_Inv progs : (forall t, ordered [] (progs t) = true) ->
  forall s, reachable_from step (init_of progs) s -> exists held, Inv held s.
Proof.
  intros Ho. apply (invariant_rule step (fun s => exists held, Inv held s)).
  - eexists. apply Inv_init; auto.
  - intros s e s' H1 H2. eapply Inv_step; eauto.
Qed.

(* in a system of ordered programs a thread that cannot move is waiting for a lock owned by ANOTHER thread *)
Theorem never_blocks_on_itself : forall progs, (forall t, ordered [] (progs t) = true) ->
  forall s, reachable_from step (init_of progs) s -> forall t, prog s t <> [] ->
  (exists s', step s t = Some s') \/
  (exists l r u, prog s t = Acq l :: r /\ owner s l = Some u /\ u <> t).
Proof.
  intros progs Ho s R t Hp. destruct (reach_Inv progs Ho s R) as [held I].
  destruct (classify held s t I Hp) as [H|[l (r & u & B)]]; [left; auto|].
  right. exists l, r, u. exact B.
Qed.

(* ---- a thread running alone returns ---- *)
Lemma step_prog s t s' : step s t = Some s' -> prog s' = upd (prog s) t (tl (prog s t)).
Proof.
  unfold step. intros Hs.
  destruct (prog s t) as [|[l|l] r]; [discriminate| |];
    destruct (owner s l) as [u|]; try discriminate;
    try (destruct (Nat.eqb u t); [|discriminate]);
    try (destruct (depth s l) as [|[|d]]);
    inversion Hs; subst s'; reflexivity.
Qed.

Lemma solo_from held s t0 : Inv held s -> (forall t, t <> t0 -> prog s t = []) ->
  forall n, length (prog s t0) = n ->
  exists held' s', run step s (solo t0 n) = Some s' /\ Inv held' s' /\ forall t, prog s' t = [].
Proof.
  intros I Hother n. revert held s I Hother.
  induction n as [|n IH]; intros held s I Hother Hlen.
  - exists held, s. split; [reflexivity|]. split; auto.
    intros t. destruct (Nat.eq_dec t t0) as [->|N]; auto.
    destruct (prog s t0); [auto|discriminate].
  - assert (Hp : prog s t0 <> []) by (intros E; rewrite E in Hlen; discriminate).
    destruct (classify held s t0 I Hp) as [[s1 H1]|[l (r & u & Ep & Eo & Nu)]].
    + assert (I1 : exists h1, Inv h1 s1) by (eapply Inv_step; eauto).
      destruct I1 as [h1 I1]. pose proof (step_prog _ _ _ H1) as Ep1.
      destruct (IH h1 s1 I1) as (h' & s' & R & I' & Hnil).
      * intros t N. rewrite Ep1, upd_other by auto. auto.
      * rewrite Ep1, upd_same. destruct (prog s t0); [discriminate|]. simpl in *. lia.
      * exists h', s'. split; auto. simpl. rewrite H1. exact R.
    + exfalso. destruct I as (J1 & J2 & J3).
      assert (HI : In l (held u)) by (apply J2; auto).
      pose proof (J1 u) as Ou. rewrite (Hother u Nu) in Ou. apply ordered_nil in Ou.
      rewrite Ou in HI. destruct HI.
Qed.

Theorem solo_run_returns : forall progs t0,
  ordered [] (progs t0) = true -> (forall t, t <> t0 -> progs t = []) ->
  exists s', run step (init_of progs) (solo t0 (length (progs t0))) = Some s' /\
             (forall t, prog s' t = []) /\ (forall l, owner s' l = None).
Proof.
  intros progs t0 Ho Hother.
  assert (I : Inv (fun _ => []) (init_of progs)).
  { apply Inv_init. intros t. destruct (Nat.eq_dec t t0) as [->|N]; auto. rewrite Hother; auto. }
  destruct (solo_from _ _ t0 I Hother _ eq_refl) as (h' & s' & R & I' & Hnil).
  exists s'. split; auto. split; auto.
  intros l. destruct (owner s' l) as [u|] eqn:Eo; auto. exfalso.
  destruct I' as (J1 & J2 & J3). pose proof (J1 u) as Ou. rewrite Hnil in Ou. apply ordered_nil in Ou.
  apply J2 in Eo. rewrite Ou in Eo. destruct Eo.
Qed.


(* nested submission: a well-formed layered program (it may re-enter RLock gates / executor locks it holds, through
   any number of inline downward and upward calls) run by one thread with nobody else around runs to its end *)
Theorem layers_solo_returns : forall K t0 th, lwf K th = true ->
  exists s', run step (init_of (only t0 (lflat K th))) (solo t0 (length (lflat K th))) = Some s' /\
             (forall t, prog s' t = []) /\ (forall l, owner s' l = None).
Proof.
  intros K t0 th Hw.
  assert (E : only t0 (lflat K th) t0 = lflat K th) by (unfold only; rewrite Nat.eqb_refl; reflexivity).
  pose proof (solo_run_returns (only t0 (lflat K th)) t0) as H. rewrite E in H. apply H.
  - apply wf_layers_ordered. exact Hw.
  - intros t N. unfold only. apply Nat.eqb_neq in N. rewrite N. reflexivity.
Qed.

(* step_nr with every lock re-entrant is Locks.step *)
Lemma step_nr_all_reentrant s t : step_nr (fun _ => true) s t = step s t.
Proof.
  unfold step_nr. destruct (prog s t) as [|[l|l] r]; auto.
  destruct (owner s l) as [u|]; auto. rewrite andb_false_r. reflexivity.
Qed.

(* a non-reentrant lock requested by its owner blocks for ever: nobody but the owner can release it *)
Theorem nonreentrant_self_block : forall rl s t l r,
  prog s t = Acq l :: r -> owner s l = Some t -> rl l = false -> step_nr rl s t = None.
Proof.
  intros rl s t l r Ep Eo Hr. unfold step_nr. rewrite Ep, Eo, Nat.eqb_refl, Hr. reflexivity.
Qed.
