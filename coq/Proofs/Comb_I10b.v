(* I10b: (bool kinds) after the decision every input is done or has a cancel() pending. *)
From Coq Require Import List Arith Bool Lia PeanoNat ZArith.
From ME Require Import Base.Machine Base.Fut Base.GenPrelude Gen.BoolGen Gen.ZipGen Model.Comb Proofs.Comb_Spec.
From ME Require Import Proofs.Comb_I0 Proofs.Comb_I1 Proofs.Comb_I2 Proofs.Comb_I4 Proofs.Comb_I8 Proofs.Comb_I10a.
Import ListNotations.

Definition LF (s : st) : Prop :=
  cdone s = true -> ck s <> KZip -> ~ In out_id (inputs s) ->
  forall x, In x (inputs s) -> fdone (es s x) = true \/ pend (thr s) (ICancelIn x).

Lemma keep_cancelin x : keepable (ICancelIn x). Proof. split; intros; discriminate. Qed.

Lemma cancel_in x l : x <> out_id -> In x l -> In (ICancelIn x) (map cancel_instr l).
Proof.
  intros Hx Hin. apply in_map_iff. exists x. split; auto. unfold cancel_instr.
  apply Nat.eqb_neq in Hx. rewrite Hx. reflexivity.
Qed.

(* executing a pending cancel() completes the input *)
Lemma cancel_exec s e s' x r : I4 s -> step s e = Some s' -> thr s (actor e) = ICancelIn x :: r ->
  fdone (es s' x) = true.
Proof.
  intros J H Hr. destruct e; simpl in Hr; step_inv H; try congruence; clean;
  inversion Hr; subst; simpl; rewrite upd_same;
  destruct (i4_es _ J x) as [E|[E|E]]; rewrite E in *; simpl in *;
  repeat match goal with Hq : (_, _) = (_, _) |- _ => inversion Hq; clear Hq; subst end; auto.
Qed.

Lemma pend_cancel_step s e s' x : I1 s -> I4 s -> step s e = Some s' ->
  fdone (es s x) = true \/ pend (thr s) (ICancelIn x) ->
  fdone (es s' x) = true \/ pend (thr s') (ICancelIn x).
Proof.
  intros I J H [Hd|[u Hu]].
  - left. eapply step_done_mono; eauto.
  - destruct (step_pending _ _ _ u _ I H (keep_cancelin x) Hu) as [Hk|[-> [r Hr]]].
    + right. exists u. exact Hk.
    + left. eapply cancel_exec; eauto.
Qed.

Lemma LF_step s e s' : I1 s -> I2 s -> I4 s -> LO s -> LF s -> step s e = Some s' -> LF s'.
Proof.
  intros I K J L F H Hc' Hk' Ho' x Hx'.
  destruct (built s) eqn:Hb.
  2:{ exfalso. pose proof (lo_unb _ L Hb) as C. destruct (i4_unb _ J Hb) as (Ht & _).
      destruct e; pose proof (Ht t) as Htt; step_inv H; simpl in *; congruence. }
  destruct (step_built _ _ _ H Hb) as (_ & Hi & Hk). rewrite Hi in *. rewrite Hk in *.
  destruct (cdone s) eqn:Hc.
  { eapply pend_cancel_step; eauto. }
  destruct (in_dec Nat.eq_dec x (fsd s)) as [Hin|Hn].
  2:{ left. eapply step_done_mono; eauto. apply (i4_fsd _ J); auto. }
  assert (Hxo : x <> out_id) by (intros ->; contradiction).
  right. exists (actor e).
  destruct e; step_inv H; simpl in *; try congruence; rewrite upd_same;
  repeat match goal with |- context [if ?c then _ else _] => destruct c end; simpl;
  repeat match goal with |- _ = _ \/ _ => right end;
  apply in_or_app; left; apply cancel_in; auto; try (apply in_or_app; auto).
Qed.
