(* Position invariant: some instructions only ever occur at the head of a program. *)
From Coq Require Import List ZArith Bool Arith Lia.
From RecordUpdate Require Import RecordSet.
From ME Require Import Base.Machine Base.Fut Base.GenPrelude Gen.RetryGen Model.Retry Proofs.Retry_Spec Proofs.Retry_C0 Proofs.Retry_C1.
Import ListNotations RecordSetNotations.

Definition nh (i : instr) : bool :=
  match i with
  | IDCbCancelled _ _ | IPolSR _ | IPolST _ | IXRetry _ _ | IDoneW _ | IDSubmit _
  | IXCancelScan _ | IDCancel _ _ _ => false
  | _ => true
  end.
Definition posok (p : list instr) : bool := forallb nh (tl p).

Lemma nh_all_posok p : forallb nh p = true -> posok p = true.
Proof. destruct p; simpl; auto. intros H. apply andb_true_iff in H. apply H. Qed.
Lemma nh_norm : forall p b, forallb nh p = true -> forallb nh (norm b p) = true.
Proof.
  induction p as [|i r IH]; intros b H.
  - destruct b; reflexivity.
  - simpl in H. apply andb_true_iff in H. destruct H as [Hi Hr].
    destruct i; simpl; try (apply IH; exact Hr); try discriminate Hi;
      (destruct b; [apply IH; exact Hr|simpl; exact Hr]).
Qed.
Lemma posok_norm p : posok p = true -> posok (norm false p) = true.
Proof.
  destruct p as [|i r]; [reflexivity|]. unfold posok. simpl tl. intros H.
  destruct i; try exact H; simpl; apply nh_all_posok; apply nh_norm; exact H.
Qed.
Lemma nh_cbs j l : forallb nh (cbs_prog j l) = true.
Proof. induction l as [|c l IH]; simpl; [reflexivity|]. destruct c; simpl; exact IH. Qed.
Lemma nh_tl p : forallb nh p = true -> forallb nh (tl p) = true.
Proof. destruct p; simpl; auto. intros H. apply andb_true_iff in H. apply H. Qed.

Lemma POS_step0 s e s' : step0 s e = Some s' -> (forall t, posok (thr s t) = true) ->
  forall t, posok (thr s' t) = true.
Proof.
  intros H HP t. pose proof (HP t) as Hok. s0inv H; try exact Hok.
  all: thr_norm Hok.
  all: unfold posok in Hok; simpl in Hok.
  all: try (apply nh_all_posok, nh_norm; assumption).
  all: try (unfold posok; simpl; rewrite ?Hok; reflexivity).
  - apply nh_all_posok, nh_norm. rewrite forallb_app, nh_cbs. exact Hok.
  - unfold posok. simpl. apply nh_tl. exact Hok.
  - destruct (dcb s d); reflexivity.
  - destruct (dcb s d); reflexivity.
Qed.

Lemma POS_reach s : reachable_from step init s -> forall t, posok (thr s t) = true.
Proof.
  apply (invariant_rule step (fun s => forall t, posok (thr s t) = true)).
  - intros t. reflexivity.
  - intros s0 e s' IH H. apply step_split in H. destruct H as (s1 & Ht & H).
    apply tick_eq in Ht. subst s1. eapply POS_step0; [exact H|exact IH].
Qed.
