(* C03 / Throttle, exact accounting of the running count (part 1: definitions, generic lemmas, simple events).

   Throttle_Tok proves  committed + tokens <= running  (what c07_inflight_true needs).  Here the exact equation:
     running s = q1 (thr s H) + q2 (thr s H) + (|hadm s| while H owns X) + sum over d < ndel s of tokens of d
   It needs no knowledge of the shape of the hand-over program: a popped job is counted in hadm and, until the
   increment is done, cancelled by the pending IAcqA AIncr (weight -1 in q2). *)
From Coq Require Import ZArith List Bool Arith Lia.
From RecordUpdate Require Import RecordSet.
From ME Require Import Base.Machine Base.Fut Base.GenPrelude Gen.ThrottleGen Model.Throttle
  Proofs.Throttle_Spec Proofs.Throttle_Inv Proofs.Throttle_Fifo Proofs.Throttle_Tok Proofs.Throttle_TokA Proofs.Throttle_TokB.
Import ListNotations RecordSetNotations.
Local Open Scope Z_scope.

Definition Qx (s : st) : Z :=
  q1 (thr s H) + q2 (thr s H) + (if owned (xown s) H then Z.of_nat (length (hadm s)) else 0).

Record InvE (N : nat) (s : st) : Prop := {
  e_sup : forall t, (N <= t)%nat -> thr s t = [];
  e_eq : running s = Qx s + sumT (ndel s) (tokN N s);
  e_one : forall d, tokN N s d <= 1          (* a delegate future has at most one token *)
}.

Lemma invE_mono N N' s : InvE N s -> (N <= N')%nat -> InvE N' s.
Proof.
  intros [S1 R1 O1] Hle. constructor.
  - intros t Ht. apply S1. lia.
  - rewrite (sumT_ext _ (tokN N' s) (tokN N s)) by (intros; apply tokN_mono; auto). exact R1.
  - intros d. rewrite (tokN_mono N N') by auto. apply O1.
Qed.
Lemma invE_log N s h : InvE N s -> InvE N (log s h).
Proof. intros [S1 R1 O1]. constructor; auto. Qed.

Lemma Qx_eq s s' : xown s' = xown s -> hadm s' = hadm s -> q1 (thr s' H) = q1 (thr s H) -> q2 (thr s' H) = q2 (thr s H) ->
  Qx s' = Qx s.
Proof. intros E1 E2 E3 E4. unfold Qx. rewrite E1, E2, E3, E4. reflexivity. Qed.
Lemma Qx_upd s s' t p' :
  (forall u, thr s' u = upd (thr s) t p' u) -> xown s' = xown s -> hadm s' = hadm s ->
  q1 p' = q1 (thr s t) -> q2 p' = q2 (thr s t) -> Qx s' = Qx s.
Proof.
  intros Hthr E1 E2 E3 E4. apply Qx_eq; auto; rewrite Hthr;
    (destruct (Nat.eq_dec t H) as [->|Hne]; [rewrite upd_same; auto|rewrite upd_other by (intro; apply Hne; auto); reflexivity]).
Qed.
Lemma Qx_set_prog_H s1 p :
  Qx (set_prog s1 H p) = q1 p + q2 p + (if owned (xown s1) H then Z.of_nat (length (hadm s1)) else 0).
Proof.
  unfold Qx, set_prog. simpl (thr _). simpl (xown _). simpl (hadm _). rewrite upd_same, q1_norm, q2_norm. reflexivity.
Qed.
Lemma Qx_unfold s : Qx s = q1 (thr s H) + q2 (thr s H) + (if owned (xown s) H then Z.of_nat (length (hadm s)) else 0).
Proof. reflexivity. Qed.

Lemma invE_step N s s' t p' :
  InvE N s -> (t < N)%nat ->
  (forall u, thr s' u = upd (thr s) t p' u) ->
  ndel s' = ndel s ->
  Qx s' - Qx s = running s' - running s ->
  (forall d, cT d p' + cb (dcbs s' d) = cT d (thr s t) + cb (dcbs s d)) ->
  InvE N s'.
Proof.
  intros [S1 R1 O1] Ht Hthr Hn HQ Htok.
  assert (Etok : forall d, tokN N s' d = tokN N s d).
  { intro d. rewrite (tokN_change N s s' t p' d Ht Hthr). specialize (Htok d). lia. }
  constructor.
  - intros u Hu. rewrite Hthr, upd_other by lia. apply S1; exact Hu.
  - rewrite Hn. rewrite (sumT_ext _ (tokN N s') (tokN N s)) by (intros; apply Etok). lia.
  - intros d. rewrite Etok. apply O1.
Qed.

Lemma invE_set_g N s s1 t p :
  InvE N s -> (t < N)%nat ->
  thr s1 = thr s -> ndel s1 = ndel s -> running s1 = running s -> xown s1 = xown s -> hadm s1 = hadm s ->
  (forall d, cT d p + cb (dcbs s1 d) = cT d (thr s t) + cb (dcbs s d)) ->
  q1 p = q1 (thr s t) -> q2 p = q2 (thr s t) ->
  InvE N (set_prog s1 t p).
Proof.
  intros I Ht E1 E2 E3 E4 E5 HT H1 H2.
  apply (invE_step N s _ t (norm s1 p) I Ht).
  - intros u. unfold set_prog. simpl. rewrite E1. reflexivity.
  - exact E2.
  - rewrite (Qx_upd s (set_prog s1 t p) t (norm s1 p)); auto.
    + unfold set_prog. simpl. lia.
    + intros u. unfold set_prog. simpl. rewrite E1. reflexivity.
    + rewrite q1_norm. exact H1.
    + rewrite q2_norm. exact H2.
  - intros d. rewrite cT_norm. exact (HT d).
Qed.

Lemma invE_set N s s1 t p :
  InvE N s -> (t < N)%nat ->
  thr s1 = thr s -> ndel s1 = ndel s -> running s1 = running s -> xown s1 = xown s -> hadm s1 = hadm s ->
  (forall d, cb (dcbs s1 d) = cb (dcbs s d)) ->
  same_meas p (thr s t) ->
  InvE N (set_prog s1 t p).
Proof.
  intros I Ht E1 E2 E3 E4 E5 Hcb Hm.
  apply (invE_set_g N s); auto.
  - intros d. rewrite Hcb. unfold cT. rewrite (Hm (wT d) (good_wT d)). reflexivity.
  - apply (Hm wS good_wS).
  - apply (Hm wQ good_wQ).
Qed.

Lemma neutral_same_meas pre : forallb neutral pre = true -> same_meas pre [].
Proof.
  intros Hp w Hg. induction pre as [|i r IH]; [reflexivity|]. simpl in Hp. apply andb_prop in Hp. destruct Hp as [A B].
  simpl. rewrite (Hg i A), (IH B). reflexivity.
Qed.

Lemma invE_sub_check N s s1 t v rest :
  InvE N s -> (t < N)%nat ->
  thr s1 = thr s -> ndel s1 = ndel s -> running s1 = running s -> xown s1 = xown s -> hadm s1 = hadm s ->
  (forall d, cb (dcbs s1 d) = cb (dcbs s d)) ->
  same_meas rest (thr s t) ->
  InvE N (sub_check s1 t v rest).
Proof.
  intros I Ht E1 E2 E3 E4 E5 Hcb Hm. unfold sub_check.
  assert (Hn : forall pre, forallb neutral pre = true -> same_meas (pre ++ rest) (thr s t)).
  { intros pre Hp. apply same_meas_app; [apply neutral_same_meas; exact Hp|exact Hm]. }
  destruct (blk s1 && negb (shut s1)); [destruct (block_ready (qlen s1) v) as [[|]|]|];
    repeat apply invE_log; apply (invE_set N s); auto;
    first [ apply (Hn enq_prog); reflexivity | apply (Hn [IWait 30 (WSub v)]); reflexivity
          | apply (Hn [IRelG; IRetRaise]); reflexivity ].
Qed.
Lemma invE_after_wait N s s1 t k rest :
  InvE N s -> (t < N)%nat ->
  thr s1 = thr s -> ndel s1 = ndel s -> running s1 = running s -> xown s1 = xown s -> hadm s1 = hadm s ->
  (forall d, cb (dcbs s1 d) = cb (dcbs s d)) ->
  same_meas rest (thr s t) ->
  InvE N (after_wait s1 t k rest).
Proof.
  intros I Ht E1 E2 E3 E4 E5 Hcb Hm. destruct k; simpl.
  - apply (invE_set N s s1 t _ I Ht E1 E2 E3 E4 E5 Hcb).
    intros w Hg. simpl. rewrite (Hg IClear eq_refl), (Hm w Hg). reflexivity.
  - apply (invE_sub_check N s); auto.
Qed.
Lemma invE_start_iter N s s1 t :
  InvE N s -> (t < N)%nat ->
  thr s1 = thr s -> ndel s1 = ndel s -> running s1 = running s -> xown s1 = xown s -> hadm s1 = hadm s ->
  (forall d, cb (dcbs s1 d) = cb (dcbs s d)) ->
  same_meas [] (thr s t) ->
  InvE N (start_iter s1 t).
Proof.
  intros I Ht E1 E2 E3 E4 E5 Hcb Hm. unfold start_iter.
  destruct (shut s1); [|destruct (dyn s1)]; apply (invE_set N s); auto;
    intros w Hg; rewrite <- (Hm w Hg); simpl;
    rewrite ?(Hg IExit eq_refl), ?(Hg (ICount CH) eq_refl), ?(Hg IXAcqH eq_refl); reflexivity.
Qed.

Ltac efin I N s :=
  repeat apply invE_log;
  first [ apply (invE_set N s) | apply (invE_sub_check N s) | apply (invE_after_wait N s) ]; kside I.
Ltac ehandler I Hx N s := brk Hx; inv_some Hx; efin I N s.

Ltac idle_goalE :=
  let w := fresh "w" in let Hg := fresh "Hg" in
  intros w Hg;
  match goal with E : idle _ _ && _ = true |- _ => apply andb_prop in E; destruct E as [E _] | _ => idtac end;
  match goal with E : idle ?s ?t = true |- _ => rewrite (idle_nil s t E) end;
  cbn [msum]; kill_w w Hg; lia.

Lemma do_call_submit_invE N s t s' : InvE N s -> (t < N)%nat -> do_call_submit s t = Some s' -> InvE N s'.
Proof. intros I Ht Hx. unfold do_call_submit in Hx. brk Hx. inv_some Hx. apply (invE_set N s); try kside I. idle_goalE. Qed.
Lemma do_call_shutdown_invE N s t w s' : InvE N s -> (t < N)%nat -> do_call_shutdown s t w = Some s' -> InvE N s'.
Proof. intros I Ht Hx. unfold do_call_shutdown in Hx. brk Hx. inv_some Hx. apply (invE_set N s); try kside I. idle_goalE. Qed.
Lemma do_call_cancel_invE N s t j s' : InvE N s -> (t < N)%nat -> do_call_cancel s t j = Some s' -> InvE N s'.
Proof. intros I Ht Hx. unfold do_call_cancel in Hx. brk Hx. inv_some Hx. apply (invE_set N s); try kside I. idle_goalE. Qed.
Lemma do_ret_invE N s t c s' : InvE N s -> (t < N)%nat -> do_ret s t c = Some s' -> InvE N s'.
Proof. intros I Ht Hx. unfold do_ret in Hx. ehandler I Hx N s. Qed.
Lemma do_acq_g_invE N s t s' : InvE N s -> (t < N)%nat -> do_acq_g s t = Some s' -> InvE N s'.
Proof. intros I Ht Hx. unfold do_acq_g in Hx. ehandler I Hx N s. Qed.
Lemma do_rel_g_invE N s t s' : InvE N s -> (t < N)%nat -> do_rel_g s t = Some s' -> InvE N s'.
Proof. intros I Ht Hx. unfold do_rel_g in Hx. ehandler I Hx N s. Qed.
Lemma do_xsec_invE N s t s' : InvE N s -> (t < N)%nat -> do_xsec s t = Some s' -> InvE N s'.
Proof. intros I Ht Hx. unfold do_xsec in Hx. ehandler I Hx N s. Qed.
Lemma do_rel_a_invE N s t s' : InvE N s -> (t < N)%nat -> do_rel_a s t = Some s' -> InvE N s'.
Proof. intros I Ht Hx. unfold do_rel_a in Hx. ehandler I Hx N s. Qed.
Lemma do_evset_invE N s t s' : InvE N s -> (t < N)%nat -> do_evset s t = Some s' -> InvE N s'.
Proof. intros I Ht Hx. unfold do_evset in Hx. ehandler I Hx N s. Qed.
Lemma do_dshutdown_invE N s t s' : InvE N s -> (t < N)%nat -> do_dshutdown s t = Some s' -> InvE N s'.
Proof. intros I Ht Hx. unfold do_dshutdown in Hx. ehandler I Hx N s. Qed.
Lemma do_acq_m_invE N s t j s' : InvE N s -> (t < N)%nat -> do_acq_m s t j = Some s' -> InvE N s'.
Proof. intros I Ht Hx. unfold do_acq_m in Hx. ehandler I Hx N s. Qed.
Lemma do_rel_m_invE N s t j s' : InvE N s -> (t < N)%nat -> do_rel_m s t j = Some s' -> InvE N s'.
Proof. intros I Ht Hx. unfold do_rel_m in Hx. ehandler I Hx N s. Qed.
Lemma do_wait_invE N s t r s' : InvE N s -> (t < N)%nat -> do_wait s t r = Some s' -> InvE N s'.
Proof. intros I Ht Hx. unfold do_wait in Hx. ehandler I Hx N s. Qed.
Lemma do_woke_invE N s t k s' : InvE N s -> (t < N)%nat -> do_woke s t k = Some s' -> InvE N s'.
Proof. intros I Ht Hx. unfold do_woke in Hx. ehandler I Hx N s. Qed.
Lemma do_fm_invE N s t op j p s' : InvE N s -> (t < N)%nat -> do_fm s t op j p = Some s' -> InvE N s'.
Proof. intros I Ht Hx. unfold do_fm in Hx. ehandler I Hx N s. Qed.
Lemma do_count_invE N s t a s' : InvE N s -> (t < N)%nat -> do_count s t a = Some s' -> InvE N s'.
Proof. intros I Ht Hx. unfold do_count in Hx. ehandler I Hx N s. Qed.
Lemma do_exit_invE N s s' : InvE N s -> (H < N)%nat -> do_exit s = Some s' -> InvE N s'.
Proof. intros I Ht Hx. unfold do_exit in Hx. ehandler I Hx N s. Qed.
Lemma do_hstart_invE N s s' : InvE N s -> (H < N)%nat -> do_hstart s = Some s' -> InvE N s'.
Proof.
  intros I Ht Hx. unfold do_hstart in Hx. brk Hx. inv_some Hx.
  apply (invE_start_iter N s); try kside I.
Qed.
Lemma do_clear_invE N s t s' : InvE N s -> (t < N)%nat -> do_clear s t = Some s' -> InvE N s'.
Proof.
  intros I Ht Hx. unfold do_clear in Hx. brk Hx. inv_some Hx.
  apply (invE_start_iter N s); try kside I.
Qed.
