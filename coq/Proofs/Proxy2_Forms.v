(* C17 / Proxy2: every shape of generated body, run by the evaluator on a future that is Resolved / Failed / Pending, is ONE
   result(timeout) call followed by the operation on the value; the constant and inherited methods perform none. *)
From Coq Require Import String List Bool Arith ZArith.
From ME Require Import Base.GenPrelude Base.ProxyPrelude Gen.ProxyGen Gen.Proxy2Gen Model.Proxy Model.Proxy2 Proofs.Proxy2_Dispatch.
Import ListNotations.
Local Open Scope string_scope.
Local Open Scope list_scope.

Section Forms.
  Variable val : Type.
  Variable cmeth : val -> string -> option (list val -> cres val).
  Variable bpost : string -> res val -> res val.
  Variable bfallback : string -> val -> list val -> cres val.
  Variable fs : pstate val.
  Variable tmo : tval.
  Variable is_attr_err : nat -> bool.
  Variable vgetattr : val -> string -> cres val.
  Variable vtrue vfalse vnone : val.
  Variable obj_sem : string -> list val -> res val.
  Variable p : val.
  Notation PM := (pmeth val cmeth bpost bfallback fs tmo is_attr_err vgetattr vtrue vfalse vnone obj_sem).
  Notation RUN := (run_method val cmeth bpost bfallback fs tmo is_attr_err vgetattr vtrue vfalse vnone).
  Notation SM1 := (selfm1 val cmeth bpost bfallback fs tmo is_attr_err vgetattr vtrue vfalse vnone).
  Notation AR := (after_resolve val fs tmo).
  Notation CBIN := (cbinop val cmeth).
  Notation CUN := (cunop val cmeth).
  Notation CBUILTIN := (cbuiltin val cmeth bpost bfallback).
  Notation CALLB := (call_builtin val cmeth bpost bfallback).
  Notation CMCALL := (cmethod_call val cmeth).
  (* the object p IS a ProxyFuture: its special methods are the generated bodies (and what object / Future define) *)
  Notation PAT := (proxy_at val cmeth bpost bfallback fs tmo is_attr_err vgetattr vtrue vfalse vnone obj_sem p).
  Hypothesis HS : sane_attr_err is_attr_err.

  Lemma proxy_at_some name args m : PAT name args -> find_body name = Some m ->
    exists f, cmeth p name = Some f /\ f args = RUN SM1 m args.
  Proof.
    unfold proxy_at, pmeth. intros H HF. rewrite HF in H. destruct (cmeth p name) as [f|]; [|contradiction].
    exists f. split; [reflexivity|exact H].
  Qed.

  Definition post_ok (fn : string) : Prop :=
    (forall r, bpost fn (bpost fn r) = bpost fn r) /\ (forall e, bpost fn (RExc e) = RExc e) /\
    (forall a rest, bpost fn (fst (bfallback fn a rest)) = fst (bfallback fn a rest)).

  Lemma pair_eta (r : cres val) : (fst r, snd r) = r.
  Proof. destruct r; reflexivity. Qed.
  Lemma AR_ext k k' : (forall v, k v = k' v) -> AR k = AR k'.
  Proof. intros H. unfold after_resolve. destruct (resolve val fs tmo); try reflexivity. rewrite H. reflexivity. Qed.
  Lemma AR_not_notimpl k : (forall v, fst (k v) <> RNotImpl) -> fst (AR k) <> RNotImpl.
  Proof.
    intros H. unfold after_resolve. destruct (resolve val fs tmo) eqn:E; simpl; try discriminate; [apply H|].
    destruct fs; simpl in E; try discriminate. destruct tmo; discriminate.
  Qed.
  Lemma AR_post fn k : post_ok fn -> (forall v, bpost fn (fst (k v)) = fst (k v)) -> bpost fn (fst (AR k)) = fst (AR k).
  Proof.
    intros (_ & PE & _) H. unfold after_resolve. destruct (resolve val fs tmo) eqn:E; simpl; [apply H| |apply PE].
    destruct fs; simpl in E; try discriminate. destruct tmo; discriminate.
  Qed.
  Lemma bind1_val (v : val) (k : val -> cres val) : bind1 val (RVal v, []) k = k v.
  Proof. unfold bind1; simpl. apply pair_eta. Qed.
  Lemma match_not_notimpl (r : cres val) (X : cres val) :
    fst r <> RNotImpl -> match fst r with RNotImpl => X | x => (x, snd r) end = r.
  Proof. destruct r as [[v| |e] l]; simpl; intros H; try reflexivity. contradiction. Qed.
  Lemma no_notimpl_id (r : res val) : r <> RNotImpl -> no_notimpl val r = r.
  Proof. destruct r; simpl; intros H; try reflexivity. contradiction. Qed.

  Lemma cbuiltin_post_normal fn a rest : post_ok fn -> bpost fn (fst (CBUILTIN fn a rest)) = fst (CBUILTIN fn a rest).
  Proof.
    intros (PI & _ & PF). unfold cbuiltin. destruct (cmeth a (builtin_dunder fn)) as [f|]; simpl; [apply PI|apply PF].
  Qed.
  Lemma callb_post_normal fn vs : post_ok fn -> vs <> [] -> bpost fn (fst (CALLB fn vs)) = fst (CALLB fn vs) \/
    exists rop a b, CALLB fn vs = CBIN (builtin_dunder fn) rop a b.
  Proof.
    intros PO N. destruct vs as [|a rest]; [contradiction|]. unfold call_builtin.
    destruct (binary_builtin fn (length (a :: rest))) as [rop|].
    - right. eauto.
    - left. apply cbuiltin_post_normal; exact PO.
  Qed.

  (* ---- FBinOp: `return self.__result <op> other` ---------------------------------------------------- *)
  Theorem binop_body_resolves_once name rn a o b :
    PAT name [b] ->
    find_body name = Some (name, [(a, false)], BBin o BResult (BArg a)) -> pop_dunder o = (name, rn) ->
    CBIN name rn p b = AR (fun v => CBIN name rn v b).
  Proof.
    intros HA HF HO. unfold cbinop at 1. destruct (proxy_at_some _ _ _ HA HF) as (f & Ef & Efa). rewrite Ef, Efa.
    assert (RUN SM1 (name, [(a, false)], BBin o BResult (BArg a)) [b] = AR (fun v => CBIN name rn v b)) as E.
    { unfold run_method. simpl. rewrite HO. simpl. rewrite String.eqb_refl.
      rewrite (bind1_get_result _ _ _ _ _ _ _ HS). apply AR_ext. intros v. apply bind1_val. }
    rewrite E. apply match_not_notimpl. apply AR_not_notimpl. intros v. apply cbinop_never_notimpl.
  Qed.

  (* ---- FUnOp: `return <op> self.__result` ----------------------------------------------------------- *)
  Theorem unop_body_resolves_once name rn o :
    PAT name [] ->
    find_body name = Some (name, [], BUn o BResult) -> pop_dunder o = (name, rn) ->
    CUN name p = AR (fun v => CUN name v).
  Proof.
    intros HA HF HO. unfold cunop at 1. destruct (proxy_at_some _ _ _ HA HF) as (f & Ef & Efa). rewrite Ef, Efa.
    assert (RUN SM1 (name, [], BUn o BResult) [] = AR (fun v => CUN name v)) as E.
    { unfold run_method. simpl. rewrite HO. simpl. apply (bind1_get_result _ _ _ _ _ _ _ HS). }
    rewrite E. rewrite no_notimpl_id; [apply pair_eta|]. apply AR_not_notimpl. intros v. apply cunop_never_notimpl.
  Qed.

  Lemma eval_args_cons (en : env val) ev b r : match b with BStar _ => False | _ => True end ->
    eval_args_with val en ev (b :: r) =
      match fst (ev b) with
      | RVal v => match eval_args_with val en ev r with
                  | (inl vs, lg) => (inl (v :: vs), snd (ev b) ++ lg)
                  | (inr x, lg) => (inr x, snd (ev b) ++ lg) end
      | x => (inr x, snd (ev b)) end.
  Proof. destruct b; intros H; try contradiction; reflexivity. Qed.

  (* ---- FBuiltin: `return builtin(self.__result, a, *b)` ---------------------------------------------- *)
  Lemma builtin_body_run name params fn args :
    nodup_names (map fst params) = true -> arity_ok val params args = true ->
    RUN SM1 (name, params, BCall fn (BResult :: args_of_params params)) args = AR (fun v => CALLB fn (v :: args)).
  Proof.
    intros ND AO. unfold run_method. simpl fst; simpl snd. rewrite AO.
    set (en := bind val params args).
    cbn [eval].
    set (ev := eval val cmeth bpost bfallback fs tmo is_attr_err vgetattr vtrue vfalse vnone SM1 en).
    assert (eval_args_with val en ev (args_of_params params) = (inl args, [])) as EA.
    { apply eval_args_params; auto; intros n; reflexivity. }
    rewrite (eval_args_cons en ev BResult (args_of_params params) I).
    rewrite EA. clear EA. subst ev. cbn [eval]. rewrite !(get_result_eq _ _ _ _ _ _ HS). simpl fst; simpl snd.
    unfold after_resolve, bindl. destruct (resolve val fs tmo); simpl; rewrite ?app_nil_r; reflexivity.
  Qed.
  Theorem builtin_body_resolves_once name params fn args :
    PAT name args ->
    find_body name = Some (name, params, BCall fn (BResult :: args_of_params params)) -> builtin_dunder fn = name ->
    nodup_names (map fst params) = true -> arity_ok val params args = true -> post_ok fn ->
    CALLB fn (p :: args) = AR (fun v => CALLB fn (v :: args)).
  Proof.
    intros HA HF HD ND AO PO.
    pose proof (builtin_body_run name params fn args ND AO) as E.
    destruct (proxy_at_some _ _ _ HA HF) as (f & Ef & Efa).
    unfold call_builtin at 1. simpl length.
    destruct (binary_builtin fn (S (length args))) as [rop|] eqn:EB.
    - (* divmod / two-argument pow: a binary operator *)
      unfold cbinop. rewrite HD, Ef.
      assert (args = [hd p args]) as EA.
      { unfold binary_builtin in EB. destruct (Nat.eqb (S (length args)) 2) eqn:E2; [|discriminate].
        apply Nat.eqb_eq in E2. destruct args as [|x [|y r]]; simpl in E2; try discriminate. reflexivity. }
      rewrite <- EA. rewrite Efa, E. apply match_not_notimpl. apply AR_not_notimpl. intros v.
      unfold call_builtin. simpl length. rewrite EB. apply cbinop_never_notimpl.
    - unfold cbuiltin at 1. rewrite HD, Ef, Efa, E.
      rewrite AR_post; [apply pair_eta|exact PO|]. intros v. unfold call_builtin. simpl length. rewrite EB.
      apply cbuiltin_post_normal; exact PO.
  Qed.

  (* ---- item access, containment: `self.__result[k]`, `self.__result[k] = v`, `del self.__result[k]`, `x in self.__result` *)
  Lemma item_via_body fn name m args (k : val -> cres val) :
    PAT name args ->
    builtin_dunder fn = name -> find_body name = Some m -> RUN SM1 m args = AR k -> post_ok fn ->
    (forall v, bpost fn (fst (k v)) = fst (k v)) -> CBUILTIN fn p args = AR k.
  Proof.
    intros HA HD HF E PO PK. unfold cbuiltin at 1. destruct (proxy_at_some _ _ _ HA HF) as (f & Ef & Efa). rewrite HD, Ef, Efa, E.
    rewrite AR_post; auto. apply pair_eta.
  Qed.
  Theorem getitem_body_resolves_once kn k :
    PAT "__getitem__" [k] ->
    find_body "__getitem__" = Some ("__getitem__", [(kn, false)], BGetItem BResult (BArg kn)) -> post_ok "operator.getitem" ->
    CBUILTIN "operator.getitem" p [k] = AR (fun v => CBUILTIN "operator.getitem" v [k]).
  Proof.
    intros HA HF PO. eapply item_via_body; [exact HA|reflexivity|exact HF| |exact PO|intros v; apply cbuiltin_post_normal; exact PO].
    unfold run_method. simpl. rewrite String.eqb_refl. rewrite (bind1_get_result _ _ _ _ _ _ _ HS). apply AR_ext. intros v. apply bind1_val.
  Qed.
  Theorem delitem_body_resolves_once kn k :
    PAT "__delitem__" [k] ->
    find_body "__delitem__" = Some ("__delitem__", [(kn, false)], BDelItem BResult (BArg kn)) -> post_ok "operator.delitem" ->
    CBUILTIN "operator.delitem" p [k] = AR (fun v => CBUILTIN "operator.delitem" v [k]).
  Proof.
    intros HA HF PO. eapply item_via_body; [exact HA|reflexivity|exact HF| |exact PO|intros v; apply cbuiltin_post_normal; exact PO].
    unfold run_method. simpl. rewrite String.eqb_refl. rewrite (bind1_get_result _ _ _ _ _ _ _ HS). apply AR_ext. intros v. apply bind1_val.
  Qed.
  Theorem setitem_body_resolves_once kn vn k x : String.eqb vn kn = false -> PAT "__setitem__" [k; x] ->
    find_body "__setitem__" = Some ("__setitem__", [(kn, false); (vn, false)], BSetItem BResult (BArg kn) (BArg vn)) ->
    post_ok "operator.setitem" ->
    CBUILTIN "operator.setitem" p [k; x] = AR (fun v => CBUILTIN "operator.setitem" v [k; x]).
  Proof.
    intros NE HA HF PO. eapply item_via_body; [exact HA|reflexivity|exact HF| |exact PO|intros v; apply cbuiltin_post_normal; exact PO].
    unfold run_method. simpl. rewrite !String.eqb_refl, NE. rewrite bind1_val.
    rewrite (bind1_get_result _ _ _ _ _ _ _ HS). apply AR_ext. intros v. apply bind1_val.
  Qed.
  Theorem contains_body_resolves_once xn x :
    PAT "__contains__" [x] ->
    find_body "__contains__" = Some ("__contains__", [(xn, false)], BContains (BArg xn) BResult) -> post_ok "operator.contains" ->
    CBUILTIN "operator.contains" p [x] = AR (fun v => CBUILTIN "operator.contains" v [x]).
  Proof.
    intros HA HF PO. eapply item_via_body; [exact HA|reflexivity|exact HF| |exact PO|intros v; apply cbuiltin_post_normal; exact PO].
    unfold run_method. simpl. rewrite String.eqb_refl. rewrite bind1_val. apply (bind1_get_result _ _ _ _ _ _ _ HS).
  Qed.

  (* ---- the explicit method call form (`__div__`, never looked up by Python 3): still one resolution --- *)
  Theorem method_call_body_resolves_once name mn a b :
    PAT name [b] ->
    find_body name = Some (name, [(a, false)], BMethod BResult mn [BArg a]) ->
    CMCALL name p [b] = AR (fun v => CMCALL mn v [b]).
  Proof.
    intros HA HF. unfold cmethod_call at 1. destruct (proxy_at_some _ _ _ HA HF) as (f & Ef & Efa). rewrite Ef, Efa.
    unfold run_method. simpl. rewrite String.eqb_refl. rewrite (bind1_get_result _ _ _ _ _ _ _ HS). apply AR_ext. intros v.
    unfold bindl. simpl. apply pair_eta.
  Qed.

  (* ---- constants and inherited methods: NO resolution, whatever the state of the future --------------- *)
  Theorem const_body_no_resolution name args : PAT name args ->
    find_body name = Some (name, [], BTrue) -> exists f, cmeth p name = Some f /\
      f args = if arity_ok val [] args then (RVal vtrue, []) else (RExc type_error, []).
  Proof.
    intros HA HF. destruct (proxy_at_some _ _ _ HA HF) as (f & Ef & Efa). exists f. split; [exact Ef|]. rewrite Efa.
    unfold run_method. simpl. reflexivity.
  Qed.
  Theorem inherited_no_resolution name args : PAT name args ->
    find_body name = None -> mem name object_dunders = true ->
    exists f, cmeth p name = Some f /\ f args = (obj_sem name args, []).
  Proof.
    unfold proxy_at, pmeth. intros HA HF HM. rewrite HF, HM in HA. destruct (cmeth p name) as [f|]; [|contradiction].
    exists f. split; [reflexivity|exact HA].
  Qed.
  Theorem unknown_special_method_absent name args : PAT name args ->
    find_body name = None -> mem name object_dunders = false -> cmeth p name = None.
  Proof.
    unfold proxy_at, pmeth. intros HA HF HM. rewrite HF, HM in HA. destruct (cmeth p name) as [f|]; [contradiction|reflexivity].
  Qed.
End Forms.
