(* C03 for the Poll machine, part 11: defect G1 as a theorem -- a poll future whose delegate was cancelled by
   somebody else stays pending FOR EVER (unless the client cancels the poll future itself).
   [lost s j]: the delegate of j is cancelled, j is not done, no callback is parked on the delegate, no thread's
   program mentions j, j was never registered for polling.  This set of states is closed under every event except
   a call of cancel() on j; and every reachable quiescent state with a cancelled delegate and a pending poll
   future is in it. *)
From Coq Require Import ZArith List Bool Arith Lia.
From RecordUpdate Require Import RecordSet.
From ME Require Import Base.Machine Base.Fut Base.GenPrelude Model.Poll Proofs.Poll_Inv Proofs.Poll_Prov
     Proofs.Poll_Raise Proofs.Poll_NoDup Proofs.Poll_Snap Proofs.Poll_Thms
     Proofs.Poll_N1 Proofs.Poll_N2 Proofs.Poll_N3 Proofs.Poll_N4 Proofs.Poll_N5 Proofs.Poll_N6 Proofs.Poll_N8
     Proofs.Poll_N9 Proofs.Poll_N10.
Import ListNotations RecordSetNotations.

(* the poll future an instruction works on *)
Definition idx (i : instr) : option nat :=
  match i with
  | IAddCbD j | IDoneA j | IAcqM j | IAcqMClr j | IRelM j | IRelMCbs j | ICancelled j | IDoneC j | IDCancel j
  | ICancelFnQ j | IFCancel j | IFSrnc j | IDCancelledQ j | IXDereg j
  | IUserCancelFn j _ | IXAcqReg j _ | IDoneS j _ | IDoneX j _ | IFSetRes j _ | IFSetExc j _ => Some j
  | _ => None
  end.
Definition free_of (j : nat) (p : list instr) : Prop := Forall (fun i => idx i <> Some j) p.

Definition lost (s : st) (j : nat) : Prop :=
  j < nfut s /\ fcancelled (ds s j) = true /\ fdone (ps s j) = false /\ dcb s j = false /\ tok s j = None /\
  nreg j (hist s) = 0 /\ forall t, free_of j (thr s t).

Lemma free_cancel_cont j s k r : k <> j -> free_of j r -> free_of j (cancel_cont s k ++ r).
Proof.
  intros Hk Hr. apply Forall_app. split; [|exact Hr]. unfold cancel_cont, cancel_no, cancel_ok.
  assert (Hn : Some k <> Some j) by congruence.
  destruct (negb (pexec s k)); [repeat constructor; simpl; auto; congruence|].
  destruct (negb (hascfn s)); [repeat constructor; simpl; auto; congruence|].
  destruct (lookup k (descs s)); repeat constructor; simpl; auto; congruence.
Qed.
Lemma free_norm j s p : free_of j p -> free_of j (norm s p).
Proof.
  destruct p as [|i r]; [auto|]. destruct i; auto. intros H. inversion H; subst. simpl in *.
  apply free_cancel_cont; [congruence|assumption].
Qed.
Lemma free_raise j e (sn : list (nat * nat)) :
  (forall k, In k (map fst sn) -> k <> j) -> free_of j (flat_map (fun p => exc_prog (fst p) e) sn).
Proof.
  induction sn as [|p r IH]; simpl; intros H; [constructor|].
  assert (Hp : fst p <> j) by (apply H; left; reflexivity).
  constructor; [simpl; congruence|]. constructor; [simpl; congruence|]. apply IH. intros k Hk. apply H. right. exact Hk.
Qed.

(* the head of the moving thread's program does not mention j *)
Ltac head_free_b Hb :=
  try match goal with
  | E : _ && issome (lookup ?a ?sn) = true, Em : pmode _ = PBody ?sn |- _ =>
      first [ pose proof (Hb _ (or_intror Em) a (lookup_some_in _ _ (proj2 (andb_prop _ _ E))))
            | pose proof (Hb sn (or_intror eq_refl) a (lookup_some_in _ _ (proj2 (andb_prop _ _ E)))) ]
  end.

Ltac head_free Hf :=
  try match goal with
  | E : thr ?s ?t = _ :: _ |- _ =>
      let Hh := fresh "Hh" in let Ht := fresh "Htl" in
      pose proof (Hf t) as Hh; rewrite E in Hh; inversion Hh as [|? ? Hhd Ht]; subst; simpl in Hhd; clear Hh
  end;
  try match goal with Hq : forall t0, ECallCancel ?t ?a <> ECallCancel t0 ?b |- _ =>
        assert (a <> b) by (let Hx := fresh in intros Hx; subst; apply (Hq t); reflexivity) end;
  repeat match goal with H : Some ?a <> Some ?b |- _ => assert (a <> b) by congruence; clear H end.

Ltac lost_scalar :=
  simpl in *; unfold upd in *; bools; cleanup; fst_eqs;
  repeat match goal with E : Nat.ltb _ _ = true |- _ => apply Nat.ltb_lt in E end;
  try solve [ assumption | congruence | lia | exfalso; congruence | exfalso; lia
            | eapply fcancel_keeps; eassumption | eapply fsrnc_keeps; eassumption
            | exfalso; match goal with E : f_set _ = Some _ |- _ => apply fset_not_cancelled in E; congruence end ].

Ltac free_goal Hf Hb :=
  let t0 := fresh "t0" in intros t0; pose proof (Hf t0) as Hf0;
  try match goal with |- context [upd (thr _) ?t _ t0] =>
    destruct (Nat.eq_dec t0 t) as [Heq|Hne];
    [ subst t0; rewrite (upd_same _ t); try apply free_norm; try (apply free_cancel_cont; [assumption|])
    | rewrite (upd_other _ t _ t0) by assumption; exact Hf0 ]
  end;
  try match goal with Em : pmode _ = PBody ?sn |- free_of _ (flat_map _ ?sn) =>
        apply free_raise; intros kk Hkk;
        first [ apply (Hb _ (or_intror Em)); exact Hkk | apply (Hb sn (or_intror eq_refl)); exact Hkk ] end;
  try match goal with |- context [yield_prog _ ?o] => destruct o end;
  try match goal with |- context [if ?c then [IXDereg _] else []] => destruct c end;
  try match goal with |- context [if ?c then resolved_prog _ else []] => destruct c eqn:? end;
  simpl; unfold free_of;
  repeat first [ apply Forall_nil | apply Forall_cons | apply Forall_app; split ];
  try solve [ exact Hf0 | assumption | simpl; congruence | simpl; discriminate
            | simpl; intros Hx; inversion Hx; subst; first [congruence | lia] ].

Lemma lost_step s e s' j :
  InvK s -> lost s j -> step s e = Some s' -> (forall t, snd e <> ECallCancel t j) -> lost s' j.
Proof.
  destruct e as [ts e]. intros IK L H Hnc. simpl in Hnc. apply step_inv in H. destruct H as [s1 [Ht H]].
  assert (I1 : lost s1 j /\ (forall l, pmode s1 = PCall l \/ pmode s1 = PBody l -> forall k, In k (map fst l) -> k <> j)).
  { assert (Hb : forall l, pmode s = PCall l \/ pmode s = PBody l -> forall k, In k (map fst l) -> k <> j).
    { intros l Hm k Hk ->. pose proof (k_body _ IK l Hm j Hk) as Hr. destruct L as [_ [_ [_ [_ [_ [Hz _]]]]]].
      unfold Rh in Hr. lia. }
    apply tick_inv in Ht. destruct Ht as [[-> _]|[-> _]]; [split; assumption|]. split; [exact L|exact Hb]. }
  clear L IK Ht s. destruct I1 as [[Hl [Hc [Hn [Hd [Hk [Hz Hf]]]]]] Hb].
  apply step0_inv in H. destruct H as [[c [d [Hev [_ Hs']]]]|[_ [H|[H|H]]]].
  - subst. unfold lost. simpl. auto 10.
  - open1 H; norm_eqs; head_free Hf; head_free_b Hb; unfold lost;
      (split; [lost_scalar|]); (split; [lost_scalar|]); (split; [lost_scalar|]); (split; [lost_scalar|]);
      (split; [lost_scalar|]); (split; [lost_scalar|]); try solve [simpl; free_goal Hf Hb].
  - open2 H; norm_eqs; head_free Hf; head_free_b Hb; unfold lost;
      (split; [lost_scalar|]); (split; [lost_scalar|]); (split; [lost_scalar|]); (split; [lost_scalar|]);
      (split; [lost_scalar|]); (split; [lost_scalar|]); try solve [simpl; free_goal Hf Hb].
  - open3 H; norm_eqs; head_free Hf; head_free_b Hb; unfold lost;
      (split; [lost_scalar|]); (split; [lost_scalar|]); (split; [lost_scalar|]); (split; [lost_scalar|]);
      (split; [lost_scalar|]); (split; [lost_scalar|]); try solve [simpl; free_goal Hf Hb].
Qed.

Definition no_cancel_of (j : nat) (es : list (Z * ev)) : Prop :=
  forall e, In e es -> forall t, snd e <> ECallCancel t j.

Lemma lost_run s es s' j :
  reachable s -> lost s j -> run step s es = Some s' -> no_cancel_of j es -> lost s' j.
Proof.
  revert s. induction es as [|e r IH]; simpl; intros s R L H Hn.
  - inversion H; subst; exact L.
  - destruct (step s e) as [s1|] eqn:E; [|discriminate].
    apply (IH s1).
    + eapply reachable_step; eauto.
    + eapply lost_step; [apply (c_k _ (reach_c12 s R))|exact L|exact E|]. apply Hn. left. reflexivity.
    + exact H.
    + intros e' He'. apply Hn. right. exact He'.
Qed.

Lemma quiescent_cancelled_lost s j :
  reachable s -> quiescent s -> j < nfut s -> delegate_cancelled s j -> fdone (ps s j) = false -> lost s j.
Proof.
  intros R Q Hl Hc Hn. destruct (cancelled_delegate_lost_lemma s j R Q Hl Hn Hc) as [Hd [Ht [Hz _]]].
  repeat split; auto. intros t. rewrite (quiescent_all s R Q). constructor.
Qed.

(* G1: from a quiescent state in which the delegate of a pending poll future is cancelled, whatever the
   environment, the clients and the poll thread do afterwards -- short of calling cancel() on that very poll
   future -- it stays pending, unregistered, and no poll call is ever shown it *)
Lemma lost_for_ever_lemma s j es s' :
  reachable s -> quiescent s -> j < nfut s -> delegate_cancelled s j -> fdone (ps s j) = false ->
  run step s es = Some s' -> no_cancel_of j es ->
  fdone (ps s' j) = false /\ delegate_cancelled s' j /\ ~ In j (map fst (descs s')) /\
  (forall l ts, In (HSnap l ts) (hist s') -> ~ In j (map fst l)).
Proof.
  intros R Q Hl Hc Hn H Hno.
  assert (R' : reachable s').
  { destruct R as [es0 R]. exists (es0 ++ es). rewrite run_app, R. exact H. }
  pose proof (lost_run s es s' j R (quiescent_cancelled_lost s j R Q Hl Hc Hn) H Hno) as [_ [Hc' [Hn' [_ [_ [Hz _]]]]]].
  split; [exact Hn'|]. split; [exact Hc'|]. split.
  - intros Hin. rewrite (i3_descs _ (reach_inv3 s' R')) in Hin. apply in_descs_nreg in Hin. lia.
  - intros l ts Hin Hj.
    destruct (in_split _ _ Hin) as [h1 [h2 E]].
    pose proof (i3_snaps _ (reach_inv3 s' R')) as Hs. rewrite E in Hs. apply snap_is_descs in Hs. subst l.
    apply in_descs_nreg in Hj.
    assert (Hle : nreg j h2 <= nreg j (hist s')).
    { rewrite E. clear. induction h1 as [|x r IH].
      - apply (nreg_tail (HSnap (descs_of h2) ts) j h2).
      - rewrite <- app_comm_cons. pose proof (nreg_tail x j (r ++ HSnap (descs_of h2) ts :: h2)). lia. }
    lia.
Qed.
