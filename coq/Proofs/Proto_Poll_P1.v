(* C02 / Poll, part P1: tactics; InvP is preserved by step1 (API calls, locks, event) and step3 (wait, environment). *)
From Coq Require Import ZArith List Bool Arith Lia.
From RecordUpdate Require Import RecordSet.
From ME Require Import Base.Machine Base.Fut Base.GenPrelude Model.Poll Proofs.Poll_Inv Proofs.Proto_Poll_P.
Import ListNotations RecordSetNotations.

Ltac brk Hx :=
  repeat match type of Hx with
         | context [match ?x with _ => _ end] => destruct x eqn:?; try discriminate Hx
         end.
Ltac inv_some Hx := inversion Hx; subst; clear Hx.
Ltac eqs :=
  repeat match goal with
         | E : _ && _ = true |- _ => apply andb_prop in E; destruct E
         | E : Nat.eqb _ _ = true |- _ => apply Nat.eqb_eq in E; subst
         | E : negb (Nat.eqb _ _) = false |- _ => apply negb_false_iff in E; apply Nat.eqb_eq in E; subst
         | E : negb (Nat.eqb _ _) || _ = false |- _ => apply orb_false_elim in E; destruct E
         end.
Ltac pok_side :=
  let Hk := fresh "Hk" in
  intros Hk; simpl in Hk; simpl;
  repeat match type of Hk with _ && _ = true => let A := fresh "A" in apply andb_prop in Hk; destruct Hk as [A Hk] end;
  repeat match goal with A : (_ <? _) = true |- _ => rewrite A end; reflexivity.
Ltac prefix_of p rest :=
  match p with
  | rest => constr:(@nil instr)
  | ?a ++ rest => constr:(a)
  | ?a :: ?q => let r := prefix_of q rest in constr:(a :: r)
  end.
Ltac bnd IP := first [ exact (p_descs _ IP) | exact (p_snap _ IP) | reflexivity ].
(* head outside every cancel program *)
Ltac nc_step IP s :=
  match goal with
  | Et : thr s ?t = ?i :: ?rest |- InvP (set_prog ?s1 ?t ?p) =>
      let pre := prefix_of p rest in
      change (InvP (set_prog s1 t (pre ++ rest)));
      apply (invP_nc s s1 t i rest pre IP); [reflexivity|reflexivity|bnd IP|bnd IP|exact Et|reflexivity|reflexivity|pok_side|reflexivity]
  end.
(* neutral head *)
Ltac both_step IP s :=
  match goal with
  | Et : thr s ?t = ?i :: ?rest |- InvP (set_prog ?s1 ?t ?p) =>
      let pre := prefix_of p rest in
      change (InvP (set_prog s1 t (pre ++ rest)));
      apply (invP_both s s1 t [i] rest pre IP); [reflexivity|reflexivity|bnd IP|bnd IP|exact Et|discriminate|reflexivity|pok_side|reflexivity]
  end.
Ltac logs := repeat match goal with |- InvP (log _ _) => apply invP_log end.

Lemma client_nil s t : client s t = true -> thr s t = [].
Proof. unfold client. intros Hx. apply andb_prop in Hx. destruct Hx as [_ Hx]. destruct (thr s t); [reflexivity|discriminate]. Qed.
Lemma ltb_of a b : a < b -> (a <? b) = true. Proof. intros. apply Nat.ltb_lt. assumption. Qed.

Lemma dbound_remove n j l : dbound n l = true -> dbound n (remove_fut j l) = true.
Proof.
  unfold dbound, remove_fut. induction l as [|p l IH]; simpl; auto. intros Hx. apply andb_prop in Hx. destruct Hx as [A B].
  destruct (negb (fst p =? j)); simpl; rewrite ?A; auto.
Qed.
Lemma dbound_snoc n l j v : dbound n l = true -> (j <? n) = true -> dbound n (l ++ [(j, v)]) = true.
Proof. unfold dbound. intros A B. rewrite forallb_app, A. simpl. rewrite B. reflexivity. Qed.
Lemma lookup_bound n l j : dbound n l = true -> issome (lookup j l) = true -> (j <? n) = true.
Proof.
  unfold lookup, dbound. induction l as [|p l IH]; simpl; [discriminate|]. intros Hx Hs. apply andb_prop in Hx. destruct Hx as [A B].
  destruct (fst p =? j) eqn:E; [apply Nat.eqb_eq in E; subst; exact A|auto].
Qed.

(* what the invariant says about a thread whose head is a cancel-only instruction *)
Lemma head_conly s t i rest : InvP s -> thr s t = i :: rest -> conly i = true ->
  exists jc, cancelling s t = Some jc /\ jc < nfut s /\ cprog jc (i :: rest) = true /\ pok (nfut s) i = true.
Proof.
  intros IP Et Hc. pose proof (p_wf _ IP t) as Hw. rewrite Et in Hw. destruct (wfp_split _ _ _ Hw) as [A1 [_ A3]].
  simpl in A1. apply andb_prop in A1. destruct A1 as [A1 _].
  destruct (cancelling s t) as [jc|] eqn:Ec.
  - exists jc. split; [reflexivity|]. split; [exact (p_cn _ IP _ _ Ec)|]. auto.
  - exfalso. simpl in A3. apply andb_prop in A3. destruct A3 as [A3 _]. unfold nonc in A3. rewrite Hc in A3. discriminate.
Qed.
(* ... that is the closing instruction of cancel(): nothing follows it *)
Lemma head_closer s t i rest : InvP s -> thr s t = i :: rest -> conly i = true -> cbody i = false ->
  exists jc, cancelling s t = Some jc /\ jc < nfut s /\ rest = [] /\ closer jc i = true.
Proof.
  intros IP Et Hc Hb. destruct (head_conly _ _ _ _ IP Et Hc) as [jc [A [B [C _]]]]. exists jc.
  destruct (cprog_head _ _ _ C) as [[D E]|[D _]]; [auto|congruence].
Qed.
(* the whole program of a canceller is replaced (its old program was the closing instruction alone) *)
Lemma invP_closer s s1 t i jc p :
  InvP s -> thr s1 = thr s -> pview s1 = pview s ->
  dbound (nfut s) (descs s1) = true -> dbound (nfut s) (snap (pmode s1)) = true ->
  thr s t = [i] -> cancelling s t = Some jc -> conly i = true -> cbody i = false ->
  forallb (pok (nfut s)) p = true -> pairs p = true -> cprog jc p = true ->
  (guard jc p = true \/ fcancelled (ps s jc) = true) ->
  InvP (set_prog s1 t p).
Proof.
  intros IP Et Ev Hd Hsn Ep Ec Hc Hs Hk Hp Hcp Hg.
  apply (invP_set s); auto.
  - rewrite Ec. apply wfp_join; auto.
  - intros j Hj. rewrite Ec in Hj. inversion Hj; subst. exact Hg.
  - intros j Hj. rewrite Ep in Hj. simpl in Hj. rewrite orb_false_r in Hj. destruct i; simpl in Hc, Hs, Hj; discriminate.
Qed.
Ltac closer_step IP s t jc Ep Ec Hjc :=
  eapply (invP_closer s _ t _ jc _ IP); [reflexivity|reflexivity|bnd IP|bnd IP|exact Ep|exact Ec|reflexivity|reflexivity|..];
  simpl; rewrite ?(ltb_of _ _ Hjc), ?Nat.eqb_refl; auto.
Ltac closer_case IP s :=
  match goal with Et : thr s ?t = ?i :: ?rest |- _ =>
    let jc := fresh "jc" in let Ec := fresh "Ec" in let Hjc := fresh "Hjc" in let Er := fresh "Er" in let Hcl := fresh "Hcl" in
    destruct (head_closer _ _ _ _ IP Et eq_refl eq_refl) as [jc [Ec [Hjc [Er Hcl]]]]; subst rest;
    simpl in Hcl; try (apply Nat.eqb_eq in Hcl; subst);
    closer_step IP s t jc Et Ec Hjc
  end.

(* ---- step1 ------------------------------------------------------------------------------------------------ *)
Lemma call_cancel_invP s t j s' : InvP s -> step1 s (ECallCancel t j) = Some s' -> InvP s'.
Proof.
  intros IP Hx. unfold step1 in Hx. brk Hx. inv_some Hx. eqs.
  match goal with Ec : client s t = true, Ej : (j <? nfut s) = true |- _ => pose proof (client_nil _ _ Ec) as Et end.
  apply invP_log.
  apply (invP_step s _ t [IAcqM j; ICancelled j] IP); unfold set_prog; simpl; auto.
  - intros u Hne. rewrite upd_other by exact Hne. reflexivity.
  - exact (p_fresh _ IP).
  - rewrite upd_same. unfold wfp. simpl. match goal with Ej : (j <? nfut s) = true |- _ => rewrite Ej end. rewrite Nat.eqb_refl. reflexivity.
  - intros j0. rewrite upd_same. intros Hj. inversion Hj; subst. split; [apply Nat.ltb_lt; assumption|left; reflexivity].
  - intros k Hk. right. split; [exact Hk|]. rewrite Et. discriminate.
  - exact (p_descs _ IP).
  - exact (p_snap _ IP).
Qed.

Lemma dsubmit_invP s t d inline s' : InvP s -> step1 s (EDSubmit t d inline) = Some s' -> InvP s'.
Proof.
  intros IP Hx. unfold step1 in Hx. brk Hx; inv_some Hx; eqs;
  match goal with Et : thr s t = IDSubmit :: ?rest0 |- _ =>
    pose proof (head_nc_none _ _ _ _ IP Et eq_refl eq_refl) as En;
    pose proof (p_wf _ IP t) as Hw; rewrite Et, En in Hw; destruct (wfp_split _ _ _ Hw) as [A1 [A2 A3]];
    simpl in A1, A2, A3;
    apply (invP_step s _ t ([IAcqM (nfut s); IDoneA (nfut s); IAddCbD (nfut s); IGRel; IRetSubmit (nfut s)] ++ rest0) IP);
      unfold set_prog; simpl; auto;
      [ intros j Hj; apply (p_fresh _ IP); lia
      | rewrite En; apply wfp_join; simpl; rewrite ?(ltb_of (nfut s) (S (nfut s))) by lia; simpl;
          [ eapply pok_mono; [|exact A1]; lia | exact A2 | exact A3 ]
      | intros j Hj; rewrite En in Hj; discriminate
      | intros j Hj; right; split; [exact Hj|]; rewrite Et; simpl; auto
      | eapply dbound_mono; [|exact (p_descs _ IP)]; lia
      | eapply dbound_mono; [|exact (p_snap _ IP)]; lia ]
  end.
Qed.

Lemma ret_invP s t c s' : InvP s -> step1 s (ERet t c) = Some s' -> InvP s'.
Proof.
  intros IP Hx. unfold step1 in Hx. brk Hx; inv_some Hx; eqs; logs; try solve [nc_step IP s].
  match goal with Et : thr s t = IRetB ?b :: ?rest |- _ =>
    destruct (head_closer _ _ _ _ IP Et eq_refl eq_refl) as [jc [Ec [Hjc [Er _]]]]; subst rest; rename Et into Ep end.
  apply (invP_step s _ t [] IP); unfold set_prog; simpl; auto.
  - intros u Hne. rewrite upd_other by exact Hne. reflexivity.
  - exact (p_fresh _ IP).
  - rewrite upd_same. reflexivity.
  - intros j0. rewrite upd_same. discriminate.
  - intros k Hk. right. split; [exact Hk|]. rewrite Ep. discriminate.
  - exact (p_descs _ IP).
  - exact (p_snap _ IP).
Qed.

Lemma xsec_invP s t s' : InvP s -> step1 s (EXSec t) = Some s' -> InvP s'.
Proof.
  intros IP Hx. unfold step1 in Hx. brk Hx; inv_some Hx; eqs; logs.
  - (* the poll thread takes its snapshot *)
    apply (invP_view s); auto; [exact (p_descs _ IP)|exact (p_descs _ IP)].
  - (* _deregister_poll *)
    match goal with Et : thr s t = IXDereg ?j :: ?rest |- InvP (set_prog ?s1 _ _) =>
      apply (invP_both s s1 t [IXDereg j] rest [] IP); auto; try discriminate;
        [apply dbound_remove; exact (p_descs _ IP)|exact (p_snap _ IP)] end.
Qed.
Lemma xacq_invP s t s' : InvP s -> step1 s (EXAcq t) = Some s' -> InvP s'.
Proof.
  intros IP Hx. unfold step1 in Hx. brk Hx; inv_some Hx; eqs; logs.
  match goal with Et : thr s t = IXAcqReg ?j ?v :: ?rest |- InvP (set_prog ?s1 _ _) =>
    pose proof (p_wf _ IP t) as Hw; rewrite Et in Hw; destruct (wfp_split _ _ _ Hw) as [A1 _];
    simpl in A1; apply andb_prop in A1; destruct A1 as [Hk _];
    apply (invP_both s s1 t [IXAcqReg j v] rest [] IP); auto; try discriminate;
      [apply dbound_snoc; [exact (p_descs _ IP)|exact Hk]|exact (p_snap _ IP)] end.
Qed.

Lemma step1_invP s e s' : InvP s -> step1 s e = Some s' -> InvP s'.
Proof.
  intros IP Hx. destruct e; try discriminate Hx;
    try solve [ eapply call_cancel_invP; eauto | eapply dsubmit_invP; eauto | eapply ret_invP; eauto
              | eapply xsec_invP; eauto | eapply xacq_invP; eauto ].
  - (* ECallSubmit *) unfold step1 in Hx. brk Hx. inv_some Hx. apply (invP_idle s); auto; try bnd IP. apply client_nil. assumption.
  - (* ECallNotify *) unfold step1 in Hx. brk Hx. inv_some Hx. apply (invP_idle s); auto; try bnd IP. apply client_nil. assumption.
  - (* EGAcq *) unfold step1 in Hx. brk Hx; inv_some Hx; eqs; nc_step IP s.
  - (* EGRel *) unfold step1 in Hx. brk Hx; inv_some Hx; eqs; nc_step IP s.
  - (* EXRel *) unfold step1 in Hx. brk Hx; inv_some Hx; eqs; both_step IP s.
  - (* EEvSet *) unfold step1 in Hx. brk Hx; inv_some Hx; eqs; logs; both_step IP s.
  - (* EAcqM *) unfold step1 in Hx. brk Hx; inv_some Hx; eqs; both_step IP s.
  - (* ERelM *) unfold step1 in Hx. brk Hx; inv_some Hx; eqs; simpl; both_step IP s.
Qed.

(* ---- step3 ------------------------------------------------------------------------------------------------ *)
Lemma step3_invP s e s' : InvP s -> step3 s e = Some s' -> InvP s'.
Proof.
  intros IP Hx. destruct e; try discriminate Hx; unfold step3 in Hx; brk Hx; inv_some Hx; eqs; logs;
    try solve [ exact IP | apply (invP_view s); auto; bnd IP ].
  - (* EEnvFinish, callback registered *)
    apply (invP_idle s); auto; try bnd IP; [apply client_nil; assumption|simpl; match goal with E : (_ <? nfut s) = true |- _ => rewrite E end; reflexivity].
  - apply (invP_idle s); auto; try bnd IP; [apply client_nil; assumption|simpl; match goal with E : (_ <? nfut s) = true |- _ => rewrite E end; reflexivity].
  - (* EEnvCancel *)
    apply (invP_idle s); auto; try bnd IP; [apply client_nil; assumption|simpl; match goal with E : (_ <? nfut s) = true |- _ => rewrite E end; reflexivity].
  - apply (invP_idle s); auto; try bnd IP; [apply client_nil; assumption|simpl; match goal with E : (_ <? nfut s) = true |- _ => rewrite E end; reflexivity].
Qed.
