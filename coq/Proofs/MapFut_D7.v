(* Layer 7: the outcome law: environment facts, the claim and its monotonicity. *)
From Coq Require Import ZArith List Bool Arith Lia.
From RecordUpdate Require Import RecordSet.
From ME Require Import Base.Machine Base.Fut Base.GenPrelude Model.MapFut Model.MapLaw Proofs.MapFut_D0 Proofs.MapFut_D1 Proofs.MapFut_D2 Proofs.MapFut_D3 Proofs.MapFut_D4 Proofs.MapFut_D5 Proofs.MapFut_D6.
Import ListNotations RecordSetNotations.

Definition inner_of (s : st) (d : nat) : option outcome :=
  if fstate_eqb (es s d) Finished then eout s d else None.

Definition En (s : st) : Prop := forall d, es s d = Finished -> exists o, eout s d = Some o.

Lemma lstep_es_fin s e s0 : lstep s e = Some s0 -> forall d, es s d = Finished ->
  es s0 d = Finished /\ eout s0 d = eout s d.
Proof.
  intros H. step_cases H; intros d' X; simpl; auto.
  all: usplit d0; auto. all: try (usplit d; auto).
  all: try (rewrite X in *; simpl in *; inv_eqs; auto; discriminate).
Qed.
Lemma lstep_es_done s e s0 : lstep s e = Some s0 -> forall d, fdone (es s d) = true -> fdone (es s0 d) = true.
Proof.
  intros H. step_cases H; intros d' X; simpl; auto.
  all: usplit d0; auto. all: try (usplit d; auto).
  all: try (destruct (es s d0); simpl in *; inv_eqs; auto; discriminate).
  all: try (destruct (es s d); simpl in *; inv_eqs; auto; discriminate).
Qed.
Lemma lstep_en s e s0 : lstep s e = Some s0 -> En s -> En s0.
Proof.
  intros H I. unfold En in *. step_cases H; simpl; auto.
  all: intros d' X; usplit d0; eauto. all: try (usplit d; eauto).
  all: try (apply I; destruct (es s d0); simpl in *; inv_eqs; auto; discriminate).
  all: try (apply I; destruct (es s d); simpl in *; inv_eqs; auto; discriminate).
Qed.

Lemma lstep_static s e s0 : lstep s e = Some s0 -> forall j, j < nfut s ->
  mkind s0 j = mkind s j /\ mfn s0 j = mfn s j /\ mefn s0 j = mefn s j.
Proof. intros H. step_cases H; intros j' L; simpl; auto. rewrite !upd_other by lia. auto. Qed.
Lemma lstep_hist_mono s e s0 : lstep s e = Some s0 -> forall h, In h (hist s) -> In h (hist s0).
Proof. intros H. step_cases H; intros h' X; simpl; auto. Qed.

Definition law (s : st) (j d : nat) (din o : outcome) : Prop :=
  match din with
  | Ok _ => if mfn s j then exists fa, In (HFn j d fa) (hist s) /\ apply_ans (mkind s j) fa din (inner_of s) = Some o
            else o = din
  | Err _ => if mefn s j then exists ea, In (HEfn j d ea) (hist s) /\ apply_ans (mkind s j) ea din (inner_of s) = Some o
             else o = din
  end.
Definition claim (s : st) (j : nat) (o : outcome) : Prop :=
  exists d din, In (HNew j d) (hist s) /\ eout s d = Some din /\ es s d = Finished /\ law s j d din o.

(* j has been flattened onto d': the first-stage function returned the future d' *)
Definition flatok (s : st) (j d' : nat) : Prop :=
  mkind s j = KFlat /\ exists d din, In (HNew j d) (hist s) /\ eout s d = Some din /\ es s d = Finished /\
    match din with
    | Ok _ => mfn s j = true /\ In (HFn j d (ARetFut d')) (hist s)
    | Err _ => mefn s j = true /\ In (HEfn j d (ARetFut d')) (hist s)
    end.

Lemma inner_mono s e s0 d o : lstep s e = Some s0 -> inner_of s d = Some o -> inner_of s0 d = Some o.
Proof.
  unfold inner_of. intros H X. destruct (fstate_eqb (es s d) Finished) eqn:E; [|discriminate].
  apply fstate_eqb_eq in E. destruct (lstep_es_fin _ _ _ H d E) as [-> ->]. simpl. exact X.
Qed.
Lemma apply_ans_mono s e s0 k a din o : lstep s e = Some s0 ->
  apply_ans k a din (inner_of s) = Some o -> apply_ans k a din (inner_of s0) = Some o.
Proof. intros H. destruct a, k; simpl; auto. eapply inner_mono; eauto. Qed.

Lemma claim_mono s e s0 j o : lstep s e = Some s0 -> j < nfut s -> claim s j o -> claim s0 j o.
Proof.
  intros H L (d & din & N & E1 & E2 & LW). destruct (lstep_es_fin _ _ _ H d E2) as [F1 F2].
  destruct (lstep_static _ _ _ H j L) as (S1 & S2 & S3).
  exists d, din. repeat split; [eapply lstep_hist_mono; eauto|congruence|exact F1|].
  unfold law in *. rewrite S1, S2, S3. destruct din.
  - destruct (mfn s j); auto. destruct LW as (fa & X1 & X2). exists fa. split; [eapply lstep_hist_mono; eauto|eapply apply_ans_mono; eauto].
  - destruct (mefn s j); auto. destruct LW as (fa & X1 & X2). exists fa. split; [eapply lstep_hist_mono; eauto|eapply apply_ans_mono; eauto].
Qed.
Lemma flatok_mono s e s0 j d' : lstep s e = Some s0 -> j < nfut s -> flatok s j d' -> flatok s0 j d'.
Proof.
  intros H L (K & d & din & N & E1 & E2 & LW). destruct (lstep_es_fin _ _ _ H d E2) as [F1 F2].
  destruct (lstep_static _ _ _ H j L) as (S1 & S2 & S3).
  split; [congruence|]. exists d, din. repeat split; [eapply lstep_hist_mono; eauto|congruence|exact F1|].
  rewrite S2, S3. destruct din; destruct LW as [X1 X2]; (split; [exact X1|eapply lstep_hist_mono; eauto]).
Qed.

(* ---- adjacency: a flattening acquisition is followed by the re-registration ------------------- *)
Definition nxt2 (i : instr) (r : list instr) : bool :=
  match i with
  | IAcqMSet j x true =>
      match x, r with
      | Some d, IRelM j1 :: IAddCbE d' j2 :: _ => Nat.eqb j j1 && Nat.eqb j j2 && Nat.eqb d d'
      | _, _ => false
      end
  | _ => true
  end.
Fixpoint shape2 (p : list instr) : bool := match p with [] => true | i :: r => nxt2 i r && shape2 r end.
Definition shape2_all (s : st) : Prop := forall t, shape2 (thr s t) = true.

Lemma shape2_cons i r : shape2 (i :: r) = true -> shape2 r = true.
Proof. simpl; intros H; apply andb_prop in H; tauto. Qed.
Lemma shape2_tl r : shape2 r = true -> shape2 (tl r) = true.
Proof. destruct r; simpl; auto. intros H; apply andb_prop in H; tauto. Qed.
Lemma shape2_upd s t p : shape2_all s -> shape2 p = true -> forall t', shape2 (upd (thr s) t p t') = true.
Proof.
  intros I Hp t'. destruct (Nat.eq_dec t' t) as [->|N]; [rewrite upd_same; exact Hp|rewrite upd_other by exact N; apply I].
Qed.
Lemma shape2_fires s d r : shape2 r = true -> shape2 (fires s d r) = true.
Proof. intros H; unfold fires. induction (ecbs s d); simpl; auto. Qed.
Lemma shape2_on_mapped s j x r : shape2 r = true -> shape2 (on_mapped s j x ++ r) = true.
Proof.
  intros H; unfold on_mapped. destruct (mkind s j), (mflat s j), x; simpl; rewrite ?Nat.eqb_refl; auto.
Qed.
Lemma shape2_cbs j l r : shape2 r = true -> shape2 (map (fun c => IUserCb j c false) l ++ r) = true.
Proof. intros H; induction l; simpl; auto. Qed.

Lemma lstep_shape2 s e s0 : lstep s e = Some s0 -> shape2_all s -> shape2_all s0.
Proof.
  intros H I. step_cases H; try exact I.
  all: intros t'; simpl; apply shape2_upd; [exact I|].
  all: match goal with E : thr _ ?t = _ |- _ => pose proof (I t) as It; rewrite E in It; try apply shape2_cons in It end.
  all: try assumption; try reflexivity.
  all: try (simpl; rewrite ?Nat.eqb_refl; simpl; first [assumption | apply shape2_on_mapped; assumption | apply shape2_fires; simpl; assumption]).
  all: try (apply shape2_cbs; assumption).
  all: try (simpl; apply shape2_tl; assumption).
Qed.
Lemma sil_shape2 t s s' : sil t s s' -> shape2_all s -> shape2_all s'.
Proof.
  intros H I t'. destruct (sil_thr _ _ _ H) as (i & r & Et & Ho & Hr).
  destruct (Nat.eq_dec t' t) as [->|N]; [|rewrite Ho by exact N; apply I].
  pose proof (I t) as It. rewrite Et in It. apply shape2_cons in It.
  destruct Hr as [->|(j & -> & ->)]; [exact It|apply shape2_cbs; exact It].
Qed.

(* ---- what each pending instruction promises ------------------------------------------------- *)
Definition tokP (s : st) (j d : nat) : Prop := flatok s j d \/ (ncall s j = 0 /\ In (HNew j d) (hist s)).
Definition Pfn (s : st) (j d : nat) : Prop :=
  In (HNew j d) (hist s) /\ es s d = Finished /\ (exists v, eout s d = Some (Ok v)) /\ mfn s j = true.
Definition Pefn (s : st) (j d : nat) : Prop :=
  In (HNew j d) (hist s) /\ es s d = Finished /\ (exists e, eout s d = Some (Err e)) /\ mefn s j = true.
Definition ans_of (x : mapped) : answer := match x with MVal v => ARet v | MFut d => ARetFut d end.
Definition Pcont (s : st) (j : nat) (x : mapped) : Prop :=
  mflat s j = false /\ exists d e0, In (HNew j d) (hist s) /\ es s d = Finished /\ eout s d = Some (Err e0) /\
    mefn s j = true /\ In (HEfn j d (ans_of x)) (hist s).
Definition okP (s : st) (i : instr) : Prop :=
  match i with
  | IAddCbE d j => tokP s j d
  | IDCancelledQ j d => tokP s j d /\ fdone (es s d) = true
  | IAcqMSet j x true => exists d, x = Some d /\ flatok s j d
  | IUserFn j d => Pfn s j d
  | IUserEfn j d => Pefn s j d
  | IDoneQ j (Some x) => Pcont s j x
  | IFSetRes j v => claim s j (Ok v)
  | IFSetExc j e => claim s j (Err e)
  | _ => True
  end.

Lemma tokP_mono s e s0 j d : lstep s e = Some s0 -> j < nfut s -> ncall s0 j = ncall s j -> tokP s j d -> tokP s0 j d.
Proof.
  intros H L NC [X|[X1 X2]]; [left; eapply flatok_mono; eauto|right].
  split; [congruence|eapply lstep_hist_mono; eauto].
Qed.

Lemma okP_mono s e s0 i : lstep s e = Some s0 -> okI (nfut s) i ->
  (forall j, (isAddCb j i || wQ j i) = true -> ncall s0 j = ncall s j) ->
  (forall j, wC j i = true -> mflat s0 j = mflat s j) ->
  okP s i -> okP s0 i.
Proof.
  intros H O NC MF P. unfold okI in O.
  destruct i; simpl in *; auto.
  - destruct flat; auto. destruct P as (d & -> & P). exists d. split; [reflexivity|eapply flatok_mono; eauto].
  - eapply tokP_mono; eauto. apply NC. rewrite Nat.eqb_refl. reflexivity.
  - destruct P as [P1 P2]. split; [|eapply lstep_es_done; eauto].
    eapply tokP_mono; eauto. apply NC. apply Nat.eqb_refl.
  - destruct P as (P1 & P2 & (v & P3) & P4). destruct (lstep_es_fin _ _ _ H d P2) as [F1 F2].
    destruct (lstep_static _ _ _ H j O) as (S1 & S2 & S3).
    repeat split; [eapply lstep_hist_mono; eauto|exact F1|exists v; congruence|congruence].
  - destruct P as (P1 & P2 & (v & P3) & P4). destruct (lstep_es_fin _ _ _ H d P2) as [F1 F2].
    destruct (lstep_static _ _ _ H j O) as (S1 & S2 & S3).
    repeat split; [eapply lstep_hist_mono; eauto|exact F1|exists v; congruence|congruence].
  - destruct cont; auto. destruct P as (P0 & d & e0 & P1 & P2 & P3 & P4 & P5).
    destruct (lstep_es_fin _ _ _ H d P2) as [F1 F2]. destruct (lstep_static _ _ _ H j O) as (S1 & S2 & S3).
    split; [rewrite MF; [exact P0|apply Nat.eqb_refl]|].
    exists d, e0. repeat split; try congruence; eapply lstep_hist_mono; eauto.
  - eapply claim_mono; eauto.
  - eapply claim_mono; eauto.
Qed.
