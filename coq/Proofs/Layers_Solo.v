(* Layers, part 5: a thread alone never blocks on itself, whatever the ORDER of its acquisitions: with re-entrant
   locks any balanced program run by one thread (nobody else holds or wants anything) runs to its end.
   This is the second sentence of C04 (nested submission) in the abstract; no lock order is needed for it. *)
From Coq Require Import List Bool Arith Lia.
From ME Require Import Base.Machine Model.Locks Proofs.Locks_Proofs Model.Layers.
Import ListNotations.

Definition J (t0 : nat) (h : list nat) (s : st) : Prop :=
  balanced h (prog s t0) = true /\
  (forall l, In l h -> owner s l = Some t0 /\ depth s l = count_occ Nat.eq_dec h l) /\
  (forall l, ~ In l h -> owner s l = None).

Lemma ordered_balanced h p : ordered h p = true -> balanced h p = true.
Proof.
  revert h. induction p as [|[l|l] r IH]; intros h; simpl; auto.
  - destruct (existsb (Nat.eqb l) h); [apply IH|].
    intros H. apply andb_prop in H. destruct H as [_ H]. apply IH; auto.
  - destruct h as [|x hs]; auto. intros H. apply andb_prop in H. destruct H as [E H].
    rewrite E. simpl. apply IH; auto.
Qed.

Lemma J_step t0 h s o r : J t0 h s -> prog s t0 = o :: r ->
  exists s' h', step s t0 = Some s' /\ J t0 h' s' /\ prog s' t0 = r /\
                forall t, t <> t0 -> prog s' t = prog s t.
Proof.
  intros (B & Hin & Hout) Ep. rewrite Ep in B. unfold step. rewrite Ep.
  destruct o as [l|l]; simpl in B.
  - (* Acq *)
    destruct (in_dec Nat.eq_dec l h) as [I|NI].
    + destruct (Hin l I) as [Eo Ed]. rewrite Eo, Nat.eqb_refl.
      eexists. exists (l :: h). split; [reflexivity|]. unfold J. simpl. rewrite upd_same.
      split; [|split; [reflexivity|intros t N; apply upd_other; auto]].
      split; [exact B|]. split.
      * intros l0 I0. simpl. destruct (Nat.eq_dec l l0) as [<-|N].
        -- rewrite upd_same. split; auto.
        -- rewrite upd_other by auto. apply Hin. destruct I0 as [E|I0]; [congruence|auto].
      * intros l0 NI0. apply Hout. intros I0. apply NI0. right; auto.
    + rewrite (Hout l NI).
      eexists. exists (l :: h). split; [reflexivity|]. unfold J. simpl. rewrite upd_same.
      split; [|split; [reflexivity|intros t N; apply upd_other; auto]].
      split; [exact B|]. split.
      * intros l0 I0. simpl. destruct (Nat.eq_dec l l0) as [<-|N].
        -- rewrite !upd_same. split; auto. f_equal. symmetry. apply count_occ_not_In. exact NI.
        -- rewrite !upd_other by auto. apply Hin. destruct I0 as [E|I0]; [congruence|auto].
      * intros l0 NI0. assert (N : l0 <> l) by (intros ->; apply NI0; left; auto).
        rewrite upd_other by auto. apply Hout. intros I0. apply NI0. right; auto.
  - (* Rel *)
    destruct h as [|x hs]; [discriminate|]. apply andb_prop in B. destruct B as [E B].
    apply Nat.eqb_eq in E. subst x.
    destruct (Hin l (or_introl eq_refl)) as [Eo Ed]. rewrite Eo, Nat.eqb_refl.
    simpl in Ed. destruct (Nat.eq_dec l l) as [_|]; [|congruence].
    assert (Hc : forall l0, l0 <> l -> count_occ Nat.eq_dec (l :: hs) l0 = count_occ Nat.eq_dec hs l0).
    { intros l0 N. simpl. destruct (Nat.eq_dec l l0); [congruence|auto]. }
    rewrite Ed. destruct (count_occ Nat.eq_dec hs l) as [|d] eqn:Ec.
    + assert (NI : ~ In l hs) by (apply (count_occ_not_In Nat.eq_dec); auto).
      eexists. exists hs. split; [reflexivity|]. unfold J. simpl. rewrite upd_same.
      split; [|split; [reflexivity|intros t N; apply upd_other; auto]].
      split; [exact B|]. split.
      * intros l0 I0. assert (N : l0 <> l) by (intros ->; auto).
        rewrite !upd_other by auto. rewrite <- Hc by auto. apply Hin. right; auto.
      * intros l0 NI0. destruct (Nat.eq_dec l0 l) as [->|N]; [apply upd_same|].
        rewrite upd_other by auto. apply Hout. intros [E|I0]; [congruence|auto].
    + assert (YI : In l hs) by (apply (count_occ_In Nat.eq_dec); lia).
      eexists. exists hs. split; [reflexivity|]. unfold J. simpl. rewrite upd_same.
      split; [|split; [reflexivity|intros t N; apply upd_other; auto]].
      split; [exact B|]. split.
      * intros l0 I0. destruct (Nat.eq_dec l0 l) as [->|N].
        -- rewrite upd_same. split; auto.
        -- rewrite upd_other by auto. rewrite <- Hc by auto. apply Hin. right; auto.
      * intros l0 NI0. apply Hout. intros [E|I0]; [subst l0; auto|auto].
Qed.

Lemma J_solo t0 : forall n h s, J t0 h s -> (forall t, t <> t0 -> prog s t = []) ->
  length (prog s t0) = n ->
  exists s', run step s (solo t0 n) = Some s' /\ (forall t, prog s' t = []) /\ (forall l, owner s' l = None).
Proof.
  induction n as [|n IH]; intros h s Jh Hother Hlen.
  - exists s. split; [reflexivity|].
    assert (E : prog s t0 = []) by (destruct (prog s t0); [auto|discriminate]).
    split.
    + intros t. destruct (Nat.eq_dec t t0) as [->|N]; auto.
    + destruct Jh as (B & _ & Hout). rewrite E in B. simpl in B. destruct h; [|discriminate].
      intros l. apply Hout. intros [].
  - destruct (prog s t0) as [|o r] eqn:Ep; [discriminate|].
    destruct (J_step t0 h s o r Jh Ep) as (s1 & h1 & H1 & J1 & Ep1 & Hsame).
    destruct (IH h1 s1 J1) as (s' & R & Hnil & Hfree).
    + intros t N. rewrite Hsame by auto. auto.
    + rewrite Ep1. simpl in Hlen. lia.
    + exists s'. split; auto. simpl. rewrite H1. exact R.
Qed.

(* whatever the order in which it nests them, a single thread running a balanced program over re-entrant locks
   never blocks: it runs to the end and leaves every lock free *)
Theorem solo_balanced_returns : forall p t0, balanced [] p = true ->
  exists s', run step (init_of (only t0 p)) (solo t0 (length p)) = Some s' /\
             (forall t, prog s' t = []) /\ (forall l, owner s' l = None).
Proof.
  intros p t0 B.
  assert (E : only t0 p t0 = p) by (unfold only; rewrite Nat.eqb_refl; reflexivity).
  apply (J_solo t0 (length p) [] (init_of (only t0 p))).
  - split; [|split]; simpl.
    + rewrite E. exact B.
    + intros l [].
    + auto.
  - intros t N. simpl. unfold only. apply Nat.eqb_neq in N. rewrite N. reflexivity.
  - simpl. rewrite E. reflexivity.
Qed.
