(* C12 for the Poll machine, part W: witness traces (wire format of Model/Poll.v, built from the pieces of
   Proofs/Poll_N7.v) -- refutations of the literal readings and non-vacuity examples. *)
From Coq Require Import ZArith List Bool Arith Lia.
From ME Require Import Base.Machine Base.Fut Base.GenPrelude Model.Poll Proofs.Poll_Inv Proofs.Poll_NoDup Proofs.Poll_Refute
     Proofs.Poll_N3 Proofs.Poll_N6 Proofs.Poll_N7 Proofs.Keep_PollA Proofs.Keep_PollB Proofs.Keep_PollC.
Import ListNotations.
Local Open Scope Z_scope.

Definition w_cfg : list (list Z) := [[0; 0; 0; 2]].
(* three submits, the poll thread sleeps, delegate 0 finishes with 100 (registration, wake-up, snapshot), the poll
   function is called with [100] and yields 7 for future 0; the poll thread is inside set_result, holding M_0,
   self.done() answered False *)
Definition w_base : list (list Z) :=
  w_cfg ++ w_submit 0 1 0 ++ w_submit 0 1 1 ++ w_submit 0 1 2 ++ [[0; 7; 0]; [0; 16; 0]] ++ w_ret_sleep 0 ++
  w_finish 1 2 0 100 ++ w_wake_snap 1 ++ [[1; 16; 0; 100]; [1; 17; 0; 0; 0; 7]; [1; 12; 0; 0]; [1; 14; 0; 1; 0; 0]].
(* ... stdlib set_result done: future 0 is Finished, its callbacks have not run yet *)
Definition w_win1 : list (list Z) := w_base ++ [[1; 14; 0; 4; 0; 0]].
(* ... M_0 released, _me_invoke_callbacks is about to run _clear_executor *)
Definition w_win2 : list (list Z) := w_win1 ++ [[1; 13; 0; 0]].
(* ... deregistered; the poll function has not returned yet *)
Definition w_win3 : list (list Z) := w_win2 ++ [[1; 7; 0]].
(* one submit, the poll thread sleeps *)
Definition w_one : list (list Z) := w_cfg ++ w_submit 0 1 0 ++ [[0; 7; 0]; [0; 16; 0]] ++ w_ret_sleep 0.
(* ... delegate 0 finishes with 100; the completing thread 2 is inside _register_poll right after the append *)
Definition w_clearing : list (list Z) := w_one ++ [[1; 25; 2; 0; 0; 0; 100]; [1; 15; 2; 0; 0; 4]; [1; 8; 2]].
(* ... delegate 0 fails with exception 9: _delegate_resolved copies it to the poll future, callbacks, return *)
Definition w_failed : list (list Z) :=
  w_one ++ [[1; 25; 2; 0; 0; 1; 9]; [1; 15; 2; 0; 0; 4]; [1; 12; 2; 0]; [1; 14; 2; 1; 0; 0]; [1; 13; 2; 0];
            [1; 12; 2; 0]; [1; 14; 2; 6; 0; 0]; [1; 13; 2; 0]; [1; 7; 2]; [1; 11; 2; 0]].
Local Close Scope Z_scope.

Ltac all_idle :=
  let t := fresh "t" in intros t;
  do 4 (destruct t as [|t]; [vm_compute; reflexivity|]); vm_compute; reflexivity.

Lemma idle_at_rest s :
  (forall t, thr s t = []) -> match pmode s with PCall _ | PBody _ => False | _ => True end -> poll_at_rest s.
Proof. intros H Hm. split; [intros; apply H|]. split; [apply H|exact Hm]. Qed.

(* ---- 3. the literal reading is false: a done future is still listed -------------------------------------- *)
(* between stdlib set_result (IFSetRes) and the callbacks *)
Example window_cbs_example :
  let s := state_of w_win1 in
  accepted w_win1 = true /\ descs s = [(0, 100)] /\ ps s 0 = Finished /\ pout s 0 = Some (Ok 7) /\
  thr s poller = [IRelMCbs 0] /\ pcb s 0 = true /\ mown s 0 = Some poller /\ pmode s = PBody [(0, 100)].
Proof. vm_compute. repeat split. Qed.
(* between the release of M_0 and the X-section of _deregister_poll *)
Example window_dereg_example :
  let s := state_of w_win2 in
  accepted w_win2 = true /\ descs s = [(0, 100)] /\ ps s 0 = Finished /\
  thr s poller = [IXDereg 0] /\ pcb s 0 = false /\ mown s 0 = None.
Proof. vm_compute. repeat split. Qed.

Lemma done_in_descs_witness :
  exists s j v, reachable s /\ In (j, v) (descs s) /\ fdone (ps s j) = true.
Proof.
  exists (state_of w_win1), 0, 100. split; [apply accepted_reachable; vm_compute; reflexivity|].
  split; [vm_compute; left; reflexivity|vm_compute; reflexivity].
Qed.

(* both disjuncts of the window occur *)
Lemma window_both_witness :
  (exists s j v, reachable s /\ In (j, v) (descs s) /\ fdone (ps s j) = true /\
                 (exists t, In (IRelMCbs j) (thr s t) /\ pcb s j = true) /\ forall t, ~ In (IXDereg j) (thr s t)) /\
  (exists s j v, reachable s /\ In (j, v) (descs s) /\ fdone (ps s j) = true /\
                 (exists t, In (IXDereg j) (thr s t)) /\ pcb s j = false).
Proof.
  split.
  - exists (state_of w_win1), 0, 100. split; [apply accepted_reachable; vm_compute; reflexivity|].
    split; [vm_compute; left; reflexivity|]. split; [vm_compute; reflexivity|]. split.
    + exists poller. vm_compute. split; [left; reflexivity|reflexivity].
    + intros t. do 4 (destruct t as [|t]; [vm_compute; intuition discriminate|]). vm_compute. tauto.
  - exists (state_of w_win2), 0, 100. split; [apply accepted_reachable; vm_compute; reflexivity|].
    split; [vm_compute; left; reflexivity|]. split; [vm_compute; reflexivity|]. split.
    + exists poller. vm_compute. left; reflexivity.
    + vm_compute. reflexivity.
Qed.

(* the snapshot: every thread's program is empty, the executor's list no longer holds the future the poll
   function has just resolved, but the list of descriptors passed to the running poll function still does *)
Example snapshot_example :
  let s := state_of w_win3 in
  accepted w_win3 = true /\ (forall t, thr s t = []) /\ descs s = [] /\ ps s 0 = Finished /\
  pmode s = PBody [(0, 100)] /\ snapshot_held (pmode s) = [(0, 100)].
Proof.
  cbv zeta. split; [vm_compute; reflexivity|]. split; [all_idle|]. repeat split; vm_compute; reflexivity.
Qed.

Lemma snapshot_keeps_done_witness :
  exists s j v, reachable s /\ (forall t, thr s t = []) /\ descs s = [] /\
                In (j, v) (snapshot_held (pmode s)) /\ fdone (ps s j) = true.
Proof.
  exists (state_of w_win3), 0, 100. destruct snapshot_example as [Ha [Hi [Hd [Hp [_ Hs]]]]].
  split; [apply accepted_reachable; exact Ha|]. split; [exact Hi|]. split; [exact Hd|].
  split; [rewrite Hs; left; reflexivity|rewrite Hp; reflexivity].
Qed.

(* ---- 5 / 2. at rest: one done future (not listed, link cleared), one waiting for its delegate (link set),
   one pending and listed (link cleared) ------------------------------------------------------------------- *)
Example at_rest_example :
  let s := state_of w_three in
  accepted w_three = true /\ poll_at_rest s /\ quiescent s /\ nfut s = 3 /\
  (ps s 0 = Finished /\ ~ In 0 (map fst (descs s)) /\ pdel s 0 = false /\ pexec s 0 = false /\ pcb s 0 = false) /\
  (ps s 1 = Pending /\ pdel s 1 = true /\ dcb s 1 = true) /\
  (ps s 2 = Pending /\ In (2, 200) (descs s) /\ pdel s 2 = false /\ pcb s 2 = true) /\
  descs s = [(2, 200)] /\ snapshot_held (pmode s) = [] /\ xown s = None.
Proof.
  cbv zeta. destruct three_example as [Ha [Hq _]]. split; [exact Ha|].
  split; [apply quiescent_at_rest; [apply accepted_reachable; exact Ha|exact Hq]|]. split; [exact Hq|].
  split; [vm_compute; reflexivity|].
  split; [split; [vm_compute; reflexivity|split; [vm_compute; intuition discriminate|repeat split; vm_compute; reflexivity]]|].
  split; [repeat split; vm_compute; reflexivity|].
  split; [split; [vm_compute; reflexivity|split; [vm_compute; left; reflexivity|split; vm_compute; reflexivity]]|].
  repeat split; vm_compute; reflexivity.
Qed.

(* ---- 4. the delegate link --------------------------------------------------------------------------------- *)
(* inside _register_poll, right after the append: listed, link not yet cleared, clearing it is the next step *)
Example clearing_example :
  let s := state_of w_clearing in
  accepted w_clearing = true /\ descs s = [(0, 100)] /\ ps s 0 = Pending /\ pdel s 0 = true /\
  thr s 2 = [IAcqMClr 0; IRelM 0; IEvSet; IXRel; IRetEnv 0] /\ xown s = Some 2 /\ clearing s 0.
Proof.
  cbv zeta. split; [vm_compute; reflexivity|]. do 5 (split; [vm_compute; reflexivity|]).
  exists 2. eexists. split; vm_compute; reflexivity.
Qed.

(* a poll future cancelled while its delegate was pending keeps PollFuture._delegate for ever *)
Example cancelled_keeps_link_example :
  let s := state_of w_cancel_pending in
  accepted w_cancel_pending = true /\ poll_at_rest s /\ quiescent s /\
  ps s 0 = CancelledNotified /\ pdel s 0 = true /\ descs s = [] /\ ds s 0 = Cancelled /\ dcb s 0 = false /\ pexec s 0 = false.
Proof.
  cbv zeta. destruct cancel_example as [Ha [Hq _]]. split; [exact Ha|].
  split; [apply quiescent_at_rest; [apply accepted_reachable; exact Ha|exact Hq]|]. split; [exact Hq|].
  repeat split; vm_compute; reflexivity.
Qed.

(* so does a poll future failed by its delegate's exception *)
Example failed_keeps_link_example :
  let s := state_of w_failed in
  accepted w_failed = true /\ poll_at_rest s /\
  ps s 0 = Finished /\ pout s 0 = Some (Err 9) /\ dout s 0 = Some (Err 9) /\ pdel s 0 = true /\ descs s = [] /\
  dcb s 0 = false /\ pexec s 0 = false.
Proof.
  cbv zeta. split; [vm_compute; reflexivity|]. split.
  { apply idle_at_rest; [all_idle|vm_compute; exact I]. }
  repeat split; vm_compute; reflexivity.
Qed.

Lemma done_keeps_link_witness :
  (exists s j, reachable s /\ poll_at_rest s /\ fcancelled (ps s j) = true /\ pdel s j = true) /\
  (exists s j e, reachable s /\ poll_at_rest s /\ ps s j = Finished /\ pout s j = Some (Err e) /\ pdel s j = true).
Proof.
  split.
  - exists (state_of w_cancel_pending), 0. destruct cancelled_keeps_link_example as [Ha [Hr [_ [Hp [Hd _]]]]].
    split; [apply accepted_reachable; exact Ha|]. split; [exact Hr|]. split; [rewrite Hp; reflexivity|exact Hd].
  - exists (state_of w_failed), 0, 9. destruct failed_keeps_link_example as [Ha [Hr [Hp [Ho [_ [Hd _]]]]]].
    split; [apply accepted_reachable; exact Ha|]. auto.
Qed.
