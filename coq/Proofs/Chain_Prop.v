(* Chain model: what holds when the winning shutdown(k) returns. *)
From Coq Require Import List Arith Bool Lia PeanoNat.
From ME Require Import Base.Machine Model.Chain Proofs.Chain_Base Proofs.Chain_Tok.
Import ListNotations.

Definition cdn (s : st) (k : nat) : nat := cnt (is_down k) (hist s).

(* obligations of the pending returns of winning shutdown calls in a program:
   - behind its token ICallSd (k-1) the return of layer k owes nothing yet;
   - behind the propagated call's gate acquisition IAcqSd (k-1) the down call has been made;
   - anywhere else the down call has been made and the layer below is flagged. *)
Fixpoint wf (cd : nat -> nat) (fl : nat -> bool) (p : list instr) : Prop :=
  match p with
  | [] => True
  | ICallSd j _ _ :: r =>
      match r with ISdRet k _ true :: r' => k = S j /\ wf cd fl r' | _ => False end
  | IAcqSd j _ _ :: r =>
      match r with ISdRet k _ true :: r' => k = S j /\ cd k = 1 /\ wf cd fl r' | _ => wf cd fl r end
  | ISdRet k _ true :: r => cd k = 1 /\ (2 <= k -> fl (k - 1) = true) /\ wf cd fl r
  | _ :: r => wf cd fl r
  end.

Lemma wf_mono cd fl cd' fl' : (forall k, cd k = 1 -> cd' k = 1) -> (forall k, fl k = true -> fl' k = true) ->
  forall n p, length p <= n -> wf cd fl p -> wf cd' fl' p.
Proof.
  intros Hc Hf. induction n as [|n IH]; intros p Ln.
  - destruct p; [auto|simpl in Ln; lia].
  - destruct p as [|i r]; [auto|]. simpl in Ln. assert (Lr : length r <= n) by lia.
    destruct i; simpl; try (apply IH; exact Lr).
    + (* IAcqSd *) destruct r as [|i' r']; [auto|]. simpl in Lr.
      destruct i'; try (apply (IH (_ :: r')); simpl; lia).
      destruct won; [|apply (IH (_ :: r')); simpl; lia].
      intros [A [B C]]. split; [exact A|]. split; [apply Hc; exact B|]. apply IH; [lia|exact C].
    + (* ICallSd *) destruct r as [|i' r']; [auto|]. simpl in Lr.
      destruct i'; auto. destruct won; auto. intros [A C]. split; [exact A|]. apply IH; [lia|exact C].
    + (* ISdRet *) destruct won; [|apply IH; exact Lr].
      intros [A [B C]]. split; [apply Hc; exact A|]. split; [intros K; apply Hf; apply B; exact K|]. apply IH; [exact Lr|exact C].
Qed.

Lemma wf_mono' cd fl cd' fl' p : (forall k, cd k = 1 -> cd' k = 1) -> (forall k, fl k = true -> fl' k = true) ->
  wf cd fl p -> wf cd' fl' p.
Proof. intros Hc Hf. apply (wf_mono cd fl cd' fl' Hc Hf (length p) p). lia. Qed.

Lemma wf_unwind cd fl p : wf cd fl p -> wf cd fl (unwind p).
Proof.
  destruct p as [|a p]; [auto|]. destruct a; auto. destruct p as [|b r]; [auto|]. destruct b; auto.
Qed.

(* the tail of a program whose head is about to be replaced by a finished gate passage of layer k *)
Lemma wf_after_acqsd cd fl k w kw r : wf cd fl (IAcqSd k w kw :: r) -> fl k = true -> wf cd fl r.
Proof.
  simpl. destruct r as [|i' r']; [auto|]. destruct i'; auto. destruct won; auto.
  intros [A [B C]] F. subst k0. simpl. split; [exact B|]. split; [|exact C].
  intros _. simpl. rewrite Nat.sub_0_r. exact F.
Qed.

Definition PInv (s : st) : Prop := forall t, wf (cdn s) (flag s) (prog s t).
Lemma pinv_init : PInv init.
Proof. intros t. exact I. Qed.

Lemma pinv_upd s s' t p' : PInv s -> (forall k, cdn s k = 1 -> cdn s' k = 1) ->
  (forall k, flag s k = true -> flag s' k = true) -> (forall u, prog s' u = upd (prog s) t p' u) ->
  (wf (cdn s) (flag s) (prog s t) -> wf (cdn s') (flag s') p') -> PInv s'.
Proof.
  intros P Hc Hf Ep Hp u. rewrite Ep. unfold upd. destruct (Nat.eqb u t) eqn:E.
  - apply Hp. apply P.
  - apply (wf_mono' (cdn s) (flag s)); auto; apply P.
Qed.
Lemma pinv_same s s' t p' : PInv s -> (forall k, cdn s k = 1 -> cdn s' k = 1) ->
  (forall k, flag s k = true -> flag s' k = true) -> (forall u, prog s' u = upd (prog s) t p' u) ->
  (wf (cdn s) (flag s) (prog s t) -> wf (cdn s) (flag s) p') -> PInv s'.
Proof.
  intros P Hc Hf Ep Hp. apply (pinv_upd s s' t p'); auto. intros X. apply (wf_mono' (cdn s) (flag s)); auto.
Qed.

Lemma pinv_gin c s t k r i s' : PInv s -> prog s t = i :: r -> 0 < k -> gin c s t k r i s' -> PInv s'.
Proof.
  intros P Pr K G. destruct G.
  - apply (pinv_same s _ t (IRelSub k false :: ISubRet k false :: r)); auto; try (intros; reflexivity).
    rewrite Pr. simpl. auto.
  - apply (pinv_same s _ t (sub_body c k ++ r)); auto; try (intros; reflexivity).
    rewrite Pr. unfold sub_body. destruct (inline_submit (kindof c k)); simpl; auto.
  - apply (pinv_same s _ t (IRelSd k :: ISdRet k false false :: r)); auto; try (intros; reflexivity).
    rewrite Pr. intros X. simpl. eapply wf_after_acqsd; eauto.
  - apply (pinv_upd s _ t (sd_body c k w kw ++ r)); auto; try (intros; reflexivity).
    + intros k0. simpl. unfold upd. destruct (Nat.eqb k0 k); auto.
    + rewrite Pr. intros X.
      assert (Y : wf (cdn s) (upd (flag s) k true) (IAcqSd k w kw :: r)).
      { apply (wf_mono' (cdn s) (flag s)); auto. intros k0. unfold upd. destruct (Nat.eqb k0 k); auto. }
      apply wf_after_acqsd in Y; [|apply upd_same].
      unfold sd_body. simpl. split; [lia|]. exact Y.
Qed.

Lemma cnt_app f a b : cnt f (a ++ b) = cnt f a + cnt f b.
Proof. induction a as [|h a IH]; simpl; [reflexivity|]. rewrite IH. lia. Qed.

Lemma pinv_step c s e s' : AInv s -> PInv s -> tr c s e s' -> PInv s'.
Proof.
  intros A P T. destruct T.
  - apply (pinv_same s _ t (start_sub k ++ r)); auto; try (intros; reflexivity).
    rewrite H0. destruct k; simpl; auto.
  - apply (pinv_same s _ t (start_sub k ++ prog s t)); auto; try (intros; reflexivity).
    destruct k; simpl; auto.
  - unfold finish_sub. destruct ok.
    + apply (pinv_same s _ t r); auto; try (intros; reflexivity). rewrite H0. simpl. auto.
    + apply (pinv_same s _ t (unwind r)); auto; try (intros; reflexivity). rewrite H0. simpl. apply wf_unwind.
  - unfold finish_sub. destruct ok.
    + apply (pinv_same s _ t r); auto; try (intros; reflexivity). rewrite H. simpl. auto.
    + apply (pinv_same s _ t (unwind r)); auto; try (intros; reflexivity). rewrite H. simpl. apply wf_unwind.
  - refine (pinv_gin c (log (set_gate s k (Some t) 1) (HAcq t k (held_by c s t))) t k r i s' _ H0 H1 H2).
    intros u. apply (P u).
  - refine (pinv_gin c (set_gate s k (Some t) (S (gdepth s k))) t k r i s' _ H0 H1 H2).
    intros u. apply (P u).
  - apply (pinv_same s _ t r); auto; try (intros; reflexivity). rewrite H1.
    destruct H2 as [[b ->]| ->]; simpl; auto.
  - apply (pinv_same s _ t r); auto; try (intros; reflexivity). rewrite H1.
    destruct H2 as [[b ->]| ->]; simpl; auto.
  - assert (D0 : cdn s (S k) = 0).
    { apply (a_pend s A k t). rewrite H0. simpl. rewrite Nat.eqb_refl. lia. }
    assert (Cd : forall k0, cdn s k0 = 1 -> cnt (is_down k0) (HDown t (S k) w kw :: hist s) = 1).
    { intros k0 X. change (cnt (is_down k0) (HDown t (S k) w kw :: hist s)) with ((if Nat.eqb (S k) k0 then 1 else 0) + cdn s k0).
      destruct (Nat.eqb (S k) k0) eqn:E; [apply Nat.eqb_eq in E; subst; lia|simpl; exact X]. }
    assert (C1 : cnt (is_down (S k)) (HDown t (S k) w kw :: hist s) = 1).
    { change (cnt (is_down (S k)) (HDown t (S k) w kw :: hist s)) with ((if Nat.eqb (S k) (S k) then 1 else 0) + cdn s (S k)).
      rewrite Nat.eqb_refl, D0. reflexivity. }
    apply (pinv_upd s _ t (start_sd k w kw ++ r)); auto; try (intros; destruct k; reflexivity);
      try (intros; destruct k; assumption).
    + intros k0 X. destruct k; apply Cd; exact X.
    + rewrite H0. simpl. destruct r as [|i' r']; [tauto|]. destruct i'; try tauto. destruct won; [|tauto].
      intros [E W]. subst k0.
      assert (W' : forall s1, hist s1 = HSdCall t k w kw false :: HDown t (S k) w kw :: hist s -> flag s1 = flag s ->
                   wf (cdn s1) (flag s1) r' /\ cdn s1 (S k) = 1).
      { intros s1 Eh Ef. split.
        - apply (wf_mono' (cdn s) (flag s)); auto.
          + intros k0 X. unfold cdn. rewrite Eh. simpl. apply Cd; exact X.
          + intros k0. rewrite Ef. auto.
        - unfold cdn. rewrite Eh. simpl. exact C1. }
      destruct k.
      * match goal with |- wf (cdn ?s1) _ _ => destruct (W' s1 eq_refl eq_refl) as [W1 W2] end. simpl. split; [exact W2|]. split; [lia|exact W1].
      * match goal with |- wf (cdn ?s1) _ _ => destruct (W' s1 eq_refl eq_refl) as [W1 W2] end. simpl. split; [reflexivity|]. split; [exact W2|exact W1].
  - apply (pinv_same s _ t (start_sd k w kw ++ prog s t)); auto; try (intros; destruct k; reflexivity);
      try (intros; destruct k; assumption).
    destruct k; simpl; auto. destruct (prog s t) as [|i r]; auto. destruct i; simpl in H0; try discriminate. auto.
  - apply (pinv_same s _ t r); auto; try (intros; reflexivity). rewrite H0. simpl. destruct won; tauto.
  - apply (pinv_same s _ t r); auto; try (intros; reflexivity). rewrite H. simpl. auto.
  - intros u. apply (P u).
Qed.

Definition pend (s : st) (k : nat) : Prop := exists u jn, In (ISdRet k jn true) (prog s u).

Definition keyr (i : instr) : bool := match i with ISdRet _ _ true => true | _ => false end.
Lemma in_unwind_keyr i p : In i p -> keyr i = true -> In i (unwind p).
Proof.
  destruct p as [|a p]; [simpl; tauto|]. destruct a; try (simpl; tauto).
  destruct p as [|b r]; [simpl; tauto|]. destruct b; try (simpl; tauto).
  simpl. intros [X|[X|X]] K; subst; try discriminate. right; right; exact X.
Qed.

(* pending winning returns stay in the program until that very return happens *)
Lemma sdret_keep c s e s' : tr c s e s' -> forall u k jn, In (ISdRet k jn true) (prog s u) ->
  In (ISdRet k jn true) (prog s' u) \/ (exists r, prog s u = ISdRet k jn true :: r /\ e = SdRet u k).
Proof.
  intros T u k0 jn X.
  assert (G : forall t p', (forall v, prog s' v = upd (prog s) t p' v) ->
              (u = t -> In (ISdRet k0 jn true) p') -> In (ISdRet k0 jn true) (prog s' u)).
  { intros t p' Ep Hp. rewrite Ep. unfold upd. destruct (Nat.eqb u t) eqn:E; [apply Nat.eqb_eq in E; auto|exact X]. }
  assert (Tl : forall t i r, prog s t = i :: r -> keyr i = false -> u = t -> In (ISdRet k0 jn true) r).
  { intros t i r P K ->. rewrite P in X. destruct X as [X|X]; [subst i; discriminate|exact X]. }
  destruct T.
  - left. apply (G t (start_sub k ++ r)); [intros; reflexivity|]. intros E. apply in_or_app. right. eapply Tl; eauto.
  - left. apply (G t (start_sub k ++ prog s t)); [intros; reflexivity|]. intros ->. apply in_or_app. right. exact X.
  - left. unfold finish_sub. destruct ok.
    + apply (G t r); [intros; reflexivity|]. intros E. eapply Tl; eauto.
    + apply (G t (unwind r)); [intros; reflexivity|]. intros E. apply in_unwind_keyr; [eapply Tl; eauto|reflexivity].
  - left. unfold finish_sub. destruct ok.
    + apply (G t r); [intros; reflexivity|]. intros E. eapply Tl; eauto.
    + apply (G t (unwind r)); [intros; reflexivity|]. intros E. apply in_unwind_keyr; [eapply Tl; eauto|reflexivity].
  - left. destruct H2; (eapply (G t); [intros; reflexivity|]); intros E;
      try (apply in_or_app; right); try (right; right); try right; eapply (Tl t _ r H0); auto.
  - left. destruct H2; (eapply (G t); [intros; reflexivity|]); intros E;
      try (apply in_or_app; right); try (right; right); try right; eapply (Tl t _ r H0); auto.
  - left. apply (G t r); [intros; reflexivity|]. intros E. eapply Tl; eauto. destruct H2 as [[b ->]| ->]; reflexivity.
  - left. apply (G t r); [intros; reflexivity|]. intros E. eapply Tl; eauto. destruct H2 as [[b ->]| ->]; reflexivity.
  - left. apply (G t (start_sd k w kw ++ r)); [intros; destruct k; reflexivity|]. intros E. apply in_or_app. right. eapply Tl; eauto.
  - left. apply (G t (start_sd k w kw ++ prog s t)); [intros; destruct k; reflexivity|]. intros ->. apply in_or_app. right. exact X.
  - destruct (Nat.eq_dec u t) as [->|Hu].
    + rewrite H0 in X. destruct X as [X|X].
      * inversion X; subst. right. exists r. split; [exact H0|reflexivity].
      * left. simpl. rewrite upd_same. exact X.
    + left. simpl. rewrite upd_other; auto.
  - left. apply (G t r); [intros; reflexivity|]. intros E. eapply Tl; eauto.
  - left. exact X.
Qed.

Lemma flag_step c s e s' : tr c s e s' -> forall k, flag s' k = true -> flag s k = true \/ pend s' k.
Proof.
  intros T k0. destruct T; simpl; auto; try (destruct k; simpl; auto; fail); try (unfold finish_sub; simpl; auto; fail).
  - destruct H2; simpl; auto. unfold upd. destruct (Nat.eqb k0 k) eqn:E; auto. apply Nat.eqb_eq in E; subst k0.
    intros _. right. exists t. eexists. simpl. rewrite upd_same. right. right. left. reflexivity.
  - destruct H2; simpl; auto. unfold upd. destruct (Nat.eqb k0 k) eqn:E; auto. apply Nat.eqb_eq in E; subst k0.
    intros _. right. exists t. eexists. simpl. rewrite upd_same. right. right. left. reflexivity.
Qed.

Lemma flag_mono c s e s' : tr c s e s' -> forall k, flag s k = true -> flag s' k = true.
Proof.
  intros T k0. destruct T; simpl; auto; try (destruct k; simpl; auto; fail); try (unfold finish_sub; simpl; auto; fail).
  - destruct H2; simpl; auto. unfold upd. destruct (Nat.eqb k0 k); auto.
  - destruct H2; simpl; auto. unfold upd. destruct (Nat.eqb k0 k); auto.
Qed.

Lemma cnt_sdlib k0 a b c d e t k1 w kw l :
  cnt (is_down k0) (HSdCall a b c d e :: HDown t k1 w kw :: l) = (if Nat.eqb k1 k0 then 1 else 0) + cnt (is_down k0) l.
Proof. reflexivity. Qed.

Lemma cdn_step c s e s' : tr c s e s' -> forall k0, cdn s' k0 = cdn s k0 \/
  (exists t k w kw r, k0 = S k /\ prog s t = ICallSd k w kw :: r /\ cdn s' k0 = S (cdn s k0) /\
                      prog s' t = start_sd k w kw ++ r).
Proof.
  intros T k0. destruct T; try (left; reflexivity); try (left; destruct k; reflexivity);
    try (left; destruct H2; reflexivity).
  assert (Hc : cdn (log (log (match k with 0 => inc_bcalls | _ => fun x => x end (set_prog s t (start_sd k w kw ++ r)))
                 (HDown t (S k) w kw)) (HSdCall t k w kw false)) k0 = (if Nat.eqb (S k) k0 then 1 else 0) + cdn s k0).
  { unfold cdn. destruct k; simpl hist; apply cnt_sdlib. }
  destruct (Nat.eq_dec k0 (S k)) as [->|Hk].
  - right. exists t, k, w, kw, r. split; [reflexivity|]. split; [exact H0|]. split.
    + rewrite Hc, Nat.eqb_refl. reflexivity.
    + destruct k; simpl; rewrite upd_same; reflexivity.
  - left. rewrite Hc. assert (E : Nat.eqb (S k) k0 = false) by (apply Nat.eqb_neq; auto). rewrite E. reflexivity.
Qed.

Lemma cdn_mono c s e s' : AInv s -> tr c s e s' -> forall k, cdn s k = 1 -> cdn s' k = 1.
Proof.
  intros A T k X. destruct (cdn_step c s e s' T k) as [E|[t [k1 [w [kw [r [-> [P _]]]]]]]]; [congruence|].
  assert (D0 : cdn s (S k1) = 0). { apply (a_pend s A k1 t). rewrite P. simpl. rewrite Nat.eqb_refl. lia. }
  congruence.
Qed.

Record QInv (s : st) : Prop := {
  q_flag : forall k, flag s k = true -> cdn s k = 1 \/ pend s k;
  q_down : forall j, 1 <= j -> cdn s (S j) = 1 -> flag s j = true \/ pend s (S j)
}.

Lemma qinv_init : QInv init.
Proof. constructor; simpl; intros; discriminate. Qed.

Lemma pend_step c s e s' k : AInv s -> PInv s -> tr c s e s' -> pend s k ->
  pend s' k \/ (cdn s' k = 1 /\ (2 <= k -> flag s' (k - 1) = true)).
Proof.
  intros A P T [u [jn X]]. destruct (sdret_keep c s e s' T u k jn X) as [Y|[r [Pr _]]].
  - left. exists u, jn. exact Y.
  - right. generalize (P u). rewrite Pr. simpl. intros [C [F _]]. split.
    + eapply cdn_mono; eauto.
    + intros K. eapply flag_mono; eauto.
Qed.

Lemma qinv_step c s e s' : AInv s -> PInv s -> PInv s' -> QInv s -> tr c s e s' -> QInv s'.
Proof.
  intros A P P' [Q1 Q2] T. constructor.
  - intros k F. destruct (flag_step c s e s' T k F) as [F0|Pd]; [|right; exact Pd].
    destruct (Q1 k F0) as [C|Pd].
    + left. eapply cdn_mono; eauto.
    + destruct (pend_step c s e s' k A P T Pd) as [Y|[Y _]]; [right; exact Y|left; exact Y].
  - intros j J C. destruct (cdn_step c s e s' T (S j)) as [E|[t [k1 [w [kw [r [E1 [Pr [_ Pr']]]]]]]]].
    + rewrite E in C. destruct (Q2 j J C) as [F|Pd].
      * left. eapply flag_mono; eauto.
      * destruct (pend_step c s e s' (S j) A P T Pd) as [Y|[_ Y]]; [right; exact Y|left].
        replace j with (S j - 1) by lia. apply Y. lia.
    + inversion E1; subst k1. right.
      generalize (P t). rewrite Pr. simpl. destruct r as [|i' r']; [tauto|]. destruct i'; try tauto. destruct won; [|tauto].
      intros [-> _]. exists t, join. rewrite Pr'. apply in_or_app. right. left. reflexivity.
Qed.

Record PropInv (s : st) : Prop := { pi_a : AInv s; pi_p : PInv s; pi_q : QInv s }.
Theorem propinv_reachable c s : reachable_from (step c) init s -> PropInv s.
Proof.
  apply invariant_rule.
  - constructor; [apply ainv_init|apply pinv_init|apply qinv_init].
  - intros s0 e s1 [A P Q] H. apply step_tr in H.
    assert (P1 : PInv s1) by (eapply pinv_step; eauto).
    constructor; [eapply ainv_step; eauto|exact P1|eapply qinv_step; eauto].
Qed.
