(* C03 for the Retry machine, part 6: no lost wake-up, with the timing.  The time of the worker's latest
   scan (_get_next_job at the top of the submit loop) is not part of the machine state, so it is added as a
   ghost component: stepG runs step and records the clock at every scan.  The ghost machine has exactly the
   reachable states of the original one (reachG_proj, reachG_lift). *)
From Coq Require Import List ZArith Bool Arith Lia.
From RecordUpdate Require Import RecordSet.
From ME Require Import Base.Machine Base.Fut Base.GenPrelude Gen.RetryGen Model.Retry Proofs.Retry_Spec.
From ME Require Import Proofs.Retry_C0 Proofs.Retry_C1 Proofs.Retry_C2 Proofs.Retry_C3 Proofs.Retry_C4 Proofs.Retry_C5 Proofs.Retry_C6
  Proofs.Retry_C7 Proofs.Retry_N0.
Import ListNotations RecordSetNotations.

Definition is_scan (s : st) (e : ev) : bool :=
  match e with EXSec t _ => Nat.eqb t worker && isnil (thr s t) | _ => false end.
Definition stepG (sg : st * Z) (te : Z * ev) : option (st * Z) :=
  match step (fst sg) te with
  | Some s' => Some (s', if is_scan (fst sg) (snd te) then fst te else snd sg)
  | None => None
  end.
Definition initG : st * Z := (init, 0%Z).

Lemma runG_proj : forall es sg sg', run stepG sg es = Some sg' -> run step (fst sg) es = Some (fst sg').
Proof.
  induction es as [|e es IH]; intros sg sg' H; simpl in *.
  - inversion H; reflexivity.
  - unfold stepG in H at 1. destruct (step (fst sg) e) as [s1|]; [|discriminate]. apply IH in H. exact H.
Qed.
Lemma runG_lift : forall es s s' g, run step s es = Some s' -> exists g', run stepG (s, g) es = Some (s', g').
Proof.
  induction es as [|e es IH]; intros s s' g H; simpl in *.
  - inversion H; subst. exists g. reflexivity.
  - unfold stepG at 1. simpl. destruct (step s e) as [s1|]; [|discriminate]. apply IH; exact H.
Qed.
Lemma reachG_proj s g : reachable_from stepG initG (s, g) -> reachable_from step init s.
Proof. intros [es H]. exists es. apply runG_proj in H. exact H. Qed.
Lemma reachG_lift s : reachable_from step init s -> exists g, reachable_from stepG initG (s, g).
Proof. intros [es H]. destruct (runG_lift es init s 0%Z H) as [g' G]. exists g', es. exact G. Qed.

(* the worker is about to park, or is parked, with timeout tau, and no set() is pending *)
Definition wparked (s : st) (tau : option Z) : Prop :=
  (In (IWWait tau) (thr s worker) /\ evf s = false) \/
  (exists since, wblock s = Some (tau, since) /\ wnotif s = false).
(* an idle record is covered: a producer is between its X-section and its event.set(), or the wait is timed
   and ends (relative to the scan at time g) no later than the record is due *)
Definition covered (s : st) (g : Z) (tau : option Z) (r : nat) : Prop :=
  (exists t l, thr s t = IEvSet :: l) \/
  (exists x, tau = Some x /\ (0 < x)%Z /\ (g + x <= jwhen (recs s r))%Z).
Definition COV (s : st) (g : Z) : Prop :=
  forall tau, wparked s tau -> forall r, In r (jobs s) -> jdel (recs s r) = None -> covered s g tau r.

Lemma wait_tail s i l tau : wsh (thr s worker) = true -> thr s worker = i :: l -> ~ In (IWWait tau) l.
Proof.
  intros W E Hin. rewrite E in W. unfold wsh in W. simpl in W. apply andb_true_iff in W. destruct W as [W _].
  rewrite forallb_forall in W. apply W in Hin. discriminate.
Qed.
Lemma in_cbs_wait tau j l : ~ In (IWWait tau) (cbs_prog j l).
Proof.
  induction l as [|c l IH]; simpl; [tauto|]. destruct c; simpl; intros [E|H]; try discriminate E; auto.
  destruct H as [E|H]; [discriminate E|auto].
Qed.

Lemma is_evset_head p : is_evset p = true -> exists l, p = IEvSet :: l.
Proof. destruct p as [|i l]; [discriminate|]. destruct i; try discriminate. intros _. exists l. reflexivity. Qed.

(* a step of thread t that is neither event.set() nor one of the worker's scan / wait / woke / clear *)
Lemma cov_frame s s' g t : COV s g ->
  (forall u, u <> t -> thr s' u = thr s u) ->
  evf s' = evf s -> wblock s' = wblock s -> wnotif s' = wnotif s ->
  (forall tau, In (IWWait tau) (thr s' t) -> In (IWWait tau) (thr s t)) ->
  (is_evset (thr s t) = false \/ is_evset (thr s' t) = true) ->
  (forall r, In r (jobs s') -> jdel (recs s' r) = None ->
     (In r (jobs s) /\ jdel (recs s r) = None /\ jwhen (recs s' r) = jwhen (recs s r)) \/ is_evset (thr s' t) = true) ->
  COV s' g.
Proof.
  intros HC Ht Ee Eb En Hw Hs Hj tau Hp r Hin Hjd.
  assert (Hp0 : wparked s tau).
  { destruct Hp as [[A B]|(since & A & B)].
    - left. split; [|congruence]. destruct (Nat.eq_dec worker t) as [E|N]; [rewrite E in *; apply Hw; exact A|].
      rewrite <- (Ht _ N). exact A.
    - right. exists since. split; congruence. }
  destruct (Hj r Hin Hjd) as [(A & B & C)|A].
  - destruct (HC tau Hp0 r A B) as [(u & l & Eu)|(x & X1 & X2 & X3)].
    + left. destruct (Nat.eq_dec u t) as [->|N].
      * destruct Hs as [Hs|Hs]; [rewrite Eu in Hs; discriminate Hs|].
        apply is_evset_head in Hs. destruct Hs as [l' El]. exists t, l'. exact El.
      * exists u, l. rewrite (Ht _ N). exact Eu.
    + right. exists x. rewrite C. auto.
  - left. apply is_evset_head in A. destruct A as [l' El]. exists t, l'. exact El.
Qed.

Lemma cov_step0 s e s' g : COV s g -> (forall t, wsh (thr s t) = true) -> (forall t, evok (thr s t) = true) ->
  WB s -> RI s -> step0 s e = Some s' -> COV s' (if is_scan s e then clock s else g).
Proof.
  intros HC HS HE HW HR H. s0inv H; try exact HC.
  all: try (match goal with inl : option outcome |- _ => destruct inl end).
  all: bsplit; subst.
  all: unfold is_scan; try (match goal with Hq : thr _ _ = _ |- _ => rewrite Hq end); simpl andb; rewrite ?andb_false_r; cbv iota.
  all: try (match goal with Hq : thr _ ?t = _ |- _ =>
    eapply (cov_frame s _ g t HC);
    [ intros u Hu; unfold log, set_prog; simpl; apply upd_other; exact Hu
    | reflexivity | reflexivity | reflexivity
    | let tau1 := fresh "tau1" in let Hw := fresh "Hw" in
      intros tau1 Hw; unfold log, set_prog in Hw; simpl in Hw; rewrite upd_same in Hw;
      try (match type of Hw with context[if dcb ?s ?d then _ else _] => destruct (dcb s d) end);
      try (apply in_norm in Hw; destruct Hw as [Hw|Hw]; [|discriminate Hw]);
      try (apply in_app_iff in Hw; destruct Hw as [Hw|Hw]; [exfalso; eapply in_cbs_wait; exact Hw|]);
      try (apply in_tl in Hw);
      simpl in Hw; repeat (destruct Hw as [Hw|Hw]; [try discriminate Hw|]); try contradiction;
      try (apply in_tl in Hw); rewrite Hq; right; exact Hw
    | left; rewrite Hq; reflexivity
    | let r0 := fresh "r0" in let Hi0 := fresh "Hi0" in let Hj0 := fresh "Hj0" in
      intros r0 Hi0 Hj0; unfold log, set_prog in Hi0, Hj0 |- *; simpl in Hi0, Hj0 |- *;
      try solve [left; repeat split; assumption] ] end).
  (* 1-3: scan, the worker does not go to wait *)
  1-3: (intros tau0 [[A _]|(since & A & _)];
       [unfold set_prog in A; simpl in A; rewrite ?upd_same in A; simpl in A;
        repeat (destruct A as [A|A]; [discriminate A|]); contradiction
       |unfold set_prog in A; simpl in A; destruct (HW _ _ A) as (B & _); rewrite Heql in B; discriminate B]).
  - (* 4: scan, timed wait *)
    intros tau0 [[A B]|(since & A & _)] rr Hin Hjd;
      [|unfold set_prog in A; simpl in A; destruct (HW _ _ A) as (B & _); rewrite Heql in B; discriminate B].
    unfold set_prog in A, Hin, Hjd |- *; simpl in A, Hin, Hjd |- *. rewrite ?upd_same in A. simpl in A.
    destruct A as [A|[]]. inversion A; subst tau0. right. eexists. split; [reflexivity|].
    pose proof (get_next_job_spec (clock s) (map (view s) (jobs s))) as G. rewrite Heqo in G.
    destruct G as (A1 & B1 & C1). apply in_map_iff in A1. destruct A1 as (r1 & <- & Hr1). simpl in *.
    apply Z.leb_gt in Heqb2. split; [lia|].
    destruct C1 as [C1|[C1|C1]]; [congruence|lia|].
    destruct (C1 (view s rr)) as (_ & _ & C2); [apply in_map; exact Hin|simpl; rewrite Hjd; reflexivity|]. simpl in C2. lia.
  - (* 5: scan, untimed wait: there is no idle record *)
    intros tau0 [[A B]|(since & A & _)] rr Hin Hjd;
      [|unfold set_prog in A; simpl in A; destruct (HW _ _ A) as (B & _); rewrite Heql in B; discriminate B].
    unfold set_prog in Hin, Hjd; simpl in Hin, Hjd.
    pose proof (get_next_job_spec (clock s) (map (view s) (jobs s))) as G. rewrite Heqo in G.
    specialize (G (view s rr) (in_map _ _ _ Hin)). simpl in G. rewrite Hjd in G. discriminate G.
  - (* 6: submit_retry appended the attempt-0 record; event.set() is next *)
    apply in_app_iff in Hi0. destruct Hi0 as [Hi0|[<-|[]]].
    + left. rewrite upd_lt in Hj0 |- * by (apply (ri_jobs s HR); exact Hi0). auto.
    + right. rewrite upd_same. pose proof (HE t) as E. rewrite Heql in E. simpl in E.
      apply andb_true_iff in E. destruct E as [E _]. apply is_evset_head in E. destruct E as [l' ->]. reflexivity.
  - (* 7 *) left. destruct (Nat.eq_dec r0 n) as [->|Nn];
      [rewrite upd_same in Hj0 |- *; simpl in Hj0 |- *; auto|rewrite (upd_other _ _ _ _ Nn) in Hj0 |- *; auto].
  - (* 8 *) left. apply in_remove_id in Hi0. destruct Hi0. auto.
  - (* 9: _retry appended the new idle record; event.set() is next *)
    apply in_app_iff in Hi0. destruct Hi0 as [Hi0|[<-|[]]].
    + apply in_remove_id in Hi0. destruct Hi0 as [Hi0 _].
      left. rewrite upd_lt in Hj0 |- * by (apply (ri_jobs s HR); exact Hi0). auto.
    + right. rewrite upd_same. pose proof (HE t) as E. rewrite Heql in E. simpl in E.
      apply andb_true_iff in E. destruct E as [E _]. apply is_evset_head in E. destruct E as [l' ->]. reflexivity.
  - (* 10 *) left. apply in_remove_id in Hi0. destruct Hi0. auto.
  - (* 11 *) left. apply in_remove_id in Hi0. destruct Hi0. auto.
  - (* 12: event.set() *)
    intros tau0 [[A B]|(since & A & B)]; unfold set_prog in A, B; simpl in A, B; [discriminate B|].
    rewrite A in B. discriminate B.
  - (* 13 *) apply in_app_iff in Hi0. destruct Hi0 as [Hi0|[<-|[]]]; [|rewrite upd_same in Hj0; discriminate Hj0].
    left. rewrite upd_lt in Hj0 |- * by (apply (ri_jobs s HR); exact Hi0). auto.
  - (* 14 *) apply in_app_iff in Hi0. destruct Hi0 as [Hi0|[<-|[]]]; [|rewrite upd_same in Hj0; discriminate Hj0].
    left. rewrite upd_lt in Hj0 |- * by (apply (ri_jobs s HR); exact Hi0). auto.
  - (* 15: wait() returns at once, flag set *)
    intros tau0 [[A B]|(since & A & _)]; unfold set_prog in A; simpl in A.
    + rewrite ?upd_same in A. simpl in A. destruct A as [A|A]; [discriminate A|].
      exfalso. exact (wait_tail s _ _ _ (HS worker) Heql A).
    + destruct (HW _ _ A) as (B & _). rewrite Heql in B. discriminate B.
  - (* 16: the worker parks *)
    intros tau0 [[A B]|(since & A & B)] rr Hin Hjd; unfold set_prog in A, Hin, Hjd |- *; simpl in A, Hin, Hjd |- *.
    + rewrite ?upd_same in A. simpl in A. destruct A as [A|A]; [discriminate A|].
      exfalso. exact (wait_tail s _ _ _ (HS worker) Heql A).
    + inversion A; subst tau0 since.
      assert (P0 : wparked s tau) by (left; split; [rewrite Heql; left; reflexivity|exact Heqb]).
      destruct (HC tau P0 rr Hin Hjd) as [(u & l' & Eu)|X]; [left|right; exact X].
      assert (u <> worker) by (intros ->; rewrite Heql in Eu; discriminate Eu).
      exists u, l'. simpl. rewrite upd_other by assumption. exact Eu.
  - (* 17 *) intros tau0 [[A B]|(since & A & _)]; unfold set_prog in A; simpl in A; [|discriminate A].
    rewrite ?upd_same in A. simpl in A. destruct A as [A|A]; [discriminate A|].
    exfalso. exact (wait_tail s _ _ _ (HS worker) Heql A).
  - (* 18 *) intros tau0 [[A B]|(since & A & _)]; unfold set_prog in A; simpl in A; [|discriminate A].
    rewrite ?upd_same in A. simpl in A. destruct A as [A|A]; [discriminate A|].
    exfalso. exact (wait_tail s _ _ _ (HS worker) Heql A).
  - (* 19: clear() *)
    intros tau0 [[A B]|(since & A & _)]; unfold set_prog in A; simpl in A.
    + pose proof (HS worker) as W. rewrite Heql in W. apply wsh_single in W; [|reflexivity]. subst l.
      rewrite ?upd_same in A. destruct A.
    + destruct (HW _ _ A) as (B & _). rewrite Heql in B. discriminate B.
Qed.

Lemma clock_step0 s e s' : step0 s e = Some s' -> clock s' = clock s.
Proof.
  intros H. s0inv H; try reflexivity.
  all: try (match goal with inl : option outcome |- _ => destruct inl end); reflexivity.
Qed.
Lemma wblock_step0 s e s' tau since : step0 s e = Some s' -> wblock s' = Some (tau, since) ->
  wblock s = Some (tau, since) \/ since = clock s.
Proof.
  intros H. s0inv H; auto.
  all: try (match goal with inl : option outcome |- _ => destruct inl end).
  all: unfold log, set_prog; simpl; auto; try discriminate.
  intros E. inversion E. auto.
Qed.

Definition GI (sg : st * Z) : Prop :=
  COV (fst sg) (snd sg) /\ (snd sg <= clock (fst sg))%Z /\
  forall tau since, wblock (fst sg) = Some (tau, since) -> (snd sg <= since)%Z.

Lemma GI_reach sg : reachable_from stepG initG sg -> GI sg.
Proof.
  apply (invariant_rule_r stepG GI).
  - split; [|split]; simpl; try lia; [|intros tau since H; discriminate H].
    intros tau _ r []. 
  - intros [s g] te [s' g'] R (HC & Hg & Hb) H. simpl in HC, Hg, Hb.
    apply reachG_proj in R. unfold stepG in H. simpl in H.
    destruct (step s te) as [s2|] eqn:Es; [|discriminate H]. inversion H; subst s2 g'. clear H.
    apply step_split in Es. destruct Es as (s1 & Ht & H0).
    pose proof Ht as Ht'. apply tick_eq in Ht. subst s1.
    unfold tick in Ht'. destruct (Z.leb (clock s) (fst te)) eqn:Ec; [|discriminate Ht']. apply Z.leb_le in Ec. clear Ht'.
    assert (HW1 : WB (s <| clock := fst te |>)).
    { intros tau since Eb. simpl in Eb. destruct (WB_reach s R _ _ Eb) as (A & B & C). repeat split; auto. simpl. lia. }
    assert (HC1 : COV (s <| clock := fst te |>) g) by exact HC.
    pose proof (cov_step0 _ _ _ _ HC1
                  (WSH_reach s R) (EVOK_reach s R) HW1 (RI_tick s (fst te) (RI_reach s R)) H0) as HC'.
    pose proof (clock_step0 _ _ _ H0) as Ek. simpl in Ek.
    change (is_scan (s <| clock := fst te |>) (snd te)) with (is_scan s (snd te)) in HC'. simpl in HC'.
    split; [exact HC'|]. simpl. split.
    + rewrite Ek. destruct (is_scan s (snd te)); lia.
    + intros tau since Eb. destruct (wblock_step0 _ _ _ _ _ H0 Eb) as [E|E]; simpl in E.
      * destruct (is_scan s (snd te)) eqn:Esc; [|exact (Hb _ _ E)].
        exfalso. destruct (WB_reach s R _ _ E) as (A & _).
        unfold is_scan in Esc. destruct (snd te); try discriminate Esc.
        apply andb_true_iff in Esc. destruct Esc as [E1 E2]. apply eqb_t in E1. subst t. rewrite A in E2. discriminate E2.
      * subst since. destruct (is_scan s (snd te)); lia.
Qed.
