(* Layer E1 (C03/C06): projections of the invariant bundle, environment facts, the "busy" token
   and the effect of a step on it. *)
From Coq Require Import ZArith List Bool Arith Lia.
From RecordUpdate Require Import RecordSet.
From ME Require Import Base.Machine Base.Fut Base.GenPrelude Model.MapFut Model.MapLaw Proofs.MapFut_InvD.
Import ListNotations RecordSetNotations.

(* ---- projections of Inv6 --------------------------------------------------------------------- *)
Lemma inv6_shape s : Inv6 s -> shape_all s. Proof. intros H; apply H. Qed.
Lemma inv6_bnd s : Inv6 s -> Bnd s. Proof. intros H; apply H. Qed.
Lemma inv6_hd s : Inv6 s -> Hd s. Proof. intros H; apply H. Qed.
Lemma inv6_dloc s : Inv6 s -> Dloc s. Proof. intros H; apply H. Qed.
Lemma inv6_fn s : Inv6 s -> Fn s. Proof. intros H; apply H. Qed.
Lemma inv6_shape2 s : Inv6 s -> shape2_all s. Proof. intros H; apply H. Qed.
Lemma inv6_en s : Inv6 s -> En s. Proof. intros H; apply H. Qed.
Lemma inv6_ol s : Inv6 s -> Ol s. Proof. intros H; apply H. Qed.

(* ---- environment futures ---------------------------------------------------------------------- *)
Lemma lstep_es_canc s e s0 : lstep s e = Some s0 -> forall d, fcancelled (es s d) = true -> fcancelled (es s0 d) = true.
Proof.
  intros H. step_cases H; intros d' X; simpl; auto.
  all: usplit d0; auto. all: try (usplit d; auto).
  all: try (destruct (es s d0); simpl in *; inv_eqs; auto; discriminate).
  all: try (destruct (es s d); simpl in *; inv_eqs; auto; discriminate).
Qed.

(* a done delegate has no registered callbacks left *)
Definition Ecl (s : st) : Prop := forall d, fdone (es s d) = true -> ecbs s d = [].
Lemma lstep_ecl s e s0 : lstep s e = Some s0 -> Ecl s -> Ecl s0.
Proof.
  intros H I. unfold Ecl in *. step_cases H; simpl; auto.
  all: intros d' X.
  all: try (usplit d0). all: try (usplit d). all: auto.
  all: try (rewrite I; [reflexivity|]).
  all: try (destruct (es s d0); simpl in *; inv_eqs; simpl in *; auto; discriminate).
  all: try (destruct (es s d); simpl in *; inv_eqs; simpl in *; auto; discriminate).
Qed.

(* ---- the busy token: some pending instruction will still act on j ------------------------------ *)
Definition bz (j : nat) (i : instr) : bool :=
  match i with
  | IAddCbE _ j' | IDCancelledQ j' _ | IUserFn j' _ | IUserEfn j' _ | IDoneQ j' _ | IFSetRes j' _ | IFSetExc j' _ => Nat.eqb j j'
  | _ => false
  end.
Definition busy (j : nat) (p : list instr) : bool := existsb (bz j) p.

Lemma busy_app j a b : busy j (a ++ b) = busy j a || busy j b.
Proof. apply existsb_app. Qed.
Lemma busy_fires j s d r : busy j (fires s d r) = existsb (Nat.eqb j) (ecbs s d) || busy j r.
Proof.
  unfold fires. rewrite busy_app. f_equal. induction (ecbs s d) as [|a l IH]; [reflexivity|].
  unfold busy in *. simpl. rewrite IH. reflexivity.
Qed.
Lemma busy_on_mapped j s j0 x r : busy j (on_mapped s j0 x ++ r) = Nat.eqb j j0 || busy j r.
Proof.
  rewrite busy_app. f_equal. unfold on_mapped, busy. destruct (mkind s j0), (mflat s j0), x; simpl; rewrite ?orb_false_r; reflexivity.
Qed.
Lemma busy_cbs j j0 l r : busy j (map (fun c => IUserCb j0 c false) l ++ r) = busy j r.
Proof. rewrite busy_app. replace (busy j (map _ l)) with false; [reflexivity|]. induction l; simpl; auto. Qed.
Lemma busy_in j p : busy j p = true <-> exists i, In i p /\ bz j i = true.
Proof. apply existsb_exists. Qed.
Lemma existsb_eqb_in j l : existsb (Nat.eqb j) l = true <-> In j l.
Proof.
  rewrite existsb_exists. split; [intros (x & X & E); apply Nat.eqb_eq in E; subst; exact X|intros X; exists j; split; [exact X|apply Nat.eqb_refl]].
Qed.

Definition lost (s : st) (j : nat) : Prop := exists d, tokP s j d /\ fcancelled (es s d) = true.

(* what a step of thread t does to a busy token of j in t's program *)
Lemma lstep_busy_t s e s0 : lstep s e = Some s0 -> shape_all s -> Ol s -> forall j,
  busy j (thr s (tid e)) = true ->
  busy j (thr s0 (tid e)) = true \/ fdone (ms s0 j) = true \/ (exists d, In j (ecbs s0 d)) \/ lost s0 j.
Proof.
  intros H SH O. pose proof (SH (tid e)) as Sh. pose proof (o_thr _ O (tid e)) as Ot.
  step_cases H; intros j' X; simpl in *; try (rewrite Heql in X; simpl in X; discriminate X).
  all: rewrite ?upd_same; rewrite Heql in Sh, X, Ot; simpl in Sh, X.
  all: rewrite ?busy_on_mapped, ?busy_fires, ?busy_cbs.
  all: unfold busy in *; simpl in *; rewrite ?orb_false_r in *.
  all: try (left; exact X).
  all: try (left; rewrite X; auto using orb_true_r; fail).
  all: try (left; rewrite Heql; simpl; exact X).
  all: match type of X with (Nat.eqb _ ?a) || _ = true =>
         destruct (Nat.eqb j' a) eqn:Ej; [apply Nat.eqb_eq in Ej; subst j'|apply Nat.eqb_neq in Ej]; simpl in X end.
  all: try (left; exact X).
  all: fset_facts; rewrite ?upd_same.
  all: try (right; left; assumption).
  all: try (right; left; reflexivity).
  all: try (destruct l as [|[] l']; try discriminate Sh; simpl in *; left; exact X).
  all: rewrite ?upd_other by assumption.
  - right; right; left. exists d0. rewrite upd_same. apply in_or_app; right; left; reflexivity.
  - right; right; right. inversion Ot; subst. destruct H1 as [T _]. exists d0. split; [exact T|assumption].
Qed.


Lemma lstep_ecbs_keep s e s0 : lstep s e = Some s0 -> forall d j, In j (ecbs s d) ->
  In j (ecbs s0 d) \/ busy j (thr s0 (tid e)) = true.
Proof.
  intros H. step_cases H; intros d' j' X; simpl in *; auto.
  all: rewrite ?upd_same, ?busy_fires.
  all: try (usplit d0); try (usplit d); auto.
  all: try (left; apply in_or_app; left; exact X).
  all: right; apply orb_true_iff; left; apply existsb_eqb_in; exact X.
Qed.

Lemma lstep_fresh_busy s e s0 : lstep s e = Some s0 -> forall j, nfut s <= j -> j < nfut s0 -> busy j (thr s0 (tid e)) = true.
Proof.
  intros H. step_cases H; intros j' L1 L2; simpl in *; try lia.
  assert (j' = nfut s) as -> by lia. rewrite upd_same. unfold busy; simpl. rewrite Nat.eqb_refl. reflexivity.
Qed.

Lemma lstep_lost s e s0 : lstep s e = Some s0 -> shape_all s -> Ol s -> forall j, j < nfut s -> lost s j ->
  lost s0 j \/ busy j (thr s0 (tid e)) = true \/ fdone (ms s0 j) = true \/ (exists d, In j (ecbs s0 d)).
Proof.
  intros H SH O j L (d & T & C).
  destruct (lstep_ncall _ _ _ H) as [NC|(j0 & IC & NC)].
  - left. exists d. split; [eapply tokP_mono; eauto|eapply lstep_es_canc; eauto].
  - destruct (Nat.eq_dec j j0) as [->|N].
    + assert (B : busy j0 (thr s (tid e)) = true).
      { destruct IC as (d1 & rest & [E|E]); rewrite E; unfold busy; simpl; rewrite Nat.eqb_refl; reflexivity. }
      destruct (lstep_busy_t _ _ _ H SH O j0 B) as [X|[X|[X|X]]]; auto.
    + left. exists d. split; [eapply tokP_mono; eauto|eapply lstep_es_canc; eauto].
      rewrite NC. apply Nat.eqb_neq in N. rewrite N. reflexivity.
Qed.

(* ---- no library future is lost: the invariant --------------------------------------------------- *)
Definition Nl (s : st) : Prop := forall j, j < nfut s -> fdone (ms s j) = false ->
  (exists t, busy j (thr s t) = true) \/ (exists d, In j (ecbs s d)) \/ lost s j.

Lemma lstep_nl s e s0 : lstep s e = Some s0 -> shape_all s -> Ol s -> Nl s -> Nl s0.
Proof.
  intros H SH O I j L D. destruct (le_lt_dec (nfut s) j) as [L1|L1].
  { left. exists (tid e). eapply lstep_fresh_busy; eauto. }
  assert (D0 : fdone (ms s j) = false).
  { destruct (fdone (ms s j)) eqn:X; auto. rewrite (lstep_done_stable _ _ _ H j L1 X) in D. discriminate D. }
  destruct (I j L1 D0) as [[t' X]|[[d X]|X]].
  - destruct (Nat.eq_dec t' (tid e)) as [->|N].
    + destruct (lstep_busy_t _ _ _ H SH O j X) as [Y|[Y|[Y|Y]]]; eauto. congruence.
    + left. exists t'. rewrite (lstep_thr_other _ _ _ H _ N). exact X.
  - destruct (lstep_ecbs_keep _ _ _ H d j X) as [Y|Y]; eauto.
  - destruct (lstep_lost _ _ _ H SH O j L1 X) as [Y|[Y|[Y|Y]]]; eauto. congruence.
Qed.

Lemma sil_head_notbz t s s' : sil t s s' -> forall i r, thr s t = i :: r -> forall j, bz j i = false.
Proof. intros H i r E j; inversion H; subst; rewrite (upd_eq_same _ _ _ _ H0) in E; inversion E; reflexivity. Qed.

Lemma sil_busy t s s' : sil t s s' -> forall t' j, busy j (thr s t') = true -> busy j (thr s' t') = true.
Proof.
  intros H t' j X. destruct (sil_thr _ _ _ H) as (i & r & Et & Ho & Hr).
  destruct (Nat.eq_dec t' t) as [->|N]; [|rewrite Ho by exact N; exact X].
  rewrite Et in X. unfold busy in X. simpl in X. rewrite (sil_head_notbz _ _ _ H _ _ Et j) in X. simpl in X.
  destruct Hr as [->|(j0 & -> & ->)]; [exact X|rewrite busy_cbs; exact X].
Qed.

Lemma sil_nl t s s' : sil t s s' -> Nl s -> Nl s'.
Proof.
  intros H I j L D. rewrite (sil_nfut _ _ _ H) in L. rewrite (sil_ms _ _ _ H) in D.
  destruct (I j L D) as [[t' X]|[[d X]|(d & T & C)]].
  - left. exists t'. eapply sil_busy; eauto.
  - right; left. exists d. rewrite (sil_ecbs _ _ _ H). exact X.
  - right; right. exists d. split; [eapply tokP_sil; eauto|rewrite (sil_es _ _ _ H); exact C].
Qed.

Lemma sil_ecl t s s' : sil t s s' -> Ecl s -> Ecl s'.
Proof. intros H. unfold Ecl. sil_frame H. auto. Qed.
