(* Chain model: the gates.  A thread is inside G_k once per pending release of G_k in its program;
   only the owner is inside, the depth counts its (re-entrant) sections. *)
From Coq Require Import List Arith Bool Lia PeanoNat.
From ME Require Import Base.Machine Model.Chain Proofs.Chain_Base.
Import ListNotations.

Definition is_rel (k : nat) (i : instr) : bool :=
  match i with IRelSub j _ => Nat.eqb j k | IRelSd j => Nat.eqb j k | _ => false end.
Fixpoint inside (k : nat) (p : list instr) : nat :=
  match p with [] => 0 | i :: r => (if is_rel k i then 1 else 0) + inside k r end.

Lemma inside_app k a b : inside k (a ++ b) = inside k a + inside k b.
Proof. induction a as [|i a IH]; simpl; [reflexivity|]. rewrite IH. lia. Qed.
Lemma inside_unwind k p : inside k (unwind p) = inside k p.
Proof. destruct p as [|i [|i' r]]; simpl; try reflexivity; destruct i; try reflexivity; destruct i'; reflexivity. Qed.
Lemma inside_start_sub k j : inside k (start_sub j) = 0.
Proof. destruct j; reflexivity. Qed.
Lemma inside_start_sd k j w kw : inside k (start_sd j w kw) = 0.
Proof. destruct j; reflexivity. Qed.
Lemma inside_sub_body c k j : inside k (sub_body c j) = if Nat.eqb j k then 1 else 0.
Proof. unfold sub_body. destruct (inline_submit (kindof c j)); simpl; destruct (Nat.eqb j k); reflexivity. Qed.
Lemma inside_sd_body c k j w kw : inside k (sd_body c j w kw) = if Nat.eqb j k then 1 else 0.
Proof. unfold sd_body. simpl. destruct (Nat.eqb j k); reflexivity. Qed.
Lemma rel_instr_inside i k k0 : rel_instr i k -> (if is_rel k0 i then 1 else 0) = if Nat.eqb k k0 then 1 else 0.
Proof. intros [[b ->]| ->]; reflexivity. Qed.

Ltac two a b x y :=
  destruct (Nat.eqb a b) eqn:Ek; [apply Nat.eqb_eq in Ek|apply Nat.eqb_neq in Ek];
  (destruct (Nat.eqb x y) eqn:Eu; [apply Nat.eqb_eq in Eu|apply Nat.eqb_neq in Eu]); subst.

Record GInv (s : st) : Prop := {
  g_none : forall k, gown s k = None -> gdepth s k = 0;
  g_in : forall t k, 0 < inside k (prog s t) -> gown s k = Some t;
  g_depth : forall t k, gown s k = Some t -> gdepth s k = inside k (prog s t) /\ 1 <= gdepth s k
}.

Lemma ginv_init : GInv init.
Proof. constructor; simpl; intros; try reflexivity; try lia; discriminate. Qed.

Lemma ginv_same s s' t p' : GInv s -> gown s' = gown s -> gdepth s' = gdepth s ->
  prog s' = upd (prog s) t p' -> (forall k, inside k p' = inside k (prog s t)) -> GInv s'.
Proof.
  intros [A B C] Eo Ed Ep Hi. constructor; rewrite ?Eo, ?Ed, ?Ep.
  - exact A.
  - intros u k. unfold upd. destruct (Nat.eqb u t) eqn:E.
    + apply Nat.eqb_eq in E; subst. rewrite Hi. apply B.
    + apply B.
  - intros u k G. unfold upd. destruct (Nat.eqb u t) eqn:E.
    + apply Nat.eqb_eq in E; subst. rewrite Hi. apply C; exact G.
    + apply C; exact G.
Qed.

Lemma ginv_take s s' t k p' d : GInv s -> gown s' = upd (gown s) k (Some t) -> gdepth s' = upd (gdepth s) k d ->
  prog s' = upd (prog s) t p' -> (forall k0, k0 <> k -> inside k0 p' = inside k0 (prog s t)) ->
  inside k p' = d -> 1 <= d -> (forall u, u <> t -> inside k (prog s u) = 0) -> GInv s'.
Proof.
  intros [A B C] Eo Ed Ep Hi Hk Hd Hu. constructor; rewrite ?Eo, ?Ed, ?Ep.
  - intros k0. unfold upd. destruct (Nat.eqb k0 k); [discriminate|apply A].
  - intros u k0. unfold upd. two k0 k u t.
    + reflexivity.
    + rewrite (Hu u Eu). lia.
    + rewrite (Hi k0 Ek). apply B.
    + apply B.
  - intros u k0. unfold upd. two k0 k u t.
    + intros _. split; [symmetry; reflexivity|exact Hd].
    + intros X. inversion X; subst. contradiction.
    + intros G. rewrite (Hi k0 Ek). apply C; exact G.
    + apply C.
Qed.

Lemma ginv_drop s s' t k p' : GInv s -> gown s' = upd (gown s) k None -> gdepth s' = upd (gdepth s) k 0 ->
  prog s' = upd (prog s) t p' -> (forall k0, k0 <> k -> inside k0 p' = inside k0 (prog s t)) ->
  inside k p' = 0 -> gown s k = Some t -> GInv s'.
Proof.
  intros [A B C] Eo Ed Ep Hi Hk Ho. constructor; rewrite ?Eo, ?Ed, ?Ep.
  - intros k0. unfold upd. destruct (Nat.eqb k0 k); [reflexivity|apply A].
  - intros u k0. unfold upd. two k0 k u t.
    + rewrite Hk. lia.
    + intros X. apply B in X. rewrite Ho in X. inversion X; subst. contradiction.
    + rewrite (Hi k0 Ek). apply B.
    + apply B.
  - intros u k0. unfold upd. two k0 k u t;
      try discriminate.
    + intros G. rewrite (Hi k0 Ek). apply C; exact G.
    + apply C.
Qed.

Ltac same_gates I P :=
  eapply ginv_same; [exact I|reflexivity|reflexivity|reflexivity|
    intros k0; rewrite P; simpl; rewrite ?inside_app, ?inside_unwind, ?inside_start_sub, ?inside_start_sd; simpl; try lia].

Lemma gin_ginv c s0 s t k r i s' d :
  GInv s0 -> prog s0 t = i :: r -> gown s = upd (gown s0) k (Some t) -> gdepth s = upd (gdepth s0) k d ->
  prog s = prog s0 -> d = S (inside k (prog s0 t)) -> (forall u, u <> t -> inside k (prog s0 u) = 0) ->
  gin c s t k r i s' -> GInv s'.
Proof.
  intros I P Eo Ed Ep Hd Hu G.
  assert (R : forall b, is_rel b i = false -> forall k0, inside k0 (prog s0 t) = inside k0 r).
  { intros _ _ k0. rewrite P. simpl. destruct G; reflexivity. }
  assert (Hk : Nat.eqb k k = true) by apply Nat.eqb_refl.
  destruct G; (eapply (ginv_take s0 _ t k _ d); [exact I|simpl; exact Eo|simpl; exact Ed|simpl; rewrite Ep; reflexivity| | | |exact Hu]);
    try lia; try (intros k0 Hk0; apply Nat.eqb_neq in Hk0; rewrite P; simpl;
                  rewrite ?inside_app, ?inside_sub_body, ?inside_sd_body; simpl;
                  rewrite ?(Nat.eqb_sym k0 k) in *; rewrite ?Hk0; simpl; reflexivity);
    subst d; rewrite P; simpl; rewrite ?inside_app, ?inside_sub_body, ?inside_sd_body, ?Hk; simpl; reflexivity.
Qed.

Lemma ginv_step c s e s' : GInv s -> tr c s e s' -> GInv s'.
Proof.
  intros I T. destruct T.
  - same_gates I H0.
  - eapply ginv_same; [exact I|reflexivity|reflexivity|reflexivity|].
    intros k0. rewrite inside_app, inside_start_sub. reflexivity.
  - unfold finish_sub. destruct ok; same_gates I H0.
  - unfold finish_sub. destruct ok; same_gates I H.
  - refine (gin_ginv c s _ t k r i s' 1 I H0 _ _ _ _ _ H2); try reflexivity.
    + assert (X : inside k (prog s t) = 0).
      { destruct (inside k (prog s t)) eqn:E; [reflexivity|]. assert (Y : 0 < inside k (prog s t)) by lia.
        apply (g_in s I) in Y. congruence. }
      rewrite X; reflexivity.
    + intros u _. destruct (inside k (prog s u)) eqn:E; [reflexivity|]. assert (Y : 0 < inside k (prog s u)) by lia.
      apply (g_in s I) in Y. congruence.
  - refine (gin_ginv c s _ t k r i s' (S (gdepth s k)) I H0 _ _ _ _ _ H2); try reflexivity.
    + destruct (g_depth s I t k H) as [X _]. rewrite X; reflexivity.
    + intros u Hu. destruct (inside k (prog s u)) eqn:E; [reflexivity|]. assert (Y : 0 < inside k (prog s u)) by lia.
      apply (g_in s I) in Y. congruence.
  - destruct (g_depth s I t k H) as [X _]. rewrite H0, H1 in X. simpl in X. rewrite (rel_instr_inside i k k H2), Nat.eqb_refl in X.
    eapply (ginv_drop s _ t k r); [exact I|reflexivity|reflexivity|reflexivity| |lia|exact H].
    intros k0 Hk0. rewrite H1. simpl. rewrite (rel_instr_inside i k k0 H2).
    destruct (Nat.eqb k k0) eqn:E; [apply Nat.eqb_eq in E; congruence|reflexivity].
  - destruct (g_depth s I t k H) as [X _]. rewrite H1 in X. simpl in X. rewrite (rel_instr_inside i k k H2), Nat.eqb_refl in X.
    eapply (ginv_take s _ t k r (gdepth s k - 1)); [exact I|reflexivity|reflexivity|reflexivity| |lia|lia|].
    + intros k0 Hk0. rewrite H1. simpl. rewrite (rel_instr_inside i k k0 H2).
      destruct (Nat.eqb k k0) eqn:E; [apply Nat.eqb_eq in E; congruence|reflexivity].
    + intros u Hu. destruct (inside k (prog s u)) eqn:E; [reflexivity|]. assert (Y : 0 < inside k (prog s u)) by lia.
      apply (g_in s I) in Y. congruence.
  - destruct k; same_gates I H0.
  - destruct k; (eapply ginv_same; [exact I|reflexivity|reflexivity|reflexivity|]);
      intros k0; rewrite inside_app; reflexivity.
  - same_gates I H0.
  - same_gates I H.
  - constructor; simpl; apply I.
Qed.

Theorem ginv_reachable c s : reachable_from (step c) init s -> GInv s.
Proof. apply invariant_rule; [apply ginv_init|]. intros s0 e s1 I H. eapply ginv_step; [exact I|apply step_tr; exact H]. Qed.
