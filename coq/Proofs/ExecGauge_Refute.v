(* Model/ExecGauge.v: the two bug shapes refuted on the ablated steps (kernel-evaluated witnesses), and the
   non-vacuity witnesses of the laws. *)
From Coq Require Import ZArith List Bool Arith Lia.
From ME Require Import Base.Machine Model.ExecGauge Proofs.ExecGauge_Defs Proofs.ExecGauge_Thm Proofs.ExecGauge_Fut Proofs.ExecGauge_FutThm.
Import ListNotations.
Local Open Scope Z_scope.

(* (a) the decrement placed before `if self._shutdown():` - every caller decrements: the second shutdown() of an
   instance drives its share, hence the labelled gauge, negative *)
Definition trace_decfirst : list ev :=
  [EX (XIncTotal 0); EX (XIncProg 0); EX (XCall 1 0); EX (XDec 1 0); EX (XWin 1 0); EX (XRet 1 0);
   EX (XCall 2 0); EX (XDec 2 0)].

Theorem decfirst_goes_negative_refuted :
  exists s, reachable_from (step_gen true false) init s /\ flag (xs s) 0%nat = true /\ gauge (xs s) 0%nat = -1.
Proof.
  destruct (run (step_gen true false) init trace_decfirst) as [s|] eqn:Rn; [|vm_compute in Rn; discriminate].
  exists s. split; [exists trace_decfirst; exact Rn|].
  vm_compute in Rn. inversion Rn; subst. split; reflexivity.
Qed.

(* the faithful machine rejects that history at the early decrement *)
Example decfirst_trace_rejected : first_reject step init trace_decfirst 0 = Some 3%nat.
Proof. vm_compute. reflexivity. Qed.

(* (b) a winning shutdown() that ends - raises - between the flag flip and the decrement: the instance is shut
   down, no call is in progress, and its share stays 1 for ever *)
Definition trace_skipdec : list ev :=
  [EX (XIncProg 0); EX (XIncTotal 0); EX (XCall 1 0); EX (XWin 1 0); EX (XRet 1 0)].

Theorem skipdec_stuck_refuted :
  exists s, reachable_from (step_gen false true) init s /\ created (xs s) 0%nat = true /\ flag (xs s) 0%nat = true
            /\ busy (xs s) 0%nat = false /\ gauge (xs s) 0%nat = 1.
Proof.
  destruct (run (step_gen false true) init trace_skipdec) as [s|] eqn:Rn; [|vm_compute in Rn; discriminate].
  exists s. split; [exists trace_skipdec; exact Rn|].
  vm_compute in Rn. inversion Rn; subst. repeat split; reflexivity.
Qed.

Example skipdec_trace_rejected : first_reject step init trace_skipdec 0 = Some 4%nat.
Proof. vm_compute. reflexivity. Qed.

(* ---- non-vacuity ---------------------------------------------------------------------------------- *)
(* two instances (0 increments INPROGRESS first, like retry / throttle; 1 TOTAL first), threads 1 and 2 shut
   instance 0 down concurrently (1 wins; 2 is answered False between the win and the decrement), the winner
   shuts instance 1 down from inside its call (the delegate), three futures of series 5: one succeeds, one is
   cancelled, one fails (its record_done is half-way at the end) *)
Definition nv_trace : list (list Z) :=
  [[1; 0]; [0; 0]; [0; 1]; [1; 1];
   [10; 5; 0]; [11; 5; 0]; [10; 5; 1]; [11; 5; 1]; [10; 5; 2]; [11; 5; 2];
   [2; 1; 0]; [2; 2; 0]; [3; 1; 0]; [4; 2; 0]; [5; 1; 0]; [6; 2; 0];
   [2; 1; 1]; [3; 1; 1]; [5; 1; 1];
   [12; 5; 0]; [14; 5; 0; 0]; [12; 5; 1]; [13; 5; 1; 1]; [14; 5; 1; 1];
   [6; 1; 1]; [6; 1; 0];
   [12; 5; 2]; [13; 5; 2; 2]].

Example nv_trace_accepted : accept nv_trace = [-1].
Proof. vm_compute. reflexivity. Qed.

Example nv_final :
  exists s, reachable s
    /\ created (xs s) 0%nat = true /\ created (xs s) 1%nat = true /\ flag (xs s) 0%nat = true /\ flag (xs s) 1%nat = true
    /\ busy (xs s) 0%nat = false /\ busy (xs s) 1%nat = false
    /\ gauge (xs s) 0%nat = 0 /\ gauge (xs s) 1%nat = 0 /\ total (xs s) 0%nat = 1 /\ total (xs s) 1%nat = 1
    /\ decs (xs s) 0%nat = 1%nat /\ decs (xs s) 1%nat = 1%nat
    /\ ftot (fu s) 5%nat = 3 /\ fprog (fu s) 5%nat = 0 /\ fcancel (fu s) 5%nat = 1 /\ ferr (fu s) 5%nat = 1
    /\ fs (fu s) 0%nat = SDone 5 KOk /\ fs (fu s) 1%nat = SDone 5 KCancel /\ fs (fu s) 2%nat = SRec 5 KErr.
Proof.
  destruct (decode_all nv_trace) as [es|] eqn:E; [|discriminate].
  destruct (run step init es) as [s|] eqn:Rn; [|vm_compute in E; inversion E; subst; vm_compute in Rn; discriminate].
  exists s. split; [exists es; exact Rn|].
  vm_compute in E. inversion E; subst. vm_compute in Rn. inversion Rn; subst. repeat split; reflexivity.
Qed.

(* in the middle: the winner of instance 0 owes its decrement while a second caller has already been told
   False - flag set, gauge still 1; instance 1 in use; all three futures in progress *)
Example nv_middle :
  exists s, reachable s
    /\ flag (xs s) 0%nat = true /\ pend (xs s) 0%nat = Some 1%nat /\ gauge (xs s) 0%nat = 1 /\ busy (xs s) 0%nat = true
    /\ in_use (xs s) 1%nat = true /\ busy (xs s) 1%nat = false /\ gauge (xs s) 1%nat = 1
    /\ top 2 (open (xs s)) = Some (mkF 2 0 FLost) /\ top 1 (open (xs s)) = Some (mkF 1 0 FWon)
    /\ fprog (fu s) 5%nat = 3 /\ ftot (fu s) 5%nat = 3.
Proof.
  destruct (decode_all (firstn 14 nv_trace)) as [es|] eqn:E; [|discriminate].
  destruct (run step init es) as [s|] eqn:Rn; [|vm_compute in E; inversion E; subst; vm_compute in Rn; discriminate].
  exists s. split; [exists es; exact Rn|].
  vm_compute in E. inversion E; subst. vm_compute in Rn. inversion Rn; subst. repeat split; reflexivity.
Qed.

(* the step-level hypotheses are satisfiable: an accepted decrement and an accepted losing answer *)
Example nv_dec_step : exists s s', reachable s /\ step s (EX (XDec 1 0)) = Some s'.
Proof.
  destruct (decode_all (firstn 14 nv_trace)) as [es|] eqn:E; [|discriminate].
  destruct (run step init es) as [s|] eqn:Rn; [|vm_compute in E; inversion E; subst; vm_compute in Rn; discriminate].
  destruct (step s (EX (XDec 1 0))) as [s'|] eqn:St.
  - exists s, s'. split; [exists es; exact Rn|exact St].
  - vm_compute in E. inversion E; subst. vm_compute in Rn. inversion Rn; subst. vm_compute in St. discriminate.
Qed.

Example nv_lose_step : exists s s', reachable s /\ step s (EX (XLose 2 0)) = Some s'.
Proof.
  destruct (decode_all (firstn 13 nv_trace)) as [es|] eqn:E; [|discriminate].
  destruct (run step init es) as [s|] eqn:Rn; [|vm_compute in E; inversion E; subst; vm_compute in Rn; discriminate].
  destruct (step s (EX (XLose 2 0))) as [s'|] eqn:St.
  - exists s, s'. split; [exists es; exact Rn|exact St].
  - vm_compute in E. inversion E; subst. vm_compute in Rn. inversion Rn; subst. vm_compute in St. discriminate.
Qed.

Example nv_end_step : exists s s', reachable s /\ step s (EF (FEnd 5 2 KErr)) = Some s'.
Proof.
  destruct (decode_all nv_trace) as [es|] eqn:E; [|discriminate].
  destruct (run step init es) as [s|] eqn:Rn; [|vm_compute in E; inversion E; subst; vm_compute in Rn; discriminate].
  destruct (step s (EF (FEnd 5 2 KErr))) as [s'|] eqn:St.
  - exists s, s'. split; [exists es; exact Rn|exact St].
  - vm_compute in E. inversion E; subst. vm_compute in Rn. inversion Rn; subst. vm_compute in St. discriminate.
Qed.

(* the same history completed, followed by the observations of the real objects at final quiescence *)
Definition nv_trace_obs : list (list Z) :=
  nv_trace ++ [[14; 5; 2; 2]; [7; 0; 1]; [7; 1; 1]; [15; 0; 0]; [15; 1; 1]; [15; 2; 2]].

Example nv_trace_obs_accepted : accept nv_trace_obs = [-1].
Proof. vm_compute. reflexivity. Qed.

(* observations that contradict the model are rejected: instance 0 still alive / future 1 succeeded / future 2 pending *)
Example nv_wrong_obs_rejected :
  accept (nv_trace ++ [[7; 0; 0]]) = [28] /\ accept (nv_trace ++ [[15; 1; 0]]) = [28] /\ accept (nv_trace ++ [[15; 2; 3]]) = [28].
Proof. vm_compute. repeat split; reflexivity. Qed.

Example nv_obs_step : exists s s', reachable s /\ step s (EX (XObs 0 true)) = Some s' /\ busy (xs s) 0%nat = false.
Proof.
  destruct (decode_all nv_trace) as [es|] eqn:E; [|discriminate].
  destruct (run step init es) as [s|] eqn:Rn; [|vm_compute in E; inversion E; subst; vm_compute in Rn; discriminate].
  destruct (step s (EX (XObs 0 true))) as [s'|] eqn:St.
  - exists s, s'. split; [exists es; exact Rn|]. split; [exact St|].
    vm_compute in E. inversion E; subst. vm_compute in Rn. inversion Rn; subst. reflexivity.
  - vm_compute in E. inversion E; subst. vm_compute in Rn. inversion Rn; subst. vm_compute in St. discriminate.
Qed.

Example nv_fobs_step : exists s s', reachable s /\ step s (EF (FObs 1 (Some KCancel))) = Some s'.
Proof.
  destruct (decode_all nv_trace) as [es|] eqn:E; [|discriminate].
  destruct (run step init es) as [s|] eqn:Rn; [|vm_compute in E; inversion E; subst; vm_compute in Rn; discriminate].
  destruct (step s (EF (FObs 1 (Some KCancel)))) as [s'|] eqn:St.
  - exists s, s'. split; [exists es; exact Rn|exact St].
  - vm_compute in E. inversion E; subst. vm_compute in Rn. inversion Rn; subst. vm_compute in St. discriminate.
Qed.
