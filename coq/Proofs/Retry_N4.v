(* C03 for the Retry machine, part 4: the remaining witnesses (finalising thread, worker inside _submit_now,
   canceller), and the invariant "every retry future that is not done has a witness". *)
From Coq Require Import List ZArith Bool Arith Lia.
From RecordUpdate Require Import RecordSet.
From ME Require Import Base.Machine Base.Fut Base.GenPrelude Gen.RetryGen Model.Retry Proofs.Retry_Spec.
From ME Require Import Proofs.Retry_C0 Proofs.Retry_C1 Proofs.Retry_C2 Proofs.Retry_C3 Proofs.Retry_C4 Proofs.Retry_C5 Proofs.Retry_C6
  Proofs.Retry_C7 Proofs.Retry_C8 Proofs.Retry_C9 Proofs.Retry_C10 Proofs.Retry_C11 Proofs.Retry_C12 Proofs.Retry_N0 Proofs.Retry_N1
  Proofs.Retry_N2 Proofs.Retry_N3 Proofs.Retry_N13.
Import ListNotations RecordSetNotations.
#[local] Arguments norm : simpl nomatch.

Lemma keep4 s e s' j : SI s -> step0 s e = Some s' -> W4 s j -> fdone (rs s' j) = false -> Wit s' j.
Proof.
  intros HS H (t0 & Hf).
  s0inv H.
  all: try (match goal with inl : option outcome |- _ => destruct inl end).
  all: bsplit; subst.
  all: intros Hnd.
  all: try (w4; exists t0; assumption).
  all: match goal with Hq : thr _ ?t = _ |- _ => destruct (Nat.eq_dec t0 t) as [->|Nt];
         [rewrite Hq in Hf; simpl in Hf; try discriminate Hf| ] end.
  all: unfold Wit, W4, log, set_prog in Hnd |- *; simpl in Hnd |- *.
  all: try solve [w4; exists t0; rewrite (upd_other _ _ _ _ Nt); assumption].
  - w4. exists t. rewrite upd_same. destruct l as [|[] l]; try discriminate Hf. simpl. exact Hf.
  - apply eqb_t in Hf. subst. rewrite upd_same in Hnd. apply f_set_fin in Heqo0. subst f. discriminate.
  - apply eqb_t in Hf. subst. destruct (rs s j); discriminate.
Qed.

Lemma keep5 s e s' j : SI s -> step0 s e = Some s' -> W5 s j -> fdone (rs s' j) = false -> Wit s' j.
Proof.
  intros HS H (t0 & r & Hf & Hjf).
  pose proof (si_pi s HS) as HP.
  assert (Hr : r < nrec s).
  { destruct (thr s t0) as [|i l0] eqn:E0; [discriminate|]. pose proof (head_ipr _ _ _ _ HP E0) as Hi.
    destruct i; try discriminate; simpl in Hf; apply eqb_t in Hf; subst; simpl in Hi; tauto. }
  pose proof (MONO_step0 _ _ _ H) as HM. pose proof (mo_jf _ _ HM r Hr) as Ejf. clear HM.
  s0inv H.
  all: try (match goal with inl : option outcome |- _ => destruct inl end).
  all: bsplit; subst.
  all: intros Hnd.
  all: try (w5; exists t0, r; split; assumption).
  all: match goal with Hq : thr _ ?t = _ |- _ => destruct (Nat.eq_dec t0 t) as [->|Nt];
         [rewrite Hq in Hf; simpl in Hf; try discriminate Hf| ] end.
  all: unfold Wit, W5, log, set_prog in Ejf, Hnd |- *; simpl in Ejf, Hnd |- *.
  all: try solve [w5; exists t0, r; rewrite (upd_other _ _ _ _ Nt); split; assumption].
  - apply eqb_t in Hf. subst r0. congruence.
  - w5. exists t, r. rewrite upd_same. simpl. auto.
  - apply eqb_t in Hf. subst r0.
    w3. exists (nrec s), (ndel s), t. simpl. rewrite !upd_same. simpl. rewrite Nat.eqb_refl.
    split; [apply in_app_iff; right; left; reflexivity|auto].
  - apply eqb_t in Hf. subst r0.
    w2. exists (nrec s), (ndel s). unfold W2. simpl. rewrite !upd_same. simpl.
    split; [apply in_app_iff; right; left; reflexivity|auto].
Qed.

Lemma keep6 s e s' j : SI s -> step0 s e = Some s' -> W6 s j -> fdone (rs s' j) = false -> Wit s' j.
Proof.
  intros HS H (c & Hc) Hnd. destruct (fcpre_step s e s' j c H (si_pi s HS) Hc) as [F|F].
  - w6. exists c. exact F.
  - congruence.
Qed.

Lemma Wit_step0 s e s' j : SI s -> XC s -> step0 s e = Some s' -> Wit s j -> fdone (rs s' j) = false -> Wit s' j.
Proof.
  intros HS HX H [W|[W|[W|[W|[W|[W|W]]]]]] Hnd.
  - eapply keep1; eassumption. - eapply keep2; eassumption. - eapply keep3; eassumption.
  - eapply keep4; eassumption. - eapply keep5; eassumption. - eapply keep6; eassumption.
  - eapply keep7; eassumption.
Qed.

(* a new retry future is born with its attempt-0 record in the queue *)
Lemma nfut_new s e s' : step0 s e = Some s' -> forall j, j < nfut s' -> j < nfut s \/ W1 s' j.
Proof.
  intros H. s0inv H; auto.
  all: try (match goal with inl : option outcome |- _ => destruct inl end).
  all: unfold log, set_prog; simpl; auto.
  intros j Hj. destruct (Nat.eq_dec j (nfut s)) as [->|N]; [right|left; lia].
  exists (nrec s). simpl. rewrite upd_same. simpl. split; [apply in_app_iff; right; left; reflexivity|auto].
Qed.

Definition LI (s : st) : Prop := forall j, j < nfut s -> fdone (rs s j) = false -> Wit s j.

Lemma LI_step0 s e s' : LI s -> SI s -> XC s -> step0 s e = Some s' -> LI s'.
Proof.
  intros HL HS HX H j Hj Hnd. destruct (nfut_new _ _ _ H j Hj) as [Hj0|W]; [|left; exact W].
  pose proof (MONO_step0 _ _ _ H) as HM.
  apply (Wit_step0 s e s' j HS HX H); [|exact Hnd].
  apply HL; [exact Hj0|]. destruct (fdone (rs s j)) eqn:E; [|reflexivity].
  rewrite (mo_rdone _ _ HM j Hj0 E) in Hnd. discriminate.
Qed.

Lemma Wit_tick s ts j : Wit s j -> Wit (s <| clock := ts |>) j.
Proof.
  intros [W|[W|[W|[W|[W|[W|W]]]]]]; [w1|w2|w3|w4|w5|w6|w7]; try exact W.
  destruct W as [c Hc]. exists c. simpl. rewrite fcpre_tick. exact Hc.
Qed.

Lemma LI_reach s : reachable_from step init s -> LI s.
Proof.
  apply (invariant_rule_r step LI).
  - intros j Hj. simpl in Hj. lia.
  - intros s0 e s' R IH H. apply step_split in H. destruct H as (s1 & Ht & H).
    apply tick_eq in Ht. subst s1. eapply LI_step0; [| | |exact H].
    + intros j Hj Hnd. apply Wit_tick. apply IH; assumption.
    + apply SI_tick, R.
    + intros t r d Hin Hjd Hc. destruct (XC_reach s0 R t r d Hin Hjd Hc) as [A|A]; [left|right; exact A].
      simpl. rewrite fcpre_tick. exact A.
Qed.
