From Coq Require Import List Bool Arith Lia.
From ME Require Import Base.Machine Model.Locks.
Import ListNotations.

Definition Inv (held : nat -> list nat) (s : st) : Prop :=
  (forall t, ordered (held t) (prog s t) = true) /\
  (forall l t, owner s l = Some t <-> In l (held t)) /\
  (forall l t, owner s l = Some t -> depth s l = count_occ Nat.eq_dec (held t) l).

Lemma existsb_eqb_In l h : existsb (Nat.eqb l) h = true <-> In l h.
Proof.
  rewrite existsb_exists. split.
  - intros [x [Hx E]]. apply Nat.eqb_eq in E. subst; auto.
  - intros H. exists l. split; auto. apply Nat.eqb_refl.
Qed.

Lemma ordered_acq h l r : ordered h (Acq l :: r) = true -> ordered (l :: h) r = true.
Proof.
  simpl. destruct (existsb (Nat.eqb l) h); auto.
  intros H. apply andb_prop in H. tauto.
Qed.

Lemma ordered_acq_lt h l r x :
  ordered h (Acq l :: r) = true -> ~ In l h -> In x h -> x < l.
Proof.
  simpl. destruct (existsb (Nat.eqb l) h) eqn:E.
  - apply existsb_eqb_In in E. tauto.
  - intros H _ Hx. apply andb_prop in H. destruct H as [H _].
    rewrite forallb_forall in H. apply H in Hx. apply Nat.ltb_lt in Hx. exact Hx.
Qed.

Lemma ordered_rel h l r : ordered h (Rel l :: r) = true ->
  exists hs, h = l :: hs /\ ordered hs r = true.
Proof.
  simpl. destruct h as [|x hs]; [discriminate|].
  intros H. apply andb_prop in H. destruct H as [E H]. apply Nat.eqb_eq in E. subst.
  eauto.
Qed.

Lemma ordered_nil h : ordered h [] = true -> h = [].
Proof. destruct h; simpl; congruence. Qed.

Lemma Inv_init progs : (forall t, ordered [] (progs t) = true) ->
  Inv (fun _ => []) (init_of progs).
Proof.
  intros H. split; [|split]; simpl; auto; try discriminate.
  intros l t. split; [discriminate|tauto].
Qed.

Lemma Inv_step_acq held s t l r :
  Inv held s -> prog s t = Acq l :: r -> forall s', step s t = Some s' ->
  Inv (upd held t (l :: held t)) s'.
Proof.
  intros (I1 & I2 & I3) Ep s' Hs. unfold step in Hs. rewrite Ep in Hs.
  pose proof (I1 t) as Ot. rewrite Ep in Ot.
  destruct (owner s l) as [u|] eqn:Eo.
  - destruct (Nat.eqb u t) eqn:Eu; [|discriminate]. apply Nat.eqb_eq in Eu; subst u.
    inversion Hs; subst s'; clear Hs. split; [|split]; simpl.
    + intros t0. destruct (Nat.eq_dec t0 t) as [->|N].
      * rewrite !upd_same. eapply ordered_acq; eauto.
      * rewrite !upd_other by auto. apply I1.
    + intros l0 t0. destruct (Nat.eq_dec t0 t) as [->|N].
      * rewrite upd_same, I2. simpl. split; auto. intros [<-|]; auto. apply I2; auto.
      * rewrite upd_other by auto; apply I2.
    + intros l0 t0 Ho. destruct (Nat.eq_dec t0 t) as [->|N].
      * rewrite upd_same. simpl. destruct (Nat.eq_dec l l0) as [->|Nl].
        -- rewrite upd_same. f_equal. apply I3; auto.
        -- rewrite upd_other by auto. apply I3; auto.
      * rewrite (upd_other held) by auto. destruct (Nat.eq_dec l0 l) as [->|Nl].
        -- congruence.
        -- rewrite upd_other by auto; apply I3; auto.
  - inversion Hs; subst s'; clear Hs.
    assert (NI : forall t0, ~ In l (held t0)).
    { intros t0 HI. apply I2 in HI. congruence. }
    split; [|split]; simpl.
    + intros t0. destruct (Nat.eq_dec t0 t) as [->|N].
      * rewrite !upd_same. eapply ordered_acq; eauto.
      * rewrite !upd_other by auto. apply I1.
    + intros l0 t0. destruct (Nat.eq_dec l0 l) as [->|Nl].
      * rewrite upd_same. destruct (Nat.eq_dec t0 t) as [->|N].
        -- rewrite upd_same. simpl; tauto.
        -- rewrite upd_other by auto. split; [congruence|]. intros HI; apply NI in HI; tauto.
      * rewrite upd_other by auto. rewrite I2. destruct (Nat.eq_dec t0 t) as [->|N].
        -- rewrite upd_same. simpl. split; auto. intros [E|]; auto. congruence.
        -- rewrite upd_other by auto. tauto.
    + intros l0 t0. destruct (Nat.eq_dec l0 l) as [->|Nl].
      * rewrite !upd_same. intros E; inversion E; subst t0. rewrite upd_same. simpl.
        destruct (Nat.eq_dec l l); [|congruence]. f_equal.
        symmetry. apply count_occ_not_In. apply NI.
      * rewrite !upd_other by auto. intros Ho. rewrite (I3 _ _ Ho).
        destruct (Nat.eq_dec t0 t) as [->|N].
        -- rewrite upd_same. simpl. destruct (Nat.eq_dec l l0); [congruence|auto].
        -- rewrite upd_other by auto. auto.
Qed.

Lemma Inv_step_rel held s t l r :
  Inv held s -> prog s t = Rel l :: r -> forall s', step s t = Some s' ->
  Inv (upd held t (tl (held t))) s'.
Proof.
  intros (I1 & I2 & I3) Ep s' Hs. unfold step in Hs. rewrite Ep in Hs.
  pose proof (I1 t) as Ot. rewrite Ep in Ot.
  apply ordered_rel in Ot. destruct Ot as [hs [Eh Oh]].
  destruct (owner s l) as [u|] eqn:Eo; [|discriminate].
  destruct (Nat.eqb u t) eqn:Eu; [|discriminate]. apply Nat.eqb_eq in Eu; subst u.
  pose proof (I3 _ _ Eo) as Ed. rewrite Eh in Ed. simpl in Ed.
  destruct (Nat.eq_dec l l) as [_|]; [|congruence].
  rewrite Eh. simpl tl.
  assert (Hc : forall l0, l0 <> l -> count_occ Nat.eq_dec (l :: hs) l0 = count_occ Nat.eq_dec hs l0).
  { intros l0 N. simpl. destruct (Nat.eq_dec l l0); [congruence|auto]. }
  destruct (depth s l) as [|[|d]] eqn:Edp; [discriminate| |].
  - (* last release *)
    inversion Hs; subst s'; clear Hs.
    assert (NI : ~ In l hs).
    { apply (count_occ_not_In Nat.eq_dec). congruence. }
    split; [|split]; simpl.
    + intros t0. destruct (Nat.eq_dec t0 t) as [->|N].
      * rewrite !upd_same. auto.
      * rewrite !upd_other by auto. apply I1.
    + intros l0 t0. destruct (Nat.eq_dec l0 l) as [->|Nl].
      * rewrite upd_same. split; [discriminate|]. destruct (Nat.eq_dec t0 t) as [->|N].
        -- rewrite upd_same. tauto.
        -- rewrite upd_other by auto. intros HI. apply I2 in HI. congruence.
      * rewrite upd_other by auto. rewrite I2. destruct (Nat.eq_dec t0 t) as [->|N].
        -- rewrite upd_same, Eh. simpl. split; auto. intros [E|]; auto. congruence.
        -- rewrite upd_other by auto. tauto.
    + intros l0 t0. destruct (Nat.eq_dec l0 l) as [->|Nl].
      * rewrite upd_same. discriminate.
      * rewrite !upd_other by auto. intros Ho. rewrite (I3 _ _ Ho).
        destruct (Nat.eq_dec t0 t) as [->|N].
        -- rewrite upd_same, Eh. auto.
        -- rewrite upd_other by auto. auto.
  - inversion Hs; subst s'; clear Hs.
    assert (YI : In l hs).
    { apply (count_occ_In Nat.eq_dec). lia. }
    split; [|split]; simpl.
    + intros t0. destruct (Nat.eq_dec t0 t) as [->|N].
      * rewrite !upd_same. auto.
      * rewrite !upd_other by auto. apply I1.
    + intros l0 t0. rewrite I2. destruct (Nat.eq_dec t0 t) as [->|N].
      * rewrite upd_same, Eh. simpl. split; auto. intros [<-|]; auto.
      * rewrite upd_other by auto. tauto.
    + intros l0 t0 Ho. destruct (Nat.eq_dec t0 t) as [->|N].
      * rewrite upd_same. destruct (Nat.eq_dec l0 l) as [->|Nl].
        -- rewrite upd_same. congruence.
        -- rewrite upd_other by auto. rewrite (I3 _ _ Ho), Eh. auto.
      * rewrite (upd_other held) by auto. destruct (Nat.eq_dec l0 l) as [->|Nl].
        -- congruence.
        -- rewrite upd_other by auto. auto.
Qed.

Lemma Inv_step s t s' :
  (exists held, Inv held s) -> step s t = Some s' -> exists held, Inv held s'.
Proof.
  intros [held I] Hs. destruct (prog s t) as [|[l|l] r] eqn:Ep.
  - unfold step in Hs. rewrite Ep in Hs. discriminate.
  - eexists. eapply Inv_step_acq; eauto.
  - eexists. eapply Inv_step_rel; eauto.
Qed.

Lemma step_prog_nil s t s' t0 : step s t = Some s' -> prog s t0 = [] -> prog s' t0 = [].
Proof.
  intros Hs E. assert (N : t0 <> t).
  { intros ->. unfold step in Hs. rewrite E in Hs. discriminate. }
  unfold step in Hs.
  destruct (prog s t) as [|[l|l] r]; [discriminate| |];
    destruct (owner s l) as [u|]; try discriminate;
    try (destruct (Nat.eqb u t); [|discriminate]);
    try (destruct (depth s l) as [|[|d]]);
    inversion Hs; subst s'; simpl; rewrite upd_other by auto; auto.
Qed.

Definition blocked (s : st) (t l : nat) : Prop :=
  exists r u, prog s t = Acq l :: r /\ owner s l = Some u /\ u <> t.

Lemma classify held s t : Inv held s -> prog s t <> [] ->
  (exists s', step s t = Some s') \/ exists l, blocked s t l.
Proof.
  intros (I1 & I2 & I3) Hp. pose proof (I1 t) as Ot. unfold step, blocked.
  destruct (prog s t) as [|[l|l] r] eqn:Ep; [congruence| |].
  - destruct (owner s l) as [u|] eqn:Eo; [|eauto].
    destruct (Nat.eqb u t) eqn:Eu; [eauto|]. apply Nat.eqb_neq in Eu.
    right. exists l, r, u. auto.
  - apply ordered_rel in Ot. destruct Ot as [hs [Eh _]].
    assert (Eo : owner s l = Some t). { apply I2. rewrite Eh. simpl; auto. }
    rewrite Eo, Nat.eqb_refl. left. destruct (depth s l) as [|[|d]]; eauto.
Qed.

Lemma blocked_next held s t l : Inv held s -> blocked s t l ->
  exists u, prog s u <> [] /\ forall l', blocked s u l' -> l < l'.
Proof.
  intros (I1 & I2 & I3) (r & u & Ep & Eo & Nu). exists u.
  assert (HI : In l (held u)) by (apply I2; auto).
  pose proof (I1 u) as Ou. split.
  - intros E. rewrite E in Ou. apply ordered_nil in Ou. rewrite Ou in HI. destruct HI.
  - intros l' (r' & u' & Ep' & Eo' & Nu'). rewrite Ep' in Ou.
    eapply ordered_acq_lt; eauto. intros HI'. apply I2 in HI'. congruence.
Qed.

Lemma climb held s : Inv held s -> (exists t, prog s t <> []) ->
  forall k, (exists t s', step s t = Some s') \/ exists t l, blocked s t l /\ k <= l.
Proof.
  intros I [t0 Ht0] k. induction k as [|k IH].
  - destruct (classify _ _ _ I Ht0) as [[s' H]|[l H]]; [left; eauto|].
    right. exists t0, l. split; auto. lia.
  - destruct IH as [H|(t & l & B & Hk)]; [auto|].
    destruct (blocked_next _ _ _ _ I B) as (u & Hu & Hlt).
    destruct (classify _ _ _ I Hu) as [[s' H]|[l' H]]; [left; eauto|].
    right. exists u, l'. split; auto. apply Hlt in H. lia.
Qed.

Definition want (s : st) (t : nat) : nat :=
  match prog s t with Acq l :: _ => l | _ => 0 end.

Lemma want_bound s n : (forall t, n <= t -> prog s t = []) ->
  forall t l, blocked s t l -> l <= list_max (map (want s) (seq 0 n)).
Proof.
  intros Hn t l (r & u & Ep & _).
  assert (Ht : t < n).
  { destruct (le_lt_dec n t) as [H|H]; auto. apply Hn in H. congruence. }
  assert (F : Forall (fun k => k <= list_max (map (want s) (seq 0 n))) (map (want s) (seq 0 n))).
  { apply list_max_le. lia. }
  rewrite Forall_forall in F. replace l with (want s t).
  - apply F. apply in_map. apply in_seq. lia.
  - unfold want. rewrite Ep. reflexivity.
Qed.

Theorem lock_order_no_deadlock : forall n progs,
  (forall t, ordered [] (progs t) = true) -> (forall t, n <= t -> progs t = []) ->
  forall s, reachable_from step (init_of progs) s ->
  (exists t, prog s t <> []) -> exists t s', step s t = Some s'.
Proof.
  intros n progs Ho Hn s R Hu.
  assert (I : exists held, Inv held s).
  { clear Hu. revert s R. apply (invariant_rule step (fun s => exists held, Inv held s)).
    - eexists. apply Inv_init; auto.
    - intros s e s' H1 H2. eapply Inv_step; eauto. }
  assert (Hn' : forall t, n <= t -> prog s t = []).
  { clear Hu I. revert s R. apply (invariant_rule step (fun s => forall t, n <= t -> prog s t = [])).
    - simpl. auto.
    - intros s e s' H1 H2 t Ht. eapply step_prog_nil; eauto. }
  destruct I as [held I].
  destruct (climb _ _ I Hu (S (list_max (map (want s) (seq 0 n))))) as [H|(t & l & B & Hk)]; auto.
  pose proof (want_bound _ _ Hn' _ _ B). lia.
Qed.

Theorem opposite_orders_deadlock :
  exists s, reachable_from step (init_of (fun t => match t with 0 => [Acq 1; Acq 2; Rel 2; Rel 1] | 1 => [Acq 2; Acq 1; Rel 1; Rel 2] | _ => [] end)) s /\
            (exists t, prog s t <> []) /\ forall t, step s t = None.
Proof.
  eexists; split; [exists [0;1]; reflexivity|]. split.
  - exists 0. discriminate.
  - intros [|[|t]]; reflexivity.
Qed.
