(* I10c: cancellation of the output fans out to every input position. *)
From Coq Require Import List Arith Bool Lia PeanoNat ZArith.
From ME Require Import Base.Machine Base.Fut Base.GenPrelude Gen.BoolGen Gen.ZipGen Model.Comb Proofs.Comb_Spec.
From ME Require Import Proofs.Comb_I0 Proofs.Comb_I1 Proofs.Comb_I4 Proofs.Comb_I8 Proofs.Comb_I10a Proofs.Comb_I10b.
Import ListNotations.

Definition LR (s : st) : Prop :=
  fdone (os s) = false -> built s = true -> forall i, i < length (inputs s) ->
  In i (ocbs s) \/ pend (thr s) (IAddCbOut i).

Lemma keep_addout i : keepable (IAddCbOut i). Proof. split; intros; discriminate. Qed.
Lemma keep_outq i : keepable (IOutCancelledQ i). Proof. split; intros; discriminate. Qed.

Lemma LR_step s e s' : I1 s -> I4 s -> LR s -> step s e = Some s' -> LR s'.
Proof.
  intros I J N H Hd' Hb' i Hi'.
  assert (Hd : fdone (os s) = false).
  { destruct (fdone (os s)) eqn:E; auto. rewrite (step_os_done _ _ _ H E) in Hd'. discriminate. }
  destruct (built s) eqn:Hb.
  2:{ destruct e; step_inv H; simpl in *; try congruence. right. exists t. rewrite upd_same.
      right. apply in_or_app. left. apply in_flat_map. exists i. split; [apply in_seq; lia|left; reflexivity]. }
  destruct (step_built _ _ _ H Hb) as (_ & Hin & _). rewrite Hin in Hi'.
  destruct (N Hd Hb i Hi') as [Ho|[u Hu]].
  - destruct e; step_inv H; simpl in *; auto using in_or_app; try discriminate.
    all: try (rewrite (f_cancel_fires_done' _ _ _ Heqp Heqb0) in Hd'; discriminate).
    all: rewrite (f_set_done' _ _ Heqo0) in Hd'; discriminate.
  - destruct (step_pending _ _ _ u _ I H (keep_addout i) Hu) as [Hk|[-> [r Hr]]]; [right; exists u; auto|].
    left. destruct e; simpl in Hr; step_inv H; try congruence; simpl in *.
    + clean. congruence.
    + inversion Hr; subst. apply in_or_app. right. left. reflexivity.
Qed.

Definition LC (s : st) : Prop :=
  fcancelled (os s) = true -> built s = true -> forall i, i < length (inputs s) -> i <> notify_id ->
  fdone (es s (input_at s i)) = true \/ pend (thr s) (ICancelIn (input_at s i)) \/
  pend (thr s) (IOutCancelledQ i) \/ pend (thr s) (IAddCbOut i).

Lemma outq_in_fires s r i : i <> notify_id -> In i (ocbs s) -> In (IOutCancelledQ i) (out_fires s r).
Proof.
  intros Hn H. unfold out_fires. apply in_or_app. left. apply in_flat_map. exists i. split; auto.
  apply Nat.eqb_neq in Hn. rewrite Hn. left. reflexivity.
Qed.

Lemma LC_step s e s' : I1 s -> I4 s -> LO s -> LR s -> LC s -> step s e = Some s' -> LC s'.
Proof.
  intros I J L R C H Hc' Hb' i Hi' Hni.
  destruct (built s) eqn:Hb.
  2:{ exfalso. destruct (i4_unb _ J Hb) as (Ht & _). pose proof (lo_unbo _ L Hb) as Op.
      destruct e; pose proof (Ht t) as Htt; step_inv H; simpl in *; try congruence; rewrite Op in *; simpl in *; discriminate. }
  destruct (step_built _ _ _ H Hb) as (_ & Hin & _). unfold input_at. rewrite Hin in *.
  fold (input_at s i).
  destruct (fcancelled (os s)) eqn:Hc.
  - destruct (C Hc Hb i Hi' Hni) as [A|[A|[[u Hu]|[u Hu]]]].
    + destruct (pend_cancel_step _ _ _ _ I J H (or_introl A)); auto.
    + destruct (pend_cancel_step _ _ _ _ I J H (or_intror A)); auto.
    + destruct (step_pending _ _ _ u _ I H (keep_outq i) Hu) as [Hk|[-> [r Hr]]].
      { right. right. left. exists u. auto. }
      right. left. exists (actor e).
      destruct e; simpl in Hr |- *; step_inv H; try congruence; clean; simpl in *; inversion Hr; subst;
        rewrite upd_same; try (left; reflexivity). congruence.
    + destruct (step_pending _ _ _ u _ I H (keep_addout i) Hu) as [Hk|[-> [r Hr]]].
      { right. right. right. exists u. auto. }
      right. right. left. exists (actor e).
      destruct e; simpl in Hr |- *; step_inv H; try congruence; clean; simpl in *; inversion Hr; subst;
        rewrite upd_same; try (left; reflexivity).
      destruct (os s); simpl in *; discriminate.
  - assert (X : exists t l b, thr s t = ICancelOut :: l /\ e = EFO t 2 Pending /\ os s = Pending /\
                thr s' t = norm false (out_fires s (retb_fix b l))).
    { destruct e; step_inv H; simpl in *; try congruence; clean; destruct (os s); simpl in *; try discriminate;
      repeat match goal with Hq : Some _ = Some _ |- _ => inversion Hq; clear Hq; subst
                       | Hq : (_, _) = (_, _) |- _ => inversion Hq; clear Hq; subst end; try discriminate.
      eexists t, l, _. rewrite upd_same. repeat split; eauto. }
    destruct X as (t & l & b & Ht & -> & Ho & Ht').
    destruct (R ltac:(rewrite Ho; reflexivity) Hb i Hi') as [Hio|[u Hu]].
    + right. right. left. exists t. rewrite Ht'. apply norm_in; [|discriminate|apply outq_in_fires; auto].
      pose proof (I t) as It. rewrite Ht in It. fa_hyps. apply nothrow_out_fires. apply Forall_retb; [intros; nt|auto].
    + right. right. right. destruct (step_pending _ _ _ u _ I H (keep_addout i) Hu) as [Hk|[-> [r Hr]]]; [exists u; auto|].
      simpl in Hr. congruence.
Qed.

Lemma I10_reach s : reachable s -> LF s /\ LR s /\ LC s.
Proof.
  apply (invariant_rule_r step (fun s => LF s /\ LR s /\ LC s)).
  - repeat split.
    + intros H; simpl in H; discriminate.
    + intros _ H; simpl in H; discriminate.
    + intros H; simpl in H; discriminate.
  - intros s0 e s' R (A & B & C) H.
    pose proof (I1_reach _ R) as I. pose proof (I4_reach _ R) as J.
    pose proof (Comb_I2.I2_reach _ R) as K. pose proof (LO_reach _ R) as L.
    repeat split.
    + eapply LF_step; eauto.
    + eapply LR_step; eauto.
    + eapply LC_step; eauto.
Qed.
