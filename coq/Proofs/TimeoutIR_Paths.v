(* PATH CONFORMANCE of the methods of TimeoutExecutor regenerated from timeout.py (Gen/TimeoutSkel.v)
   with the programs Model/Timeout.v executes.

   For every method and EVERY path through the generated term (every oracle [o : cond -> bool]):
     1. `..._paths`     : the sequence of visible operations along the path, as a closed list per branch outcome;
     2. `..._inst`      : the instructions of Model/Timeout.v that sequence stands for, for arbitrary data,
                          equal the concatenation k_... ++ k_... of the continuations of Timeout.step;
     3. `step_...`      : for every state, Timeout.step0 replaces the head instruction by exactly k_... .
   The paths outside the model (gate already shut: RuntimeError; executor collected / shut down: the loop
   ends; shutdown()) are enumerated too; Model/Timeout.v has no counterpart for them (it models a live
   executor) - their reference sequences are stated here and say so. *)
From Coq Require Import ZArith List Bool Arith Lia.
From RecordUpdate Require Import RecordSet.
From ME Require Import Base.Machine Base.Fut Base.GenPrelude Gen.TimeoutGen Model.Timeout Model.TimeoutIR Gen.TimeoutSkel.
Import ListNotations RecordSetNotations.

(* ---- the continuations of Timeout.step (the machine's own programs, piece by piece) ------------ *)
Definition k_call_submit (tmo : Z) : list instr := [IAcqG; IDSubmit tmo].
Definition k_dsubmit (j d : nat) (tmo : Z) : list instr := submit_prog j d tmo.
Definition k_clockd (j : nat) (w tmo : Z) : list instr := [IXAppend (mkjob j (deadline_of w tmo))].
Definition k_xsec : list instr := [IEvSet; IRelG; IRet].
Definition k_xacq : list instr := [IClockP].
Definition k_clockp (js : list tjob) : list instr := map (fun job => IPDone (tj_id job)) js ++ [IXRelP].
Definition k_xrel (ovd : list tjob) : list instr := map ITCancel ovd ++ [IWaitCalc None].
Definition k_waitcalc (tau : option Z) : list instr := [IWWait tau].
Definition k_wait : list instr := [IWClear].

Lemma thr_set_prog' s t p t' : thr (set_prog s t p) t' = if Nat.eqb t' t then stamp s p else thr s t'.
Proof. unfold set_prog, upd. cbn. destruct (Nat.eqb t' t); reflexivity. Qed.
Lemma thr_set_prog_same s t p : thr (set_prog s t p) t = stamp s p.
Proof. rewrite thr_set_prog', Nat.eqb_refl. reflexivity. Qed.
Lemma thr_log s h t : thr (log s h) t = thr s t.
Proof. reflexivity. Qed.

Lemma step_call_submit s t tmo s' :
  step0 s (ECallSubmit t tmo) = Some s' -> thr s t = [] /\ thr s' t = k_call_submit tmo.
Proof.
  cbn. destruct (thr s t) eqn:Ht; [|discriminate].
  destruct (Nat.eqb t jt); [discriminate|]. intros H; injection H as <-.
  split; [reflexivity|]. rewrite thr_set_prog_same. reflexivity.
Qed.

Lemma step_dsubmit s t d inl s' :
  step0 s (EDSubmit t d inl) = Some s' ->
  exists tmo rest, thr s t = IDSubmit tmo :: rest /\ d = ndel s /\ thr s' t = k_dsubmit (nfut s) d tmo ++ rest.
Proof.
  cbn. destruct (thr s t) as [|i rest] eqn:Ht; [discriminate|]. destruct i; try discriminate.
  destruct (Nat.eqb d (ndel s)) eqn:Ed; cbn; [|discriminate]. apply Nat.eqb_eq in Ed.
  intros H; injection H as <-. exists tmo, rest. repeat split; [exact Ed|].
  rewrite thr_log, thr_set_prog_same. reflexivity.
Qed.

Lemma step_clockd s t w s' j tmo rest :
  thr s t = IClockD j tmo :: rest -> step0 s (EClock t w) = Some s' -> thr s' t = k_clockd j w tmo ++ rest.
Proof.
  intros Ht. cbn. rewrite Ht. destruct (Z.eqb w (clock s)); cbn; [|discriminate].
  intros H; injection H as <-. rewrite thr_set_prog_same. reflexivity.
Qed.

Lemma step_xsec s t s' :
  step0 s (EXSec t) = Some s' -> exists job rest, thr s t = IXAppend job :: rest /\ thr s' t = k_xsec ++ rest.
Proof.
  cbn. destruct (issome (xown s)); [discriminate|].
  destruct (thr s t) as [|i rest] eqn:Ht; [discriminate|]. destruct i; try discriminate.
  intros H; injection H as <-. exists job, rest. split; [reflexivity|].
  rewrite thr_log, thr_set_prog_same. reflexivity.
Qed.

Lemma step_xacq s t s' :
  step0 s (EXAcq t) = Some s' -> t = jt /\ thr s t = [] /\ thr s' t = k_xacq.
Proof.
  cbn. destruct (issome (xown s)); cbn; [discriminate|].
  destruct (Nat.eqb t jt) eqn:Et; cbn; [|discriminate]. apply Nat.eqb_eq in Et.
  destruct (thr s t) eqn:Ht; [|discriminate]. intros H; injection H as <-.
  repeat split; [exact Et|]. rewrite thr_set_prog_same. reflexivity.
Qed.

Lemma step_clockp s t w s' rest :
  thr s t = IClockP :: rest -> step0 s (EClock t w) = Some s' -> thr s' t = k_clockp (jobs s) ++ rest.
Proof.
  intros Ht. cbn. rewrite Ht. destruct (Z.eqb w (clock s)); cbn; [|discriminate].
  destruct (Nat.eqb t jt); cbn; [|discriminate].
  intros H; injection H as <-. rewrite thr_set_prog_same. unfold k_clockp. rewrite <- app_assoc. cbn.
  destruct (jobs s); reflexivity.
Qed.

(* the head IWaitCalc None is stamped with the emptiness of _jobs at that moment *)
Lemma step_xrel s t s' :
  step0 s (EXRel t) = Some s' ->
  exists rest, thr s t = IXRelP :: rest /\ jobs s' = fst (partition s) /\
               thr s' t = stamp s' (k_xrel (snd (partition s)) ++ rest).
Proof.
  cbn. destruct (thr s t) as [|i rest] eqn:Ht; [discriminate|]. destruct i; try discriminate.
  destruct (xown s) as [t'|]; [|discriminate].
  destruct (negb (Nat.eqb t t') || negb (Nat.eqb t jt)); [discriminate|].
  destruct (partition s) as [pending overdue] eqn:Hp.
  intros H; injection H as <-. exists rest. split; [reflexivity|]. split; [reflexivity|].
  rewrite thr_log, thr_set_prog_same. unfold k_xrel. rewrite <- app_assoc. cbn.
  destruct overdue; reflexivity.
Qed.

Lemma step_waitcalc s t w s' e rest :
  thr s t = IWaitCalc e :: rest -> step0 s (EClock t w) = Some s' ->
  jobs s <> [] /\ thr s' t = k_waitcalc (wait_time (jobs s) w) ++ rest.
Proof.
  intros Ht. cbn. rewrite Ht. destruct (Z.eqb w (clock s)); cbn; [|discriminate].
  destruct (jobs s) as [|j0 js] eqn:Hj; cbn; [discriminate|].
  destruct (Nat.eqb t jt); cbn; [|discriminate].
  intros H; injection H as <-. split; [discriminate|]. rewrite thr_set_prog_same. reflexivity.
Qed.

(* event.wait(...) answered at once (flag set) / after blocking, then event.clear() *)
Lemma step_wwait_clear s r arg s' :
  step0 s (EWWait r arg) = Some s' ->
  exists tau rest, wait_view (thr s jt) = IWWait tau :: rest /\
    thr s' jt = (match r with 0 => k_wait | _ => [IWWoke] end) ++ rest.
Proof.
  cbn. destruct (wait_view (thr s jt)) as [|i rest] eqn:Hv; [discriminate|]. destruct i; try discriminate.
  destruct (negb _); [discriminate|]. exists tau, rest. split; [reflexivity|].
  destruct r as [|r'].
  - destruct (evf s); [|discriminate]. injection H as <-. rewrite thr_set_prog_same. reflexivity.
  - destruct (evf s); [discriminate|]. injection H as <-. rewrite thr_log, thr_set_prog_same. reflexivity.
Qed.

Lemma step_wwoke s kind s' :
  step0 s (EWWoke kind) = Some s' -> exists rest, thr s jt = IWWoke :: rest /\ thr s' jt = k_wait ++ rest.
Proof.
  cbn. destruct (thr s jt) as [|i rest] eqn:Ht; [discriminate|]. destruct i; try discriminate.
  destruct (wblock s) as [[tau since]|]; [|discriminate]. exists rest. split; [reflexivity|].
  destruct kind as [|k'].
  - destruct (wnotif s); [|discriminate]. injection H as <-. rewrite thr_set_prog_same. reflexivity.
  - destruct tau as [x|]; [|discriminate]. destruct (Z.leb (since + x) (clock s)); [|discriminate].
    injection H as <-. rewrite thr_set_prog_same. reflexivity.
Qed.

Lemma step_wclear s s' :
  step0 s EWClear = Some s' -> exists rest, thr s jt = IWClear :: rest /\ thr s' jt = stamp s' rest.
Proof.
  cbn. destruct (thr s jt) as [|i rest] eqn:Ht; [discriminate|]. destruct i; try discriminate.
  intros H; injection H as <-. exists rest. split; [reflexivity|]. rewrite thr_set_prog_same. reflexivity.
Qed.

(* ---- a path depends on the oracle only through the six tests that read shared / environment state ---- *)
Definition mk_o (g e sd p c w : bool) (x : cond) : bool :=
  match x with
  | CGateFlag => g | CExecutor => e | CShutdown => sd | CPending => p | CCancelResult => c | CWaitArg => w
  | _ => false
  end.
Definition canon (o : cond -> bool) : cond -> bool :=
  mk_o (o CGateFlag) (o CExecutor) (o CShutdown) (o CPending) (o CCancelResult) (o CWaitArg).

Lemma evalc_canon o ret c : evalc o ret c = evalc (canon o) ret c.
Proof. induction c as [| | | | | | |c IHc]; simpl; try reflexivity. rewrite IHc. reflexivity. Qed.

Lemma flatk_canon n : forall o ret k, flatk n o ret k = flatk n (canon o) ret k.
Proof.
  induction n as [|n IH]; intros o ret k; [reflexivity|].
  destruct k as [|it r]; [reflexivity|].
  destruct it as [st|l| |raised]; simpl.
  - destruct st; simpl; rewrite <- ?(evalc_canon o), ?(IH o); reflexivity.
  - destruct l; rewrite (IH o); reflexivity.
  - apply IH.
  - reflexivity.
Qed.

Ltac by_oracle o :=
  unfold flat_api, flat_body; rewrite (flatk_canon _ o); unfold canon;
  generalize (o CGateFlag) (o CExecutor) (o CShutdown) (o CPending) (o CCancelResult) (o CWaitArg);
  let g := fresh "g" in let e := fresh "e" in let sd := fresh "sd" in let p := fresh "p" in
  let c := fresh "c" in let w := fresh "w" in
  intros g e sd p c w; destruct g, e, sd, p, c, w; vm_compute; reflexivity.

(* ---- submit_timeout / submit ------------------------------------------------------------------- *)
Definition ref_submit : list sop :=
  [OpAcqG; OpDSubmit; OpNewMap; OpAddCbWake; OpClockJob; OpXSecAppend; OpEvSet; OpRelG; OpRet].
Definition ref_submit_refused : list sop := [OpAcqG; OpRelG; OpRaise].     (* ensure_alive raises: outside Model/Timeout.v *)

Theorem submit_timeout_paths o :
  flat_api o submit_timeout_m = Some (if o CGateFlag then ref_submit_refused else ref_submit).
Proof. by_oracle o. Qed.

Theorem submit_paths o :
  flat_api o submit_m = Some (if o CGateFlag then ref_submit_refused else ref_submit).
Proof. by_oracle o. Qed.

(* the whole program the machine runs for one submission *)
Definition mach_submit (tmo : Z) (j d : nat) (w : Z) : list instr :=
  k_call_submit tmo ++ k_dsubmit j d tmo ++ k_clockd j w tmo ++ k_xsec.

Theorem submit_inst tmo j d w :
  inst (mkD tmo j d w [] [] None) ref_submit = Some (mach_submit tmo j d w).
Proof. reflexivity. Qed.

Theorem submit_timeout_conforms o tmo j d w :
  o CGateFlag = false ->
  exists p, flat_api o submit_timeout_m = Some p /\ flat_api o submit_m = Some p /\
            inst (mkD tmo j d w [] [] None) p = Some (mach_submit tmo j d w).
Proof.
  intros Ho. exists ref_submit. rewrite submit_timeout_paths, submit_paths, Ho.
  repeat split; reflexivity.
Qed.

(* segment by segment: what gstep loads at each binding event *)
Lemma seg_submit_0 tmo : inst (mkD tmo 0 0 0 [] [] None) (first_seg (path_submit submit_timeout_m)) = Some (k_call_submit tmo).
Proof. reflexivity. Qed.
Lemma seg_submit_1 tmo j d : inst (mkD tmo j d 0 [] [] None) (seg_after OpDSubmit (path_submit submit_timeout_m)) = Some (k_dsubmit j d tmo).
Proof. reflexivity. Qed.
Lemma seg_submit_2 tmo j w : inst (mkD tmo j 0 w [] [] None) (seg_after OpClockJob (path_submit submit_timeout_m)) = Some (k_clockd j w tmo).
Proof. reflexivity. Qed.
Lemma seg_submit_3 : inst d0 (seg_after OpXSecAppend (path_submit submit_timeout_m)) = Some k_xsec.
Proof. reflexivity. Qed.

(* ---- _on_future_done and _do_cancel -------------------------------------------------------------- *)
Theorem on_future_done_conforms o j :
  flat_body o on_future_done_m = Some [OpEvSet] /\ inst d0 [OpEvSet] = Some (cb_prog j CbWake).
Proof. split; reflexivity. Qed.

(* one ITCancel job per overdue job, in order: ITCancel job is "_do_cancel(job): job.future.cancel() about
   to start"; cancel() itself is MapFuture's (Model/Timeout.v keeps its program) *)
Theorem do_cancel_paths o : flat_body o do_cancel_m = Some [OpFutureCancel].
Proof. by_oracle o. Qed.

(* ---- one iteration of _job_loop ------------------------------------------------------------------ *)
Definition ref_iter (pend : bool) : list sop :=
  [OpXAcq; OpClockP; OpPDoneAll; OpPublish; OpXRel; OpCancelAll; OpWaitNone]
  ++ (if pend then [OpWaitClock] else []) ++ [OpWait; OpClear].
Definition ref_iter_exit : list sop := [OpBreak].        (* executor collected / shut down: outside Model/Timeout.v *)

Theorem job_loop_paths o :
  flat_body o job_loop_m =
  Some (if negb (o CExecutor) then ref_iter_exit else if o CShutdown then ref_iter_exit else ref_iter (o CPending)).
Proof. by_oracle o. Qed.

(* pending non-empty: the clock is read, wait(Some ...) ; pending empty: wait(None) *)
Definition mach_iter (js ovd : list tjob) (tau : option Z) (pend : bool) : list instr :=
  k_xacq ++ k_clockp js ++ k_xrel ovd ++ (if pend then k_waitcalc tau else []) ++ k_wait.

Theorem iter_inst js ovd tau pend :
  inst (mkD 0 0 0 0 js ovd tau) (ref_iter pend) = Some (mach_iter js ovd tau pend).
Proof.
  unfold mach_iter, k_xacq, k_clockp, k_xrel, k_waitcalc, k_wait. destruct pend; cbn.
  - rewrite <- !app_assoc. reflexivity.
  - rewrite <- !app_assoc. reflexivity.
Qed.

Theorem job_loop_conforms o js ovd tau :
  o CExecutor = true -> o CShutdown = false ->
  exists p, flat_body o job_loop_m = Some p /\ inst (mkD 0 0 0 0 js ovd tau) p = Some (mach_iter js ovd tau (o CPending)).
Proof.
  intros H1 H2. exists (ref_iter (o CPending)). rewrite job_loop_paths, H1, H2. cbn. split; [reflexivity|apply iter_inst].
Qed.

Lemma seg_iter_0 : inst d0 (first_seg (path_iter job_loop_m true)) = Some k_xacq.
Proof. reflexivity. Qed.
Lemma seg_iter_1 js : inst (mkD 0 0 0 0 js [] None) (seg_after OpClockP (path_iter job_loop_m true)) = Some (k_clockp js).
Proof. reflexivity. Qed.
Lemma seg_iter_2 ovd : inst (mkD 0 0 0 0 [] ovd None) (seg_after OpXRel (path_iter job_loop_m true)) = Some (k_xrel ovd).
Proof. cbn. reflexivity. Qed.
Lemma seg_iter_3 tau : inst (mkD 0 0 0 0 [] [] tau) (seg_after OpWaitClock (path_iter job_loop_m true)) = Some (k_waitcalc tau).
Proof. reflexivity. Qed.
(* the segments loaded before `if pending:` is decided do not depend on its outcome *)
Lemma seg_iter_oracle_independent :
  first_seg (path_iter job_loop_m false) = first_seg (path_iter job_loop_m true) /\
  seg_after OpClockP (path_iter job_loop_m false) = seg_after OpClockP (path_iter job_loop_m true) /\
  seg_after OpXRel (path_iter job_loop_m false) = seg_after OpXRel (path_iter job_loop_m true).
Proof. repeat split; reflexivity. Qed.

(* ---- shutdown (not modelled by Model/Timeout.v: the reference is the protocol order) ------------- *)
(* test-and-set of the gate flag under the gate; then, only for the call that flipped it:
   wake the job thread, THEN shut the delegate down (which may block), then join the job thread *)
Definition ref_shutdown (again wait : bool) : list sop :=
  if again then [OpAcqG; OpRelG; OpRet]
  else [OpAcqG; OpSetGateFlag; OpRelG; OpEvSet; OpDShutdown] ++ (if wait then [OpJoin] else []) ++ [OpRet].

Theorem shutdown_paths o : flat_api o shutdown_m = Some (ref_shutdown (o CGateFlag) (o CWaitArg)).
Proof. by_oracle o. Qed.

Fixpoint index_of (x : sop) (l : list sop) : option nat :=
  match l with [] => None | y :: r => if sop_eqb y x then Some 0 else option_map S (index_of x r) end.
Definition before (x y : sop) (l : list sop) : bool :=
  match index_of x l, index_of y l with Some a, Some b => Nat.ltb a b | _, _ => false end.

(* on every path of shutdown() that reaches delegate.shutdown, the flag write and the event set come first *)
Theorem shutdown_wakes_before_delegate o p :
  flat_api o shutdown_m = Some p -> In OpDShutdown p ->
  before OpSetGateFlag OpEvSet p = true /\ before OpEvSet OpDShutdown p = true.
Proof.
  rewrite shutdown_paths. intros H; injection H as <-. unfold ref_shutdown.
  destruct (o CGateFlag); cbn.
  - intros [H|[H|[H|[]]]]; discriminate.
  - intros _. destruct (o CWaitArg); split; reflexivity.
Qed.
