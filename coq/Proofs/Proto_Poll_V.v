(* C02 / Poll, part V: every step of the machine is a protocol step (Proto_Gen.vstep) of its view
   (allocated poll futures, their state [ps], their outcome [pout], the protocol events of the history). *)
From Coq Require Import ZArith List Bool Arith Lia.
From RecordUpdate Require Import RecordSet.
From ME Require Import Base.Machine Base.Fut Base.GenPrelude Model.Poll Proofs.Poll_Inv Proofs.Proto_Gen
  Proofs.Proto_Poll_P Proofs.Proto_Poll_P1 Proofs.Proto_Poll_P2.
Import ListNotations RecordSetNotations.

Definition pe (h : hev) : option (pev outcome) :=
  match h with
  | HSet j o _ => Some (PSet j o)
  | HCancelled j _ => Some (PCancelled j)
  | HCancelRet _ j b _ => Some (PCancelRet j b)
  | _ => None
  end.
Definition view_of (s : st) : view outcome := mkView (nfut s) (ps s) (pout s) (pmap pe (hist s)).

Definition vv (s : st) := (nfut s, ps s, pout s, pmap pe (hist s)).
Lemma vneutral s s' : vv s' = vv s -> vstep outcome (view_of s) (view_of s').
Proof.
  unfold vv. intros E. inversion E as [[E1 E2 E3 E4]]. apply VNeutral; unfold view_of, same_at; simpl; auto.
  intros k. rewrite E2, E3. auto.
Qed.
Ltac vneu := apply vneutral; reflexivity.

Ltac vcancel IP s :=
  match goal with Et : thr s ?t = IFCancel ?j :: ?rest, Ef : f_cancel _ = (?n, true) |- _ =>
    let jc := fresh "jc" in let Ec := fresh "Ec" in let Hjc := fresh "Hjc" in let Hcp := fresh "Hcp" in let Hk := fresh "Hk" in
    let Hn := fresh "Hn" in let Hb := fresh "Hb" in
    destruct (head_conly _ _ _ _ IP Et eq_refl) as [jc [Ec [Hjc [Hcp Hk]]]];
    assert (Hn : n = fst (f_cancel (ps s j))) by (rewrite Ef; reflexivity);
    assert (Hb : snd (f_cancel (ps s j)) = true) by (rewrite Ef; reflexivity);
    apply (VCancel _ _ _ j); unfold view_of, same_at; simpl; rewrite ?upd_same; auto;
    first [ solve [simpl in Hk; apply Nat.ltb_lt; exact Hk]
          | solve [let k := fresh "k" in let Hne := fresh "Hne" in intros k Hne; rewrite upd_other by exact Hne; auto] ]
  end.
Ltac vsrnc IP s :=
  match goal with Et : thr s ?t = IFSrnc ?j :: ?rest, Ef : f_srnc _ = Some (?n, ?b) |- _ =>
    let jc := fresh "jc" in let Ec := fresh "Ec" in let Hjc := fresh "Hjc" in let Hcp := fresh "Hcp" in let Hk := fresh "Hk" in
    destruct (head_conly _ _ _ _ IP Et eq_refl) as [jc [Ec [Hjc [Hcp Hk]]]];
    apply (VSrnc _ _ _ j n b); unfold view_of, same_at; simpl; rewrite ?upd_same; auto;
    first [ solve [simpl in Hk; apply Nat.ltb_lt; exact Hk]
          | solve [let k := fresh "k" in let Hne := fresh "Hne" in intros k Hne; rewrite upd_other by exact Hne; auto] ]
  end.
Ltac vset IP s :=
  match goal with Et : thr s ?t = ?i :: ?rest, Ef : f_set (ps s ?j) = Some ?n
                  |- vstep _ _ (view_of (log (set_prog (_ <| pout := upd _ _ (Some ?o) |>) _ _) _)) =>
    let Hw := fresh "Hw" in let A1 := fresh "A1" in let Hk := fresh "Hk" in
    pose proof (p_wf _ IP t) as Hw; rewrite Et in Hw; destruct (wfp_split _ _ _ Hw) as [A1 _];
    simpl in A1; apply andb_prop in A1; destruct A1 as [Hk _];
    apply (VSet _ _ _ j o n); unfold view_of, same_at; simpl; rewrite ?upd_same; auto;
    first [ solve [apply Nat.ltb_lt; exact Hk]
          | solve [let k := fresh "k" in let Hne := fresh "Hne" in intros k Hne; rewrite !upd_other by exact Hne; auto] ]
  end.

Lemma fp_vstep s t op j p s' : InvP s -> step2 s (EFP t op j p) = Some s' -> vstep outcome (view_of s) (view_of s').
Proof.
  intros IP Hx. unfold step2 in Hx.
  destruct (negb (fstate_eqb p (ps s j))) eqn:Epre; [discriminate|]. apply pre_eq in Epre. subst p.
  brk Hx; inv_some Hx; eqs; first [ solve [vneu] | solve [vcancel IP s] | solve [vsrnc IP s] | solve [vset IP s] ].
Qed.

Lemma ret_vstep s t c s' : InvP s -> step1 s (ERet t c) = Some s' -> vstep outcome (view_of s) (view_of s').
Proof.
  intros IP Hx. unfold step1 in Hx. brk Hx; inv_some Hx; eqs; try solve [vneu].
  match goal with Et : thr s t = IRetB ?b :: ?rest, Ec : cancelling s t = Some ?j |- _ =>
    apply (VRet _ _ _ j b); unfold view_of, same_at; simpl; auto;
    intros ->; destruct (p_guard _ IP _ _ Ec) as [A|A]; [rewrite Et in A; discriminate|exact A] end.
Qed.

Lemma dsubmit_vstep s t d inline s' : InvP s -> step1 s (EDSubmit t d inline) = Some s' -> vstep outcome (view_of s) (view_of s').
Proof.
  intros IP Hx. unfold step1 in Hx. brk Hx; inv_some Hx; eqs;
    (apply VNew; unfold view_of, same_at; simpl; auto; apply (p_fresh _ IP); lia).
Qed.

Lemma step1_vstep s e s' : InvP s -> step1 s e = Some s' -> vstep outcome (view_of s) (view_of s').
Proof.
  intros IP Hx. destruct e; try discriminate Hx; try solve [ eapply ret_vstep; eauto | eapply dsubmit_vstep; eauto ];
    unfold step1 in Hx; brk Hx; inv_some Hx; vneu.
Qed.
Lemma step2_vstep s e s' : InvP s -> step2 s e = Some s' -> vstep outcome (view_of s) (view_of s').
Proof.
  intros IP Hx. destruct e; try discriminate Hx; try solve [ eapply fp_vstep; eauto ];
    unfold step2 in Hx; brk Hx; inv_some Hx; vneu.
Qed.
Lemma step3_vstep s e s' : step3 s e = Some s' -> vstep outcome (view_of s) (view_of s').
Proof. intros Hx. destruct e; try discriminate Hx; unfold step3 in Hx; brk Hx; inv_some Hx; vneu. Qed.

Lemma step_vstep s e s' : reachable s -> step s e = Some s' -> vstep outcome (view_of s) (view_of s').
Proof.
  intros Hr Hx. destruct e as [ts e]. apply step_inv in Hx. destruct Hx as [s1 [Ht Hx]].
  pose proof (invP_reachable s Hr) as IP.
  assert (E1 : view_of s1 = view_of s) by (apply tick_inv in Ht; destruct Ht as [[-> _]|[-> _]]; reflexivity).
  assert (IP1 : InvP s1).
  { apply tick_inv in Ht. destruct Ht as [[-> _]|[-> _]]; [exact IP|]. apply (invP_view s); auto; bnd IP. }
  rewrite <- E1.
  destruct (step0_inv _ _ _ Hx) as [[c [d [-> [_ ->]]]]|[_ [H1|[H2|H3]]]].
  - vneu.
  - eapply step1_vstep; eauto.
  - eapply step2_vstep; eauto.
  - eapply step3_vstep; eauto.
Qed.

Lemma view_init : vinit outcome (view_of init).
Proof. unfold vinit. simpl. auto. Qed.

Theorem poll_vinv s : reachable s -> VInv outcome (view_of s).
Proof. apply (sys_vinv outcome step init view_of view_init step_vstep). Qed.
