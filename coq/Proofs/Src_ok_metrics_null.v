(* source facts of more_executors/_impl/metrics/null.py: what the translator finds now is what the models were written against *)
From Coq Require Import List String.
From ME Require Import Gen.Src_metrics_null Model.SrcExpected.
Lemma src_metrics_null_ok : Src_metrics_null.facts = expected_metrics_null.
Proof. reflexivity. Qed.
