(* C04 for the Timeout machine, part 1: which returned future belongs to which delegate future
   (pairing through the ghost history), and stability of "the delegate future is cancelled". *)
From Coq Require Import List ZArith Bool Arith Lia.
From RecordUpdate Require Import RecordSet.
From ME Require Import Base.Machine Base.Fut Base.GenPrelude Gen.TimeoutGen Proofs.Timeout_Spec Model.Timeout
                       Proofs.Timeout_Inv.
Import ListNotations RecordSetNotations.
Local Open Scope Z_scope.

(* (future, delegate) pairs carried by instructions *)
Definition pr1 (i : instr) : list (nat * nat) :=
  match i with
  | IAcqMSet j (Some d) | IAddCbD d j | IDCancel j d | IDCancelledQ j d => [(j, d)]
  | _ => []
  end.
Definition pairs := ext pr1.

Definition paired (h : list hev) (j d : nat) : Prop := exists tmo ts, In (HNew j d tmo ts) h.

Lemma hnew_frame s e s' : step0 s e = Some s' ->
  (nfut s <= nfut s')%nat /\ (ndel s <= ndel s')%nat /\
  forall j d tmo ts, In (HNew j d tmo ts) (hist s') ->
    In (HNew j d tmo ts) (hist s) \/
    (j = nfut s /\ d = ndel s /\ nfut s' = S (nfut s) /\ ndel s' = S (ndel s)).
Proof.
  intros H. step0_cases H; simpl.
  all: try match goal with E : negb (Nat.eqb _ (ndel _)) = false |- _ => apply negb_false_iff, Nat.eqb_eq in E; subst end.
  all: (split; [lia|]); (split; [lia|]); intros j' d' tmo' ts' Hin.
  all: repeat match type of Hin with _ \/ _ => destruct Hin as [Hin|Hin]; [try discriminate Hin|] end.
  all: try (left; exact Hin).
  all: inversion Hin; subst; right; repeat split; reflexivity.
Qed.

Lemma pairs_frame s e s' : step0 s e = Some s' ->
  forall t j d, In (j, d) (pairs (thr s' t)) ->
  In (j, d) (pairs (thr s t)) \/ paired (hist s') j d \/ rdel s j = Some d \/ dcb s d = Some j.
Proof.
  intros H. step0_cases H; simpl.
  all: try match goal with E : wait_view _ = _ |- _ => apply (wait_view_ext pr1) in E; [|ext_triv|ext_triv] end.
  all: intros t0 j' d' Hin; try (left; exact Hin); unfold upd in Hin;
       try match type of Hin with context [Nat.eqb t0 ?t] => destruct (Nat.eqb t0 t) eqn:Et;
          [apply Nat.eqb_eq in Et; subst|left; exact Hin] end;
       try match goal with E : thr _ _ = _ |- _ => unfold pairs; rewrite E end;
       try match goal with E : ext pr1 (thr _ _) = _ |- _ => unfold pairs; rewrite E end;
       unfold pairs in Hin; ext_in pr1 Hin; rewrite ?(ext_cons pr1); simpl; try (left; tauto).
  all: repeat match type of Hin with _ \/ _ => destruct Hin as [Hin|Hin] end.
  all: try (inversion Hin; subst).
  all: first [ left; solve [ auto | apply in_or_app; right; assumption | right; assumption ]
             | right; left; eexists; eexists; simpl; solve [ eauto ]
             | right; right; left; assumption
             | right; right; right; assumption
             | idtac ].
  apply negb_false_iff, Nat.eqb_eq in E9. subst. left; left; reflexivity.
Qed.

Lemma rdel_frame s e s' : step0 s e = Some s' ->
  forall j d, rdel s' j = Some d -> rdel s j = Some d \/ exists t, In (j, d) (pairs (thr s t)).
Proof.
  intros H. step0_cases H; simpl; intros j' d' Q; try (left; exact Q).
  all: unfold upd in Q; destruct (Nat.eqb j' _) eqn:Ej; [|left; exact Q]; try discriminate Q.
  apply Nat.eqb_eq in Ej. subst. right. exists t. unfold pairs. rewrite E0, ext_cons.
  apply Nat.eqb_eq in E3. subst. simpl. auto.
Qed.

Lemma dcb_frame s e s' : step0 s e = Some s' ->
  forall d j, dcb s' d = Some j -> dcb s d = Some j \/ exists t, In (j, d) (pairs (thr s t)).
Proof.
  intros H. step0_cases H; simpl; intros d' j' Q; try (left; exact Q).
  all: unfold upd in Q; destruct (Nat.eqb d' _) eqn:Ed; [|left; exact Q]; try discriminate Q.
  inversion Q; subst. apply Nat.eqb_eq in Ed. apply negb_false_iff, Nat.eqb_eq in E9. subst.
  right. exists t. unfold pairs. rewrite E1, ext_cons. simpl. auto.
Qed.

Record Inv10 (s : st) : Prop := {
  q_lt : forall j d tmo ts, In (HNew j d tmo ts) (hist s) -> (j < nfut s)%nat /\ (d < ndel s)%nat;
  q_fun : forall j j' d, paired (hist s) j d -> paired (hist s) j' d -> j = j';
  q_rdel : forall j d, rdel s j = Some d -> paired (hist s) j d;
  q_dcb : forall d j, dcb s d = Some j -> paired (hist s) j d;
  q_prog : forall t j d, In (j, d) (pairs (thr s t)) -> paired (hist s) j d
}.

Lemma paired_mono h h' j d : (forall x, In x h -> In x h') -> paired h j d -> paired h' j d.
Proof. intros Hh [tmo [ts H]]. exists tmo, ts. auto. Qed.

Lemma inv10_step0 s e s' : Inv10 s -> step0 s e = Some s' -> Inv10 s'.
Proof.
  intros [LT FN RD DC PG] H.
  assert (HM : forall x, In x (hist s) -> In x (hist s')) by (intros x; eapply hist_mono; eauto).
  destruct (hnew_frame _ _ _ H) as [NF [ND HN]].
  assert (PG' : forall t j d, In (j, d) (pairs (thr s' t)) -> paired (hist s') j d).
  { intros t j d Hin. destruct (pairs_frame _ _ _ H _ _ _ Hin) as [K|[K|[K|K]]];
      [eapply paired_mono; [exact HM|eapply PG; eauto] | exact K
      | eapply paired_mono; [exact HM|apply RD; exact K] | eapply paired_mono; [exact HM|apply DC; exact K]]. }
  split.
  - intros j d tmo ts Hin. destruct (HN _ _ _ _ Hin) as [K|[-> [-> [F1 F2]]]]; [destruct (LT _ _ _ _ K)|]; lia.
  - intros j j' d [tmo [ts P1]] [tmo' [ts' P2]].
    destruct (HN _ _ _ _ P1) as [K1|[-> [-> _]]]; destruct (HN _ _ _ _ P2) as [K2|[E2 [E3 _]]].
    + eapply FN; eexists; eexists; eauto.
    + subst. destruct (LT _ _ _ _ K1). lia.
    + destruct (LT _ _ _ _ K2). lia.
    + congruence.
  - intros j d Q. destruct (rdel_frame _ _ _ H _ _ Q) as [K|[t K]];
      [eapply paired_mono; [exact HM|apply RD; exact K]|eapply paired_mono; [exact HM|eapply PG; eauto]].
  - intros d j Q. destruct (dcb_frame _ _ _ H _ _ Q) as [K|[t K]];
      [eapply paired_mono; [exact HM|apply DC; exact K]|eapply paired_mono; [exact HM|eapply PG; eauto]].
  - exact PG'.
Qed.

Lemma inv10_reach s : reachable_from step init s -> Inv10 s.
Proof.
  apply invariant_rule.
  - split; simpl; intros; try tauto; try discriminate. destruct H as [? [? []]].
  - intros s0 e s1 I H. apply step_split in H. destruct H as [_ H]. eapply inv10_step0; [|exact H].
    destruct I as [A B C D E]. split; auto.
Qed.

(* "delegate d exists and is cancelled" is stable *)
Definition cs (s : st) (d : nat) : bool := (d <? ndel s)%nat && fcancelled (ds s d).

Lemma fc_cancel pre f b : f_cancel pre = (f, b) -> fcancelled pre = true -> fcancelled f = true.
Proof. destruct pre; simpl; intros H C; inversion H; subst; auto. Qed.
Lemma fc_srnc pre f b : f_srnc pre = Some (f, b) -> fcancelled pre = true -> fcancelled f = true.
Proof. destruct pre; simpl; intros H C; inversion H; subst; auto; discriminate. Qed.
Lemma fc_set pre f : f_set pre = Some f -> fcancelled pre = true -> False.
Proof. destruct pre; simpl; intros H C; discriminate. Qed.

Lemma cs_mono s e s' d : step0 s e = Some s' -> cs s d = true -> cs s' d = true.
Proof.
  unfold cs. intros H C. apply andb_true_iff in C. destruct C as [C1 C2]. apply Nat.ltb_lt in C1.
  step0_cases H; simpl; try (apply andb_true_iff; split; [apply Nat.ltb_lt; lia|exact C2]).
  all: try match goal with E : negb (Nat.eqb _ (ndel _)) = false |- _ => apply negb_false_iff, Nat.eqb_eq in E; subst end.
  all: apply andb_true_iff; split; [apply Nat.ltb_lt; lia|].
  all: unfold upd; destruct (Nat.eqb d _) eqn:Ed; [apply Nat.eqb_eq in Ed; subst|exact C2]; try (exfalso; lia).
  all: repeat match goal with E : _ || _ = false |- _ => apply orb_false_iff in E; destruct E end.
  all: match goal with E : negb (fstate_eqb _ _) = false |- _ => apply pre_eq in E; subst end.
  all: first [ eapply fc_cancel; eassumption | eapply fc_srnc; eassumption | exfalso; eapply fc_set; eassumption ].
Qed.
