(* C06 / Throttle: cancel() == True means the work never starts.  Invariant over the programs of all threads:
   a canceller that is going to return True (IRetB true pending), a throttle future that is cancelled or about
   to be cancelled (IFCancel pending), a cancel() that has returned True (history): in each case the submission
   was removed from the queue (HCancelQ) or the delegate future created for it is cancelled. *)
From Coq Require Import ZArith List Bool Arith Lia.
From RecordUpdate Require Import RecordSet.
From ME Require Import Base.Machine Base.Fut Base.GenPrelude Gen.ThrottleGen Model.Throttle
  Proofs.Throttle_Spec Proofs.Throttle_Inv Proofs.Throttle_Fifo Proofs.Throttle_Tok Proofs.Throttle_TokA Proofs.Throttle_TokB
  Proofs.Throttle_U4.
Import ListNotations RecordSetNotations.

(* submissions whose cancel() returned True, from the history *)
Fixpoint rets (h : list hev) : list nat :=
  match h with [] => [] | HCancelRet j true _ :: r => j :: rets r | _ :: r => rets r end.
Lemma in_hcancelret_rets h j ts : In (HCancelRet j true ts) h -> In j (rets h).
Proof.
  induction h as [|e r IH]; [intros []|]. intros [->|Hin]; simpl; [left; reflexivity|].
  destruct e; auto. destruct b; simpl; auto.
Qed.

(* why the work of submission j never starts *)
Definition just (s : st) (j : nat) : Prop :=
  In j (cancq (hist s)) \/ exists d, (d < ndel s)%nat /\ dfor s d = j /\ fcancelled (ds s d) = true.
Definition cfor (c : option nat) (j : nat) : Prop := forall j', c = Some j' -> j' = j.
Definition iok (s : st) (c : option nat) (i : instr) : Prop :=
  match i with
  | ICancelled j | IDoneC j | IXCancel j => cfor c j
  | IDCancel j d => cfor c j /\ (d < ndel s)%nat /\ dfor s d = j
  | IFCancel j => just s j
  | IRetB true => forall j, c = Some j -> just s j
  | IAcqMSet j (Some d) => (d < ndel s)%nat /\ dfor s d = j
  | _ => True
  end.
Definition triv (i : instr) : bool :=
  match i with
  | ICancelled _ | IDoneC _ | IXCancel _ | IDCancel _ _ | IFCancel _ | IRetB true | IAcqMSet _ (Some _) => false
  | _ => true
  end.

Record InvR (s : st) : Prop := {
  r_ret : forall j, In j (rets (hist s)) -> just s j;
  r_ms : forall j, fcancelled (ms s j) = true -> just s j;
  r_mdel : forall j d, mdel s j = Some d -> (d < ndel s)%nat /\ dfor s d = j;
  r_prog : forall t, Forall (iok s (cancelling s t)) (thr s t)
}.

Definition grows (s s' : st) : Prop :=
  (forall j, In j (cancq (hist s)) -> In j (cancq (hist s'))) /\ (ndel s <= ndel s')%nat /\
  (forall d, (d < ndel s)%nat -> dfor s' d = dfor s d) /\
  (forall d, (d < ndel s)%nat -> fcancelled (ds s d) = true -> fcancelled (ds s' d) = true).

Lemma just_grows s s' j : grows s s' -> just s j -> just s' j.
Proof.
  intros [G1 [G2 [G3 G4]]] [Hj|[d [Hd [Hf Hc]]]]; [left; auto|right].
  exists d. split; [lia|]. split; [rewrite G3; auto|auto].
Qed.
Lemma iok_grows s s' c i : grows s s' -> iok s c i -> iok s' c i.
Proof.
  intros G. pose proof G as [G1 [G2 [G3 G4]]]. destruct i; simpl; auto.
  - destruct x; auto. intros [A B]. split; [lia|rewrite G3; auto].
  - destruct b; auto. intros Hj j Hc. eapply just_grows; eauto.
  - intros [A [B C]]. split; [auto|]. split; [lia|rewrite G3; auto].
  - intros Hj. eapply just_grows; eauto.
Qed.
Lemma iok_none s c i : iok s c i -> iok s None i.
Proof. destruct i; simpl; auto; try (intros _ j' Hx; discriminate Hx). - destruct b; auto. intros _ j Hx. discriminate Hx. - intros [_ B]. split; [intros j' Hx; discriminate Hx|exact B]. Qed.
Lemma triv_iok s c i : triv i = true -> iok s c i.
Proof. destruct i; simpl; try discriminate; auto. - destruct x; [discriminate|auto]. - destruct b; [discriminate|auto]. Qed.
Lemma forall_triv s c p : forallb triv p = true -> Forall (iok s c) p.
Proof. induction p as [|i r IH]; simpl; [constructor|]. intros Hx. apply andb_prop in Hx. destruct Hx as [A B]. constructor; [apply triv_iok; exact A|auto]. Qed.
Lemma forall_norm s0 s c p : Forall (iok s c) p -> Forall (iok s c) (norm s0 p).
Proof.
  intros Hf. destruct p as [|i r]; [exact Hf|]. destruct i; try exact Hf. inversion Hf; subst. unfold norm.
  destruct (qu s0); [constructor; [exact Logic.I|assumption]|]. destruct (hlim s0); repeat (constructor; [exact Logic.I|]); assumption.
Qed.
Lemma triv_setres j o : forallb triv (setres_prog j o) = true. Proof. destruct o; reflexivity. Qed.
Lemma triv_cb_prog d l : forallb triv (flat_map (cb_prog d) l) = true.
Proof. induction l as [|c l IH]; [reflexivity|]. simpl. rewrite forallb_app, IH. destruct c; reflexivity. Qed.
Lemma triv_cb_prog_held d l : forallb triv (flat_map (cb_prog_held d) l) = true.
Proof. induction l as [|c l IH]; [reflexivity|]. simpl. rewrite forallb_app, IH. destruct c; reflexivity. Qed.
Lemma triv_map_dsubmit l : forallb triv (map IDSubmit l) = true.
Proof. induction l; simpl; auto. Qed.

Lemma grows_refl s : grows s s.
Proof. unfold grows. auto 6. Qed.

(* the master lemma: thread t replaces its program by p; everything the invariant looks at only grows *)
Lemma invR_step s s' t p :
  InvR s -> grows s s' ->
  (forall u, thr s' u = upd (thr s) t p u) ->
  (forall u, u <> t -> cancelling s' u = cancelling s u) ->
  Forall (iok s' (cancelling s' t)) p ->
  (forall j, In j (rets (hist s')) -> In j (rets (hist s)) \/ just s' j) ->
  (forall j, fcancelled (ms s' j) = true -> fcancelled (ms s j) = true \/ just s' j) ->
  (forall j d, mdel s' j = Some d -> mdel s j = Some d \/ ((d < ndel s')%nat /\ dfor s' d = j)) ->
  InvR s'.
Proof.
  intros [R1 R2 R3 R4] G Hthr Hc Hp Hret Hms Hmd. pose proof G as [G1 [G2 [G3 G4]]]. constructor.
  - intros j Hj. destruct (Hret j Hj) as [Hx|Hx]; [eapply just_grows; eauto|exact Hx].
  - intros j Hj. destruct (Hms j Hj) as [Hx|Hx]; [eapply just_grows; eauto|exact Hx].
  - intros j d Hm. destruct (Hmd j d Hm) as [Hx|Hx]; [|exact Hx]. destruct (R3 j d Hx) as [A B]. split; [lia|rewrite G3; auto].
  - intros u. rewrite Hthr. destruct (Nat.eq_dec u t) as [->|Hne]; [rewrite upd_same; exact Hp|].
    rewrite upd_other by exact Hne. rewrite (Hc u Hne). eapply Forall_impl; [|apply R4]. intros i. apply iok_grows. exact G.
Qed.

Definition irrel (h : hev) : Prop := match h with HCancelQ _ _ | HCancelRet _ true _ => False | _ => True end.
Lemma invR_log s h : InvR s -> irrel h -> InvR (log s h).
Proof.
  intros [R1 R2 R3 R4] Hi.
  assert (Ej : forall j, just (log s h) j <-> just s j).
  { intros j. unfold just. simpl. destruct h; simpl in *; try tauto. }
  assert (Ei : forall c i, iok s c i -> iok (log s h) c i).
  { intros c i. destruct i; simpl; auto; try (intros Hx; apply Ej; exact Hx).
    destruct b; auto. intros Hx j Hc. apply Ej. auto. }
  constructor; simpl; auto.
  - intros j Hj. apply Ej. apply R1. destruct h; simpl in *; auto. destruct b; [contradiction|exact Hj].
  - intros j Hj. apply Ej. auto.
  - intros t. eapply Forall_impl; [|apply R4]. intros i. apply Ei.
Qed.

(* simple frame: s1 agrees with s on everything the invariant looks at (except thr) *)
Definition rview (s : st) := (cancq (hist s), rets (hist s), ndel s, dfor s, ds s, ms s, mdel s, cancelling s).
Lemma invR_set s s1 t p :
  InvR s -> thr s1 = thr s -> rview s1 = rview s -> Forall (iok s (cancelling s t)) p -> InvR (set_prog s1 t p).
Proof.
  intros IR Et Ev Hp. unfold rview in Ev. inversion Ev as [[E1 E0 E2 E3 E4 E5 E6 E7]].
  assert (Ej : forall j, just s j -> just (set_prog s1 t p) j).
  { intros j. unfold just, set_prog. simpl. rewrite E1, E2, E3, E4. auto. }
  assert (Ei : forall c i, iok s c i -> iok (set_prog s1 t p) c i).
  { intros c i. destruct i; simpl; rewrite ?E2, ?E3; auto. destruct b; auto. }
  apply (invR_step s _ t (norm s1 p) IR).
  - unfold grows, set_prog. simpl. rewrite E1, E2, E3, E4. auto 6.
  - intros u. unfold set_prog. simpl. rewrite Et. reflexivity.
  - intros u _. unfold set_prog. simpl. rewrite E7. reflexivity.
  - apply forall_norm. unfold set_prog at 2. simpl. rewrite E7. eapply Forall_impl; [|exact Hp]. intros i. apply Ei.
  - intros j Hj. left. unfold set_prog in Hj. simpl in Hj. rewrite E0 in Hj. exact Hj.
  - intros j Hj. left. unfold set_prog in Hj. simpl in Hj. rewrite E5 in Hj. exact Hj.
  - intros j d Hj. left. unfold set_prog in Hj. simpl in Hj. rewrite E6 in Hj. exact Hj.
Qed.

Lemma forall_pre s c pre rest : forallb triv pre = true -> Forall (iok s c) rest -> Forall (iok s c) (pre ++ rest).
Proof. intros A B. apply Forall_app. split; [apply forall_triv; exact A|exact B]. Qed.

Lemma invR_sub_check s s1 t v rest :
  InvR s -> thr s1 = thr s -> rview s1 = rview s -> Forall (iok s (cancelling s t)) rest -> InvR (sub_check s1 t v rest).
Proof.
  intros IR Et Ev Hp. unfold sub_check.
  destruct (blk s1 && negb (shut s1)); [destruct (block_ready (qlen s1) v) as [[|]|]|];
    try (apply invR_log; [|exact Logic.I]); apply (invR_set s); auto;
    first [ apply (forall_pre _ _ enq_prog); [reflexivity|exact Hp]
          | apply (forall_pre _ _ [IWait 30 (WSub v)]); [reflexivity|exact Hp]
          | apply (forall_pre _ _ [IRelG; IRetRaise]); [reflexivity|exact Hp] ].
Qed.
Lemma invR_after_wait s s1 t k rest :
  InvR s -> thr s1 = thr s -> rview s1 = rview s -> Forall (iok s (cancelling s t)) rest -> InvR (after_wait s1 t k rest).
Proof.
  intros IR Et Ev Hp. destruct k; simpl.
  - apply (invR_set s); auto. constructor; [exact Logic.I|exact Hp].
  - apply (invR_sub_check s); auto.
Qed.
Lemma invR_start_iter s s1 t :
  InvR s -> thr s1 = thr s -> rview s1 = rview s -> InvR (start_iter s1 t).
Proof.
  intros IR Et Ev. unfold start_iter.
  destruct (shut s1); [|destruct (dyn s1)]; apply (invR_set s); auto; repeat constructor.
Qed.

(* ---- tactics ----------------------------------------------------------------------------------------- *)
(* Forall (iok s c) (pre ++ rest) from the invariant of the old program i :: rest *)
Ltac rf_goal IR :=
  let Hf := fresh "Hf" in let Hi := fresh "Hi" in let Hr := fresh "Hr" in
  match goal with Et : thr ?s ?t = _ :: _ |- _ =>
    pose proof (r_prog _ IR t) as Hf; rewrite Et in Hf; inversion Hf as [|? ? Hi Hr]; subst end;
  try exact Hr;
  repeat match goal with
         | |- Forall _ (setres_prog _ _ ++ _) => apply forall_pre; [apply triv_setres|]
         | |- Forall _ (_ :: _) => constructor; [exact Logic.I|]
         | |- Forall _ [] => constructor
         end;
  first [ assumption | (inversion Hr; subst; assumption) ].

Ltac rside IR :=
  first [ exact IR | reflexivity | exact Logic.I | rf_goal IR ].
Ltac rfin IR s :=
  repeat (apply invR_log; [|exact Logic.I]);
  first [ apply (invR_set s) | apply (invR_sub_check s) | apply (invR_after_wait s) ]; rside IR.
Ltac rhandler IR Hx s := brk Hx; inv_some Hx; rfin IR s.

Lemma idle_nil' s t : idle s t = true -> thr s t = [].
Proof. unfold idle. intros Hx. destruct (thr s t); [reflexivity|]. rewrite andb_false_r in Hx. discriminate. Qed.

Lemma do_call_submit_invR s t s' : InvR s -> do_call_submit s t = Some s' -> InvR s'.
Proof. intros IR Hx. unfold do_call_submit in Hx. brk Hx. inv_some Hx. apply (invR_set s); try rside IR. repeat constructor. Qed.
Lemma do_call_shutdown_invR s t w s' : InvR s -> do_call_shutdown s t w = Some s' -> InvR s'.
Proof. intros IR Hx. unfold do_call_shutdown in Hx. brk Hx. inv_some Hx. apply (invR_set s); try rside IR. repeat constructor. Qed.
Lemma do_acq_g_invR s t s' : InvR s -> do_acq_g s t = Some s' -> InvR s'.
Proof. intros IR Hx. unfold do_acq_g in Hx. rhandler IR Hx s. Qed.
Lemma do_rel_g_invR s t s' : InvR s -> do_rel_g s t = Some s' -> InvR s'.
Proof. intros IR Hx. unfold do_rel_g in Hx. rhandler IR Hx s. Qed.
Lemma do_count_invR s t a s' : InvR s -> do_count s t a = Some s' -> InvR s'.
Proof. intros IR Hx. unfold do_count in Hx. rhandler IR Hx s. Qed.
Lemma do_rel_a_invR s t s' : InvR s -> do_rel_a s t = Some s' -> InvR s'.
Proof. intros IR Hx. unfold do_rel_a in Hx. rhandler IR Hx s. Qed.
Lemma do_acq_a_invR s t s' : InvR s -> do_acq_a s t = Some s' -> InvR s'.
Proof. intros IR Hx. unfold do_acq_a in Hx. rhandler IR Hx s. Qed.
Lemma do_evset_invR s t s' : InvR s -> do_evset s t = Some s' -> InvR s'.
Proof. intros IR Hx. unfold do_evset in Hx. rhandler IR Hx s. Qed.
Lemma do_dshutdown_invR s t s' : InvR s -> do_dshutdown s t = Some s' -> InvR s'.
Proof. intros IR Hx. unfold do_dshutdown in Hx. rhandler IR Hx s. Qed.
Lemma do_rel_m_invR s t j s' : InvR s -> do_rel_m s t j = Some s' -> InvR s'.
Proof. intros IR Hx. unfold do_rel_m in Hx. rhandler IR Hx s. Qed.
Lemma do_wait_invR s t r s' : InvR s -> do_wait s t r = Some s' -> InvR s'.
Proof. intros IR Hx. unfold do_wait in Hx. rhandler IR Hx s. Qed.
Lemma do_woke_invR s t k s' : InvR s -> do_woke s t k = Some s' -> InvR s'.
Proof. intros IR Hx. unfold do_woke in Hx. rhandler IR Hx s. Qed.
Lemma do_exit_invR s s' : InvR s -> do_exit s = Some s' -> InvR s'.
Proof. intros IR Hx. unfold do_exit in Hx. rhandler IR Hx s. Qed.
Lemma do_xacq_invR s t s' : InvR s -> do_xacq s t = Some s' -> InvR s'.
Proof. intros IR Hx. unfold do_xacq in Hx. rhandler IR Hx s. Qed.
Lemma do_rcread_invR s t x s' : InvR s -> do_rcread s t x = Some s' -> InvR s'.
Proof. intros IR Hx. unfold do_rcread in Hx. rhandler IR Hx s. Qed.
Lemma do_pop_invR s t s' : InvR s -> do_pop s t = Some s' -> InvR s'.
Proof. intros IR Hx. unfold do_pop in Hx. rhandler IR Hx s. Qed.
Lemma do_hstart_invR s s' : InvR s -> do_hstart s = Some s' -> InvR s'.
Proof. intros IR Hx. unfold do_hstart in Hx. brk Hx. inv_some Hx. apply (invR_start_iter s); rside IR. Qed.
Lemma do_clear_invR s t s' : InvR s -> do_clear s t = Some s' -> InvR s'.
Proof. intros IR Hx. unfold do_clear in Hx. brk Hx. inv_some Hx. apply (invR_start_iter s); rside IR. Qed.
Lemma do_relx_invR s t s' : InvR s -> do_relx s t = Some s' -> InvR s'.
Proof.
  intros IR Hx. unfold do_relx in Hx. brk Hx. inv_some Hx. apply (invR_set s); try rside IR.
  apply forall_pre; [apply triv_map_dsubmit|]. rf_goal IR.
Qed.
