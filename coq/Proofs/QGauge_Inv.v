(* Proofs for Model/QGauge.v: from the local pairing discipline to the global gauge laws. *)
From Coq Require Import ZArith List Bool Arith Lia.
From ME Require Import Base.Machine Model.QGauge.
Import ListNotations.
Local Open Scope Z_scope.

Definition off (p : pend) : Z :=
  match p with PNone => 0 | PApp => -1 | PInc => 1 | PPop => 1 | PDec => -1 end.

Definition Inv1 (s : st) (i : nat) : Prop :=
  gauge s i = Z.of_nat (length (q s i)) + off (pd s i)
  /\ ((pd s i = PDec \/ pd s i = PApp) -> q s i <> [])
  /\ (owner s i = None -> pd s i = PNone).

Definition Inv (s : st) : Prop := forall i, Inv1 s i.

Lemma remove_first_len x l l' : remove_first x l = Some l' -> length l = S (length l').
Proof.
  revert l'. induction l as [|y r IH]; intros l' H; simpl in H; [discriminate|].
  destruct (Nat.eqb y x).
  - inversion H; subst. reflexivity.
  - destruct (remove_first x r) as [r'|] eqn:E; [|discriminate].
    inversion H; subst. simpl. rewrite (IH r' eq_refl). reflexivity.
Qed.

Lemma remove_first_in x l l' : remove_first x l = Some l' -> In x l.
Proof.
  revert l'. induction l as [|y r IH]; intros l' H; simpl in H; [discriminate|].
  destruct (Nat.eqb y x) eqn:E.
  - apply Nat.eqb_eq in E. left. exact E.
  - destruct (remove_first x r) as [r'|] eqn:E'; [|discriminate]. right. eapply IH. reflexivity.
Qed.

Lemma holds_owner s i t : holds s i t = true -> owner s i = Some t.
Proof.
  unfold holds. destruct (owner s i) as [o|]; [|discriminate].
  intros H. apply Nat.eqb_eq in H. subst. reflexivity.
Qed.

Lemma inv_init : Inv init.
Proof. intros i. unfold Inv1. simpl. repeat split; try reflexivity. intros [H|H]; discriminate. Qed.

Ltac upd_case i0 i :=
  unfold upd; destruct (Nat.eqb i0 i) eqn:?E;
  [apply Nat.eqb_eq in E; subst i0 | ].

Lemma app_nonnil (l : list nat) x : l ++ [x] <> [].
Proof. destruct l; discriminate. Qed.

Lemma inv_step s e s' : Inv s -> step s e = Some s' -> Inv s'.
Proof.
  intros I H i0. pose proof (I i0) as [G [N O]].
  destruct e as [i t|i t|i t x|i t x|i t|i t]; simpl in H.
  - (* QAcq *)
    destruct (owner s i) eqn:Eo; [discriminate|]. inversion H; subst; clear H.
    unfold Inv1; simpl. split; [|split]; auto.
    upd_case i0 i; [intros; discriminate | exact O].
  - (* QRel *)
    destruct (holds s i t) eqn:Eh; [|discriminate].
    destruct (pd s i) eqn:Ep; try discriminate. inversion H; subst; clear H.
    unfold Inv1; simpl. split; [|split]; auto.
    upd_case i0 i; [intros _; exact Ep | exact O].
  - (* QApp *)
    destruct (holds s i t) eqn:Eh; [|discriminate]. apply holds_owner in Eh.
    destruct (pd s i) eqn:Ep; try discriminate; inversion H; subst; clear H;
      unfold Inv1; simpl; (upd_case i0 i; [| split; [|split]; auto]).
    + rewrite Ep in G. simpl in G. split; [|split].
      * rewrite app_length. simpl. lia.
      * intros _. apply app_nonnil.
      * rewrite Eh. discriminate.
    + rewrite Ep in G. simpl in G. split; [|split].
      * rewrite app_length. simpl. lia.
      * intros [X|X]; discriminate.
      * reflexivity.
  - (* QPop *)
    destruct (holds s i t) eqn:Eh; [|discriminate]. apply holds_owner in Eh.
    destruct (remove_first x (q s i)) as [l|] eqn:Er; [|discriminate].
    pose proof (remove_first_len _ _ _ Er) as L.
    destruct (pd s i) eqn:Ep; try discriminate; inversion H; subst; clear H;
      unfold Inv1; simpl; (upd_case i0 i; [| split; [|split]; auto]).
    + rewrite Ep in G. simpl in G. split; [|split].
      * rewrite L in G. simpl. lia.
      * intros [X|X]; discriminate.
      * rewrite Eh. discriminate.
    + rewrite Ep in G. simpl in G. split; [|split].
      * rewrite L in G. simpl. lia.
      * intros [X|X]; discriminate.
      * reflexivity.
  - (* QInc *)
    destruct (holds s i t) eqn:Eh; [|discriminate]. apply holds_owner in Eh.
    destruct (pd s i) eqn:Ep; try discriminate; inversion H; subst; clear H;
      unfold Inv1; simpl; (upd_case i0 i; [| split; [|split]; auto]).
    + rewrite Ep in G. simpl in G. split; [|split].
      * simpl. lia.
      * intros [X|X]; discriminate.
      * rewrite Eh. discriminate.
    + rewrite Ep in G. simpl in G. split; [|split].
      * simpl. lia.
      * intros [X|X]; discriminate.
      * reflexivity.
  - (* QDec *)
    destruct (holds s i t) eqn:Eh; [|discriminate]. apply holds_owner in Eh.
    destruct (pd s i) eqn:Ep; try discriminate.
    + destruct (q s i) as [|y r] eqn:Eq; [discriminate|]. inversion H; subst; clear H.
      unfold Inv1; simpl; (upd_case i0 i; [| split; [|split]; auto]).
      rewrite Ep in G. simpl in G. split; [|split].
      * simpl. lia.
      * intros _. rewrite Eq. discriminate.
      * rewrite Eh. discriminate.
    + inversion H; subst; clear H.
      unfold Inv1; simpl; (upd_case i0 i; [| split; [|split]; auto]).
      rewrite Ep in G. simpl in G. split; [|split].
      * simpl. lia.
      * intros [X|X]; discriminate.
      * reflexivity.
Qed.

Definition reachable := reachable_from step init.

Lemma inv_reach s : reachable s -> Inv s.
Proof. apply (invariant_rule step Inv init inv_init). intros s0 e s1 I H. eapply inv_step; eauto. Qed.

(* the gauge equals the queue length whenever the executor lock is free *)
Theorem gauge_eq_at_rest s i : reachable s -> owner s i = None -> gauge s i = Z.of_nat (length (q s i)).
Proof.
  intros R Ho. destruct (inv_reach s R i) as [G [_ O]]. rewrite (O Ho) in G. simpl in G. lia.
Qed.

(* ... and also inside a section between two pairs *)
Theorem gauge_eq_between_pairs s i : reachable s -> pd s i = PNone -> gauge s i = Z.of_nat (length (q s i)).
Proof. intros R Hp. destruct (inv_reach s R i) as [G _]. rewrite Hp in G. simpl in G. lia. Qed.

(* never negative, at any point of any section *)
Theorem gauge_nonneg s i : reachable s -> 0 <= gauge s i.
Proof.
  intros R. destruct (inv_reach s R i) as [G [N _]].
  destruct (pd s i) eqn:Ep; simpl in G; try lia.
  - assert (q s i <> []) as Q by (apply N; right; reflexivity).
    destruct (q s i); [congruence|]. cbn [length] in G. rewrite Nat2Z.inj_succ in G. lia.
  - assert (q s i <> []) as Q by (apply N; left; reflexivity).
    destruct (q s i); [congruence|]. cbn [length] in G. rewrite Nat2Z.inj_succ in G. lia.
Qed.

(* inside a section the gauge is off by at most one *)
Theorem gauge_within_one s i : reachable s -> Z.abs (gauge s i - Z.of_nat (length (q s i))) <= 1.
Proof. intros R. destruct (inv_reach s R i) as [G _]. destruct (pd s i); simpl in G; lia. Qed.

(* container and gauge change only under the lock *)
Theorem touched_only_by_holder s e s' i :
  step s e = Some s' -> (q s' i <> q s i \/ gauge s' i <> gauge s i) ->
  exists t, owner s i = Some t /\ owner s' i = Some t.
Proof.
  intros H D. destruct e as [j t|j t|j t x|j t x|j t|j t]; simpl in H.
  - destruct (owner s j); [discriminate|]. inversion H; subst. simpl in D. destruct D as [D|D]; congruence.
  - destruct (holds s j t); [|discriminate]. destruct (pd s j); try discriminate.
    inversion H; subst. simpl in D. destruct D as [D|D]; congruence.
  - destruct (holds s j t) eqn:Eh; [|discriminate]. apply holds_owner in Eh.
    assert (i = j) as ->.
    { destruct (Nat.eq_dec i j) as [e|ne]; [exact e|exfalso].
      destruct (pd s j); try discriminate; inversion H; subst; simpl in D; rewrite upd_other in D by exact ne;
        destruct D as [D|D]; congruence. }
    exists t. split; [exact Eh|]. destruct (pd s j); try discriminate; inversion H; subst; exact Eh.
  - destruct (holds s j t) eqn:Eh; [|discriminate]. apply holds_owner in Eh.
    destruct (remove_first x (q s j)) as [l|]; [|discriminate].
    assert (i = j) as ->.
    { destruct (Nat.eq_dec i j) as [e|ne]; [exact e|exfalso].
      destruct (pd s j); try discriminate; inversion H; subst; simpl in D; rewrite upd_other in D by exact ne;
        destruct D as [D|D]; congruence. }
    exists t. split; [exact Eh|]. destruct (pd s j); try discriminate; inversion H; subst; exact Eh.
  - destruct (holds s j t) eqn:Eh; [|discriminate]. apply holds_owner in Eh.
    assert (i = j) as ->.
    { destruct (Nat.eq_dec i j) as [e|ne]; [exact e|exfalso].
      destruct (pd s j); try discriminate; inversion H; subst; simpl in D; rewrite upd_other in D by exact ne;
        destruct D as [D|D]; congruence. }
    exists t. split; [exact Eh|]. destruct (pd s j); try discriminate; inversion H; subst; exact Eh.
  - destruct (holds s j t) eqn:Eh; [|discriminate]. apply holds_owner in Eh.
    assert (i = j) as ->.
    { destruct (Nat.eq_dec i j) as [e|ne]; [exact e|exfalso].
      destruct (pd s j); try discriminate; [destruct (q s j); [discriminate|]|]; inversion H; subst; simpl in D;
        rewrite upd_other in D by exact ne; destruct D as [D|D]; congruence. }
    exists t. split; [exact Eh|].
    destruct (pd s j); try discriminate; [destruct (q s j); [discriminate|]|]; inversion H; subst; exact Eh.
Qed.

(* a removal path without its decrement (retry._cancel / throttle._do_cancel before the repairs) leaves
   the gauge above reality for ever *)
Theorem gauge_drift_without_dec_refuted :
  exists s, reachable_from step_nodec init s /\ owner s 0%nat = None /\ q s 0%nat = [] /\ gauge s 0%nat = 1.
Proof.
  exists (mkSt (upd (upd (upd (upd (fun _ => None) 0 (Some 1%nat)) 0 None) 0 (Some 2%nat)) 0 None)
               (upd (upd (fun _ => []) 0 [7%nat]) 0 [])
               (upd (fun _ => 0) 0 1)
               (upd (upd (upd (fun _ => PNone) 0 PApp) 0 PNone) 0 PNone)).
  split.
  - exists [QAcq 0 1; QApp 0 1 7; QInc 0 1; QRel 0 1; QAcq 0 2; QPop 0 2 7; QRel 0 2]. reflexivity.
  - repeat split; reflexivity.
Qed.
