(* I2: lock discipline: only the owner of L is inside an L-section; cdone is false at every
   pending evaluation; the decision is logged at most once. *)
From Coq Require Import List Arith Bool Lia PeanoNat ZArith.
From ME Require Import Base.Machine Base.Fut Base.GenPrelude Gen.BoolGen Gen.ZipGen Model.Comb Proofs.Comb_Spec Proofs.Comb_I0.
Import ListNotations.

Definition notL (i : instr) : Prop :=
  match i with ICancelledQ _ _ | ICancelledQ2 _ | IRelL => False | _ => True end.
Definition insec (p : list instr) : bool :=
  match p with ICancelledQ _ _ :: _ | ICancelledQ2 _ :: _ | IRelL :: _ => true | _ => false end.
Definition body (p : list instr) : list instr :=
  match p with
  | ICancelledQ _ _ :: r => r
  | ICancelledQ2 _ :: IRelL :: r => r
  | ICancelledQ2 _ :: r => p
  | IRelL :: r => r
  | _ => p
  end.
Definition evalhd (p : list instr) : bool := match p with ICancelledQ _ _ :: _ => true | _ => false end.
Definition isdec (h : hev) : bool := match h with HDecide _ _ => true | _ => false end.
Definition ndec (l : list hev) : nat := length (filter isdec l).

Definition G2 (lo : option nat) (cd : bool) (t : nat) (p : list instr) : Prop :=
  Forall notL (body p) /\ (insec p = true -> lo = Some t) /\ (evalhd p = true -> cd = false).

Record I2 (s : st) : Prop := {
  i2_thr : forall t, G2 (lown s) (cdone s) t (thr s t);
  i2_le : ndec (hist s) <= 1;
  i2_zero : cdone s = false -> ndec (hist s) = 0
}.

Lemma I2_init : I2 init.
Proof. constructor; simpl; auto. intros t. repeat split; simpl; auto; discriminate. Qed.

Lemma notL_plain p : Forall notL p -> body p = p /\ insec p = false /\ evalhd p = false.
Proof.
  intros H. destruct p as [|i r]; simpl; auto. inversion H; subst.
  destruct i; simpl in *; auto; contradiction.
Qed.
Lemma G2_plain lo cd t p : Forall notL p -> G2 lo cd t (norm false p).
Proof.
  intros H. apply (Forall_norm notL false) in H; [|exact I].
  destruct (notL_plain _ H) as (Hb & Hi & He). unfold G2. rewrite Hb, Hi, He.
  repeat split; auto; discriminate.
Qed.
Lemma G2_body lo cd t p : G2 lo cd t p -> Forall notL (body p).
Proof. intros H; apply H. Qed.

Ltac notL_atom := simpl; auto.

Lemma I2_actor s e s' : I2 s -> step s e = Some s' -> G2 (lown s') (cdone s') (actor e) (thr s' (actor e)).
Proof.
  intros I H. destruct e; simpl actor; pose proof (i2_thr _ I t) as It; step_inv H;
  try match goal with Hq : thr _ _ = _ |- _ => rewrite Hq in It end;
  simpl; rewrite ?upd_same; fold_retb;
  try (destruct It as (Hb & Hi & He); simpl in Hb, Hi, He; fa_hyps);
  try solve [apply G2_plain; fa_tac notL_atom];
  try solve [repeat match goal with |- context [if ?c then _ else _] => destruct c end;
             simpl; unfold G2; simpl; repeat split; try congruence; try discriminate; fa_tac notL_atom];
  try solve [apply (i2_thr _ I)].
  destruct l as [|[] r]; simpl in Hb; fa_hyps; try contradiction.
  simpl; unfold G2; simpl; repeat split; auto; discriminate.
Qed.

Lemma evalhd_insec p : evalhd p = true -> insec p = true.
Proof. destruct p as [|[] r]; simpl; congruence. Qed.

Lemma I2_other s e s' u : I2 s -> step s e = Some s' -> u <> actor e -> G2 (lown s') (cdone s') u (thr s' u).
Proof.
  intros I H Hu. rewrite (step_other_thr _ _ _ _ H Hu).
  pose proof (i2_thr _ I u) as (Hb & Hi & He).
  destruct e; simpl in Hu; pose proof (i2_thr _ I t) as It; step_inv H; simpl;
    try solve [repeat split; assumption];
    try match goal with Hq : thr _ _ = _ |- _ => rewrite Hq in It end;
    destruct It as (Hb' & Hi' & He'); simpl in Hi', He';
    repeat split; try assumption; clean; intros;
    try (apply evalhd_insec in H);
    try (specialize (Hi H)); try (specialize (Hi' eq_refl)); try congruence.
Qed.

Lemma I2_step s e s' : I2 s -> step s e = Some s' -> I2 s'.
Proof.
  intros I H. constructor.
  - intros u. destruct (Nat.eq_dec u (actor e)) as [->|Hu]; [eapply I2_actor|eapply I2_other]; eauto.
  - pose proof (i2_le _ I) as Hle. pose proof (i2_zero _ I) as Hz.
    destruct e; pose proof (i2_thr _ I t) as It; step_inv H; simpl; try assumption;
    try match goal with Hq : thr _ _ = _ |- _ => rewrite Hq in It end;
    destruct It as (_ & _ & He'); simpl in He'; unfold ndec in *; simpl;
    try (rewrite Hz by auto); auto;
    repeat match goal with |- context [if ?c then _ else _] => destruct c end; simpl; try (rewrite Hz by auto); auto.
  - pose proof (i2_zero _ I) as Hz.
    destruct e; step_inv H; simpl; try assumption; try discriminate; unfold ndec in *; simpl; auto.
  all: try (intros; congruence).
  all: intros _; apply Hz; pose proof (i2_thr _ I t) as It; rewrite Heql in It; apply It; reflexivity.
Qed.

Lemma I2_reach s : reachable s -> I2 s.
Proof. apply invariant_rule; [exact I2_init|]. intros; eapply I2_step; eauto. Qed.
