(* C03 for the Retry machine, part 7: the quiescent-state theorems. *)
From Coq Require Import List ZArith Bool Arith Lia.
From RecordUpdate Require Import RecordSet.
From ME Require Import Base.Machine Base.Fut Base.GenPrelude Gen.RetryGen Model.Retry Proofs.Retry_Spec.
From ME Require Import Proofs.Retry_C0 Proofs.Retry_C1 Proofs.Retry_C2 Proofs.Retry_C3 Proofs.Retry_C4 Proofs.Retry_C5 Proofs.Retry_C6
  Proofs.Retry_C7 Proofs.Retry_C8 Proofs.Retry_C9 Proofs.Retry_C10 Proofs.Retry_C11 Proofs.Retry_C12 Proofs.Retry_N0 Proofs.Retry_N1
  Proofs.Retry_N2 Proofs.Retry_N3 Proofs.Retry_N4 Proofs.Retry_N5 Proofs.Retry_N6 Proofs.Retry_N9.
Import ListNotations RecordSetNotations.

(* what the record r of a retry future that is not done looks like in a quiescent state; g = time of the worker's
   latest scan.  The first two alternatives are "legitimately waiting"; the third is the defect G1: the delegate
   future was cancelled by somebody else (EEnvCancel), _delegate_callback returned silently, the record stays *)
Definition inflight_ok (s : st) (r : nat) : Prop :=
  exists d, jdel (recs s r) = Some d /\ d < ndel s /\ fdone (ds s d) = false /\ dcb s d = true.
Definition sleeping_ok (s : st) (g : Z) (tau : option Z) (since : Z) (r : nat) : Prop :=
  jdel (recs s r) = None /\
  exists x, tau = Some x /\ (0 < x)%Z /\ (g <= since)%Z /\ (g + x <= jwhen (recs s r))%Z.
Definition foreign_cancelled (s : st) (r : nat) : Prop :=
  exists d, jdel (recs s r) = Some d /\ d < ndel s /\ fcancelled (ds s d) = true /\ envc s d.
Definition waiting_ok (s : st) (g : Z) (tau : option Z) (since : Z) (r : nat) : Prop :=
  inflight_ok s r \/ sleeping_ok s g tau since r \/ foreign_cancelled s r.

(* ghost-machine form: g is the time of the worker's latest scan *)
Lemma retry_no_lost_G s g tau since : reachable_from stepG initG (s, g) -> quiescent s tau since ->
  evf s = false /\
  forall j, j < nfut s -> fdone (rs s j) = false ->
  exists r, In r (jobs s) /\ jf (recs s r) = j /\ waiting_ok s g tau since r.
Proof.
  intros RG Q. pose proof (reachG_proj _ _ RG) as R. destruct (GI_reach _ RG) as (HC & _ & Hb). simpl in HC, Hb.
  pose proof Q as (Q1 & Q2 & Q3). split; [exact (parked_flag_clear s tau since R Q2 Q3)|].
  intros j Hj Hnd. destruct (retry_no_lost_core s tau since R Q j Hj Hnd) as (r & A & B & C).
  exists r. split; [exact A|]. split; [exact B|]. destruct C as [C|[C|C]]; [left; exact C| |right; right; exact C].
  right. left. split; [exact C|].
  assert (P : wparked s tau) by (right; exists since; auto).
  destruct (HC tau P r A C) as [(t & l & E)|(x & X1 & X2 & X3)].
  - exfalso. destruct (quiescent_prog s tau since R Q t) as [E'|E']; rewrite E' in E; discriminate E.
  - exists x. repeat split; auto. exact (Hb _ _ Q2).
Qed.

(* state form *)
Lemma retry_no_lost s tau since : reachable_from step init s -> quiescent s tau since ->
  evf s = false /\
  forall j, j < nfut s -> fdone (rs s j) = false ->
  exists r, In r (jobs s) /\ jf (recs s r) = j /\ exists g, waiting_ok s g tau since r.
Proof.
  intros R Q. destruct (reachG_lift s R) as [g RG]. destruct (retry_no_lost_G s g tau since RG Q) as [A B].
  split; [exact A|]. intros j Hj Hnd. destruct (B j Hj Hnd) as (r & X & Y & Z). exists r. repeat split; auto. exists g. exact Z.
Qed.

(* the three alternatives exclude one another *)
Lemma waiting_ok_exclusive s g tau since r :
  ~ (inflight_ok s r /\ sleeping_ok s g tau since r) /\
  ~ (inflight_ok s r /\ foreign_cancelled s r) /\
  ~ (sleeping_ok s g tau since r /\ foreign_cancelled s r).
Proof.
  split; [|split].
  - intros [(d & A & _) (B & _)]. congruence.
  - intros [(d & A & _ & B & _) (d' & A' & _ & B' & _)]. assert (d' = d) by congruence. subst d'.
    destruct (ds s d); discriminate.
  - intros [(B & _) (d & A & _)]. congruence.
Qed.

(* the three-way form of the property statement: a retry future that is not done at quiescence has EXACTLY ONE
   record in _jobs, and that record is in exactly one of the three situations *)
Definition xor3 (A B C : Prop) : Prop := (A /\ ~ B /\ ~ C) \/ (~ A /\ B /\ ~ C) \/ (~ A /\ ~ B /\ C).

Lemma retry_no_lost_3 s tau since : reachable_from step init s -> quiescent s tau since ->
  forall j, j < nfut s -> fdone (rs s j) = false ->
  exists r, In r (jobs s) /\ jf (recs s r) = j /\
    (forall r', In r' (jobs s) -> jf (recs s r') = j -> r' = r) /\
    exists g, xor3 (inflight_ok s r) (sleeping_ok s g tau since r) (foreign_cancelled s r).
Proof.
  intros R Q j Hj Hnd. destruct (retry_no_lost s tau since R Q) as [_ B].
  destruct (B j Hj Hnd) as (r & X & Y & g & Z). exists r. split; [exact X|]. split; [exact Y|]. split.
  - intros r' X' Y'. apply (retry_one_record s R r' r X' X); [congruence|rewrite Y'; exact Hnd].
  - exists g. destruct (waiting_ok_exclusive s g tau since r) as (E1 & E2 & E3). unfold xor3.
    destruct Z as [Z|[Z|Z]]; [left|right; left|right; right]; tauto.
Qed.

(* the weaker reading used before the machine had EEnvCancel (kept: it is implied) *)
Lemma retry_no_lost_3_weak s tau since : reachable_from step init s -> quiescent s tau since ->
  forall j, j < nfut s -> fdone (rs s j) = false ->
  exists r, In r (jobs s) /\ jf (recs s r) = j /\
    ((exists d, jdel (recs s r) = Some d /\ fdone (ds s d) = false /\ dcb s d = true) \/
     (jdel (recs s r) = None /\ exists x, tau = Some x /\ (0 < x)%Z) \/
     (exists d, jdel (recs s r) = Some d /\ fcancelled (ds s d) = true)).
Proof.
  intros R Q j Hj Hnd. destruct (retry_no_lost s tau since R Q) as [_ B].
  destruct (B j Hj Hnd) as (r & X & Y & g & [(d & Z1 & Z2 & Z3 & Z4)|[(Z1 & x & Z2 & Z3 & _)|(d & Z1 & Z2 & Z3 & Z4)]]);
    exists r; repeat split; auto.
  - left. exists d. auto.
  - right. left. split; [exact Z1|]. exists x. auto.
  - right. right. exists d. auto.
Qed.
