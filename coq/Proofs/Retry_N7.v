(* C03 for the Retry machine, part 7: the quiescent-state theorems. *)
From Coq Require Import List ZArith Bool Arith Lia.
From RecordUpdate Require Import RecordSet.
From ME Require Import Base.Machine Base.Fut Base.GenPrelude Gen.RetryGen Model.Retry Proofs.Retry_Spec.
From ME Require Import Proofs.Retry_C0 Proofs.Retry_C1 Proofs.Retry_C2 Proofs.Retry_C3 Proofs.Retry_C4 Proofs.Retry_C5 Proofs.Retry_C6
  Proofs.Retry_C7 Proofs.Retry_C8 Proofs.Retry_C9 Proofs.Retry_C10 Proofs.Retry_C11 Proofs.Retry_C12 Proofs.Retry_N0 Proofs.Retry_N1
  Proofs.Retry_N2 Proofs.Retry_N3 Proofs.Retry_N4 Proofs.Retry_N5 Proofs.Retry_N6.
Import ListNotations RecordSetNotations.

(* what "legitimately waiting" means for a retry future j with queued record r; g = time of the worker's
   latest scan *)
Definition waiting_ok (s : st) (g : Z) (tau : option Z) (since : Z) (r : nat) : Prop :=
  (exists d, jdel (recs s r) = Some d /\ d < ndel s /\ fdone (ds s d) = false /\ dcb s d = true) \/
  (jdel (recs s r) = None /\
   exists x, tau = Some x /\ (0 < x)%Z /\ (g <= since)%Z /\ (g + x <= jwhen (recs s r))%Z).

(* ghost-machine form: g is the time of the worker's latest scan *)
Lemma retry_no_lost_G s g tau since : reachable_from stepG initG (s, g) -> quiescent s tau since ->
  evf s = false /\
  forall j, j < nfut s -> fdone (rs s j) = false ->
  exists r, In r (jobs s) /\ jf (recs s r) = j /\ waiting_ok s g tau since r.
Proof.
  intros RG Q. pose proof (reachG_proj _ _ RG) as R. destruct (GI_reach _ RG) as (HC & _ & Hb). simpl in HC, Hb.
  pose proof Q as (Q1 & Q2 & Q3). split; [exact (parked_flag_clear s tau since R Q2 Q3)|].
  intros j Hj Hnd. destruct (retry_no_lost_core s tau since R Q j Hj Hnd) as (r & A & B & C).
  exists r. split; [exact A|]. split; [exact B|]. destruct C as [C|C]; [left; exact C|right].
  split; [exact C|].
  assert (P : wparked s tau) by (right; exists since; auto).
  destruct (HC tau P r A C) as [(t & l & E)|(x & X1 & X2 & X3)].
  - exfalso. destruct (quiescent_prog s tau since R Q t) as [E'|E']; rewrite E' in E; discriminate E.
  - exists x. repeat split; auto. exact (Hb _ _ Q2).
Qed.

(* state form *)
Lemma retry_no_lost s tau since : reachable_from step init s -> quiescent s tau since ->
  evf s = false /\
  forall j, j < nfut s -> fdone (rs s j) = false ->
  exists r, In r (jobs s) /\ jf (recs s r) = j /\ exists g, waiting_ok s g tau since r.
Proof.
  intros R Q. destruct (reachG_lift s R) as [g RG]. destruct (retry_no_lost_G s g tau since RG Q) as [A B].
  split; [exact A|]. intros j Hj Hnd. destruct (B j Hj Hnd) as (r & X & Y & Z). exists r. repeat split; auto. exists g. exact Z.
Qed.

(* the three-way form of the property statement; the third alternative (delegate future cancelled by somebody
   else, job kept for ever) cannot arise in this machine: see retry_cancelled_delegate_resolved *)
Lemma retry_no_lost_3 s tau since : reachable_from step init s -> quiescent s tau since ->
  forall j, j < nfut s -> fdone (rs s j) = false ->
  exists r, In r (jobs s) /\ jf (recs s r) = j /\
    ((exists d, jdel (recs s r) = Some d /\ fdone (ds s d) = false /\ dcb s d = true) \/
     (jdel (recs s r) = None /\ exists x, tau = Some x /\ (0 < x)%Z) \/
     (exists d, jdel (recs s r) = Some d /\ fcancelled (ds s d) = true)).
Proof.
  intros R Q j Hj Hnd. destruct (retry_no_lost s tau since R Q) as [_ B].
  destruct (B j Hj Hnd) as (r & X & Y & g & [(d & Z1 & Z2 & Z3 & Z4)|(Z1 & x & Z2 & Z3 & _)]); exists r; repeat split; auto.
  - left. exists d. auto.
  - right. left. split; [exact Z1|]. exists x. auto.
Qed.
