(* Chain model: the step function restated as an inductive transition relation (one constructor per
   branch, boolean tests turned into propositions), and the inversion lemma step -> tr.  Every
   invariant proof in Chain_*.v goes by cases on tr. *)
From Coq Require Import List Arith Bool Lia PeanoNat.
From ME Require Import Base.Machine Model.Chain.
Import ListNotations.

Inductive gin (c : cfg) (s : st) (t k : nat) (r : list instr) : instr -> st -> Prop :=
| GI_raise : flag s k = true ->
    gin c s t k r (IAcqSub k) (log (set_prog s t (IRelSub k false :: ISubRet k false :: r)) (HRaise t k))
| GI_enter : flag s k = false ->
    gin c s t k r (IAcqSub k) (log (set_prog s t (sub_body c k ++ r)) (HEnter t k))
| GI_lose w kw : flag s k = true ->
    gin c s t k r (IAcqSd k w kw) (log (set_prog s t (IRelSd k :: ISdRet k false false :: r)) (HLose t k))
| GI_win w kw : flag s k = false ->
    gin c s t k r (IAcqSd k w kw) (log (set_flag (set_prog s t (sd_body c k w kw ++ r)) k) (HWin t k w kw)).

Lemma gate_in_gin c s t k i r s' : gate_in c s t k i r = Some s' -> gin c s t k r i s'.
Proof.
  unfold gate_in. intros H. destruct i; try discriminate.
  - destruct (Nat.eqb k0 k) eqn:E; [|discriminate]. apply Nat.eqb_eq in E; subst k0.
    inversion H; subst; clear H. destruct (flag s k) eqn:F; constructor; auto.
  - destruct (Nat.eqb k0 k) eqn:E; [|discriminate]. apply Nat.eqb_eq in E; subst k0.
    inversion H; subst; clear H. destruct (flag s k) eqn:F; constructor; auto.
Qed.

Definition rel_instr (i : instr) (k : nat) : Prop := (exists b, i = IRelSub k b) \/ i = IRelSd k.

Inductive tr (c : cfg) (s : st) : ev -> st -> Prop :=
| T_SubLib t k r : k <= length c -> prog s t = ICallSub k :: r ->
    tr c s (SubCall t k) (log (set_lastfail (set_prog s t (start_sub k ++ r)) t false) (HSubCall t k false))
| T_SubUser t k : k <= length c -> uctx (prog s t) = true ->
    tr c s (SubCall t k)
       (log (set_nested (set_lastfail (set_prog s t (start_sub k ++ prog s t)) t false) (in_base (prog s t))) (HSubCall t k true))
| T_SubRet t k ok r : 0 < k -> prog s t = ISubRet k ok :: r ->
    tr c s (SubRet t k ok) (finish_sub s t k ok r)
| T_BaseRet t ok r : prog s t = IBase :: r -> (ok = true \/ 0 < bcalls s) ->
    tr c s (SubRet t 0 ok) (finish_sub s t 0 ok r)
| T_Acq t k i r s' : gown s k = None -> prog s t = i :: r -> 0 < k ->
    gin c (log (set_gate s k (Some t) 1) (HAcq t k (held_by c s t))) t k r i s' ->
    tr c s (Acq t k) s'
| T_ReAcq t k i r s' : gown s k = Some t -> prog s t = i :: r -> 0 < k ->
    gin c (set_gate s k (Some t) (S (gdepth s k))) t k r i s' ->
    tr c s (ReAcq t k) s'
| T_Rel t k i r : gown s k = Some t -> gdepth s k = 1 -> prog s t = i :: r -> rel_instr i k ->
    tr c s (Rel t k) (set_gate (set_prog s t r) k None 0)
| T_ReRel t k i r : gown s k = Some t -> 1 < gdepth s k -> prog s t = i :: r -> rel_instr i k ->
    tr c s (ReRel t k) (set_gate (set_prog s t r) k (Some t) (gdepth s k - 1))
| T_SdLib t k w kw r : k <= length c -> prog s t = ICallSd k w kw :: r ->
    tr c s (SdCall t k w kw)
       (log (log (match k with 0 => inc_bcalls | _ => fun x => x end (set_prog s t (start_sd k w kw ++ r)))
                 (HDown t (S k) w kw)) (HSdCall t k w kw false))
| T_SdUser t k w kw : k <= length c -> uctx (prog s t) = true ->
    tr c s (SdCall t k w kw)
       (log (set_nested (match k with 0 => inc_bcalls | _ => fun x => x end (set_prog s t (start_sd k w kw ++ prog s t)))
                        (in_base (prog s t))) (HSdCall t k w kw true))
| T_SdRet t k join won r : 0 < k -> prog s t = ISdRet k join won :: r -> (join = false \/ wdead s k = true) ->
    tr c s (SdRet t k) (log (set_prog s t r) (HSdRet t k won))
| T_BaseSdRet t r : prog s t = IBaseSd :: r ->
    tr c s (SdRet t 0) (log (set_prog s t r) (HSdRet t 0 true))
| T_WExit t k : prog s t = [] -> 0 < k -> k <= length c -> has_worker (kindof c k) = true -> wdead s k = false ->
    (flag s k = true \/ (worker_submits (kindof c k) = true /\ lastfail s t = true)) ->
    tr c s (WExit t k) (log (set_wdead s k) (HWExit t k)).

Lemma owns_true s t k : owns s t k = true -> gown s k = Some t.
Proof. unfold owns. destruct (gown s k); [|discriminate]. intros H. apply Nat.eqb_eq in H. subst; reflexivity. Qed.

Lemma gate_out_inv s t k o d s' : gate_out s t k o d = Some s' ->
  exists i r, prog s t = i :: r /\ rel_instr i k /\ s' = set_gate (set_prog s t r) k o d.
Proof.
  unfold gate_out. destruct (prog s t) as [|i r]; [discriminate|].
  destruct i; try discriminate; destruct (Nat.eqb k0 k) eqn:E; try discriminate;
    apply Nat.eqb_eq in E; subst k0; intros H; inversion H; subst; eexists; eexists; (split; [reflexivity|]);
    (split; [|reflexivity]); [left; eexists; reflexivity|right; reflexivity].
Qed.

Ltac btrue H :=
  repeat match type of H with
  | (_ && _) = true => let H1 := fresh H in apply andb_prop in H; destruct H as [H H1]; btrue H1
  end.

Lemma step_tr c s e s' : step c s e = Some s' -> tr c s e s'.
Proof.
  destruct e as [t k|t k ok|t k|t k|t k|t k|t k w kw|t k|t k]; simpl; intros H.
  - (* SubCall *)
    destruct (Nat.leb k (length c)) eqn:L; [|discriminate]. apply Nat.leb_le in L.
    destruct (prog s t) as [|i r] eqn:P.
    + simpl in H. inversion H; subst. generalize (T_SubUser c s t k L). rewrite P. simpl. intros X; apply X; reflexivity.
    + destruct i; simpl in H; try discriminate;
        try (inversion H; subst; generalize (T_SubUser c s t k L); rewrite P; simpl; intros X; apply X; reflexivity).
      destruct (Nat.eqb k0 k) eqn:E; [|discriminate]. apply Nat.eqb_eq in E; subst k0.
      inversion H; subst. apply T_SubLib; auto.
  - (* SubRet *)
    destruct (prog s t) as [|i r] eqn:P; [discriminate|]. destruct i; try discriminate.
    + destruct (Nat.eqb k0 k && Bool.eqb ok0 ok && Nat.ltb 0 k) eqn:E; [|discriminate].
      btrue E. apply Nat.eqb_eq in E. apply eqb_prop in E1. apply Nat.ltb_lt in E0. subst.
      inversion H; subst. apply T_SubRet; auto.
    + destruct (Nat.eqb k 0 && (ok || Nat.ltb 0 (bcalls s))) eqn:E; [|discriminate].
      btrue E. apply Nat.eqb_eq in E. subst k. inversion H; subst. apply T_BaseRet; auto.
      apply orb_prop in E0. destruct E0 as [E0|E0]; [left; exact E0|right; apply Nat.ltb_lt; exact E0].
  - (* Acq *)
    destruct (gown s k) eqn:G; [discriminate|]. destruct (prog s t) as [|i r] eqn:P; [discriminate|].
    destruct (Nat.ltb 0 k) eqn:K; [|discriminate]. apply Nat.ltb_lt in K.
    eapply T_Acq; eauto. apply gate_in_gin; exact H.
  - (* ReAcq *)
    destruct (prog s t) as [|i r] eqn:P; [discriminate|].
    destruct (owns s t k && Nat.ltb 0 k) eqn:E; [|discriminate]. btrue E.
    apply owns_true in E. apply Nat.ltb_lt in E0.
    eapply T_ReAcq; eauto. apply gate_in_gin; exact H.
  - (* Rel *)
    destruct (owns s t k && Nat.eqb (gdepth s k) 1) eqn:E; [|discriminate]. btrue E.
    apply owns_true in E. apply Nat.eqb_eq in E0.
    apply gate_out_inv in H. destruct H as [i [r [P [R ->]]]]. eapply T_Rel; eauto.
  - (* ReRel *)
    destruct (owns s t k && Nat.ltb 1 (gdepth s k)) eqn:E; [|discriminate]. btrue E.
    apply owns_true in E. apply Nat.ltb_lt in E0.
    apply gate_out_inv in H. destruct H as [i [r [P [R ->]]]]. eapply T_ReRel; eauto.
  - (* SdCall *)
    destruct (Nat.leb k (length c)) eqn:L; [|discriminate]. apply Nat.leb_le in L.
    destruct (prog s t) as [|i r] eqn:P.
    + simpl in H. inversion H; subst. generalize (T_SdUser c s t k w kw L). rewrite P. simpl. intros X; destruct k; apply X; reflexivity.
    + destruct i; simpl in H; try discriminate;
        try (inversion H; subst; generalize (T_SdUser c s t k w kw L); rewrite P; simpl; intros X; destruct k; apply X; reflexivity).
      destruct (Nat.eqb k0 k && Bool.eqb w w0 && Nat.eqb kw kw0) eqn:E; [|discriminate].
      btrue E. apply Nat.eqb_eq in E. apply eqb_prop in E1. apply Nat.eqb_eq in E0. subst.
      inversion H; subst. generalize (T_SdLib c s t k w0 kw0 r L P). destruct k; simpl; intros X; exact X.
  - (* SdRet *)
    destruct (prog s t) as [|i r] eqn:P; [discriminate|]. destruct i; try discriminate.
    + destruct (Nat.eqb k0 k && Nat.ltb 0 k && (negb join || wdead s k)) eqn:E; [|discriminate].
      btrue E. apply Nat.eqb_eq in E. apply Nat.ltb_lt in E1. subst. inversion H; subst.
      eapply T_SdRet; eauto. apply orb_prop in E0. destruct E0 as [E0|E0]; [left|right; exact E0].
      destruct join; [discriminate|reflexivity].
    + destruct (Nat.eqb k 0) eqn:E; [|discriminate]. apply Nat.eqb_eq in E. subst. inversion H; subst.
      eapply T_BaseSdRet; eauto.
  - (* WExit *)
    match type of H with (if ?b then _ else _) = _ => destruct b eqn:E end; [|discriminate].
    btrue E. inversion H; subst. apply Nat.ltb_lt in E4. apply Nat.leb_le in E3.
    apply negb_true_iff in E1. apply T_WExit; auto.
    + destruct (prog s t); [reflexivity|discriminate].
    + apply orb_prop in E0. destruct E0 as [E0|E0]; [left; exact E0|right]. btrue E0. auto.
Qed.
