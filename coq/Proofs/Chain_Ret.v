(* Chain model: arguments of the down calls, flags at returns, and the order of gate passages
   relative to returns of shutdown() in the ghost history. *)
From Coq Require Import List Arith Bool Lia PeanoNat.
From ME Require Import Base.Machine Model.Chain Proofs.Chain_Base.
Import ListNotations.

(* newest first: when a submit enters layer k / a shutdown wins layer k, no shutdown(k) has returned *)
Fixpoint okh (l : list hev) : Prop :=
  match l with
  | [] => True
  | h :: r => match h with
              | HEnter _ k | HWin _ k _ _ => forall u b, ~ In (HSdRet u k b) r
              | _ => True
              end /\ okh r
  end.

Record DInv (s : st) : Prop := {
  d_args : forall j t w kw, In (ICallSd j w kw) (prog s t) -> In (HWin t (S j) w kw) (hist s);
  d_dargs : forall t k w kw, In (HDown t k w kw) (hist s) -> In (HWin t k w kw) (hist s);
  d_sdret : forall t k jn wn, In (ISdRet k jn wn) (prog s t) -> flag s k = true;
  d_hret : forall t k b, In (HSdRet t k b) (hist s) -> 0 < k -> flag s k = true;
  d_okh : okh (hist s)
}.

Lemma dinv_init : DInv init.
Proof. constructor; simpl; intros; auto; contradiction. Qed.

Lemma dinv_gen s s' t p' hs : DInv s ->
  (forall k, flag s k = true -> flag s' k = true) ->
  (forall u, prog s' u = upd (prog s) t p' u) ->
  hist s' = hs ++ hist s ->
  (forall j w kw, In (ICallSd j w kw) p' -> In (ICallSd j w kw) (prog s t) \/ In (HWin t (S j) w kw) hs) ->
  (forall k jn wn, In (ISdRet k jn wn) p' -> In (ISdRet k jn wn) (prog s t) \/ flag s' k = true) ->
  (forall u k w kw, In (HDown u k w kw) hs -> In (HWin u k w kw) (hist s)) ->
  (forall u k b, In (HSdRet u k b) hs -> 0 < k -> flag s' k = true) ->
  okh (hs ++ hist s) -> DInv s'.
Proof.
  intros [D1 D2 D3 D4 D5] Ff Ep Eh Hc Hr Hd Hs Ho. constructor; rewrite ?Eh.
  - intros j u w kw. rewrite Ep. unfold upd. destruct (Nat.eqb u t) eqn:E.
    + apply Nat.eqb_eq in E; subst u. intros X. apply in_or_app. destruct (Hc _ _ _ X) as [Y|Y]; [right; apply D1; exact Y|left; exact Y].
    + intros X. apply in_or_app. right. apply D1; exact X.
  - intros u k w kw X. apply in_or_app. apply in_app_or in X. destruct X as [X|X]; right; [apply Hd|apply D2]; exact X.
  - intros u k jn wn. rewrite Ep. unfold upd. destruct (Nat.eqb u t) eqn:E.
    + apply Nat.eqb_eq in E; subst u. intros X. destruct (Hr _ _ _ X) as [Y|Y]; [apply Ff; eapply D3; exact Y|exact Y].
    + intros X. apply Ff. eapply D3; exact X.
  - intros u k b X K. apply in_app_or in X. destruct X as [X|X]; [eapply Hs; eauto|apply Ff; eapply D4; eauto].
  - exact Ho.
Qed.

Definition keyi (i : instr) : bool := match i with ICallSd _ _ _ | ISdRet _ _ _ => true | _ => false end.
Lemma in_unwind_key i p : In i (unwind p) -> keyi i = true -> In i p.
Proof.
  destruct p as [|a p]; [simpl; tauto|]. destruct a; try (simpl; tauto).
  destruct p as [|b r]; [simpl; tauto|]. destruct b; try (simpl; tauto).
  simpl. intros [X|[X|X]] K; subst; try discriminate. right; right; exact X.
Qed.
Lemma in_sub_body_key c k i : In i (sub_body c k) -> keyi i = false.
Proof. unfold sub_body. destruct (inline_submit (kindof c k)); simpl; intros X; repeat destruct X as [X|X]; subst; try reflexivity; contradiction. Qed.
Lemma in_start_sub_key k i : In i (start_sub k) -> keyi i = false.
Proof. destruct k; simpl; intros [X|X]; subst; try reflexivity; contradiction. Qed.
Lemma in_start_sd_key k w kw i : In i (start_sd k w kw) -> keyi i = false.
Proof. destruct k; simpl; intros [X|X]; subst; try reflexivity; contradiction. Qed.

Lemma upd_id' {A} (f : nat -> A) t u : upd f t (f t) u = f u.
Proof. unfold upd. destruct (Nat.eqb u t) eqn:E; [apply Nat.eqb_eq in E; subst|]; reflexivity. Qed.

Ltac nohs := intros; simpl in *; repeat match goal with X : _ \/ _ |- _ => destruct X as [X|X] end;
  try discriminate; try contradiction.
Ltac keyapp P :=
  intros; match goal with X : In _ (_ ++ _) |- _ => apply in_app_or in X; destruct X as [X|X];
  [exfalso; first [apply in_start_sub_key in X | apply in_start_sd_key in X | apply in_sub_body_key in X]; discriminate
  |left; first [rewrite P; right; exact X | exact X]] end.
Ltac invk := match goal with
  | X : ISdRet _ _ _ = ISdRet _ _ _ |- _ => inversion X; subst; clear X
  | X : ICallSd _ _ _ = ICallSd _ _ _ |- _ => inversion X; subst; clear X
  | X : HDown _ _ _ _ = HDown _ _ _ _ |- _ => inversion X; subst; clear X
  | X : HSdRet _ _ _ = HSdRet _ _ _ |- _ => inversion X; subst; clear X
  end.
Ltac keytail P := intros; left; rewrite P; right; assumption.

Lemma dinv_gin c s t k r i s' : DInv s -> prog s t = i :: r -> 0 < k -> gin c s t k r i s' -> DInv s'.
Proof.
  intros I P K G. destruct G.
  - apply (dinv_gen s _ t (IRelSub k false :: ISubRet k false :: r) [HRaise t k]); auto; try (intros; reflexivity); try nohs.
    + left. rewrite P. right. assumption.
    + left. rewrite P. right. assumption.
    + split; [exact Logic.I|apply I].
  - apply (dinv_gen s _ t (sub_body c k ++ r) [HEnter t k]); auto; try (intros; reflexivity); try nohs.
    + keyapp P.
    + keyapp P.
    + split; [|apply I]. intros u b X0. apply (d_hret s I) in X0; [congruence|exact K].
  - apply (dinv_gen s _ t (IRelSd k :: ISdRet k false false :: r) [HLose t k]); auto; try (intros; reflexivity); try nohs.
    + left. rewrite P. right. assumption.
    + invk. right. exact H.
    + left. rewrite P. right. assumption.
    + split; [exact Logic.I|apply I].
  - apply (dinv_gen s _ t (sd_body c k w kw ++ r) [HWin t k w kw]); try (intros; reflexivity); try nohs.
    + exact I.
    + unfold upd. destruct (Nat.eqb k0 k); auto.
    + invk. right. left. replace (S (k - 1)) with k by lia. reflexivity.
    + left. rewrite P. right. assumption.
    + invk. right. apply upd_same.
    + left. rewrite P. right. assumption.
    + split; [|apply I]. intros u b X0. apply (d_hret s I) in X0; [congruence|exact K].
Qed.

Lemma dinv_step c s e s' : DInv s -> tr c s e s' -> DInv s'.
Proof.
  intros I T. destruct T.
  - apply (dinv_gen s _ t (start_sub k ++ r) [HSubCall t k false]); auto; try (intros; reflexivity); try (keyapp H0); try nohs.
    split; [exact Logic.I|apply I].
  - apply (dinv_gen s _ t (start_sub k ++ prog s t) [HSubCall t k true]); auto; try (intros; reflexivity); try (keyapp H0); try nohs.
    split; [exact Logic.I|apply I].
  - unfold finish_sub. destruct ok.
    + apply (dinv_gen s _ t r [HSubRet t k true]); auto; try (intros; reflexivity); try (keytail H0); try nohs.
      split; [exact Logic.I|apply I].
    + apply (dinv_gen s _ t (unwind r) [HSubRet t k false]); auto; try (intros; reflexivity); try nohs;
        try (left; rewrite H0; right; eapply in_unwind_key; [eassumption|reflexivity]).
      split; [exact Logic.I|apply I].
  - unfold finish_sub. destruct ok.
    + apply (dinv_gen s _ t r [HSubRet t 0 true]); auto; try (intros; reflexivity); try (keytail H); try nohs.
      all: (split; [exact Logic.I|apply I]).
    + apply (dinv_gen s _ t (unwind r) [HSubRet t 0 false]); auto; try (intros; reflexivity); try nohs;
        try (left; rewrite H; right; eapply in_unwind_key; [eassumption|reflexivity]).
      all: (split; [exact Logic.I|apply I]).
  - refine (dinv_gin c (log (set_gate s k (Some t) 1) (HAcq t k (held_by c s t))) t k r i s' _ H0 H1 H2).
    apply (dinv_gen s _ t (prog s t) [HAcq t k (held_by c s t)]); auto; try (intros; reflexivity); try nohs.
    + simpl. rewrite upd_id'. reflexivity.
    + split; [exact Logic.I|apply I].
  - refine (dinv_gin c (set_gate s k (Some t) (S (gdepth s k))) t k r i s' _ H0 H1 H2).
    apply (dinv_gen s _ t (prog s t) []); auto; try (intros; reflexivity); try nohs.
    + simpl. rewrite upd_id'. reflexivity.
    + apply I.
  - apply (dinv_gen s _ t r []); auto; try (intros; reflexivity); try (keytail H1); try nohs. apply I.
  - apply (dinv_gen s _ t r []); auto; try (intros; reflexivity); try (keytail H1); try nohs. apply I.
  - apply (dinv_gen s _ t (start_sd k w kw ++ r) [HSdCall t k w kw false; HDown t (S k) w kw]); auto;
      try (intros; destruct k; reflexivity); try (intros; destruct k; assumption); try (keyapp H0); try nohs.
    + invk. apply (d_args s I). rewrite H0. left. reflexivity.
    + split; [exact Logic.I|]. split; [exact Logic.I|apply I].
  - apply (dinv_gen s _ t (start_sd k w kw ++ prog s t) [HSdCall t k w kw true]); auto;
      try (intros; destruct k; reflexivity); try (intros; destruct k; assumption); try (keyapp H0); try nohs.
    split; [exact Logic.I|apply I].
  - apply (dinv_gen s _ t r [HSdRet t k won]); auto; try (intros; reflexivity); try (keytail H0); try nohs.
    all: try (invk; eapply (d_sdret s I); rewrite H0; left; reflexivity).
    all: (split; [exact Logic.I|apply I]).
  - apply (dinv_gen s _ t r [HSdRet t 0 true]); auto; try (intros; reflexivity); try (keytail H); try nohs.
    + invk. lia.
    + split; [exact Logic.I|apply I].
  - apply (dinv_gen s _ t (prog s t) [HWExit t k]); auto; try (intros; reflexivity); try nohs.
    all: try (simpl; rewrite upd_id'; reflexivity).
    all: (split; [exact Logic.I|apply I]).
Qed.

Theorem dinv_reachable c s : reachable_from (step c) init s -> DInv s.
Proof. apply invariant_rule; [apply dinv_init|]. intros s0 e s1 I H. eapply dinv_step; [exact I|apply step_tr; exact H]. Qed.
