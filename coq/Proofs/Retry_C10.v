(* IXAcqPop occurs at most once, and only in the worker's program. *)
From Coq Require Import List ZArith Bool Arith Lia.
From RecordUpdate Require Import RecordSet.
From ME Require Import Base.Machine Base.Fut Base.GenPrelude Gen.RetryGen Model.Retry Proofs.Retry_Spec Proofs.Retry_C0 Proofs.Retry_C1.
Import ListNotations RecordSetNotations.

Definition ispop (i : instr) : bool := match i with IXAcqPop _ => true | _ => false end.
Fixpoint cpop (p : list instr) : nat :=
  match p with [] => 0 | i :: r => (if ispop i then 1 else 0) + cpop r end.
Definition wpb (t : nat) (p : list instr) : bool := cpop p <=? (if Nat.eqb t worker then 1 else 0).

Lemma cpop_norm : forall p b, cpop (norm b p) <= cpop p.
Proof.
  induction p as [|i r IH]; intros b.
  - destruct b; simpl; lia.
  - pose proof (IH true); pose proof (IH false). destruct i; simpl; destruct b; simpl; lia.
Qed.
Lemma cpop_app a b : cpop (a ++ b) = cpop a + cpop b.
Proof. induction a as [|i r IH]; simpl; [reflexivity|]. rewrite IH. lia. Qed.
Lemma cpop_cbs j l : cpop (cbs_prog j l) = 0.
Proof. induction l as [|c l IH]; simpl; [reflexivity|]. destruct c; simpl; exact IH. Qed.
Lemma cpop_tl p : cpop (tl p) <= cpop p.
Proof. destruct p; simpl; lia. Qed.
Lemma cpop_in r p : In (IXAcqPop r) p -> 1 <= cpop p.
Proof.
  induction p as [|i q IH]; intros H; [destruct H|]. destruct H as [->|H]; simpl; [lia|].
  apply IH in H. lia.
Qed.

Lemma wpb_le t p q : cpop q <= cpop p -> wpb t p = true -> wpb t q = true.
Proof. unfold wpb. intros H A. apply Nat.leb_le in A. apply Nat.leb_le. lia. Qed.

Lemma WP_step0 s e s' t : step0 s e = Some s' -> wpb t (thr s t) = true -> wpb t (thr s' t) = true.
Proof.
  intros H Hok. s0inv H; try exact Hok.
  all: thr_norm Hok.
  all: try (eapply wpb_le; [|exact Hok]; simpl; try (etransitivity; [apply cpop_norm|]); simpl; lia).
  all: try reflexivity.
  - apply negb_false_iff, eqb_t in Heqb0. subst t0. reflexivity.
  - eapply wpb_le; [|exact Hok]. etransitivity; [apply cpop_norm|]. rewrite cpop_app, cpop_cbs. simpl. lia.
  - eapply wpb_le; [|exact Hok]. simpl. pose proof (cpop_tl l). lia.
  - destruct (dcb s d); reflexivity.
  - destruct (dcb s d); reflexivity.
Qed.

Lemma WP_reach s : reachable_from step init s -> forall t, wpb t (thr s t) = true.
Proof.
  apply (invariant_rule step (fun s => forall t, wpb t (thr s t) = true)).
  - intros t. unfold wpb. simpl. destruct (Nat.eqb t worker); reflexivity.
  - intros s0 e s' IH H t. apply step_split in H. destruct H as (s1 & Ht & H).
    apply tick_eq in Ht. subst s1. eapply WP_step0; [exact H|apply IH].
Qed.

Lemma wpb_worker t p r : wpb t p = true -> In (IXAcqPop r) p -> t = worker.
Proof.
  unfold wpb. intros H Hin. apply cpop_in in Hin. apply Nat.leb_le in H.
  destruct (Nat.eqb t worker) eqn:E; [apply eqb_t; exact E|lia].
Qed.
Lemma wpb_once t p r r' l : wpb t p = true -> p = IXAcqPop r :: l -> ~ In (IXAcqPop r') l.
Proof.
  unfold wpb. intros H -> Hin. apply cpop_in in Hin. apply Nat.leb_le in H. simpl in H.
  destruct (Nat.eqb t worker); lia.
Qed.
