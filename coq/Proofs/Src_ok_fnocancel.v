(* source facts of more_executors/_impl/futures/nocancel.py: what the translator finds now is what the models were written against *)
From Coq Require Import List String.
From ME Require Import Gen.Src_fnocancel Model.SrcExpected.
Lemma src_fnocancel_ok : Src_fnocancel.facts = expected_fnocancel.
Proof. reflexivity. Qed.
