(* C03 for the Retry machine, part 3: a step keeps (or advances) the _delegate_callback chain of a finished
   delegate future whose record is still queued. *)
From Coq Require Import List ZArith Bool Arith Lia.
From RecordUpdate Require Import RecordSet.
From ME Require Import Base.Machine Base.Fut Base.GenPrelude Gen.RetryGen Model.Retry Proofs.Retry_Spec.
From ME Require Import Proofs.Retry_C0 Proofs.Retry_C1 Proofs.Retry_C2 Proofs.Retry_C3 Proofs.Retry_C4 Proofs.Retry_C5 Proofs.Retry_C6
  Proofs.Retry_C7 Proofs.Retry_C8 Proofs.Retry_C9 Proofs.Retry_C10 Proofs.Retry_C11 Proofs.Retry_C12 Proofs.Retry_N0 Proofs.Retry_N1
  Proofs.Retry_N2.
Import ListNotations RecordSetNotations.
#[local] Arguments norm : simpl nomatch.

Lemma chainhd_cnt s d r p : jdel (recs s r) = Some d -> chainhd d r p = true -> 1 <= cnt s d p.
Proof.
  intros Hj. destruct p as [|i p]; [discriminate|].
  destruct i; try discriminate; simpl; intros H.
  - destruct p as [|i p]; [discriminate|]. destruct i; try discriminate. simpl. rewrite H. lia.
  - rewrite H. lia.
  - apply andb_true_iff in H. destruct H as [H _]. rewrite H. lia.
  - apply eqb_t in H. subst. rewrite Hj. simpl. rewrite Nat.eqb_refl. lia.
  - apply eqb_t in H. subst. rewrite Hj. simpl. rewrite Nat.eqb_refl. lia.
  - apply eqb_t in H. subst. rewrite Hj. simpl. rewrite Nat.eqb_refl. lia.
  - destruct p as [|i p]; [discriminate|]. destruct i; try discriminate.
    destruct p as [|i p]; [discriminate|]. destruct i; try discriminate. simpl. rewrite H. lia.
  - rewrite H. lia.
Qed.

Lemma find_del_none s d : find_del s d = None -> forall r, In r (jobs s) -> jdel (recs s r) <> Some d.
Proof.
  unfold find_del. intros H r Hr E. eapply find_none in H; [|exact Hr]. simpl in H. rewrite E in H.
  simpl in H. rewrite Nat.eqb_refl in H. discriminate.
Qed.

Lemma keep3 s e s' j : SI s -> step0 s e = Some s' -> W3 s j -> Wit s' j.
Proof.
  intros HS H (r & d & t0 & Hin & Hjf & Hjd & Hfin & Hch).
  assert (Hr : r < nrec s) by (apply (ri_jobs s (si_ri s HS)); exact Hin).
  pose proof (si_pi s HS) as HP.
  assert (Hd : d < ndel s) by (apply (pi_del s HP r d Hr Hjd)).
  pose proof (chainhd_cnt s d r _ Hjd Hch) as Hc1.
  pose proof (u_le s (si_ui s HS) d) as HU.
  s0inv H.
  all: try (match goal with inl : option outcome |- _ => destruct inl end).
  all: bsplit; subst.
  all: try (rewrite Hfin in *; simpl in *; discriminate).
  all: try (w3; exists r, d, t0; repeat split; assumption).
  all: match goal with Hq : thr _ ?t = _ |- _ => destruct (Nat.eq_dec t0 t) as [->|Nt];
         [rewrite Hq in Hch; simpl in Hch; try discriminate Hch| ] end.
  all: unfold Wit, W3, log, set_prog; simpl.
  all: try solve [w3; exists r, d, t0; rewrite (upd_other _ _ _ _ Nt); repeat split; assumption].
  all: try (match goal with Hq : thr _ ?t = ?i :: _ |- _ => pose proof (head_ipr _ t i _ HP Hq) as Hi; simpl in Hi end).
  - (* 1 IXAppend0 *) w3. exists r, d, t0. rewrite (upd_other _ _ _ _ Nt), upd_lt by exact Hr.
    split; [apply in_app_iff; left; exact Hin|auto].
  - (* 2 *) w3. exists r, d, t0. rewrite (upd_other _ _ _ _ Nt). split; [exact Hin|].
    destruct (Nat.eq_dec r n) as [->|Nn]; [rewrite upd_same; simpl; auto|rewrite (upd_other _ _ _ _ Nn); auto].
  - (* 3 *) w3. exists r, d, t0. rewrite (upd_other _ _ _ _ Nt).
    split; [apply in_remove_id; split; [exact Hin|congruence]|auto].
  - (* 4 _retry by the chain itself *) apply eqb_t in Hch. subst r0.
    w1. exists (nrec s). simpl. rewrite upd_same. simpl. split; [apply in_app_iff; right; left; reflexivity|auto].
  - (* 5 _retry by another thread *)
    assert (r0 <> r).
    { intros ->. specialize (HU t0 t Nt). rewrite Heql in HU. simpl in HU. rewrite Hjd in HU. simpl in HU.
      rewrite Nat.eqb_refl in HU. lia. }
    w3. exists r, d, t0. rewrite (upd_other _ _ _ _ Nt), upd_lt by exact Hr.
    split; [apply in_app_iff; left; apply in_remove_id; split; [exact Hin|congruence]|auto].
  - (* 6 _pop_job by another thread *)
    assert (r0 <> r).
    { intros ->. specialize (HU t0 t Nt). rewrite Heql in HU. simpl in HU. rewrite Hjd, Hfin in HU. simpl in HU.
      rewrite Nat.eqb_refl in HU. simpl in HU. lia. }
    w3. exists r, d, t0. rewrite (upd_other _ _ _ _ Nt).
    split; [apply in_remove_id; split; [exact Hin|congruence]|auto].
  - (* 7 *) destruct Hi as (_ & Ed & _).
    w3. exists r, d, t0. rewrite (upd_other _ _ _ _ Nt).
    split; [apply in_remove_id; split; [exact Hin|congruence]|auto].
  - (* 8 IXRel *) w3. exists r, d, n. rewrite upd_same.
    destruct l as [|[] l]; try discriminate Hch. simpl. auto.
  - (* 9 *) apply eqb_t in Hch. subst r0.
    w4. exists t. simpl. rewrite upd_same. simpl. apply Nat.eqb_refl.
  - (* 10 IRelM *) w3. exists r, d, n. rewrite upd_same.
    destruct l as [|[] l]; try discriminate Hch. simpl. auto.
  - (* 11 *) assert (Nd : d <> d1) by (intros <-; rewrite Hfin in Heqp; discriminate Heqp).
    w3. exists r, d, t0. rewrite (upd_other _ _ _ _ Nt), (upd_other _ _ _ _ Nd). auto.
  - (* 12 *) assert (Nd : d <> d1) by (intros <-; rewrite Hfin in Heqp; discriminate Heqp).
    w3. exists r, d, t0. rewrite (upd_other _ _ _ _ Nt), (upd_other _ _ _ _ Nd). auto.
  - (* 13 *) apply eqb_t in Hch. subst d1. apply find_del_some in Heqo. destruct Heqo as [A B].
    assert (n0 = r) by (apply (si_inj s HS n0 r d); auto; apply (ri_jobs s (si_ri s HS)); exact A). subst n0.
    w3. exists r, d, t. rewrite upd_same. simpl. rewrite !Nat.eqb_refl. auto.
  - (* 14 *) apply eqb_t in Hch. subst d1. exfalso. exact (find_del_none s d Heqo r Hin Hjd).
  - (* 15 *) apply andb_true_iff in Hch. destruct Hch as [A B]. apply eqb_t in A. subst d1.
    rewrite Hfin in Heqb1. discriminate.
  - (* 16 *) apply andb_true_iff in Hch. destruct Hch as [A B]. apply eqb_t in B. subst r0.
    w4. exists t. simpl. rewrite upd_same. simpl. apply Nat.eqb_refl.
  - (* 17 *) apply andb_true_iff in Hch. destruct Hch as [A B]. apply eqb_t in B. subst r0.
    w3. exists r, d, t. rewrite upd_same. simpl. rewrite Nat.eqb_refl. auto.
  - (* 18 *) apply eqb_t in Hch. subst d1.
    w3. exists r, d, t. rewrite upd_same. simpl. rewrite Nat.eqb_refl. auto.
  - (* 19 *) apply eqb_t in Hch. subst d1. rewrite Hfin in Heqb1. discriminate.
  - (* 20 *) apply eqb_t in Hch. subst r0. w4. exists t. simpl. rewrite upd_same. simpl. apply Nat.eqb_refl.
  - (* 21 *) apply eqb_t in Hch. subst r0. w3. exists r, d, t. rewrite upd_same. simpl. rewrite Nat.eqb_refl. auto.
  - (* 22 *) apply eqb_t in Hch. subst r0. w4. exists t. simpl. rewrite upd_same. simpl. apply Nat.eqb_refl.
  - (* 23 *) apply eqb_t in Hch. subst r0. w3. exists r, d, t. rewrite upd_same. simpl. rewrite Nat.eqb_refl. auto.
  - (* 24 *) apply eqb_t in Hch. subst r0. w4. exists t. simpl. rewrite upd_same. simpl. apply Nat.eqb_refl.
  - (* 25 *) w3. exists r, d, t0. rewrite (upd_other _ _ _ _ Nt), !upd_lt by assumption.
    split; [apply in_app_iff; left; exact Hin|auto].
  - (* 26 *) w3. exists r, d, t0. rewrite (upd_other _ _ _ _ Nt), !upd_lt by assumption.
    split; [apply in_app_iff; left; exact Hin|auto].
  - (* 27 *) assert (Nd : d <> d0) by (intros <-; rewrite Hfin in Heqo; discriminate Heqo).
    w3. exists r, d, t0. rewrite (upd_other _ _ _ _ Nd). auto.
  - (* 28 *) assert (Nd : d <> d0) by (intros <-; rewrite Hfin in Heqo0; discriminate Heqo0).
    w3. exists r, d, t0. rewrite (upd_other _ _ _ _ Nt), (upd_other _ _ _ _ Nd). auto.
  - (* 29 EEnvCancel *) assert (Nd : d <> d0) by (intros <-; rewrite Hfin in Heqb0; discriminate Heqb0).
    w3. exists r, d, t0. rewrite (upd_other _ _ _ _ Nt), (upd_other _ _ _ _ Nd). auto.
Qed.
