(* (b) The converse: the two broken shapes lose a wake-up in the IR semantics itself.
   - a loop with the clear between the scan and the wait (scan; clear; wait) - the very trace that witnesses
     EventLoop.reversed_loop_loses_wakeup is accepted by the IR semantics of that loop and ends in the same lost
     state (worker asleep un-notified, one unseen mutation, every producer call returned);
   - a producer that sets before it mutates, and one that mutates without setting, against the correct loop. *)
From Coq Require Import List Bool Arith Lia String.
From ME Require Import Base.Machine Model.EventLoop Model.LoopIR.
Import ListNotations.

Definition o0 : oracle := {| wch := fun _ => 0; pch := fun _ _ => 0 |}.

Definition lost (s : lst) : Prop :=
  lblk s = Some (false, false) /\ lwork s = 1 /\ lflag s = false /\ forall t, pres s t = [].

Lemma reversed_loop_not_good : good_loop CJobs reversed_loop = false.
Proof. reflexivity. Qed.
Lemma plain_loop_good : good_loop CJobs plain_loop = true.
Proof. reflexivity. Qed.
Lemma plain_prod_good : good_prod CJobs plain_prod = true.
Proof. reflexivity. Qed.
Lemma reversed_prod_not_good : good_prod CJobs reversed_prod = false.
Proof. reflexivity. Qed.
Lemma silent_prod_not_good : good_prod CJobs silent_prod = false.
Proof. reflexivity. Qed.

(* the witness trace of EventLoop.reversed_loop_loses_wakeup *)
Definition reversed_witness : list ev := [WorkerScan; ProdMutate 0; ProdSet 0; WorkerClear; WorkerWait].

Theorem reversed_loop_lost :
  exists s, run (istep CJobs reversed_loop [plain_prod] o0) linit reversed_witness = Some s /\ lost s.
Proof.
  eexists. split; [vm_compute; reflexivity|]. repeat split.
  intros [|t]; reflexivity.
Qed.

(* ... and it is the trace of the abstract reversed machine, with the same lost state *)
Theorem reversed_loop_connects :
  exists s s', run (istep CJobs reversed_loop [plain_prod] o0) linit reversed_witness = Some s /\
               run step_reversed init reversed_witness = Some s' /\
               lost s /\ wp s' = WBlocked false /\ work s' = lwork s /\ flag s' = lflag s /\ (forall t, prod s' t = PIdle).
Proof.
  eexists. eexists. split; [vm_compute; reflexivity|]. split; [vm_compute; reflexivity|].
  repeat split.
  - intros [|t]; reflexivity.
  - intros [|t]; reflexivity.
Qed.

(* the correct loop does NOT accept that trace: after the scan its next action is the wait *)
Lemma plain_loop_rejects_reversed_witness :
  run (istep CJobs plain_loop [plain_prod] o0) linit reversed_witness = None.
Proof. vm_compute. reflexivity. Qed.

(* a producer that sets before it mutates: the set is consumed by the worker's clear, the mutation comes after the
   re-scan, the worker sleeps *)
Definition set_first_witness : list ev :=
  [ProdSet 0; WorkerScan; WorkerWait; WorkerClear; WorkerScan; ProdMutate 0; WorkerWait].

Theorem reversed_prod_lost :
  exists s, run (istep CJobs plain_loop [reversed_prod] o0) linit set_first_witness = Some s /\ lost s.
Proof.
  eexists. split; [vm_compute; reflexivity|]. repeat split.
  intros [|t]; reflexivity.
Qed.

(* a producer that does not set at all (the seeded change "drop the set()") *)
Definition no_set_witness : list ev := [WorkerScan; WorkerWait; ProdMutate 0].

Theorem silent_prod_lost :
  exists s, run (istep CJobs plain_loop [silent_prod] o0) linit no_set_witness = Some s /\ lost s.
Proof.
  eexists. split; [vm_compute; reflexivity|]. repeat split.
  intros [|t]; reflexivity.
Qed.

(* with the correct producer the same schedules keep the wake-up: the worker is notified *)
Example plain_pair_keeps_wakeup :
  exists s, run (istep CJobs plain_loop [plain_prod] o0) linit [WorkerScan; WorkerWait; ProdMutate 0; ProdSet 0] = Some s
            /\ lblk s = Some (true, false) /\ lwork s = 1.
Proof. eexists. split; [vm_compute; reflexivity|]. split; reflexivity. Qed.
