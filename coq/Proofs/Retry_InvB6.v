(* Layer D2: a declining/raising policy ends retrying (retry_policy_decline_ends). *)
From Coq Require Import List ZArith Bool Arith Lia PeanoNat.
From RecordUpdate Require Import RecordSet.
From ME Require Import Base.Machine Base.Fut Base.GenPrelude Gen.RetryGen Model.Retry Proofs.Retry_InvB0
  Proofs.Retry_InvB2 Proofs.Retry_InvB3 Proofs.Retry_InvB4 Proofs.Retry_InvB5.
Import ListNotations RecordSetNotations.

Definition Dead (s : st) (j a : nat) : Prop :=
  (forall r, r < nrec s -> jf (recs s r) = j -> jdel (recs s r) = None -> jatt (recs s r) < a) /\
  (forall d, d < ndel s -> dfor s d = j -> datt s d <= a) /\
  (exists d, d < ndel s /\ dfor s d = j /\ datt s d = a /\ ~ pend s d).
Definition DecOK (l : list hev) : Prop :=
  forall l1 j a ans ts l2, l = l1 ++ HPolSR j a ans ts :: l2 -> ans <> 1 ->
  forall j' d a' t' w, In (HDSubmit j' d a' t' w) l1 -> j' <> j.
Definition is_dsub (h : hev) : Prop := match h with HDSubmit _ _ _ _ _ => True | _ => False end.

Lemma DecOK_other h l : ~ is_dsub h -> DecOK l -> DecOK (h :: l).
Proof.
  intros Hn H l1 j a ans ts l2 E Ha j' d a' t' w Hin. destruct l1 as [|x l1]; simpl in E; inversion E; subst.
  - destruct Hin.
  - destruct Hin as [Hx|Hin]; [subst x; simpl in Hn; tauto|]. eapply H; eauto.
Qed.
Lemma DecOK_sub j d a t w l : (forall a0 ans ts, In (HPolSR j a0 ans ts) l -> ans = 1) -> DecOK l ->
  DecOK (HDSubmit j d a t w :: l).
Proof.
  intros Hj H l1 j0 a0 ans ts l2 E Ha j' d' a' t' w' Hin. destruct l1 as [|x l1]; simpl in E; inversion E; subst.
  destruct Hin as [Hin|Hin].
  - inversion Hin; subst. intros ->. apply Ha. apply (Hj a0 ans ts). apply in_or_app. right. left; auto.
  - eapply H; eauto.
Qed.

Record InvD2 (s : st) : Prop := {
  e_dead : forall j a ans ts, In (HPolSR j a ans ts) (hist s) -> ans <> 1 -> Dead s j a;
  e_dec : DecOK (hist s)
}.

Lemma dead_mono s s' j a : Dead s j a -> nrec s <= nrec s' -> ndel s <= ndel s' ->
  (forall r, r < nrec s -> jf (recs s' r) = jf (recs s r) /\ jatt (recs s' r) = jatt (recs s r) /\
                           jdel (recs s' r) = jdel (recs s r)) ->
  (forall d, d < ndel s -> dfor s' d = dfor s d /\ datt s' d = datt s d) ->
  (forall r, nrec s <= r -> r < nrec s' -> jf (recs s' r) = j -> jdel (recs s' r) = None -> jatt (recs s' r) < a) ->
  (forall d, ndel s <= d -> d < ndel s' -> dfor s' d = j -> datt s' d <= a) ->
  (forall d, d < ndel s -> pend s' d -> pend s d) -> Dead s' j a.
Proof.
  intros (Q & D & d0 & E1 & E2 & E3 & E4) Hn Hd Hr Hf Hnr Hnd Hp. split; [|split].
  - intros r H. destruct (Nat.lt_ge_cases r (nrec s)) as [G|G]; [|auto].
    destruct (Hr r G) as (-> & -> & ->). auto.
  - intros d H. destruct (Nat.lt_ge_cases d (ndel s)) as [G|G]; [|auto].
    destruct (Hf d G) as (-> & ->). auto.
  - exists d0. destruct (Hf d0 E1) as (-> & ->). split; [lia|]. split; [auto|]. split; [auto|]. intros P. apply E4. auto.
Qed.

Lemma invD2_gen s s' : InvD2 s ->
  (forall j a ans ts, In (HPolSR j a ans ts) (hist s') -> In (HPolSR j a ans ts) (hist s)) ->
  DecOK (hist s') ->
  nrec s <= nrec s' -> ndel s <= ndel s' ->
  (forall r, r < nrec s -> jf (recs s' r) = jf (recs s r) /\ jatt (recs s' r) = jatt (recs s r) /\
                           jdel (recs s' r) = jdel (recs s r)) ->
  (forall d, d < ndel s -> dfor s' d = dfor s d /\ datt s' d = datt s d) ->
  (forall j a, Dead s j a -> forall r, nrec s <= r -> r < nrec s' -> jf (recs s' r) = j ->
               jdel (recs s' r) = None -> jatt (recs s' r) < a) ->
  (forall j a, Dead s j a -> forall d, ndel s <= d -> d < ndel s' -> dfor s' d = j -> datt s' d <= a) ->
  (forall d, d < ndel s -> pend s' d -> pend s d) -> InvD2 s'.
Proof.
  intros [E1 E2] H2 HD Hn Hd Hr Hf Hnr Hnd Hp. constructor; auto.
  intros j a ans ts H Ha. apply H2 in H. specialize (E1 j a ans ts H Ha).
  eapply dead_mono; eauto.
Qed.

Ltac sv_decok D := simpl; repeat (apply DecOK_other; [simpl; tauto|]); exact D.
Ltac sv_rold := simpl; intros r0 Hr0; unfold upd;
  try (destruct (Nat.eqb r0 _) eqn:E0; [apply Nat.eqb_eq in E0; subst; try lia|]); simpl; repeat split.

Lemma invD2_pol s s' t r l p ans ts :
  InvA s -> InvB s -> InvC s -> InvD2 s ->
  thr s t = IPolSR r :: l ->
  hist s' = HPolSR (jf (recs s r)) (jatt (recs s r)) ans ts :: hist s ->
  nrec s' = nrec s -> ndel s' = ndel s -> dfor s' = dfor s -> datt s' = datt s -> recs s' = recs s ->
  (forall d, started s' d = started s d) ->
  thr s' = upd (thr s) t (norm false p) ->
  (ans <> 1 -> forall d, cbc (recs s) d p <= cbc (recs s) d l) ->
  (forall d, d < ndel s -> pend s' d -> pend s d) -> InvD2 s'.
Proof.
  intros IA IB IC [E1 E2] Et Eh En Ed Ef Ea Er Es Ht Hp Hpm.
  assert (W := a_wf _ IA t). rewrite Et in W. assert (W0 := W _ (or_introl eq_refl)). simpl in W0.
  destruct W0 as [W1 W2]. destruct (jdel (recs s r)) as [d|] eqn:Ej; [clear W2|tauto].
  destruct (a_rec _ IA r d W1 Ej) as (A1 & A2 & A3 & A4).
  assert (Hh : opt_eqb (cbk_of (recs s) (IPolSR r)) d = true) by (simpl; rewrite Ej; apply Nat.eqb_refl).
  destruct (cbc_head_one s t _ l d IB Et Hh) as [Q1 Q2].
  assert (Pd : pend s d) by (split; [auto|right; exists t; auto]).
  constructor.
  - intros j a ans' ts' H Ha. rewrite Eh in H. destruct H as [H|H].
    + inversion H; subst j a ans' ts'. clear H. split; [|split].
      * rewrite En, Er. intros r0 G1 G2 G3. rewrite <- A3. apply (c_l2q _ IC d r0 Pd G1 G3). congruence.
      * rewrite Ed, Ef, Ea. intros d' G1 G2. rewrite <- A3. apply (c_l2d _ IC d d' Pd G1). congruence.
      * exists d. rewrite Ed, Ef, Ea. repeat split; auto. intros (_ & [P|(t' & P)]).
        -- rewrite Es, (b_started _ IB t d Q1) in P. discriminate.
        -- assert (Z := retired_after s s' t p d IA IB).
           rewrite Er in Z, P. specialize (Z (fun _ _ => eq_refl) Ht Q1).
           specialize (Hp Ha d). rewrite Z in P; lia.
    + eapply dead_mono; [apply (E1 j a ans' ts' H Ha)|rewrite ?En, ?Ed, ?Er, ?Ef, ?Ea; auto; try lia..].
  - rewrite Eh. apply DecOK_other; [simpl; tauto|exact E2].
Qed.

Lemma invD2_step0 s e s' : InvA s -> InvB s -> InvC s -> InvD2 s -> step0 s e = Some s' -> InvD2 s'.
Proof.
  intros IA IB IC ID H.
  assert (BF := bfacts_step0 s e s' IA IB H).
  assert (DD := e_dec _ ID).
  unfold step0 in H. destruct e.
  all: step_cases H.
  all: clean.
  all: try exact ID.
  all: try (eapply invD2_gen; [exact ID|sv_h2|sv_decok DD|simpl; lia|simpl; lia|sv_rold|simpl; auto|
       simpl; intros; lia|simpl; intros; lia|apply (pfacts s _ IA IB BF); simpl; lia]).
  - (* IXAppend0 *)
    eapply invD2_gen; [exact ID|sv_h2|sv_decok DD|simpl; lia|simpl; lia|sv_rold|simpl; auto| |simpl; intros; lia|apply (pfacts s _ IA IB BF); simpl; lia].
    simpl. intros j a (_ & _ & d0 & G1 & G2 & _) r0 Hr1 Hr2. assert (r0 = nrec s) by lia. subst r0.
    rewrite upd_same. simpl. intros E. pose proof (a_dfor _ IA d0 G1). lia.
  - (* IXRetry *)
    assert (W := a_wf _ IA t (IXRetry r delta)). rewrite Heql in W. specialize (W (or_introl eq_refl)).
    simpl in W. destruct W as [W1 W2]. destruct (jdel (recs s r)) as [d|] eqn:Ed; [clear W2|tauto].
    destruct (a_rec _ IA r d W1 Ed) as (A1 & A2 & A3 & A4).
    assert (Hh : opt_eqb (cbk_of (recs s) (IXRetry r delta)) d = true) by (simpl; rewrite Ed; apply Nat.eqb_refl).
    destruct (cbc_head_one s t _ l d IB Heql Hh) as [Q1 Q2].
    assert (Pd : pend s d) by (split; [auto|right; exists t; auto]).
    eapply invD2_gen; [exact ID|sv_h2|sv_decok DD|simpl; lia|simpl; lia|sv_rold|simpl; auto| |simpl; intros; lia|apply (pfacts s _ IA IB BF); simpl; lia].
    simpl. intros j a (_ & B & d0 & G1 & G2 & G3 & G4) r0 Hr1 Hr2. assert (r0 = nrec s) by lia. subst r0.
    rewrite upd_same. simpl. intros E _. rewrite <- A2 in E. specialize (B d A1 E).
    destruct (Nat.eq_dec (datt s d) a) as [Eq|Ne]; [|lia].
    exfalso. apply G4. replace d0 with d; auto. apply (c_u1 _ IC); auto; congruence.
  - eapply (invD2_pol s _ t r l _ _ _ IA IB IC ID Heql); try reflexivity; try (intros; reflexivity).
    + apply (pfacts s _ IA IB BF); simpl; lia.
  - eapply (invD2_pol s _ t r l _ _ _ IA IB IC ID Heql); try reflexivity; try (intros; reflexivity).
    + intros Hn. exfalso; apply Hn; reflexivity.
    + apply (pfacts s _ IA IB BF); simpl; lia.
  - eapply (invD2_pol s _ t r l _ _ _ IA IB IC ID Heql); try reflexivity; try (intros; reflexivity).
    + apply (pfacts s _ IA IB BF); simpl; lia.
  - assert (W := a_wf _ IA t (IDSubmit r)). rewrite Heql in W. specialize (W (or_introl eq_refl)).
    simpl in W. destruct W as [W1 W2].
    assert (t = worker) by (eapply wk_worker; [exact IA|exact Heql|reflexivity]). subst t.
    assert (Lr : liveq s r).
    { split; [auto|]. split; [auto|]. right. exists (IDSubmit r). split; [right; right; auto|rewrite Heql; left; auto]. }
    assert (ND : forall a0 ans ts, In (HPolSR (jf (recs s r)) a0 ans ts) (hist s) -> ans = 1).
    { intros a0 ans ts Hin. destruct (Nat.eq_dec ans 1) as [|Ne]; auto. exfalso.
      destruct (e_dead _ ID _ _ _ _ Hin Ne) as (Q & _ & d0 & G1 & G2 & G3 & _).
      pose proof (c_l1d _ IC r d0 Lr G1 G2). specialize (Q r W1 eq_refl W2). lia. }
    eapply invD2_gen; [exact ID|sv_h2| |simpl; lia|simpl; lia|sv_rold| | | |apply (pfacts s _ IA IB BF); simpl; lia].
    + simpl. repeat (apply DecOK_other; [simpl; tauto|]). apply DecOK_sub; auto.
    + simpl. intros d Hd. rewrite !upd_fresh_other by auto. auto.
    + simpl. intros j a _ r0 Hr1 Hr2. assert (r0 = nrec s) by lia. subst r0. rewrite upd_same. simpl. discriminate.
    + simpl. intros j a (Q & _) d Hd1 Hd2. assert (d = ndel s) by lia. subst d. rewrite !upd_same.
      intros E. specialize (Q r W1 E W2). lia.
  - assert (W := a_wf _ IA t (IDSubmit r)). rewrite Heql in W. specialize (W (or_introl eq_refl)).
    simpl in W. destruct W as [W1 W2].
    assert (t = worker) by (eapply wk_worker; [exact IA|exact Heql|reflexivity]). subst t.
    assert (Lr : liveq s r).
    { split; [auto|]. split; [auto|]. right. exists (IDSubmit r). split; [right; right; auto|rewrite Heql; left; auto]. }
    assert (ND : forall a0 ans ts, In (HPolSR (jf (recs s r)) a0 ans ts) (hist s) -> ans = 1).
    { intros a0 ans ts Hin. destruct (Nat.eq_dec ans 1) as [|Ne]; auto. exfalso.
      destruct (e_dead _ ID _ _ _ _ Hin Ne) as (Q & _ & d0 & G1 & G2 & G3 & _).
      pose proof (c_l1d _ IC r d0 Lr G1 G2). specialize (Q r W1 eq_refl W2). lia. }
    eapply invD2_gen; [exact ID|sv_h2| |simpl; lia|simpl; lia|sv_rold| | | |apply (pfacts s _ IA IB BF); simpl; lia].
    + simpl. repeat (apply DecOK_other; [simpl; tauto|]). apply DecOK_sub; auto.
    + simpl. intros d Hd. rewrite !upd_fresh_other by auto. auto.
    + simpl. intros j a _ r0 Hr1 Hr2. assert (r0 = nrec s) by lia. subst r0. rewrite upd_same. simpl. discriminate.
    + simpl. intros j a (Q & _) d Hd1 Hd2. assert (d = ndel s) by lia. subst d. rewrite !upd_same.
      intros E. specialize (Q r W1 E W2). lia.
  - assert (W := a_wf _ IA t (IDSubmit r)). rewrite Heql in W. specialize (W (or_introl eq_refl)).
    simpl in W. destruct W as [W1 W2].
    assert (t = worker) by (eapply wk_worker; [exact IA|exact Heql|reflexivity]). subst t.
    assert (Lr : liveq s r).
    { split; [auto|]. split; [auto|]. right. exists (IDSubmit r). split; [right; right; auto|rewrite Heql; left; auto]. }
    assert (ND : forall a0 ans ts, In (HPolSR (jf (recs s r)) a0 ans ts) (hist s) -> ans = 1).
    { intros a0 ans ts Hin. destruct (Nat.eq_dec ans 1) as [|Ne]; auto. exfalso.
      destruct (e_dead _ ID _ _ _ _ Hin Ne) as (Q & _ & d0 & G1 & G2 & G3 & _).
      pose proof (c_l1d _ IC r d0 Lr G1 G2). specialize (Q r W1 eq_refl W2). lia. }
    eapply invD2_gen; [exact ID|sv_h2| |simpl; lia|simpl; lia|sv_rold| | | |apply (pfacts s _ IA IB BF); simpl; lia].
    + simpl. repeat (apply DecOK_other; [simpl; tauto|]). apply DecOK_sub; auto.
    + simpl. intros d Hd. rewrite !upd_fresh_other by auto. auto.
    + simpl. intros j a _ r0 Hr1 Hr2. assert (r0 = nrec s) by lia. subst r0. rewrite upd_same. simpl. discriminate.
    + simpl. intros j a (Q & _) d Hd1 Hd2. assert (d = ndel s) by lia. subst d. rewrite !upd_same.
      intros E. specialize (Q r W1 E W2). lia.
  - assert (W := a_wf _ IA t (IDSubmit r)). rewrite Heql in W. specialize (W (or_introl eq_refl)).
    simpl in W. destruct W as [W1 W2].
    assert (t = worker) by (eapply wk_worker; [exact IA|exact Heql|reflexivity]). subst t.
    assert (Lr : liveq s r).
    { split; [auto|]. split; [auto|]. right. exists (IDSubmit r). split; [right; right; auto|rewrite Heql; left; auto]. }
    assert (ND : forall a0 ans ts, In (HPolSR (jf (recs s r)) a0 ans ts) (hist s) -> ans = 1).
    { intros a0 ans ts Hin. destruct (Nat.eq_dec ans 1) as [|Ne]; auto. exfalso.
      destruct (e_dead _ ID _ _ _ _ Hin Ne) as (Q & _ & d0 & G1 & G2 & G3 & _).
      pose proof (c_l1d _ IC r d0 Lr G1 G2). specialize (Q r W1 eq_refl W2). lia. }
    eapply invD2_gen; [exact ID|sv_h2| |simpl; lia|simpl; lia|sv_rold| | | |apply (pfacts s _ IA IB BF); simpl; lia].
    + simpl. repeat (apply DecOK_other; [simpl; tauto|]). apply DecOK_sub; auto.
    + simpl. intros d Hd. rewrite !upd_fresh_other by auto. auto.
    + simpl. intros j a _ r0 Hr1 Hr2. assert (r0 = nrec s) by lia. subst r0. rewrite upd_same. simpl. discriminate.
    + simpl. intros j a (Q & _) d Hd1 Hd2. assert (d = ndel s) by lia. subst d. rewrite !upd_same.
      intros E. specialize (Q r W1 E W2). lia.
Qed.

Lemma invD2_init : InvD2 init.
Proof.
  constructor; simpl; [tauto|]. intros l1 j a ans ts l2 E. destruct l1; discriminate.
Qed.
Lemma pend_tick s ts d : pend (s <| clock := ts |>) d -> pend s d.
Proof. intros P; exact P. Qed.
Lemma invD2_tick s ts : InvD2 s -> InvD2 (s <| clock := ts |>).
Proof.
  intros ID. eapply invD2_gen; [exact ID|simpl; auto..]; simpl; try lia; try (intros; lia).
  apply (e_dec _ ID).
Qed.
