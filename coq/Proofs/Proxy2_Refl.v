(* C17 / Proxy2: the proxy as the RIGHT operand.  `x op proxy`: Python calls type(x).__op__(x, proxy) first and the proxy's
   reflected method only when that returns NotImplemented. *)
From Coq Require Import String List Bool Arith ZArith.
From ME Require Import Base.GenPrelude Base.ProxyPrelude Gen.ProxyGen Gen.Proxy2Gen Model.Proxy Model.Proxy2 Proofs.Proxy2_Dispatch.
Import ListNotations.
Local Open Scope string_scope.
Local Open Scope list_scope.

(* ---- in the plain dispatch of Model/Proxy.v ---------------------------------------------------------- *)
Section Plain.
  Variable val : Type.
  Variable meth : val -> string -> option (list val -> res val).
  Variable p v : val.
  (* x's own method does not know the proxy type (absent, or answers NotImplemented), and the proxy's reflected method has the
     body `other <op> self.__result`, which re-runs the WHOLE dispatch of `x op v` *)
  Theorem reflected_form_transparent op rop x :
    (meth x op = None \/ exists f, meth x op = Some f /\ f [p] = RNotImpl) ->
    meth p rop = Some (fun args => binop val meth op rop (hd v args) v) ->
    binop val meth op rop x p = binop val meth op rop x v.
  Proof.
    intros HX HP.
    assert (reflected val meth rop x p = binop val meth op rop x v) as R.
    { unfold reflected. rewrite HP. simpl. destruct (binop val meth op rop x v) eqn:E; try reflexivity.
      exfalso. eapply binop_never_notimpl; eauto. }
    unfold binop at 1. destruct HX as [HN|(f & HF & HR)].
    - rewrite HN. exact R.
    - rewrite HF, HR. exact R.
  Qed.
  (* without a reflected method on the proxy the same expression is a TypeError, whatever `x op v` is *)
  Theorem reflected_not_forwarded op rop x :
    (meth x op = None \/ exists f, meth x op = Some f /\ f [p] = RNotImpl) -> meth p rop = None ->
    binop val meth op rop x p = RExc type_error.
  Proof.
    intros HX HP. unfold binop, reflected. destruct HX as [HN|(f & HF & HR)].
    - rewrite HN, HP. reflexivity.
    - rewrite HF, HR, HP. reflexivity.
  Qed.
  (* if x's own method ACCEPTS the proxy object, the proxy's methods are not consulted at all: the result is whatever x
     makes of the unresolved proxy (so the first hypothesis above is necessary) *)
  Theorem left_operand_accepting_proxy_wins op rop x f r :
    meth x op = Some f -> f [p] = r -> r <> RNotImpl -> binop val meth op rop x p = r.
  Proof. intros HF HR HN. unfold binop. rewrite HF, HR. destruct r; try reflexivity. contradiction. Qed.
End Plain.

(* ---- with the resolution and its log ------------------------------------------------------------------ *)
Section Counted.
  Variable val : Type.
  Variable cmeth : val -> string -> option (list val -> cres val).
  Variable bpost : string -> res val -> res val.
  Variable bfallback : string -> val -> list val -> cres val.
  Variable fs : pstate val.
  Variable tmo : tval.
  Variable is_attr_err : nat -> bool.
  Variable vgetattr : val -> string -> cres val.
  Variable vtrue vfalse vnone : val.
  Variable p : val.
  Notation AR := (after_resolve val fs tmo).
  Notation CBIN := (cbinop val cmeth).
  Notation RUNM := (run_method val cmeth bpost bfallback fs tmo is_attr_err vgetattr vtrue vfalse vnone).
  Hypothesis HS : sane_attr_err is_attr_err.

  (* the evaluator on a reflected body `return other <op> self.__result` *)
  Lemma reflected_body_run selfm rop a o x :
    RUNM selfm (rop, [(a, false)], BBin o (BArg a) BResult) [x] =
      AR (fun v => CBIN (fst (pop_dunder o)) (snd (pop_dunder o)) x v).
  Proof.
    unfold run_method. simpl. rewrite String.eqb_refl.
    unfold bind1 at 1. cbv beta. cbn [fst snd app].
    rewrite (bind1_get_result _ _ _ _ _ _ _ HS). unfold after_resolve. destruct (resolve val fs tmo); reflexivity.
  Qed.

  (* x does not know the proxy type and performs no resolution on the way; the proxy forwards __rop__ in the FBinOp form:
     `x op proxy` is one resolution followed by the whole of `x op v` -- its value or f's exception or the timeout *)
  Theorem reflected_body_resolves_once selfm op rop a o x g :
    pop_dunder o = (op, rop) ->
    (cmeth x op = None \/ exists f, cmeth x op = Some f /\ f [p] = (RNotImpl, [])) ->
    cmeth p rop = Some g -> g [x] = RUNM selfm (rop, [(a, false)], BBin o (BArg a) BResult) [x] ->
    CBIN op rop x p = AR (fun v => CBIN op rop x v).
  Proof.
    intros HO HX HG HB. rewrite reflected_body_run, HO in HB. simpl in HB.
    assert (creflected val cmeth rop x p = AR (fun v => CBIN op rop x v)) as R.
    { unfold creflected. rewrite HG, HB.
      assert (fst (AR (fun v => CBIN op rop x v)) <> RNotImpl) as NN.
      { unfold after_resolve. destruct (resolve val fs tmo) eqn:E; simpl; try discriminate.
        - apply cbinop_never_notimpl.
        - destruct fs; simpl in E; try discriminate. destruct tmo; discriminate. }
      destruct (AR (fun v => CBIN op rop x v)) as [[w| |e] lg]; simpl in *; try reflexivity. contradiction. }
    unfold cbinop at 1. destruct HX as [HN|(f & HF & HR)].
    - rewrite HN. exact R.
    - rewrite HF, HR. simpl. rewrite R. destruct (AR (fun v => CBIN op rop x v)); reflexivity.
  Qed.
End Counted.

(* the table regenerated from the source has NO reflected dunder: `x op proxy` is outside the forwarded operations *)
Lemma table_has_no_reflected : table_reflected = [].
Proof. vm_compute. reflexivity. Qed.
Lemma table_reflected_absent : forallb (fun n => match find_body n with None => true | Some _ => false end) reflected_dunders = true.
Proof. vm_compute. reflexivity. Qed.
