(* C04 for the Timeout machine, part 3: lock ownership, lock order, absence of deadlock. *)
From Coq Require Import List ZArith Bool Arith Lia.
From ME Require Import Base.Machine Base.Fut Base.GenPrelude Gen.TimeoutGen Model.Timeout
                       Proofs.Timeout_Inv Proofs.Timeout_L1 Proofs.Timeout_L2.
Import ListNotations.

(* the lock context a program is balanced for is unique: "the release obligations p carries" *)
Ltac split_if P :=
  repeat match type of P with
         | (if ?b then _ else _) = Some _ => let E := fresh "B" in destruct b eqn:E; [|discriminate P]
         | match ?o with Some _ => _ | None => _ end = Some _ => let E := fresh "O" in destruct o eqn:E; try discriminate P
         end.
Ltac bools :=
  repeat match goal with
         | B : _ && _ = true |- _ => apply andb_true_iff in B; destruct B
         | B : negb _ = true |- _ => apply negb_true_iff in B
         | B : Nat.eqb _ _ = true |- _ => apply Nat.eqb_eq in B
         | B : isnone ?o = true |- _ => destruct o; [discriminate B|clear B]
         | B : match ?o with Some _ => _ | None => _ end = true |- _ => destruct o; [|discriminate B]
         | B : (if ?b then _ else _) = true |- _ => destruct b eqn:?; [|discriminate B]
         end.

Lemma eff_inj c i H H' K : eff c i H = Some K -> eff c i H' = Some K -> H = H'.
Proof.
  destruct H as [g x m], H' as [g' x' m']. intros P Q.
  destruct i; unfold eff, holdsm, nomx, is_emp, emp in P, Q; simpl in P, Q;
    split_if P; split_if Q; unfold nomx, holdsm in *; simpl in *; repeat (bools; simpl in *); subst; simpl in *; try congruence.
  all: repeat match goal with Q : (if ?b then _ else _) = Some _ |- _ => destruct b; [try discriminate Q|try discriminate Q] end; congruence.
Qed.

Lemma chk_unique c p : forall H H', chk c H p = true -> chk c H' p = true -> H = H'.
Proof.
  induction p as [|i r IH]; simpl; intros H H' P Q.
  - destruct H as [[] [] []], H' as [[] [] []]; simpl in *; try discriminate; reflexivity.
  - destruct (eff c i H) as [K|] eqn:E; [|discriminate]. destruct (eff c i H') as [K'|] eqn:E'; [|discriminate].
    assert (K = K') by (apply IH; assumption). subst K'. eapply eff_inj; eauto.
Qed.

Inductive lock := LG | LX | LM (j : nat).
Definition owner (s : st) (L : lock) : option nat :=
  match L with LG => gown s | LX => xown s | LM j => mown s j end.
(* G is taken first; X and the future locks M_j are leaf locks *)
Definition rank (L : lock) : nat := match L with LG => 0 | _ => 1 end.
Definition hlock (H : hs) (L : lock) : Prop :=
  match L with LG => hg H = true | LX => hx H = true | LM j => hm H = Some j end.

(* the lock thread t's next visible operation acquires (the events EAcqG, EAcqM, EXSec, EXAcq of the
   machine are accepted only when that lock is free) *)
Definition next_acq (t : nat) (p : list instr) : option lock :=
  match p with
  | IAcqG :: _ => Some LG
  | IAcqM j :: _ | IAcqMSet j _ :: _ => Some (LM j)
  | ITCancel job :: _ => Some (LM (tj_id job))
  | IXAppend _ :: _ => Some LX
  | [] => if Nat.eqb t jt then Some LX else None     (* top of _job_loop_iter: with _jobs_lock *)
  | _ => None
  end.

Definition waits (s : st) (t u : nat) : Prop :=
  exists L, next_acq t (thr s t) = Some L /\ owner s L = Some u.

Lemma holds_owner s t H : holds s t H -> forall L, owner s L = Some t <-> hlock H L.
Proof. intros [A [B C]] [| |j]; simpl; auto. Qed.

Lemma lock_owner_l s : reachable_from step init s ->
  forall t, exists H, chk (cs s) H (thr s t) = true /\ (forall L, owner s L = Some t <-> hlock H L) /\
                      (forall H', chk (cs s) H' (thr s t) = true -> H' = H).
Proof.
  intros R t. destruct (inv11_reach s R t) as [H [C M]]. exists H. split; [exact C|]. split.
  - apply holds_owner. exact M.
  - intros H' C'. eapply chk_unique; eauto.
Qed.

Lemma acq_ctx c t p H L : chk c H p = true -> next_acq t p = Some L ->
  forall L', hlock H L' -> rank L' < rank L.
Proof.
  intros C N L' HL. destruct H as [g x m]. destruct p as [|i r].
  - simpl in C. unfold is_emp, nomx in C. simpl in C.
    destruct g, x, m; simpl in C; try discriminate C. destruct L'; simpl in HL; discriminate HL.
  - simpl in C. destruct (eff c i (mkH g x m)) as [K|] eqn:E; [|discriminate C]. clear C.
    destruct i; simpl in N; try discriminate N; inversion N; subst; clear N;
      unfold eff, is_emp, nomx in E; simpl in E;
      destruct g, x, m; simpl in E; try discriminate E;
      destruct L'; simpl in HL; try discriminate HL; simpl; lia.
Qed.

Lemma lock_order_l s : reachable_from step init s ->
  forall t L, next_acq t (thr s t) = Some L -> forall L', owner s L' = Some t -> rank L' < rank L.
Proof.
  intros R t L N L' O. destruct (inv11_reach s R t) as [H [C M]].
  eapply acq_ctx; eauto. apply (holds_owner _ _ _ M). exact O.
Qed.

Lemma leaf_owner_runs s : reachable_from step init s ->
  forall u L', owner s L' = Some u -> rank L' = 1 -> forall v, ~ waits s u v.
Proof.
  intros R u L' O K v [L2 [N _]]. pose proof (lock_order_l s R u L2 N L' O) as P.
  destruct L2; simpl in P; lia.
Qed.

Lemma no_deadlock_l s : reachable_from step init s ->
  forall t u, waits s t u ->
  u <> t /\
  ((forall v, ~ waits s u v) \/
   (exists v, waits s u v /\ v <> u /\ v <> t /\ forall w, ~ waits s v w)).
Proof.
  intros R t u [L [N O]].
  assert (Ne : u <> t).
  { intros ->. pose proof (lock_order_l s R t L N L O). lia. }
  split; [exact Ne|].
  destruct (Nat.eq_dec (rank L) 1) as [K|K]; [left; eapply leaf_owner_runs; eauto|].
  destruct (next_acq u (thr s u)) as [L2|] eqn:N2; [|left; intros v [L3 [N3 _]]; congruence].
  destruct (owner s L2) as [v|] eqn:O2; [|left; intros v [L3 [N3 O3]]; congruence].
  right. exists v.
  assert (K2 : rank L2 = 1).
  { pose proof (lock_order_l s R u L2 N2 L O). destruct L2; simpl in *; lia. }
  split; [exists L2; auto|]. split.
  - intros ->. pose proof (lock_order_l s R u L2 N2 L2 O2). lia.
  - split; [|eapply leaf_owner_runs; eauto].
    intros ->. pose proof (lock_order_l s R t L N L2 O2). destruct L; simpl in *; lia.
Qed.

(* threads that sleep on the event hold no lock *)
Lemma wait_holds_nothing_l s : reachable_from step init s ->
  forall t i r, thr s t = i :: r -> is_wait i = true -> forall L, owner s L <> Some t.
Proof.
  intros R t i r E W L O. destruct (inv11_reach s R t) as [H [C M]].
  apply (holds_owner _ _ _ M) in O. rewrite E in C. simpl in C.
  destruct H as [g x m]. destruct i; simpl in W; try discriminate W;
    unfold eff, is_emp, nomx in C; simpl in C; destruct g, x, m; simpl in C; try discriminate C;
    destruct L; simpl in O; discriminate O.
Qed.

(* executable versions for the non-vacuity example *)
Definition lock_eqb_owner (s : st) (L : lock) (u : nat) : bool :=
  match owner s L with Some v => Nat.eqb v u | None => false end.
Definition waitsb (s : st) (t u : nat) : bool :=
  match next_acq t (thr s t) with Some L => lock_eqb_owner s L u | None => false end.
Lemma waitsb_waits s t u : waitsb s t u = true -> waits s t u.
Proof.
  unfold waitsb, lock_eqb_owner. destruct (next_acq t (thr s t)) as [L|] eqn:N; [|discriminate].
  destruct (owner s L) as [v|] eqn:O; [|discriminate]. intros E. apply Nat.eqb_eq in E. subst. exists L. auto.
Qed.
