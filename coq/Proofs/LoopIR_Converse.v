(* General converses (beyond the concrete witnesses of LoopIR_Refute.v):
   - ANY loop one of whose paths has a clear between a scan and the wait that follows it (pre ++ scan; clear; wait ++ post,
     whatever pre and post are) loses a wake-up against the correct producer "mutate; set";
   - ANY producer one of whose paths ends with a mutation that no set follows (pre ++ [mutate], whatever pre is) loses a
     wake-up against the correct loop "scan; wait; clear".
   In both cases: a reachable state with the worker asleep un-notified, one unseen mutation, every call returned.
   Consequently such path sets are rejected by good_wpaths / good_ppaths (derived from the general theorem). *)
From Coq Require Import List Bool Arith Lia.
From ME Require Import Base.Machine Model.EventLoop Model.LoopIR Proofs.LoopIR_Sim.
Import ListNotations.

Lemma run_cons {St Ev} (st : St -> Ev -> option St) s e r :
  run st s (e :: r) = match st s e with Some s' => run st s' r | None => None end.
Proof. reflexivity. Qed.

(* ---- loops ------------------------------------------------------------------------------------------------ *)
Section LoopConverse.
  Variable WP : list (list wact).
  Variable n : nat.
  Definition PP1 : list (list pact) := [[PAMut; PASet]].
  Definition oc : oracle := {| wch := fun _ => n; pch := fun _ _ => 0 |}.

  (* what the worker will do next *)
  Definition wview (s : lst) : list wact := match lrest s with [] => nth n WP [] | r => r end.

  (* a schedule that takes the worker through a path prefix: before every wait the helper thread 0 makes a complete
     mutate-and-set call, so the wait does not block *)
  Fixpoint drive (q : list wact) : list ev :=
    match q with
    | [] => []
    | WAScan :: r => WorkerScan :: drive r
    | WAWait _ :: r => ProdMutate 0 :: ProdSet 0 :: WorkerWait :: drive r
    | WAClear :: r => WorkerClear :: drive r
    end.

  Lemma wfetch_view s x r : wview s = x :: r -> exists k, wfetch WP oc s = Some (x, r, k).
  Proof.
    unfold wview, wfetch. simpl. destruct (lrest s) as [|y q].
    - intros H. rewrite H. eexists. reflexivity.
    - intros H. inversion H; subst. eexists. reflexivity.
  Qed.

  Lemma wview_rest s r : lrest s = r -> r <> [] -> wview s = r.
  Proof. unfold wview. intros -> H. destruct r; [congruence|reflexivity]. Qed.

  Lemma pfetch_idle s : pres s 0 = [] -> pfetch PP1 oc s 0 = Some (PAMut, [PASet], S (pcall s 0)).
  Proof. unfold pfetch. intros ->. reflexivity. Qed.

  Lemma upd2_nil (f : nat -> list pact) x : (forall t, f t = []) -> forall t, upd (upd f 0 x) 0 [] t = [].
  Proof. intros H t. unfold upd. destruct (Nat.eqb t 0); [reflexivity|apply H]. Qed.

  (* one complete call of the helper thread: flag set, one more mutation, all threads idle again *)
  Lemma helper_call s : lblk s = None -> (forall t, pres s t = []) ->
    exists s', run (lstep WP PP1 oc) s [ProdMutate 0; ProdSet 0] = Some s' /\
      lrest s' = lrest s /\ liter s' = liter s /\ lblk s' = None /\ lflag s' = true /\ lwork s' = S (lwork s) /\
      (forall t, pres s' t = []).
  Proof.
    intros B P. simpl. rewrite (pfetch_idle s (P 0)). simpl.
    unfold pfetch. simpl. rewrite upd_same. simpl. rewrite B.
    eexists. split; [reflexivity|]. simpl. repeat split; auto. apply upd2_nil. exact P.
  Qed.

  Lemma drive_ok q : forall s rest, rest <> [] -> wview s = q ++ rest -> lblk s = None -> (forall t, pres s t = []) ->
    exists s', run (lstep WP PP1 oc) s (drive q) = Some s' /\ wview s' = rest /\ lblk s' = None /\ (forall t, pres s' t = []).
  Proof.
    induction q as [|x q IH]; intros s rest NE V B P.
    - exists s. simpl. auto.
    - assert (NE' : q ++ rest <> []) by (destruct q; simpl; [exact NE|discriminate]).
      destruct x as [|tm|].
      + (* scan *)
        destruct (wfetch_view s _ _ V) as [k F]. simpl. rewrite B, F.
        apply IH; simpl; auto. apply wview_rest; [reflexivity|exact NE'].
      + (* wait: helper call first *)
        destruct (helper_call s B P) as [s1 [R1 [L1 [I1 [B1 [F1 [W1 P1]]]]]]].
        change (drive (WAWait tm :: q)) with ([ProdMutate 0; ProdSet 0] ++ WorkerWait :: drive q).
        rewrite run_app, R1.
        assert (V1 : wview s1 = WAWait tm :: q ++ rest).
        { unfold wview in *. rewrite L1. exact V. }
        destruct (wfetch_view s1 _ _ V1) as [k F]. simpl. rewrite B1, F, F1.
        apply IH; simpl; auto. apply wview_rest; [reflexivity|exact NE'].
      + (* clear *)
        destruct (wfetch_view s _ _ V) as [k F]. simpl. rewrite B, F.
        apply IH; simpl; auto. apply wview_rest; [reflexivity|exact NE'].
  Qed.

  Theorem clear_between_scan_and_wait_loses pre tm post :
    nth n WP [] = pre ++ WAScan :: WAClear :: WAWait tm :: post ->
    exists tr s, run (lstep WP PP1 oc) linit tr = Some s /\
      lblk s = Some (false, tm) /\ lwork s = 1 /\ lflag s = false /\ (forall t, pres s t = []).
  Proof.
    intros H.
    destruct (drive_ok pre linit (WAScan :: WAClear :: WAWait tm :: post)) as [s1 [R1 [V1 [B1 P1]]]];
      [discriminate|unfold wview; simpl; exact H|reflexivity|reflexivity|].
    exists (drive pre ++ [WorkerScan] ++ [ProdMutate 0; ProdSet 0] ++ [WorkerClear; WorkerWait]).
    rewrite run_app, R1.
    destruct (wfetch_view s1 _ _ V1) as [k F].
    assert (S2 : run (lstep WP PP1 oc) s1 [WorkerScan]
                 = Some (wset s1 0 (lflag s1) (WAClear :: WAWait tm :: post) k None)).
    { simpl. rewrite B1, F. reflexivity. }
    rewrite run_app, S2.
    destruct (helper_call (wset s1 0 (lflag s1) (WAClear :: WAWait tm :: post) k None) eq_refl P1)
      as [s3 [R3 [L3 [I3 [B3 [F3 [W3 P3]]]]]]].
    rewrite run_app, R3. simpl in L3, W3.
    simpl. unfold wfetch. rewrite B3, L3. simpl.
    eexists. split; [reflexivity|]. simpl. repeat split; auto.
  Qed.

  Corollary clear_between_scan_and_wait_not_good pre tm post :
    nth n WP [] = pre ++ WAScan :: WAClear :: WAWait tm :: post -> good_wpaths WP = false.
  Proof.
    intros H. destruct (good_wpaths WP) eqn:G; [|reflexivity].
    destruct (clear_between_scan_and_wait_loses pre tm post H) as [tr [s [Hr [B [W [F P]]]]]].
    assert (Z : lwork s = 0).
    { apply (l_quiescent_no_unseen_work WP PP1 oc G eq_refl s tm); [exists tr; exact Hr|exact B|exact P]. }
    lia.
  Qed.
End LoopConverse.

(* ---- producers -------------------------------------------------------------------------------------------- *)
Section ProdConverse.
  Variable PP : list (list pact).
  Variable m : nat.
  Definition WP1 : list (list wact) := [[WAScan; WAWait false; WAClear]].
  Definition op : oracle := {| wch := fun _ => 0; pch := fun _ _ => m |}.

  Definition pview (s : lst) : list pact := match pres s 0 with [] => nth m PP [] | r => r end.
  Definition pev (x : pact) : ev := match x with PAMut => ProdMutate 0 | PASet => ProdSet 0 end.
  Definition has_set (q : list pact) : bool := existsb (fun x => match x with PASet => true | PAMut => false end) q.

  Lemma pfetch_view s x r : pview s = x :: r -> exists k, pfetch PP op s 0 = Some (x, r, k).
  Proof.
    unfold pview, pfetch. simpl. destruct (pres s 0) as [|y q].
    - intros H. rewrite H. eexists. reflexivity.
    - intros H. inversion H; subst. eexists. reflexivity.
  Qed.

  (* thread 0 runs a prefix of a call it has begun while the worker has not started *)
  Lemma prefix_ok q : forall s rest, rest <> [] -> pres s 0 = q ++ rest ->
    lrest s = [] -> liter s = 0 -> lblk s = None -> (forall t, t <> 0 -> pres s t = []) ->
    exists s', run (lstep WP1 PP op) s (map pev q) = Some s' /\ pres s' 0 = rest /\
      lrest s' = [] /\ liter s' = 0 /\ lblk s' = None /\ lflag s' = (lflag s || has_set q) /\ (forall t, t <> 0 -> pres s' t = []).
  Proof.
    induction q as [|x q IH]; intros s rest NE V L I B P.
    - exists s. simpl. rewrite orb_false_r. repeat split; auto.
    - assert (NE' : q ++ rest <> []) by (destruct q; simpl; [exact NE|discriminate]).
      assert (F : pfetch PP op s 0 = Some (x, q ++ rest, pcall s 0)).
      { unfold pfetch. rewrite V. reflexivity. }
      destruct x; simpl; rewrite F.
      + set (s2 := pset s (S (lwork s)) (lflag s) (lblk s) 0 (q ++ rest) (pcall s 0)).
        destruct (IH s2 rest NE) as [s' [R' [P' [L' [I' [B' [F' O']]]]]]].
        * apply upd_same.
        * exact L.
        * exact I.
        * exact B.
        * intros t Ht. unfold s2. simpl. rewrite upd_other; auto.
        * exists s'. repeat split; auto.
      + rewrite B.
        set (s2 := pset s (lwork s) true None 0 (q ++ rest) (pcall s 0)).
        destruct (IH s2 rest NE) as [s' [R' [P' [L' [I' [B' [F' O']]]]]]].
        * apply upd_same.
        * exact L.
        * exact I.
        * reflexivity.
        * intros t Ht. unfold s2. simpl. rewrite upd_other; auto.
        * exists s'. repeat split; auto. rewrite F'. simpl. rewrite orb_true_r. reflexivity.
  Qed.

  (* the worker's part: scan and go to sleep (one round through wait / clear first when the flag is set) *)
  Definition worker_sleeps (f : bool) : list ev :=
    if f then [WorkerScan; WorkerWait; WorkerClear; WorkerScan; WorkerWait] else [WorkerScan; WorkerWait].

  Lemma worker_sleeps_ok s : lrest s = [] -> liter s = 0 -> lblk s = None ->
    exists s', run (lstep WP1 PP op) s (worker_sleeps (lflag s)) = Some s' /\
      lblk s' = Some (false, false) /\ lwork s' = 0 /\ lflag s' = false /\ (pres s' = pres s) /\ (pcall s' = pcall s).
  Proof.
    intros L I B.
    assert (E1 : lstep WP1 PP op s WorkerScan = Some (wset s 0 (lflag s) [WAWait false; WAClear] 1 None)).
    { simpl. unfold wfetch. rewrite B, L, I. reflexivity. }
    unfold worker_sleeps. destruct (lflag s) eqn:Fl.
    - rewrite run_cons, E1. simpl. eexists. split; [reflexivity|]. simpl. repeat split.
    - rewrite run_cons, E1. simpl. eexists. split; [reflexivity|]. simpl. repeat split.
  Qed.

  Theorem trailing_mutation_loses pre : nth m PP [] = pre ++ [PAMut] ->
    exists tr s, run (lstep WP1 PP op) linit tr = Some s /\
      lblk s = Some (false, false) /\ lwork s = 1 /\ lflag s = false /\ (forall t, pres s t = []).
  Proof.
    intros H.
    (* the state after thread 0 ran `pre` *)
    assert (A : exists tr s1, run (lstep WP1 PP op) linit tr = Some s1 /\ pview s1 = [PAMut] /\
                  lrest s1 = [] /\ liter s1 = 0 /\ lblk s1 = None /\ (forall t, t <> 0 -> pres s1 t = [])).
    { destruct pre as [|x q].
      - exists [], linit. simpl. repeat split; auto; try (unfold pview; simpl; exact H).
      - assert (F : pfetch PP op linit 0 = Some (x, q ++ [PAMut], 1)).
        { unfold pfetch. simpl. rewrite H. reflexivity. }
        set (s0 := match x with
                   | PAMut => pset linit 1 false None 0 (q ++ [PAMut]) 1
                   | PASet => pset linit 0 true None 0 (q ++ [PAMut]) 1 end).
        assert (E0 : lstep WP1 PP op linit (pev x) = Some s0).
        { destruct x; simpl; rewrite F; reflexivity. }
        assert (N0 : [PAMut] <> []) by discriminate.
        assert (V0 : pres s0 0 = q ++ [PAMut]) by (destruct x; simpl; apply upd_same).
        assert (L0 : lrest s0 = []) by (destruct x; reflexivity).
        assert (I0 : liter s0 = 0) by (destruct x; reflexivity).
        assert (B0 : lblk s0 = None) by (destruct x; reflexivity).
        assert (O0 : forall t, t <> 0 -> pres s0 t = []).
        { intros t Ht. destruct x; simpl; rewrite upd_other; auto. }
        destruct (prefix_ok q s0 [PAMut] N0 V0 L0 I0 B0 O0) as [s' [R' [P' [L' [I' [B' [F' O']]]]]]].
        exists (pev x :: map pev q), s'. rewrite run_cons, E0. split; [exact R'|].
        unfold pview. rewrite P'. repeat split; auto. }
    destruct A as [tr [s1 [R1 [V1 [L1 [I1 [B1 O1]]]]]]].
    destruct (worker_sleeps_ok s1 L1 I1 B1) as [s2 [R2 [B2 [W2 [F2 [P2 C2]]]]]].
    exists (tr ++ worker_sleeps (lflag s1) ++ [ProdMutate 0]).
    rewrite run_app, R1, run_app, R2.
    assert (F : pfetch PP op s2 0 = Some (PAMut, [], match pres s1 0 with [] => S (pcall s1 0) | _ => pcall s1 0 end)).
    { unfold pfetch. rewrite P2, C2. unfold pview in V1. simpl. destruct (pres s1 0) as [|y r] eqn:E.
      - rewrite V1. reflexivity.
      - inversion V1; subst. reflexivity. }
    simpl. rewrite F. eexists. split; [reflexivity|]. simpl. rewrite B2, W2, F2. repeat split.
    intros t. unfold upd. destruct (Nat.eqb t 0) eqn:E; [reflexivity|].
    rewrite P2. apply O1. apply Nat.eqb_neq. exact E.
  Qed.

  Corollary trailing_mutation_not_good pre : nth m PP [] = pre ++ [PAMut] -> good_ppaths PP = false.
  Proof.
    intros H. destruct (good_ppaths PP) eqn:G; [|reflexivity].
    destruct (trailing_mutation_loses pre H) as [tr [s [Hr [B [W [F P]]]]]].
    assert (Z : lwork s = 0).
    { apply (l_quiescent_no_unseen_work WP1 PP op eq_refl G s false); [exists tr; exact Hr|exact B|exact P]. }
    lia.
  Qed.
End ProdConverse.
