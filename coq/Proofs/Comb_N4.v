(* N4: (f_zip) while undecided, every position whose slot is still empty has its handle_done
   registration somewhere (constructor, callback list of the input, or a running callback), and
   count_remaining is still positive. *)
From Coq Require Import List Arith Bool Lia PeanoNat ZArith.
From ME Require Import Base.Machine Base.Fut Base.GenPrelude Gen.BoolGen Gen.ZipGen Model.Comb Proofs.Comb_Spec.
From ME Require Import Proofs.Comb_I0 Proofs.Comb_I1 Proofs.Comb_I2 Proofs.Comb_I4 Proofs.Comb_I5 Proofs.Comb_I8
  Proofs.Comb_I9a Proofs.Comb_I9b Proofs.Comb_I9c Proofs.Comb_I10a Proofs.Comb_N1 Proofs.Comb_N3.
Import ListNotations.

Definition ztok (s : st) (i : nat) : Prop :=
  (exists t, In (IAddCbIn i) (thr s t)) \/ (exists t d, In (IAcqL i d) (thr s t)) \/
  (exists t d, In (ICancelledQ i d) (thr s t)) \/ (exists d, In i (ecbs s d)).

Definition ZL (s : st) : Prop :=
  built s = true -> ck s = KZip -> cdone s = false ->
  (forall i, i < length (inputs s) -> slots s i = None -> ztok s i) /\
  ((1 <= remaining s)%Z \/ inputs s = []).

Lemma keep_evalq i x : keepable (ICancelledQ i x). Proof. split; intros; discriminate. Qed.

Lemma slot_keep s e s' i : I4 s -> ZI s -> step s e = Some s' -> slots s i <> None -> slots s' i <> None.
Proof.
  intros J Z H Hs. destruct (store_step _ _ _ H) as [E|(j & d & r & Ht & _ & _ & _ & _ & Es & _)].
  - rewrite E. exact Hs.
  - rewrite Es. destruct (Nat.eq_dec i j) as [->|Hij]; [|rewrite upd_other; auto].
    exfalso. destruct (zi_sl _ Z j Hs) as [T0 _]. specialize (T0 (actor e)). rewrite Ht, tokc_cons in T0.
    simpl istok in T0. rewrite Nat.eqb_refl in T0. lia.
Qed.

Lemma step_ecbs_tok s e s' i d : I1 s -> step s e = Some s' -> In i (ecbs s d) ->
  In i (ecbs s' d) \/ In (IAcqL i d) (thr s' (actor e)).
Proof.
  intros I H Hin.
  assert (F : forall r, Forall nothrow r -> In (IAcqL i d) (norm false (in_fires s d r))).
  { intros r Hr. apply norm_in; [apply nothrow_in_fires; auto|discriminate|].
    unfold in_fires. apply in_or_app. left. apply in_flat_map. exists i. split; auto. left. reflexivity. }
  destruct e; simpl actor; pose proof (I t) as It; step_inv H; simpl; auto;
  try match goal with Hq : thr _ _ = _ |- _ => rewrite Hq in It end; fa_hyps;
  clean; unfold upd at 1; destruct (Nat.eqb d _) eqn:E; auto; clean.
  all: try (left; apply in_or_app; left; assumption).
  all: right; rewrite upd_same; apply F; auto.
Qed.

Lemma ztok_step s e s' i : I1 s -> I2 s -> step s e = Some s' -> ck s = KZip -> cdone s' = false ->
  slots s' i = None -> ztok s i -> ztok s' i.
Proof.
  intros I K H Hk Hc' Hs' Z.
  assert (Hc : cdone s = false).
  { destruct (cdone s) eqn:E; auto. rewrite (step_cdone _ _ _ K H E) in Hc'. discriminate. }
  destruct Z as [(u & Hu)|[(u & d & Hu)|[(u & d & Hu)|(d & Hd)]]].
  - destruct (step_pending _ _ _ u _ I H (keep_addin i) Hu) as [Hk'|[-> [r Hr]]].
    { left. exists u. auto. }
    destruct e; simpl in Hr; step_inv H; try congruence; clean; inversion Hr; subst; unfold ztok; simpl.
    + right. left. exists t, (input_at s i). rewrite upd_same. left. reflexivity.
    + right. right. right. exists (input_at s i). rewrite upd_same. apply in_or_app. right. left. reflexivity.
  - destruct (step_pending _ _ _ u _ I H (keep_acq i d) Hu) as [Hk'|[-> [r Hr]]].
    { right. left. exists u, d. auto. }
    destruct e; simpl in Hr; step_inv H; try congruence; clean; inversion Hr; subst; unfold ztok; simpl in *; try congruence.
    right. right. left. exists t, d. rewrite upd_same. left. reflexivity.
  - destruct (step_pending _ _ _ u _ I H (keep_evalq i d) Hu) as [Hk'|[-> [r Hr]]].
    { right. right. left. exists u, d. auto. }
    exfalso. destruct e; simpl in Hr; step_inv H; try congruence; clean; inversion Hr; subst; simpl in *; try congruence.
    all: unfold upd in Hs'; rewrite Nat.eqb_refl in Hs'; unfold oc_of in *; destruct (eout s d) as [[|]|]; simpl in *; discriminate.
  - destruct (step_ecbs_tok _ _ _ i d I H Hd) as [A|A].
    + right. right. right. exists d. exact A.
    + right. left. exists (actor e), d. exact A.
Qed.

Lemma ZL_step s e s' : I1 s -> I2 s -> I4 s -> ZI s -> LO s -> ZL s -> step s e = Some s' -> ZL s'.
Proof.
  intros I K J Zi L B H Hb' Hk' Hc'.
  destruct (built s) eqn:Hb.
  2:{ destruct (i4_unb _ J Hb) as (Ht & _).
      destruct e; pose proof (Ht t) as Htt; step_inv H; simpl in *; try congruence. clean.
      split.
      - intros i Hi _. unfold ztok; simpl. left. exists t. rewrite upd_same.
        right. apply in_or_app. left. apply in_flat_map. exists i. split; [apply in_seq; lia|right; left; reflexivity].
      - destruct ins; [right; reflexivity|left; simpl length; lia]. }
  destruct (step_built _ _ _ H Hb) as (_ & Hi & Hk). rewrite Hk in Hk'. rewrite Hi.
  assert (Hc : cdone s = false).
  { destruct (cdone s) eqn:E; auto. rewrite (step_cdone _ _ _ K H E) in Hc'. discriminate. }
  destruct (B Hb Hk' Hc) as [B1 B2]. split.
  - intros i Hl Hs'. eapply ztok_step; eauto. apply B1; auto.
    destruct (slots s i) eqn:E; auto. exfalso. apply (slot_keep _ _ _ i J Zi H); congruence.
  - destruct B2 as [B2|B2]; [|right; exact B2]. left.
    destruct e; step_inv H; simpl in *; auto; try congruence.
    { rewrite Hb in Heqb. discriminate. }
    apply Z.eqb_neq in Heqb4. lia.
Qed.

Lemma ZL_reach s : reachable s -> ZL s.
Proof.
  apply invariant_rule_r; [intros H; discriminate|]. intros s0 e s' R D H.
  eapply ZL_step; eauto using I1_reach, I2_reach, I4_reach, LO_reach, ZI_reach.
Qed.

(* f_zip: when nothing is running and every input is done, the decision has been taken *)
Lemma zip_all_done_decided s : reachable s -> quiescent s -> built s = true -> ck s = KZip -> inputs s <> [] ->
  (forall x, In x (inputs s) -> fdone (es s x) = true) -> cdone s = true.
Proof.
  intros R Q Hb Hk Hne Hall. destruct (cdone s) eqn:Hc; auto. exfalso.
  destruct (ZL_reach s R Hb Hk Hc) as [B1 [B2|B2]]; [|contradiction].
  assert (F : full (slots s) (length (inputs s))).
  { intros i Hi Hs. destruct (B1 i Hi Hs) as [(u & Hu)|[(u & d & Hu)|[(u & d & Hu)|(d & Hd)]]];
      try (rewrite Q in Hu; contradiction).
    destruct (i4_ecbs _ (I4_reach s R) d i Hd) as [Ex Hl].
    assert (Hin : In d (inputs s)) by (rewrite Ex; apply nth_In; exact Hl).
    rewrite (EC_reach s R d (Hall d Hin)) in Hd. contradiction. }
  pose proof (zv_rem _ (ZV_reach s R) Hb Hk Hc) as Er.
  assert (C0 : cntN (slots s) (length (inputs s)) = 0).
  { clear - F. induction (length (inputs s)) as [|n IH]; [reflexivity|].
    rewrite cntN_S, IH by (intros i Hi; apply F; lia).
    specialize (F n ltac:(lia)). destruct (slots s n); [reflexivity|congruence]. }
  rewrite C0 in Er. simpl in Er. lia.
Qed.
