(* Layer 4: done-callback tokens: registration, existence, uniqueness. *)
From Coq Require Import ZArith List Bool Arith Lia.
From RecordUpdate Require Import RecordSet.
From ME Require Import Base.Machine Base.Fut Base.GenPrelude Model.MapFut Proofs.MapFut_D0 Proofs.MapFut_D1 Proofs.MapFut_D2 Proofs.MapFut_D3.
Import ListNotations RecordSetNotations.

Definition cbtrans (s s0 : st) (t : nat) : Prop :=
  (forall t', t' <> t -> thr s0 t' = thr s t') /\ cbeff s s0 t /\
  (forall j, j < nfut s -> fdone (ms s j) = true -> fdone (ms s0 j) = true) /\
  (forall j rest, thr s t = IRelMCbs j :: rest -> fdone (ms s j) = true).

Definition ind (j c j' c' : nat) : nat := if Nat.eqb j' j && Nat.eqb c' c then 1 else 0.
Lemma ind_pos j c j' c' : ind j c j' c' > 0 -> j' = j /\ c' = c.
Proof.
  unfold ind. destruct (Nat.eqb j' j) eqn:E1, (Nat.eqb c' c) eqn:E2; simpl; try lia.
  apply Nat.eqb_eq in E1, E2. auto.
Qed.
Lemma ind_same j c : ind j c j c = 1.
Proof. unfold ind. rewrite !Nat.eqb_refl. reflexivity. Qed.

Lemma cntA_cbs j' c' j l : cnt (wA j' c') (cbs_of j l) = 0.
Proof. apply cnt_zero. intros x Hx. apply in_map_iff in Hx. destruct Hx as (c & <- & _). reflexivity. Qed.
Lemma cntU_cbs j' c' j l : cnt (wU j' c') (cbs_of j l) = if Nat.eqb j' j then cnt (Nat.eqb c') l else 0.
Proof.
  induction l as [|c l IH]; simpl; [destruct (Nat.eqb j' j); reflexivity|].
  rewrite cnt_cons, IH. simpl. destruct (Nat.eqb j' j); simpl; [rewrite cnt_cons|]; reflexivity.
Qed.
Lemma cnt_eqb_pos c l : cnt (Nat.eqb c) l > 0 <-> In c l.
Proof.
  split.
  - intros H. apply cnt_pos_in in H. destruct H as (x & X1 & X2). apply Nat.eqb_eq in X2. subst. exact X1.
  - intros H. eapply in_cnt_pos; [exact H|apply Nat.eqb_refl].
Qed.

Inductive cbloc := LT (t : nat) | LM | LH | LN.
Definition isLT (l : cbloc) (t : nat) : nat := match l with LT t' => if Nat.eqb t t' then 1 else 0 | _ => 0 end.
Definition isLM (l : cbloc) : nat := match l with LM => 1 | _ => 0 end.
Definition isLH (l : cbloc) : nat := match l with LH => 1 | _ => 0 end.

Record Cr (s : st) : Prop := {
  cb_bnd : forall j c, In c (mreg s j) -> j < nfut s;
  cb_A : forall t j c, cnt (wA j c) (thr s t) > 0 -> In c (mreg s j);
  cb_U : forall t j c, cnt (wU j c) (thr s t) > 0 -> In c (mreg s j) /\ fdone (ms s j) = true;
  cb_M : forall j c, In c (mcbs s j) -> In c (mreg s j);
  cb_H : forall j c, cnt (wH j c) (hist s) > 0 -> In c (mreg s j)
}.
Definition Cex (s : st) : Prop := forall j c, In c (mreg s j) ->
  (exists t, cnt (wA j c) (thr s t) > 0) \/ In c (mcbs s j) \/ (exists t, cnt (wU j c) (thr s t) > 0) \/ cnt (wH j c) (hist s) > 0.
Definition Cloc (s : st) : Prop := exists loc : nat -> nat -> cbloc, forall j c,
  (forall t, cnt (wA j c) (thr s t) + cnt (wU j c) (thr s t) <= isLT (loc j c) t) /\
  cnt (Nat.eqb c) (mcbs s j) <= isLM (loc j c) /\ cnt (wH j c) (hist s) <= isLH (loc j c).

Lemma cnt_nil {A} (f : A -> bool) : cnt f [] = 0.
Proof. reflexivity. Qed.
Ltac cnt_norm := rewrite ?cnt_app, ?cntA_cbs, ?cntU_cbs, ?cnt_cons, ?cnt_nil; simpl.

Lemma cr_trans s s0 t : Cr s -> cbtrans s s0 t -> Cr s0.
Proof.
  intros [I0 I1 I2 I3 I4] (Ho & E & ST & FL).
  assert (DS : forall j c, In c (mreg s j) -> fdone (ms s j) = true -> fdone (ms s0 j) = true).
  { intros j c X. apply ST. eapply I0; eauto. }
  destruct E as [EA EU EH [(Em & Er & En)|(Em & Er & En)] | j c Et E0 Er Nc Lj Em Eh Ems En
                | j c rest Et E0 D Em Er Eh Ems En | j c rest Et E0 D Em Er Eh Ems En
                | j rest Et E0 Em Er Eh Ems En | j c b rest Et E0 Eh Em Er Ems En].
  - (* neutral *) constructor; rewrite ?Em, ?Er, ?En; auto.
    + intros t' j c. destruct (Nat.eq_dec t' t) as [->|N]; [rewrite EA|rewrite Ho by exact N]; apply I1.
    + intros t' j c X. assert (Y : cnt (wU j c) (thr s t') > 0).
      { destruct (Nat.eq_dec t' t) as [->|N]; [rewrite <- EU|rewrite <- Ho by exact N]; exact X. }
      destruct (I2 _ _ _ Y). split; eauto.
    + intros j c. rewrite EH. apply I4.
  - (* neutral, fresh future *)
    assert (FR : forall j c, In c (mreg s j) -> In c (upd (mreg s) (nfut s) [] j)).
    { intros j c X. rewrite upd_other; [exact X|]. specialize (I0 _ _ X). lia. }
    constructor; rewrite ?Em, ?Er, ?En.
    + intros j c X. destruct (Nat.eq_dec j (nfut s)) as [->|N]; [lia|]. rewrite upd_other in X by exact N.
      specialize (I0 _ _ X). lia.
    + intros t' j c X. apply FR. destruct (Nat.eq_dec t' t) as [->|N]; [rewrite EA in X|rewrite Ho in X by exact N]; eapply I1; eauto.
    + intros t' j c X. assert (Y : cnt (wU j c) (thr s t') > 0).
      { destruct (Nat.eq_dec t' t) as [->|N]; [rewrite <- EU|rewrite <- Ho by exact N]; exact X. }
      destruct (I2 _ _ _ Y). split; eauto.
    + intros j c X. destruct (Nat.eq_dec j (nfut s)) as [->|N]; [rewrite upd_same in X; destruct X|].
      rewrite upd_other in X by exact N. apply FR. apply I3. exact X.
    + intros j c. rewrite EH. intros X. apply FR. apply I4. exact X.
  - (* register *)
    assert (FR : forall j' c', In c' (mreg s j') -> In c' (upd (mreg s) j (c :: mreg s j) j')).
    { intros j' c' X. destruct (Nat.eq_dec j' j) as [->|N]; [rewrite upd_same; right; exact X|rewrite upd_other by exact N; exact X]. }
    constructor; rewrite ?Em, ?Er, ?En, ?Eh, ?Ems.
    + intros j' c' X. destruct (Nat.eq_dec j' j) as [->|N]; [exact Lj|]. rewrite upd_other in X by exact N. eauto.
    + intros t' j' c'. destruct (Nat.eq_dec t' t) as [->|N]; [rewrite E0|rewrite Ho by exact N; intros X; apply FR; eauto].
      cnt_norm. intros X. assert (Y : ind j c j' c' > 0) by (unfold ind; lia).
      apply ind_pos in Y. destruct Y as [-> ->]. rewrite upd_same. left; reflexivity.
    + intros t' j' c'. destruct (Nat.eq_dec t' t) as [->|N]; [rewrite E0; cnt_norm; lia|rewrite Ho by exact N].
      intros X. destruct (I2 _ _ _ X). split; auto.
    + intros j' c' X. apply FR. eauto.
    + intros j' c' X. apply FR. eauto.
  - (* add_done_callback on a done future *)
    assert (HA : forall j' c', cnt (wA j' c') (thr s t) = ind j c j' c' + cnt (wA j' c') rest) by (intros; rewrite Et; cnt_norm; reflexivity).
    assert (HU : forall j' c', cnt (wU j' c') (thr s t) = cnt (wU j' c') rest) by (intros; rewrite Et; cnt_norm; reflexivity).
    constructor; rewrite ?Em, ?Er, ?En, ?Eh, ?Ems; auto.
    + intros t' j' c'. destruct (Nat.eq_dec t' t) as [->|N]; [rewrite E0|rewrite Ho by exact N; apply I1].
      cnt_norm. intros X. apply (I1 t). rewrite HA. lia.
    + intros t' j' c'. destruct (Nat.eq_dec t' t) as [->|N]; [rewrite E0|rewrite Ho by exact N; apply I2].
      cnt_norm. fold (ind j c j' c'). intros X. destruct (ind j c j' c') eqn:Ei.
      * apply (I2 t). rewrite HU. lia.
      * assert (Y : ind j c j' c' > 0) by lia. apply ind_pos in Y. destruct Y as [-> ->]. split; [|exact D].
        apply (I1 t). rewrite HA, ind_same. lia.
  - (* add_done_callback on a pending future *)
    assert (HA : forall j' c', cnt (wA j' c') (thr s t) = ind j c j' c' + cnt (wA j' c') rest) by (intros; rewrite Et; cnt_norm; reflexivity).
    assert (HU : forall j' c', cnt (wU j' c') (thr s t) = cnt (wU j' c') rest) by (intros; rewrite Et; cnt_norm; reflexivity).
    constructor; rewrite ?Em, ?Er, ?En, ?Eh, ?Ems; auto.
    + intros t' j' c'. destruct (Nat.eq_dec t' t) as [->|N]; [rewrite E0|rewrite Ho by exact N; apply I1].
      cnt_norm. intros X. apply (I1 t). rewrite HA. lia.
    + intros t' j' c'. destruct (Nat.eq_dec t' t) as [->|N]; [rewrite E0|rewrite Ho by exact N; apply I2].
      cnt_norm. intros X. apply (I2 t). rewrite HU. lia.
    + intros j' c' X. destruct (Nat.eq_dec j' j) as [->|N]; [rewrite upd_same in X|rewrite upd_other in X by exact N; auto].
      apply in_app_or in X. destruct X as [X|[<-|[]]]; auto. apply (I1 t). rewrite HA, ind_same. lia.
  - (* flush *)
    assert (HA : forall j' c', cnt (wA j' c') (thr s t) = cnt (wA j' c') rest) by (intros; rewrite Et; cnt_norm; reflexivity).
    assert (HU : forall j' c', cnt (wU j' c') (thr s t) = cnt (wU j' c') rest) by (intros; rewrite Et; cnt_norm; reflexivity).
    constructor; rewrite ?Em, ?Er, ?En, ?Eh, ?Ems; auto.
    + intros t' j' c'. destruct (Nat.eq_dec t' t) as [->|N]; [rewrite E0|rewrite Ho by exact N; apply I1].
      cnt_norm. intros X. apply (I1 t). rewrite HA. lia.
    + intros t' j' c'. destruct (Nat.eq_dec t' t) as [->|N]; [rewrite E0|rewrite Ho by exact N; apply I2].
      cnt_norm. intros X. destruct (cnt (wU j' c') rest) eqn:Er0.
      * destruct (Nat.eqb j' j) eqn:Ej; [|lia]. apply Nat.eqb_eq in Ej; subst j'.
        split; [|eapply FL; eauto]. apply I3. apply cnt_eqb_pos. lia.
      * apply (I2 t). rewrite HU. lia.
    + intros j' c' X. destruct (Nat.eq_dec j' j) as [->|N]; [rewrite upd_same in X; destruct X|rewrite upd_other in X by exact N; auto].
  - (* a callback runs *)
    assert (HA : forall j' c', cnt (wA j' c') (thr s t) = cnt (wA j' c') rest) by (intros; rewrite Et; cnt_norm; reflexivity).
    assert (HU : forall j' c', cnt (wU j' c') (thr s t) = ind j c j' c' + cnt (wU j' c') rest) by (intros; rewrite Et; cnt_norm; reflexivity).
    constructor; rewrite ?Em, ?Er, ?En, ?Eh, ?Ems; auto.
    + intros t' j' c'. destruct (Nat.eq_dec t' t) as [->|N]; [rewrite E0|rewrite Ho by exact N; apply I1].
      intros X. apply (I1 t). rewrite HA. lia.
    + intros t' j' c'. destruct (Nat.eq_dec t' t) as [->|N]; [rewrite E0|rewrite Ho by exact N; apply I2].
      intros X. apply (I2 t). rewrite HU. lia.
    + intros j' c'. cnt_norm. fold (ind j c j' c'). intros X. destruct (ind j c j' c') eqn:Ei; [apply I4; lia|].
      assert (Y : ind j c j' c' > 0) by lia. apply ind_pos in Y. destruct Y as [-> ->].
      apply (I2 t). rewrite HU, ind_same. lia.
Qed.

Lemma cex_trans s s0 t : Cr s -> Cex s -> cbtrans s s0 t -> Cex s0.
Proof.
  intros [I0 I1 I2 I3 I4] IE (Ho & E & ST & FL). unfold Cex in *.
  assert (OT : forall (w : nat -> nat -> instr -> bool) j c t1, t1 <> t -> cnt (w j c) (thr s t1) > 0 -> exists t2, cnt (w j c) (thr s0 t2) > 0).
  { intros w j c t1 N X. exists t1. rewrite Ho by exact N. exact X. }
  destruct E as [EA EU EH [(Em & Er & En)|(Em & Er & En)] | j c Et E0 Er Nc Lj Em Eh Ems En
                | j c rest Et E0 D Em Er Eh Ems En | j c rest Et E0 D Em Er Eh Ems En
                | j rest Et E0 Em Er Eh Ems En | j c b rest Et E0 Eh Em Er Ems En].
  - intros j' c'. rewrite Er, Em, EH. intros X. destruct (IE _ _ X) as [[t1 Y]|[Y|[[t1 Y]|Y]]]; auto.
    + left. destruct (Nat.eq_dec t1 t) as [->|N]; [exists t; rewrite EA; exact Y|eauto].
    + right; right; left. destruct (Nat.eq_dec t1 t) as [->|N]; [exists t; rewrite EU; exact Y|eauto].
  - intros j' c'. rewrite Er, Em, EH. intros X.
    destruct (Nat.eq_dec j' (nfut s)) as [->|Nj]; [rewrite upd_same in X; destruct X|]. rewrite upd_other in X |- * by exact Nj.
    destruct (IE _ _ X) as [[t1 Y]|[Y|[[t1 Y]|Y]]]; auto.
    + left. destruct (Nat.eq_dec t1 t) as [->|N]; [exists t; rewrite EA; exact Y|eauto].
    + right; right; left. destruct (Nat.eq_dec t1 t) as [->|N]; [exists t; rewrite EU; exact Y|eauto].
  - intros j' c'. rewrite Er, Em, Eh. intros X.
    assert (X' : (j' = j /\ c' = c) \/ In c' (mreg s j')).
    { destruct (Nat.eq_dec j' j) as [->|Nj]; [rewrite upd_same in X; destruct X as [<-|X]; auto|rewrite upd_other in X by exact Nj; auto]. }
    destruct X' as [[-> ->]|X'].
    + left. exists t. rewrite E0. cnt_norm. fold (ind j c j c). rewrite ind_same. lia.
    + destruct (IE _ _ X') as [[t1 Y]|[Y|[[t1 Y]|Y]]]; auto.
      * left. destruct (Nat.eq_dec t1 t) as [->|N]; [rewrite Et in Y; cnt_norm; unfold cnt in Y; simpl in Y; lia|eauto].
      * right; right; left. destruct (Nat.eq_dec t1 t) as [->|N]; [rewrite Et in Y; unfold cnt in Y; simpl in Y; lia|eauto].
  - (* add on done *)
    intros j' c'. rewrite Er, Em, Eh. intros X.
    destruct (IE _ _ X) as [[t1 Y]|[Y|[[t1 Y]|Y]]]; auto.
    + destruct (Nat.eq_dec t1 t) as [->|N]; [|left; eauto].
      rewrite Et in Y. revert Y. cnt_norm. fold (ind j c j' c'). intros Y.
      destruct (cnt (wA j' c') rest) eqn:Ec.
      * right; right; left. exists t. rewrite E0. cnt_norm. fold (ind j c j' c'). lia.
      * left. exists t. rewrite E0. cnt_norm. lia.
    + right; right; left. destruct (Nat.eq_dec t1 t) as [->|N]; [|eauto].
      exists t. rewrite Et in Y. revert Y. rewrite E0. cnt_norm. lia.
  - (* add on pending *)
    intros j' c'. rewrite Er, Em, Eh. intros X.
    assert (MM : In c' (mcbs s j') -> In c' (upd (mcbs s) j (mcbs s j ++ [c]) j')).
    { intros Y. destruct (Nat.eq_dec j' j) as [->|Nj]; [rewrite upd_same; apply in_or_app; auto|rewrite upd_other by exact Nj; exact Y]. }
    destruct (IE _ _ X) as [[t1 Y]|[Y|[[t1 Y]|Y]]]; auto.
    + destruct (Nat.eq_dec t1 t) as [->|N]; [|left; eauto].
      rewrite Et in Y. revert Y. cnt_norm. fold (ind j c j' c'). intros Y.
      destruct (cnt (wA j' c') rest) eqn:Ec.
      * assert (Z : ind j c j' c' > 0) by lia. apply ind_pos in Z. destruct Z as [-> ->].
        right; left. rewrite upd_same. apply in_or_app. right. left. reflexivity.
      * left. exists t. rewrite E0. cnt_norm. lia.
    + right; right; left. destruct (Nat.eq_dec t1 t) as [->|N]; [|eauto].
      exists t. rewrite Et in Y. revert Y. rewrite E0. cnt_norm. lia.
  - (* flush *)
    intros j' c'. rewrite Er, Em, Eh. intros X.
    destruct (IE _ _ X) as [[t1 Y]|[Y|[[t1 Y]|Y]]]; auto.
    + left. destruct (Nat.eq_dec t1 t) as [->|N]; [|eauto].
      exists t. rewrite Et in Y. revert Y. rewrite E0. cnt_norm. lia.
    + destruct (Nat.eq_dec j' j) as [->|Nj]; [|right; left; rewrite upd_other by exact Nj; exact Y].
      right; right; left. exists t. rewrite E0. cnt_norm. rewrite Nat.eqb_refl.
      apply cnt_eqb_pos in Y. lia.
    + right; right; left. destruct (Nat.eq_dec t1 t) as [->|N]; [|eauto].
      exists t. rewrite Et in Y. revert Y. rewrite E0. cnt_norm. lia.
  - (* run *)
    intros j' c'. rewrite Er, Em, Eh. intros X.
    destruct (IE _ _ X) as [[t1 Y]|[Y|[[t1 Y]|Y]]]; auto.
    + left. destruct (Nat.eq_dec t1 t) as [->|N]; [|eauto].
      exists t. rewrite Et in Y. revert Y. rewrite E0. cnt_norm. lia.
    + destruct (Nat.eq_dec t1 t) as [->|N]; [|right; right; left; eauto].
      rewrite Et in Y. revert Y. cnt_norm. fold (ind j c j' c'). intros Y.
      destruct (cnt (wU j' c') rest) eqn:Ec.
      * right; right; right. cnt_norm. fold (ind j c j' c'). lia.
      * right; right; left. exists t. rewrite E0. lia.
    + right; right; right. cnt_norm. lia.
Qed.

Definition loc_upd (loc : nat -> nat -> cbloc) (j c : nat) (v : cbloc) : nat -> nat -> cbloc :=
  fun j' c' => if Nat.eqb j' j && Nat.eqb c' c then v else loc j' c'.
Lemma isLT_same t : isLT (LT t) t = 1.
Proof. simpl. rewrite Nat.eqb_refl. reflexivity. Qed.
Lemma isLT_ge1 l t : isLT l t >= 1 -> l = LT t.
Proof. destruct l; simpl; try lia. destruct (Nat.eqb t t0) eqn:E; [apply Nat.eqb_eq in E; subst; auto|lia]. Qed.
Lemma isLT_other t t' : t' <> t -> isLT (LT t) t' = 0.
Proof. intros N. simpl. apply Nat.eqb_neq in N. rewrite N. reflexivity. Qed.
Lemma isLM_ge1 l : isLM l >= 1 -> l = LM.
Proof. destruct l; simpl; auto; lia. Qed.

(* the pair (j',c') is / is not the pair (j,c) *)
Ltac pair_cases j' j c' c :=
  let E := fresh "E" in
  destruct (Nat.eqb j' j && Nat.eqb c' c) eqn:E;
  [apply andb_prop in E; destruct E as [E1 E2]; apply Nat.eqb_eq in E1, E2; subst j' c'|].

Lemma cloc_trans_neutral s s0 t : Cr s -> Cloc s ->
  (forall t', t' <> t -> thr s0 t' = thr s t') ->
  (forall j c, cnt (wA j c) (thr s0 t) = cnt (wA j c) (thr s t)) ->
  (forall j c, cnt (wU j c) (thr s0 t) = cnt (wU j c) (thr s t)) ->
  (forall j c, cnt (wH j c) (hist s0) = cnt (wH j c) (hist s)) ->
  ((mcbs s0 = mcbs s /\ mreg s0 = mreg s /\ nfut s0 = nfut s) \/
   (mcbs s0 = upd (mcbs s) (nfut s) [] /\ mreg s0 = upd (mreg s) (nfut s) [] /\ nfut s0 = S (nfut s))) -> Cloc s0.
Proof.
  intros [I0 I1 I2 I3 I4] [loc L] Ho EA EU EH E.
  assert (TH : forall j c t', cnt (wA j c) (thr s0 t') + cnt (wU j c) (thr s0 t') = cnt (wA j c) (thr s t') + cnt (wU j c) (thr s t')).
  { intros j c t'. destruct (Nat.eq_dec t' t) as [->|N]; [rewrite EA, EU|rewrite Ho by exact N]; reflexivity. }
  destruct E as [(Em & Er & En)|(Em & Er & En)].
  - exists loc. intros j c. destruct (L j c) as (L1 & L2 & L3). rewrite Em, EH. repeat split; auto.
    intros t'. rewrite TH. apply L1.
  - exists (fun j c => if Nat.eqb j (nfut s) then LN else loc j c). intros j c. destruct (L j c) as (L1 & L2 & L3).
    rewrite Em, EH. destruct (Nat.eqb j (nfut s)) eqn:Ej.
    + apply Nat.eqb_eq in Ej. subst j. rewrite upd_same. simpl.
      assert (NR : ~ In c (mreg s (nfut s))). { intros X. apply I0 in X. lia. }
      repeat split.
      * intros t'. rewrite TH.
        destruct (cnt (wA (nfut s) c) (thr s t')) eqn:EA'; [|exfalso; apply NR; apply (I1 t'); lia].
        destruct (cnt (wU (nfut s) c) (thr s t')) eqn:EU'; [lia|exfalso; apply NR; apply (I2 t'); lia].
      * unfold cnt; simpl; lia.
      * destruct (cnt (wH (nfut s) c) (hist s)) eqn:EH'; [lia|exfalso; apply NR; apply I4; lia].
    + apply Nat.eqb_neq in Ej. rewrite upd_other by exact Ej. repeat split; auto.
      intros t'. rewrite TH. apply L1.
Qed.

Lemma cloc_trans_reg s s0 t j c : Cr s -> Cloc s ->
  (forall t', t' <> t -> thr s0 t' = thr s t') ->
  thr s t = [] -> thr s0 t = [IAcqM j; IDoneA j c] -> ~ In c (mreg s j) ->
  mcbs s0 = mcbs s -> hist s0 = hist s -> Cloc s0.
Proof.
  intros [I0 I1 I2 I3 I4] [loc L] Ho Et E0 Nc Em Eh.
  exists (loc_upd loc j c (LT t)). intros j' c'. destruct (L j' c') as (L1 & L2 & L3).
  rewrite Em, Eh. unfold loc_upd. pair_cases j' j c' c.
  - repeat split.
    + intros t'. destruct (Nat.eq_dec t' t) as [->|N].
      * rewrite E0, isLT_same. cnt_norm. rewrite !Nat.eqb_refl. simpl. lia.
      * rewrite Ho by exact N.
        destruct (cnt (wA j c) (thr s t')) eqn:EA'; [|exfalso; apply Nc; apply (I1 t'); lia].
        destruct (cnt (wU j c) (thr s t')) eqn:EU'; [lia|exfalso; apply Nc; apply (I2 t'); lia].
    + destruct (cnt (Nat.eqb c) (mcbs s j)) eqn:EM; [lia|exfalso; apply Nc; apply I3; apply cnt_eqb_pos; lia].
    + destruct (cnt (wH j c) (hist s)) eqn:EH'; [lia|exfalso; apply Nc; apply I4; lia].
  - repeat split; auto. intros t'. destruct (Nat.eq_dec t' t) as [->|N]; [|rewrite Ho by exact N; apply L1].
    rewrite E0. cnt_norm. rewrite E. simpl. lia.
Qed.

Lemma cloc_trans_add_done s s0 t j c rest : Cloc s ->
  (forall t', t' <> t -> thr s0 t' = thr s t') ->
  thr s t = IDoneA j c :: rest -> thr s0 t = IRelM j :: IUserCb j c true :: IRet :: rest ->
  mcbs s0 = mcbs s -> hist s0 = hist s -> Cloc s0.
Proof.
  intros [loc L] Ho Et E0 Em Eh. exists loc. intros j' c'. destruct (L j' c') as (L1 & L2 & L3).
  rewrite Em, Eh. repeat split; auto. intros t'.
  destruct (Nat.eq_dec t' t) as [->|N]; [|rewrite Ho by exact N; apply L1].
  specialize (L1 t). rewrite Et in L1. revert L1. rewrite E0. cnt_norm. lia.
Qed.

Lemma cloc_trans_add_wait s s0 t j c rest : Cloc s ->
  (forall t', t' <> t -> thr s0 t' = thr s t') ->
  thr s t = IDoneA j c :: rest -> thr s0 t = IRelM j :: IRet :: rest ->
  mcbs s0 = upd (mcbs s) j (mcbs s j ++ [c]) -> hist s0 = hist s -> Cloc s0.
Proof.
  intros [loc L] Ho Et E0 Em Eh. exists (loc_upd loc j c LM). intros j' c'. destruct (L j' c') as (L1 & L2 & L3).
  rewrite Em, Eh. unfold loc_upd. pair_cases j' j c' c.
  - assert (LL : loc j c = LT t).
    { apply isLT_ge1. specialize (L1 t). rewrite Et in L1. revert L1. cnt_norm. rewrite !Nat.eqb_refl. simpl. lia. }
    rewrite LL in *. simpl in L2, L3. repeat split.
    + intros t'. simpl. destruct (Nat.eq_dec t' t) as [->|N].
      * specialize (L1 t). rewrite Et, isLT_same in L1. revert L1. rewrite E0. cnt_norm. rewrite !Nat.eqb_refl. simpl. lia.
      * rewrite Ho by exact N. specialize (L1 t'). rewrite isLT_other in L1 by exact N. lia.
    + rewrite upd_same. cnt_norm. rewrite Nat.eqb_refl. simpl. lia.
    + simpl. lia.
  - repeat split; auto.
    + intros t'. destruct (Nat.eq_dec t' t) as [->|N]; [|rewrite Ho by exact N; apply L1].
      specialize (L1 t). rewrite Et in L1. revert L1. rewrite E0. cnt_norm. lia.
    + destruct (Nat.eq_dec j' j) as [->|Nj]; [rewrite upd_same|rewrite upd_other by exact Nj; exact L2].
      cnt_norm. rewrite Nat.eqb_refl in E. simpl in E. rewrite E. simpl. lia.
Qed.

Lemma cloc_trans_flush s s0 t j rest : Cloc s ->
  (forall t', t' <> t -> thr s0 t' = thr s t') ->
  thr s t = IRelMCbs j :: rest -> thr s0 t = cbs_of j (mcbs s j) ++ rest ->
  mcbs s0 = upd (mcbs s) j [] -> hist s0 = hist s -> Cloc s0.
Proof.
  intros [loc L] Ho Et E0 Em Eh.
  exists (fun j' c' => if Nat.eqb j' j && (0 <? cnt (Nat.eqb c') (mcbs s j)) then LT t else loc j' c').
  intros j' c'. destruct (L j' c') as (L1 & L2 & L3). rewrite Em, Eh.
  destruct (Nat.eqb j' j) eqn:Ej; simpl.
  - apply Nat.eqb_eq in Ej. subst j'. rewrite upd_same.
    destruct (0 <? cnt (Nat.eqb c') (mcbs s j)) eqn:Ec.
    + apply Nat.ltb_lt in Ec. assert (LL : loc j c' = LM) by (apply isLM_ge1; lia).
      rewrite LL in *. simpl in L1, L2, L3. repeat split; simpl; try (first [lia | unfold cnt; simpl; lia]).
      intros t'. destruct (Nat.eq_dec t' t) as [->|N].
      * rewrite Nat.eqb_refl. specialize (L1 t). rewrite Et in L1. revert L1. rewrite E0. cnt_norm. rewrite Nat.eqb_refl. lia.
      * rewrite Ho by exact N. specialize (L1 t'). lia.
    + apply Nat.ltb_ge in Ec. repeat split; auto; [|unfold cnt; simpl; lia].
      intros t'. destruct (Nat.eq_dec t' t) as [->|N]; [|rewrite Ho by exact N; apply L1].
      specialize (L1 t). rewrite Et in L1. revert L1. rewrite E0. cnt_norm. rewrite Nat.eqb_refl. lia.
  - apply Nat.eqb_neq in Ej. rewrite upd_other by exact Ej. repeat split; auto.
    intros t'. destruct (Nat.eq_dec t' t) as [->|N]; [|rewrite Ho by exact N; apply L1].
    specialize (L1 t). rewrite Et in L1. revert L1. rewrite E0. cnt_norm.
    apply Nat.eqb_neq in Ej. rewrite Ej. lia.
Qed.

Lemma cloc_trans_run s s0 t j c b rest : Cloc s ->
  (forall t', t' <> t -> thr s0 t' = thr s t') ->
  thr s t = IUserCb j c b :: rest -> thr s0 t = rest ->
  mcbs s0 = mcbs s -> hist s0 = HCb j c :: hist s -> Cloc s0.
Proof.
  intros [loc L] Ho Et E0 Em Eh. exists (loc_upd loc j c LH). intros j' c'. destruct (L j' c') as (L1 & L2 & L3).
  rewrite Em, Eh. unfold loc_upd. pair_cases j' j c' c.
  - assert (LL : loc j c = LT t).
    { apply isLT_ge1. specialize (L1 t). rewrite Et in L1. revert L1. cnt_norm. rewrite !Nat.eqb_refl. simpl. lia. }
    rewrite LL in *. simpl in L2, L3. repeat split; simpl; try lia.
    + intros t'. destruct (Nat.eq_dec t' t) as [->|N].
      * specialize (L1 t). rewrite Et, isLT_same in L1. revert L1. rewrite E0. cnt_norm. rewrite !Nat.eqb_refl. simpl. lia.
      * rewrite Ho by exact N. specialize (L1 t'). rewrite isLT_other in L1 by exact N. lia.
    + cnt_norm. rewrite !Nat.eqb_refl. simpl. lia.
  - repeat split; auto.
    + intros t'. destruct (Nat.eq_dec t' t) as [->|N]; [|rewrite Ho by exact N; apply L1].
      specialize (L1 t). rewrite Et in L1. revert L1. rewrite E0. cnt_norm. lia.
    + cnt_norm. rewrite E. simpl. lia.
Qed.

Lemma cloc_trans s s0 t : Cr s -> Cloc s -> cbtrans s s0 t -> Cloc s0.
Proof.
  intros R C (Ho & E & _ & _). destruct E.
  - eapply cloc_trans_neutral; eauto.
  - eapply cloc_trans_reg; eauto.
  - eapply cloc_trans_add_done; eauto.
  - eapply cloc_trans_add_wait; eauto.
  - eapply cloc_trans_flush; eauto.
  - eapply cloc_trans_run; eauto.
Qed.

Lemma cf_flush_done s t j rest : Cf s -> thr s t = IRelMCbs j :: rest -> fdone (ms s j) = true.
Proof.
  intros [G _] E. specialize (G t j). unfold gF in G. rewrite E in G. simpl in G.
  destruct G as [G _]. apply G. apply Nat.eqb_refl.
Qed.
Lemma lstep_cbtrans s e s0 : lstep s e = Some s0 -> shape_all s -> Cf s -> cbtrans s s0 (tid e).
Proof.
  intros H SH C. split; [eapply lstep_thr_other; eauto|]. split; [eapply lstep_cbeff; eauto|].
  split; [eapply lstep_done_stable; eauto|]. intros; eapply cf_flush_done; eauto.
Qed.
Lemma sil_cbtrans t s s' : sil t s s' -> Cf s -> cbtrans s s' t.
Proof.
  intros H C. destruct (sil_thr _ _ _ H) as (i & r & Et & Ho & Hr).
  split; [exact Ho|]. split; [eapply sil_cbeff; eauto|].
  split; [sil_frame H; auto|]. intros; eapply cf_flush_done; eauto.
Qed.

Definition Cbt (s : st) : Prop := forall l1 j c l2, hist s = l1 ++ HCb j c :: l2 ->
  ~ In (HCb j c) l2 /\ ((exists o, In (HSet j o) l2) \/ In (HCancelled j) l2).

Lemma lstep_cbt s e s0 : lstep s e = Some s0 -> Hd s -> Cr s -> Cloc s -> Cbt s -> Cbt s0.
Proof.
  intros H D R [loc L] I. unfold Cbt in *.
  step_cases H; try exact I.
  all: intros l1 j' c' l2 E; simpl in E; try (eapply I; eauto; fail).
  all: apply app_cons_split in E; destruct E as [(-> & E1 & <-)|(l1' & -> & E)]; [|eapply I; eauto]; try discriminate E1.
  inversion E1; subst. destruct (L j' c') as (L1 & L2 & L3).
  assert (P : cnt (wU j' c') (thr s t) > 0) by (rewrite Heql; cnt_norm; rewrite !Nat.eqb_refl; simpl; lia).
  split.
  - intros X. assert (LL : loc j' c' = LT t) by (apply isLT_ge1; specialize (L1 t); lia).
    rewrite LL in L3. simpl in L3. pose proof (in_cnt_pos (wH j' c') _ _ X) as Y. simpl in Y. rewrite !Nat.eqb_refl in Y.
    specialize (Y eq_refl). lia.
  - apply (h_done _ D). apply (cb_U _ R t j' c' P).
Qed.

Definition Inv3 (s : st) : Prop := Inv2 s /\ Cf s.
Definition Ctok (s : st) : Prop := Cr s /\ Cex s /\ Cloc s /\ Cbt s.
Definition Inv4 (s : st) : Prop := Inv3 s /\ Ctok s.

Lemma cf_init : Cf init.
Proof. constructor; simpl; intros; [exact I|congruence]. Qed.
Lemma linv3 : linv Inv3.
Proof.
  apply linv_and; [apply linv2|apply cf_init| |].
  - intros s e s0 [[[SH _] B] _] [[_ B0] _] C H. eapply lstep_cf; eauto.
  - intros; eapply sil_cf; eauto.
Qed.
Lemma ctok_init : Ctok init.
Proof.
  split; [|split; [|split]].
  - constructor; simpl; intros; try contradiction; unfold cnt in *; simpl in *; lia.
  - intros j c X. destruct X.
  - exists (fun _ _ => LN). intros j c. unfold cnt; simpl. repeat split; intros; lia.
  - intros l1 j c l2 E. destruct l1; discriminate E.
Qed.
Lemma linv4 : linv Inv4.
Proof.
  apply linv_and; [apply linv3|apply ctok_init| |].
  - intros s e s0 [[[[SH _] B] D] C] _ (R & X & L & T) H.
    pose proof (lstep_cbtrans _ _ _ H SH C) as TR.
    split; [eapply cr_trans; eauto|]. split; [eapply cex_trans; eauto|]. split; [eapply cloc_trans; eauto|].
    eapply lstep_cbt; eauto.
  - intros t s s' [_ C] _ (R & X & L & T) H.
    pose proof (sil_cbtrans _ _ _ H C) as TR.
    split; [eapply cr_trans; eauto|]. split; [eapply cex_trans; eauto|]. split; [eapply cloc_trans; eauto|].
    unfold Cbt. sil_frame H. exact T.
Qed.
Lemma inv4_reach s : reachable s -> Inv4 s.
Proof. apply linv_reach; [apply linv4|]. intros s0 H; apply H. Qed.

Lemma mapfut_callback_once : forall s, reachable s -> forall l1 j c l2,
  hist s = l1 ++ HCb j c :: l2 -> ~ In (HCb j c) l2 /\ ((exists o, In (HSet j o) l2) \/ In (HCancelled j) l2).
Proof. intros s R. destruct (inv4_reach s R) as [_ (_ & _ & _ & T)]. exact T. Qed.

Lemma mapfut_callback_all_run : forall s, reachable s -> (forall t, thr s t = []) -> forall j c,
  In c (mreg s j) -> fdone (ms s j) = true -> In (HCb j c) (hist s).
Proof.
  intros s R Q j c X D. destruct (inv4_reach s R) as [[_ C] (Rg & Ex & _ & _)].
  destruct (Ex _ _ X) as [[t Y]|[Y|[[t Y]|Y]]].
  - rewrite Q in Y. unfold cnt in Y; simpl in Y; lia.
  - destruct (cf_live _ C j) as [t Lv]; [eapply cb_bnd; eauto|exact D|intros E; rewrite E in Y; destruct Y|].
    rewrite Q in Lv. discriminate Lv.
  - rewrite Q in Y. unfold cnt in Y; simpl in Y; lia.
  - apply cnt_pos_in in Y. destruct Y as (x & X1 & X2). destruct x; simpl in X2; try discriminate.
    apply andb_prop in X2. destruct X2 as [E1 E2]. apply Nat.eqb_eq in E1, E2. subst. exact X1.
Qed.
